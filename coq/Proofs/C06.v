(* C06 proofs, part 1: the assignment machine as a transition relation on the flat molecule list,
   and the generic induction principle over the arrival order. *)
From Coq Require Import ZArith List Bool Lia Permutation.
Import ListNotations.
From SCMO Require Import Lib.Val Model.C06 Proofs.C06_shape.
Open Scope Z_scope.

(* ---------------------------------------------------------------- list-of-Z equality *)
Lemma zs_eqb_eq a : forall b, zs_eqb a b = true <-> a = b.
Proof.
  induction a as [|x a IH]; intros [|y b]; cbn; split; intros H; try reflexivity; try discriminate.
  - apply andb_true_iff in H as [Hx Hr]. apply Z.eqb_eq in Hx. apply IH in Hr. now subst.
  - inversion H; subst. rewrite Z.eqb_refl. cbn. now apply IH.
Qed.
Lemma zs_eqb_refl a : zs_eqb a a = true.
Proof. now apply zs_eqb_eq. Qed.
Lemma zs_eqb_neq a b : zs_eqb a b = false <-> a <> b.
Proof.
  split.
  - intros H E. apply zs_eqb_eq in E. congruence.
  - intros H. destruct (zs_eqb a b) eqn:E; [apply zs_eqb_eq in E; contradiction|reflexivity].
Qed.

(* ---------------------------------------------------------------- offer *)
Definition rejects (c : cfg) (f : frag) (ms : list mol) : Prop := forall m, In m ms -> accepts c f m = false.

Lemma offer_spec c f ms :
  match offer c f ms with
  | Added ms' => exists l1 m l2, ms = l1 ++ m :: l2 /\ ms' = l1 ++ mol_add m f :: l2 /\
                                 accepts c f m = true /\ full c m = false /\ rejects c f l1
  | Overflowed ms' => exists l1 m l2, ms = l1 ++ m :: l2 /\ ms' = l1 ++ mol_bump m f :: l2 /\
                                      accepts c f m = true /\ full c m = true /\ rejects c f l1
  | Rejected => rejects c f ms
  end.
Proof.
  induction ms as [|m ms IH]; [cbn [offer]|rewrite offer_cons].
  - intros m [].
  - destruct (accepts c f m) eqn:Ha.
    + destruct (full c m) eqn:Hf.
      * exists [], m, ms. repeat split; auto. intros x [].
      * exists [], m, ms. repeat split; auto. intros x [].
    + destruct (offer c f ms) as [r|r|].
      * destruct IH as (l1 & m0 & l2 & -> & -> & H1 & H2 & H3).
        exists (m :: l1), m0, l2. repeat split; auto. intros x [<-|Hx]; auto.
      * destruct IH as (l1 & m0 & l2 & -> & -> & H1 & H2 & H3).
        exists (m :: l1), m0, l2. repeat split; auto. intros x [<-|Hx]; auto.
      * intros x [<-|Hx]; auto.
Qed.

(* ---------------------------------------------------------------- one arrival, seen on the flat molecule list *)
Inductive trans (c : cfg) (f : frag) : list mol -> list mol -> option mol -> Prop :=
| t_add X X' l1 m l2 : X = l1 ++ m :: l2 -> X' = l1 ++ mol_add m f :: l2 ->
    accepts c f m = true -> full c m = false -> trans c f X X' None
| t_over X X' l1 m l2 : X = l1 ++ m :: l2 -> X' = l1 ++ mol_bump m f :: l2 ->
    accepts c f m = true -> full c m = true -> trans c f X X' (Some (mol_new 1 f))
| t_new X X' l1 l2 : X = l1 ++ l2 -> X' = l1 ++ mol_new 0 f :: l2 -> rejects c f X -> trans c f X X' None.

Lemma trans_prefix c f p X X' e : trans c f X X' e -> rejects c f p -> trans c f (p ++ X) (p ++ X') e.
Proof.
  intros H Hp. inversion H; subst.
  - eapply t_add with (l1 := p ++ l1) (m := m) (l2 := l2); auto; now rewrite <- app_assoc.
  - eapply t_over with (l1 := p ++ l1) (m := m) (l2 := l2); auto; now rewrite <- app_assoc.
  - eapply t_new with (l1 := p ++ l1) (l2 := l2); try now rewrite <- app_assoc.
    intros m Hm. apply in_app_or in Hm as [Hm|Hm]; auto.
Qed.

Lemma trans_suffix c f s X X' e : trans c f X X' e -> rejects c f s -> trans c f (X ++ s) (X' ++ s) e.
Proof.
  intros H Hs. inversion H; subst.
  - eapply t_add with (l1 := l1) (m := m) (l2 := l2 ++ s); auto; now rewrite <- app_assoc.
  - eapply t_over with (l1 := l1) (m := m) (l2 := l2 ++ s); auto; now rewrite <- app_assoc.
  - eapply t_new with (l1 := l1) (l2 := l2 ++ s); try now rewrite <- app_assoc.
    intros m Hm. apply in_app_or in Hm as [Hm|Hm]; auto.
Qed.

(* a fragment can only be accepted by a molecule carrying its match_hash *)
Lemma hash_of_plain c fs : c_cls c <> 1 -> c_cls c <> 2 -> hash_of c fs = [].
Proof.
  intros H1 H2. unfold hash_of. destruct (lastf fs); [|reflexivity]. now apply key_plain.
Qed.

Lemma accepts_hash c f m : accepts c f m = true -> key c f = hash_of c (m_frags m).
Proof.
  rewrite accepts_shape. unfold accepts_spec. destruct (c_cls c =? 1) eqn:E1.
  - intros H. apply andb_true_iff in H as [H _]. now apply zs_eqb_eq.
  - destruct (c_cls c =? 2) eqn:E2.
    + intros H. apply andb_true_iff in H as [H _]. apply andb_true_iff in H as [H _]. now apply zs_eqb_eq.
    + intros _. apply Z.eqb_neq in E1, E2. rewrite hash_of_plain by assumption.
      now apply key_plain.
Qed.

(* ---------------------------------------------------------------- groups *)
Definition groups_wf (c : cfg) (gs : groups) : Prop :=
  NoDup (map fst gs) /\ forall k ms m, In (k, ms) gs -> In m ms -> hash_of c (m_frags m) = k.

Lemma hash_of_add c m f : hash_of c (m_frags (mol_add m f)) = key c f.
Proof. unfold hash_of, lastf, mol_add. cbn [m_frags]. rewrite map_app. cbn [map]. now rewrite last_last. Qed.

Lemma hash_of_new c k f : hash_of c (m_frags (mol_new k f)) = key c f.
Proof. reflexivity. Qed.

Lemma all_mols_cons k ms gs : all_mols ((k, ms) :: gs) = ms ++ all_mols gs.
Proof. reflexivity. Qed.

Lemma other_group_rejects c f gs : (forall k ms m, In (k, ms) gs -> In m ms -> hash_of c (m_frags m) = k) ->
  ~ In (key c f) (map fst gs) -> rejects c f (all_mols gs).
Proof.
  intros Hh Hk m Hm. unfold all_mols in Hm. apply in_concat in Hm as (ms & Hms & Hin).
  apply in_map_iff in Hms as ([k ms'] & <- & Hg). cbn in Hin.
  destruct (accepts c f m) eqn:Ha; [|reflexivity]. exfalso. apply Hk.
  apply accepts_hash in Ha. rewrite (Hh _ _ _ Hg Hin) in Ha. rewrite Ha.
  apply in_map_iff. now exists (k, ms').
Qed.

Lemma step_groups_spec c f gs : groups_wf c gs -> forall gs' e, step_groups c f (key c f) gs = (gs', e) ->
  trans c f (all_mols gs) (all_mols gs') e /\ groups_wf c gs' /\
  (forall m, In m (all_mols gs') -> In m (all_mols gs) \/ (exists m0, In m0 (all_mols gs) /\ (m = mol_add m0 f \/ m = mol_bump m0 f)) \/ m = mol_new 0 f) /\
  (forall k, In k (map fst gs') -> In k (map fst gs) \/ k = key c f).
Proof.
  induction gs as [|[k' ms] gs IH]; intros [Hnd Hh] gs' e Hs; cbn [step_groups] in Hs.
  - inversion Hs; subst. split; [|split; [|split]].
    + eapply t_new with (l1 := []) (l2 := []); try reflexivity. intros m [].
    + split; [cbn; constructor; [intros []|constructor]|].
      intros k ms m [E|[]] Hm. inversion E; subst. destruct Hm as [<-|[]]. reflexivity.
    + intros m Hm. cbn in Hm. destruct Hm as [<-|[]]. auto.
    + intros k [<-|[]]. now right.
  - cbn [map fst] in Hnd. apply NoDup_cons_iff in Hnd as [Hk' Hnd].
    assert (Hh' : forall k ms0 m, In (k, ms0) gs -> In m ms0 -> hash_of c (m_frags m) = k)
      by (intros; eapply Hh; [right; eassumption|assumption]).
    destruct (zs_eqb (key c f) k') eqn:Ek.
    + apply zs_eqb_eq in Ek. subst k'.
      assert (Hrest : rejects c f (all_mols gs)) by (apply other_group_rejects; assumption).
      unfold step_group in Hs. pose proof (offer_spec c f ms) as Ho.
      destruct (offer c f ms) as [r|r|]; inversion Hs; subst; clear Hs; rewrite !all_mols_cons.
      * destruct Ho as (l1 & m & l2 & -> & -> & Ha & Hf & Hr). split; [|split; [|split]]; [| | |intros k Hk; now left].
        -- apply trans_suffix; [|assumption]. eapply t_add; eauto.
        -- split; [cbn; constructor; assumption|].
           intros k ms0 m0 [E|Hg] Hm; [|eapply Hh'; eassumption]. inversion E; subst.
           apply in_app_or in Hm as [Hm|[<-|Hm]].
           ++ eapply Hh; [left; reflexivity|]. apply in_or_app; now left.
           ++ apply hash_of_add.
           ++ eapply Hh; [left; reflexivity|]. apply in_or_app; right; now right.
        -- intros m0 Hm. rewrite <- app_assoc in Hm. apply in_app_or in Hm as [Hm|[<-|Hm]].
           ++ left. rewrite <- app_assoc. apply in_or_app; now left.
           ++ right; left. exists m. split; [|now left]. rewrite <- app_assoc. apply in_or_app; right; now left.
           ++ left. rewrite <- app_assoc. apply in_or_app; right; now right.
      * destruct Ho as (l1 & m & l2 & -> & -> & Ha & Hf & Hr). split; [|split; [|split]]; [| | |intros k Hk; now left].
        -- apply trans_suffix; [|assumption]. eapply t_over; eauto.
        -- split; [cbn; constructor; assumption|].
           intros k ms0 m0 [E|Hg] Hm; [|eapply Hh'; eassumption]. inversion E; subst.
           apply in_app_or in Hm as [Hm|[<-|Hm]].
           ++ eapply Hh; [left; reflexivity|]. apply in_or_app; now left.
           ++ cbn [mol_bump m_frags]. eapply Hh; [left; reflexivity|]. apply in_or_app; right; now left.
           ++ eapply Hh; [left; reflexivity|]. apply in_or_app; right; now right.
        -- intros m0 Hm. rewrite <- app_assoc in Hm. apply in_app_or in Hm as [Hm|[<-|Hm]].
           ++ left. rewrite <- app_assoc. apply in_or_app; now left.
           ++ right; left. exists m. split; [|now right]. rewrite <- app_assoc. apply in_or_app; right; now left.
           ++ left. rewrite <- app_assoc. apply in_or_app; right; now right.
      * split; [|split; [|split]]; [| | |intros k Hk; now left].
        -- rewrite <- app_assoc. eapply t_new with (l1 := ms) (l2 := all_mols gs); try reflexivity.
           intros m Hm. apply in_app_or in Hm as [Hm|Hm]; auto.
        -- split; [cbn; constructor; assumption|].
           intros k ms0 m0 [E|Hg] Hm; [|eapply Hh'; eassumption]. inversion E; subst.
           apply in_app_or in Hm as [Hm|[<-|[]]]; [|reflexivity].
           eapply Hh; [left; reflexivity|assumption].
        -- intros m0 Hm. rewrite <- app_assoc in Hm. apply in_app_or in Hm as [Hm|[<-|Hm]]; auto.
           ++ left. apply in_or_app; now left.
           ++ left. apply in_or_app; now right.
    + destruct (step_groups c f (key c f) gs) as [gs'' e'] eqn:Es. inversion Hs; subst; clear Hs.
      destruct (IH (conj Hnd Hh') _ _ eq_refl) as (Ht & [Hnd' Hh''] & Hm' & Hk''). rewrite !all_mols_cons.
      assert (Hrej : rejects c f ms).
      { intros m Hm. destruct (accepts c f m) eqn:Ha; [|reflexivity]. exfalso.
        apply accepts_hash in Ha. rewrite (Hh k' ms m) in Ha; [|now left|assumption].
        apply zs_eqb_neq in Ek. congruence. }
      split; [|split; [|split]].
      * now apply trans_prefix.
      * split.
        -- cbn [map fst]. constructor; [|assumption].
           intros Hin. destruct (Hk'' _ Hin) as [H|H]; [contradiction|].
           apply zs_eqb_neq in Ek. congruence.
        -- intros k ms0 m0 [E|Hg] Hm; [inversion E; subst; eapply Hh; [left; reflexivity|assumption]|].
           eapply Hh''; eassumption.
      * intros m Hm. apply in_app_or in Hm as [Hm|Hm].
        -- left. apply in_or_app; now left.
        -- destruct (Hm' _ Hm) as [H|[(m0 & H0 & H)|H]]; auto.
           ++ left. apply in_or_app; now right.
           ++ right; left. exists m0. split; [apply in_or_app; now right|assumption].
      * intros k [<-|Hk]; [left; now left|]. destruct (Hk'' _ Hk) as [H|H]; [left; now right|now right].
Qed.

(* ---------------------------------------------------------------- induction over the arrival order *)
Definition st0 : state := {| st_groups := []; st_emitted := [] |}.
Definition emit_of (c : cfg) (e : option mol) : list mol :=
  match e with Some m => if c_yover c then [m] else [] | None => [] end.

Lemma step_cases c st f : groups_wf c (st_groups st) ->
  groups_wf c (st_groups (step c st f)) /\
  ((f_valid f = false /\ st_groups (step c st f) = st_groups st /\
    st_emitted (step c st f) = st_emitted st ++ (if c_yinv c then [mol_new 2 f] else [])) \/
   (f_valid f = true /\ exists e, trans c f (all_mols (st_groups st)) (all_mols (st_groups (step c st f))) e /\
    st_emitted (step c st f) = st_emitted st ++ emit_of c e)).
Proof.
  intros Hwf. unfold step. destruct (f_valid f) eqn:Hv; cbn [negb].
  - destruct (step_groups c f (key c f) (st_groups st)) as [gs' e] eqn:Es.
    destruct (step_groups_spec c f _ Hwf _ _ Es) as (Ht & Hwf' & _). cbn [st_groups st_emitted].
    split; [assumption|]. right. split; [reflexivity|]. exists e. split; [assumption|].
    unfold emit_of. destruct e; [destruct (c_yover c)|]; now rewrite ?app_nil_r.
  - destruct (c_yinv c); cbn [st_groups st_emitted]; (split; [assumption|]); left; repeat split; now rewrite ?app_nil_r.
Qed.

Section Invariant.
  Variable c : cfg.
  Variable P : list frag -> list mol -> list mol -> Prop.   (* arrived prefix, cached molecules (flat), emitted *)
  Hypothesis P0 : P [] [] [].
  Hypothesis Pinv : forall pre X E f, P pre X E -> f_valid f = false ->
    P (pre ++ [f]) X (E ++ (if c_yinv c then [mol_new 2 f] else [])).
  Hypothesis Pval : forall pre X E f X' e, P pre X E -> f_valid f = true -> trans c f X X' e ->
    P (pre ++ [f]) X' (E ++ emit_of c e).

  Lemma fold_inv frags : forall pre st, groups_wf c (st_groups st) -> P pre (all_mols (st_groups st)) (st_emitted st) ->
    P (pre ++ frags) (all_mols (st_groups (fold_left (step c) frags st))) (st_emitted (fold_left (step c) frags st)).
  Proof.
    induction frags as [|f frags IH]; intros pre st Hwf HP; cbn [fold_left].
    - now rewrite app_nil_r.
    - destruct (step_cases c st f Hwf) as (Hwf' & [(Hv & Hg & He)|(Hv & e & Ht & He)]).
      + replace (pre ++ f :: frags) with ((pre ++ [f]) ++ frags) by now rewrite <- app_assoc.
        apply IH; [assumption|]. rewrite Hg, He. now apply Pinv.
      + replace (pre ++ f :: frags) with ((pre ++ [f]) ++ frags) by now rewrite <- app_assoc.
        apply IH; [assumption|]. rewrite He. eapply Pval; eassumption.
  Qed.

  Lemma run_inv frags : let st := fold_left (step c) frags st0 in P frags (all_mols (st_groups st)) (st_emitted st).
  Proof.
    cbn zeta. apply (fold_inv frags [] st0); [|exact P0].
    split; [constructor|intros k ms m []].
  Qed.
End Invariant.

Lemma assign_some c frags out : assign c frags = Some out ->
  (cap_bad c = true /\ out = [] /\ forall f, In f frags -> needs_mol c f = false) \/
  (cap_bad c = false /\ out = assign_ok c frags).
Proof.
  unfold assign. destruct (cap_bad c).
  - destruct (existsb (needs_mol c) frags) eqn:E; [discriminate|]. intros H; inversion H; subst. left.
    repeat split. intros f Hf. destruct (needs_mol c f) eqn:En; [|reflexivity].
    assert (existsb (needs_mol c) frags = true) by (apply existsb_exists; now exists f). congruence.
  - intros H; inversion H. now right.
Qed.

Lemma trans_in c f X X' e m' : trans c f X X' e -> In m' X' ->
  In m' X \/
  (exists m, In m X /\ accepts c f m = true /\
     ((full c m = false /\ m' = mol_add m f /\ e = None) \/ (full c m = true /\ m' = mol_bump m f /\ e = Some (mol_new 1 f)))) \/
  (m' = mol_new 0 f /\ rejects c f X /\ e = None).
Proof.
  intros H Hin. inversion H; subst; apply in_app_or in Hin as [Hin|[<-|Hin]].
  - left. apply in_or_app; now left.
  - right; left. exists m. split; [apply in_or_app; right; now left|]. split; [assumption|]. left. auto.
  - left. apply in_or_app; right; now right.
  - left. apply in_or_app; now left.
  - right; left. exists m. split; [apply in_or_app; right; now left|]. split; [assumption|]. right. auto.
  - left. apply in_or_app; right; now right.
  - left. apply in_or_app; now left.
  - right; right. auto.
  - left. apply in_or_app; now right.
Qed.

(* ---------------------------------------------------------------- structure of the result *)
Definition cached_ok (c : cfg) (m : mol) : Prop :=
  m_kind m = 0 /\ m_frags m <> [] /\ (forall f, In f (m_frags m) -> f_valid f = true) /\ (m_ovf m <> [] -> full c m = true).
Definition emitted_ok (m : mol) : Prop :=
  (m_kind m = 1 \/ m_kind m = 2) /\ m_ovf m = [] /\ exists f, m_frags m = [f] /\ (m_kind m = 1 -> f_valid f = true) /\ (m_kind m = 2 -> f_valid f = false).

Lemma full_bump c m f : full c (mol_bump m f) = full c m.
Proof. reflexivity. Qed.

Lemma basic_inv c frags : let st := fold_left (step c) frags st0 in
  (forall m, In m (all_mols (st_groups st)) -> cached_ok c m) /\ (forall m, In m (st_emitted st) -> emitted_ok m).
Proof.
  apply (run_inv c (fun _ X E => (forall m, In m X -> cached_ok c m) /\ (forall m, In m E -> emitted_ok m))).
  - split; intros m [].
  - intros pre X E f [HX HE] Hv. split; [assumption|]. intros m Hm. apply in_app_or in Hm as [Hm|Hm]; [auto|].
    destruct (c_yinv c); [|destruct Hm]. destruct Hm as [<-|[]]. split; [now right|]. split; [reflexivity|].
    exists f. repeat split; cbn; congruence.
  - intros pre X E f X' e [HX HE] Hv Ht. split.
    + intros m' Hm'. destruct (trans_in _ _ _ _ _ _ Ht Hm') as [H|[(m & Hm & Ha & [(Hf & -> & _)|(Hf & -> & _)])|(-> & _)]].
      * auto.
      * destruct (HX _ Hm) as (Hk & Hne & Hval & Hov). split; [assumption|]. split; [|split].
        -- cbn. intros E0. apply app_eq_nil in E0 as [_ E0]. discriminate.
        -- cbn. intros g Hg. apply in_app_or in Hg as [Hg|[<-|[]]]; auto.
        -- cbn [mol_add m_ovf]. intros Ho. apply Hov in Ho. congruence.
      * destruct (HX _ Hm) as (Hk & Hne & Hval & Hov). split; [assumption|]. split; [assumption|]. split; [assumption|].
        intros _. now rewrite full_bump.
      * split; [reflexivity|]. split; [cbn; discriminate|]. split; [cbn; intros g [<-|[]]; assumption|]. cbn. congruence.
    + intros m Hm. apply in_app_or in Hm as [Hm|Hm]; [auto|]. inversion Ht; subst; cbn in Hm; try destruct Hm.
      destruct (c_yover c); [|destruct Hm]. destruct Hm as [<-|[]]. split; [now left|]. split; [reflexivity|].
      exists f. repeat split; cbn; congruence.
Qed.

(* ---------------------------------------------------------------- every fragment in exactly one molecule *)
Definition frs (l : list mol) : list frag := concat (map m_frags l).
Lemma frs_app a b : frs (a ++ b) = frs a ++ frs b.
Proof. unfold frs. now rewrite map_app, concat_app. Qed.
Lemma frs_cons m l : frs (m :: l) = m_frags m ++ frs l.
Proof. reflexivity. Qed.

Lemma filter_snoc {A} (p : A -> bool) l x : filter p (l ++ [x]) = filter p l ++ (if p x then [x] else []).
Proof. rewrite filter_app. cbn. now destruct (p x). Qed.

Lemma partition_inv c frags : c_yover c = true -> let st := fold_left (step c) frags st0 in
  Permutation (frs (st_emitted st ++ all_mols (st_groups st))) (filter (needs_mol c) frags).
Proof.
  intros Hy. apply (run_inv c (fun pre X E => Permutation (frs (E ++ X)) (filter (needs_mol c) pre))).
  - constructor.
  - intros pre X E f HP Hv. rewrite filter_snoc. unfold needs_mol at 2. rewrite Hv. cbn [orb].
    destruct (c_yinv c); [|now rewrite !app_nil_r].
    rewrite <- app_assoc, !frs_app. cbn [app]. rewrite frs_cons. cbn [mol_new m_frags app].
    rewrite frs_app in HP. apply Permutation_sym. apply Permutation_trans with (f :: filter (needs_mol c) pre).
    + apply Permutation_sym, Permutation_cons_append.
    + apply Permutation_cons_app. now apply Permutation_sym.
  - intros pre X E f X' e HP Hv Ht. rewrite filter_snoc. unfold needs_mol at 2. rewrite Hv. cbn [orb].
    apply Permutation_trans with (f :: filter (needs_mol c) pre); [|apply Permutation_cons_append].
    rewrite frs_app in HP. inversion Ht; subst; unfold emit_of; rewrite ?Hy, ?app_nil_r, !frs_app, ?frs_cons in *.
    + cbn [mol_add m_frags]. rewrite <- !app_assoc. cbn [app].
      replace (frs E ++ frs l1 ++ m_frags m ++ f :: frs l2) with ((frs E ++ frs l1 ++ m_frags m) ++ f :: frs l2)
        by now rewrite <- !app_assoc.
      apply Permutation_sym, Permutation_cons_app. rewrite <- !app_assoc. now apply Permutation_sym.
    + cbn [mol_bump m_frags mol_new app frs map concat]. rewrite <- app_assoc. cbn [app].
      apply Permutation_sym, Permutation_cons_app. now apply Permutation_sym.
    + cbn [mol_new m_frags app].
      replace (frs E ++ frs l1 ++ f :: frs l2) with ((frs E ++ frs l1) ++ f :: frs l2) by now rewrite <- app_assoc.
      apply Permutation_sym, Permutation_cons_app. rewrite <- app_assoc. now apply Permutation_sym.
Qed.

(* ---------------------------------------------------------------- TF accounting: every valid fragment is counted once *)
Definition tfn (m : mol) : nat := length (m_frags m) + length (m_ovf m).
Definition tf_sum (l : list mol) : nat := list_sum (map tfn l).
Lemma tf_sum_app a b : tf_sum (a ++ b) = (tf_sum a + tf_sum b)%nat.
Proof. unfold tf_sum. now rewrite map_app, list_sum_app. Qed.

Lemma tf_inv c frags : let st := fold_left (step c) frags st0 in
  tf_sum (all_mols (st_groups st)) = length (filter f_valid frags).
Proof.
  apply (run_inv c (fun pre X E => tf_sum X = length (filter f_valid pre))).
  - reflexivity.
  - intros pre X E f HP Hv. rewrite filter_snoc, Hv, app_nil_r. assumption.
  - intros pre X E f X' e HP Hv Ht. rewrite filter_snoc, Hv, app_length. cbn [length]. rewrite <- HP.
    inversion Ht; subst; rewrite !tf_sum_app; unfold tf_sum; cbn [map list_sum]; unfold tfn; cbn [mol_add mol_bump mol_new m_frags m_ovf];
      rewrite ?app_length; cbn [length]; unfold list_sum; cbn [fold_right]; lia.
Qed.

(* ---------------------------------------------------------------- write_tags *)
Lemma tags_from_length fx n over rc fs : length (tags_from fx n over rc fs) = length fs.
Proof. revert rc; induction fs as [|f fs IH]; intros rc; cbn; [reflexivity|now rewrite IH]. Qed.

Lemma tags_from_nth n over fs : 0 <= n -> forall rc i x, 0 <= rc -> nth_error (tags_from true n over rc fs) i = Some x ->
  exists f, nth_error fs i = Some f /\ t_id x = f_id f /\ t_rc x = rc + Z.of_nat i /\ t_af x = n /\ t_tf x = n + over /\
            t_qc x = negb (f_valid f) /\ t_dup x = (0 <? rc + Z.of_nat i).
Proof.
  intros Hn. induction fs as [|f fs IH]; intros rc i x Hrc H.
  - destruct i; discriminate.
  - rewrite tags_from_cons in H by assumption. destruct i as [|i]; cbn [nth_error] in *.
    + inversion H; subst; clear H. exists f. cbn. rewrite Z.add_0_r. repeat split; reflexivity.
    + apply IH in H as (g & Hg & H1 & H2 & H3 & H4 & H5 & H6); [|lia]. exists g.
      replace (rc + Z.of_nat (S i)) with (rc + 1 + Z.of_nat i) by lia. repeat split; assumption.
Qed.

Lemma tags_from_nodup_later n over fs : 0 <= n -> forall rc, 0 < rc ->
  filter (fun x => negb (t_dup x)) (tags_from true n over rc fs) = [].
Proof.
  intros Hn. induction fs as [|f fs IH]; intros rc Hrc; [reflexivity|]. rewrite tags_from_cons by lia. cbn [filter t_dup].
  destruct (0 <? rc) eqn:E; [|apply Z.ltb_ge in E; lia]. cbn. apply IH. lia.
Qed.

Lemma write_tags_one_primary m : m_frags m <> [] ->
  exists x, filter (fun x => negb (t_dup x)) (write_tags true m) = [x] /\ hd_error (write_tags true m) = Some x.
Proof.
  unfold write_tags. destruct (m_frags m) as [|f fs] eqn:Ef; [congruence|]. intros _.
  rewrite tags_from_cons by lia.
  eexists. split; [|reflexivity]. cbn [filter t_dup]. cbn. rewrite tags_from_nodup_later by lia. reflexivity.
Qed.

Lemma write_tags_nth m i x : nth_error (write_tags true m) i = Some x ->
  exists f, nth_error (m_frags m) i = Some f /\ t_id x = f_id f /\ t_rc x = Z.of_nat i /\
            t_af x = Z.of_nat (length (m_frags m)) /\ t_tf x = Z.of_nat (length (m_frags m)) + m_over m /\
            t_qc x = negb (f_valid f) /\ t_dup x = (0 <? Z.of_nat i).
Proof. unfold write_tags. intros H. apply tags_from_nth in H; [exact H|lia|lia]. Qed.

(* unpatched write_tags (duplicate bit only ever set): a molecule whose first fragment arrives flagged has no primary *)
Definition d9_frag (id : Z) (dup : bool) : frag :=
  {| f_id := id; f_cell := 0; f_strand := 0; f_contig := 0; f_site := 1000; f_end := 0; f_umi := [65; 65; 65];
     f_valid := true; f_dup := dup |}.
Definition d9_cfg (fx : bool) : cfg :=
  {| c_cls := 1; c_d := 0; c_r := 0; c_cap := None; c_yinv := true; c_yover := true; c_fixed := fx |}.
Lemma d9_refuted : exists frags out m, assign (d9_cfg false) frags = Some out /\ In m out /\
  filter (fun x => negb (t_dup x)) (write_tags false m) = [].
Proof.
  exists [d9_frag 0 true; d9_frag 1 true], [{| m_frags := [d9_frag 0 true; d9_frag 1 true]; m_ovf := []; m_kind := 0 |}].
  eexists. split; [vm_compute; reflexivity|]. split; [now left|]. vm_compute. reflexivity.
Qed.

Lemma cached_ok_trans c f X X' e : f_valid f = true -> trans c f X X' e ->
  (forall m, In m X -> cached_ok c m) -> forall m, In m X' -> cached_ok c m.
Proof.
  intros Hv Ht HX m' Hm'.
  destruct (trans_in _ _ _ _ _ _ Ht Hm') as [H|[(m & Hm & Ha & [(Hf & -> & _)|(Hf & -> & _)])|(-> & _)]].
  - auto.
  - destruct (HX _ Hm) as (Hk & Hne & Hval & Hov). split; [assumption|]. split; [|split].
    + cbn. intros E0. apply app_eq_nil in E0 as [_ E0]. discriminate.
    + cbn. intros g Hg. apply in_app_or in Hg as [Hg|[<-|[]]]; auto.
    + cbn [mol_add m_ovf]. intros Ho. apply Hov in Ho. congruence.
  - destruct (HX _ Hm) as (Hk & Hne & Hval & Hov). split; [assumption|]. split; [assumption|]. split; [assumption|].
    intros _. now rewrite full_bump.
  - split; [reflexivity|]. split; [cbn; discriminate|]. split; [cbn; intros g [<-|[]]; assumption|]. cbn. congruence.
Qed.

(* ---------------------------------------------------------------- soundness *)
Definition umi_close (d : Z) (a b : list Z) : Prop :=
  a = b \/ (d <> 0 /\ length a = length b /\ hamming a b <= d).
Definition exact_site (c : cfg) : Prop := c_cls c = 1 \/ (c_cls c = 2 /\ c_r c = 0).
Definition radius_ok (c : cfg) (p : list frag) (f : frag) : Prop :=
  (c_cls c = 2 -> 0 < c_r c -> Z.abs (f_site f - site_of p) <= c_r c) /\
  (c_cls c <> 1 -> c_cls c <> 2 ->
   Z.min (Z.abs (f_site f - start_of p)) (Z.abs (f_end f - end_of p)) <= c_r c).
Definition same_origin (f g : frag) : Prop :=
  f_cell f = f_cell g /\ f_strand f = f_strand g /\ f_contig f = f_contig g.
Definition origin_ok (c : cfg) (f g : frag) : Prop := same_origin f g /\ (exact_site c -> f_site f = f_site g).
Definition mol_sound (c : cfg) (fs : list frag) : Prop :=
  (forall f g, In f fs -> In g fs -> origin_ok c f g) /\
  (forall p f q, fs = p ++ f :: q -> p <> [] -> umi_close (c_d c) (f_umi f) (rep_of p) /\ radius_ok c p f).

Lemma umi_eq_close d a b : umi_eq d a b = true <-> umi_close d a b.
Proof.
  rewrite umi_eq_shape. unfold umi_close. destruct (zs_eqb a b) eqn:E.
  - apply zs_eqb_eq in E. split; auto.
  - apply zs_eqb_neq in E. destruct (d =? 0) eqn:Ed.
    + apply Z.eqb_eq in Ed. split; [discriminate|]. intros [H|(H & _)]; contradiction.
    + apply Z.eqb_neq in Ed. destruct (Nat.eqb (length a) (length b)) eqn:El; cbn [negb].
      * apply Nat.eqb_eq in El. rewrite Z.leb_le. split; [auto|]. intros [H|(_ & _ & H)]; [contradiction|assumption].
      * apply Nat.eqb_neq in El. split; [discriminate|]. intros [H|(_ & H & _)]; contradiction.
Qed.

Lemma lastf_snoc fs f : lastf (fs ++ [f]) = Some f.
Proof. unfold lastf. rewrite map_app. cbn [map]. apply last_last. Qed.

Lemma lastf_in fs : fs <> [] -> exists g, lastf fs = Some g /\ In g fs.
Proof.
  intros H. destruct (exists_last H) as (l & a & ->). exists a. split; [apply lastf_snoc|].
  apply in_or_app; right; now left.
Qed.

Lemma strand_fold fs s : (forall g, In g fs -> f_strand g = s) -> forall init,
  fold_left (fun s g => if f_strand g =? 2 then s else f_strand g) fs init =
  if (s =? 2) || (match fs with [] => true | _ => false end) then init else s.
Proof.
  induction fs as [|g fs IH]; intros Hs init; cbn [fold_left].
  - now rewrite orb_true_r.
  - rewrite IH by (intros x Hx; apply Hs; now right). rewrite (Hs g) by now left.
    destruct (s =? 2) eqn:E; cbn [orb]; [reflexivity|]. now destruct fs.
Qed.

Lemma strand_of_const fs s : fs <> [] -> (forall g, In g fs -> f_strand g = s) -> strand_of fs = s.
Proof.
  intros Hne Hs. unfold strand_of. rewrite (strand_fold fs s Hs). destruct fs; [congruence|].
  destruct (s =? 2) eqn:E; cbn [orb]; [apply Z.eqb_eq in E; congruence|reflexivity].
Qed.

Lemma key_inj4 (a b c0 d a' b' c' d' : Z) : [a; b; c0; d] = [a'; b'; c'; d'] -> a = a' /\ b = b' /\ c0 = c' /\ d = d'.
Proof. intros H; inversion H; auto. Qed.

Lemma accepts_join c f m : m_frags m <> [] -> m_ovf m = [] ->
  (forall x y, In x (m_frags m) -> In y (m_frags m) -> origin_ok c x y) ->
  accepts c f m = true ->
  (forall g, In g (m_frags m) -> origin_ok c f g) /\
  umi_close (c_d c) (f_umi f) (rep_of (m_frags m)) /\ radius_ok c (m_frags m) f.
Proof.
  intros Hne Hov Hall Ha. destruct (lastf_in _ Hne) as (g0 & Hl & Hg0).
  assert (Htrans : origin_ok c f g0 -> forall g, In g (m_frags m) -> origin_ok c f g).
  { intros [(H1 & H2 & H3) H4] g Hg. destruct (Hall g0 g Hg0 Hg) as [(K1 & K2 & K3) K4].
    split; [repeat split; congruence|]. intros He. rewrite H4, K4 by assumption. reflexivity. }
  rewrite accepts_shape in Ha. unfold accepts_spec in Ha. rewrite Hov, app_nil_r in Ha. unfold hash_of in Ha. rewrite Hl in Ha.
  destruct (c_cls c =? 1) eqn:E1.
  - apply Z.eqb_eq in E1. apply andb_true_iff in Ha as [Hk Hu]. apply zs_eqb_eq in Hk.
    apply (key_nla c f g0 E1) in Hk as (K1 & K2 & K3 & K4).
    split; [|split].
    + apply Htrans. split; [repeat split; assumption|auto].
    + now apply umi_eq_close.
    + split; intros; congruence.
  - apply Z.eqb_neq in E1. destruct (c_cls c =? 2) eqn:E2.
    + apply Z.eqb_eq in E2. apply andb_true_iff in Ha as [Ha Hu]. apply andb_true_iff in Ha as [Hk Hr].
      apply zs_eqb_eq in Hk.
      split; [|split].
      * apply Htrans. destruct (c_r c =? 0) eqn:Er.
        -- apply Z.eqb_eq in Er. apply (key_chic0 c f g0 E2 Er) in Hk as (K1 & K2 & K3 & K4).
           split; [repeat split; assumption|auto].
        -- apply Z.eqb_neq in Er. apply (key_chicr c f g0 E2 Er) in Hk as (K1 & K2 & K3).
           split; [repeat split; assumption|]. intros [He|[_ He]]; [congruence|contradiction].
      * now apply umi_eq_close.
      * split; [|intros; congruence]. intros _ Hpos. apply negb_true_iff in Hr.
        apply andb_false_iff in Hr as [Hr|Hr]; [apply Z.ltb_ge in Hr; lia|apply Z.ltb_ge in Hr; assumption].
    + apply Z.eqb_neq in E2.
      apply andb_true_iff in Ha as [Ha Hu]. apply andb_true_iff in Ha as [Ha Hr].
      apply andb_true_iff in Ha as [Ha Hc]. apply andb_true_iff in Ha as [Hce Hs].
      apply Z.eqb_eq in Hce, Hs, Hc. unfold chrom_of in Hc. rewrite Hl in Hc.
      assert (Hstr : strand_of (m_frags m) = f_strand g0).
      { apply strand_of_const; [assumption|]. intros g Hg. now destruct (Hall g g0 Hg Hg0) as [(_ & K & _) _]. }
      assert (Hcell : cell_of (m_frags m) = f_cell g0).
      { unfold cell_of. destruct (m_frags m) as [|x l] eqn:Ef; [congruence|].
        assert (Hx : In x (x :: l)) by now left. now destruct (Hall x g0 Hx Hg0) as [(K & _ & _) _]. }
      split; [|split].
      * apply Htrans. split; [repeat split; congruence|]. intros [He|[He _]]; congruence.
      * now apply umi_eq_close.
      * split; [intros; congruence|]. intros _ _. apply negb_true_iff in Hr. apply Z.ltb_ge in Hr. assumption.
Qed.

Lemma snoc_split {A} (p : list A) x q fs f : p ++ x :: q = fs ++ [f] ->
  (q = [] /\ p = fs /\ x = f) \/ (exists q', q = q' ++ [f] /\ fs = p ++ x :: q').
Proof.
  intros H. destruct q as [|y q0] using rev_ind.
  - left. apply app_inj_tail in H as [H1 H2]. auto.
  - right. clear IHq0. exists q0.
    replace (p ++ x :: q0 ++ [y]) with ((p ++ x :: q0) ++ [y]) in H by now rewrite <- app_assoc.
    apply app_inj_tail in H as [H1 H2]. subst. auto.
Qed.

Lemma origin_ok_sym c f g : origin_ok c f g -> origin_ok c g f.
Proof. intros [(H1 & H2 & H3) H4]. split; [repeat split; congruence|]. intros He. now rewrite H4. Qed.
Lemma origin_ok_refl c f : origin_ok c f f.
Proof. split; [repeat split|]; reflexivity. Qed.

Lemma mol_sound_one c f : mol_sound c [f].
Proof.
  split.
  - intros x y [<-|[]] [<-|[]]. apply origin_ok_refl.
  - intros p x q H Hp. destruct p as [|a p]; [congruence|]. destruct p; discriminate.
Qed.

Lemma mol_sound_snoc c fs f : mol_sound c fs ->
  (forall g, In g fs -> origin_ok c f g) -> umi_close (c_d c) (f_umi f) (rep_of fs) -> radius_ok c fs f ->
  mol_sound c (fs ++ [f]).
Proof.
  intros [H1 H2] Ho Hu Hr. split.
  - intros x y Hx Hy. apply in_app_or in Hx as [Hx|[<-|[]]]; apply in_app_or in Hy as [Hy|[<-|[]]].
    + auto.
    + apply origin_ok_sym; auto.
    + auto.
    + apply origin_ok_refl.
  - intros p x q Heq Hp. symmetry in Heq. apply snoc_split in Heq as [(-> & -> & ->)|(q' & -> & ->)].
    + auto.
    + eapply H2; [reflexivity|assumption].
Qed.

Lemma sound_inv c frags : let st := fold_left (step c) frags st0 in
  forall m, In m (all_mols (st_groups st)) -> cached_ok c m /\ mol_sound c (m_frags m).
Proof.
  apply (run_inv c (fun _ X _ => forall m, In m X -> cached_ok c m /\ mol_sound c (m_frags m))).
  - intros m [].
  - auto.
  - intros pre X E f X' e HX Hv Ht m' Hm'. split.
    + eapply cached_ok_trans; try eassumption. intros m Hm. now apply HX.
    + destruct (trans_in _ _ _ _ _ _ Ht Hm') as [H|[(m & Hm & Ha & [(Hf & -> & _)|(Hf & -> & _)])|(-> & _)]].
      * now apply HX.
      * destruct (HX _ Hm) as [(Hk & Hne & Hval & Hov) Hs]. cbn [mol_add m_frags].
        assert (Hov0 : m_ovf m = []).
        { destruct (m_ovf m) eqn:Eo; [reflexivity|]. assert (full c m = true) by (apply Hov; discriminate). congruence. }
        destruct (accepts_join c f m Hne Hov0 (proj1 Hs) Ha) as (Ho & Hu & Hr).
        now apply mol_sound_snoc.
      * cbn [mol_bump m_frags]. now apply HX.
      * apply mol_sound_one.
Qed.

(* ---------------------------------------------------------------- exactness (distance 0, exact sites, no cap) *)
Definition fkey (c : cfg) (f : frag) : list Z * list Z := (key c f, f_umi f).
Definition fkeyb (c : cfg) (g x : frag) : bool := zs_eqb (key c g) (key c x) && zs_eqb (f_umi g) (f_umi x).
Definition mkey (c : cfg) (m : mol) : option (list Z * list Z) := option_map (fkey c) (hd_error (m_frags m)).

Lemma fkeyb_eq c g x : fkeyb c g x = true <-> fkey c g = fkey c x.
Proof.
  unfold fkeyb, fkey. rewrite andb_true_iff, !zs_eqb_eq. split; [intros [-> ->]; reflexivity|intros H; inversion H; auto].
Qed.
Lemma fkeyb_false c g x : fkeyb c g x = false <-> fkey c g <> fkey c x.
Proof.
  split.
  - intros H E. apply fkeyb_eq in E. congruence.
  - intros H. destruct (fkeyb c g x) eqn:E; [apply fkeyb_eq in E; contradiction|reflexivity].
Qed.
Lemma fkeyb_sym c g x : fkeyb c g x = fkeyb c x g.
Proof.
  destruct (fkeyb c x g) eqn:E.
  - apply fkeyb_eq. apply fkeyb_eq in E. congruence.
  - apply fkeyb_false. apply fkeyb_false in E. congruence.
Qed.

Lemma counter_const u us : (forall x, In x us -> x = u) -> forall n,
  fold_left (fun c x => counter_add x c) us [(u, n)] = [(u, n + Z.of_nat (length us))].
Proof.
  induction us as [|x us IH]; intros Hu n; cbn [fold_left length].
  - now rewrite Z.add_0_r.
  - rewrite (Hu x) by now left. cbn [counter_add]. rewrite zs_eqb_refl. rewrite IH by (intros y Hy; apply Hu; now right).
    f_equal. f_equal. lia.
Qed.

Lemma rep_of_const fs u : fs <> [] -> (forall g, In g fs -> f_umi g = u) -> rep_of fs = u.
Proof.
  intros Hne Hu. destruct fs as [|g fs]; [congruence|]. unfold rep_of, counter. cbn [map fold_left counter_add].
  rewrite (Hu g) by now left. rewrite counter_const.
  - reflexivity.
  - intros x Hx. apply in_map_iff in Hx as (y & <- & Hy). apply Hu. now right.
Qed.

Lemma umi_eq_0 a b : umi_eq 0 a b = zs_eqb a b.
Proof. rewrite umi_eq_shape. now destruct (zs_eqb a b). Qed.

Lemma accepts_exact c f m g : c_d c = 0 -> exact_site c -> hd_error (m_frags m) = Some g ->
  (forall x, In x (m_frags m) -> fkeyb c g x = true) -> accepts c f m = fkeyb c f g.
Proof.
  intros Hd He Hh Hall.
  assert (Hne : m_frags m <> []) by (intros E; rewrite E in Hh; discriminate).
  destruct (lastf_in _ Hne) as (g0 & Hl & Hg0).
  assert (Hk : key c g0 = key c g) by (apply Hall, fkeyb_eq in Hg0; inversion Hg0; auto).
  assert (Hrep : rep_of (m_frags m) = f_umi g).
  { apply rep_of_const; [assumption|]. intros x Hx. apply Hall, fkeyb_eq in Hx. inversion Hx; auto. }
  rewrite accepts_shape. unfold accepts_spec, fkeyb, hash_of. rewrite Hl, Hk, Hrep, Hd, umi_eq_0.
  destruct He as [E1|[E2 Er]].
  - rewrite E1. reflexivity.
  - rewrite E2, Er. cbn. now rewrite andb_true_r.
Qed.

Lemma filter_none {A} (p : A -> bool) l : (forall x, In x l -> p x = false) -> filter p l = [].
Proof.
  induction l as [|a l IH]; intros H; cbn; [reflexivity|]. rewrite (H a) by now left. apply IH. intros x Hx. apply H. now right.
Qed.

Definition class_mol (c : cfg) (vf : list frag) (m : mol) : Prop :=
  m_ovf m = [] /\ exists g, hd_error (m_frags m) = Some g /\ m_frags m = filter (fkeyb c g) vf.
Definition exact_inv (c : cfg) (vf : list frag) (X : list mol) : Prop :=
  (forall m, In m X -> class_mol c vf m) /\ NoDup (map (mkey c) X) /\
  (forall x, In x vf -> exists m, In m X /\ In x (m_frags m)).

Lemma class_mol_all c vf m g : hd_error (m_frags m) = Some g -> m_frags m = filter (fkeyb c g) vf ->
  forall x, In x (m_frags m) -> fkeyb c g x = true.
Proof. intros _ Hf x Hx. rewrite Hf in Hx. now apply filter_In in Hx. Qed.

Lemma hd_error_snoc {A} (l : list A) a x : hd_error l = Some a -> hd_error (l ++ [x]) = Some a.
Proof. destruct l; [discriminate|auto]. Qed.

Lemma exact_step c f vf X X' e : c_d c = 0 -> exact_site c -> c_cap c = None ->
  exact_inv c vf X -> trans c f X X' e -> exact_inv c (vf ++ [f]) X' /\ e = None.
Proof.
  intros Hd He Hcap (Hcl & Hnd & Hcov) Ht.
  assert (Hacc : forall m, In m X -> exists g, hd_error (m_frags m) = Some g /\ m_frags m = filter (fkeyb c g) vf /\
                                          accepts c f m = fkeyb c f g).
  { intros m Hm. destruct (Hcl _ Hm) as (_ & g & Hh & Hf). exists g. repeat split; try assumption.
    apply accepts_exact; try assumption. now apply class_mol_all with vf. }
  inversion Ht; subst.
  - (* joins m *) split; [|reflexivity].
    destruct (Hacc m) as (g & Hh & Hf & Hag); [apply in_or_app; right; now left|].
    rewrite H1 in Hag. symmetry in Hag.
    assert (Hother : forall m2, In m2 (l1 ++ l2) -> class_mol c (vf ++ [f]) m2).
    { intros m2 Hm2. assert (Hin2 : In m2 (l1 ++ m :: l2)) by (apply in_app_or in Hm2 as [?|?]; apply in_or_app; [now left|right; now right]).
      destruct (Hcl _ Hin2) as (Ho2 & g2 & Hh2 & Hf2). split; [assumption|]. exists g2. split; [assumption|].
      rewrite filter_snoc. replace (fkeyb c g2 f) with false; [now rewrite app_nil_r|]. symmetry. apply fkeyb_false.
      intros Ek. rewrite map_app in Hnd. cbn [map] in Hnd.
      assert (Hmk : mkey c m2 = mkey c m).
      { unfold mkey. rewrite Hh2, Hh. cbn. f_equal. apply fkeyb_eq in Hag. congruence. }
      apply in_app_or in Hm2 as [Hm2|Hm2].
      - apply NoDup_remove_2 in Hnd. apply Hnd. apply in_or_app. left. rewrite <- Hmk. now apply in_map.
      - apply NoDup_remove_2 in Hnd. apply Hnd. apply in_or_app. right. rewrite <- Hmk. now apply in_map. }
    split; [|split].
    + intros m' Hm'. apply in_app_or in Hm' as [Hm'|[<-|Hm']].
      * apply Hother. apply in_or_app; now left.
      * destruct (Hcl m) as (Ho & _); [apply in_or_app; right; now left|]. split; [assumption|]. exists g.
        cbn [mol_add m_frags]. split; [now apply hd_error_snoc|]. rewrite filter_snoc, fkeyb_sym, Hag, Hf. reflexivity.
      * apply Hother. apply in_or_app; now right.
    + replace (map (mkey c) (l1 ++ mol_add m f :: l2)) with (map (mkey c) (l1 ++ m :: l2)); [assumption|].
      rewrite !map_app. cbn [map]. f_equal. f_equal. unfold mkey. cbn [mol_add m_frags]. now rewrite (hd_error_snoc _ _ f Hh), Hh.
    + intros x Hx. apply in_app_or in Hx as [Hx|[<-|[]]].
      * destruct (Hcov _ Hx) as (m0 & Hm0 & Hx0). apply in_app_or in Hm0 as [Hm0|[<-|Hm0]].
        -- exists m0. split; [apply in_or_app; now left|assumption].
        -- exists (mol_add m f). split; [apply in_or_app; right; now left|]. cbn. apply in_or_app; now left.
        -- exists m0. split; [apply in_or_app; right; now right|assumption].
      * exists (mol_add m f). split; [apply in_or_app; right; now left|]. cbn. apply in_or_app; right; now left.
  - (* overflow impossible without a cap *) unfold full in H2. rewrite Hcap in H2. discriminate.
  - (* new molecule *) split; [|reflexivity].
    assert (Hrej : forall m, In m (l1 ++ l2) -> forall g, hd_error (m_frags m) = Some g -> fkeyb c f g = false).
    { intros m Hm g Hh. destruct (Hacc m Hm) as (g' & Hh' & _ & Hag). rewrite Hh in Hh'. inversion Hh'; subst g'.
      rewrite <- Hag. now apply H1. }
    assert (Hnone : filter (fkeyb c f) vf = []).
    { apply filter_none. intros x Hx. destruct (Hcov _ Hx) as (m & Hm & Hxm).
      destruct (Hcl _ Hm) as (_ & g & Hh & Hf). apply fkeyb_false. intros Ek.
      assert (fkeyb c g x = true) by (rewrite Hf in Hxm; now apply filter_In in Hxm).
      apply fkeyb_eq in H. specialize (Hrej m Hm g Hh). apply fkeyb_false in Hrej. congruence. }
    assert (Hold : forall m, In m (l1 ++ l2) -> class_mol c (vf ++ [f]) m).
    { intros m Hm. destruct (Hcl _ Hm) as (Ho & g & Hh & Hf). split; [assumption|]. exists g. split; [assumption|].
      rewrite filter_snoc, fkeyb_sym, (Hrej m Hm g Hh), app_nil_r. assumption. }
    split; [|split].
    + intros m' Hm'. apply in_app_or in Hm' as [Hm'|[<-|Hm']].
      * apply Hold. apply in_or_app; now left.
      * split; [reflexivity|]. exists f. split; [reflexivity|]. cbn [mol_new m_frags].
        rewrite filter_snoc, Hnone. unfold fkeyb. now rewrite !zs_eqb_refl.
      * apply Hold. apply in_or_app; now right.
    + rewrite map_app in *. cbn [map]. apply Permutation_NoDup with (mkey c (mol_new 0 f) :: map (mkey c) l1 ++ map (mkey c) l2).
      * apply Permutation_middle.
      * constructor; [|assumption]. rewrite <- map_app. intros Hin. apply in_map_iff in Hin as (m & Hk & Hm).
        unfold mkey in Hk. cbn [mol_new m_frags hd_error option_map] in Hk.
        destruct (hd_error (m_frags m)) as [g|] eqn:Hh; [|discriminate]. cbn in Hk. inversion Hk as [Hk'].
        specialize (Hrej m Hm g Hh). apply fkeyb_false in Hrej. unfold fkey in Hrej. congruence.
    + intros x Hx. apply in_app_or in Hx as [Hx|[<-|[]]].
      * destruct (Hcov _ Hx) as (m0 & Hm0 & Hx0). exists m0. split; [|assumption].
        apply in_app_or in Hm0 as [?|?]; apply in_or_app; [now left|right; now right].
      * exists (mol_new 0 f). split; [apply in_or_app; right; now left|now left].
Qed.

Lemma exact_fold c frags : c_d c = 0 -> exact_site c -> c_cap c = None ->
  let st := fold_left (step c) frags st0 in
  exact_inv c (filter f_valid frags) (all_mols (st_groups st)) /\
  (forall m, In m (st_emitted st) -> m_kind m = 2).
Proof.
  intros Hd He Hcap.
  apply (run_inv c (fun pre X E => exact_inv c (filter f_valid pre) X /\ forall m, In m E -> m_kind m = 2)).
  - split; [|intros m []]. split; [intros m []|]. split; [constructor|intros x []].
  - intros pre X E f [HX HE] Hv. rewrite filter_snoc, Hv, app_nil_r. split; [assumption|].
    intros m Hm. apply in_app_or in Hm as [Hm|Hm]; [auto|]. destruct (c_yinv c); [|destruct Hm]. destruct Hm as [<-|[]]. reflexivity.
  - intros pre X E f X' e [HX HE] Hv Ht. rewrite filter_snoc, Hv.
    destruct (exact_step c f _ _ _ _ Hd He Hcap HX Ht) as [HX' ->]. split; [assumption|].
    cbn [emit_of]. now rewrite app_nil_r.
Qed.
