(* C13, generated part: shape lemmas for coq/Gen/GenConsensus.v (by lia / case analysis / computation, so that an
   equivalent rewriting of the source still passes and a changed meaning does not), the equality of the generated model
   (Model/C13x.v) with the hand-written one (Model/C13.v, repaired skip rule), and the C13 theorems for the generated
   model and for the whole argument record of Molecule.get_consensus. *)
From Coq Require Import ZArith List Bool Lia ZifyBool Permutation.
Import ListNotations.
From SCMO Require Import Lib.Val Gen.GenConsensus Model.C13 Model.C13x Proofs.C13.
Open Scope Z_scope.

Ltac bools := repeat match goal with b : bool |- _ => destruct b end.

(* ------------------------------------------------------------------ A. shape of the generated definitions *)
(* sequtils.pick_best_base_call *)
Lemma g_pb_init_q_shape : g_pb_init_q = -1.
Proof. unfold g_pb_init_q. lia. Qed.
Lemma g_pb_init_tie_shape : g_pb_init_tie = false.
Proof. unfold g_pb_init_tie. reflexivity. Qed.
Lemma g_pb_better_shape q bq : g_pb_better q bq = (q >? bq).
Proof. unfold g_pb_better. lia. Qed.
Lemma g_pb_better_tie_shape old : g_pb_better_tie old = false.
Proof. unfold g_pb_better_tie. bools; reflexivity. Qed.
Lemma g_pb_tie_test_shape q bq same : g_pb_tie_test q bq same = ((q =? bq) && negb same).
Proof. unfold g_pb_tie_test. bools; lia. Qed.
Lemma g_pb_tie_set_shape old : g_pb_tie_set old = true.
Proof. unfold g_pb_tie_set. bools; reflexivity. Qed.
Lemma g_pb_nocall_shape tie hb : g_pb_nocall tie hb = (tie || negb hb).
Proof. unfold g_pb_nocall. bools; reflexivity. Qed.
Lemma g_pb_nocall_result_shape : (g_pb_nocall_base, g_pb_nocall_q) = (bN, 0).
Proof. unfold g_pb_nocall_base, g_pb_nocall_q, bN. f_equal; lia. Qed.

(* sequtils.get_consensus_dictionaries *)
Lemma g_win_test0_shape a b : g_win_test0 a b = (a && negb b).
Proof. unfold g_win_test0. bools; reflexivity. Qed.
Lemma g_win_test1_shape a b : g_win_test1 a b = (negb a && b).
Proof. unfold g_win_test1. bools; reflexivity. Qed.
Lemma g_win0_shape s1 e1 s2 e2 d1 d2 : g_win0 s1 e1 s2 e2 d1 d2 = (s2 + d2, e1 - d1 - 1).
Proof. unfold g_win0. f_equal; lia. Qed.
Lemma g_win1_shape s1 e1 s2 e2 d1 d2 : g_win1 s1 e1 s2 e2 d1 d2 = (s1 + d1, e2 - d2 - 1).
Proof. unfold g_win1. f_equal; lia. Qed.
(* which option reaches which mate: each forwarder hands on one of the four skip options, nothing else.  WHICH one is
   not constrained by the statement (Model/C13.v flt1 / flt2 use the forwarders as generated; /repo HEAD routes
   skip_last_n_cycles_R2 to both skip arguments of R2) *)
Lemma g_skip_forwarders_shape {A} (sf1 sl1 sf2 sl2 : A) :
  Forall (fun x => x = sf1 \/ x = sl1 \/ x = sf2 \/ x = sl2)
         [g_r1_skip_first sf1 sl1 sf2 sl2; g_r1_skip_last sf1 sl1 sf2 sl2; g_r2_skip_first sf1 sl1 sf2 sl2; g_r2_skip_last sf1 sl1 sf2 sl2].
Proof. repeat constructor; cbv; tauto. Qed.

(* sequtils.read_to_consensus_dict: the filter of the dict comprehension *)
Lemma gkeep_call_eq w fl r c : gkeep_call w fl r c = keep_call w fl r c.
Proof.
  destruct c as [[[[p b] q] qp] rb]. destruct fl as [frb fmq fsf fsl]. unfold gkeep_call, keep_call, g_keep, in_win, ob, oz.
  cbn [f_refbase f_minq f_sf f_sl].
  destruct w as [[s e]|], fmq as [m|], fsl as [sl|], fsf as [sf|], frb as [x|]; destruct (r_rev r); lia.
Qed.

(* Fragment *)
Lemma g_frag_slots_shape : g_frag_r1_slot = 0%nat /\ g_frag_r2_slot = 1%nat.
Proof. split; reflexivity. Qed.
Lemma g_frag_keys_shape {D K} (u : D -> D -> list K) d1 d2 : g_frag_keys u d1 d2 = u d1 d2.
Proof. reflexivity. Qed.
Lemma g_frag_pick_shape {C R} (pick : list (option C) -> R) c1 c2 : g_frag_pick pick c1 c2 = pick [c1; c2].
Proof. reflexivity. Qed.

(* Molecule.get_consensus *)
Lemma g_mol_skip_shape d h1 h2 : g_mol_skip d h1 h2 = (d && (negb h2 || negb h1)).
Proof. unfold g_mol_skip. bools; reflexivity. Qed.
Lemma g_mol_no_vote_shape b : g_mol_no_vote b = (b =? bN).
Proof. unfold g_mol_no_vote, bN. lia. Qed.
Lemma g_mol_columns_shape : g_mol_columns = [bA; bC; bG; bT; bN].
Proof. reflexivity. Qed.
Lemma g_mol_letters_shape : g_mol_letters = [bA; bC; bG; bT; bN].
Proof. reflexivity. Qed.
Lemma g_mol_vote_shape : g_mol_vote = 1.
Proof. unfold g_mol_vote. lia. Qed.
Lemma g_mol_proper_shape n : g_mol_proper n = (n =? 1).
Proof. unfold g_mol_proper. lia. Qed.
Lemma g_mol_not_implemented_shape a : g_mol_not_implemented a = a.
Proof. unfold g_mol_not_implemented. bools; reflexivity. Qed.
(* every column of the alphabet fits the vote vector np.zeros(n) *)
Lemma g_mol_vector_fits : g_mol_vector_len = Z.of_nat (length g_mol_columns).
Proof. rewrite g_mol_columns_shape. unfold g_mol_vector_len. cbn [length]. lia. Qed.

(* ------------------------------------------------------------------ B. the generated model is the hand-written model *)
Lemma gpb_init_eq : gpb_init = pb_init.
Proof. unfold gpb_init, pb_init. rewrite g_pb_init_q_shape, g_pb_init_tie_shape. reflexivity. Qed.
Lemma gpb_step_eq s c : gpb_step s c = pb_step s c.
Proof.
  destruct c as [[b q]|]; [|reflexivity]. unfold gpb_step, pb_step.
  rewrite g_pb_better_shape, g_pb_better_tie_shape, g_pb_tie_test_shape, g_pb_tie_set_shape. reflexivity.
Qed.
Lemma gpb_result_eq s : gpb_result s = pb_result s.
Proof.
  unfold gpb_result, pb_result, has_base. rewrite g_pb_nocall_shape, g_pb_nocall_result_shape.
  destruct (pb_base s) as [b|], (pb_tie s); reflexivity.
Qed.
Lemma fold_left_ext {A B} (f g : A -> B -> A) : (forall a b, f a b = g a b) ->
  forall l a, fold_left f l a = fold_left g l a.
Proof. intros H l. induction l as [|x l IH]; intros a; cbn [fold_left]; [reflexivity|]. rewrite H. apply IH. Qed.
Theorem gpick_best_eq cs : gpick_best cs = pick_best cs.
Proof.
  unfold gpick_best, pick_best. rewrite gpb_result_eq, gpb_init_eq, (fold_left_ext gpb_step pb_step gpb_step_eq). reflexivity.
Qed.

Lemma gwindow_eq o r1 r2 : gwindow o r1 r2 = window o r1 r2.
Proof.
  unfold gwindow, window. destruct (o_ds o); [|reflexivity]. destruct r1 as [a|], r2 as [b|];
    rewrite ?g_win_test0_shape, ?g_win_test1_shape, ?g_win0_shape, ?g_win1_shape; reflexivity.
Qed.
Lemma gflt1_eq o : gflt1 o = flt1 o.
Proof. reflexivity. Qed.
Lemma gflt2_eq o : gflt2 o = flt2 o.
Proof. reflexivity. Qed.
Lemma filter_ext' {A} (f g : A -> bool) l : (forall a, f a = g a) -> filter f l = filter g l.
Proof. intros H. induction l as [|x l IH]; cbn [filter]; [reflexivity|]. rewrite H, IH. reflexivity. Qed.
Lemma gread_dict_eq w fl r : gread_dict w fl r = read_dict w fl r.
Proof.
  destruct r as [r|]; [|reflexivity]. unfold gread_dict, read_dict, gread_items, read_items.
  rewrite (filter_ext' (gkeep_call w fl r) (keep_call w fl r)) by (intros; apply gkeep_call_eq). reflexivity.
Qed.

Theorem gfrag_consensus_eq ds f : gfrag_consensus ds f = frag_consensus ds f.
Proof.
  unfold gfrag_consensus, frag_consensus. destruct g_frag_slots_shape as [-> ->].
  destruct (nth_error f 0) as [r1|]; [|reflexivity]. destruct (nth_error f 1) as [r2|]; [|reflexivity].
  rewrite gwindow_eq. destruct (window ds r1 r2) as [w| |]; try reflexivity.
  rewrite !gread_dict_eq, gflt1_eq, gflt2_eq.
  destruct (read_dict w (flt1 ds) r1) as [d1| |]; try reflexivity.
  destruct (read_dict w (flt2 ds) r2) as [d2| |]; try reflexivity.
  rewrite g_frag_keys_shape. f_equal. apply map_ext. intros k. rewrite g_frag_pick_shape, gpick_best_eq. reflexivity.
Qed.

Lemma gskip_eq ds f : gskip ds f = skip_fixed ds f.
Proof. unfold gskip, skip_fixed. apply g_mol_skip_shape. Qed.
Lemma gbase_index_eq b : gbase_index b = base_index b.
Proof.
  unfold gbase_index, base_index. rewrite g_mol_columns_shape. cbn [str_index].
  destruct (b =? bA); [reflexivity|]. destruct (b =? bC); [reflexivity|]. destruct (b =? bG); [reflexivity|].
  destruct (b =? bT); [reflexivity|]. destruct (b =? bN); reflexivity.
Qed.
Lemma gindex_base_eq i : gindex_base i = index_base i.
Proof. unfold gindex_base, index_base. rewrite g_mol_letters_shape. reflexivity. Qed.
Lemma vadd_one i v : vadd i 1 v = vincr i v.
Proof. destruct v as [[[[a c] g] t] n]. do 5 (destruct i as [|i]; [reflexivity|]). reflexivity. Qed.
Lemma gtincr_eq k i t : gtincr k i t = tincr k i t.
Proof. unfold gtincr, tincr. rewrite g_mol_vote_shape, vadd_one. reflexivity. Qed.
Lemma gvote_items_eq items : forall t, gvote_items items t = vote_items items t.
Proof.
  induction items as [|[k [b q]] rest IH]; intros t; cbn [gvote_items vote_items]; [reflexivity|].
  rewrite g_mol_no_vote_shape, gbase_index_eq. destruct (b =? bN); [apply IH|].
  destruct (base_index b) as [i|]; [|reflexivity]. rewrite gtincr_eq. apply IH.
Qed.
Lemma of_nat_eqb_1 n : (Z.of_nat n =? 1) = Nat.eqb n 1.
Proof. destruct (Nat.eqb n 1) eqn:E; [apply Nat.eqb_eq in E|apply Nat.eqb_neq in E]; lia. Qed.
Lemma gcall_of_vec_eq v : gcall_of_vec v = call_of_vec v.
Proof.
  unfold gcall_of_vec, call_of_vec, gcall_of_list, call_of_list. cbv zeta.
  rewrite g_mol_proper_shape, of_nat_eqb_1, gindex_base_eq. reflexivity.
Qed.
Lemma gfinish_eq t : gfinish t = finish t.
Proof.
  unfold gfinish, finish. induction t as [|kv t IH]; cbn [flat_map]; [reflexivity|]. rewrite gcall_of_vec_eq, IH. reflexivity.
Qed.
(* mol_table depends on the skip rule only through its values *)
Lemma mol_table_skip_ext (s1 s2 : opts -> frag -> bool) : (forall ds f, s1 ds f = s2 ds f) ->
  forall ds fs t, mol_table s1 ds fs t = mol_table s2 ds fs t.
Proof.
  intros H ds fs. induction fs as [|f rest IH]; intros t; cbn [mol_table]; [reflexivity|].
  rewrite H. destruct (s2 ds f); [apply IH|]. destruct (frag_consensus ds f) as [items| |]; auto.
Qed.
Theorem gmol_table_eq ds fs : forall t, gmol_table ds fs t = mol_table skip_fixed ds fs t.
Proof.
  induction fs as [|f rest IH]; intros t; cbn [gmol_table mol_table]; [reflexivity|].
  rewrite gskip_eq, gfrag_consensus_eq. destruct (skip_fixed ds f); [apply IH|].
  destruct (frag_consensus ds f) as [items| |]; [rewrite gvote_items_eq|..]; auto.
Qed.
Theorem gmol_consensus_eq ds fs : gmol_consensus ds fs = mol_consensus skip_fixed ds fs.
Proof.
  unfold gmol_consensus, mol_consensus. rewrite gmol_table_eq.
  destruct (mol_table skip_fixed ds fs []) as [t| |]; [rewrite gfinish_eq|..]; reflexivity.
Qed.
(* the votes of the specification with the generated skip test are the votes with the repaired rule *)
Lemma frag_call_gskip ds f k : frag_call gskip ds f k = frag_call skip_fixed ds f k.
Proof. unfold frag_call. rewrite gskip_eq. reflexivity. Qed.
Lemma votes_gskip ds fs k b : votes gskip ds fs k b = votes skip_fixed ds fs k b.
Proof. unfold votes. rewrite (map_ext _ (fun f => if opt_is (frag_call skip_fixed ds f k) b then 1 else 0)); [reflexivity|].
  intros f. rewrite frag_call_gskip. reflexivity. Qed.

(* ------------------------------------------------------------------ C. the C13 theorems for the generated model *)
Theorem gen_majority ds fs out k b : pre fs = true -> gmol_consensus ds fs = Ok out ->
  (dget k out = Some b <->
   In b acgt /\ forall b', In b' acgt -> b' <> b -> votes skip_fixed ds fs k b' < votes skip_fixed ds fs k b).
Proof. rewrite gmol_consensus_eq. apply majority_pre. Qed.
Theorem gen_is_majority ds fs out k : bases_ok fs -> gmol_consensus ds fs = Ok out -> dget k out = majority skip_fixed ds fs k.
Proof. rewrite gmol_consensus_eq. apply consensus_is_majority. Qed.
Theorem gen_total ds fs : pre fs = true -> exists out, gmol_consensus ds fs = Ok out.
Proof. rewrite gmol_consensus_eq. apply total_pre. Qed.
Theorem gen_tie_absent ds fs out k b1 b2 : bases_ok fs -> gmol_consensus ds fs = Ok out ->
  In b1 acgt -> In b2 acgt -> b1 <> b2 -> votes skip_fixed ds fs k b1 = votes skip_fixed ds fs k b2 ->
  (forall b, In b acgt -> votes skip_fixed ds fs k b <= votes skip_fixed ds fs k b1) ->
  dget k out = None.
Proof. rewrite gmol_consensus_eq. apply tie_absent. Qed.
Theorem gen_onlyN_absent ds fs out k : bases_ok fs -> gmol_consensus ds fs = Ok out ->
  (forall f, In f fs -> frag_call skip_fixed ds f k = None) -> dget k out = None.
Proof. rewrite gmol_consensus_eq. apply no_votes_absent. Qed.
Theorem gen_table_is_votes ds fs t k j : pre fs = true -> gmol_table ds fs [] = Ok t -> (j < 5)%nat ->
  vnth j (tget k t) = votes skip_fixed ds fs k (index_base j) /\ vnth 4 (tget k t) = 0.
Proof. rewrite gmol_table_eq. apply table_is_votes. Qed.
Theorem gen_perm ds fs fs' : Permutation fs fs' -> res_equiv (gmol_consensus ds fs) (gmol_consensus ds fs').
Proof. rewrite !gmol_consensus_eq. apply perm_invariant. Qed.
Theorem gen_double ds fs fs2 : Permutation fs2 (fs ++ fs) -> res_equiv (gmol_consensus ds fs2) (gmol_consensus ds fs).
Proof. rewrite !gmol_consensus_eq. apply double_invariant. Qed.
Theorem gen_specb_sound ds fs out : bases_ok fs -> gmol_consensus ds fs = Ok out -> specb skip_fixed ds fs out = true.
Proof. rewrite gmol_consensus_eq. apply specb_sound. Qed.

(* which mate's call a fragment uses where both mates have a call (non-negative phred qualities) *)
Theorem gen_mate_rule b1 q1 b2 q2 : 0 <= q1 -> 0 <= q2 ->
  g_frag_pick gpick_best (Some (b1, q1)) (Some (b2, q2)) =
  if q1 >? q2 then (b1, q1) else if q2 >? q1 then (b2, q2) else if b1 =? b2 then (b1, q1) else (bN, 0).
Proof.
  intros H1 H2. rewrite g_frag_pick_shape, gpick_best_eq.
  destruct (q1 >? q2) eqn:E1; [apply pick2_hi_l; lia|].
  destruct (q2 >? q1) eqn:E2; [apply pick2_hi_r; lia|].
  assert (q2 = q1) by lia. subst q2.
  destruct (b1 =? b2) eqn:E3; [apply Z.eqb_eq in E3; subst b2; apply pick2_eq_same; lia|].
  apply Z.eqb_neq in E3. apply pick2_eq_diff; [lia|assumption].
Qed.
Theorem gen_single_mate b q : 0 <= q ->
  g_frag_pick gpick_best (Some (b, q)) None = (b, q) /\ g_frag_pick gpick_best None (Some (b, q)) = (b, q).
Proof. intros H. rewrite !g_frag_pick_shape, !gpick_best_eq. split; [apply pick1_l|apply pick1_r]; assumption. Qed.

(* ------------------------------------------------------------------ D. the whole argument record *)
Lemma get_consensus_unfold a fs : a_allow_N a = false ->
  get_consensus a fs =
  match mol_table skip_fixed (a_opts a) fs [] with
  | Ok t => if a_probs a then OutProbs (finish t) (match t with [] => None | _ => Some t end) else OutCons (finish t)
  | ValueError => OutValueError
  | IndexError => OutIndexError
  end.
Proof.
  intros H. unfold get_consensus. rewrite g_mol_not_implemented_shape, H, gmol_table_eq.
  destruct (mol_table skip_fixed (a_opts a) fs []) as [t| |]; [rewrite gfinish_eq|..]; reflexivity.
Qed.
(* allow_N = True: NotImplementedError before anything else, whatever the other arguments and the fragments are *)
Theorem args_allow_N a fs : a_allow_N a = true -> get_consensus a fs = OutNotImplemented.
Proof. intros H. unfold get_consensus. rewrite g_mol_not_implemented_shape, H. reflexivity. Qed.
(* otherwise the consensus dictionary of the call is the one of the model, with or without with_probs_and_obs *)
Theorem args_consensus a fs : a_allow_N a = false ->
  match mol_consensus skip_fixed (a_opts a) fs with
  | Ok d => out_consensus (get_consensus a fs) = Some d
  | ValueError => get_consensus a fs = OutValueError
  | IndexError => get_consensus a fs = OutIndexError
  end.
Proof.
  intros H. rewrite (get_consensus_unfold a fs H). unfold mol_consensus.
  destruct (mol_table skip_fixed (a_opts a) fs []) as [t| |]; [|reflexivity|reflexivity].
  destruct (a_probs a); reflexivity.
Qed.
(* the majority statement for EVERY argument record that does not raise: dove_safe, only_include_refbase,
   min_phred_score, skip_first/last_n_cycles_R1/R2, dove_R1/R2_distance change which calls a fragment has
   (frag_call, votes are relative to a_opts a), never the rule; with_probs_and_obs changes nothing of the consensus *)
Theorem args_majority a fs out k b : pre fs = true -> a_allow_N a = false ->
  out_consensus (get_consensus a fs) = Some out ->
  (dget k out = Some b <->
   In b acgt /\ forall b', In b' acgt -> b' <> b ->
                votes skip_fixed (a_opts a) fs k b' < votes skip_fixed (a_opts a) fs k b).
Proof.
  intros Hp Ha Ho. pose proof (args_consensus a fs Ha) as H.
  destruct (mol_consensus skip_fixed (a_opts a) fs) as [d| |] eqn:E.
  - rewrite H in Ho. inversion Ho; subst d. apply (majority_pre skip_fixed (a_opts a) fs out k b Hp E).
  - rewrite H in Ho. discriminate.
  - rewrite H in Ho. discriminate.
Qed.
Theorem args_total a fs : pre fs = true -> a_allow_N a = false -> exists out, out_consensus (get_consensus a fs) = Some out.
Proof.
  intros Hp Ha. destruct (total_pre skip_fixed (a_opts a) fs Hp) as [out E].
  pose proof (args_consensus a fs Ha) as H. rewrite E in H. exists out. exact H.
Qed.
(* with_probs_and_obs: same consensus, plus the vote table (None when nobody voted); ties are visible in the table *)
Theorem args_probs o fs : pre fs = true ->
  exists d t, get_consensus {| a_opts := o; a_allow_N := false; a_probs := true |} fs = OutProbs d t /\
              get_consensus {| a_opts := o; a_allow_N := false; a_probs := false |} fs = OutCons d /\
              (t = None -> d = []) /\
              forall tb k j, t = Some tb -> (j < 5)%nat -> vnth j (tget k tb) = votes skip_fixed o fs k (index_base j).
Proof.
  intros Hp. rewrite !get_consensus_unfold by reflexivity. cbn [a_opts a_probs].
  destruct (total_pre skip_fixed o fs Hp) as [out E]. unfold mol_consensus in E.
  destruct (mol_table skip_fixed o fs []) as [t| |] eqn:Et; try discriminate.
  exists (finish t), (match t with [] => None | _ => Some t end). split; [reflexivity|]. split; [reflexivity|]. split.
  - destruct t; [reflexivity|discriminate].
  - intros tb k j Ht Hj. assert (tb = t) by (destruct t; [discriminate|inversion Ht; reflexivity]). subst tb.
    apply (table_is_votes skip_fixed o fs t k j Hp Et Hj).
Qed.
(* the outcome for every argument record and every input (no precondition) *)
Theorem args_outcome a fs :
  get_consensus a fs <> OutValueError /\
  (get_consensus a fs = OutNotImplemented <-> a_allow_N a = true) /\
  (get_consensus a fs = OutIndexError <->
   a_allow_N a = false /\ exists f, In f fs /\ skip_fixed (a_opts a) f = false /\ (length f < 2)%nat).
Proof.
  destruct (a_allow_N a) eqn:Ha.
  - rewrite (args_allow_N a fs Ha). split; [discriminate|]. split; [tauto|]. split; [discriminate|intros [H _]; discriminate].
  - pose proof (args_consensus a fs Ha) as H. destruct (outcome_iff skip_fixed (a_opts a) fs) as [Hi Hv].
    destruct (mol_consensus skip_fixed (a_opts a) fs) as [d| |] eqn:E; [| contradiction |].
    + assert (Hne : get_consensus a fs <> OutValueError /\ get_consensus a fs <> OutNotImplemented /\ get_consensus a fs <> OutIndexError).
      { destruct (get_consensus a fs); cbn in H; try discriminate; repeat split; discriminate. }
      destruct Hne as (N1 & N2 & N3). split; [assumption|]. split; [split; [contradiction|discriminate]|].
      split; [contradiction|]. intros [_ Hex]. exfalso.
      assert (Ok d = IndexError); [|discriminate]. apply Hi. destruct Hex as (f & Hin & Hs & Hl).
      exists f. split; [assumption|]. split; [assumption|]. apply frag_index_error. assumption.
    + rewrite H. split; [discriminate|]. split; [split; discriminate|]. split; [|reflexivity].
      intros _. split; [reflexivity|]. destruct (proj1 Hi eq_refl) as (f & Hin & Hs & Hf).
      exists f. split; [assumption|]. split; [assumption|]. apply frag_index_error with (ds := a_opts a). assumption.
Qed.

(* how each option changes which aligned bases of a mate count: exactly the five documented filters *)
Theorem keep_call_iff w fl r p b q qp rb : keep_call w fl r (p, b, q, qp, rb) = true <->
  (forall s e, w = Some (s, e) -> s <= p <= e) /\
  (forall m, f_minq fl = Some m -> m <= q) /\
  (forall n, f_sl fl = Some n -> if r_rev r then n < qp else qp < r_qlen r - n) /\
  (forall n, f_sf fl = Some n -> if r_rev r then qp < r_qlen r - n else n < qp) /\
  (forall x, f_refbase fl = Some x -> upper rb = x).
Proof.
  unfold keep_call, in_win. destruct fl as [frb fmq fsf fsl]. cbn [f_refbase f_minq f_sf f_sl]. split.
  - intros H. split; [|split; [|split; [|split]]].
    + intros s e ->. lia.
    + intros m ->. lia.
    + intros n ->. destruct (r_rev r); lia.
    + intros n ->. destruct (r_rev r); lia.
    + intros x ->. lia.
  - intros (Hw & Hm & Hl & Hf & Hx).
    destruct w as [[s e]|]; [specialize (Hw s e eq_refl)|clear Hw];
    (destruct fmq as [m|]; [specialize (Hm m eq_refl)|clear Hm]);
    (destruct fsl as [sl|]; [specialize (Hl sl eq_refl)|clear Hl]);
    (destruct fsf as [sf|]; [specialize (Hf sf eq_refl)|clear Hf]);
    (destruct frb as [x|]; [specialize (Hx x eq_refl)|clear Hx]);
    destruct (r_rev r); lia.
Qed.
(* with every option at its default a mate contributes every aligned base inside the dove-safe window *)
Theorem keep_call_defaults w d r c :
  keep_call w (flt1 (dflt d)) r c = in_win w (call_pos c) /\ keep_call w (flt2 (dflt d)) r c = in_win w (call_pos c).
Proof.
  destruct c as [[[[p b] q] qp] rb]. unfold keep_call, call_pos. cbn. rewrite !andb_true_r. split; reflexivity.
Qed.

(* ------------------------------------------------------------------ E. histories through the generated model *)
Lemma ganswer_of_eq ds pr st : ganswer_of ds pr st = answer_of skip_fixed ds pr st.
Proof. unfold ganswer_of, answer_of. rewrite gmol_consensus_eq, gmol_table_eq. reflexivity. Qed.
Lemma grun_ops_eq ops : forall st, grun_ops st ops = run_ops skip_fixed st ops.
Proof.
  induction ops as [|o rest IH]; intros st; cbn [grun_ops run_ops]; [reflexivity|].
  destruct o; cbn [gstep step fst snd]; rewrite ?ganswer_of_eq, IH; reflexivity.
Qed.
Theorem gen_history_query p st ds pr :
  grun_ops st (p ++ [OpGet ds pr]) = grun_ops st p ++ [ganswer_of ds pr (st ++ held p)].
Proof. rewrite !grun_ops_eq, ganswer_of_eq. apply history_query. Qed.

(* ------------------------------------------------------------------ F. non-vacuity *)
Lemma ex_gen_facts :
  pre ex_mol = true /\ gmol_consensus (dflt false) ex_mol = Ok [((0, 21), bG)] /\
  gmol_consensus (dflt true) ex_mol = Ok [((0, 21), bT)] /\
  gmol_table (dflt false) ex_mol [] = Ok [((0, 20), (1, 1, 0, 0, 0)); ((0, 21), (0, 0, 2, 1, 0))] /\
  gmol_consensus (dflt false) (ex_mol ++ [[ex_rd false []]]) = IndexError /\
  gpick_best [Some (bA, 30); Some (bC, 30); Some (bA, 30)] = (bN, 0) /\
  gpick_best [Some (bA, 30); None; Some (bC, 37)] = (bC, 37) /\
  g_frag_pick gpick_best (Some (bA, 30)) (Some (bC, 30)) = (bN, 0) /\
  grun_ops [] ex_history = run_ops skip_fixed [] ex_history.
Proof. vm_compute. repeat split; reflexivity. Qed.
Definition ex_args (allow probs : bool) : args := {| a_opts := ex_minq; a_allow_N := allow; a_probs := probs |}.
Lemma ex_args_facts :
  get_consensus (ex_args true false) ex_mol = OutNotImplemented /\
  get_consensus (ex_args false false) ex_mol = OutCons [] /\
  get_consensus (ex_args false true) ex_mol = OutProbs [] (Some [((0, 20), (1, 1, 0, 0, 0)); ((0, 21), (0, 0, 1, 1, 0))]) /\
  get_consensus (ex_args false true) [] = OutProbs [] None /\
  get_consensus {| a_opts := dflt false; a_allow_N := false; a_probs := true |} ex_mol =
    OutProbs [((0, 21), bG)] (Some [((0, 20), (1, 1, 0, 0, 0)); ((0, 21), (0, 0, 2, 1, 0))]) /\
  get_consensus {| a_opts := ex_skipc; a_allow_N := false; a_probs := false |} ex_mol = OutCons [((0, 21), bT)] /\
  get_consensus {| a_opts := dflt false; a_allow_N := false; a_probs := false |} (ex_mol ++ [[ex_rd false []]]) = OutIndexError.
Proof. vm_compute. repeat split; reflexivity. Qed.
Lemma ex_keep_facts :
  let r := {| r_contig := 0; r_start := 20; r_end := 24; r_rev := false; r_md := true; r_calls := []; r_qlen := 4 |} in
  let fl := {| f_refbase := Some bC; f_minq := Some 20; f_sf := Some 0; f_sl := Some 1 |} in
  keep_call (Some (20, 23)) fl r (21, bA, 30, 1, 99) = true /\      (* inside every filter; reference base 'c' *)
  keep_call (Some (20, 23)) fl r (21, bA, 19, 1, 99) = false /\     (* below min_phred_score *)
  keep_call (Some (20, 23)) fl r (20, bA, 30, 0, 99) = false /\     (* first cycle skipped *)
  keep_call (Some (20, 23)) fl r (23, bA, 30, 3, 99) = false /\     (* last cycle skipped *)
  keep_call (Some (20, 23)) fl r (21, bA, 30, 1, 65) = false /\     (* other reference base *)
  keep_call (Some (22, 23)) fl r (21, bA, 30, 1, 99) = false.       (* outside the dove-safe window *)
Proof. vm_compute. repeat split; reflexivity. Qed.
