(* C04 proofs, part 4: demultiplexer header -> tagger, end to end (chain = encode ; digest_read) *)
From Coq Require Import ZArith List Bool Lia.
Import ListNotations.
From SCMO Require Import Lib.Val Gen.GenCodec Model.C04 Proofs.C04 Proofs.C04_b Proofs.C04_c.
Open Scope Z_scope.

Definition wr (t : store) : store := filter (fun kv => negb (dnw (fst kv))) t.

Lemma wr_entry_ok : forall t, wf_store t = true -> Forall entry_ok (wr t).
Proof.
  intros t H. destruct (wf_store_spec0 t H) as [_ Hall]. apply Forall_forall. intros [k v] HI.
  apply filter_In in HI. destruct HI as [HI _]. exact (Hall k v HI).
Qed.

Lemma wr_NoDup : forall t, wf_store t = true -> NoDup (map fst (wr t)).
Proof. intros t H. destruct (wf_store_spec0 t H) as [ND _]. apply NoDup_keys_filter. exact ND. Qed.

Lemma letters_safe : forall s, Forall (fun x => In x dec_table) s -> safe s = true.
Proof.
  intros s H. unfold safe. apply forallb_forall. intros c Hc. rewrite Forall_forall in H.
  pose proof gen_table_safe as G. rewrite forallb_forall in G. apply G. apply H. exact Hc.
Qed.

Lemma get_dec_view : forall k w, get k (dec_view w) = option_map (fun v => TS (fqSafe v)) (get k w).
Proof. intros. unfold dec_view. apply (get_map_val str tval (fun x => TS (fqSafe x))). Qed.

Lemma In_dec_view : forall k v w, In (k, v) (dec_view w) -> exists s, In (k, s) w /\ v = TS (fqSafe s).
Proof.
  intros k v w H. unfold dec_view in H. apply in_map_iff in H. destruct H as [[k' s] [E HI]]. cbn [fst snd] in E.
  inversion E; subst. exists s. split; [exact HI|reflexivity].
Qed.

Lemma dec_view_all_str : forall w, all_str (dec_view w).
Proof. intros w k v H. destruct (In_dec_view k v w H) as [s [_ E]]. eexists. exact E. Qed.

Lemma dec_view_writable : forall w, Forall entry_ok w ->
  (forall k v, In (k, v) w -> is_phred k = true -> Forall (fun x => In x dec_table) v) ->
  forall k v, In (k, v) (dec_view w) -> writable k v.
Proof.
  intros w HF HP k v HI. destruct (In_dec_view k v w HI) as [s [Hs E]]. subst v. split.
  - intro P. exists (fqSafe s). split; [reflexivity|]. rewrite fqSafe_fixed by (apply letters_safe; apply (HP k s Hs P)).
    apply (HP k s Hs P).
  - intros _. rewrite Forall_forall in HF. destruct (HF (k, s) Hs) as [Hk _]. cbn [fst] in Hk.
    destruct (tagdef k) as [pd|] eqn:Ek; [|congruence]. apply (tagdef_key_safe0 k pd Ek).
Qed.

Lemma header_not_UMI : forall w, w <> [] -> Forall entry_ok w -> starts_with digest_old_prefix (header_of w) = false.
Proof.
  intros w Hne HF. destruct w as [|[k v] w]; [contradiction|]. inversion HF as [|? ? [Hk _] _]; subst. cbn [fst] in Hk.
  destruct (tagdef k) as [pd|] eqn:Ek; [|congruence]. destruct (tagdef_key_safe0 k pd Ek) as [Hl _].
  destruct k as [|a [|b [|c k]]]; try (vm_compute in Hl; discriminate).
  2:{ unfold len in Hl. cbn [length] in Hl. lia. }
  match goal with |- context [header_of ?X] =>
    assert (E : exists rest, header_of X = a :: b :: enc_kv_sep :: rest) end.
  { unfold header_of, header_of_g. cbn [map]. destruct (map (item_g C0) w) as [|q r].
    - cbn [join]. unfold item_g. cbn [fst snd app]. eexists. reflexivity.
    - rewrite join_cons2. unfold item_g at 1. cbn [fst snd app]. eexists. reflexivity. }
  destruct E as [rest E]. rewrite E. change digest_old_prefix with [85; 77; 73]. cbn [starts_with].
  assert (X : (73 =? enc_kv_sep) = false) by reflexivity.
  rewrite X. destruct (85 =? a); destruct (77 =? b); reflexivity.
Qed.

(* the read group with the regenerated recipe written out: Fc.La.SM, NONE for a missing tag *)
Lemma read_group_unfold : forall out,
  read_group out = (match get k_Fc out with Some v => fmt v | None => s_NONE end) ++ 46 ::
                   (match get k_La out with Some v => fmt v | None => s_NONE end) ++ 46 ::
                   (match get k_SM out with Some v => fmt v | None => s_NONE end).
Proof.
  intro out. unfold read_group, eval_rg.
  change rg_recipe with [(0, (k_Fc, s_NONE)); (1, ([46], [])); (0, (k_La, s_NONE)); (1, ([46], [])); (0, (k_SM, s_NONE))].
  cbn [map concat fst snd Z.eqb Pos.eqb app]. rewrite app_nil_r. reflexivity.
Qed.

Lemma fqSafe_us : forall a b, fqSafe (fqSafe a ++ 95 :: fqSafe b) = fqSafe a ++ 95 :: fqSafe b.
Proof.
  intros a b. change (95 :: fqSafe b) with ([95] ++ fqSafe b). rewrite !fqSafe_app, !fqSafe_idem. reflexivity.
Qed.

(* ------------------------------------------------------------------ the restored name is shorter than the header *)
Definition vsum (w : store) : Z := fold_right (fun kv acc => len (snd kv) + 1 + acc) 0 w.
Definition getv (k : str) (w : store) : str := match get k w with Some v => v | None => [] end.
Definition ksum (ks : list str) (w : store) : Z := fold_right (fun k acc => len (getv k w) + 1 + acc) 0 ks.

Lemma vsum_nonneg : forall w, 0 <= vsum w.
Proof.
  induction w as [|kv w IH]; [cbn; lia|]. change (vsum (kv :: w)) with (len (snd kv) + 1 + vsum w).
  pose proof (len_nonneg _ (snd kv)). lia.
Qed.

Lemma header_of_cons2 : forall kv q r, header_of (kv :: q :: r) = item kv ++ enc_item_sep :: header_of (q :: r).
Proof. intros. unfold header_of, header_of_g. cbn [map]. apply join_cons2. Qed.

Lemma header_len_ge : forall w, vsum w <= len (header_of w).
Proof.
  induction w as [|[k v] w IH]; [cbn; lia|]. destruct w as [|q r].
  - unfold header_of, header_of_g. cbn [map join vsum fold_right]. unfold item_g. cbn [fst snd]. rewrite len_app, len_cons.
    pose proof (len_nonneg _ k). lia.
  - rewrite header_of_cons2, len_app, len_cons. unfold item, item_g. cbn [fst snd]. rewrite len_app, len_cons.
    change (vsum ((k, v) :: q :: r)) with (len v + 1 + vsum (q :: r)). pose proof (len_nonneg _ k). lia.
Qed.

Lemma ddel_notin : forall k (w : store), ~ In k (map fst w) -> ddel k w = w.
Proof.
  intros k w. induction w as [|[k' v'] w IH]; intro H; [reflexivity|]. unfold ddel in *. cbn [filter fst].
  destruct (str_eqb k k') eqn:E.
  - apply str_eqb_eq in E. subst. exfalso. apply H. left. reflexivity.
  - cbn [negb]. rewrite IH; [reflexivity|]. intro HI. apply H. right. exact HI.
Qed.

Lemma get_ddel_other : forall k k' (w : store), k' <> k -> get k' (ddel k w) = get k' w.
Proof.
  intros k k' w Hne. induction w as [|[k2 v2] w IH]; [reflexivity|]. unfold ddel in *. cbn [filter fst].
  destruct (str_eqb k k2) eqn:E; cbn [negb].
  - apply str_eqb_eq in E. subst k2. rewrite get_cons. destruct (str_eqb k' k) eqn:E2; [apply str_eqb_eq in E2; contradiction|exact IH].
  - rewrite !get_cons. destruct (str_eqb k' k2); [reflexivity|exact IH].
Qed.

Lemma vsum_remove : forall k v (w : store), NoDup (map fst w) -> get k w = Some v -> vsum w = len v + 1 + vsum (ddel k w).
Proof.
  intros k v w. induction w as [|[k' v'] w IH]; intros ND H; [discriminate|].
  cbn [map fst] in ND. inversion ND as [|? ? Hn ND']; subst. rewrite get_cons in H.
  unfold ddel. cbn [filter fst]. destruct (str_eqb k k') eqn:E.
  - apply str_eqb_eq in E. subst k'. inversion H; subst v'. cbn [negb]. fold (ddel k w). rewrite ddel_notin by exact Hn. reflexivity.
  - cbn [negb]. fold (ddel k w). change (vsum ((k', v') :: w)) with (len v' + 1 + vsum w).
    change (vsum ((k', v') :: ddel k w)) with (len v' + 1 + vsum (ddel k w)). rewrite (IH ND' H). lia.
Qed.

Lemma ksum_le_vsum : forall ks w, NoDup ks -> NoDup (map fst w) -> (forall k, In k ks -> get k w <> None) -> ksum ks w <= vsum w.
Proof.
  induction ks as [|k ks IH]; intros w NDk ND H; [cbn; apply vsum_nonneg|].
  inversion NDk as [|? ? Hn NDk']; subst. destruct (get k w) as [v|] eqn:E; [|exfalso; apply (H k); [left; reflexivity|exact E]].
  change (ksum (k :: ks) w) with (len (getv k w) + 1 + ksum ks w). unfold getv at 1. rewrite E.
  rewrite (vsum_remove k v w ND E).
  assert (EQ : ksum ks w = ksum ks (ddel k w)).
  { clear IH NDk NDk' H. induction ks as [|k2 ks IHk]; [reflexivity|].
    change (len (getv k2 w) + 1 + ksum ks w = len (getv k2 (ddel k w)) + 1 + ksum ks (ddel k w)).
    unfold getv at 1 2. rewrite get_ddel_other by (intro; subst; apply Hn; left; reflexivity).
    rewrite IHk by (intro HI; apply Hn; right; exact HI). reflexivity. }
  rewrite EQ. assert (ksum ks (ddel k w) <= vsum (ddel k w)); [|lia].
  apply IH; [exact NDk'|apply NoDup_keys_filter; exact ND|].
  intros k2 Hk2. rewrite get_ddel_other by (intro; subst; contradiction). apply H. right. exact Hk2.
Qed.

Lemma name_keys_NoDup : NoDup [k_Is; k_RN; k_Fc; k_La; k_Ti; k_CX; k_CY].
Proof. repeat constructor; cbn; intuition discriminate. Qed.

Lemma name_fits : forall w v1 v2 v3 v4 v5 v6 v7, NoDup (map fst w) ->
  get k_Is w = Some v1 -> get k_RN w = Some v2 -> get k_Fc w = Some v3 -> get k_La w = Some v4 ->
  get k_Ti w = Some v5 -> get k_CX w = Some v6 -> get k_CY w = Some v7 ->
  len (join 58 (map fqSafe [v1; v2; v3; v4; v5; v6; v7])) <= len (header_of w).
Proof.
  intros w v1 v2 v3 v4 v5 v6 v7 ND H1 H2 H3 H4 H5 H6 H7.
  pose proof (ksum_le_vsum [k_Is; k_RN; k_Fc; k_La; k_Ti; k_CX; k_CY] w name_keys_NoDup ND) as K.
  assert (P : forall k, In k [k_Is; k_RN; k_Fc; k_La; k_Ti; k_CX; k_CY] -> get k w <> None).
  { intros k HI. cbn [In] in HI. destruct HI as [E|[E|[E|[E|[E|[E|[E|[]]]]]]]]; subst k; congruence. }
  specialize (K P). cbn [ksum fold_right] in K. unfold getv in K. rewrite H1, H2, H3, H4, H5, H6, H7 in K.
  pose proof (header_len_ge w) as HL. cbn [map join]. repeat (rewrite len_app || rewrite len_cons).
  pose proof (len_fqSafe v1). pose proof (len_fqSafe v2). pose proof (len_fqSafe v3). pose proof (len_fqSafe v4).
  pose proof (len_fqSafe v5). pose proof (len_fqSafe v6). pose proof (len_fqSafe v7). lia.
Qed.

Definition ovalue (o : option str) : str := match o with Some s => fqSafe s | None => [] end.

(* the chain on a cell read as the strategies write it *)
Lemma chain_cell : forall t bc ia ly bi vis vrn vfc vla vti vcx vcy,
  wf_store t = true ->
  let w := wr t in
  len (header_of w) <= header_limit ->
  get k_BC w = Some bc -> get k_QT w = None -> get k_aA w = Some ia -> get k_LY w = Some ly -> get k_bi w = Some bi ->
  get k_Is w = Some vis -> get k_RN w = Some vrn -> get k_Fc w = Some vfc -> get k_La w = Some vla ->
  get k_Ti w = Some vti -> get k_CX w = Some vcx -> get k_CY w = Some vcy ->
  (forall k v, In (k, v) w -> is_phred k = true -> Forall (fun x => In x dec_table) v) ->
  let name := join 58 (map fqSafe [vis; vrn; vfc; vla; vti; vcx; vcy]) in
  exists out, chain t = Ok (name, out) /\
    get k_SM out = Some (TS (fqSafe ly ++ 95 :: fqSafe bi)) /\
    get k_MI out = Some (TS (fqSafe bc ++ ovalue (get k_RX w) ++ fqSafe ia)) /\
    (forall raw, get k_aa w = Some raw -> get k_ah out = Some (TI (hamming (fqSafe raw) (fqSafe ia)))) /\
    get k_RG out = Some (TS (fqSafe vfc ++ 46 :: fqSafe vla ++ 46 :: fqSafe ly ++ 95 :: fqSafe bi)) /\
    (forall k v, In (k, v) w -> derived_key k = false -> k <> k_RG -> is_phred k = false ->
                 get k out = Some (TS (fqSafe v))) /\
    (forall k v, In (k, v) w -> derived_key k = false -> is_phred k = true ->
                 exists p, phred_dec v = Ok p /\ get k out = Some (TS p)) /\
    (forall k q e, In (k, e) w -> derived_key k = false -> is_phred k = true -> phred_enc q = Ok e ->
                 get k out = Some (TS (map saturate q))).
Proof.
  intros t bc ia ly bi vis vrn vfc vla vti vcx vcy H w Hlen HBC HQT HaA HLY Hbi HIs HRN HFc HLa HTi HCX HCY HP name.
  assert (Hne : w <> []) by (intro E; rewrite E in HBC; discriminate).
  assert (Hname : len name <= 254).
  { pose proof (name_fits w vis vrn vfc vla vti vcx vcy (wr_NoDup t H) HIs HRN HFc HLa HTi HCX HCY) as NF.
    pose proof gen_limit. unfold name. lia. }
  pose proof (wr_entry_ok t H) as HF. pose proof (wr_NoDup t H) as ND. fold w in HF, ND.
  destruct (roundtrip t H) as [_ RT]. fold (wr t) in RT. fold w in RT. destruct (RT Hne Hlen) as [Henc Hdec].
  set (d := dec_view w) in *.
  assert (G : forall k, get k d = option_map (fun v => TS (fqSafe v)) (get k w)) by (intro; apply get_dec_view).
  destruct (tag_read_cell d (fqSafe bc) (fqSafe ia) (fqSafe ly) (fqSafe bi) (dec_view_all_str w)
              (dec_view_writable w HF HP)) as [out [Hout [HSM [HMI [Hah Hrest]]]]];
    try (rewrite G; first [rewrite HBC | rewrite HQT | rewrite HaA | rewrite HLY | rewrite Hbi]; reflexivity).
  destruct gen_derived_not_phred as [PSM [PMI [Pah [PBK [PRG Pbi]]]]].
  assert (HFc' : get k_Fc out = Some (TS (fqSafe vfc))).
  { rewrite Hrest by reflexivity. rewrite G, HFc. cbn [option_map]. unfold wv. assert (X : is_phred k_Fc = false) by reflexivity.
    rewrite X. reflexivity. }
  assert (HLa' : get k_La out = Some (TS (fqSafe vla))).
  { rewrite Hrest by reflexivity. rewrite G, HLa. cbn [option_map]. unfold wv. assert (X : is_phred k_La = false) by reflexivity.
    rewrite X. reflexivity. }
  rewrite fqSafe_us in HSM.
  exists (dset k_RG (TS (read_group out)) out).
  split.
  { unfold chain. rewrite Henc. cbn [bind]. unfold digest_read. rewrite header_not_UMI by assumption.
    rewrite Hdec. cbn [bind]. unfold illumina_name. rewrite gen_name_keys. cbn [map].
    fold d. rewrite !G, HIs, HRN, HFc, HLa, HTi, HCX, HCY. cbn [option_map all_some map fmt bind].
    rewrite gen_name_sep.
    assert (E : (254 <? len name) = false) by (apply Z.ltb_ge; lia). unfold name in E. cbn [map] in E. rewrite E.
    fold d in Hout. rewrite Hout. cbn [bind]. reflexivity. }
  split; [rewrite get_dset_other by discriminate; exact HSM|].
  split.
  { rewrite get_dset_other by discriminate. rewrite HMI. unfold gets. rewrite G.
    destruct (get k_RX w) as [rx|]; cbn [option_map ovalue]; [|rewrite app_nil_l].
    - rewrite !fqSafe_app, !fqSafe_idem. reflexivity.
    - rewrite !fqSafe_app, !fqSafe_idem. reflexivity. }
  split.
  { intros raw Haa. rewrite get_dset_other by discriminate. apply Hah. rewrite G, Haa. reflexivity. }
  split.
  { rewrite get_dset_same. rewrite read_group_unfold. rewrite HFc', HLa', HSM. cbn [fmt]. reflexivity. }
  split; [|split].
  - intros k v HI Hk Hrg Hph. rewrite get_dset_other by exact Hrg. rewrite Hrest by exact Hk. rewrite G.
    rewrite (get_In k v w ND HI). cbn [option_map]. unfold wv. rewrite Hph. reflexivity.
  - intros k v HI Hk Hph. assert (Hrg : k <> k_RG) by (intro; subst; rewrite PRG in Hph; discriminate).
    pose proof (HP k v HI Hph) as Hl. destruct (phred_dec_letters v Hl) as [p [Ep _]]. exists p. split; [exact Ep|].
    rewrite get_dset_other by exact Hrg. rewrite Hrest by exact Hk. rewrite G, (get_In k v w ND HI). cbn [option_map].
    unfold wv. rewrite Hph, (fqSafe_fixed v (letters_safe v Hl)), Ep. reflexivity.
  - intros k q e HI Hk Hph Hq. assert (Hrg : k <> k_RG) by (intro; subst; rewrite PRG in Hph; discriminate).
    destruct (phred_roundtrip q) as [e' [He' [_ [_ Hd']]]]. rewrite Hq in He'. inversion He'; subst e'.
    pose proof (HP k e HI Hph) as Hl.
    rewrite get_dset_other by exact Hrg. rewrite Hrest by exact Hk. rewrite G, (get_In k e w ND HI). cbn [option_map].
    unfold wv. rewrite Hph, (fqSafe_fixed e (letters_safe e Hl)), Hd'. reflexivity.
Qed.

(* ------------------------------------------------------------------ QueryNameFlagger.digest keeps no state *)
Definition standalone (q : str) : outcome :=
  match digest_read q with Ok (n, t) => Tagged n t | Raise _ => Failed end.

Lemma digest_cons_some : forall q r,
  digest (Some (q, false) :: r) =
  match digest_read q with
  | Raise e => (Failed :: map (fun _ => Untouched) r, Some e)
  | Ok (n, t) => let '(o, e) := digest r in (Tagged n t :: o, e)
  end.
Proof. reflexivity. Qed.

(* a list of fresh reads that all decode: the result is the single-read digest of each, in order *)
Lemma digest_stateless : forall qs, (forall q, In q qs -> exists x, digest_read q = Ok x) ->
  digest (map (fun q => Some (q, false)) qs) = (map standalone qs, None).
Proof.
  induction qs as [|q qs IH]; intro H; [reflexivity|]. cbn [map]. rewrite digest_cons_some.
  destruct (H q (or_introl eq_refl)) as [[n t] E]. unfold standalone at 1. rewrite E.
  rewrite IH by (intros q' HI; apply H; right; exact HI). reflexivity.
Qed.

Definition tagged_alone (r : option (str * bool)) (x : outcome) : Prop :=
  match x with
  | Tagged n t => exists q sm, r = Some (q, sm) /\ digest_read q = Ok (n, t)
  | _ => True
  end.

Lemma untouched_all : forall l : list (option (str * bool)), Forall2 tagged_alone l (map (fun _ => Untouched) l).
Proof. induction l as [|a l IH]; cbn [map]; constructor; [exact I|exact IH]. Qed.

(* whatever came before (None entries, tagged or failing reads): a read that ends up tagged carries exactly
   the name and tags of its own single-read digest *)
Lemma digest_pointwise : forall reads o e, digest reads = (o, e) -> Forall2 tagged_alone reads o.
Proof.
  induction reads as [|r reads IH]; intros o e H.
  - cbn in H. inversion H. constructor.
  - destruct r as [[q sm]|].
    + destruct sm.
      * cbn [digest] in H. inversion H; subst. apply (untouched_all (Some (q, true) :: reads)).
      * rewrite digest_cons_some in H. destruct (digest_read q) as [[n t]|x] eqn:E.
        -- destruct (digest reads) as [o' e'] eqn:D. inversion H; subst. constructor.
           ++ exists q, false. split; [reflexivity|exact E].
           ++ apply (IH o' e). reflexivity.
        -- inversion H; subst. constructor; [exact I|apply untouched_all].
    + cbn [digest] in H. destruct (digest reads) as [o' e'] eqn:D. inversion H; subst. constructor; [exact I|].
      apply (IH o' e). reflexivity.
Qed.

(* consecutive calls on the same flagger = one call on the concatenation, when the first call ran through *)
Lemma digest_app : forall qs rest,
  (forall q, In q qs -> exists x, digest_read q = Ok x) ->
  digest (map (fun q => Some (q, false)) qs ++ rest) =
  (map standalone qs ++ fst (digest rest), snd (digest rest)).
Proof.
  induction qs as [|q qs IH]; intros rest H.
  - cbn [map app]. destruct (digest rest); reflexivity.
  - cbn [map app]. rewrite digest_cons_some. destruct (H q (or_introl eq_refl)) as [[n t] E]. unfold standalone at 1. rewrite E.
    rewrite IH by (intros q' HI; apply H; right; exact HI). reflexivity.
Qed.
