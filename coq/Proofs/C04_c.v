(* C04 proofs, part 3: tagPysamRead / QueryNameFlagger.digest derive SM, MI and hand every decoded tag on *)
From Coq Require Import ZArith List Bool Lia.
Import ListNotations.
From SCMO Require Import Lib.Val Gen.GenCodec Model.C04 Proofs.C04 Proofs.C04_b.
Open Scope Z_scope.

(* facts about the regenerated tag table and recipe used below *)
Lemma gen_derived_not_phred :
  is_phred k_SM = false /\ is_phred k_MI = false /\ is_phred k_ah = false /\ is_phred k_BK = false /\ is_phred k_RG = false
  /\ is_phred k_bi = false.
Proof. repeat split; reflexivity. Qed.
Lemma gen_mol_tags : mol_tags = [(k_BC, (k_QT, (true, false))); (k_RX, (k_RQ, (true, false))); (k_aA, ([], (false, true)))].
Proof. reflexivity. Qed.
Lemma gen_name_keys : name_keys = [k_Is; k_RN; k_Fc; k_La; k_Ti; k_CX; k_CY].
Proof. reflexivity. Qed.
Lemma gen_table_safe : forallb fq_keep dec_table = true.
Proof. vm_compute. reflexivity. Qed.
(* the tagger-side tables as regenerated: which tag each derived value is written to, the padding character, the sample
   name chain (guard, f-string parts, rename) and the read-group recipe *)
Definition sm_recipes_expected : list (str * (list (Z * str) * str)) :=
  [ (k_bi, ([(0, k_LY); (1, [95]); (0, k_bi)], []));
    (k_BI, ([(0, k_LY); (1, [95]); (0, k_BI)], k_bi));
    (k_LY, ([(0, k_LY); (1, 95 :: s_BULK)], [])) ].
Lemma gen_tagger_tables :
  ah_tag = k_ah /\ ah_raw = k_aa /\ ah_corr = k_aA /\ mi_tag = k_MI /\ qm_tag = k_QM /\ bk_tag = k_BK /\ sm_tag = k_SM /\
  rg_tag = k_RG /\ mol_pad = 111 /\ mol_qt_tag = k_QT /\ sm_recipes = sm_recipes_expected /\
  rg_recipe = [(0, (k_Fc, s_NONE)); (1, ([46], [])); (0, (k_La, s_NONE)); (1, ([46], [])); (0, (k_SM, s_NONE))].
Proof. repeat split; reflexivity. Qed.

(* derive with the regenerated tag names written out (definitional) *)
Lemma derive_unfold : forall d, derive d =
  let a := mol_loop 111 k_QT mol_tags d mol0 in
  if m_terr a then Raise EType else
  bind (if m_nonmux a then Ok (dset k_BK (TI 1) d)
        else
          bind (match get k_aA d, get k_aa d with
                | Some (TS ca), Some (TS ia) => Ok (dset k_ah (TI (hamming ia ca)) d)
                | Some _, Some _ => Raise EType
                | _, _ => Ok d
                end) (fun r =>
          let r := dset k_MI (TS (fqSafe (m_id a))) r in
          Ok (if m_qt_missing a then r else dset k_QM (TS (fqSafe (m_q a))) r)))
  (fun r1 => bind (sm_apply fqsafe_ranges k_SM sm_recipes_expected r1) (fun r2 => Ok (r2, m_qt_missing a))).
Proof. reflexivity. Qed.

Lemma tag_read_unfold : forall d, tag_read d =
  bind (derive d) (fun x =>
    let '(r2, qt_missing) := x in
    bind (mapM write_value r2) (fun out =>
      if negb qt_missing && has k_QM out then
        match get k_MI out with
        | None => Raise EKey
        | Some mi => match get k_QM out with
                     | Some qm => match tlen qm, tlen mi with
                                  | Some a, Some b => if a =? b then Ok out else Raise EValue
                                  | _, _ => Raise EType
                                  end
                     | None => Ok out
                     end
        end
      else Ok out)).
Proof. reflexivity. Qed.

(* the sample-name chain, for every recipe table: the first recipe whose guard tag is present names the sample *)
Lemma sm_apply_skip : forall keep smtag g parts ren rest r, get g r = None ->
  sm_apply keep smtag ((g, (parts, ren)) :: rest) r = sm_apply keep smtag rest r.
Proof. intros. cbn [sm_apply]. unfold has. rewrite H. reflexivity. Qed.

Lemma sm_apply_hit : forall keep smtag g parts rest r gv s, get g r = Some gv -> eval_parts parts r = Ok s ->
  sm_apply keep smtag ((g, (parts, [])) :: rest) r = Ok (dset smtag (TS (fqSafe_g keep s)) r).
Proof. intros. cbn [sm_apply]. unfold has. rewrite H, H0. reflexivity. Qed.

Lemma eval_parts_tag : forall t r d v, get t d = Some v ->
  eval_parts ((0, t) :: r) d = match eval_parts r d with Raise e => Raise e | Ok y => Ok (fmt v ++ y) end.
Proof. intros. cbn [eval_parts]. rewrite Z.eqb_refl, H. reflexivity. Qed.

Lemma eval_parts_lit : forall s r d,
  eval_parts ((1, s) :: r) d = match eval_parts r d with Raise e => Raise e | Ok y => Ok (s ++ y) end.
Proof. intros. reflexivity. Qed.

(* the three recipes of the regenerated table *)
Lemma sm_cell : forall r ly bi, get k_bi r = Some (TS bi) -> get k_LY r = Some (TS ly) ->
  sm_apply fqsafe_ranges k_SM sm_recipes_expected r = Ok (dset k_SM (TS (fqSafe (ly ++ 95 :: bi))) r).
Proof.
  intros r ly bi Hbi HLY. unfold sm_recipes_expected.
  rewrite (sm_apply_hit _ _ _ _ _ _ (TS bi) (ly ++ 95 :: bi)); [reflexivity|exact Hbi|].
  rewrite (eval_parts_tag _ _ _ _ HLY), eval_parts_lit, (eval_parts_tag _ _ _ _ Hbi). cbn [eval_parts fmt app].
  rewrite app_nil_r. reflexivity.
Qed.

Lemma sm_bulk : forall r ly, get k_bi r = None -> get k_BI r = None -> get k_LY r = Some (TS ly) ->
  sm_apply fqsafe_ranges k_SM sm_recipes_expected r = Ok (dset k_SM (TS (fqSafe (ly ++ 95 :: s_BULK))) r).
Proof.
  intros r ly Hbi HBI HLY. unfold sm_recipes_expected.
  rewrite sm_apply_skip by exact Hbi. rewrite sm_apply_skip by exact HBI.
  rewrite (sm_apply_hit _ _ _ _ _ _ (TS ly) (ly ++ 95 :: s_BULK)); [reflexivity|exact HLY|].
  rewrite (eval_parts_tag _ _ _ _ HLY), eval_parts_lit. cbn [eval_parts fmt app]. rewrite app_nil_r. reflexivity.
Qed.

Definition all_str (d : rstore) : Prop := forall k v, In (k, v) d -> exists s, v = TS s.
Definition gets (k : str) (d : rstore) : str := match get k d with Some (TS s) => s | _ => [] end.

(* what set_tag receives for a stored value *)
Definition wv (k : str) (v : tval) : tval :=
  if is_phred k then match v with
                     | TS s => match phred_dec s with Ok p => TS p | Raise _ => v end
                     | TI _ => v
                     end
  else v.

Definition writable (k : str) (v : tval) : Prop :=
  (is_phred k = true -> exists s, v = TS s /\ Forall (fun x => In x dec_table) s) /\
  (is_phred k = false -> len k = 2).

Lemma In_dset : forall V k (v : V) k' v' d, In (k', v') (dset k v d) -> (k' = k /\ v' = v) \/ In (k', v') d.
Proof.
  intros V k v k' v' d. induction d as [|[k2 v2] d IH]; intro H.
  - cbn in H. destruct H as [H|[]]. inversion H. left. split; reflexivity.
  - rewrite dset_cons in H. destruct (str_eqb k k2) eqn:E.
    + apply str_eqb_eq in E. subst k2. destruct H as [H|H]; [inversion H; left; split; reflexivity|right; right; exact H].
    + destruct H as [H|H]; [right; left; exact H|]. destruct (IH H) as [A|A]; [left; exact A|right; right; exact A].
Qed.

Lemma write_value_ok : forall k v, writable k v -> write_value (k, v) = Ok (k, wv k v).
Proof.
  intros k v [Hp Hn]. unfold write_value, wv. cbn [fst snd]. destruct (is_phred k) eqn:E.
  - destruct (Hp eq_refl) as [s [Es Hs]]. subst v. destruct (phred_dec_letters s Hs) as [p [Ep _]]. rewrite Ep. reflexivity.
  - rewrite (Hn eq_refl). reflexivity.
Qed.

Lemma mapM_write : forall r, (forall k v, In (k, v) r -> writable k v) ->
  mapM write_value r = Ok (map (fun kv => (fst kv, wv (fst kv) (snd kv))) r).
Proof.
  induction r as [|[k v] r IH]; intro H; [reflexivity|].
  rewrite mapM_cons, write_value_ok by (apply H; left; reflexivity).
  rewrite IH by (intros k' v' HI; apply H; right; exact HI). reflexivity.
Qed.

Lemma get_map_wv : forall k r, get k (map (fun kv => (fst kv, wv (fst kv) (snd kv))) r) = option_map (wv k) (get k r).
Proof.
  intros k r. induction r as [|[k' v'] r IH]; [reflexivity|]. cbn [map fst snd]. rewrite !get_cons.
  destruct (str_eqb k k') eqn:E; [apply str_eqb_eq in E; subst; reflexivity|exact IH].
Qed.

(* ------------------------------------------------------------------ the molecule identifier loop *)
Definition a0 : molacc := mol0.

Lemma get_all_str : forall d k v, all_str d -> get k d = Some v -> exists s, v = TS s.
Proof. intros d k v H G. apply get_Some_In in G. exact (H k v G). Qed.

(* a cell read as every strategy writes it: barcode present, no QT, corrected sequencing index present *)
Lemma mol_loop_cell : forall d bc ia, all_str d ->
  get k_BC d = Some (TS bc) -> get k_QT d = None -> get k_aA d = Some (TS ia) ->
  let a := mol_loop 111 k_QT mol_tags d a0 in
  m_terr a = false /\ m_nonmux a = false /\ m_qt_missing a = true /\ m_id a = bc ++ gets k_RX d ++ ia.
Proof.
  intros d bc ia HS HBC HQT HaA. rewrite gen_mol_tags. unfold gets, a0, mol0. cbn [mol_loop]. unfold has.
  rewrite HBC, HQT, HaA. cbn [m_id m_q m_qt_missing m_nonmux m_terr orb andb negb].
  assert (Q : str_eqb k_QT k_QT = true) by reflexivity. rewrite Q.
  destruct (get k_RX d) as [[rx|z]|] eqn:ERX.
  - destruct (get k_RQ d) as [[rq|z]|] eqn:ERQ; cbn [m_id m_q m_qt_missing m_nonmux m_terr orb andb negb];
      [| destruct (get_all_str d k_RQ (TI z) HS ERQ) as [s Hs]; discriminate |];
      repeat split; rewrite ?app_assoc; reflexivity.
  - destruct (get_all_str d k_RX (TI z) HS ERX) as [s Hs]. discriminate.
  - cbn [m_id m_q m_qt_missing m_nonmux m_terr orb andb negb]. repeat split.
Qed.

(* ------------------------------------------------------------------ tag_read on a cell read *)
Definition derived_key (k : str) : bool := str_eqb k k_SM || str_eqb k k_MI || str_eqb k k_ah.

Lemma tag_read_cell : forall d bc ia ly bi, all_str d ->
  (forall k v, In (k, v) d -> writable k v) ->
  get k_BC d = Some (TS bc) -> get k_QT d = None -> get k_aA d = Some (TS ia) ->
  get k_LY d = Some (TS ly) -> get k_bi d = Some (TS bi) ->
  exists out, tag_read d = Ok out /\
    get k_SM out = Some (TS (fqSafe (ly ++ 95 :: bi))) /\
    get k_MI out = Some (TS (fqSafe (bc ++ gets k_RX d ++ ia))) /\
    (forall raw, get k_aa d = Some (TS raw) -> get k_ah out = Some (TI (hamming raw ia))) /\
    (forall k, derived_key k = false -> get k out = option_map (wv k) (get k d)).
Proof.
  intros d bc ia ly bi HS HW HBC HQT HaA HLY Hbi.
  destruct (mol_loop_cell d bc ia HS HBC HQT HaA) as [M1 [M2 [M3 M4]]]. fold a0 in *.
  destruct gen_derived_not_phred as [PSM [PMI [Pah _]]].
  (* the store before writing *)
  set (r0 := match get k_aa d with Some (TS raw) => dset k_ah (TI (hamming raw ia)) d | _ => d end).
  set (r1 := dset k_MI (TS (fqSafe (bc ++ gets k_RX d ++ ia))) r0).
  set (r2 := dset k_SM (TS (fqSafe (ly ++ 95 :: bi))) r1).
  assert (NE1 : k_MI <> k_SM) by discriminate. assert (NE2 : k_ah <> k_SM) by discriminate.
  assert (NE3 : k_ah <> k_MI) by discriminate.
  assert (Hbi1 : get k_bi r1 = Some (TS bi)).
  { unfold r1. rewrite get_dset_other by discriminate. unfold r0. destruct (get k_aa d) as [[raw|z]|]; try exact Hbi.
    rewrite get_dset_other by discriminate. exact Hbi. }
  assert (HLY1 : get k_LY r1 = Some (TS ly)).
  { unfold r1. rewrite get_dset_other by discriminate. unfold r0. destruct (get k_aa d) as [[raw|z]|]; try exact HLY.
    rewrite get_dset_other by discriminate. exact HLY. }
  assert (HM : match get k_aA d, get k_aa d with
               | Some (TS ca), Some (TS ia0) => Ok (dset k_ah (TI (hamming ia0 ca)) d)
               | Some _, Some _ => Raise EType
               | _, _ => Ok d
               end = Ok r0).
  { rewrite HaA. unfold r0. destruct (get k_aa d) as [[raw|z]|] eqn:Eaa; try reflexivity.
    destruct (get_all_str d k_aa (TI z) HS Eaa) as [s Hs]. discriminate. }
  assert (HD : derive d = Ok (r2, true)).
  { rewrite derive_unfold. cbv zeta. fold a0. rewrite M1. rewrite M2. rewrite M3. rewrite M4. rewrite HM.
    cbn [bind]. fold r1. rewrite (sm_cell r1 ly bi Hbi1 HLY1). reflexivity. }
  assert (HW2 : forall k v, In (k, v) r2 -> writable k v).
  { intros k v HI. unfold r2 in HI. apply In_dset in HI. destruct HI as [[A B]|HI].
    - subst. split; [rewrite PSM; discriminate|reflexivity].
    - unfold r1 in HI. apply In_dset in HI. destruct HI as [[A B]|HI].
      + subst. split; [rewrite PMI; discriminate|reflexivity].
      + unfold r0 in HI. destruct (get k_aa d) as [[raw|z]|]; try (apply HW; exact HI).
        apply In_dset in HI. destruct HI as [[A B]|HI]; [|apply HW; exact HI].
        subst. split; [rewrite Pah; discriminate|reflexivity]. }
  exists (map (fun kv => (fst kv, wv (fst kv) (snd kv))) r2).
  split.
  { rewrite tag_read_unfold, HD. cbn [bind]. rewrite (mapM_write r2 HW2). cbn [bind negb andb]. reflexivity. }
  split; [|split; [|split]].
  - rewrite get_map_wv. unfold r2. rewrite get_dset_same. unfold wv. rewrite PSM. reflexivity.
  - rewrite get_map_wv. unfold r2. rewrite get_dset_other by exact NE1. unfold r1. rewrite get_dset_same.
    unfold wv. rewrite PMI. reflexivity.
  - intros raw Haa. rewrite get_map_wv. unfold r2. rewrite get_dset_other by exact NE2.
    unfold r1. rewrite get_dset_other by exact NE3. unfold r0. rewrite Haa, get_dset_same. unfold wv. rewrite Pah. reflexivity.
  - intros k Hk. unfold derived_key in Hk. apply orb_false_iff in Hk. destruct Hk as [Hk H3].
    apply orb_false_iff in Hk. destruct Hk as [H1 H2]. apply str_eqb_neq in H1, H2, H3.
    rewrite get_map_wv. f_equal. unfold r2. rewrite get_dset_other by exact H1. unfold r1. rewrite get_dset_other by exact H2.
    unfold r0. destruct (get k_aa d) as [[raw|z]|]; try reflexivity. apply get_dset_other. exact H3.
Qed.

(* a bulk read (no corrected sequencing index, no barcode, no UMI): flagged BK, sample LY_BULK *)
Lemma tag_read_bulk : forall d ly, all_str d -> (forall k v, In (k, v) d -> writable k v) ->
  get k_aA d = None -> get k_BC d = None -> get k_RX d = None -> get k_QM d = None ->
  get k_LY d = Some (TS ly) -> get k_bi d = None -> get k_BI d = None ->
  exists out, tag_read d = Ok out /\ get k_BK out = Some (TI 1) /\
    get k_SM out = Some (TS (fqSafe (ly ++ 95 :: s_BULK))) /\
    (forall k, str_eqb k k_SM || str_eqb k k_BK = false -> get k out = option_map (wv k) (get k d)).
Proof.
  intros d ly HS HW HaA HBC HRX HQM HLY Hbi HBI. destruct gen_derived_not_phred as [PSM [PMI [Pah [PBK _]]]].
  set (r2 := dset k_SM (TS (fqSafe (ly ++ 95 :: s_BULK))) (dset k_BK (TI 1) d)).
  assert (HD : derive d = Ok (r2, false)).
  { rewrite derive_unfold. cbv zeta. rewrite gen_mol_tags. unfold mol0. cbn [mol_loop]. unfold has. rewrite HBC, HRX, HaA.
    cbn [m_id m_q m_qt_missing m_nonmux m_terr orb andb negb bind].
    rewrite (sm_bulk (dset k_BK (TI 1) d) ly); [reflexivity| | |]; rewrite get_dset_other by discriminate; assumption. }
  assert (HW2 : forall k v, In (k, v) r2 -> writable k v).
  { intros k v HI. unfold r2 in HI. apply In_dset in HI. destruct HI as [[A B]|HI].
    - subst. split; [rewrite PSM; discriminate|reflexivity].
    - apply In_dset in HI. destruct HI as [[A B]|HI]; [|apply HW; exact HI].
      subst. split; [rewrite PBK; discriminate|reflexivity]. }
  exists (map (fun kv => (fst kv, wv (fst kv) (snd kv))) r2).
  assert (NQM : get k_QM (map (fun kv => (fst kv, wv (fst kv) (snd kv))) r2) = None).
  { rewrite get_map_wv. unfold r2. rewrite !get_dset_other by discriminate. rewrite HQM. reflexivity. }
  split; [|split; [|split]].
  - rewrite tag_read_unfold, HD. cbn [bind]. rewrite (mapM_write r2 HW2). cbn [bind negb andb].
    unfold has. rewrite NQM. reflexivity.
  - rewrite get_map_wv. unfold r2. rewrite get_dset_other by discriminate. rewrite get_dset_same. unfold wv. rewrite PBK. reflexivity.
  - rewrite get_map_wv. unfold r2. rewrite get_dset_same. unfold wv. rewrite PSM. reflexivity.
  - intros k Hk. apply orb_false_iff in Hk. destruct Hk as [H1 H2]. apply str_eqb_neq in H1, H2.
    rewrite get_map_wv. f_equal. unfold r2. rewrite !get_dset_other by assumption. reflexivity.
Qed.
