(* C16 proofs, part z: print / parse round trip of the GTF attribute column at character level *)
From Coq Require Import ZArith List Bool Lia.
Import ListNotations.
From SCMO Require Import Model.C16a.
Open Scope Z_scope.

Definition okc (c : Z) : bool := negb (is_ws c) && negb (c =? 59) && negb (c =? 34).

Lemma clean_spec s : clean s = true -> s <> [] /\ forallb okc s = true.
Proof. unfold clean. intros H. apply andb_true_iff in H. destruct H as [H1 H2]. split; [destruct s; [discriminate | discriminate] | exact H2]. Qed.

(* split on the semicolon walks over a piece without one *)
Lemma split_piece a : forall cur rest, forallb (fun c => negb (c =? 59)) a = true ->
  split_on 59 (a ++ 59 :: rest) cur = (rev cur ++ a) :: split_on 59 rest [].
Proof.
  induction a as [|c a IH]; intros cur rest H; cbn [app split_on].
  - rewrite Z.eqb_refl, app_nil_r. reflexivity.
  - cbn [forallb] in H. apply andb_true_iff in H. destruct H as [H1 H2]. apply negb_true_iff in H1. rewrite H1.
    rewrite IH by exact H2. cbn [rev]. rewrite <- app_assoc. reflexivity.
Qed.

(* words walks over a token *)
Lemma words_tok a : forall cur rest, forallb (fun c => negb (is_ws c)) a = true ->
  words (a ++ rest) cur = words rest (rev a ++ cur).
Proof.
  induction a as [|c a IH]; intros cur rest H; cbn [app words rev]; [reflexivity|].
  cbn [forallb] in H. apply andb_true_iff in H. destruct H as [H1 H2]. apply negb_true_iff in H1. rewrite H1.
  rewrite IH by exact H2. rewrite <- app_assoc. reflexivity.
Qed.

Lemma okc_parts s : forallb okc s = true ->
  forallb (fun c => negb (is_ws c)) s = true /\ forallb (fun c => negb (c =? 59)) s = true /\ unquote s = s.
Proof.
  induction s as [|c s IH]; cbn [forallb unquote filter]; [auto|]. intros H. apply andb_true_iff in H. destruct H as [H1 H2].
  unfold okc in H1. apply andb_true_iff in H1. destruct H1 as [H1 H3]. apply andb_true_iff in H1. destruct H1 as [H1 H4].
  destruct (IH H2) as [A [B C]]. rewrite H1, H4, H3, A, B. cbn. split; [reflexivity|]. split; [reflexivity|]. f_equal. exact C.
Qed.

Lemma rev_nonempty (k : list Z) : k <> [] -> exists x xs, rev k = x :: xs.
Proof.
  intros H. destruct (rev k) as [|x xs] eqn:E; [|exists x, xs; reflexivity].
  exfalso. apply H. apply (f_equal (@rev Z)) in E. rewrite rev_involutive in E. exact E.
Qed.

(* one printed attribute (without its semicolon), preceded by at most one blank, splits into key and quoted value *)
Lemma words_attr k v (lead : bool) : clean k = true -> clean v = true ->
  words ((if lead then [32] else []) ++ k ++ [32; 34] ++ v ++ [34]) [] = [k; 34 :: v ++ [34]].
Proof.
  intros Hk Hv. destruct (clean_spec k Hk) as [Hk0 Hk1]. destruct (clean_spec v Hv) as [Hv0 Hv1].
  destruct (okc_parts k Hk1) as [Kw _]. destruct (okc_parts v Hv1) as [Vw _].
  assert (E0 : words ((if lead then [32] else []) ++ k ++ [32; 34] ++ v ++ [34]) [] = words (k ++ [32; 34] ++ v ++ [34]) []).
  { destruct lead; reflexivity. }
  rewrite E0. rewrite (words_tok k [] _ Kw). rewrite app_nil_r.
  destruct (rev_nonempty k Hk0) as [x [xs Er]].
  change ([32; 34] ++ v ++ [34]) with (32 :: 34 :: v ++ [34]).
  cbn [words]. change (is_ws 32) with true. cbn iota. rewrite Er. rewrite <- Er, rev_involutive. f_equal.
  cbn [words]. change (is_ws 34) with false. cbn iota.
  rewrite (words_tok v [34] [34] Vw). cbn [words]. change (is_ws 34) with false. cbn iota. cbn [words].
  f_equal. cbn [rev]. rewrite rev_app_distr, rev_involutive. reflexivity.
Qed.

Definition attr_of (part : list Z) : list (list Z * list Z) :=
  match words part [] with [k; v] => [(k, unquote v)] | _ => [] end.

Lemma unquote_quoted v : forallb okc v = true -> unquote (34 :: v ++ [34]) = v.
Proof.
  intros H. destruct (okc_parts v H) as [_ [_ U]]. unfold unquote in *. cbn [filter]. change (negb (34 =? 34)) with false. cbn iota.
  rewrite filter_app, U. cbn. apply app_nil_r.
Qed.

Lemma roundtrip_gen kvs : forall lead : bool, (forall kv, In kv kvs -> clean (fst kv) = true /\ clean (snd kv) = true) ->
  flat_map attr_of (split_on 59 ((if lead then [32] else []) ++ print_attrs kvs) []) = kvs.
Proof.
  induction kvs as [|[k v] t IH]; intros lead H.
  - destruct lead; reflexivity.
  - destruct (H (k, v) (or_introl eq_refl)) as [Hk Hv]. cbn [fst snd] in Hk, Hv.
    destruct (clean_spec k Hk) as [_ Hk1]. destruct (clean_spec v Hv) as [_ Hv1].
    destruct (okc_parts k Hk1) as [_ [Ks _]]. destruct (okc_parts v Hv1) as [_ [Vs _]].
    assert (E : (if lead then [32] else []) ++ print_attrs ((k, v) :: t) =
                ((if lead then [32] else []) ++ k ++ [32; 34] ++ v ++ [34]) ++ 59 :: ([32] ++ print_attrs t)).
    { unfold print_attrs. cbn [flat_map]. unfold print_attr at 1. cbn [fst snd]. rewrite <- !app_assoc. cbn [app]. reflexivity. }
    rewrite E. rewrite split_piece.
    2:{ rewrite !forallb_app. rewrite Ks, Vs. destruct lead; reflexivity. }
    cbn [rev flat_map]. rewrite app_nil_l. unfold attr_of at 1. rewrite (words_attr k v lead Hk Hv), (unquote_quoted v Hv1).
    cbn [app]. f_equal. apply (IH true). intros kv Hin. apply H. right. exact Hin.
Qed.

(* parsing the printed attribute column gives back exactly the key / value pairs, in order *)
Theorem attrs_roundtrip kvs : (forall kv, In kv kvs -> clean (fst kv) = true /\ clean (snd kv) = true) ->
  parse_attrs (print_attrs kvs) = kvs.
Proof. intros H. exact (roundtrip_gen kvs false H). Qed.
