(* C06 proofs, part 4: the cap bound, and maximality of the greedy assignment (a molecule is only started
   when every cached molecule refuses the fragment). *)
From Coq Require Import ZArith List Bool Lia.
Import ListNotations.
From SCMO Require Import Lib.Val Model.C06 Proofs.C06_shape Proofs.C06 Proofs.C06_dup Proofs.C06_main.
Open Scope Z_scope.

(* ---------------------------------------------------------------- cap *)
Lemma cap_inv c frags k : c_cap c = Some k -> 1 <= k -> let st := fold_left (step c) frags st0 in
  (forall m, In m (all_mols (st_groups st)) -> Z.of_nat (length (m_frags m)) <= k) /\
  (forall m, In m (st_emitted st) -> Z.of_nat (length (m_frags m)) <= k).
Proof.
  intros Hc Hk.
  apply (run_inv c (fun _ X E => (forall m, In m X -> Z.of_nat (length (m_frags m)) <= k) /\
                                 (forall m, In m E -> Z.of_nat (length (m_frags m)) <= k))).
  - split; intros m [].
  - intros pre X E f [HX HE] Hv. split; [assumption|]. intros m Hm. apply in_app_or in Hm as [Hm|Hm]; [auto|].
    destruct (c_yinv c); [|destruct Hm]. destruct Hm as [<-|[]]. cbn. lia.
  - intros pre X E f X' e [HX HE] Hv Ht. split.
    + intros m' Hm'. destruct (trans_in _ _ _ _ _ _ Ht Hm') as [H|[(m & Hm & Ha & [(Hf & -> & _)|(Hf & -> & _)])|(-> & _)]].
      * auto.
      * unfold full in Hf. rewrite Hc in Hf. apply Z.leb_gt in Hf. cbn [mol_add m_frags]. rewrite app_length. cbn [length]. lia.
      * cbn [mol_bump m_frags]. auto.
      * cbn. lia.
    + intros m Hm. apply in_app_or in Hm as [Hm|Hm]; [auto|]. unfold emit_of in Hm.
      destruct e as [m0|]; [|destruct Hm]. destruct (c_yover c); [|destruct Hm]. destruct Hm as [<-|[]].
      inversion Ht; subst. cbn. lia.
Qed.

Lemma cap_main c frags out k m : c_cap c = Some k -> assign c frags = Some out -> In m out ->
  Z.of_nat (length (m_frags m)) <= k /\ (m_ovf m <> [] -> Z.of_nat (length (m_frags m)) = k).
Proof.
  intros Hc H Hm. pose proof H as H0. apply assign_some in H as [(Hb & -> & Hn)|(Hb & ->)]; [destruct Hm|].
  assert (Hk : 1 <= k) by (rewrite cap_bad_shape, Hc in Hb; apply Z.leb_gt in Hb; lia).
  destruct (cap_inv c frags k Hc Hk) as [HX HE].
  assert (Hle : Z.of_nat (length (m_frags m)) <= k).
  { unfold assign_ok in Hm. apply in_app_or in Hm as [Hm|Hm]; auto. }
  split; [assumption|]. intros Ho.
  destruct (assign_parts _ _ _ H0) as (E & X & Heq & HXc & HEc & _). rewrite Heq in Hm.
  apply in_app_or in Hm as [Hm|Hm].
  - destruct (HEc m Hm) as (_ & Ho' & _). contradiction.
  - destruct (HXc m Hm) as (_ & _ & _ & Hfull). apply Hfull in Ho. unfold full in Ho. rewrite Hc in Ho.
    apply Z.leb_le in Ho. lia.
Qed.

(* ---------------------------------------------------------------- maximality of the greedy assignment *)
Definition prefix {A} (p l : list A) : Prop := exists q, l = p ++ q.
Definition snap (p o : list frag) : mol := {| m_frags := p; m_ovf := o; m_kind := 0 |}.
(* the first fragment of m2 was refused by m1 as it was at some earlier moment *)
Definition refused (c : cfg) (m1 m2 : mol) : Prop :=
  exists p o g, hd_error (m_frags m2) = Some g /\ prefix p (m_frags m1) /\ p <> [] /\ prefix o (m_ovf m1) /\
                accepts c g (snap p o) = false.
Definition separated (c : cfg) (m1 m2 : mol) : Prop := refused c m1 m2 \/ refused c m2 m1.

Fixpoint pairwise {A} (R : A -> A -> Prop) (l : list A) : Prop :=
  match l with [] => True | a :: l' => Forall (R a) l' /\ pairwise R l' end.

Lemma pairwise_middle {A} (R : A -> A -> Prop) (Rsym : forall x y, R x y -> R y x) l1 a l2 :
  pairwise R (l1 ++ a :: l2) <-> pairwise R (l1 ++ l2) /\ Forall (R a) (l1 ++ l2).
Proof.
  induction l1 as [|b l1 IH]; cbn [app pairwise].
  - tauto.
  - split.
    + intros [Hb Hp]. apply IH in Hp as [Hp Ha]. apply Forall_app in Hb as [Hb1 Hb2].
      apply Forall_cons_iff in Hb2 as [Hba Hb2]. split; [split|]; [apply Forall_app; now split|assumption|].
      constructor; [now apply Rsym|assumption].
    + intros [[Hb Hp] Ha]. apply Forall_cons_iff in Ha as [Hab Ha]. apply Forall_app in Hb as [Hb1 Hb2]. split.
      * apply Forall_app. split; [assumption|]. constructor; [now apply Rsym|assumption].
      * apply IH. now split.
Qed.

Lemma pairwise_split {A} (R : A -> A -> Prop) l : pairwise R l ->
  forall l1 a l2 b l3, l = l1 ++ a :: l2 ++ b :: l3 -> R a b.
Proof.
  induction l as [|x l IH]; intros H l1 a l2 b l3 E.
  - destruct l1; discriminate.
  - destruct H as [Hx Hp]. destruct l1 as [|y l1]; cbn in E; inversion E; subst.
    + rewrite Forall_forall in Hx. apply Hx. apply in_or_app; right; now left.
    + eapply IH; [assumption|reflexivity].
Qed.

Lemma accepts_snap c f m : accepts c f (snap (m_frags m) (m_ovf m)) = accepts c f m.
Proof. reflexivity. Qed.

Definition ext (m m' : mol) : Prop := prefix (m_frags m) (m_frags m') /\ prefix (m_ovf m) (m_ovf m') /\ m_frags m <> [].

Lemma prefix_trans {A} (p l l' : list A) : prefix p l -> prefix l l' -> prefix p l'.
Proof. intros [q ->] [q' ->]. exists (q ++ q'). now rewrite app_assoc. Qed.

Lemma refused_ext_l c m1 m1' m2 : ext m1 m1' -> refused c m1 m2 -> refused c m1' m2.
Proof.
  intros (Hf & Ho & _) (p & o & g & Hh & Hp & Hne & Hpo & Ha). exists p, o, g.
  repeat split; try assumption; eapply prefix_trans; eassumption.
Qed.
Lemma refused_ext_r c m1 m2 m2' : ext m2 m2' -> refused c m1 m2 -> refused c m1 m2'.
Proof.
  intros ([q Hq] & _ & Hne) (p & o & g & Hh & Hp & Hnp & Hpo & Ha). exists p, o, g.
  repeat split; try assumption. rewrite Hq. destruct (m_frags m2); [discriminate|assumption].
Qed.
Lemma separated_ext c m m' x : ext m m' -> separated c m x -> separated c m' x.
Proof. intros He [H|H]; [left; eapply refused_ext_l|right; eapply refused_ext_r]; eassumption. Qed.
Lemma separated_sym c x y : separated c x y -> separated c y x.
Proof. intros [H|H]; [now right|now left]. Qed.

Lemma greedy_inv c frags : let st := fold_left (step c) frags st0 in
  (forall m, In m (all_mols (st_groups st)) -> cached_ok c m) /\ pairwise (separated c) (all_mols (st_groups st)).
Proof.
  apply (run_inv c (fun _ X _ => (forall m, In m X -> cached_ok c m) /\ pairwise (separated c) X)).
  - split; [intros m []|exact I].
  - auto.
  - intros pre X E f X' e [HX HP] Hv Ht. split; [eapply cached_ok_trans; eassumption|].
    assert (Hstep : forall l1 m l2 m', X = l1 ++ m :: l2 -> ext m m' -> pairwise (separated c) (l1 ++ m' :: l2)).
    { intros l1 m l2 m' -> He. apply (pairwise_middle _ (separated_sym c)) in HP as [HP1 HP2].
      apply (pairwise_middle _ (separated_sym c)). split; [assumption|].
      eapply Forall_impl; [|exact HP2]. intros x. now apply separated_ext. }
    inversion Ht; subst.
    + eapply Hstep; [reflexivity|]. destruct (HX m) as (_ & Hne & _); [apply in_or_app; right; now left|].
      repeat split; [exists [f]; reflexivity|exists []; now rewrite app_nil_r|assumption].
    + eapply Hstep; [reflexivity|]. destruct (HX m) as (_ & Hne & _); [apply in_or_app; right; now left|].
      repeat split; [exists []; now rewrite app_nil_r|exists [f]; reflexivity|assumption].
    + apply (pairwise_middle _ (separated_sym c)). split; [assumption|]. apply Forall_forall. intros m Hm.
      right. exists (m_frags m), (m_ovf m), f. destruct (HX m Hm) as (_ & Hne & _).
      repeat split; try assumption; try (exists []; now rewrite app_nil_r). rewrite accepts_snap. now apply H1.
Qed.

Lemma greedy_main c frags out : assign c frags = Some out ->
  forall l1 m1 l2 m2 l3, filter normal out = l1 ++ m1 :: l2 ++ m2 :: l3 -> separated c m1 m2.
Proof.
  intros H. destruct (normal_parts _ _ _ H) as [(_ & ->)|(_ & -> & _)].
  - apply pairwise_split. apply greedy_inv.
  - intros l1 m1 l2 m2 l3 E. destruct l1; discriminate.
Qed.
