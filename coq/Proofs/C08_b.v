(* C08 proofs, part b: window completeness, mate-less fragments are never owned, and
   one task writes exactly the serial molecules of the hash groups it accepts. *)
From Coq Require Import ZArith List Bool Lia ZifyBool Permutation Arith.
Import ListNotations.
From SCMO Require Import Lib.Val Gen.GenOwner Model.C08 Proofs.C08_a.
Open Scope Z_scope.

(* ------------------------------------------------------------------ geometry *)
Lemma frag_ok_read : forall L len f r, frag_ok L len f = true -> In r (f_reads f) ->
  0 <= r_lo r /\ r_lo r < r_hi r /\ r_hi r <= len.
Proof.
  intros L len f r H Hin. unfold frag_ok in H. apply andb_prop in H. destruct H as [H _].
  apply andb_prop in H. destruct H as [H _]. rewrite forallb_forall in H. specialize (H r Hin).
  unfold read_ok in H. lia.
Qed.

Lemma frag_ok_span : forall L len f r r', frag_ok L len f = true -> In r (f_reads f) -> In r' (f_reads f) ->
  r_hi r - r_lo r' <= L.
Proof.
  intros L len f r r' H Hin Hin'. unfold frag_ok in H. apply andb_prop in H. destruct H as [H _].
  apply andb_prop in H. destruct H as [_ H]. rewrite forallb_forall in H. specialize (H r Hin).
  rewrite forallb_forall in H. specialize (H r' Hin'). lia.
Qed.

Lemma frag_ok_site : forall L len f r s, frag_ok L len f = true -> f_site f = Some s -> In r (f_reads f) ->
  s + 1 - r_lo r <= L /\ r_hi r - s <= L.
Proof.
  intros L len f r s H Hs Hin. unfold frag_ok in H. apply andb_prop in H. destruct H as [_ H].
  rewrite Hs in H. rewrite forallb_forall in H. specialize (H r Hin). lia.
Qed.

(* every read of a fragment whose site is owned overlaps the fetch window *)
Lemma window_complete : forall L len t f s,
  margin_ok L len t = true -> frag_ok L len f = true ->
  f_site f = Some s -> t_start t <= s < t_end t -> fully_fetched t f = true.
Proof.
  intros L len t f s Hm Hf Hs Hown. unfold fully_fetched. apply forallb_forall. intros r Hin.
  destruct (frag_ok_read _ _ _ _ Hf Hin) as (A & B & C).
  destruct (frag_ok_site _ _ _ _ _ Hf Hs Hin) as (D & E).
  unfold margin_ok in Hm. unfold overlaps. lia.
Qed.

(* if some read of a fragment is not fetched, no read of that fragment starts inside [start,end) *)
Lemma anchor_not_owned : forall L len t f r r',
  margin_ok L len t = true -> frag_ok L len f = true ->
  In r (f_reads f) -> overlaps t r = false -> In r' (f_reads f) ->
  ~ (t_start t <= r_lo r' < t_end t).
Proof.
  intros L len t f r r' Hm Hf Hin Hov Hin'.
  destruct (frag_ok_read _ _ _ _ Hf Hin) as (A & B & C).
  destruct (frag_ok_read _ _ _ _ Hf Hin') as (A' & B' & C').
  pose proof (frag_ok_span _ _ _ _ _ Hf Hin Hin') as S1.
  pose proof (frag_ok_span _ _ _ _ _ Hf Hin' Hin) as S2.
  unfold margin_ok in Hm. unfold overlaps in Hov. lia.
Qed.

Lemma not_fully_fetched : forall t f, fully_fetched t f = false ->
  exists r, In r (f_reads f) /\ overlaps t r = false.
Proof.
  intros t f H. unfold fully_fetched in H.
  induction (f_reads f) as [|a l IH]; cbn [forallb] in H; [discriminate|].
  destruct (overlaps t a) eqn:E.
  - destruct (IH H) as [r [Hr Hov]]. exists r. split; [right; exact Hr|exact Hov].
  - exists a. split; [left; reflexivity|exact E].
Qed.

(* ------------------------------------------------------------------ keys *)
Lemma keys_in : forall fs k, In k (keys fs) <-> exists f, In f fs /\ f_key f = k.
Proof.
  intros fs k. unfold keys. rewrite nodup_In, in_map_iff. split; intros [f [A B]]; exists f; tauto.
Qed.

Lemma keys_NoDup : forall fs, NoDup (keys fs).
Proof. intros. apply NoDup_nodup. Qed.

Lemma keys_filter_nonempty : forall fs k, In k (keys fs) <-> filter (has_key k) fs <> [].
Proof.
  intros fs k. rewrite keys_in. split.
  - intros [f [Hin Hk]] E. assert (In f (filter (has_key k) fs)) as X.
    { apply filter_In. split; [exact Hin|]. unfold has_key. lia. }
    rewrite E in X. destruct X.
  - intros H. destruct (filter (has_key k) fs) as [|f l] eqn:E; [congruence|].
    assert (In f (filter (has_key k) fs)) as X by (rewrite E; left; reflexivity).
    apply filter_In in X. destruct X as [X1 X2]. exists f. split; [exact X1|]. unfold has_key in X2. lia.
Qed.

Lemma filter_flat_map_single {A} (p : A -> bool) (F : A -> list A) (l : list A) :
  (forall f, In f l -> filter p (F f) = if p f then [f] else []) -> filter p (flat_map F l) = filter p l.
Proof.
  induction l as [|a l IH]; intros H; [reflexivity|].
  cbn [flat_map filter]. rewrite filter_app, (H a (or_introl eq_refl)), IH by (intros f Hf; apply H; right; exact Hf).
  destruct (p a); reflexivity.
Qed.

Lemma flat_map_ext_in {A B} (f h : A -> list B) (l : list A) :
  (forall a, In a l -> f a = h a) -> flat_map f l = flat_map h l.
Proof.
  induction l as [|a l IH]; intros H; [reflexivity|]. cbn [flat_map].
  rewrite (H a (or_introl eq_refl)), IH by (intros x Hx; apply H; right; exact Hx). reflexivity.
Qed.

Lemma Permutation_flat_map_list {A B} (f : A -> list B) (l l' : list A) :
  Permutation l l' -> Permutation (flat_map f l) (flat_map f l').
Proof.
  induction 1; cbn [flat_map].
  - constructor.
  - apply Permutation_app_head. assumption.
  - rewrite !app_assoc. apply Permutation_app_tail. apply Permutation_app_comm.
  - etransitivity; eassumption.
Qed.

Section Job.
  (* arbitrary per-hash-group molecule assignment (greedy UMI matching, overflow, ...) *)
  Variable g : list frag -> list mol.
  Hypothesis g_sub : forall l m f, In m (g l) -> In f m -> In f l.
  Hypothesis g_nonempty : forall l m, In m (g l) -> m <> [].
  (* arbitrary fragment made of the remaining reads when a mate was not fetched *)
  Variable partial : task -> frag -> frag.
  (* the hash determines contig and site (NlaIIIFragment / CHICFragment with radius 0: match_hash
     contains site_location; fragments without a hash are modelled with a private key) *)
  Variable ksite : Z -> option Z.
  Variable kcontig : Z -> Z.
  Definition keyed (f : frag) : Prop := f_site f = ksite (f_key f) /\ f_contig f = kcontig (f_key f).

  Variable L : Z.
  Variable fs : list frag.
  Variable t : task.
  Hypothesis fs_keyed : forall f, In f fs -> keyed f.
  Hypothesis partial_keyed : forall f, In f fs -> In (partial t f) (job_frag partial t f) -> keyed (partial t f).
  (* site of a fragment that lost a mate: none, the site of the whole fragment (R1 still there), or
     the start of one of its reads (the anchor the fragment classes fall back to) *)
  Hypothesis partial_site : forall f, In f fs ->
    f_site (partial t f) = None \/ f_site (partial t f) = f_site f \/
    exists r, In r (f_reads f) /\ f_site (partial t f) = Some (r_lo r).
  Hypothesis partial_contig : forall f, In f fs -> f_contig f = t_contig t -> f_contig (partial t f) = t_contig t.
  Hypothesis geom : forall f, In f fs -> t_region t = true -> f_contig f = t_contig t ->
    exists len, margin_ok L len t = true /\ frag_ok L len f = true.

  Definition acc (k : Z) : bool := accepts t (kcontig k) (ksite k).

  Lemma mol_site_keyed : forall k (m : mol), m <> [] -> (forall f, In f m -> keyed f /\ f_key f = k) ->
    mol_site m = match ksite k with Some s => Some (kcontig k, s) | None => None end.
  Proof.
    intros k m. induction m as [|f r IH]; intros Hne H; [congruence|].
    destruct (H f (or_introl eq_refl)) as [[Hs Hc] Hk]. cbn [mol_site]. rewrite Hs, Hc, Hk.
    destruct r as [|f2 r2]; [destruct (ksite k); reflexivity|].
    rewrite IH; [destruct (ksite k); reflexivity|discriminate|intros x Hx; apply H; right; exact Hx].
  Qed.

  Lemma job_frag_cases : forall f x, In x (job_frag partial t f) ->
    f_contig f = t_contig t /\
    (x = f \/ (x = partial t f /\ t_region t = true /\ fully_fetched t f = false)).
  Proof.
    intros f x H. unfold job_frag in H.
    destruct (f_contig f =? t_contig t) eqn:E; cbn [negb] in H; [|destruct H].
    split; [lia|].
    destruct (t_region t) eqn:R; cbn [negb] in H.
    - destruct (fully_fetched t f) eqn:FF.
      + destruct H as [<-|[]]. left. reflexivity.
      + destruct (fetched_reads t f); [destruct H|]. destruct H as [<-|[]]. right. auto.
    - destruct H as [<-|[]]. left. reflexivity.
  Qed.

  Lemma job_frags_keyed : forall x, In x (job_frags partial t fs) -> keyed x.
  Proof.
    intros x H. unfold job_frags in H. apply in_flat_map in H. destruct H as [f [Hf Hx]].
    destruct (job_frag_cases _ _ Hx) as [_ [->|[-> _]]]; [apply fs_keyed; exact Hf|apply partial_keyed; [exact Hf|exact Hx]].
  Qed.

  (* an accepted hash group is seen by the job exactly as the serial pass sees it *)
  Lemma accepted_frag : forall k f, acc k = true -> In f fs ->
    filter (has_key k) (job_frag partial t f) = if has_key k f then [f] else [].
  Proof.
    intros k f Hacc Hf. destruct (fs_keyed f Hf) as [Hs Hc].
    unfold acc, accepts in Hacc.
    destruct (has_key k f) eqn:HK.
    - assert (f_key f = k) as Ek by (unfold has_key in HK; lia). rewrite Ek in Hs, Hc.
      unfold job_frag. destruct (t_region t) eqn:R.
      + destruct (ksite k) as [p|] eqn:Ks; [|discriminate]. rewrite owns_spec in Hacc.
        assert (f_contig f = t_contig t) as Hct by lia.
        replace (f_contig f =? t_contig t) with true by lia. cbn [negb].
        destruct (geom f Hf eq_refl Hct) as [len [Hm Hok]].
        rewrite (window_complete L len t f p Hm Hok Hs) by lia.
        cbn [filter]. rewrite HK. reflexivity.
      + replace (f_contig f =? t_contig t) with true by lia. cbn [negb filter]. rewrite HK. reflexivity.
    - (* a fragment of another hash group: whatever the job makes of it has another key *)
      destruct (job_frag partial t f) as [|x l] eqn:E; [reflexivity|].
      assert (In x (job_frag partial t f)) as Hx by (rewrite E; left; reflexivity).
      assert (l = []) as ->.
      { unfold job_frag in E. destruct (negb (f_contig f =? t_contig t)); [discriminate|].
        destruct (negb (t_region t)); [injection E; auto|].
        destruct (fully_fetched t f); [injection E; auto|].
        destruct (fetched_reads t f); [discriminate|injection E; auto]. }
      cbn [filter].
      destruct (job_frag_cases _ _ Hx) as [Hct [->|[-> [R FF]]]]; [rewrite HK; reflexivity|].
      destruct (has_key k (partial t f)) eqn:HKp; [exfalso|reflexivity].
      assert (f_key (partial t f) = k) as Ek by (unfold has_key in HKp; lia).
      destruct (partial_keyed f Hf Hx) as [Hps _]. rewrite Ek in Hps.
      rewrite R in Hacc. destruct (ksite k) as [p|] eqn:Ks; [|discriminate]. rewrite owns_spec in Hacc.
      destruct (geom f Hf R Hct) as [len [Hm Hok]].
      destruct (partial_site f Hf) as [N|[S|[r' [Hr' S]]]].
      + congruence.
      + rewrite S in Hps. rewrite (window_complete L len t f p Hm Hok Hps) in FF by lia. discriminate.
      + destruct (not_fully_fetched _ _ FF) as [r [Hr Hov]].
        apply (anchor_not_owned L len t f r r' Hm Hok Hr Hov Hr'). rewrite S in Hps. injection Hps as ->. lia.
  Qed.

  Lemma accepted_key_same : forall k, acc k = true ->
    filter (has_key k) (job_frags partial t fs) = filter (has_key k) fs.
  Proof.
    intros k Hacc. unfold job_frags. apply filter_flat_map_single.
    intros f Hf. apply accepted_frag; assumption.
  Qed.

  (* the loop's decision is the same for every molecule of one hash group *)
  Lemma writes_group : forall k m, In m (g (filter (has_key k) (job_frags partial t fs))) -> writes t m = acc k.
  Proof.
    intros k m Hm.
    assert (Hfr : forall f, In f m -> keyed f /\ f_key f = k /\ f_contig f = t_contig t).
    { intros f Hf. pose proof (g_sub _ _ _ Hm Hf) as Hin. apply filter_In in Hin. destruct Hin as [Hin HK].
      split; [apply job_frags_keyed; exact Hin|]. split; [unfold has_key in HK; lia|].
      unfold job_frags in Hin. apply in_flat_map in Hin. destruct Hin as [f0 [Hf0 Hx]].
      pose proof (job_frags_keyed f) as Kf.
      destruct (job_frag_cases _ _ Hx) as [Hct [->|[-> _]]]; [exact Hct|].
      (* partial fragment: its contig is given by its key, and so is ... *)
      exact (partial_contig f0 Hf0 Hct). }
    pose proof (g_nonempty _ _ Hm) as Hne.
    unfold writes, acc, accepts. destruct (t_region t) eqn:R.
    - rewrite (mol_site_keyed k m Hne) by (intros f Hf; destruct (Hfr f Hf) as (A & B & _); auto).
      destruct (ksite k); reflexivity.
    - destruct m as [|f r]; [congruence|]. destruct (Hfr f (or_introl eq_refl)) as ([_ Hc] & Hk & Hct).
      rewrite Hk in Hc. lia.
  Qed.

  Lemma job_run_keys : job_run g partial t fs =
    flat_map (fun k => g (filter (has_key k) fs)) (filter acc (keys (job_frags partial t fs))).
  Proof.
    unfold job_run, group. rewrite job_loop_filter, filter_flat_map, flat_map_filter_if.
    apply flat_map_ext_in. intros k Hk.
    rewrite (filter_const_in (writes t) (acc k)) by (intros m Hm; apply writes_group; exact Hm).
    destruct (acc k) eqn:E; [|reflexivity]. rewrite (accepted_key_same k E). reflexivity.
  Qed.

  (* one task writes exactly the serial molecules of the hash groups it accepts *)
  Lemma job_run_perm : Permutation (job_run g partial t fs)
    (flat_map (fun k => if acc k then g (filter (has_key k) fs) else []) (keys fs)).
  Proof.
    rewrite job_run_keys, <- flat_map_filter_if. apply Permutation_flat_map_list.
    apply NoDup_Permutation.
    - apply NoDup_filter, keys_NoDup.
    - apply NoDup_filter, keys_NoDup.
    - intros k. rewrite !filter_In. split; intros [Hk Ha]; (split; [|exact Ha]).
      + apply keys_filter_nonempty. rewrite <- (accepted_key_same k Ha). apply keys_filter_nonempty. exact Hk.
      + apply keys_filter_nonempty. rewrite (accepted_key_same k Ha). apply keys_filter_nonempty. exact Hk.
  Qed.
End Job.
