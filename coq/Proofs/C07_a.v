(* C07 proofs, part a: Python's pop loop, and the generic machine (emit-once, never IndexError,
   simulation of an ejecting run by the never-ejecting run). *)
From Coq Require Import ZArith List Bool Lia ZifyBool Permutation.
Import ListNotations.
From SCMO Require Import Lib.Val Gen.GenEject Model.C07.
Open Scope Z_scope.

(* ------------------------------------------------------------------ the pop loop *)
Section PopFacts.
Context {A : Type}.

Lemma remove_nth_app (pre : list A) x l : remove_nth (length pre) (pre ++ x :: l) = Some (x, pre ++ l).
Proof. induction pre as [|a pre IH]; cbn; auto. rewrite IH. reflexivity. Qed.

Lemma remove_nth_perm : forall n (l : list A) x r, remove_nth n l = Some (x, r) -> Permutation (x :: r) l.
Proof.
  induction n as [|n IH]; intros [|a l] x r H; cbn in H; try discriminate.
  - injection H as <- <-. apply Permutation_refl.
  - destruct (remove_nth n l) as [[y r']|] eqn:E; [|discriminate].
    injection H as <- <-. apply IH in E.
    eapply Permutation_trans; [apply perm_swap|]. apply perm_skip. exact E.
Qed.

Lemma pop_py_perm (l : list A) k x r : pop_py l k = Some (x, r) -> Permutation (x :: r) l.
Proof.
  unfold pop_py. intros H.
  destruct ((if k <? 0 then k + Z.of_nat (length l) else k) <? 0); [discriminate|].
  eapply remove_nth_perm; eauto.
Qed.

(* whatever the index expression is, the loop only moves elements from the list to the output *)
Lemma eject_perm idx : forall js i (l out rest : list A) ok,
  eject idx i js l = (out, rest, ok) -> Permutation (out ++ rest) l.
Proof.
  induction js as [|j js IH]; intros i l out rest ok H; cbn [eject] in H.
  - injection H as <- <- <-. apply Permutation_refl.
  - destruct (pop_py l (idx (Z.of_nat i) (Z.of_nat j))) as [[x l']|] eqn:E.
    + destruct (eject idx (S i) js l') as [[o r] k] eqn:E2. injection H as <- <- <-.
      apply IH in E2. apply pop_py_perm in E. cbn.
      eapply Permutation_trans; [|exact E]. apply perm_skip. exact E2.
    + injection H as <- <- <-. apply Permutation_refl.
Qed.

Lemma eject_list_perm idx p (l out rest : list A) ok :
  eject_list idx p l = (out, rest, ok) -> Permutation (out ++ rest) l.
Proof. apply eject_perm. Qed.

(* with the index j - i the loop is exactly `partition`:
   pre = kept elements already passed, i = number popped so far *)
Lemma eject_good_aux idx (Hidx : forall i j, idx i j = j - i) p : forall (l pre : list A) i,
  eject idx i (to_pop p (length pre + i) l) (pre ++ l)
  = (filter p l, pre ++ filter (fun x => negb (p x)) l, true).
Proof.
  induction l as [|x l IH]; intros pre i; cbn [to_pop filter].
  - cbn. rewrite app_nil_r. reflexivity.
  - destruct (p x) eqn:Hp; cbn [app negb].
    + cbn [eject]. rewrite Hidx. unfold pop_py.
      replace (Z.of_nat (length pre + i) - Z.of_nat i) with (Z.of_nat (length pre)) by lia.
      destruct (Z.of_nat (length pre) <? 0) eqn:E; [lia|]. rewrite E.
      rewrite Nat2Z.id, remove_nth_app.
      replace (S (length pre + i)) with (length pre + S i)%nat by lia.
      rewrite IH. reflexivity.
    + replace (pre ++ x :: l) with ((pre ++ [x]) ++ l) by (rewrite <- app_assoc; reflexivity).
      replace (S (length pre + i)) with (length (pre ++ [x]) + i)%nat by (rewrite app_length; cbn; lia).
      rewrite IH. rewrite <- app_assoc. reflexivity.
Qed.

Lemma eject_list_good idx (Hidx : forall i j, idx i j = j - i) p (l : list A) :
  eject_list idx p l = (filter p l, filter (fun x => negb (p x)) l, true).
Proof. exact (eject_good_aux idx Hidx p l [] 0%nat). Qed.
End PopFacts.

(* the index i - j (as in the code before the repair) pops the wrong element *)
Example pop_expr_refuted :
  eject_list (fun i j => i - j) (fun n => Z.eqb n 1) [0; 1; 2] = ([2], [0; 1], true).
Proof. vm_compute. reflexivity. Qed.

(* ------------------------------------------------------------------ generic machine *)
Section MachineFacts.
Variables F M : Type.
Variable newm : F -> M.
Variable addm : M -> F -> M.
Variable matchm : M -> F -> bool.
Variable hashf : F -> Z.
Variable validf : F -> bool.
Variable nochrom : F -> bool.
Variable yieldable : F -> M -> bool.
Variable pidx : Z -> Z -> Z.
Variable yield_invalid : bool.
Variable frags_of : M -> list F.
Hypothesis frags_new : forall f, frags_of (newm f) = [f].
Hypothesis frags_add : forall m f, frags_of (addm m f) = frags_of m ++ [f].

Notation assign := (assign F M addm matchm).
Notation place := (place F M newm addm matchm).
Notation gplace := (gplace F M newm addm matchm).
Notation geject := (geject M pidx).
Notation step := (step F M newm addm matchm hashf validf nochrom yieldable pidx).
Notation run_from := (run_from F M newm addm matchm hashf validf nochrom yieldable pidx).
Notation run_machine := (run_machine F M newm addm matchm hashf validf nochrom yieldable pidx).
Notation state := (state M).

Definition all_frags (l : list M) : list F := concat (map frags_of l).
Definition gmols (gs : list (Z * list M)) : list M := concat (map snd gs).
Definition wanted (f : F) : bool := validf f || yield_invalid.

Lemma all_frags_app a b : all_frags (a ++ b) = all_frags a ++ all_frags b.
Proof. unfold all_frags. rewrite map_app, concat_app. reflexivity. Qed.

Lemma all_frags_perm a b : Permutation a b -> Permutation (all_frags a) (all_frags b).
Proof.
  induction 1 as [|x a b _ IH|x y a|a b c _ IH1 _ IH2]; unfold all_frags in *; cbn.
  - apply Permutation_refl.
  - apply Permutation_app_head. exact IH.
  - rewrite !app_assoc. apply Permutation_app_tail. apply Permutation_app_comm.
  - eapply Permutation_trans; eauto.
Qed.

Lemma assign_perm f : forall l r, assign f l = Some r -> Permutation (all_frags r) (f :: all_frags l).
Proof.
  induction l as [|m l IH]; intros r H; cbn [C07.assign] in H; [discriminate|].
  destruct (matchm m f).
  - injection H as <-. unfold all_frags. cbn. rewrite frags_add.
    rewrite <- app_assoc. cbn.
    eapply Permutation_trans; [apply Permutation_app_comm|]. cbn.
    apply perm_skip. apply Permutation_app_comm.
  - destruct (assign f l) as [r'|] eqn:E; [|discriminate]. injection H as <-.
    specialize (IH _ eq_refl). unfold all_frags in *. cbn.
    eapply Permutation_trans; [apply Permutation_app_head; exact IH|].
    eapply Permutation_trans; [apply Permutation_app_comm|]. cbn. apply perm_skip. apply Permutation_app_comm.
Qed.

Lemma place_perm f l : Permutation (all_frags (place f l)) (f :: all_frags l).
Proof.
  unfold C07.place. destruct (assign f l) as [r|] eqn:E.
  - apply assign_perm. exact E.
  - rewrite all_frags_app. unfold all_frags at 2. cbn. rewrite frags_new, app_nil_r.
    eapply Permutation_trans; [apply Permutation_app_comm|]. apply Permutation_refl.
Qed.

Lemma gmols_cons k l gs : gmols ((k, l) :: gs) = l ++ gmols gs.
Proof. reflexivity. Qed.

Lemma gplace_perm f k : forall gs, Permutation (all_frags (gmols (gplace f k gs))) (f :: all_frags (gmols gs)).
Proof.
  induction gs as [|[k' l] gs IH]; cbn [C07.gplace].
  - rewrite gmols_cons. cbn [gmols map concat]. rewrite app_nil_r. apply place_perm.
  - destruct (k =? k').
    + rewrite !gmols_cons, !all_frags_app.
      eapply Permutation_trans; [apply Permutation_app_tail; apply place_perm|]. apply Permutation_refl.
    + rewrite !gmols_cons, !all_frags_app.
      eapply Permutation_trans; [apply Permutation_app_head; exact IH|].
      apply Permutation_sym. apply Permutation_middle.
Qed.

Lemma geject_perm p : forall gs out gs' ok,
  geject p gs = (out, gs', ok) -> Permutation (out ++ gmols gs') (gmols gs).
Proof.
  induction gs as [|[k l] gs IH]; intros out gs' ok H; cbn [C07.geject] in H.
  - injection H as <- <- <-. apply Permutation_refl.
  - destruct (eject_list pidx p l) as [[o r] k1] eqn:E. apply eject_list_perm in E.
    destruct k1.
    + destruct (geject p gs) as [[o2 g2] k2] eqn:E2. injection H as <- <- <-.
      specialize (IH _ _ _ eq_refl). rewrite !gmols_cons.
      rewrite <- app_assoc.
      eapply Permutation_trans; [apply Permutation_app_head; apply Permutation_app_swap_app|].
      rewrite app_assoc. apply Permutation_app; assumption.
    + injection H as <- <- <-. rewrite !gmols_cons, app_assoc. apply Permutation_app_tail. exact E.
Qed.

Section OneSchedule.
Variable every : option Z.

Lemma step_perm st f st' out ok :
  step every yield_invalid st f = (st', out, ok) ->
  Permutation (all_frags out ++ all_frags (gmols (st_groups M st')))
              ((if wanted f then [f] else []) ++ all_frags (gmols (st_groups M st))).
Proof.
  unfold C07.step, wanted. destruct (validf f) eqn:Hv; cbn [negb orb].
  - set (gs1 := gplace f (hashf f) (st_groups M st)).
    assert (P1 : Permutation (all_frags (gmols gs1)) (f :: all_frags (gmols (st_groups M st)))) by apply gplace_perm.
    destruct (eject_due _ _ _).
    + destruct (nochrom f).
      * intros H. injection H as <- <- <-. cbn. exact P1.
      * destruct (geject (yieldable f) gs1) as [[o g2] k] eqn:E. intros H. injection H as <- <- <-. cbn [st_groups].
        apply geject_perm in E. rewrite <- all_frags_app.
        eapply Permutation_trans; [apply all_frags_perm; exact E|]. exact P1.
    + intros H. injection H as <- <- <-. cbn. exact P1.
  - intros H. injection H as <- <- <-. destruct yield_invalid; cbn.
    + unfold all_frags at 1. cbn. rewrite frags_new. cbn. apply Permutation_refl.
    + apply Permutation_refl.
Qed.

Lemma run_from_perm : forall fs st outs st',
  run_from every yield_invalid st fs = (outs, st', true) ->
  Permutation (all_frags (concat outs) ++ all_frags (gmols (st_groups M st')))
              (all_frags (gmols (st_groups M st)) ++ filter wanted fs).
Proof.
  induction fs as [|f fs IH]; intros st outs st' H; cbn [C07.run_from] in H.
  - injection H as <- <-. cbn. rewrite app_nil_r. apply Permutation_refl.
  - destruct (step every yield_invalid st f) as [[st1 out] ok] eqn:E. destruct ok.
    + destruct (run_from every yield_invalid st1 fs) as [[outs2 st2] ok2] eqn:E2.
      injection H as <- <- ->. specialize (IH _ _ _ E2). apply step_perm in E.
      cbn [concat filter]. rewrite all_frags_app, <- app_assoc.
      eapply Permutation_trans; [apply Permutation_app_head; exact IH|].
      rewrite app_assoc.
      eapply Permutation_trans; [apply Permutation_app_tail; exact E|].
      destruct (wanted f); cbn.
      * apply Permutation_middle.
      * apply Permutation_refl.
    + injection H as _ _ H. discriminate.
Qed.

(* every wanted fragment is a member of exactly one yielded molecule (as multisets), for ANY index
   expression, schedule, match rule and buffer key *)
Theorem emit_once_generic fs outs fl :
  run_machine every yield_invalid fs = (outs, fl, true) ->
  Permutation (all_frags (emitted M (outs, fl, true))) (filter wanted fs).
Proof.
  unfold C07.run_machine. destruct (run_from every yield_invalid (init M) fs) as [[o st] ok] eqn:E.
  intros H. injection H as <- <- ->. apply run_from_perm in E. cbn in E.
  unfold emitted, flush. rewrite all_frags_app. exact E.
Qed.
End OneSchedule.

(* ---- with the index j - i ------------------------------------------------------------------ *)
Hypothesis pidx_good : forall i j, pidx i j = j - i.

Definition gfilter (p : M -> bool) (gs : list (Z * list M)) : list (Z * list M) :=
  map (fun g => (fst g, filter (fun m => negb (p m)) (snd g))) gs.
Definition gpicked (p : M -> bool) (gs : list (Z * list M)) : list M :=
  concat (map (fun g => filter p (snd g)) gs).

Lemma geject_good p : forall gs, geject p gs = (gpicked p gs, gfilter p gs, true).
Proof.
  induction gs as [|[k l] gs IH]; cbn [C07.geject].
  - reflexivity.
  - rewrite (eject_list_good pidx pidx_good). rewrite IH. reflexivity.
Qed.

Lemma step_ok every st f : snd (step every yield_invalid st f) = true.
Proof.
  unfold C07.step. destruct (validf f); cbn [negb]; [|reflexivity].
  destruct (eject_due _ _ _); [|reflexivity].
  destruct (nochrom f); [reflexivity|]. rewrite geject_good. reflexivity.
Qed.

Lemma run_from_ok every : forall fs st, snd (run_from every yield_invalid st fs) = true.
Proof.
  induction fs as [|f fs IH]; intros st; cbn [C07.run_from]; [reflexivity|].
  pose proof (step_ok every st f) as Hs.
  destruct (step every yield_invalid st f) as [[st1 out] ok]. cbn in Hs. subst ok.
  specialize (IH st1). destruct (run_from every yield_invalid st1 fs) as [[o s] k]. exact IH.
Qed.

(* list.pop never raises IndexError *)
Theorem run_ok_generic every fs : snd (run_machine every yield_invalid fs) = true.
Proof.
  unfold C07.run_machine. pose proof (run_from_ok every fs (init M)) as H.
  destruct (run_from every yield_invalid (init M) fs) as [[o s] k]. cbn in *. exact H.
Qed.

(* ---- simulation: the ejecting run against the never-ejecting run ---------------------------- *)
(* lN is an interleaving of the live list lE and the dropped (ejected) molecules D *)
Inductive interleave : list M -> list M -> list M -> Prop :=
| il_nil : interleave [] [] []
| il_keep m lE D lN : interleave lE D lN -> interleave (m :: lE) D (m :: lN)
| il_drop m lE D lN : interleave lE D lN -> interleave lE (m :: D) (m :: lN).

Inductive ginter : list (Z * list M) -> list M -> list (Z * list M) -> Prop :=
| gi_nil : ginter [] [] []
| gi_cons k lE D lN gE Ds gN :
    interleave lE D lN -> ginter gE Ds gN -> ginter ((k, lE) :: gE) (D ++ Ds) ((k, lN) :: gN).

Lemma interleave_refl l : interleave l [] l.
Proof. induction l; constructor; auto. Qed.

Lemma interleave_snoc x : forall lE D lN, interleave lE D lN -> interleave (lE ++ [x]) D (lN ++ [x]).
Proof.
  induction 1; cbn.
  - apply il_keep, il_nil.
  - apply il_keep. assumption.
  - apply il_drop. assumption.
Qed.

Lemma interleave_perm : forall lE D lN, interleave lE D lN -> Permutation (lE ++ D) lN.
Proof.
  induction 1; cbn.
  - apply Permutation_refl.
  - apply perm_skip. assumption.
  - eapply Permutation_trans; [apply Permutation_sym, Permutation_middle|]. apply perm_skip. assumption.
Qed.

Lemma ginter_perm : forall gE D gN, ginter gE D gN -> Permutation (gmols gE ++ D) (gmols gN).
Proof.
  induction 1 as [|k lE D lN gE Ds gN Hi _ IH].
  - apply Permutation_refl.
  - rewrite !gmols_cons. apply interleave_perm in Hi.
    rewrite <- app_assoc.
    eapply Permutation_trans; [apply Permutation_app_head; apply Permutation_app_swap_app|].
    rewrite app_assoc. apply Permutation_app; assumption.
Qed.

Lemma assign_interleave f : forall lE D lN, interleave lE D lN ->
  Forall (fun m => matchm m f = false) D ->
  (assign f lE = None /\ assign f lN = None) \/
  (exists rE rN, assign f lE = Some rE /\ assign f lN = Some rN /\ interleave rE D rN).
Proof.
  induction 1 as [|m lE D lN Hi IH|m lE D lN Hi IH]; intros HD.
  - left. split; reflexivity.
  - cbn [C07.assign]. destruct (matchm m f) eqn:Hm.
    + right. do 2 eexists. repeat split. apply il_keep. exact Hi.
    + destruct (IH HD) as [[E1 E2]|(rE & rN & E1 & E2 & Hr)].
      * left. rewrite E1, E2. split; reflexivity.
      * right. rewrite E1, E2. do 2 eexists. repeat split. apply il_keep. exact Hr.
  - inversion HD as [|? ? Hm HD']; subst. cbn [C07.assign]. rewrite Hm.
    destruct (IH HD') as [[E1 E2]|(rE & rN & E1 & E2 & Hr)].
    + left. rewrite E2. split; [exact E1|reflexivity].
    + right. rewrite E2. do 2 eexists. repeat split; [exact E1|]. apply il_drop. exact Hr.
Qed.

Lemma place_interleave f lE D lN : interleave lE D lN ->
  Forall (fun m => matchm m f = false) D -> interleave (place f lE) D (place f lN).
Proof.
  intros Hi HD. unfold C07.place.
  destruct (assign_interleave f _ _ _ Hi HD) as [[E1 E2]|(rE & rN & E1 & E2 & Hr)]; rewrite E1, E2.
  - apply interleave_snoc. exact Hi.
  - exact Hr.
Qed.

Lemma gplace_ginter f k : forall gE D gN, ginter gE D gN ->
  Forall (fun m => matchm m f = false) D -> ginter (gplace f k gE) D (gplace f k gN).
Proof.
  induction 1 as [|k' lE D lN gE Ds gN Hi Hg IH]; intros HD; cbn [C07.gplace].
  - change (@nil M) with (@nil M ++ []) at 2. apply gi_cons; [|apply gi_nil]. apply interleave_refl.
  - apply Forall_app in HD. destruct HD as [HD1 HD2]. destruct (k =? k').
    + apply gi_cons; [|exact Hg]. apply place_interleave; assumption.
    + apply gi_cons; [exact Hi|]. apply IH. exact HD2.
Qed.

Lemma filter_interleave p : forall lE D lN, interleave lE D lN ->
  exists D', interleave (filter (fun m => negb (p m)) lE) D' lN /\ Permutation D' (filter p lE ++ D).
Proof.
  induction 1 as [|m lE D lN Hi IH|m lE D lN Hi IH].
  - exists []. split; [apply il_nil|apply Permutation_refl].
  - destruct IH as (D' & Hi' & HP). cbn [filter]. destruct (p m); cbn [negb].
    + exists (m :: D'). split; [apply il_drop; exact Hi'|]. cbn. apply perm_skip. exact HP.
    + exists D'. split; [apply il_keep; exact Hi'|exact HP].
  - destruct IH as (D' & Hi' & HP). exists (m :: D'). split; [apply il_drop; exact Hi'|].
    eapply Permutation_trans; [apply perm_skip; exact HP|]. apply Permutation_middle.
Qed.

Lemma gfilter_ginter p : forall gE D gN, ginter gE D gN ->
  exists D', ginter (gfilter p gE) D' gN /\ Permutation D' (gpicked p gE ++ D).
Proof.
  induction 1 as [|k lE D lN gE Ds gN Hi Hg IH].
  - exists []. split; [apply gi_nil|apply Permutation_refl].
  - destruct IH as (Ds' & Hg' & HP2). destruct (filter_interleave p _ _ _ Hi) as (D' & Hi' & HP1).
    exists (D' ++ Ds'). split.
    + cbn [gfilter map fst snd]. apply gi_cons; assumption.
    + unfold gpicked. cbn [map concat snd]. fold (gpicked p gE).
      eapply Permutation_trans; [apply Permutation_app; eassumption|].
      rewrite <- !app_assoc. apply Permutation_app_head.
      rewrite !app_assoc. apply Permutation_app_tail. apply Permutation_app_comm.
Qed.

(* the ejecting run is "safe" when no molecule it ejects matches a later valid fragment *)
Definition dead_for (fut : list F) (m : M) : Prop :=
  Forall (fun h => validf h = true -> matchm m h = false) fut.

Fixpoint safe_from (every : option Z) (st : state) (fs : list F) : Prop :=
  match fs with
  | [] => True
  | f :: fs' =>
      let '(st1, out, _) := step every yield_invalid st f in
      (validf f = true -> Forall (dead_for fs') out) /\ safe_from every st1 fs'
  end.

Lemma eject_due_none ctr e : eject_due false ctr e = false.
Proof. reflexivity. Qed.

Lemma sim_run_from every : forall fs stE stN D outsE stE' outsN stN',
  ginter (st_groups M stE) D (st_groups M stN) ->
  Forall (dead_for fs) D ->
  safe_from every stE fs ->
  run_from every yield_invalid stE fs = (outsE, stE', true) ->
  run_from None yield_invalid stN fs = (outsN, stN', true) ->
  Permutation (D ++ concat outsE ++ gmols (st_groups M stE')) (concat outsN ++ gmols (st_groups M stN')).
Proof.
  induction fs as [|f fs IH]; intros stE stN D outsE stE' outsN stN' Hg HD Hsafe HE HN.
  - cbn in HE, HN. injection HE as <- <-. injection HN as <- <-. cbn.
    eapply Permutation_trans; [apply Permutation_app_comm|]. apply ginter_perm. exact Hg.
  - cbn [C07.run_from] in HE, HN. cbn [safe_from] in Hsafe.
    destruct (step every yield_invalid stE f) as [[stE1 outE] okE] eqn:SE.
    destruct (step None yield_invalid stN f) as [[stN1 outN] okN] eqn:SN.
    destruct Hsafe as [Hdead Hsafe].
    destruct okE; [|injection HE as _ _ HE; discriminate].
    destruct okN; [|injection HN as _ _ HN; discriminate].
    destruct (run_from every yield_invalid stE1 fs) as [[oE2 sE2] kE2] eqn:RE.
    destruct (run_from None yield_invalid stN1 fs) as [[oN2 sN2] kN2] eqn:RN.
    injection HE as <- <- ->. injection HN as <- <- ->.
    assert (HDtl : Forall (dead_for fs) D).
    { eapply Forall_impl; [|exact HD]. intros m Hm. inversion Hm; assumption. }
    unfold C07.step in SE, SN.
    destruct (validf f) eqn:Hv; cbn [negb] in SE, SN.
    + (* valid fragment: placed in both runs, then possibly an ejection in the E run *)
      assert (HDf : Forall (fun m => matchm m f = false) D).
      { eapply Forall_impl; [|exact HD]. intros m Hm. inversion Hm as [|? ? Hh _]; subst. exact (Hh Hv). }
      pose proof (gplace_ginter f (hashf f) _ _ _ Hg HDf) as Hg1.
      cbn [has_every every_val] in SN. rewrite eject_due_none in SN. injection SN as <- <-.
      cbn [concat app].
      destruct (eject_due (has_every every) (st_ctr M stE + 1) (every_val every)).
      * destruct (nochrom f).
        -- injection SE as <- <-. cbn [concat app].
           eapply (fun a b c => IH _ _ D _ _ _ _ a b c RE RN); [exact Hg1|exact HDtl|exact Hsafe].
        -- rewrite geject_good in SE. injection SE as <- <-.
           destruct (gfilter_ginter (yieldable f) _ _ _ Hg1) as (D' & Hg2 & HP).
           assert (HD' : Forall (dead_for fs) D').
           { eapply Permutation_Forall; [apply Permutation_sym; exact HP|].
             apply Forall_app. split; [exact (Hdead eq_refl)|exact HDtl]. }
           assert (IH' := fun a => IH _ _ D' _ _ _ _ a HD' Hsafe RE RN). cbn [st_groups] in IH'.
           specialize (IH' Hg2).
           eapply Permutation_trans; [|exact IH'].
           cbn [concat]. rewrite <- !app_assoc.
           eapply Permutation_trans; [apply Permutation_app_swap_app|].
           rewrite !app_assoc. do 2 apply Permutation_app_tail. apply Permutation_sym. exact HP.
      * injection SE as <- <-. cbn [concat app].
        eapply (fun a b c => IH _ _ D _ _ _ _ a b c RE RN); [exact Hg1|exact HDtl|exact Hsafe].
    + (* invalid fragment: both runs yield the same singleton (or nothing), buffers untouched *)
      injection SE as <- <-. injection SN as <- <-.
      specialize (IH _ _ D _ _ _ _ Hg HDtl Hsafe RE RN). cbn [concat].
      rewrite <- !app_assoc.
      eapply Permutation_trans; [apply Permutation_app_swap_app|]. apply Permutation_app_head. exact IH.
Qed.

(* same molecules (members in the same order, same aggregate state), as multisets *)
Theorem sim_generic every fs :
  safe_from every (init M) fs ->
  Permutation (emitted M (run_machine every yield_invalid fs)) (emitted M (run_machine None yield_invalid fs)).
Proof.
  intros Hsafe. unfold C07.run_machine.
  pose proof (run_from_ok every fs (init M)) as OE. pose proof (run_from_ok None fs (init M)) as ON.
  destruct (run_from every yield_invalid (init M) fs) as [[oE sE] kE] eqn:RE.
  destruct (run_from None yield_invalid (init M) fs) as [[oN sN] kN] eqn:RN.
  cbn in OE, ON. subst kE kN. cbn [emitted]. unfold flush.
  pose proof (sim_run_from every fs (init M) (init M) [] oE sE oN sN) as H. cbn [app] in H.
  apply H; try assumption.
  - cbn. apply gi_nil.
  - constructor.
Qed.
End MachineFacts.

(* ------------------------------------------------------------------ pooling_method 0: the flat-list loop is the
   dict loop with a single key *)
Section FlatFacts.
Variables F M : Type.
Variable newm : F -> M.
Variable addm : M -> F -> M.
Variable matchm : M -> F -> bool.
Variable validf : F -> bool.
Variable nochrom : F -> bool.
Variable yieldable : F -> M -> bool.
Variable pidx : Z -> Z -> Z.
Variable every : option Z.
Variable yield_invalid : bool.

Notation gstep := (step F M newm addm matchm (fun _ => 0) validf nochrom yieldable pidx every yield_invalid).
Notation fstep := (fstep F M newm addm matchm validf nochrom yieldable pidx every yield_invalid).
Notation grun_from := (run_from F M newm addm matchm (fun _ => 0) validf nochrom yieldable pidx every yield_invalid).
Notation frun_from := (frun_from F M newm addm matchm validf nochrom yieldable pidx every yield_invalid).
Notation place := (place F M newm addm matchm).

Definition flat_rel (sf : fstate M) (sg : state M) : Prop :=
  fs_ctr M sf = st_ctr M sg /\
  ((st_groups M sg = [] /\ fs_mols M sf = []) \/ st_groups M sg = [(0, fs_mols M sf)]).

Lemma gplace_flat f sf sg : flat_rel sf sg ->
  gplace F M newm addm matchm f 0 (st_groups M sg) = [(0, place f (fs_mols M sf))].
Proof. intros [_ [[E1 E2] | E1]]; rewrite E1; try rewrite E2; reflexivity. Qed.

Lemma fstep_equiv sf sg f : flat_rel sf sg ->
  flat_rel (fst (fst (fstep sf f))) (fst (fst (gstep sg f))) /\
  snd (fst (fstep sf f)) = snd (fst (gstep sg f)) /\ snd (fstep sf f) = snd (gstep sg f).
Proof.
  intros HR. pose proof (gplace_flat f sf sg HR) as HP. destruct HR as [Hc Hg].
  unfold C07.fstep, C07.step. destruct (validf f); cbn [negb].
  - rewrite HP, Hc. destruct (eject_due _ _ _).
    + destruct (nochrom f).
      * cbn. repeat split. right. reflexivity.
      * cbn [geject]. destruct (eject_list pidx (yieldable f) (place f (fs_mols M sf))) as [[o r] k].
        destruct k; cbn; rewrite ?app_nil_r; repeat split; right; reflexivity.
    + cbn. repeat split. right. reflexivity.
  - cbn. repeat split; assumption.
Qed.

Lemma frun_equiv : forall fs sf sg, flat_rel sf sg ->
  fst (fst (frun_from sf fs)) = fst (fst (grun_from sg fs)) /\
  snd (frun_from sf fs) = snd (grun_from sg fs) /\
  flat_rel (snd (fst (frun_from sf fs))) (snd (fst (grun_from sg fs))).
Proof.
  induction fs as [|f fs IH]; intros sf sg HR; cbn [C07.frun_from C07.run_from].
  - cbn. split; [reflexivity|split; [reflexivity|exact HR]].
  - destruct (fstep_equiv sf sg f HR) as (H1 & H2 & H3).
    destruct (fstep sf f) as [[sf1 o1] k1]. destruct (gstep sg f) as [[sg1 o2] k2]. cbn in H1, H2, H3. subst o2 k2.
    destruct k1.
    + specialize (IH sf1 sg1 H1).
      destruct (frun_from sf1 fs) as [[a b] d]. destruct (grun_from sg1 fs) as [[a' b'] d']. cbn in *.
      destruct IH as (-> & -> & IH). split; [reflexivity|split; [reflexivity|exact IH]].
    + cbn. split; [reflexivity|split; [reflexivity|exact H1]].
Qed.

Theorem frun_machine_equiv fs :
  frun_machine F M newm addm matchm validf nochrom yieldable pidx every yield_invalid fs
  = run_machine F M newm addm matchm (fun _ => 0) validf nochrom yieldable pidx every yield_invalid fs.
Proof.
  unfold C07.frun_machine, C07.run_machine.
  assert (HR : flat_rel (mkFState M [] 0) (init M)) by (split; [reflexivity|left; split; reflexivity]).
  destruct (frun_equiv fs _ _ HR) as (H1 & H2 & H3).
  destruct (frun_from (mkFState M [] 0) fs) as [[a b] d]. destruct (grun_from (init M) fs) as [[a' b'] d'].
  cbn in *. subst a' d'. destruct d; [|reflexivity].
  destruct H3 as [_ [[E1 E2]|E]]; unfold flush.
  - rewrite E1, E2. reflexivity.
  - rewrite E. cbn. rewrite app_nil_r. reflexivity.
Qed.
End FlatFacts.
