(* C01: the specification over observations as a proposition (spec_C01), and its equivalence with the decision
   procedure specb_C01 of Model/C01Spec.v that the extracted binary evaluates on the implementation's output files. *)
From Coq Require Import ZArith List Bool Lia Arith Sorted.
Import ListNotations.
From SCMO Require Import Lib.Val Model.C01 Model.C01Spec Proofs.C01 Proofs.C01_b.
Open Scope Z_scope.

(* ------------------------------------------------------------------ reflection of the boolean helpers *)
Lemma str_eqb_eq : forall a b : str, str_eqb a b = true <-> a = b.
Proof.
  unfold str_eqb. induction a as [|x a IH]; intros [|y b]; split; intros H; try reflexivity; try discriminate.
  - apply andb_prop in H. destruct H as [H1 H2]. apply Z.eqb_eq in H1. apply IH in H2. congruence.
  - inversion H; subst. apply andb_true_intro. split; [apply Z.eqb_refl|now apply IH].
Qed.

Lemma read_eqb_eq a b : read_eqb a b = true <-> a = b.
Proof.
  unfold read_eqb. destruct a as [h1 s1 p1 q1], b as [h2 s2 p2 q2]. cbn [r_header r_seq r_plus r_qual]. rewrite !andb_true_iff, !str_eqb_eq.
  split; [intros [[[-> ->] ->] ->]; reflexivity|intros H; inversion H; auto].
Qed.

Lemma pair_eqb_eq : forall a b : pair, pair_eqb a b = true <-> a = b.
Proof.
  induction a as [|x a IH]; intros [|y b]; cbn [pair_eqb]; split; intros H; try reflexivity; try discriminate.
  - apply andb_prop in H. destruct H as [H1 H2]. apply read_eqb_eq in H1. apply IH in H2. congruence.
  - inversion H; subst. apply andb_true_intro. split; [now apply read_eqb_eq|now apply IH].
Qed.

Lemma list_eqb_Z : forall a b : list Z, list_eqb Z.eqb a b = true <-> a = b.
Proof.
  induction a as [|x a IH]; intros [|y b]; cbn [list_eqb]; split; intros H; try reflexivity; try discriminate.
  - apply andb_prop in H. destruct H as [H1 H2]. apply Z.eqb_eq in H1. apply IH in H2. congruence.
  - inversion H; subst. apply andb_true_intro. split; [apply Z.eqb_refl|now apply IH].
Qed.

Lemma sortedb_Sorted : forall l, sortedb l = true <-> Sorted Z.le l.
Proof.
  induction l as [|a l IH]; [split; [constructor|reflexivity]|].
  destruct l as [|b l].
  - split; [repeat constructor|reflexivity].
  - change (sortedb (a :: b :: l)) with ((a <=? b) && sortedb (b :: l)). rewrite andb_true_iff, IH, Z.leb_le. split.
    + intros [H1 H2]. constructor; [assumption|]. now constructor.
    + intros H. inversion H as [|? ? Hs Hh]; subst. inversion Hh; subst. auto.
Qed.

Lemma existsb_false_filter {A} (f : A -> bool) l : existsb f l = false -> filter f l = [].
Proof.
  intros H. apply filter_nil_forall. intros x Hx. destruct (f x) eqn:Hf; [|reflexivity].
  assert (existsb f l = true) by (apply existsb_exists; eauto). congruence.
Qed.

Lemma nodupb_NoDup : forall l, nodupb l = true <-> NoDup l.
Proof.
  induction l as [|x l IH]; cbn [nodupb]; [split; [constructor|reflexivity]|].
  rewrite andb_true_iff, negb_true_iff, IH. split.
  - intros [H1 H2]. constructor; [|assumption]. intros Hin.
    assert (existsb (Nat.eqb x) l = true) by (apply existsb_exists; exists x; split; [assumption|apply Nat.eqb_refl]). congruence.
  - intros H. inversion H; subst. split; [|assumption].
    destruct (existsb (Nat.eqb x) l) eqn:He; [|reflexivity].
    apply existsb_exists in He. destruct He as (y & Hy & Hxy). apply Nat.eqb_eq in Hxy. subst. contradiction.
Qed.

Lemma prefixb_iff : forall a b, prefixb a b = true <-> exists t, b = a ++ t.
Proof.
  induction a as [|x a IH]; intros b; cbn [prefixb].
  - split; [intros _; now exists b|reflexivity].
  - destruct b as [|y b]; [split; [discriminate|intros [t Ht]; discriminate]|].
    rewrite andb_true_iff, Z.eqb_eq, IH. split.
    + intros [-> [t ->]]. now exists t.
    + intros [t Ht]. inversion Ht; subst. split; [reflexivity|now exists t].
Qed.

Lemma containsb_iff : forall needle hay, containsb needle hay = true <-> contains needle hay.
Proof.
  intros needle. unfold contains. induction hay as [|c hay IH]; cbn [containsb]; rewrite orb_true_iff, prefixb_iff.
  - split.
    + intros [[t Ht]|H]; [|discriminate]. exists [], t. exact Ht.
    + intros (a & b & H). left. destruct a; [now exists b|discriminate].
  - rewrite IH. split.
    + intros [[t Ht]|(a & b & Hab)]; [exists [], t; exact Ht|]. exists (c :: a), b. now rewrite Hab.
    + intros (a & b & H). destruct a as [|c' a]; [left; now exists b|].
      right. inversion H; subst. now exists a, b.
Qed.

Lemma in_zrange0 u c : In u (zrange0 c) <-> 0 <= u < c.
Proof.
  unfold zrange0. rewrite in_map_iff. split.
  - intros (k & <- & Hk). apply in_seq in Hk. lia.
  - intros H. exists (Z.to_nat u). split; [lia|]. apply in_seq. lia.
Qed.

(* ------------------------------------------------------------------ the clauses, as propositions *)
Section Spec.
  Variable sc : sconf.
  Variable ob : obs.

  Let n : nat := length (ob_pairs ob).
  Let c : Z := ob_processed ob.
  Let tgt : list orec := recs_at (ob_out ob) true 0.
  Let rej : list orec := recs_at (ob_out ob) false 0.

  (* the reader stopped at THE first index where some mate file has no header, and yielded the rows before it *)
  Definition stop_P : Prop :=
    (forall k, (k < n)%nat -> exhausted k (ob_in ob) = false) /\ exhausted n (ob_in ob) = true.
  Definition reader_P : Prop := forall k, (k < n)%nat -> nth k (ob_pairs ob) [] = row k (ob_in ob).

  (* processedReadPairs = c: between 0 and the number of pairs; fewer than all only at a maxReadPairs cut-off that is
     reached; never more than max(1, maxReadPairs) *)
  Definition processed_P : Prop :=
    0 <= c <= Z.of_nat n /\ (c < Z.of_nat n -> exists m, s_max sc = Some m /\ m <= c) /\
    (forall m, s_max sc = Some m -> c <= Z.max 1 m).

  Definition order_P : Prop :=
    forall t cell, Sorted Z.le (map o_pair (recs_of (ob_out ob) t cell 0)).

  Definition sync_P : Prop :=
    s_width sc = 2%nat -> forall t cell,
      map o_pair (recs_of (ob_out ob) t cell 0) = map o_pair (recs_of (ob_out ob) t cell 1).

  Definition beyond_P : Prop := forall r, In r (tgt ++ rej) -> 0 <= o_pair r < c.

  (* never both, never neither: per consumed pair, demultiplexed + rejected = number of strategies *)
  Definition partition_P : Prop :=
    forall u, 0 <= u < c ->
      if s_rejects sc then (count_pair u tgt + count_pair u rej = s_ns sc)%nat
      else count_pair u rej = 0%nat /\ (count_pair u tgt <= s_ns sc)%nat.

  Definition twice_P : Prop := forall u, NoDup (somes (map o_strat (filter (from_pair u) tgt))).

  Definition reject_content_P : Prop :=
    forall f r, In f (ob_out ob) -> f_target f = false -> In r (f_recs f) -> 0 <= o_pair r < Z.of_nat n ->
      exists orig h pl, original ob f r = Some orig /\ lines (o_text r) = [h; r_seq orig; pl; r_qual orig; []].

  Definition reject_reason_P : Prop :=
    forall f r, In f (ob_out ob) -> f_target f = false -> In r (f_recs f) -> 0 <= o_pair r < Z.of_nat n ->
      contains tagR (hd [] (lines (o_text r))).

  Definition yields_P : Prop :=
    sumZ (ob_yields ob) = Z.of_nat (length tgt) /\
    forall j, (j < s_ns sc)%nat -> (0 < count_strat j tgt)%nat -> nth j (ob_yields ob) 0 = Z.of_nat (count_strat j tgt).

  Definition log_P : Prop := forall lp lys, ob_log ob = Some (lp, lys) -> lp = c /\ lys = ob_yields ob.

  Definition spec_C01 : Prop :=
    stop_P /\ reader_P /\ processed_P /\ order_P /\ sync_P /\ beyond_P /\ partition_P /\ twice_P /\
    reject_content_P /\ reject_reason_P /\ yields_P /\ log_P.

  (* ---------------- clause by clause: the boolean decides the proposition *)
  Lemma stopb_iff : stopb ob = true <-> stop_P.
  Proof.
    unfold stopb, stop_P. rewrite andb_true_iff, forallb_forall. fold n. split; intros [H1 H2]; split; auto.
    - intros k Hk. apply negb_true_iff. apply H1. apply in_seq. lia.
    - intros k Hk. apply negb_true_iff. apply H1. apply in_seq in Hk. lia.
  Qed.

  Lemma readerb_iff : readerb ob = true <-> reader_P.
  Proof.
    unfold readerb, reader_P. rewrite forallb_forall. fold n. split; intros H k Hk.
    - apply pair_eqb_eq. apply H. apply in_seq. lia.
    - apply pair_eqb_eq. apply H. apply in_seq in Hk. lia.
  Qed.

  Lemma processedb_iff : processedb sc ob = true <-> processed_P.
  Proof.
    unfold processedb, processed_P. fold n c.
    destruct (0 <=? c) eqn:E1; [apply Z.leb_le in E1|apply Z.leb_gt in E1; split; [discriminate|lia]].
    destruct (c <=? Z.of_nat n) eqn:E2; [apply Z.leb_le in E2|apply Z.leb_gt in E2; split; [discriminate|lia]].
    cbn [andb].
    destruct (c <? Z.of_nat n) eqn:E3; [apply Z.ltb_lt in E3|apply Z.ltb_ge in E3]; cbn [negb orb];
      destruct (s_max sc) as [m|].
    - destruct (m <=? c) eqn:E4; [apply Z.leb_le in E4|apply Z.leb_gt in E4]; cbn [andb].
      + destruct (c <=? Z.max 1 m) eqn:E5; [apply Z.leb_le in E5|apply Z.leb_gt in E5].
        * split; [intros _|reflexivity]. split; [lia|]. split; [intros _; now exists m|].
          intros m' Hm. inversion Hm; subst. assumption.
        * split; [discriminate|]. intros (_ & _ & H). specialize (H m eq_refl). lia.
      + split; [discriminate|]. intros (_ & H & _). destruct (H E3) as (m' & Hm & Hle). inversion Hm; subst. lia.
    - cbn [andb]. split; [discriminate|]. intros (_ & H & _). destruct (H E3) as (m' & Hm & _). discriminate.
    - cbn [andb]. destruct (c <=? Z.max 1 m) eqn:E5; [apply Z.leb_le in E5|apply Z.leb_gt in E5].
      + split; [intros _|reflexivity]. split; [lia|]. split; [intros Hlt; lia|].
        intros m' Hm. inversion Hm; subst. assumption.
      + split; [discriminate|]. intros (_ & _ & H). specialize (H m eq_refl). lia.
    - cbn [andb]. split; [intros _|reflexivity]. split; [lia|]. split; [intros Hlt; lia|]. intros m Hm. discriminate.
  Qed.

  Lemma recs_of_absent o t cell m :
    existsb (fun f => Bool.eqb (f_target f) t && str_eqb (f_cell f) cell) o = false -> recs_of o t cell m = [].
  Proof.
    intros H. unfold recs_of. rewrite filter_nil_forall; [reflexivity|].
    intros f Hf. unfold at_file.
    destruct (Bool.eqb (f_target f) t && str_eqb (f_cell f) cell) eqn:E; [|reflexivity].
    assert (existsb (fun f => Bool.eqb (f_target f) t && str_eqb (f_cell f) cell) o = true)
      by (apply existsb_exists; eauto). congruence.
  Qed.

  Lemma orderb_iff : orderb ob = true <-> order_P.
  Proof.
    unfold orderb, order_P. rewrite forallb_forall. split.
    - intros H t cell.
      destruct (existsb (fun f => Bool.eqb (f_target f) t && str_eqb (f_cell f) cell) (ob_out ob)) eqn:E.
      + apply existsb_exists in E. destruct E as (f & Hf & Hk). apply andb_prop in Hk. destruct Hk as [Hk1 Hk2].
        apply eqb_prop in Hk1. apply str_eqb_eq in Hk2. subst. apply sortedb_Sorted. now apply H.
      + rewrite recs_of_absent by assumption. constructor.
    - intros H f _. apply sortedb_Sorted. apply H.
  Qed.

  Lemma syncb_iff : syncb sc ob = true <-> sync_P.
  Proof.
    unfold syncb, sync_P. rewrite orb_true_iff, negb_true_iff, forallb_forall. split.
    - intros [H|H] Hw; [rewrite Hw in H; discriminate|]. intros t cell.
      destruct (existsb (fun f => Bool.eqb (f_target f) t && str_eqb (f_cell f) cell) (ob_out ob)) eqn:E.
      + apply existsb_exists in E. destruct E as (f & Hf & Hk). apply andb_prop in Hk. destruct Hk as [Hk1 Hk2].
        apply eqb_prop in Hk1. apply str_eqb_eq in Hk2. subst. apply list_eqb_Z. now apply H.
      + now rewrite !recs_of_absent.
    - intros H. destruct (Nat.eqb (s_width sc) 2) eqn:Hw; [|now left]. right.
      apply Nat.eqb_eq in Hw. intros f _. apply list_eqb_Z. now apply H.
  Qed.

  Lemma beyondb_iff : beyondb ob = true <-> beyond_P.
  Proof.
    unfold beyondb, beyond_P. rewrite forallb_forall. fold tgt rej c. split; intros H r Hr.
    - specialize (H r Hr). apply andb_prop in H. lia.
    - specialize (H r Hr). apply andb_true_intro. split; [apply Z.leb_le|apply Z.ltb_lt]; lia.
  Qed.

  Lemma partitionb_iff : partitionb sc ob = true <-> partition_P.
  Proof.
    unfold partitionb, partition_P. rewrite forallb_forall. fold tgt rej c. split; intros H u Hu.
    - specialize (H u (proj2 (in_zrange0 u c) Hu)). cbv zeta in H.
      destruct (s_rejects sc); [now apply Nat.eqb_eq|].
      apply andb_prop in H. destruct H as [H1 H2]. split; [now apply Nat.eqb_eq|now apply Nat.leb_le].
    - apply in_zrange0 in Hu. specialize (H u Hu). cbv zeta.
      destruct (s_rejects sc); [now apply Nat.eqb_eq|].
      destruct H as [H1 H2]. apply andb_true_intro. split; [now apply Nat.eqb_eq|now apply Nat.leb_le].
  Qed.

  Lemma twiceb_iff : twiceb ob = true <-> twice_P.
  Proof.
    unfold twiceb, twice_P. rewrite forallb_forall. fold tgt. split.
    - intros H u. destruct (existsb (from_pair u) tgt) eqn:E.
      + apply existsb_exists in E. destruct E as (r & Hr & Hu). unfold from_pair in Hu. apply Z.eqb_eq in Hu.
        subst u. apply nodupb_NoDup. now apply H.
      + rewrite (existsb_false_filter _ _ E). constructor.
    - intros H r _. apply nodupb_NoDup. apply H.
  Qed.

  Lemma in_input_iff r : in_input ob r = true <-> 0 <= o_pair r < Z.of_nat n.
  Proof. unfold in_input. fold n. rewrite andb_true_iff, Z.leb_le, Z.ltb_lt. tauto. Qed.

  Lemma reject_contentb_iff : reject_contentb ob = true <-> reject_content_P.
  Proof.
    unfold reject_contentb, reject_content_P. rewrite forallb_forall. split.
    - intros H f r Hf Ht Hr Hin. specialize (H f Hf). rewrite Ht in H. cbn [orb] in H.
      rewrite forallb_forall in H. specialize (H r Hr).
      apply in_input_iff in Hin. rewrite Hin in H. cbn [negb orb] in H.
      destruct (original ob f r) as [orig|]; [|discriminate].
      destruct (lines (o_text r)) as [|h [|s [|pl [|q [|e [|? ?]]]]]]; try discriminate; destruct e; try discriminate.
      apply andb_prop in H. destruct H as [H1 H2]. apply str_eqb_eq in H1. apply str_eqb_eq in H2. subst.
      now exists orig, h, pl.
    - intros H f Hf. destruct (f_target f) eqn:Ht; [reflexivity|]. cbn [orb].
      apply forallb_forall. intros r Hr. destruct (in_input ob r) eqn:Hin; [|reflexivity]. cbn [negb orb].
      apply in_input_iff in Hin. destruct (H f r Hf Ht Hr Hin) as (orig & h & pl & -> & ->).
      apply andb_true_intro. split; now apply str_eqb_eq.
  Qed.

  Lemma reject_reasonb_iff : reject_reasonb ob = true <-> reject_reason_P.
  Proof.
    unfold reject_reasonb, reject_reason_P. rewrite forallb_forall. split.
    - intros H f r Hf Ht Hr Hin. specialize (H f Hf). rewrite Ht in H. cbn [orb] in H.
      rewrite forallb_forall in H. specialize (H r Hr).
      apply in_input_iff in Hin. rewrite Hin in H. cbn [negb orb] in H. now apply containsb_iff.
    - intros H f Hf. destruct (f_target f) eqn:Ht; [reflexivity|]. cbn [orb].
      apply forallb_forall. intros r Hr. destruct (in_input ob r) eqn:Hin; [|reflexivity]. cbn [negb orb].
      apply containsb_iff. apply in_input_iff in Hin. now apply (H f r).
  Qed.

  Lemma yieldsb_iff : yieldsb sc ob = true <-> yields_P.
  Proof.
    unfold yieldsb, yields_P. fold tgt. rewrite andb_true_iff, Z.eqb_eq, forallb_forall. split; intros [H1 H2]; split; auto.
    - intros j Hj Hc. specialize (H2 j (proj2 (in_seq _ _ _) (conj (Nat.le_0_l j) Hj))).
      apply orb_true_iff in H2. destruct H2 as [H2|H2]; [apply Nat.eqb_eq in H2; lia|now apply Z.eqb_eq].
    - intros j Hj. apply in_seq in Hj. apply orb_true_iff.
      destruct (Nat.eqb (count_strat j tgt) 0) eqn:E; [now left|right].
      apply Nat.eqb_neq in E. apply Z.eqb_eq. apply H2; lia.
  Qed.

  Lemma logb_iff : logb ob = true <-> log_P.
  Proof.
    unfold logb, log_P. fold c. destruct (ob_log ob) as [[lp lys]|]; split.
    - intros H lp' lys' E. inversion E; subst. apply andb_prop in H. destruct H as [H1 H2].
      split; [now apply Z.eqb_eq|now apply list_eqb_Z].
    - intros H. destruct (H lp lys eq_refl) as [-> ->]. apply andb_true_intro. split; [apply Z.eqb_refl|now apply list_eqb_Z].
    - intros _ lp lys E. discriminate.
    - reflexivity.
  Qed.

  (* the decision procedure decides the specification *)
  Lemma specb_iff : specb_C01 sc ob = true <-> spec_C01.
  Proof.
    unfold specb_C01, spec_clauses, spec_C01. cbn [forallb]. rewrite !andb_true_iff.
    rewrite stopb_iff, readerb_iff, processedb_iff, orderb_iff, syncb_iff, beyondb_iff, partitionb_iff, twiceb_iff,
      reject_contentb_iff, reject_reasonb_iff, yieldsb_iff, logb_iff. tauto.
  Qed.
End Spec.
