(* C05 proofs, part x: the pipelines under a contig selection (-contig / -skip_contig):
   single process, one contig per process (as coded and repaired), binned *)
From Coq Require Import ZArith List Bool Lia ZifyBool Permutation.
Import ListNotations.
From SCMO Require Import Lib.Val Model.C05 Model.C05x Proofs.C05_a Proofs.C05_b Proofs.C05 Proofs.C05x_a.
Open Scope Z_scope.

Lemma sel_rec_kept sc skip r : sel_rec sc skip r = true -> rec_kept skip r = true.
Proof. unfold sel_rec. intros H. apply andb_true_iff in H. tauto. Qed.

Lemma want_rec_none skip r : want_rec None skip r = rec_kept skip r.
Proof.
  unfold want_rec, sel_rec, rec_kept. destruct (r_contig r); cbn [is_star orb]; [apply andb_true_r|reflexivity].
Qed.

Lemma kept_unplaced skip recs : filter (rec_kept skip) (fetch None recs) = fetch None recs.
Proof.
  apply filter_all. intros r Hr. apply filter_In in Hr. destruct Hr as (_ & Hr).
  apply cname_eqb_eq in Hr. apply rec_kept_unplaced. exact Hr.
Qed.

Lemma fetch_all_incl names recs : incl (fetch_all names recs) recs.
Proof.
  intros r Hr. unfold fetch_all in Hr. apply in_flat_map in Hr. destruct Hr as (c & _ & Hr).
  apply filter_In in Hr. tauto.
Qed.

Lemma concat_map_singleton {A} (l : list A) : concat (map (fun a => [a]) l) = l.
Proof. induction l as [|a l IH]; cbn [map concat app]; [reflexivity|]. rewrite IH. reflexivity. Qed.

(* dedupC: first occurrences *)
Lemma In_dedupC x : forall l, In x (dedupC l) <-> In x l.
Proof.
  induction l as [|a l IH]; cbn [dedupC]; [tauto|].
  split.
  - intros [H|H]; [left; exact H|]. apply filter_In in H. right. apply IH. tauto.
  - intros [H|H]; [left; exact H|].
    destruct (cname_eqb a x) eqn:E; [apply cname_eqb_eq in E; left; exact E|]. right.
    apply filter_In. split; [apply IH, H|]. rewrite E. reflexivity.
Qed.

Lemma NoDup_dedupC : forall l, NoDup (dedupC l).
Proof.
  induction l as [|a l IH]; cbn [dedupC]; [constructor|].
  constructor; [|apply NoDup_filter, IH].
  intros H. apply filter_In in H. destruct H as (_ & H). rewrite cname_eqb_refl in H. discriminate H.
Qed.

(* ---------------------------------------------------------------- which contigs a selection reaches *)
(* a kept record of the file that lies on a reference: the whitelist of tag_multiome_multi_processing lists
   its contig exactly when the selection asks for the record *)
Lemma whitelist_sel sc skip hdr recs r c :
  In r recs -> placed_in (map fst hdr) r = true -> r_contig r = Some c -> rec_kept skip r = true ->
  (cmem (Some c) (whitelist sc skip (contigs_with_reads hdr recs)) = true <-> sel_rec sc skip r = true).
Proof.
  intros Hr Hp Ec Hk. rewrite whitelist_spec. unfold sel_rec. rewrite Hk, Ec. cbn [andb].
  destruct sc as [x|].
  - rewrite cname_eqb_eq. tauto.
  - split; [reflexivity|]. intros _. split.
    + assert (H : In (Some c) (filter nonstar (map fst (contigs_with_reads hdr recs)))).
      { rewrite cwr_names. apply in_map. unfold placed_in in Hp. rewrite Ec in Hp.
        apply existsb_exists in Hp. destruct Hp as (x & Hx & He). apply Z.eqb_eq in He. subst x.
        apply in_map_iff in Hx. destruct Hx as ([c' len] & Hc' & Hin). cbn [fst] in Hc'. subst c'.
        apply in_map_iff. exists (c, len). split; [reflexivity|]. apply filter_In. split; [exact Hin|].
        unfold has_reads. apply existsb_exists. exists r. split; [exact Hr|]. cbn [fst]. rewrite Ec. apply cname_eqb_refl. }
      apply filter_In in H. tauto.
    + unfold rec_kept in Hk. rewrite Ec in Hk. apply negb_true_iff in Hk. exact Hk.
Qed.

(* the streams of a list of contigs that holds the unplaced bin and, among the references, exactly the
   selected ones: after the skip test, the wanted records *)
Lemma sel_cover sc skip recs (L : list cname) :
  NoDup L -> In None L ->
  (forall r c, In r recs -> r_contig r = Some c -> rec_kept skip r = true ->
               (In (Some c) L <-> sel_rec sc skip r = true)) ->
  Permutation (filter (rec_kept skip) (flat_map (fun c => fetch c recs) L)) (filter (want_rec sc skip) recs).
Proof.
  intros Hnd Hnone H.
  eapply Permutation_trans; [apply Permutation_filter, fetch_union, Hnd|].
  rewrite filter_filter_and. rewrite (filter_ext_in' _ (want_rec sc skip)); [apply Permutation_refl|].
  intros r Hr. unfold want_rec. destruct (r_contig r) as [c|] eqn:Ec; cbn [is_star orb].
  - apply eq_true_iff_eq. rewrite andb_true_iff. unfold on_any. rewrite Ec. fold (cmem (Some c) L). rewrite cmem_In.
    split.
    + intros (HL & Hk). apply (H r c Hr Ec Hk). exact HL.
    + intros Hs. assert (Hk := sel_rec_kept _ _ _ Hs). split; [apply (H r c Hr Ec Hk); exact Hs|exact Hk].
  - unfold on_any. rewrite Ec. fold (cmem None L). apply andb_true_iff. split.
    + apply cmem_In. exact Hnone.
    + apply rec_kept_unplaced. exact Ec.
Qed.

Section PipelinesSel.
  Variable sort : list orec -> list orec.
  Variable merge : list bam -> bam.
  Variable valid : frag -> bool.
  Variable it : bool -> bool -> list frag -> list (list frag) * list frag.
  Variable qflag : bool.
  Variable skip : list cname.

  Hypothesis sort_perm : forall l, Permutation (sort l) l.
  Hypothesis it_ok : iter_contract valid it.

  (* ---- one MoleculeIterator with skip_contigs, default options *)
  Lemma mol_iter_sel_conserve stream ms :
    pre_stream qflag stream -> coloc stream ->
    mol_iter_sel it qflag true true skip stream = Ok ms ->
    Permutation (map key (map fst (write ms))) (nkeys (expected qflag (filter (rec_kept skip) stream))).
  Proof.
    unfold mol_iter_sel. intros Hpre Hc H. apply bind_Ok in H. destruct H as (fs & Hfs & Hms). inversion Hms; subst ms.
    rewrite write_fst.
    eapply Permutation_trans; [|apply (fragments_sel_conserve qflag skip stream fs); assumption].
    apply Permutation_map. apply perm_flat_map. apply (contract_default valid). exact it_ok.
  Qed.

  (* ---- single process *)
  Section SingleSel.
    Variables (sc : option cname) (hdr : list (Z * Z)) (recs : list rec).
    Hypothesis hdr_nodup : NoDup (map fst hdr).
    Hypothesis recs_placed : forall r, In r recs -> placed_in (map fst hdr) r = true.

    Lemma main_stream_props s :
      main_stream sc (map fst hdr) recs = Ok s -> pre_stream qflag recs -> coloc recs ->
      pre_stream qflag s /\ coloc s.
    Proof.
      unfold main_stream. intros H Hpre Hc. destruct sc as [[c|]|].
      - destruct (existsb (Z.eqb c) (map fst hdr)); [|discriminate]. inversion H; subst s.
        split; [apply pre_fetch; exact Hpre|apply coloc_fetch].
      - inversion H; subst s. split; [apply pre_fetch; exact Hpre|apply coloc_fetch].
      - inversion H; subst s. split; [apply pre_fetch_all; assumption|].
        eapply coloc_incl; [apply fetch_all_incl|exact Hc].
    Qed.

    (* the unplaced stream and the stream of the selected contig(s), after the skip test: the wanted records *)
    Lemma single_stream_want s :
      sc_ok sc (map fst hdr) = true -> main_stream sc (map fst hdr) recs = Ok s ->
      Permutation (fetch None recs ++ filter (rec_kept skip) s) (filter (want_rec sc skip) recs).
    Proof.
      unfold main_stream, sc_ok. intros Hok H. destruct sc as [[c|]|]; [|discriminate|].
      - rewrite Hok in H. inversion H; subst s. unfold fetch. rewrite filter_filter_and.
        eapply Permutation_trans; [apply filter_or_perm|].
        + intros r _ Hr. apply cname_eqb_eq in Hr. rewrite Hr. reflexivity.
        + rewrite (filter_ext_in' _ (want_rec (Some (Some c)) skip)); [apply Permutation_refl|].
          intros r _. unfold want_rec, sel_rec. destruct (r_contig r) as [x|]; cbn [cname_eqb is_star orb]; [apply andb_comm|reflexivity].
      - inversion H; subst s. rewrite <- (kept_unplaced skip recs), <- filter_app.
        eapply Permutation_trans; [apply Permutation_filter, fetch_single; assumption|].
        rewrite (filter_ext_in' _ (want_rec None skip)); [apply Permutation_refl|].
        intros r _. symmetry. apply want_rec_none.
    Qed.

    Lemma single_sel_conserve b :
      pre_stream qflag recs -> coloc recs -> sc_ok sc (map fst hdr) = true ->
      single_sel sort it qflag true true sc skip hdr recs = Ok b ->
      Permutation (map key (map fst (snd b))) (nkeys (expected qflag (filter (want_rec sc skip) recs))).
    Proof.
      unfold single_sel. intros Hpre Hc Hok H.
      apply bind_Ok in H. destruct H as (m1 & Hm1 & H).
      apply bind_Ok in H. destruct H as (s & Hs & H).
      apply bind_Ok in H. destruct H as (m2 & Hm2 & H). inversion H; subst b. clear H.
      destruct (main_stream_props s Hs Hpre Hc) as (Hpre_s & Hc_s).
      unfold sorted_bam. cbn [snd].
      eapply Permutation_trans; [apply Permutation_map, Permutation_map, sort_perm|].
      rewrite write_app, !map_app.
      eapply Permutation_trans.
      { apply Permutation_app.
        - apply (mol_iter_sel_conserve _ _ (pre_fetch qflag recs None Hpre) (coloc_fetch None recs) Hm1).
        - apply (mol_iter_sel_conserve _ _ Hpre_s Hc_s Hm2). }
      rewrite kept_unplaced, <- nkeys_app, <- expected_app.
      apply nkeys_perm, expected_perm, single_stream_want; assumption.
    Qed.
  End SingleSel.

  (* ---- jobs of whole-contig tasks *)
  Hypothesis merge_perm : forall bs, Permutation (snd (merge bs)) (flat_map snd bs).

  Section MultiSel.
    Variables (hdr : list (Z * Z)) (recs : list rec) (in_rgs : list Z).
    Hypothesis hdr_nodup : NoDup (map fst hdr).
    Hypothesis recs_placed : forall r, In r recs -> placed_in (map fst hdr) r = true.

    Lemma job_sel_written yi yo cs o :
      job_sel sort it qflag yi yo skip recs cs = Ok o ->
      exists mss, mapM (fun c => mol_iter_sel it qflag yi yo skip (fetch c recs)) cs = Ok mss /\
                  Permutation (job_recs o) (flat_map write mss).
    Proof.
      unfold job_sel. intros H. apply bind_Ok in H. destruct H as (mss & Hmss & H). inversion H; subst o. clear H.
      exists mss. split; [exact Hmss|].
      rewrite <- write_concat. destruct (concat mss) as [|m ms] eqn:E.
      - cbn [job_recs]. apply Permutation_refl.
      - cbn [job_recs]. unfold sorted_bam. cbn [snd]. apply sort_perm.
    Qed.

    Lemma job_sel_conserve cs o :
      pre_stream qflag recs ->
      job_sel sort it qflag true true skip recs cs = Ok o ->
      Permutation (map key (map fst (job_recs o)))
                  (flat_map (fun c => nkeys (expected qflag (filter (rec_kept skip) (fetch c recs)))) cs).
    Proof.
      intros Hpre H. destruct (job_sel_written _ _ _ _ H) as (mss & Hmss & HP).
      eapply Permutation_trans; [apply Permutation_map, Permutation_map, HP|].
      apply mapM_Ok in Hmss. clear H HP.
      induction Hmss as [|c ms cs mss Hc _ IH]; [constructor|].
      cbn [flat_map]. rewrite !map_app. apply Permutation_app; [|exact IH].
      apply mol_iter_sel_conserve; [apply pre_stream_filter; exact Hpre|apply coloc_fetch|exact Hc].
    Qed.

    (* any job list, any completion order: what is written is what the skip test leaves of the streams of
       the scheduled contigs *)
    Lemma jobs_sel_conserve jobs outs done :
      pre_stream qflag recs ->
      jobs_outputs_sel sort it qflag true true skip recs jobs = Ok outs ->
      Permutation done outs ->
      Permutation (map key (map fst (snd (multi_merge merge in_rgs done))))
                  (nkeys (expected qflag (filter (rec_kept skip) (flat_map (fun c => fetch c recs) (concat jobs))))).
    Proof.
      intros Hpre H Hdone. unfold jobs_outputs_sel in H. apply mapM_Ok in H. unfold multi_merge.
      eapply Permutation_trans; [apply Permutation_map, Permutation_map, merge_perm|].
      cbn [flat_map snd app]. rewrite somes_recs.
      eapply Permutation_trans; [apply Permutation_map, Permutation_map, perm_flat_map, Hdone|].
      rewrite filter_flat_map, expected_flat_map, nkeys_flat_map. clear Hdone.
      induction H as [|j o jobs outs Hj _ IH]; [constructor|].
      cbn [flat_map concat]. rewrite !map_app, flat_map_app.
      apply Permutation_app; [apply job_sel_conserve; assumption|exact IH].
    Qed.

    (* one contig per process AS CODED: the contig selection is not consulted; only the skip test acts *)
    Lemma multi_sel_as_coded sc outs done :
      pre_stream qflag recs ->
      job_outputs_sel sort it qflag true true sc skip false hdr recs = Ok outs ->
      Permutation done outs ->
      Permutation (map key (map fst (snd (multi_merge merge in_rgs done))))
                  (nkeys (expected qflag (filter (rec_kept skip) recs))).
    Proof.
      intros Hpre H Hdone. unfold job_outputs_sel, cpp_jobs in H.
      eapply Permutation_trans; [apply (jobs_sel_conserve _ _ _ Hpre H Hdone)|].
      apply nkeys_perm, expected_perm, Permutation_filter, fetch_jobs; assumption.
    Qed.

    Lemma names_with_reads_nodup :
      NoDup (map (@Some Z) (map fst (filter (has_reads recs) hdr))).
    Proof.
      apply FinFun.Injective_map_NoDup; [intros x y Hxy; congruence|]. apply NoDup_map_filter. exact hdr_nodup.
    Qed.

    Lemma in_names_with_reads r c :
      In r recs -> r_contig r = Some c -> In (Some c) (map (@Some Z) (map fst (filter (has_reads recs) hdr))).
    Proof.
      intros Hr Ec. apply in_map. assert (Hp := recs_placed r Hr). unfold placed_in in Hp. rewrite Ec in Hp.
      apply existsb_exists in Hp. destruct Hp as (x & Hx & He). apply Z.eqb_eq in He. subst x.
      apply in_map_iff in Hx. destruct Hx as ([c' len] & Hc' & Hin). cbn [fst] in Hc'. subst c'.
      apply in_map_iff. exists (c, len). split; [reflexivity|]. apply filter_In. split; [exact Hin|].
      unfold has_reads. apply existsb_exists. exists r. split; [exact Hr|]. cbn [fst]. rewrite Ec. apply cname_eqb_refl.
    Qed.

    (* one contig per process REPAIRED (whitelist test in the job loop): exactly the wanted records *)
    Lemma multi_sel_repaired sc outs done :
      pre_stream qflag recs ->
      job_outputs_sel sort it qflag true true sc skip true hdr recs = Ok outs ->
      Permutation done outs ->
      Permutation (map key (map fst (snd (multi_merge merge in_rgs done))))
                  (nkeys (expected qflag (filter (want_rec sc skip) recs))).
    Proof.
      intros Hpre H Hdone. unfold job_outputs_sel in H.
      eapply Permutation_trans; [apply (jobs_sel_conserve _ _ _ Hpre H Hdone)|].
      apply nkeys_perm, expected_perm.
      rewrite cpp_jobs_repaired_concat.
      set (wl := whitelist sc skip (contigs_with_reads hdr recs)).
      assert (HL : filter (fun c => nonstar c && cmem c wl) (map fst (contigs_with_reads hdr recs))
                   = filter (fun c => cmem c wl) (map (@Some Z) (map fst (filter (has_reads recs) hdr)))).
      { rewrite <- cwr_names, filter_filter_and. reflexivity. }
      rewrite HL. apply sel_cover.
      - constructor; [|apply NoDup_filter, names_with_reads_nodup].
        intros Hin. apply filter_In in Hin. destruct Hin as (Hin & _).
        apply in_map_iff in Hin. destruct Hin as (x & Hx & _). discriminate Hx.
      - left. reflexivity.
      - intros r c Hr Ec Hk. rewrite <- (whitelist_sel sc skip hdr recs r c Hr (recs_placed r Hr) Ec Hk). fold wl.
        split.
        + intros [Hx|Hx]; [discriminate Hx|]. apply filter_In in Hx. tauto.
        + intros Hw. right. apply filter_In. split; [apply (in_names_with_reads r c Hr Ec)|exact Hw].
    Qed.

    (* binned mode at contig granularity (every header contig has positive length) *)
    Lemma binned_contigs_In wl k c :
      (forall cl, In cl hdr -> 0 < snd cl) ->
      (In (Some c) (binned_contigs wl hdr k) <-> In c (map fst hdr) /\ cmem (Some c) wl = true).
    Proof.
      intros Hpos. unfold binned_contigs. rewrite In_dedupC, binned_jobs_concat. cbn [map fst In]. split.
      - intros [Hx|Hx]; [discriminate Hx|]. apply in_map_iff in Hx. destruct Hx as (t & Ht & Hin).
        apply regions_selected in Hin. destruct Hin as (c' & len & b & -> & Hin & Hw & _).
        cbn [fst] in Ht. inversion Ht; subst c'. split; [|exact Hw].
        apply in_map_iff. exists (c, len). split; [reflexivity|exact Hin].
      - intros (Hc & Hw). right. apply in_map_iff in Hc. destruct Hc as ([c' len] & Hc' & Hin). cbn [fst] in Hc'. subst c'.
        apply in_map_iff. exists (Some c, Some (0, len, 0, len)). split; [reflexivity|].
        unfold regions. apply in_flat_map. exists (c, len). split; [exact Hin|]. cbn [fst snd]. rewrite Hw.
        apply in_map_iff. exists (0, len, 0, len). split; [reflexivity|].
        unfold one_bin. assert (Hp := Hpos _ Hin). cbn [snd] in Hp.
        destruct (0 <? len) eqn:E; [left; reflexivity|lia].
    Qed.

    Lemma multi_binned_conserve sc k outs done :
      (forall cl, In cl hdr -> 0 < snd cl) ->
      pre_stream qflag recs ->
      binned_outputs sort it qflag true true sc skip hdr recs k = Ok outs ->
      Permutation done outs ->
      Permutation (map key (map fst (snd (multi_merge merge in_rgs done))))
                  (nkeys (expected qflag (filter (want_rec sc skip) recs))).
    Proof.
      intros Hpos Hpre H Hdone. unfold binned_outputs in H.
      eapply Permutation_trans; [apply (jobs_sel_conserve _ _ _ Hpre H Hdone)|].
      apply nkeys_perm, expected_perm. rewrite concat_map_singleton.
      apply sel_cover.
      - apply NoDup_dedupC.
      - unfold binned_contigs. apply In_dedupC. rewrite binned_jobs_concat. left. reflexivity.
      - intros r c Hr Ec Hk. rewrite (binned_contigs_In _ k c Hpos).
        rewrite <- (whitelist_sel sc skip hdr recs r c Hr (recs_placed r Hr) Ec Hk).
        split; [tauto|]. intros Hw. split; [|exact Hw].
        assert (Hp := recs_placed r Hr). unfold placed_in in Hp. rewrite Ec in Hp.
        apply existsb_exists in Hp. destruct Hp as (x & Hx & He). apply Z.eqb_eq in He. subst x. exact Hx.
    Qed.
  End MultiSel.

  (* ---- single process and multiprocess select the same records *)
  Section Same.
    Variables (sc : option cname) (hdr : list (Z * Z)) (recs : list rec) (in_rgs : list Z).
    Hypothesis hdr_nodup : NoDup (map fst hdr).
    Hypothesis recs_placed : forall r, In r recs -> placed_in (map fst hdr) r = true.
    Hypothesis Hpre : pre_stream qflag recs.
    Hypothesis Hcoloc : coloc recs.

    (* repaired one-contig-per-process job loop: for every selection that names a header contig *)
    Lemma sel_same_repaired b outs done :
      sc_ok sc (map fst hdr) = true ->
      single_sel sort it qflag true true sc skip hdr recs = Ok b ->
      job_outputs_sel sort it qflag true true sc skip true hdr recs = Ok outs ->
      Permutation done outs ->
      Permutation (map key (map fst (snd b))) (map key (map fst (snd (multi_merge merge in_rgs done)))).
    Proof.
      intros Hok Hs Hm Hd.
      eapply Permutation_trans; [apply (single_sel_conserve sc hdr recs hdr_nodup recs_placed b Hpre Hcoloc Hok Hs)|].
      apply Permutation_sym. apply (multi_sel_repaired hdr recs in_rgs hdr_nodup recs_placed sc outs done Hpre Hm Hd).
    Qed.

    (* binned mode (contig granularity) *)
    Lemma sel_same_binned k b outs done :
      (forall cl, In cl hdr -> 0 < snd cl) ->
      sc_ok sc (map fst hdr) = true ->
      single_sel sort it qflag true true sc skip hdr recs = Ok b ->
      binned_outputs sort it qflag true true sc skip hdr recs k = Ok outs ->
      Permutation done outs ->
      Permutation (map key (map fst (snd b))) (map key (map fst (snd (multi_merge merge in_rgs done)))).
    Proof.
      intros Hpos Hok Hs Hm Hd.
      eapply Permutation_trans; [apply (single_sel_conserve sc hdr recs hdr_nodup recs_placed b Hpre Hcoloc Hok Hs)|].
      apply Permutation_sym. apply (multi_binned_conserve hdr recs in_rgs recs_placed sc k outs done Hpos Hpre Hm Hd).
    Qed.
  End Same.

  (* the code AS CODED: single process and one contig per process agree when only -skip_contig is given *)
  Lemma sel_same_skip_as_coded hdr recs in_rgs b outs done :
    NoDup (map fst hdr) -> (forall r, In r recs -> placed_in (map fst hdr) r = true) ->
    pre_stream qflag recs -> coloc recs ->
    single_sel sort it qflag true true None skip hdr recs = Ok b ->
    job_outputs_sel sort it qflag true true None skip false hdr recs = Ok outs ->
    Permutation done outs ->
    Permutation (map key (map fst (snd b))) (map key (map fst (snd (multi_merge merge in_rgs done)))).
  Proof.
    intros Hnd Hpl Hpre Hc Hs Hm Hd.
    eapply Permutation_trans; [apply (single_sel_conserve None hdr recs Hnd Hpl b Hpre Hc eq_refl Hs)|].
    apply Permutation_sym.
    rewrite (filter_ext_in' (want_rec None skip) (rec_kept skip)) by (intros r _; apply want_rec_none).
    apply (multi_sel_as_coded hdr recs in_rgs Hnd Hpl None outs done Hpre Hm Hd).
  Qed.
End PipelinesSel.

(* ---------------------------------------------------------------- default options: nothing changes *)
Lemma pair_kept_nil_filter (ps : list pairT) : filter (pair_kept []) ps = ps.
Proof. apply filter_all. reflexivity. Qed.

Lemma fragments_sel_default qflag stream : fragments_sel qflag [] stream = fragments qflag stream.
Proof.
  unfold fragments_sel, fragments. destruct (if qflag then pairing_qflag stream else pairing stream) as [ps|e]; cbn [bind]; [|reflexivity].
  rewrite pair_kept_nil_filter. reflexivity.
Qed.

Lemma mol_iter_sel_default it qflag yi yo stream : mol_iter_sel it qflag yi yo [] stream = mol_iter it qflag yi yo stream.
Proof. unfold mol_iter_sel, mol_iter. rewrite fragments_sel_default. reflexivity. Qed.

Lemma mapM_ext {A B} (f g : A -> res B) (l : list A) : (forall a, f a = g a) -> mapM f l = mapM g l.
Proof. intros H. induction l as [|a l IH]; cbn [mapM]; [reflexivity|]. rewrite H, IH. reflexivity. Qed.

Lemma single_sel_default sort it qflag yi yo hdr recs :
  single_sel sort it qflag yi yo None [] hdr recs = single sort it qflag yi yo hdr recs.
Proof.
  unfold single_sel, single, main_stream. rewrite mol_iter_sel_default.
  destruct (mol_iter it qflag yi yo (fetch None recs)) as [m1|e]; cbn [bind]; [|reflexivity].
  rewrite mol_iter_sel_default. reflexivity.
Qed.

Lemma multi_sel_default sort merge it qflag yi yo honour in_rgs hdr recs :
  multi_sel sort merge it qflag yi yo None [] false in_rgs hdr recs = multi sort merge it qflag yi yo in_rgs hdr recs /\
  cpp_jobs honour None [] (contigs_with_reads hdr recs) = contig_jobs (contigs_with_reads hdr recs).
Proof.
  split.
  - unfold multi_sel, multi, job_outputs_sel, job_outputs, jobs_outputs_sel, cpp_jobs.
    rewrite (mapM_ext (job_sel sort it qflag yi yo [] recs) (job sort it qflag yi yo recs)); [reflexivity|].
    intros cs. unfold job_sel, job.
    rewrite (mapM_ext (fun c => mol_iter_sel it qflag yi yo [] (fetch c recs)) (fun c => mol_iter it qflag yi yo (fetch c recs)));
      [reflexivity|]. intros c. apply mol_iter_sel_default.
  - destruct honour; [|reflexivity]. unfold cpp_jobs. rewrite jobs_loop_wl_filter.
    unfold contig_jobs. f_equal. apply filter_all. intros [c len] Hin. unfold keepc. cbn [fst].
    destruct (is_star c) eqn:Es; [reflexivity|]. cbn [orb]. apply whitelist_spec. split; [|reflexivity].
    apply in_map_iff. exists (c, len). split; [reflexivity|exact Hin].
Qed.

(* ---------------------------------------------------------------- binned mode with real region tasks, modulo the tiling theorem *)
Section BinnedRecords.
  Variable sort : list orec -> list orec.
  Variable merge : list bam -> bam.
  Variable bins : Z -> list region.
  Variable tout : task -> list orec.      (* what one task writes *)
  Variable W : cname -> list orec.        (* what one pass over the whole contig writes *)
  Variables (hdr : list (Z * Z)) (wl : list cname) (k : Z) (in_rgs : list Z).

  Hypothesis sort_perm : forall l, Permutation (sort l) l.
  Hypothesis merge_perm : forall bs, Permutation (snd (merge bs)) (flat_map snd bs).
  Hypothesis star_task : tout (None, None) = W None.
  (* C08 / C17: the region tasks of one contig together write what one pass over the contig writes *)
  Hypothesis tiles : forall c len, In (c, len) hdr ->
    Permutation (flat_map (fun b => tout (Some c, Some b)) (bins len)) (W (Some c)).

  Lemma task_job_recs j : Permutation (job_recs (task_job_out sort tout j)) (flat_map tout j).
  Proof.
    unfold task_job_out. destruct (flat_map tout j) as [|x l]; cbn [job_recs snd]; [constructor|apply sort_perm].
  Qed.

  Lemma binned_records done :
    Permutation done (map (task_job_out sort tout) (binned_jobs bins wl hdr k)) ->
    Permutation (snd (multi_merge merge in_rgs done))
                (flat_map W (None :: map (fun cl => Some (fst cl)) (filter (fun cl => cmem (Some (fst cl)) wl) hdr))).
  Proof.
    intros Hdone. unfold multi_merge.
    eapply Permutation_trans; [apply merge_perm|]. cbn [flat_map snd app]. rewrite somes_recs.
    eapply Permutation_trans; [apply perm_flat_map, Hdone|].
    rewrite flat_map_map'.
    eapply Permutation_trans; [apply flat_map_perm_pointwise; intros j _; apply task_job_recs|].
    rewrite <- flat_map_concat', binned_jobs_concat. cbn [flat_map]. rewrite star_task.
    apply Permutation_app_head. rewrite regions_flat, flat_map_map'.
    apply flat_map_perm_pointwise. intros [c len] Hin. cbn [fst snd].
    apply filter_In in Hin. apply (tiles c len). tauto.
  Qed.
End BinnedRecords.

(* ---------------------------------------------------------------- no exception *)
Lemma fragments_sel_total qflag skip stream :
  (forall r, In r stream -> wf_flags r = true) -> exists fs, fragments_sel qflag skip stream = Ok fs.
Proof.
  intros Hwf. unfold fragments_sel. destruct qflag.
  - unfold pairing_qflag. cbn [bind]. apply mapM_total. intros p Hp. apply filter_In in Hp. destruct Hp as (Hp & _).
    apply in_map_iff in Hp. destruct Hp as (r & <- & _). apply mkfrag_total.
    intros a Ha. destruct (r_read2 r) eqn:E; cbn [fst] in Ha; [discriminate|]. inversion Ha; subst. exact E.
  - unfold pairing. destruct (pair_loop_total stream [] [] Hwf) as (ps & Hps). rewrite Hps. cbn [bind].
    apply mapM_total. intros p Hp. apply filter_In in Hp. destruct Hp as (Hp & _). apply mkfrag_total.
    assert (HF := pair_loop_slot0 stream [] [] ps Hwf (fun k v (H : In (k, v) []) => match H with end) Hps).
    rewrite Forall_forall in HF. apply HF. exact Hp.
Qed.

Lemma mol_iter_sel_total it qflag yi yo skip stream :
  (forall r, In r stream -> wf_flags r = true) -> exists ms, mol_iter_sel it qflag yi yo skip stream = Ok ms.
Proof.
  intros Hwf. unfold mol_iter_sel. destruct (fragments_sel_total qflag skip stream Hwf) as (fs & ->). cbn [bind]. eauto.
Qed.

Lemma wf_fetch c recs : (forall r, In r recs -> wf_flags r = true) -> forall r, In r (fetch c recs) -> wf_flags r = true.
Proof. intros H r Hr. apply filter_In in Hr. apply H. tauto. Qed.

Lemma single_sel_total sort it qflag yi yo sc skip hdr recs :
  (forall r, In r recs -> wf_flags r = true) -> sc_ok sc (map fst hdr) = true ->
  exists b, single_sel sort it qflag yi yo sc skip hdr recs = Ok b.
Proof.
  intros Hwf Hok. unfold single_sel.
  destruct (mol_iter_sel_total it qflag yi yo skip (fetch None recs) (wf_fetch None recs Hwf)) as (m1 & ->). cbn [bind].
  unfold main_stream, sc_ok in *. destruct sc as [[c|]|]; [rewrite Hok|discriminate|]; cbn [bind].
  - destruct (mol_iter_sel_total it qflag yi yo skip (fetch (Some c) recs) (wf_fetch (Some c) recs Hwf)) as (m2 & ->).
    cbn [bind]. eauto.
  - destruct (mol_iter_sel_total it qflag yi yo skip (fetch_all (map fst hdr) recs) (wf_fetch_all _ recs Hwf)) as (m2 & ->).
    cbn [bind]. eauto.
Qed.

Lemma jobs_outputs_sel_total sort it qflag yi yo skip recs jobs :
  (forall r, In r recs -> wf_flags r = true) -> exists outs, jobs_outputs_sel sort it qflag yi yo skip recs jobs = Ok outs.
Proof.
  intros Hwf. unfold jobs_outputs_sel. apply mapM_total. intros cs _. unfold job_sel.
  destruct (mapM_total (fun c => mol_iter_sel it qflag yi yo skip (fetch c recs)) cs) as (mss & ->).
  - intros c _. apply mol_iter_sel_total. apply wf_fetch. exact Hwf.
  - cbn [bind]. eauto.
Qed.

Lemma multi_sel_total sort merge it qflag yi yo sc skip honour in_rgs hdr recs :
  (forall r, In r recs -> wf_flags r = true) ->
  exists b, multi_sel sort merge it qflag yi yo sc skip honour in_rgs hdr recs = Ok b.
Proof.
  intros Hwf. unfold multi_sel, job_outputs_sel.
  destruct (jobs_outputs_sel_total sort it qflag yi yo skip recs
              (cpp_jobs honour sc skip (contigs_with_reads hdr recs)) Hwf) as (outs & ->).
  cbn [bind]. eauto.
Qed.

(* ---------------------------------------------------------------- the boolean precondition *)
Lemma pre_sel_sound sc hdr recs qflag : pre_sel sc hdr recs = true ->
  pre_stream qflag recs /\ NoDup (map fst hdr) /\ (forall r, In r recs -> placed_in (map fst hdr) r = true)
  /\ (forall r, In r recs -> wf_flags r = true) /\ coloc recs /\ sc_ok sc (map fst hdr) = true.
Proof.
  unfold pre_sel. rewrite !andb_true_iff. intros ((Hpre & Hc) & Hs).
  destruct (pre_sound hdr recs qflag Hpre) as (H1 & H2 & H3 & H4).
  repeat split; try assumption. apply coloc_b_sound. exact Hc.
Qed.

(* ---------------------------------------------------------------- D31 / the '*' selection: the code as it is *)
(* -contig 0 on the demo library: the single-process run writes the records of contig 0 and the unplaced pair,
   the one-contig-per-process run as coded writes the whole file *)
Lemma sel_same_as_coded_refuted :
  pre_sel (Some (Some 0)) demo_hdr demo_recs = true /\
  (exists b, single_sel csort demo_it false true true (Some (Some 0)) [] demo_hdr demo_recs = Ok b /\
             map (fun o : orec => r_id (fst o)) (snd b) = [1; 2; 3; 4; 8; 9]) /\
  (exists b, multi_sel csort cmerge demo_it false true true (Some (Some 0)) [] false [] demo_hdr demo_recs = Ok b /\
             map (fun o : orec => r_id (fst o)) (snd b) = [1; 2; 3; 4; 5; 6; 8; 9] /\
             existsb (fun o : orec => negb (want_rec (Some (Some 0)) [] (fst o))) (snd b) = true).
Proof.
  split; [reflexivity|]. split.
  - eexists. split; vm_compute; reflexivity.
  - eexists. split; [vm_compute; reflexivity|]. split; vm_compute; reflexivity.
Qed.

(* -contig '*' in a single process: both iterators of the chain fetch the unplaced bin *)
Lemma sel_single_star_refuted :
  exists b, single_sel csort demo_it false true true (Some None) [] demo_hdr demo_recs = Ok b /\
            map (fun o : orec => r_id (fst o)) (snd b) = [8; 8; 9; 9].
Proof. eexists. split; vm_compute; reflexivity. Qed.

(* non-vacuity: the demo library under selections, all four ways of running *)
Lemma sel_demo_runs :
  pre_sel (Some (Some 1)) demo_hdr demo_recs = true /\ pre_sel None demo_hdr demo_recs = true /\
  (exists b, single_sel csort demo_it false true true (Some (Some 1)) [] demo_hdr demo_recs = Ok b /\
             map (fun o : orec => r_id (fst o)) (snd b) = [5; 6; 8; 9]) /\
  (exists b, multi_sel csort cmerge demo_it false true true (Some (Some 1)) [] true [] demo_hdr demo_recs = Ok b /\
             map (fun o : orec => r_id (fst o)) (snd b) = [5; 6; 8; 9]) /\
  (exists b, multi_binned csort cmerge demo_it false true true (Some (Some 1)) [] [] demo_hdr demo_recs 1000 = Ok b /\
             map (fun o : orec => r_id (fst o)) (snd b) = [5; 6; 8; 9]) /\
  (exists b, single_sel csort demo_it false true true None [Some 0] demo_hdr demo_recs = Ok b /\
             map (fun o : orec => r_id (fst o)) (snd b) = [5; 6; 8; 9]) /\
  (exists b, multi_sel csort cmerge demo_it false true true None [Some 0] false [] demo_hdr demo_recs = Ok b /\
             map (fun o : orec => r_id (fst o)) (snd b) = [5; 6; 8; 9]) /\
  cpp_jobs true (Some (Some 1)) [] (contigs_with_reads demo_hdr demo_recs) = [[None]; [Some 1]] /\
  cpp_jobs false (Some (Some 1)) [] (contigs_with_reads demo_hdr demo_recs) = [[None]; [Some 0]; [Some 1]] /\
  map (map fst) (binned_jobs one_bin (whitelist None [Some 0] (contigs_with_reads demo_hdr demo_recs)) demo_hdr 1000)
    = [[None]; [Some 1]; []].
Proof.
  repeat split; try reflexivity; try (eexists; split; vm_compute; reflexivity).
Qed.
