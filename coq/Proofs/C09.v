(* C09 proofs.  The site arithmetic is the GENERATED nla_site_gen / chic_site_gen (Gen/GenSite.v);
   everything here is proved about those definitions as regenerated from the current source. *)
From Coq Require Import ZArith List Bool Lia.
Import ListNotations.
From SCMO Require Import Lib.Val Lib.C09Str Gen.GenSite Model.C09.
Open Scope Z_scope.

(* ------------------------------------------------------------------ strings *)
Lemma str_eqb_eq : forall a b, str_eqb a b = true <-> a = b.
Proof.
  induction a as [|x a IH]; destruct b as [|y b]; cbn [str_eqb]; split; intro H; try congruence; try reflexivity.
  - apply andb_true_iff in H. destruct H as [Hx Hab]. apply Z.eqb_eq in Hx. apply IH in Hab. congruence.
  - inversion H; subst. apply andb_true_iff. split; [apply Z.eqb_refl | apply IH; reflexivity].
Qed.

Lemma str_eqb_refl : forall a, str_eqb a a = true.
Proof. intro a. apply str_eqb_eq. reflexivity. Qed.

Lemma str_eqb_neq : forall a b, a <> b -> str_eqb a b = false.
Proof. intros a b H. destruct (str_eqb a b) eqn:E; [apply str_eqb_eq in E; contradiction | reflexivity]. Qed.

Lemma comp_invol : forall b, comp (comp b) = b.
Proof.
  intro b. unfold comp.
  destruct (b =? 65) eqn:E1; [apply Z.eqb_eq in E1; subst; reflexivity|].
  destruct (b =? 84) eqn:E2; [apply Z.eqb_eq in E2; subst; reflexivity|].
  destruct (b =? 67) eqn:E3; [apply Z.eqb_eq in E3; subst; reflexivity|].
  destruct (b =? 71) eqn:E4; [apply Z.eqb_eq in E4; subst; reflexivity|].
  rewrite E1, E2, E3, E4. reflexivity.
Qed.

Lemma revcomp_invol : forall s, revcomp (revcomp s) = s.
Proof.
  intro s. unfold revcomp. rewrite map_rev, rev_involutive, map_map.
  rewrite <- (map_id s) at 2. apply map_ext. intro a. apply comp_invol.
Qed.

Lemma revcomp_length : forall s, length (revcomp s) = length s.
Proof. intro s. unfold revcomp. rewrite rev_length, map_length. reflexivity. Qed.

Lemma skipn_rev_firstn : forall (A : Type) n (l : list A),
  skipn (length l - n) (rev l) = rev (firstn n l).
Proof.
  intros A n l.
  rewrite <- (firstn_skipn n l) at 2. rewrite rev_app_distr.
  replace (length l - n)%nat with (length (rev (skipn n l))).
  - rewrite skipn_app, skipn_all, Nat.sub_diag. reflexivity.
  - rewrite rev_length, skipn_length. reflexivity.
Qed.

Lemma suffix_revcomp : forall n s, py_suffix n (revcomp s) = revcomp (py_prefix n s).
Proof.
  intros n s. unfold py_suffix, py_prefix. rewrite revcomp_length. unfold revcomp.
  rewrite <- (map_length comp s). rewrite skipn_rev_firstn. rewrite firstn_map. reflexivity.
Qed.

Lemma prefix_revcomp : forall n s, py_prefix n (revcomp s) = revcomp (py_suffix n s).
Proof.
  intros n s. rewrite <- (revcomp_invol s) at 2. rewrite suffix_revcomp, revcomp_invol. reflexivity.
Qed.

Lemma str_eqb_revcomp : forall a b, str_eqb (revcomp a) b = str_eqb a (revcomp b).
Proof.
  intros a b. apply eq_true_iff_eq. rewrite !str_eqb_eq. split; intro H.
  - rewrite <- H, revcomp_invol. reflexivity.
  - rewrite H, revcomp_invol. reflexivity.
Qed.

Lemma endswith_CAT_revcomp : forall m, py_endswith CAT (revcomp m) = py_startswith ATG m.
Proof.
  intro m. unfold py_endswith, py_startswith. rewrite suffix_revcomp, str_eqb_revcomp. reflexivity.
Qed.

Lemma startswith_ATG_revcomp : forall m, py_startswith ATG (revcomp m) = py_endswith CAT m.
Proof.
  intro m. unfold py_endswith, py_startswith. rewrite prefix_revcomp, str_eqb_revcomp. reflexivity.
Qed.

Lemma eq_CATG_revcomp : forall m, str_eqb (revcomp m) CATG = str_eqb m CATG.
Proof. intro m. rewrite str_eqb_revcomp. reflexivity. Qed.

(* ------------------------------------------------------------------ CIGAR *)
Lemma ref_len_app : forall a b, ref_len (a ++ b) = ref_len a + ref_len b.
Proof.
  induction a as [|x a IH]; intro b; cbn [ref_len app fold_right]; [reflexivity|].
  fold (ref_len (a ++ b)). fold (ref_len a). rewrite IH. destruct (consumes_ref (fst x)); lia.
Qed.

Lemma ref_len_softclip : forall k, ref_len (softclip k) = 0.
Proof. intro k. unfold softclip. destruct (k =? 0); reflexivity. Qed.

Lemma ref_len_rev : forall c, ref_len (rev c) = ref_len c.
Proof.
  induction c as [|x c IH]; [reflexivity|].
  cbn [rev]. rewrite ref_len_app, IH. cbn [ref_len fold_right]. fold (ref_len c).
  destruct (consumes_ref (fst x)); lia.
Qed.

Lemma ref_span_rev : forall c, ref_span (rev c) = ref_span c.
Proof. intro c. unfold ref_span. rewrite ref_len_rev. reflexivity. Qed.

Lemma ref_len_wrapped : forall a mid b, ref_len (softclip a ++ mid ++ softclip b) = ref_len mid.
Proof. intros. rewrite !ref_len_app, !ref_len_softclip. lia. Qed.

Lemma good_mid_pos : forall mid, good_mid mid = true -> 0 < ref_len mid.
Proof. intros mid H. apply andb_true_iff in H. destruct H as [H _]. apply Z.ltb_lt in H. exact H. Qed.

Lemma good_mid_noclip : forall mid o, good_mid mid = true -> In o mid -> (fst o =? 4) = false.
Proof.
  intros mid o H Hin. apply andb_true_iff in H. destruct H as [_ H].
  rewrite forallb_forall in H. specialize (H o Hin). unfold is_clip in H.
  apply negb_true_iff in H. apply orb_false_iff in H. tauto.
Qed.

Lemma good_mid_nonempty : forall mid, good_mid mid = true -> mid <> [].
Proof. intros mid H E. subst. discriminate H. Qed.

Lemma ref_span_wrapped : forall a mid b, good_mid mid = true ->
  ref_span (softclip a ++ mid ++ softclip b) = ref_len mid.
Proof.
  intros a mid b H. unfold ref_span. rewrite ref_len_wrapped.
  pose proof (good_mid_pos mid H) as Hp. destruct (ref_len mid =? 0) eqn:E; [apply Z.eqb_eq in E; lia | reflexivity].
Qed.

Lemma last_app_nonempty : forall (A : Type) (l m : list A) d, m <> [] -> last (l ++ m) d = last m d.
Proof.
  intros A l m d Hm. rewrite (app_removelast_last d Hm). rewrite app_assoc, !last_last. reflexivity.
Qed.

Lemma last_in : forall (A : Type) (m : list A) d, m <> [] -> In (last m d) m.
Proof.
  intros A m d Hm. rewrite (app_removelast_last d Hm) at 2. apply in_or_app. right. left. reflexivity.
Qed.

Lemma hd_rev_last : forall (A : Type) (c : list A) d, hd d (rev c) = last c d.
Proof.
  intros A c d. destruct c as [|a c] using rev_ind; [reflexivity|].
  rewrite rev_app_distr, last_last. reflexivity.
Qed.

Lemma last_rev_hd : forall (A : Type) (c : list A) d, last (rev c) d = hd d c.
Proof.
  intros A c d. destruct c as [|a c]; [reflexivity|]. cbn [rev]. rewrite last_last. reflexivity.
Qed.

(* the clip correction at the leading end: a soft clip of [clip] cycles, or none, in front of [mid] *)
Lemma lead_clip_correction : forall clip mid tail v, good_mid mid = true ->
  (if fst (first_op (softclip clip ++ mid ++ softclip tail)) =? 4
   then v - snd (first_op (softclip clip ++ mid ++ softclip tail)) else v) = v - clip.
Proof.
  intros clip mid tail v H.
  assert (Hs : softclip clip = if clip =? 0 then [] else [(4, clip)]) by reflexivity. rewrite Hs. clear Hs.
  destruct (clip =? 0) eqn:E.
  - apply Z.eqb_eq in E. subst clip. destruct mid as [|m mid']; [discriminate H|].
    cbn [app first_op hd]. rewrite (good_mid_noclip _ m H (or_introl eq_refl)). lia.
  - cbn [app first_op hd fst snd]. reflexivity.
Qed.

Lemma trail_clip_correction : forall clip mid tail v, good_mid mid = true ->
  (if fst (last_op (softclip tail ++ mid ++ softclip clip)) =? 4
   then v + snd (last_op (softclip tail ++ mid ++ softclip clip)) else v) = v + clip.
Proof.
  intros clip mid tail v H. unfold last_op.
  pose proof (good_mid_nonempty mid H) as Hne.
  assert (Hs : softclip clip = if clip =? 0 then [] else [(4, clip)]) by reflexivity. rewrite Hs. clear Hs.
  destruct (clip =? 0) eqn:E.
  - apply Z.eqb_eq in E. subst clip. rewrite app_nil_r, last_app_nonempty by exact Hne.
    rewrite (good_mid_noclip _ _ H (last_in _ mid (0, 0) Hne)). lia.
  - rewrite app_assoc, last_last. cbn [fst snd]. reflexivity.
Qed.

Lemma usable_wrapped : forall nc s a mid b rv sq um mx, good_mid mid = true ->
  usable nc (mkRead s (softclip a ++ mid ++ softclip b) rv sq um mx) = true.
Proof.
  intros nc s a mid b rv sq um mx H. unfold usable. cbn [r_cigar].
  destruct (softclip a ++ mid ++ softclip b) eqn:E; [|reflexivity].
  apply app_eq_nil in E. destruct E as [_ E]. apply app_eq_nil in E. destruct E as [E _].
  exfalso. exact (good_mid_nonempty mid H E).
Qed.

(* closes goals of the shape  Done {| .. |} = Done {| .. |}  once the branch is decided *)
Lemma obs_ext : forall a b c d e f g h a' b' c' d' e' f' g' h',
  a = a' -> b = b' -> c = c' -> d = d' -> e = e' -> f = f' -> g = g' -> h = h' ->
  mkObs a b c d e f g h = mkObs a' b' c' d' e' f' g' h'.
Proof. intros; subst; reflexivity. Qed.

Ltac finish c :=
  apply f_equal; apply obs_ext; try reflexivity; try apply andb_true_r;
  try (destruct (c_nocigar c); cbn [negb]; apply f_equal; lia); try (apply f_equal; lia).

Lemma clip_shift_0 : forall c reverse clip, (c_nocigar c = false \/ clip = 0) -> clip_shift c reverse clip = 0.
Proof.
  intros c reverse clip [H | H]; unfold clip_shift; [rewrite H; reflexivity|].
  subst. destruct (c_nocigar c), reverse; reflexivity.
Qed.

(* ------------------------------------------------------------------ NlaIII: site of a simulated read *)
Lemma nla_site_any : forall c cycles mid p reverse clip tail pre,
  good_mid mid = true -> py_prefix 4 cycles = CATG ->
  nla_fragment c true pre (Some (simulate_nla cycles mid p reverse clip tail false)) =
  Done (site_obs (p + clip_shift c reverse clip) (xorb reverse (c_invert c)) reverse (Some CATG) pre).
Proof.
  intros c cycles mid p reverse clip tail pre Hmid Hmotif.
  unfold simulate_nla, place_read, nla_fragment. destruct reverse.
  - rewrite usable_wrapped by exact Hmid.
    cbn [negb r_unmapped r_cigar r_rev r_start r_seq]. unfold ref_end. cbn [r_start r_cigar].
    rewrite ref_span_wrapped by exact Hmid.
    cbv beta iota zeta delta [nla_site_gen].
    rewrite suffix_revcomp, Hmotif.
    rewrite trail_clip_correction by exact Hmid.
    change (revcomp CATG) with CATG. change (str_eqb CATG [67; 65; 84; 71]) with true.
    cbn [negb]. rewrite andb_false_r, orb_true_r. cbn [andb]. cbv beta iota. unfold site_obs.
    destruct (c_invert c); cbn [negb xorb]; unfold clip_shift; finish c.
  - rewrite usable_wrapped by exact Hmid.
    cbn [negb r_unmapped r_cigar r_rev r_start r_seq]. unfold ref_end. cbn [r_start r_cigar].
    cbv beta iota zeta delta [nla_site_gen].
    rewrite Hmotif.
    rewrite lead_clip_correction by exact Hmid.
    change (str_eqb CATG [67; 65; 84; 71]) with true.
    cbn [negb]. rewrite orb_true_r. cbn [andb]. cbv beta iota. unfold site_obs.
    destruct (c_invert c); cbn [negb xorb]; unfold clip_shift; finish c.
Qed.

Lemma nla_site : forall c cycles mid p reverse clip tail pre,
  good_mid mid = true -> py_prefix 4 cycles = CATG -> (c_nocigar c = false \/ clip = 0) ->
  nla_fragment c true pre (Some (simulate_nla cycles mid p reverse clip tail false)) =
  Done (site_obs p (xorb reverse (c_invert c)) reverse (Some CATG) pre).
Proof.
  intros c cycles mid p reverse clip tail pre Hmid Hmotif Hclip.
  rewrite nla_site_any by assumption. rewrite (clip_shift_0 c reverse clip Hclip), Z.add_0_r. reflexivity.
Qed.


(* ------------------------------------------------------------------ NlaIII: rejection (any mapped read) *)
Lemma nla_reject : forall c r pre,
  r_unmapped r = false -> usable (c_nocigar c) r = true -> c_check_motif c = true ->
  start_motif r <> CATG ->
  (c_allow_shift c = false \/ py_startswith ATG (start_motif r) = false) ->
  is_rejected (nla_fragment c true pre (Some r)).
Proof.
  intros c r pre Hmap Huse Hcm Hmotif Hshift.
  unfold nla_fragment. rewrite Hmap, Huse, Hcm. cbn [negb].
  cbv beta iota zeta delta [nla_site_gen].
  change [67; 65; 84; 71] with CATG. change [65; 84; 71] with ATG. change [67; 65; 84] with CAT.
  unfold start_motif in Hmotif, Hshift.
  destruct (r_rev r) eqn:Hrev.
  - assert (E1 : str_eqb (py_suffix 4 (r_seq r)) CATG = false).
    { rewrite <- eq_CATG_revcomp. apply str_eqb_neq. exact Hmotif. }
    assert (E2 : c_allow_shift c && py_endswith CAT (py_suffix 4 (r_seq r)) = false).
    { destruct Hshift as [H | H]; [rewrite H; reflexivity|].
      rewrite startswith_ATG_revcomp in H. rewrite H. apply andb_false_r. }
    cbn [negb orb]. rewrite !andb_false_r, E1, E2. cbn [andb]. cbv beta iota.
    eexists. split; [reflexivity|]. cbn [o_ds o_valid o_qcfail o_rz o_rr].
    repeat split; try reflexivity; try apply andb_false_r.
    + destruct (str_eqb (py_prefix 4 (r_seq r)) CATG); reflexivity.
    + destruct (str_eqb (py_prefix 4 (r_seq r)) CATG); discriminate.
  - assert (E1 : str_eqb (py_prefix 4 (r_seq r)) CATG = false) by (apply str_eqb_neq; exact Hmotif).
    assert (E2 : c_allow_shift c && py_startswith ATG (py_prefix 4 (r_seq r)) = false).
    { destruct Hshift as [H | H]; rewrite H; [reflexivity | apply andb_false_r]. }
    cbn [negb orb]. rewrite !andb_false_r, E1, E2. cbn [andb]. cbv beta iota.
    eexists. split; [reflexivity|]. cbn [o_ds o_valid o_qcfail o_rz o_rr].
    repeat split; try reflexivity; try apply andb_false_r.
    + destruct (str_eqb (py_suffix 4 (r_seq r)) CATG); reflexivity.
    + destruct (str_eqb (py_suffix 4 (r_seq r)) CATG); discriminate.
Qed.

Lemma start_motif_sim : forall cycles mid p reverse clip tail lost,
  start_motif (simulate_nla cycles mid p reverse clip tail lost) =
  py_prefix 4 (if lost then tl cycles else cycles).
Proof.
  intros. unfold simulate_nla, place_read, start_motif.
  destruct reverse; cbn [r_rev r_seq]; [rewrite suffix_revcomp, revcomp_invol|]; reflexivity.
Qed.

Lemma sim_unmapped : forall cycles mid p reverse clip tail lost,
  r_unmapped (simulate_nla cycles mid p reverse clip tail lost) = false.
Proof. intros. unfold simulate_nla, place_read. destruct reverse; reflexivity. Qed.

Lemma sim_usable : forall nc cycles mid p reverse clip tail lost, good_mid mid = true ->
  usable nc (simulate_nla cycles mid p reverse clip tail lost) = true.
Proof. intros. unfold simulate_nla, place_read. destruct reverse; apply usable_wrapped; assumption. Qed.

Lemma nla_reject_sim : forall c cycles mid p reverse clip tail (lost : bool) pre,
  good_mid mid = true -> c_check_motif c = true ->
  py_prefix 4 (if lost then tl cycles else cycles) <> CATG ->
  (c_allow_shift c = false \/ py_startswith ATG (py_prefix 4 (if lost then tl cycles else cycles)) = false) ->
  is_rejected (nla_fragment c true pre (Some (simulate_nla cycles mid p reverse clip tail lost))).
Proof.
  intros c cycles mid p reverse clip tail lost pre Hmid Hcm Hmotif Hshift.
  apply nla_reject; try assumption.
  - apply sim_unmapped.
  - apply sim_usable. exact Hmid.
  - rewrite start_motif_sim. exact Hmotif.
  - rewrite start_motif_sim. exact Hshift.
Qed.

(* a read that starts with CATG and lost its first cycle starts with ATG *)
Lemma lost_cycle_shape : forall cycles, py_prefix 4 cycles = CATG ->
  exists rest, cycles = 67 :: 65 :: 84 :: 71 :: rest.
Proof.
  intros cycles H. unfold py_prefix, CATG in H.
  destruct cycles as [|a [|b [|c0 [|d rest]]]]; cbn [firstn] in H; try discriminate H.
  inversion H; subst. exists rest. reflexivity.
Qed.

Lemma nla_lost_rejected : forall c cycles mid p reverse clip tail pre,
  good_mid mid = true -> c_check_motif c = true -> c_allow_shift c = false ->
  py_prefix 4 cycles = CATG ->
  is_rejected (nla_fragment c true pre (Some (simulate_nla cycles mid p reverse clip tail true))).
Proof.
  intros c cycles mid p reverse clip tail pre Hmid Hcm Hsh Hmotif.
  apply nla_reject_sim; try assumption; [|left; exact Hsh].
  destruct (lost_cycle_shape cycles Hmotif) as [rest ->]. cbn [tl]. unfold py_prefix, CATG.
  destruct rest; cbn [firstn]; discriminate.
Qed.

(* ------------------------------------------------------------------ NlaIII: lost first cycle, allow_cycle_shift *)
Lemma nla_shift_any : forall c cycles mid p reverse clip tail pre,
  good_mid mid = true -> c_check_motif c = true -> c_allow_shift c = true ->
  py_prefix 4 cycles = CATG ->
  nla_fragment c true pre (Some (simulate_nla cycles mid p reverse clip tail true)) =
  Done (site_obs (p + clip_shift c reverse clip) (xorb reverse (c_invert c)) reverse (Some (if reverse then CAT else ATG)) pre).
Proof.
  intros c cycles mid p reverse clip tail pre Hmid Hcm Hsh Hmotif.
  destruct (lost_cycle_shape cycles Hmotif) as [rest ->].
  unfold simulate_nla, place_read, nla_fragment. cbn [tl]. destruct reverse.
  - rewrite usable_wrapped by exact Hmid.
    cbn [negb r_unmapped r_cigar r_rev r_start r_seq]. unfold ref_end. cbn [r_start r_cigar].
    rewrite ref_span_wrapped by exact Hmid.
    cbv beta iota zeta delta [nla_site_gen].
    rewrite suffix_revcomp. rewrite Hcm, Hsh.
    rewrite trail_clip_correction by exact Hmid.
    assert (E1 : str_eqb (revcomp (py_prefix 4 (65 :: 84 :: 71 :: rest))) [67; 65; 84; 71] = false).
    { change [67; 65; 84; 71] with CATG. rewrite eq_CATG_revcomp. reflexivity. }
    assert (E2 : py_endswith [67; 65; 84] (revcomp (py_prefix 4 (65 :: 84 :: 71 :: rest))) = true).
    { change [67; 65; 84] with CAT. rewrite endswith_CAT_revcomp. reflexivity. }
    rewrite E1, E2. cbn [negb orb andb]. rewrite !andb_false_r. cbv beta iota. unfold site_obs.
    destruct (c_invert c); cbn [negb xorb]; unfold clip_shift; finish c.
  - rewrite usable_wrapped by exact Hmid.
    cbn [negb r_unmapped r_cigar r_rev r_start r_seq]. unfold ref_end. cbn [r_start r_cigar].
    cbv beta iota zeta delta [nla_site_gen].
    rewrite Hcm, Hsh.
    rewrite lead_clip_correction by exact Hmid.
    assert (E1 : str_eqb (py_prefix 4 (65 :: 84 :: 71 :: rest)) [67; 65; 84; 71] = false) by reflexivity.
    assert (E2 : py_startswith [65; 84; 71] (py_prefix 4 (65 :: 84 :: 71 :: rest)) = true) by reflexivity.
    rewrite E1, E2. cbn [negb orb andb]. rewrite ?andb_false_r. cbv beta iota. unfold site_obs.
    destruct (c_invert c); cbn [negb xorb]; unfold clip_shift; finish c.
Qed.

Lemma nla_shift : forall c cycles mid p reverse clip tail pre,
  good_mid mid = true -> c_check_motif c = true -> c_allow_shift c = true ->
  py_prefix 4 cycles = CATG -> (c_nocigar c = false \/ clip = 0) ->
  nla_fragment c true pre (Some (simulate_nla cycles mid p reverse clip tail true)) =
  Done (site_obs p (xorb reverse (c_invert c)) reverse (Some (if reverse then CAT else ATG)) pre).
Proof.
  intros c cycles mid p reverse clip tail pre Hmid Hcm Hsh Hmotif Hclip.
  rewrite nla_shift_any by assumption. rewrite (clip_shift_0 c reverse clip Hclip), Z.add_0_r. reflexivity.
Qed.


(* ------------------------------------------------------------------ scCHIC: site of a simulated read *)
Lemma r2_ok_orient : forall reverse r2, r2_ok reverse r2 = true ->
  match r2 with Some (false, rev2) => Bool.eqb reverse rev2 | _ => false end = false.
Proof.
  intros reverse [[[|] rev2]|] H; cbn in *; try reflexivity. apply negb_true_iff in H. exact H.
Qed.

Lemma chic_site_any : forall c cycles mid x reverse clip tail trimmed mx pre r2,
  good_mid mid = true -> mx_trimmed mx = trimmed ->
  r2_ok reverse r2 = true ->
  chic_fragment c pre (Some (simulate_chic cycles mid x reverse clip tail trimmed mx)) r2 =
  Done (site_obs ((if reverse then x + 1 else x - 1) + clip_shift c reverse clip)
                 (xorb reverse (c_invert c)) (xorb reverse (c_invert c)) None pre).
Proof.
  intros c cycles mid x reverse clip tail trimmed mx pre r2 Hmid Hmx Hr2.
  apply r2_ok_orient in Hr2.
  unfold simulate_chic, place_read, chic_fragment. destruct reverse.
  - cbn [r_unmapped r_rev]. rewrite Hr2. rewrite usable_wrapped by exact Hmid.
    cbn [negb r_cigar r_rev r_start r_mx]. unfold ref_end. cbn [r_start r_cigar].
    rewrite ref_span_wrapped by exact Hmid.
    change (match mx with Some mx0 => py_startswith s_scCHIC mx0 | None => false end) with (mx_trimmed mx).
    rewrite Hmx.
    cbv beta iota zeta delta [chic_site_gen].
    rewrite trail_clip_correction by exact Hmid.
    unfold site_obs.
    destruct trimmed; cbv beta iota;
      destruct (c_invert c); cbn [negb xorb]; unfold clip_shift; finish c.
  - cbn [r_unmapped r_rev]. rewrite Hr2. rewrite usable_wrapped by exact Hmid.
    cbn [negb r_cigar r_rev r_start r_mx]. unfold ref_end. cbn [r_start r_cigar].
    change (match mx with Some mx0 => py_startswith s_scCHIC mx0 | None => false end) with (mx_trimmed mx).
    rewrite Hmx.
    cbv beta iota zeta delta [chic_site_gen].
    rewrite lead_clip_correction by exact Hmid.
    unfold site_obs.
    destruct trimmed; cbv beta iota;
      destruct (c_invert c); cbn [negb xorb]; unfold clip_shift; finish c.
Qed.

Lemma chic_site : forall c cycles mid x reverse clip tail trimmed mx pre r2,
  good_mid mid = true -> mx_trimmed mx = trimmed -> (c_nocigar c = false \/ clip = 0) ->
  r2_ok reverse r2 = true ->
  chic_fragment c pre (Some (simulate_chic cycles mid x reverse clip tail trimmed mx)) r2 =
  Done (site_obs (if reverse then x + 1 else x - 1) (xorb reverse (c_invert c)) (xorb reverse (c_invert c)) None pre).
Proof.
  intros c cycles mid x reverse clip tail trimmed mx pre r2 Hmid Hmx Hclip Hr2.
  rewrite chic_site_any by assumption. rewrite (clip_shift_0 c reverse clip Hclip), Z.add_0_r. reflexivity.
Qed.

Lemma chic_site_any_h : forall c cycles mid x reverse clip tail trimmed mx pre r2 seqs,
  good_mid mid = true -> mx_trimmed mx = trimmed -> r2_ok reverse r2 = true -> any_homopolymer seqs = false ->
  chic_fragment_h c pre (Some (simulate_chic cycles mid x reverse clip tail trimmed mx)) r2 seqs =
  Done (site_obs ((if reverse then x + 1 else x - 1) + clip_shift c reverse clip)
                 (xorb reverse (c_invert c)) (xorb reverse (c_invert c)) None pre).
Proof. intros. unfold chic_fragment_h. rewrite H2. apply chic_site_any; assumption. Qed.


(* ------------------------------------------------------------------ mirror symmetry *)
Lemma usable_nonempty : forall nc s cg rv sq um mx, cg <> [] -> usable nc (mkRead s cg rv sq um mx) = true.
Proof. intros nc s cg rv sq um mx H. unfold usable. cbn [r_cigar]. destruct cg; [contradiction | reflexivity]. Qed.

Lemma rev_nonempty : forall (A : Type) (l : list A), l <> [] -> rev l <> [].
Proof. intros A l H E. apply H. rewrite <- (rev_involutive l), E. reflexivity. Qed.

Ltac mirror_finish :=
  cbv beta iota; unfold forget_rr, mirror_result, drop_rr, mirror_obs;
  cbn [o_ds o_rs o_rz o_rr o_qcfail o_valid o_loc o_cut_strand option_map negb];
  apply f_equal; apply obs_ext; try reflexivity; try (apply f_equal; lia).

Lemma nla_mirror : forall c L r pre, r_unmapped r = false -> r_cigar r <> [] ->
  forget_rr (nla_fragment c true pre (Some (mirror L r))) =
  mirror_result L 4 (nla_fragment c true pre (Some r)).
Proof.
  intros c L [s cg rv sq um mx] pre Hmap Hcg. cbn [r_unmapped r_cigar] in Hmap, Hcg. subst um.
  unfold nla_fragment, mirror. cbn [r_unmapped r_cigar r_rev r_start r_seq r_mx].
  rewrite !usable_nonempty by (try apply rev_nonempty; exact Hcg).
  cbn [negb]. unfold ref_end. cbn [r_start r_cigar]. rewrite ref_span_rev.
  unfold first_op, last_op. rewrite hd_rev_last, last_rev_hd.
  set (fo := fst (hd (0, 0) cg)). set (fl := snd (hd (0, 0) cg)).
  set (lo := fst (last cg (0, 0))). set (ll := snd (last cg (0, 0))).
  set (w := ref_span cg).
  cbv beta iota zeta delta [nla_site_gen].
  change [67; 65; 84; 71] with CATG. change [65; 84; 71] with ATG. change [67; 65; 84] with CAT.
  rewrite prefix_revcomp, suffix_revcomp, !eq_CATG_revcomp.
  rewrite startswith_ATG_revcomp, endswith_CAT_revcomp.
  destruct rv; cbn [negb]; rewrite ?andb_false_r, ?andb_true_r; cbn [orb andb].
  - destruct (c_check_motif c), (c_allow_shift c), (c_invert c), (c_nocigar c),
      (str_eqb (py_suffix 4 sq) CATG), (py_endswith CAT (py_suffix 4 sq)), (lo =? 4);
      cbn [negb orb andb]; mirror_finish.
  - destruct (c_check_motif c), (c_allow_shift c), (c_invert c), (c_nocigar c),
      (str_eqb (py_prefix 4 sq) CATG), (py_startswith ATG (py_prefix 4 sq)), (fo =? 4);
      cbn [negb orb andb]; mirror_finish.
Qed.

Lemma chic_mirror : forall c L r pre r2, r_unmapped r = false -> r_cigar r <> [] ->
  forget_rr (chic_fragment c pre (Some (mirror L r)) (mirror_r2 r2)) =
  mirror_result L 1 (chic_fragment c pre (Some r) r2).
Proof.
  intros c L [s cg rv sq um mx] pre r2 Hmap Hcg. cbn [r_unmapped r_cigar] in Hmap, Hcg. subst um.
  unfold chic_fragment, mirror. cbn [r_unmapped r_cigar r_rev r_start r_seq r_mx].
  assert (Ho : match mirror_r2 r2 with Some (false, rev2) => Bool.eqb (negb rv) rev2 | _ => false end
               = match r2 with Some (false, rev2) => Bool.eqb rv rev2 | _ => false end).
  { destruct r2 as [[[|] rv2]|]; cbn [mirror_r2]; try reflexivity. destruct rv, rv2; reflexivity. }
  rewrite Ho. clear Ho.
  destruct (match r2 with Some (false, rev2) => Bool.eqb rv rev2 | _ => false end); [reflexivity|].
  rewrite !usable_nonempty by (try apply rev_nonempty; exact Hcg).
  cbn [negb]. unfold ref_end. cbn [r_start r_cigar]. rewrite ref_span_rev.
  unfold first_op, last_op. rewrite hd_rev_last, last_rev_hd.
  set (fo := fst (hd (0, 0) cg)). set (fl := snd (hd (0, 0) cg)).
  set (lo := fst (last cg (0, 0))). set (ll := snd (last cg (0, 0))).
  set (w := ref_span cg).
  set (tr := match mx with Some mx0 => py_startswith s_scCHIC mx0 | None => false end).
  cbv beta iota zeta delta [chic_site_gen].
  destruct rv; cbn [negb].
  - destruct tr, (c_invert c), (c_nocigar c), (lo =? 4); cbn [negb]; mirror_finish.
  - destruct tr, (c_invert c), (c_nocigar c), (fo =? 4); cbn [negb]; mirror_finish.
Qed.

Lemma mirror_invol : forall L r, mirror L (mirror L r) = r.
Proof.
  intros L [s cg rv sq um mx]. unfold mirror, ref_end. cbn [r_start r_cigar r_rev r_seq r_unmapped r_mx].
  rewrite ref_span_rev, rev_involutive, revcomp_invol, negb_involutive. f_equal. lia.
Qed.

(* the simulator itself is strand-symmetric: mirroring a simulated read is simulating the mirrored cut *)
Lemma rev_softclip : forall k, rev (softclip k) = softclip k.
Proof. intro k. unfold softclip. destruct (k =? 0); reflexivity. Qed.

Lemma rev_wrapped : forall a mid b, rev (softclip a ++ mid ++ softclip b) = softclip b ++ rev mid ++ softclip a.
Proof. intros. rewrite !rev_app_distr, !rev_softclip, app_assoc. reflexivity. Qed.

Lemma good_mid_rev : forall mid, good_mid mid = true -> good_mid (rev mid) = true.
Proof.
  intros mid H. unfold good_mid in *. apply andb_true_iff in H. destruct H as [H1 H2].
  rewrite ref_len_rev, H1. cbn [andb]. apply forallb_forall. intros o Ho. apply in_rev in Ho.
  rewrite forallb_forall in H2. exact (H2 o Ho).
Qed.

Lemma sim_nla_mirror : forall L cycles mid p reverse clip tail lost, good_mid mid = true ->
  mirror L (simulate_nla cycles mid p reverse clip tail lost) =
  simulate_nla cycles (rev mid) (L - 4 - p) (negb reverse) clip tail lost.
Proof.
  intros L cycles mid p reverse clip tail lost Hmid.
  unfold simulate_nla, place_read, mirror, ref_end.
  destruct reverse; cbn [negb r_start r_cigar r_rev r_seq r_unmapped r_mx];
    rewrite ref_span_wrapped by exact Hmid; rewrite rev_wrapped, ?revcomp_invol, ?ref_len_rev;
    f_equal; destruct lost; lia.
Qed.

Lemma sim_chic_mirror : forall L cycles mid x reverse clip tail trimmed mx, good_mid mid = true ->
  mirror L (simulate_chic cycles mid x reverse clip tail trimmed mx) =
  simulate_chic cycles (rev mid) (L - 1 - x) (negb reverse) clip tail trimmed mx.
Proof.
  intros L cycles mid x reverse clip tail trimmed mx Hmid.
  unfold simulate_chic, place_read, mirror, ref_end.
  destruct reverse; cbn [negb r_start r_cigar r_rev r_seq r_unmapped r_mx];
    rewrite ref_span_wrapped by exact Hmid; rewrite rev_wrapped, ?revcomp_invol, ?ref_len_rev;
    f_equal; destruct trimmed; lia.
Qed.

(* ------------------------------------------------------------------ molecules: mirror symmetry *)
Lemma mol_fold_mirror : forall L w rest cur,
  fold_left mol_update (map (mirror_frag L w) rest) (L - w - cur) = L - w - fold_left mol_update rest cur.
Proof.
  intros L w rest. induction rest as [|f rest IH]; intro cur; [reflexivity|].
  cbn [map fold_left]. rewrite <- IH. f_equal.
  unfold mol_update, mirror_frag. cbn [fst snd]. destruct (fst f); cbn [negb]; lia.
Qed.

Lemma mol_site_mirror : forall L w frags,
  mol_site (map (mirror_frag L w) frags) = option_map (fun s => L - w - s) (mol_site frags).
Proof.
  intros L w [|f rest]; [reflexivity|]. cbn [map mol_site option_map]. f_equal.
  unfold mirror_frag at 2. cbn [snd]. apply mol_fold_mirror.
Qed.

Lemma chic_mol_ds_mirror : forall L w radius frags,
  chic_mol_ds radius (map (mirror_frag L w) frags) = map (fun s => L - w - s) (chic_mol_ds radius frags).
Proof.
  intros L w radius frags. unfold chic_mol_ds. rewrite map_length, mol_site_mirror.
  destruct ((0 <? radius) && (1 <? Z.of_nat (length frags))).
  - destruct (mol_site frags); cbn [option_map]; [|reflexivity]. rewrite !map_map. reflexivity.
  - rewrite !map_map. reflexivity.
Qed.

Lemma frag_site_forget : forall x, frag_site (forget_rr x) = frag_site x.
Proof. intros [|o]; reflexivity. Qed.

Lemma frag_site_mirror : forall L w x, frag_site (mirror_result L w x) = map (mirror_frag L w) (frag_site x).
Proof.
  intros L w [|o]; [reflexivity|]. unfold mirror_result, drop_rr, mirror_obs, frag_site.
  cbn [o_cut_strand o_loc]. destruct (o_cut_strand o), (o_loc o); reflexivity.
Qed.

Definition mappable (r : read) : Prop := r_unmapped r = false /\ r_cigar r <> [].

Lemma chic_frag_sites_mirror : forall c L rs, Forall mappable rs ->
  chic_frag_sites c (map (mirror L) rs) = map (mirror_frag L 1) (chic_frag_sites c rs).
Proof.
  intros c L rs H. induction H as [|r rs [Hm Hc] _ IH]; [reflexivity|].
  unfold chic_frag_sites in *. cbn [map flat_map]. rewrite map_app, IH. f_equal.
  rewrite <- frag_site_mirror, <- frag_site_forget.
  rewrite <- (chic_mirror c L r false None Hm Hc). reflexivity.
Qed.

Lemma nla_frag_sites_mirror : forall c L rs, Forall mappable rs ->
  nla_frag_sites c (map (mirror L) rs) = map (mirror_frag L 4) (nla_frag_sites c rs).
Proof.
  intros c L rs H. induction H as [|r rs [Hm Hc] _ IH]; [reflexivity|].
  unfold nla_frag_sites in *. cbn [map flat_map]. rewrite map_app, IH. f_equal.
  rewrite <- frag_site_mirror, <- frag_site_forget.
  rewrite <- (nla_mirror c L r false Hm Hc). reflexivity.
Qed.

Lemma chic_molecule_mirror : forall c L radius rs, Forall mappable rs ->
  chic_mol_ds radius (chic_frag_sites c (map (mirror L) rs)) =
  map (fun s => L - 1 - s) (chic_mol_ds radius (chic_frag_sites c rs)).
Proof. intros. rewrite chic_frag_sites_mirror by assumption. apply chic_mol_ds_mirror. Qed.

Lemma nla_molecule_mirror : forall c L rs, Forall mappable rs ->
  mol_site (nla_frag_sites c (map (mirror L) rs)) =
  option_map (fun s => L - 4 - s) (mol_site (nla_frag_sites c rs)).
Proof. intros. rewrite nla_frag_sites_mirror by assumption. apply mol_site_mirror. Qed.

(* the molecule site is the outermost fragment site: min on the forward strand, max on the reverse strand *)
Lemma mol_fold_forward : forall rest cur, Forall (fun f => fst f = false) rest ->
  fold_left mol_update rest cur = fold_left Z.min (map snd rest) cur.
Proof.
  induction rest as [|f rest IH]; intros cur H; [reflexivity|]. inversion H as [|? ? Hf Hr]; subst.
  cbn [map fold_left]. rewrite IH by exact Hr. unfold mol_update. rewrite Hf. rewrite Z.min_comm. reflexivity.
Qed.

Lemma mol_fold_reverse : forall rest cur, Forall (fun f => fst f = true) rest ->
  fold_left mol_update rest cur = fold_left Z.max (map snd rest) cur.
Proof.
  induction rest as [|f rest IH]; intros cur H; [reflexivity|]. inversion H as [|? ? Hf Hr]; subst.
  cbn [map fold_left]. rewrite IH by exact Hr. unfold mol_update. rewrite Hf. rewrite Z.max_comm. reflexivity.
Qed.

(* ------------------------------------------------------------------ homopolymer filter: strand symmetry *)
Lemma startswith_iff : forall p s, py_startswith p s = true <-> exists b, s = p ++ b.
Proof.
  intros p s. unfold py_startswith, py_prefix. rewrite str_eqb_eq. split.
  - intro H. exists (skipn (length p) s). rewrite <- H at 1. symmetry. apply firstn_skipn.
  - intros [b ->]. rewrite firstn_app, firstn_all, Nat.sub_diag. cbn [firstn]. apply app_nil_r.
Qed.

Lemma contains_iff : forall p s, py_contains p s = true <-> exists a b, s = a ++ p ++ b.
Proof.
  intros p s. induction s as [|x s IH]; cbn [py_contains]; rewrite orb_true_iff.
  - split.
    + intros [H | H]; [|discriminate]. apply startswith_iff in H. destruct H as [b H]. exists [], b. exact H.
    + intros [a [b H]]. left. apply startswith_iff.
      destruct a; [exists b; exact H | discriminate H].
  - split.
    + intros [H | H].
      * apply startswith_iff in H. destruct H as [b H]. exists [], b. exact H.
      * apply IH in H. destruct H as [a [b ->]]. exists (x :: a), b. reflexivity.
    + intros [a [b H]]. destruct a as [|y a].
      * left. apply startswith_iff. exists b. exact H.
      * right. apply IH. inversion H; subst. exists a, b. reflexivity.
Qed.

Lemma revcomp_app : forall a b, revcomp (a ++ b) = revcomp b ++ revcomp a.
Proof. intros. unfold revcomp. rewrite map_app, rev_app_distr. reflexivity. Qed.

Lemma rev_repeat : forall (A : Type) (x : A) n, rev (repeat x n) = repeat x n.
Proof.
  intros A x n. induction n as [|n IH]; [reflexivity|].
  cbn [repeat rev]. rewrite IH. clear IH. induction n as [|n IH]; [reflexivity|].
  cbn [repeat app]. rewrite IH. reflexivity.
Qed.

Lemma revcomp_repeat : forall b n, revcomp (repeat b n) = repeat (comp b) n.
Proof.
  intros b n. unfold revcomp. rewrite <- (rev_repeat Z (comp b) n). f_equal.
  induction n as [|n IH]; [reflexivity|]. cbn [repeat map]. rewrite IH. reflexivity.
Qed.

Lemma contains_revcomp : forall p s, py_contains (revcomp p) (revcomp s) = py_contains p s.
Proof.
  intros p s. apply eq_true_iff_eq. rewrite !contains_iff. split.
  - intros [a [b H]]. exists (revcomp b), (revcomp a).
    rewrite <- (revcomp_invol s), H, !revcomp_app, revcomp_invol, <- app_assoc. reflexivity.
  - intros [a [b ->]]. exists (revcomp b), (revcomp a). rewrite !revcomp_app, <- app_assoc. reflexivity.
Qed.

(* the filter is strand-symmetric as soon as the tested nucleotides are closed under complement *)
Definition comp_closed (bases : list Z) : bool :=
  forallb (fun b => existsb (Z.eqb (comp b)) bases) bases.

Lemma homopolymer_revcomp_le : forall n bases s, comp_closed bases = true ->
  homopolymer n bases s = true -> homopolymer n bases (revcomp s) = true.
Proof.
  intros n bases s Hc H. unfold homopolymer in *. apply existsb_exists in H. destruct H as [b [Hb Hrun]].
  unfold comp_closed in Hc. rewrite forallb_forall in Hc. specialize (Hc b Hb).
  apply existsb_exists in Hc. destruct Hc as [b' [Hb' E]]. apply Z.eqb_eq in E. subst b'.
  apply existsb_exists. exists (comp b). split; [exact Hb'|].
  rewrite <- revcomp_repeat, contains_revcomp. exact Hrun.
Qed.

Lemma homopolymer_revcomp : forall n bases s, comp_closed bases = true ->
  homopolymer n bases (revcomp s) = homopolymer n bases s.
Proof.
  intros n bases s Hc. apply eq_true_iff_eq. split; intro H.
  - rewrite <- (revcomp_invol s). apply homopolymer_revcomp_le; assumption.
  - apply homopolymer_revcomp_le; assumption.
Qed.

Lemma bases_closed : comp_closed nuc_stretch_bases = true.
Proof. vm_compute. reflexivity. Qed.

Lemma any_homopolymer_mirror : forall seqs, any_homopolymer (map revcomp seqs) = any_homopolymer seqs.
Proof.
  intro seqs. unfold any_homopolymer. induction seqs as [|s seqs IH]; [reflexivity|].
  cbn [map existsb]. rewrite IH, (homopolymer_revcomp _ _ s bases_closed). reflexivity.
Qed.

Lemma chic_mirror_h : forall c L r pre r2 seqs, r_unmapped r = false -> r_cigar r <> [] ->
  forget_rr (chic_fragment_h c pre (Some (mirror L r)) (mirror_r2 r2) (map revcomp seqs)) =
  mirror_result L 1 (chic_fragment_h c pre (Some r) r2 seqs).
Proof.
  intros c L r pre r2 seqs Hm Hc. unfold chic_fragment_h. rewrite any_homopolymer_mirror.
  destruct (any_homopolymer seqs); [|apply chic_mirror; assumption].
  pose proof (chic_mirror c L r true r2 Hm Hc) as H.
  destruct (chic_fragment c true (Some r) r2) as [|o];
    destruct (chic_fragment c true (Some (mirror L r)) (mirror_r2 r2)) as [|o']; cbn in H |- *;
    try discriminate H; try reflexivity.
  inversion H as [H1]. f_equal.
  destruct o as [a1 a2 a3 a4 a5 a6 a7 a8], o' as [b1 b2 b3 b4 b5 b6 b7 b8].
  clear H. unfold drop_rr, mirror_obs, mark_homo in *.
  cbn [o_ds o_rs o_rz o_rr o_qcfail o_valid o_loc o_cut_strand] in *. subst. reflexivity.
Qed.

Lemma chic_site_h : forall c cycles mid x reverse clip tail trimmed mx pre r2 seqs,
  good_mid mid = true -> mx_trimmed mx = trimmed -> (c_nocigar c = false \/ clip = 0) ->
  r2_ok reverse r2 = true -> any_homopolymer seqs = false ->
  chic_fragment_h c pre (Some (simulate_chic cycles mid x reverse clip tail trimmed mx)) r2 seqs =
  Done (site_obs (if reverse then x + 1 else x - 1) (xorb reverse (c_invert c)) (xorb reverse (c_invert c)) None pre).
Proof. intros. unfold chic_fragment_h. rewrite H3. apply chic_site; assumption. Qed.

Lemma chic_homopolymer_invalid : forall c pre r1 r2 seqs o, any_homopolymer seqs = true ->
  chic_fragment_h c pre r1 r2 seqs = Done o -> o_valid o = false /\ o_qcfail o = true.
Proof.
  intros c pre r1 r2 seqs o Hh H. unfold chic_fragment_h in H. rewrite Hh in H.
  destruct (chic_fragment c true r1 r2) as [|o0] eqn:E; [discriminate|]. inversion H; subst. clear H.
  split; [|reflexivity]. cbn [mark_homo o_valid].
  unfold chic_fragment in E. destruct r1 as [r|]; [|inversion E; reflexivity].
  destruct (r_unmapped r); [inversion E; reflexivity|].
  destruct (match r2 with Some (false, rev2) => Bool.eqb (r_rev r) rev2 | _ => false end); [inversion E; reflexivity|].
  destruct (negb (usable (c_nocigar c) r)); [discriminate|].
  destruct (chic_site_gen _ _ _ _ _ _ _ _ _ _) as [[[[[[a b] d] e] f] g] h]. inversion E; reflexivity.
Qed.
