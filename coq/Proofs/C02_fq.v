(* C02 - lemmas about the file-level stream (Model/C02Fq.v) and its composition with the per-read theorems *)
From Coq Require Import ZArith List Bool Lia.
Import ListNotations.
From SCMO Require Import Model.C02Defs Model.C02Fq Proofs.C02_b.
Open Scope Z_scope.

Lemma skipn_skipn' (b : nat) : forall (a : nat) (l : list (list Z)), skipn a (skipn b l) = skipn (b + a) l.
Proof.
  induction b as [|b IH]; intros a l; [reflexivity|].
  destruct l as [|x l]; cbn [skipn plus]; [destruct a; reflexivity | apply IH].
Qed.

Lemma skipn_advance (k : nat) (ls : list (list Z)) : skipn (4 * k) (advance ls) = skipn (4 * S k) ls.
Proof. unfold advance. rewrite skipn_skipn'. f_equal. lia. Qed.

(* the records of line-group k of every file *)
Definition group (files : list (list (list Z))) (k : nat) : list frec :=
  map (fun ls => read_rec (skipn (4 * k) ls)) files.

Lemma group_advance files k : group (map advance files) k = group files (S k).
Proof. unfold group. rewrite map_map. apply map_ext. intros ls. now rewrite skipn_advance. Qed.

Lemma group_0 files : group files 0 = map read_rec files.
Proof. unfold group. apply map_ext. intros ls. reflexivity. Qed.

(* framing: the k-th tuple is made of lines 4k .. 4k+3 of every file, whatever was before *)
Lemma fq_iter_nth fuel : forall files k tup,
  nth_error (fq_iter fuel files) k = Some tup -> tup = group files k.
Proof.
  induction fuel as [|f IH]; intros files k tup H; cbn [fq_iter] in H.
  - destruct k; discriminate.
  - destruct (existsb hdr_empty (map read_rec files)) eqn:E.
    + destruct k; discriminate.
    + destruct k as [|k]; cbn [nth_error] in H.
      * inversion H. now rewrite group_0.
      * apply IH in H. now rewrite group_advance in H.
Qed.

Lemma nth_skipn_lines (ls : list (list Z)) m j : nth j (skipn m ls) [] = nth (m + j) ls [].
Proof.
  revert ls. induction m as [|m IH]; intros ls; [reflexivity|].
  destruct ls as [|a ls]; cbn [skipn plus nth]; [destruct j; reflexivity | apply IH].
Qed.

Lemma read_rec_lines ls k :
  read_rec (skipn (4 * k) ls) =
  mkF (rstrip (nth (4 * k) ls [])) (rstrip (nth (4 * k + 1) ls []))
      (rstrip (nth (4 * k + 2) ls [])) (rstrip (nth (4 * k + 3) ls [])).
Proof. unfold read_rec. rewrite !nth_skipn_lines. now rewrite Nat.add_0_r. Qed.

Lemma fq_iter_record fuel files k tup i ls r :
  nth_error (fq_iter fuel files) k = Some tup -> nth_error files i = Some ls -> nth_error tup i = Some r ->
  f_header r = rstrip (nth (4 * k) ls []) /\ f_seq r = rstrip (nth (4 * k + 1) ls []) /\
  f_plus r = rstrip (nth (4 * k + 2) ls []) /\ f_qual r = rstrip (nth (4 * k + 3) ls []).
Proof.
  intros H Hl Hr. apply fq_iter_nth in H. subst tup. unfold group in Hr.
  rewrite nth_error_map, Hl in Hr. cbn [option_map] in Hr. assert (Er : r = read_rec (skipn (4 * k) ls)) by congruence. rewrite Er, read_rec_lines. cbn [f_header f_seq f_plus f_qual]. auto.
Qed.

(* a tuple is produced only if every header of its group is non-blank *)
Definition group_ok (files : list (list (list Z))) (k : nat) : bool := negb (existsb hdr_empty (group files k)).

(* count: n groups with non-blank headers in every file, group n blank/absent in some file -> exactly
   the n tuples, in order *)
Lemma fq_iter_exact fuel : forall files n,
  (forall k, (k < n)%nat -> group_ok files k = true) -> (n < fuel)%nat -> group_ok files n = false ->
  fq_iter fuel files = map (group files) (seq 0 n).
Proof.
  induction fuel as [|f IH]; intros files n Hok Hf Hstop; [lia|].
  cbn [fq_iter]. rewrite <- group_0. destruct n as [|n].
  - unfold group_ok in Hstop. apply negb_false_iff in Hstop. rewrite Hstop. reflexivity.
  - pose proof (Hok 0%nat ltac:(lia)) as H0. unfold group_ok in H0. apply negb_true_iff in H0. rewrite H0.
    cbn [seq map]. f_equal. rewrite <- seq_shift, map_map.
    rewrite (IH (map advance files) n).
    + apply map_ext. intros k. apply group_advance.
    + intros k Hk. unfold group_ok. rewrite group_advance. apply (Hok (S k)). lia.
    + lia.
    + unfold group_ok. rewrite group_advance. exact Hstop.
Qed.

Lemma fq_iter_count fuel files n :
  (forall k, (k < n)%nat -> group_ok files k = true) -> (n < fuel)%nat -> group_ok files n = false ->
  length (fq_iter fuel files) = n.
Proof. intros. rewrite (fq_iter_exact fuel files n) by assumption. now rewrite map_length, seq_length. Qed.

Lemma fq_iter_fuel_irrelevant fuel fuel' files n :
  (forall k, (k < n)%nat -> group_ok files k = true) -> group_ok files n = false ->
  (n < fuel)%nat -> (n < fuel')%nat -> fq_iter fuel files = fq_iter fuel' files.
Proof. intros. rewrite (fq_iter_exact fuel files n), (fq_iter_exact fuel' files n) by assumption. reflexivity. Qed.

(* ---- rstrip ---- *)
Lemma rstrip_cons_nonws c t : is_ws c = false -> rstrip (c :: t) = c :: rstrip t.
Proof. intros H. cbn [rstrip]. rewrite H. destruct (rstrip t); reflexivity. Qed.

Lemma rstrip_app_ws l c : is_ws c = true -> rstrip (l ++ [c]) = rstrip l.
Proof.
  intros H. induction l as [|a l IH]; cbn [app rstrip].
  - now rewrite H.
  - now rewrite IH.
Qed.

Lemma rstrip_nil_iff_head c t : is_ws c = false -> rstrip (c :: t) <> [].
Proof. intros H. rewrite rstrip_cons_nonws by assumption. discriminate. Qed.

(* ---- trailing incomplete group, single file: silently emitted with the missing fields EMPTY ---- *)
Lemma fq_truncated fuel ls n j :
  length ls = (4 * n + j)%nat -> (1 <= j <= 3)%nat ->
  (forall k, (k <= n)%nat -> rstrip (nth (4 * k) ls []) <> []) -> (S n < fuel)%nat ->
  length (fq_iter fuel [ls]) = S n /\
  exists r, nth_error (fq_iter fuel [ls]) n = Some [r] /\ f_qual r = [] /\ f_header r <> [].
Proof.
  intros Hlen Hj Hh Hf.
  assert (Hok : forall k, (k < S n)%nat -> group_ok [ls] k = true).
  { intros k Hk. unfold group_ok, group. cbn [map existsb]. rewrite read_rec_lines. unfold hdr_empty. cbn [f_header].
    specialize (Hh k ltac:(lia)). destruct (rstrip (nth (4 * k) ls [])); [congruence|reflexivity]. }
  assert (Hstop : group_ok [ls] (S n) = false).
  { unfold group_ok, group. cbn [map existsb]. rewrite read_rec_lines. unfold hdr_empty. cbn [f_header].
    rewrite (nth_overflow ls) by lia. reflexivity. }
  rewrite (fq_iter_exact fuel [ls] (S n) Hok Hf Hstop). split.
  - now rewrite map_length, seq_length.
  - exists (read_rec (skipn (4 * n) ls)). split; [|split].
    + rewrite nth_error_map. rewrite nth_error_nth' with (d := 0%nat) by (rewrite seq_length; lia).
      rewrite seq_nth by lia. reflexivity.
    + rewrite read_rec_lines. cbn [f_qual]. rewrite (nth_overflow ls) by lia. reflexivity.
    + rewrite read_rec_lines. cbn [f_header]. apply Hh. lia.
Qed.

(* ---- write then read ---- *)
Definition clean (l : list Z) : Prop := rstrip l = l.

Lemma read_written h s p q rest :
  clean h -> clean s -> clean p -> clean q ->
  read_rec (write_rec h s p q ++ rest) = mkF (64 :: h) s p q.
Proof.
  unfold clean, read_rec, write_rec. intros Hh Hs Hp Hq. cbn [app nth].
  change (64 :: h ++ [10]) with ((64 :: h) ++ [10]).
  rewrite !rstrip_app_ws by reflexivity. rewrite rstrip_cons_nonws by reflexivity. congruence.
Qed.

Definition clean4 (r : list Z * list Z * list Z * list Z) : Prop :=
  match r with (h, s, p, q) => clean h /\ clean s /\ clean p /\ clean q end.
Definition written (r : list Z * list Z * list Z * list Z) : frec :=
  match r with (h, s, p, q) => mkF (64 :: h) s p q end.

Lemma fq_roundtrip recs : forall fuel,
  Forall clean4 recs -> (length recs < fuel)%nat ->
  fq_iter fuel [fq_write recs] = map (fun r => [written r]) recs.
Proof.
  induction recs as [|[[[h s] p] q] recs IH]; intros fuel Hc Hf.
  - destruct fuel; [reflexivity|]. reflexivity.
  - destruct fuel as [|f]; [cbn in Hf; lia|]. inversion Hc as [|x l Hx Hc']; subst. unfold clean4 in Hx. destruct Hx as (Hh & Hs & Hp & Hq).
    cbn [fq_iter map]. unfold fq_write. cbn [flat_map]. fold (fq_write recs).
    rewrite read_written by assumption. cbn [existsb hdr_empty f_header orb].
    cbn [map written]. f_equal. unfold advance, write_rec. cbn [app skipn].
    apply IH; [assumption | cbn in Hf; lia].
Qed.

(* ---- end to end: lines of the input files -> bases of the emitted records ---- *)
Lemma file_to_record fuel files k tup P b lookup out i ls o :
  nth_error (fq_iter fuel files) k = Some tup ->
  expected P b lookup (map mate_of tup) = Some out ->
  nth_error files i = Some ls -> nth_error out i = Some o ->
  (forall j, nth_error (o_seq o) j = nth_error (rstrip (nth (4 * k + 1) ls [])) (ins_of P i + j)) /\
  (forall j, nth_error (o_qual o) j = nth_error (rstrip (nth (4 * k + 3) ls [])) (ins_of P i + j)).
Proof.
  intros Hk He Hl Ho. pose proof (fq_iter_nth _ _ _ _ Hk) as Ht.
  assert (Hr : nth_error tup i = Some (read_rec (skipn (4 * k) ls))).
  { subst tup. unfold group. now rewrite nth_error_map, Hl. }
  assert (Hm : nth_error (map mate_of tup) i = Some (mate_of (read_rec (skipn (4 * k) ls)))).
  { now rewrite nth_error_map, Hr. }
  destruct (emitted_aligned _ _ _ _ _ _ _ _ He Hm Ho) as (Hs & Hq & _).
  rewrite read_rec_lines in Hs, Hq. cbn in Hs, Hq. split; assumption.
Qed.
