(* C18 proofs, extension part b: state-machine refinement of the region-restricted resolver.  Along any history of runs
   (each with its own settings, mode flags and window) sharing one cache directory, every answer is the specification
   of Model/C18.v evaluated on the records the run can see (spec_run_x) - provided two runs that go through the same
   cache file use the same window (hist_ok_x). *)
From Coq Require Import ZArith List Bool Lia Permutation Sorting.Sorted.
Import ListNotations.
From SCMO Require Import Lib.Val Gen.GenAlleles Model.C18 Model.C18x Proofs.C18_s Proofs.C18_a Proofs.C18_b Proofs.C18_c Proofs.C18_d Proofs.C18_e Proofs.C18 Proofs.C18x_a.
Open Scope Z_scope.

Lemma oz_eqb_eq a b : oz_eqb a b = true -> a = b.
Proof. destruct a, b; cbn; try discriminate; [|reflexivity]. intros H. apply Z.eqb_eq in H. congruence. Qed.
Lemma win_eqb_eq a b : win_eqb a b = true -> a = b.
Proof.
  unfold win_eqb. rewrite andb_true_iff. intros [A B]. apply oz_eqb_eq in A, B. destruct a, b. cbn in *. congruence.
Qed.
Lemma win_eqb_refl a : win_eqb a a = true.
Proof. unfold win_eqb, oz_eqb. destruct (w_start a), (w_end a); rewrite ?Z.eqb_refl; reflexivity. Qed.

Lemma same_sem_sym a b : same_sem a b = true -> same_sem b a = true.
Proof.
  unfold same_sem. rewrite !andb_true_iff. intros [[P S] I]. split; [split|].
  - apply eqb_prop in P. rewrite P. apply eqb_reflx.
  - unfold sel_same in *. destruct (c_select a), (c_select b); try discriminate; [|reflexivity].
    rewrite !andb_true_iff in *. destruct S as [[L A] B]. apply Nat.eqb_eq in L. rewrite L, Nat.eqb_refl. auto.
  - unfold ign_same in *. rewrite andb_true_iff in *. tauto.
Qed.

(* the positions a contig table holds: the sentinel, or a record the run could see *)
Lemma CT_amem_pos v cf c p : vcf_ok v = true -> 0 <= p -> amem Z.eqb (CT v cf c) p = true -> exists r, spec_rec v cf c p = Some r.
Proof.
  intros Hv Hp. unfold amem, CT. rewrite <- lookup2_getd, contig_table_lookup by assumption.
  destruct (spec_rec v cf c p) as [r|]; [eauto|discriminate].
Qed.

Section RefineX.
  Variable v : vcf.
  Hypothesis Hv : vcf_ok v = true.
  Variable ks : list (xcfg * str).
  Hypothesis Hks : names_ok_x ks = true.

  Definition CTx (xc : xcfg) (c : str) : ctable := CT (wv v (x_win xc)) (x_cf xc) c.

  Lemma Hwv w : vcf_ok (wv v w) = true.
  Proof. apply vcf_ok_wv, Hv. Qed.
  Lemma CTx_wf xc c : ct_wf (CTx xc c).
  Proof. unfold CTx, CT. apply tbl_wf_getd, contig_table_wf, Hwv. Qed.

  Lemma names_inj_x k1 k2 : In k1 ks -> In k2 ks ->
    cache_name (x_cf (fst k1)) (snd k1) = cache_name (x_cf (fst k2)) (snd k2) ->
    snd k1 = snd k2 /\ same_sem (x_cf (fst k1)) (x_cf (fst k2)) = true /\
    (c_cache (x_cf (fst k1)) = true -> c_cache (x_cf (fst k2)) = true -> x_win (fst k1) = x_win (fst k2)).
  Proof.
    intros H1 H2 E. unfold names_ok_x in Hks. rewrite forallb_forall in Hks. specialize (Hks k1 H1).
    rewrite forallb_forall in Hks. specialize (Hks k2 H2). rewrite E, seqb_refl in Hks. cbn [negb orb] in Hks.
    rewrite !andb_true_iff in Hks. destruct Hks as [[A B] C]. apply seqb_eq in A. split; [exact A|]. split; [exact B|].
    intros C1 C2. rewrite C1, C2 in C. cbn [negb orb] in C. apply win_eqb_eq, C.
  Qed.

  Definition good_ct_x (xc : xcfg) (c : str) (ct : ctable) : Prop :=
    forall p, qpos_ok xc p = true ->
      amem Z.eqb ct p = amem Z.eqb (CTx xc c) p /\ forall b, look3 ct p b = look3 (CTx xc c) p b.
  Definition fs_ok_x (fs : fsys) : Prop :=
    forall name content, aget seqb fs name = Some content ->
      exists k, In k ks /\ c_cache (x_cf (fst k)) = true /\ win_valid (x_win (fst k)) = true
                /\ name = cache_name (x_cf (fst k)) (snd k) /\ content = serialise (CTx (fst k) (snd k)).
  Definition st_ok_x (xc : xcfg) (st : table * fsys) : Prop :=
    fs_ok_x (snd st) /\ forall c, amem seqb (fst st) c = true -> good_ct_x xc c (getd seqb (fst st) c).

  Lemma good_ct_x_refl xc c : good_ct_x xc c (CTx xc c).
  Proof. intros p _. split; reflexivity. Qed.

  Lemma qpos_ok_nonneg xc p : qpos_ok xc p = true -> 0 <= p.
  Proof. unfold qpos_ok. rewrite andb_true_iff, Z.leb_le. tauto. Qed.
  Lemma qpos_ok_skip xc p : qpos_ok xc p = true -> c_cache (x_cf xc) = true -> skipb (x_win xc) p = false.
  Proof. unfold qpos_ok. rewrite andb_true_iff. intros [_ H] C. rewrite C in H. cbn in H. apply negb_true_iff, H. Qed.

  Lemma good_ct_x_get xc c ct p b : good_ct_x xc c ct -> qpos_ok xc p = true ->
    ans_get ct p b = site_answer (wv v (x_win xc)) (x_cf xc) (QGet c p b).
  Proof.
    intros H Hp. destruct (H p Hp) as [_ L]. unfold CTx in L. rewrite <- CT_get; [|apply Hwv|apply (qpos_ok_nonneg xc), Hp].
    unfold ans_get. rewrite L. reflexivity.
  Qed.
  Lemma good_ct_x_has xc c ct p : good_ct_x xc c ct -> qpos_ok xc p = true ->
    ans_has ct p = site_answer (wv v (x_win xc)) (x_cf xc) (QHas c p).
  Proof.
    intros H Hp. destruct (H p Hp) as [M _]. unfold CTx in M. rewrite <- CT_has; [|apply Hwv|apply (qpos_ok_nonneg xc), Hp].
    unfold ans_has. rewrite M. reflexivity.
  Qed.

  (* nothing in the table of an acceptable window lies beyond region_end *)
  Lemma CTx_no_stop xc c p : win_valid (x_win xc) = true -> amem Z.eqb (CTx xc c) p = true -> stopb (x_win xc) p = false.
  Proof.
    intros Hw Hm. rewrite stopb_shape. destruct (w_end (x_win xc)) as [e|] eqn:E; [|reflexivity].
    pose proof (win_valid_bounds _ Hw) as (B0 & _ & _ & B1). unfold win_hi in B1. rewrite E in B1. cbn [oz] in B1.
    rewrite Z.gtb_ltb. apply Z.ltb_ge. destruct (Z_lt_le_dec p 0) as [Hn|Hn]; [lia|].
    unfold CTx in Hm. apply CT_amem_pos in Hm; [|apply Hwv|exact Hn]. destruct Hm as (r & Hr).
    unfold wv in Hr. rewrite Hw in Hr. apply spec_rec_vwin_some in Hr. unfold win_hi in Hr. rewrite E in Hr. cbn [oz] in Hr. lia.
  Qed.

  Lemma fetch_lazy_x_ok xc fs c : fs_ok_x fs -> In (xc, c) ks ->
    fs_ok_x (snd (fetch_lazy_x v xc fs c)) /\ only_key c (fst (fetch_lazy_x v xc fs c))
    /\ good_ct_x xc c (getd seqb (fst (fetch_lazy_x v xc fs c)) c).
  Proof.
    intros Hfs Hk. unfold fetch_lazy_x.
    destruct (if c_cache (x_cf xc) && cacheable c then aget seqb fs (cache_name (x_cf xc) c) else None) as [content|] eqn:E.
    - (* served from the cache file *)
      destruct (c_cache (x_cf xc) && cacheable c) eqn:Hc; [|discriminate].
      apply andb_true_iff in Hc. destruct Hc as [Hc _].
      destruct (Hfs _ _ E) as (k & Hkin & Hkc & Hkw & En & Ec).
      destruct (names_inj_x (xc, c) k Hk Hkin En) as (Ec' & Hsem & Hwin). cbn [fst snd] in Ec', Hsem, Hwin.
      specialize (Hwin Hc Hkc).
      assert (ECT : CTx (fst k) (snd k) = CTx xc c).
      { unfold CTx, CT. rewrite <- Ec', <- Hwin. rewrite (same_sem_table _ (x_cf xc) (x_cf (fst k)) c Hsem). reflexivity. }
      rewrite ECT in Ec. subst content. cbn [fst snd]. rewrite <- Hwin in Hkw.
      destruct (read_cached_x_serialise (x_win xc) (CTx xc c) c (CTx_wf xc c) (fun p => CTx_no_stop xc c p Hkw)) as (L & M & O).
      split; [exact Hfs|]. split; [exact O|].
      intros p Hp. pose proof (qpos_ok_skip xc p Hp Hc) as Sk. split.
      + rewrite M, Sk. reflexivity.
      + intros b. rewrite L, Sk. reflexivity.
    - (* read from the VCF *)
      cbn [fst snd]. rewrite contig_table_x_wv.
      split; [|split; [apply contig_table_only|apply good_ct_x_refl]].
      destruct (c_cache (x_cf xc) && cacheable c && valid_contig v c && win_valid (x_win xc)) eqn:W; [|exact Hfs].
      rewrite !andb_true_iff in W. destruct W as [[[Hc _] _] Hw].
      intros name content. rewrite (aget_aset seqb seqb_eq). destruct (seqb name (cache_name (x_cf xc) c)) eqn:En.
      + intros H. inversion H; subst. apply seqb_eq in En. exists (xc, c). cbn [fst snd]. auto.
      + apply Hfs.
  Qed.

  Lemma fetch_raises_has_x xc st c p : 0 <= p -> fetch_raises v (x_cf xc) st c = true ->
    answer_has (fst (ensure_x v xc st c)) c p = ABool false.
  Proof.
    intros Hp. unfold fetch_raises, ensure_x.
    destruct (self_lazy (x_cf xc) && negb (amem seqb (fst st) c)); [|discriminate]. cbn [andb]. unfold fetch_lazy_x.
    destruct (if c_cache (x_cf xc) && cacheable c then aget seqb (snd st) (cache_name (x_cf xc) c) else None); [discriminate|].
    intros H. apply negb_true_iff in H. cbn [fst]. rewrite contig_table_x_wv. unfold contig_table. rewrite valid_contig_wv, H.
    unfold answer_has. rewrite add_sentinel_lookup by exact Hp. reflexivity.
  Qed.

  Lemma step_lazy_x xc st q : is_lazy (x_cf xc) = true -> st_ok_x xc st -> In (xc, query_contig q) ks ->
    qpos_ok xc (query_pos q) = true ->
    st_ok_x xc (fst (step_x v xc st q)) /\ snd (step_x v xc st q) = spec_answer (wv v (x_win xc)) (x_cf xc) q.
  Proof.
    intros Hl [Hfs Ht] Hk Hp.
    rewrite spec_answer_scope by (unfold in_scope; rewrite Hl; reflexivity).
    assert (He : st_ok_x xc (ensure_x v xc st (query_contig q)) /\
                 good_ct_x xc (query_contig q) (getd seqb (fst (ensure_x v xc st (query_contig q))) (query_contig q))).
    { unfold ensure_x. rewrite self_lazy_shape, Hl. cbn [andb]. destruct (amem seqb (fst st) (query_contig q)) eqn:M; cbn [negb].
      - split; [split; assumption|apply Ht, M].
      - destruct (fetch_lazy_x_ok xc (snd st) (query_contig q) Hfs Hk) as (A & B & C).
        split; [|exact C]. split; [exact A|]. intros c Hm. rewrite (B c Hm). exact C. }
    destruct He as [Hst Hg].
    destruct q as [c p b|c p]; cbn [step_x fst snd query_contig query_pos] in *.
    - split; [exact Hst|]. rewrite answer_get_ct. apply good_ct_x_get; assumption.
    - split; [exact Hst|].
      assert (Hn : answer_has (fst (ensure_x v xc st c)) c p = site_answer (wv v (x_win xc)) (x_cf xc) (QHas c p))
        by (rewrite answer_has_ct; apply good_ct_x_has; assumption).
      destruct (fetch_raises v (x_cf xc) st c) eqn:R; [|exact Hn].
      rewrite has_invalid_contig_shape, <- Hn. symmetry. apply fetch_raises_has_x; [apply (qpos_ok_nonneg xc), Hp|exact R].
  Qed.

  Lemma run_queries_lazy_x xc qs : is_lazy (x_cf xc) = true ->
    forall st, st_ok_x xc st -> (forall q, In q qs -> In (xc, query_contig q) ks /\ qpos_ok xc (query_pos q) = true) ->
    fs_ok_x (fst (run_queries_x v xc st qs)) /\ snd (run_queries_x v xc st qs) = map (spec_answer (wv v (x_win xc)) (x_cf xc)) qs.
  Proof.
    intros Hl. induction qs as [|q qs IH]; intros st Hst Hq.
    - cbn. split; [apply Hst|reflexivity].
    - cbn [run_queries_x map]. destruct (Hq q (or_introl eq_refl)) as [Hk Hp].
      destruct (step_lazy_x xc st q Hl Hst Hk Hp) as [Hst' Ha].
      destruct (step_x v xc st q) as [st' a]. cbn [fst snd] in Hst', Ha.
      specialize (IH st' Hst' (fun q' Hin => Hq q' (or_intror Hin))).
      destruct (run_queries_x v xc st' qs) as [fs' ans]. cbn [fst snd] in *. destruct IH as [A B].
      split; [exact A|]. rewrite Ha, B. reflexivity.
  Qed.

  (* ---- eager: the table never changes; the machine is the one of Model/C18.v on the records the run can see *)
  Lemma step_x_eager xc t fs q v' : is_lazy (x_cf xc) = false -> step_x v xc (t, fs) q = step v' (x_cf xc) (t, fs) q.
  Proof.
    intros Hl. rewrite (step_eager v' (x_cf xc) t fs q Hl).
    destruct q; cbn [step_x]; unfold ensure_x, fetch_raises; rewrite self_lazy_shape, Hl; reflexivity.
  Qed.
  Lemma run_queries_x_eager xc t fs qs v' : is_lazy (x_cf xc) = false ->
    run_queries_x v xc (t, fs) qs = run_queries v' (x_cf xc) (t, fs) qs.
  Proof.
    intros Hl. induction qs as [|q qs IH]; [reflexivity|]. cbn [run_queries_x run_queries].
    rewrite (step_x_eager xc t fs q v' Hl), (step_eager v' (x_cf xc) t fs q Hl). rewrite IH. reflexivity.
  Qed.

  Lemma veff_lazy xc : is_lazy (x_cf xc) = true -> veff v xc = wv v (x_win xc).
  Proof. intros Hl. unfold veff, eager_all. rewrite Hl. reflexivity. Qed.
  Lemma Hveff xc : vcf_ok (veff v xc) = true.
  Proof. unfold veff. destruct (eager_all (x_cf xc)); [exact Hv|apply Hwv]. Qed.

  Lemma run_one_x_eager fs run : is_lazy (x_cf (fst run)) = false ->
    (forall q, In q (snd run) -> 0 <= query_pos q) ->
    run_one_x v fs run = (fs, spec_run_x v run).
  Proof.
    intros Hl Hq. destruct run as [xc qs]. cbn [fst snd] in *.
    unfold run_one_x, spec_run_x, ctor_raises_win, init_table_x. cbn [fst snd]. rewrite Hl. cbn [negb andb].
    destruct (c_chrom (x_cf xc)) as [c0|] eqn:Hc; cbn [is_some andb].
    - destruct (win_valid (x_win xc)) eqn:Hw; cbn [negb].
      + rewrite andb_true_r.
        assert (Ev : veff v xc = wv v (x_win xc)) by (unfold veff, eager_all; rewrite Hl, Hc; reflexivity).
        rewrite Ev. pose proof (eager_spec (wv v (x_win xc)) (x_cf xc) qs fs (Hwv _) Hl Hq) as ES.
        unfold run_one in ES. cbn [fst snd] in ES. unfold init_table in ES. rewrite Hl, Hc, valid_contig_wv in ES.
        destruct (valid_contig v c0); [|exact ES].
        rewrite contig_table_x_wv. rewrite (run_queries_x_eager xc _ fs qs (wv v (x_win xc)) Hl). exact ES.
      + rewrite andb_false_r. reflexivity.
    - assert (Ev : veff v xc = v) by (unfold veff, eager_all; rewrite Hl, Hc; reflexivity).
      rewrite Ev. pose proof (eager_spec v (x_cf xc) qs fs Hv Hl Hq) as ES.
      unfold run_one in ES. cbn [fst snd] in ES. unfold init_table in ES. rewrite Hl, Hc in ES.
      rewrite (run_queries_x_eager xc _ fs qs v Hl). exact ES.
  Qed.

  Lemma run_one_x_ok fs run : fs_ok_x fs ->
    (forall q, In q (snd run) -> In (fst run, query_contig q) ks /\ qpos_ok (fst run) (query_pos q) = true) ->
    fs_ok_x (fst (run_one_x v fs run)) /\ snd (run_one_x v fs run) = spec_run_x v run.
  Proof.
    intros Hfs Hq. destruct (is_lazy (x_cf (fst run))) eqn:Hl.
    - unfold run_one_x, spec_run_x, ctor_raises_win, init_table_x. rewrite Hl. cbn [negb andb].
      rewrite (veff_lazy (fst run) Hl). unfold spec_run. cbn [fst snd]. rewrite Hl.
      apply (run_queries_lazy_x (fst run) (snd run) Hl ([], fs)); [|exact Hq].
      split; [exact Hfs|]. intros c Hm. discriminate.
    - rewrite run_one_x_eager; [split; [exact Hfs|reflexivity]|exact Hl|].
      intros q Hin. apply (qpos_ok_nonneg (fst run)), (Hq q Hin).
  Qed.

  Lemma run_history_x_ok h : forall fs, fs_ok_x fs ->
    (forall run q, In run h -> In q (snd run) -> In (fst run, query_contig q) ks /\ qpos_ok (fst run) (query_pos q) = true) ->
    fs_ok_x (fst (run_history_x v fs h)) /\ snd (run_history_x v fs h) = map (spec_run_x v) h.
  Proof.
    induction h as [|run h IH]; intros fs Hfs Hq; [split; [exact Hfs|reflexivity]|].
    cbn [run_history_x map].
    destruct (run_one_x_ok fs run Hfs (fun q Hin => Hq run q (or_introl eq_refl) Hin)) as [A B].
    destruct (run_one_x v fs run) as [fs1 a]. cbn [fst snd] in A, B.
    destruct (IH fs1 A (fun run' q Hr Hin => Hq run' q (or_intror Hr) Hin)) as [C D].
    destruct (run_history_x v fs1 h) as [fs2 rest]. cbn [fst snd] in *. split; [exact C|]. rewrite B, D. reflexivity.
  Qed.
End RefineX.

Lemma keys_of_x_In h run q : In run h -> In q (snd run) -> In (fst run, query_contig q) (keys_of_x h).
Proof.
  intros Hr Hq. unfold keys_of_x. apply in_flat_map. exists run. split; [exact Hr|].
  apply in_map_iff. exists q. split; [reflexivity|exact Hq].
Qed.

Theorem history_spec_x v h : vcf_ok_x v = true -> hist_ok_x h = true ->
  snd (run_history_x v [] h) = map (spec_run_x v) h.
Proof.
  intros Hv Hh. apply vcf_ok_x_parts in Hv. destruct Hv as [Hv _].
  unfold hist_ok_x in Hh. apply andb_true_iff in Hh. destruct Hh as [Hpos Hn].
  apply (run_history_x_ok v Hv (keys_of_x h) Hn h []).
  - intros name content E. discriminate.
  - intros run q Hr Hq. split; [apply keys_of_x_In; assumption|].
    rewrite forallb_forall in Hpos. specialize (Hpos run Hr). rewrite forallb_forall in Hpos. apply (Hpos q Hq).
Qed.

(* ------------------------------------------------------------------ inside the windows: the specification of the whole VCF *)
Lemma spec_run_inside v run : (forall r, In r (v_recs v) -> pos_rec_ok r = true) ->
  win_valid (x_win (fst run)) = true -> (forall q, In q (snd run) -> in_win (x_win (fst run)) (query_pos q) = true) ->
  spec_run_x v run = spec_run v (unlift run).
Proof.
  intros Hr Hw Hq. unfold spec_run_x, ctor_raises_win, unlift. rewrite Hw, andb_false_r.
  unfold veff, wv. rewrite Hw. destruct (eager_all (x_cf (fst run))); [reflexivity|].
  unfold spec_run. cbn [fst snd].
  replace (valid_contig (vwin v (x_win (fst run)))) with (valid_contig v) by reflexivity.
  destruct (if is_lazy (x_cf (fst run)) then true else match c_chrom (x_cf (fst run)) with Some c => valid_contig v c | None => true end);
    [|reflexivity].
  apply map_ext_in. intros q Hin. apply spec_answer_inside; [exact Hr|apply Hq, Hin].
Qed.

Theorem history_inside_spec v h : vcf_ok_x v = true -> hist_ok_x h = true -> hist_inside h = true ->
  snd (run_history_x v [] h) = map (spec_run v) (map unlift h).
Proof.
  intros Hv Hh Hi. rewrite (history_spec_x v h Hv Hh). rewrite map_map. apply map_ext_in. intros run Hin.
  apply vcf_ok_x_parts in Hv. destruct Hv as [_ Hr].
  unfold hist_inside in Hi. rewrite forallb_forall in Hi. specialize (Hi run Hin). apply andb_true_iff in Hi. destruct Hi as [Hw Hq].
  rewrite forallb_forall in Hq. apply spec_run_inside; assumption.
Qed.

(* two histories asking the same things inside the same windows under the same settings, loading differently *)
Definition same_request_x (r1 r2 : xcfg * list query) : Prop :=
  same_request (unlift r1) (unlift r2).

Theorem modes_equal_x v h1 h2 : vcf_ok_x v = true -> hist_ok_x h1 = true -> hist_ok_x h2 = true ->
  hist_inside h1 = true -> hist_inside h2 = true -> Forall2 same_request_x h1 h2 ->
  snd (run_history_x v [] h1) = snd (run_history_x v [] h2).
Proof.
  intros Hv H1 H2 I1 I2 HF. rewrite !history_inside_spec by assumption.
  clear H1 H2 I1 I2. induction HF as [|r1 r2 l1 l2 Hr HF IH]; [reflexivity|]. cbn [map].
  rewrite (spec_run_same v (unlift r1) (unlift r2) Hr). f_equal. exact IH.
Qed.

(* the headline case: ONE setting and ONE window for all runs of the history - no condition on names *)
Lemma names_ok_x_one (ks : list (xcfg * str)) cf0 w0 :
  (forall k, In k ks -> sem_eq (x_cf (fst k)) cf0 /\ x_win (fst k) = w0) -> names_ok_x ks = true.
Proof.
  intros H. unfold names_ok_x. apply forallb_forall. intros k1 H1. apply forallb_forall. intros k2 H2.
  destruct (seqb (cache_name (x_cf (fst k1)) (snd k1)) (cache_name (x_cf (fst k2)) (snd k2))) eqn:E; [|reflexivity].
  cbn [negb orb]. apply seqb_eq in E.
  destruct (H k1 H1) as [(P1 & S1 & I1) W1]. destruct (H k2 H2) as [(P2 & S2 & I2) W2].
  assert (Hc : cache_name (x_cf (fst k1)) (snd k1) = cache_name (x_cf (fst k1)) (snd k2)).
  { rewrite E. rewrite !cache_name_shape. unfold cache_name_ref. rewrite P1, S1, I1, P2, S2, I2. reflexivity. }
  apply cache_name_contig in Hc. rewrite Hc, seqb_refl. cbn [andb].
  rewrite W1, W2, win_eqb_refl, !orb_true_r, andb_true_r.
  unfold same_sem. rewrite P1, P2, S1, S2, I1, I2. rewrite eqb_reflx. cbn [andb].
  apply andb_true_iff. split.
  - unfold sel_same. destruct (c_select cf0) as [l|]; [|reflexivity]. rewrite Nat.eqb_refl. cbn [andb].
    assert (forallb (fun s => smem s l) l = true) as -> by (apply forallb_forall; intros s Hs; apply smem_In, Hs). reflexivity.
  - unfold ign_same. assert (forallb (fun q => pair_mem (fst q) (snd q) (ign_list (c_ignore cf0))) (ign_list (c_ignore cf0)) = true) as ->.
    { apply forallb_forall. intros [a b] Hq. apply pair_mem_In. exact Hq. } reflexivity.
Qed.

Theorem one_setting_one_window_spec v cf0 w0 h : vcf_ok_x v = true -> win_valid w0 = true ->
  (forall run, In run h -> sem_eq (x_cf (fst run)) cf0 /\ x_win (fst run) = w0) ->
  (forall run q, In run h -> In q (snd run) -> in_win w0 (query_pos q) = true) ->
  snd (run_history_x v [] h) = map (spec_run v) (map unlift h).
Proof.
  intros Hv Hw Hs Hq. apply history_inside_spec; [exact Hv| |].
  - unfold hist_ok_x. apply andb_true_iff. split.
    + apply forallb_forall. intros run Hr. apply forallb_forall. intros q Hin.
      pose proof (Hq run q Hr Hin) as Hi. apply in_win_bounds in Hi. pose proof (win_valid_bounds _ Hw) as B.
      destruct (Hs run Hr) as [_ W]. unfold qpos_ok. apply andb_true_iff. split; [apply Z.leb_le; lia|].
      rewrite W, skipb_shape. unfold win_lo in Hi. destruct (w_start w0) as [s|]; cbn [oz] in Hi.
      * assert ((query_pos q <? s) = false) as -> by (apply Z.ltb_ge; lia). apply orb_true_r.
      * apply orb_true_r.
    + apply (names_ok_x_one _ cf0 w0). intros k Hk. unfold keys_of_x in Hk. apply in_flat_map in Hk.
      destruct Hk as (run & Hr & Hk). apply in_map_iff in Hk. destruct Hk as (q & E & _). subst k. cbn [fst]. apply Hs, Hr.
  - unfold hist_inside. apply forallb_forall. intros run Hr. destruct (Hs run Hr) as [_ W]. rewrite W, Hw. cbn [andb].
    apply forallb_forall. intros q Hin. apply (Hq run q Hr Hin).
Qed.
