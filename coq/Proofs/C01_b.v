(* C01 proofs, part 2: accounting over the trace of writes (partition, counters, order, mate sync). *)
From Coq Require Import ZArith List Bool Lia Arith Sorted.
Import ListNotations.
From SCMO Require Import Lib.Val Lib.C01Shape Model.C01 Proofs.C01.
Open Scope Z_scope.

(* ------------------------------------------------------------------ list facts *)
Lemma filter_all {A} (f : A -> bool) (l : list A) : (forall x, In x l -> f x = true) -> filter f l = l.
Proof.
  induction l as [|x l IH]; intros H; cbn [filter]; [reflexivity|].
  rewrite (H x (or_introl eq_refl)). f_equal. apply IH. intros y Hy. apply H. now right.
Qed.

Lemma filter_filter {A} (f g : A -> bool) (l : list A) :
  filter f (filter g l) = filter (fun x => g x && f x) l.
Proof.
  induction l as [|x l IH]; cbn [filter]; [reflexivity|].
  destruct (g x); cbn [filter andb]; [destruct (f x)|]; now rewrite IH.
Qed.

Lemma nth_firstn_lt {A} (d : A) : forall k l p, (p < k)%nat -> nth p (firstn k l) d = nth p l d.
Proof.
  induction k as [|k IH]; intros l p Hp; [lia|].
  destruct l as [|x l]; [now destruct p|]. cbn [firstn]. destruct p as [|p]; [reflexivity|].
  cbn [nth]. apply IH. lia.
Qed.

Lemma SSorted_app {A} (R : A -> A -> Prop) (l1 l2 : list A) :
  StronglySorted R l1 -> StronglySorted R l2 -> (forall a b, In a l1 -> In b l2 -> R a b) ->
  StronglySorted R (l1 ++ l2).
Proof.
  induction l1 as [|x l1 IH]; intros H1 H2 H; [assumption|].
  cbn [app]. inversion H1 as [|? ? Hs Hf]; subst. constructor.
  - apply IH; auto. intros a b Ha Hb. apply H; [now right|assumption].
  - apply Forall_app. split; [assumption|].
    apply Forall_forall. intros b Hb. apply H; [now left|assumption].
Qed.

Lemma SSorted_filter {A} (R : A -> A -> Prop) (f : A -> bool) (l : list A) :
  StronglySorted R l -> StronglySorted R (filter f l).
Proof.
  induction 1 as [|x l Hs IH Hf]; cbn [filter]; [constructor|].
  destruct (f x); [|assumption]. constructor; [assumption|].
  apply Forall_forall. intros y Hy. apply filter_In in Hy. destruct Hy as [Hy _].
  rewrite Forall_forall in Hf. now apply Hf.
Qed.

Lemma SSorted_map {A B} (R : B -> B -> Prop) (g : A -> B) (l : list A) :
  StronglySorted (fun a b => R (g a) (g b)) l -> StronglySorted R (map g l).
Proof.
  induction 1 as [|x l Hs IH Hf]; cbn [map]; constructor; [assumption|].
  apply Forall_forall. intros y Hy. apply in_map_iff in Hy. destruct Hy as (z & <- & Hz).
  rewrite Forall_forall in Hf. now apply Hf.
Qed.

(* ------------------------------------------------------------------ labels *)
Definition lab_eqb (p j : nat) (e : event) : bool := Nat.eqb (e_pair e) p && Nat.eqb (e_strat e) j.

(* input order: pair index first, then the order of the selected strategies *)
Definition ev_le (a b : event) : Prop :=
  (e_pair a < e_pair b)%nat \/ (e_pair a = e_pair b /\ (e_strat a <= e_strat b)%nat).

(* one write() call: records zipped with the handles R1, R2; the general shape of write_target / write_reject *)
Lemma filter_mate_combine {A} (d : A) (g : nat -> A -> event) (Q : event -> bool) (m : nat) :
  (forall k x, e_mate (g k x) = k) ->
  forall n a xs,
    filter (fun e => Q e && Nat.eqb (e_mate e) m) (map (fun kx => g (fst kx) (snd kx)) (combine (seq a n) xs)) =
    if (a <=? m)%nat && (m <? a + Nat.min n (length xs))%nat && Q (g m (nth (m - a) xs d))
    then [g m (nth (m - a) xs d)] else [].
Proof.
  intros Hg. induction n as [|n IH]; intros a xs.
  - cbn [seq combine map filter Nat.min]. rewrite Nat.add_0_r.
    destruct (a <=? m)%nat eqn:H1, (m <? a)%nat eqn:H2; cbn [andb]; try reflexivity.
    apply Nat.leb_le in H1. apply Nat.ltb_lt in H2. lia.
  - destruct xs as [|x xs].
    + cbn [seq combine map filter length]. rewrite Nat.min_0_r, Nat.add_0_r.
      destruct (a <=? m)%nat eqn:H1, (m <? a)%nat eqn:H2; cbn [andb]; try reflexivity.
      apply Nat.leb_le in H1. apply Nat.ltb_lt in H2. lia.
    + cbn [seq combine map filter fst snd length]. rewrite Hg, IH.
      destruct (Nat.eqb a m) eqn:Ham.
      * apply Nat.eqb_eq in Ham. subst a. rewrite Nat.sub_diag. cbn [nth].
        assert (H1 : (m <=? m)%nat = true) by (apply Nat.leb_le; lia).
        assert (H2 : (m <? m + Nat.min (S n) (S (length xs)))%nat = true) by (apply Nat.ltb_lt; cbn [Nat.min]; lia).
        assert (H3 : (S m <=? m)%nat = false) by (apply Nat.leb_gt; lia).
        rewrite H1, H2, H3. cbn [andb]. rewrite andb_true_r.
        destruct (Q (g m x)); reflexivity.
      * apply Nat.eqb_neq in Ham. rewrite andb_false_r.
        destruct (S a <=? m)%nat eqn:H1.
        -- apply Nat.leb_le in H1.
           assert (H1' : (a <=? m)%nat = true) by (apply Nat.leb_le; lia). rewrite H1'.
           replace (m - a)%nat with (S (m - S a)) by lia. cbn [nth].
           replace (a + Nat.min (S n) (S (length xs)))%nat with (S a + Nat.min n (length xs))%nat by (cbn [Nat.min]; lia).
           reflexivity.
        -- apply Nat.leb_gt in H1. assert (H1' : (a <=? m)%nat = false) by (apply Nat.leb_gt; lia).
           rewrite H1'. reflexivity.
Qed.

(* default for nth on the strategy list (never reached: indices are below the length) *)
Definition dflt : strategy := fun _ => Raise [].

Section Loader.
  Variable sh : shape.
  Variable strats : list strategy.
  Variable rejhdr : read -> str -> hout.
  Variable cfg : config.
  Hypothesis wf : wf_shape sh = true.


  Lemma write_target_labels p j recs e :
    In e (write_target cfg p j recs) -> e_pair e = p /\ e_strat e = j /\ e_target e = true.
  Proof.
    unfold write_target. destruct (c_sc cfg); intros H; apply in_map_iff in H;
      destruct H as (mr & <- & _); cbn; auto.
  Qed.

  Lemma write_reject_labels p j ts e :
    In e (write_reject cfg p j ts) -> e_pair e = p /\ e_strat e = j /\ e_target e = false /\ e_cell e = [].
  Proof. unfold write_reject. intros H. apply in_map_iff in H. destruct H as (mr & <- & _). cbn. auto. Qed.

  Lemma step_events_labels p r j f e :
    In e (step_events rejhdr cfg p r j f) -> e_pair e = p /\ e_strat e = j.
  Proof.
    unfold step_events. destruct (f r) as [recs|reason|kind].
    - destruct (ok_prefix (touched cfg recs)) as [pre [kind|]].
      + intros H. apply in_app_or in H. destruct H as [H|H]; [apply write_target_labels in H; tauto|].
        destruct (c_rejects cfg); [|destruct H]. apply write_reject_labels in H. tauto.
      + intros H. apply write_target_labels in H. tauto.
    - destruct (c_rejects cfg); [|intros []].
      destruct (reject_texts rejhdr r reason); [|intros []].
      intros H. apply write_reject_labels in H. tauto.
    - destruct (c_rejects cfg); [|intros []].
      intros H. apply write_reject_labels in H. tauto.
  Qed.

  Lemma steps_from_labels p r : forall ss j0 e,
    In e (steps_from rejhdr cfg p r j0 ss) -> e_pair e = p /\ (j0 <= e_strat e < j0 + length ss)%nat.
  Proof.
    induction ss as [|f ss IH]; intros j0 e H; [destruct H|].
    cbn [steps_from] in H. apply in_app_or in H. destruct H as [H|H].
    - apply step_events_labels in H. cbn [length]. lia.
    - apply IH in H. cbn [length]. lia.
  Qed.

  Lemma pairs_from_labels : forall pairs p0 e,
    In e (pairs_from strats rejhdr cfg p0 pairs) -> (p0 <= e_pair e < p0 + length pairs)%nat /\ (e_strat e < length strats)%nat.
  Proof.
    induction pairs as [|r rest IH]; intros p0 e H; [destruct H|].
    cbn [pairs_from] in H. apply in_app_or in H. destruct H as [H|H].
    - apply steps_from_labels in H. cbn [length]. lia.
    - apply IH in H. cbn [length]. lia.
  Qed.

  (* ---------------- the events of one (pair, strategy) label are exactly that step's events *)
  Lemma filter_lab_steps p r j : forall ss j0,
    filter (lab_eqb p j) (steps_from rejhdr cfg p r j0 ss) =
    if (j0 <=? j)%nat && (j <? j0 + length ss)%nat then step_events rejhdr cfg p r j (nth (j - j0) ss dflt) else [].
  Proof.
    induction ss as [|f ss IH]; intros j0.
    - cbn [steps_from filter length]. rewrite Nat.add_0_r.
      destruct (j0 <=? j)%nat eqn:H1, (j <? j0)%nat eqn:H2; cbn [andb]; try reflexivity.
      apply Nat.leb_le in H1. apply Nat.ltb_lt in H2. lia.
    - cbn [steps_from]. rewrite filter_app, IH. cbn [length].
      destruct (Nat.eqb j0 j) eqn:Hj.
      + apply Nat.eqb_eq in Hj. subst j0.
        rewrite filter_all.
        2:{ intros e He. apply step_events_labels in He. unfold lab_eqb.
            destruct He as [-> ->]. now rewrite !Nat.eqb_refl. }
        assert (H1 : (j <=? j)%nat = true) by (apply Nat.leb_le; lia).
        assert (H2 : (j <? j + S (length ss))%nat = true) by (apply Nat.ltb_lt; lia).
        assert (H3 : (S j <=? j)%nat = false) by (apply Nat.leb_gt; lia).
        rewrite H1, H2, H3, Nat.sub_diag. cbn [andb nth]. now rewrite app_nil_r.
      + apply Nat.eqb_neq in Hj.
        rewrite filter_nil_forall.
        2:{ intros e He. apply step_events_labels in He. unfold lab_eqb. destruct He as [_ ->].
            apply andb_false_intro2. now apply Nat.eqb_neq. }
        cbn [app].
        destruct (S j0 <=? j)%nat eqn:H1.
        * apply Nat.leb_le in H1.
          assert (H1' : (j0 <=? j)%nat = true) by (apply Nat.leb_le; lia). rewrite H1'.
          replace (j - j0)%nat with (S (j - S j0)) by lia. cbn [nth].
          replace (j0 + S (length ss))%nat with (S j0 + length ss)%nat by lia. reflexivity.
        * apply Nat.leb_gt in H1. assert (H1' : (j0 <=? j)%nat = false) by (apply Nat.leb_gt; lia).
          now rewrite H1'.
  Qed.

  Lemma filter_lab_pairs p j : forall pairs p0,
    filter (lab_eqb p j) (pairs_from strats rejhdr cfg p0 pairs) =
    if (p0 <=? p)%nat && (p <? p0 + length pairs)%nat
    then filter (lab_eqb p j) (steps_from rejhdr cfg p (nth (p - p0) pairs []) 0 strats) else [].
  Proof.
    induction pairs as [|r rest IH]; intros p0.
    - cbn [pairs_from filter length]. rewrite Nat.add_0_r.
      destruct (p0 <=? p)%nat eqn:H1, (p <? p0)%nat eqn:H2; cbn [andb]; try reflexivity.
      apply Nat.leb_le in H1. apply Nat.ltb_lt in H2. lia.
    - cbn [pairs_from]. rewrite filter_app, IH. cbn [length].
      destruct (Nat.eqb p0 p) eqn:Hp.
      + apply Nat.eqb_eq in Hp. subst p0.
        assert (H1 : (p <=? p)%nat = true) by (apply Nat.leb_le; lia).
        assert (H2 : (p <? p + S (length rest))%nat = true) by (apply Nat.ltb_lt; lia).
        assert (H3 : (S p <=? p)%nat = false) by (apply Nat.leb_gt; lia).
        rewrite H1, H2, H3, Nat.sub_diag. cbn [andb nth]. now rewrite app_nil_r.
      + apply Nat.eqb_neq in Hp.
        rewrite filter_nil_forall.
        2:{ intros e He. apply steps_from_labels in He. unfold lab_eqb. destruct He as [-> _].
            apply andb_false_intro1. now apply Nat.eqb_neq. }
        cbn [app].
        destruct (S p0 <=? p)%nat eqn:H1.
        * apply Nat.leb_le in H1.
          assert (H1' : (p0 <=? p)%nat = true) by (apply Nat.leb_le; lia). rewrite H1'.
          replace (p - p0)%nat with (S (p - S p0)) by lia. cbn [nth].
          replace (p0 + S (length rest))%nat with (S p0 + length rest)%nat by lia. reflexivity.
        * apply Nat.leb_gt in H1. assert (H1' : (p0 <=? p)%nat = false) by (apply Nat.leb_gt; lia).
          now rewrite H1'.
  Qed.

  Lemma nth_consumed pairs p : (p < length (consumed sh cfg pairs))%nat ->
    nth p (consumed sh cfg pairs) [] = nth p pairs [] /\ (p < length pairs)%nat.
  Proof.
    unfold consumed. destruct (consumed_from_prefix sh cfg pairs 0) as [k Hk]. rewrite Hk.
    rewrite firstn_length. intros Hp. split; [apply nth_firstn_lt|]; lia.
  Qed.

  (* PARTITION, event form: in a run that returns, the writes caused by pair p under strategy j are exactly
     the writes of that one step -- nothing of it anywhere else in the trace, nothing written twice *)
  Lemma partition_events pairs p j :
    res_crashed (loader sh strats rejhdr cfg pairs) = false ->
    filter (lab_eqb p j) (res_trace (loader sh strats rejhdr cfg pairs)) =
    if (p <? length (consumed sh cfg pairs))%nat && (j <? length strats)%nat
    then step_events rejhdr cfg p (nth p pairs []) j (nth j strats dflt) else [].
  Proof.
    intros Hc. destruct (loader_decl sh strats rejhdr cfg wf pairs Hc) as (_ & -> & _ & _).
    rewrite filter_lab_pairs. cbn [Nat.leb Nat.add]. rewrite Nat.sub_0_r.
    destruct (p <? length (consumed sh cfg pairs))%nat eqn:Hp; cbn [andb]; [|reflexivity].
    apply Nat.ltb_lt in Hp. destruct (nth_consumed pairs p Hp) as [-> _].
    rewrite filter_lab_steps. cbn [Nat.leb Nat.add andb]. now rewrite Nat.sub_0_r.
  Qed.

  (* ---------------- counting form *)
  Definition at_b (t : bool) (p j m : nat) (e : event) : bool :=
    lab_eqb p j e && (Bool.eqb (e_target e) t && Nat.eqb (e_mate e) m).
  Definition count_at (tr : list event) (t : bool) (p j m : nat) : nat := length (filter (at_b t p j m) tr).

  Definition target_width : nat := if c_sc cfg then 2%nat else c_nh cfg.

  Lemma write_target_count t p j recs m : (m < target_width)%nat -> (target_width <= length recs)%nat ->
    length (filter (fun e => Bool.eqb (e_target e) t && Nat.eqb (e_mate e) m) (write_target cfg p j recs)) =
    if t then 1%nat else 0%nat.
  Proof.
    unfold target_width, write_target. intros Hm Hw.
    destruct (c_sc cfg).
    - rewrite (filter_mate_combine (mkArec true [] []) (fun k x => mkEv true (a_cell x) k p j (a_text x))
                 (fun e => Bool.eqb (e_target e) t) m) by reflexivity.
      cbn [Nat.leb Nat.add andb]. assert (H : (m <? Nat.min 2 (length recs))%nat = true) by (apply Nat.ltb_lt; lia).
      rewrite H. cbn [andb e_target]. destruct t; reflexivity.
    - rewrite (filter_mate_combine (mkArec true [] []) (fun k x => mkEv true [] k p j (a_text x))
                 (fun e => Bool.eqb (e_target e) t) m) by reflexivity.
      cbn [Nat.leb Nat.add andb]. assert (H : (m <? Nat.min (c_nh cfg) (length recs))%nat = true) by (apply Nat.ltb_lt; lia).
      rewrite H. cbn [andb e_target]. destruct t; reflexivity.
  Qed.

  Lemma write_reject_count t p j ts m : (m < c_nh cfg)%nat -> (c_nh cfg <= length ts)%nat ->
    length (filter (fun e => Bool.eqb (e_target e) t && Nat.eqb (e_mate e) m) (write_reject cfg p j ts)) =
    if t then 0%nat else 1%nat.
  Proof.
    unfold write_reject. intros Hm Hw.
    rewrite (filter_mate_combine [] (fun k x => mkEv false [] k p j x) (fun e => Bool.eqb (e_target e) t) m) by reflexivity.
    cbn [Nat.leb Nat.add andb]. unfold str in *.
    match goal with |- context [Nat.ltb ?a ?b] => assert (H : Nat.ltb a b = true) by (apply Nat.ltb_lt; lia); rewrite H end. cbn [andb e_target]. destruct t; reflexivity.
  Qed.

  Lemma base_headers_length reads reason : forall hs,
    base_headers rejhdr reads reason = HsOk hs -> length hs = length reads.
  Proof.
    induction reads as [|r rest IH]; intros hs H; cbn [base_headers] in H.
    - now inversion H.
    - destruct (rejhdr r reason); try discriminate.
      destruct (base_headers rejhdr rest reason) eqn:Hb; try discriminate.
      inversion H; subst. cbn [length]. f_equal. now apply IH.
  Qed.

  Lemma reject_texts_length reads reason ts :
    reject_texts rejhdr reads reason = RTexts ts -> length ts = length reads.
  Proof.
    unfold reject_texts. destruct (base_headers rejhdr reads reason) as [hs|why|] eqn:Hb; intros H; inversion H; subst.
    - rewrite map_length, combine_length, (base_headers_length _ _ _ Hb). lia.
    - now rewrite map_length.
  Qed.

  (* a step is well-formed: the accepted record list covers the mate files of the target handle, the input tuple
     covers the mate files of the reject handle *)
  Definition step_ok (r : pair) (f : strategy) : Prop :=
    match f r with
    | Accept recs => (target_width <= length recs)%nat /\ forallb a_ok (touched cfg recs) = true
    | _ => (c_nh cfg <= length r)%nat
    end.

  Lemma ok_prefix_all : forall l, forallb a_ok l = true -> ok_prefix l = (l, None).
  Proof.
    induction l as [|x l IH]; intros H; [reflexivity|].
    cbn [forallb] in H. apply andb_prop in H. destruct H as [Hx Hl].
    cbn [ok_prefix]. rewrite Hx, (IH Hl). reflexivity.
  Qed.

  Lemma step_count (t : bool) p r j f m : step_ok r f -> step_crash rejhdr cfg r f = false ->
    (m < (if t then target_width else c_nh cfg))%nat ->
    length (filter (fun e => Bool.eqb (e_target e) t && Nat.eqb (e_mate e) m) (step_events rejhdr cfg p r j f)) =
    if Bool.eqb t (is_accept cfg (f r)) && (t || c_rejects cfg) then 1%nat else 0%nat.
  Proof.
    unfold step_ok, step_crash, step_events. intros Hok Hcr Hm.
    destruct (f r) as [recs|reason|kind]; cbn [is_accept].
    - destruct Hok as [Hok Hall]. rewrite (ok_prefix_all _ Hall). cbn [snd]. destruct t.
      + rewrite write_target_count by assumption. reflexivity.
      + rewrite filter_nil_forall; [reflexivity|].
        intros e He. apply write_target_labels in He. destruct He as (_ & _ & ->). reflexivity.
    - destruct (c_rejects cfg); cbn [andb orb] in *.
      + destruct (reject_texts rejhdr r reason) as [ts|] eqn:Hts; [|discriminate].
        destruct t.
        * rewrite filter_nil_forall; [reflexivity|].
          intros e He. apply write_reject_labels in He. destruct He as (_ & _ & -> & _). reflexivity.
        * rewrite write_reject_count; [reflexivity|assumption|]. rewrite (reject_texts_length _ _ _ Hts). assumption.
      + destruct t; reflexivity.
    - destruct (c_rejects cfg); cbn [andb orb] in *.
      + destruct t.
        * rewrite filter_nil_forall; [reflexivity|].
          intros e He. apply write_reject_labels in He. destruct He as (_ & _ & -> & _). reflexivity.
        * rewrite write_reject_count; [reflexivity|assumption|]. unfold generic_texts. now rewrite map_length.
      + destruct t; reflexivity.
  Qed.

  Lemma no_crash_step pairs p j :
    existsb (pair_crash strats rejhdr cfg) (consumed sh cfg pairs) = false ->
    (p < length (consumed sh cfg pairs))%nat -> (j < length strats)%nat ->
    step_crash rejhdr cfg (nth p pairs []) (nth j strats dflt) = false.
  Proof.
    intros Hex Hp Hj.
    destruct (nth_consumed pairs p Hp) as [Hn _]. rewrite <- Hn.
    assert (Hin : In (nth p (consumed sh cfg pairs) []) (consumed sh cfg pairs)) by (apply nth_In; assumption).
    destruct (pair_crash strats rejhdr cfg (nth p (consumed sh cfg pairs) [])) eqn:Hpc.
    - assert (existsb (pair_crash strats rejhdr cfg) (consumed sh cfg pairs) = true)
        by (apply existsb_exists; eauto). congruence.
    - unfold pair_crash in Hpc.
      destruct (step_crash rejhdr cfg (nth p (consumed sh cfg pairs) []) (nth j strats dflt)) eqn:Hsc; [|reflexivity].
      assert (existsb (step_crash rejhdr cfg (nth p (consumed sh cfg pairs) [])) strats = true).
      { apply existsb_exists. exists (nth j strats dflt). split; [apply nth_In; assumption|assumption]. }
      congruence.
  Qed.

  (* PARTITION, counting form *)
  Lemma partition_count pairs (t : bool) p j m :
    res_crashed (loader sh strats rejhdr cfg pairs) = false ->
    (p < length (consumed sh cfg pairs))%nat -> (j < length strats)%nat ->
    step_ok (nth p pairs []) (nth j strats dflt) ->
    (m < (if t then target_width else c_nh cfg))%nat ->
    count_at (res_trace (loader sh strats rejhdr cfg pairs)) t p j m =
    if Bool.eqb t (is_accept cfg (nth j strats dflt (nth p pairs []))) && (t || c_rejects cfg) then 1%nat else 0%nat.
  Proof.
    intros Hc Hp Hj Hok Hm. unfold count_at, at_b.
    rewrite <- filter_filter, (partition_events pairs p j Hc).
    apply Nat.ltb_lt in Hp. apply Nat.ltb_lt in Hj. rewrite Hp, Hj. cbn [andb].
    apply step_count; try assumption.
    apply no_crash_step; [|now apply Nat.ltb_lt|now apply Nat.ltb_lt].
    now destruct (loader_decl sh strats rejhdr cfg wf pairs Hc) as (H & _).
  Qed.

  (* nothing is written for a pair that was not consumed, or under a label that does not exist *)
  Lemma nothing_beyond pairs p j :
    res_crashed (loader sh strats rejhdr cfg pairs) = false ->
    (length (consumed sh cfg pairs) <= p)%nat \/ (length strats <= j)%nat ->
    filter (lab_eqb p j) (res_trace (loader sh strats rejhdr cfg pairs)) = [].
  Proof.
    intros Hc H. rewrite (partition_events pairs p j Hc).
    destruct H as [H|H].
    - apply Nat.ltb_ge in H. now rewrite H.
    - apply Nat.ltb_ge in H. rewrite H. now rewrite andb_false_r.
  Qed.

  (* ---------------- reject records: reason, original bases and qualities *)
  Definition contains (needle hay : str) : Prop := exists a b, hay = a ++ needle ++ b.
  Definition reject_ok (why : str) (r : read) (text : str) : Prop :=
    exists h, text = fastq_text h (r_seq r) (r_plus r) (r_qual r) /\ contains (tagRR ++ why) h.

  (* contract of the reject header builder (TaggedRecord with reason=...: the tag RR carries the reason) *)
  Hypothesis rejhdr_reason : forall r reason h, rejhdr r reason = HOk h -> contains (tagRR ++ reason) h.

  Lemma base_headers_ok reads reason : forall hs,
    base_headers rejhdr reads reason = HsOk hs -> Forall2 (fun r h => rejhdr r reason = HOk h) reads hs.
  Proof.
    induction reads as [|r rest IH]; intros hs H; cbn [base_headers] in H.
    - inversion H. constructor.
    - destruct (rejhdr r reason) eqn:Hh; try discriminate.
      destruct (base_headers rejhdr rest reason) eqn:Hb; try discriminate.
      inversion H; subst. constructor; [assumption|]. now apply IH.
  Qed.

  Lemma reject_texts_ok reads reason ts :
    reject_texts rejhdr reads reason = RTexts ts -> Forall2 (reject_ok reason) reads ts.
  Proof.
    unfold reject_texts. destruct (base_headers rejhdr reads reason) as [hs|why|] eqn:Hb; intros H; inversion H; subst; clear H.
    - apply base_headers_ok in Hb. induction Hb as [|r h reads hs Hh Hrest IH]; cbn [combine map]; [constructor|]. constructor; [|assumption].
      exists (64 :: h). split; [reflexivity|].
      destruct (rejhdr_reason _ _ _ Hh) as (a & b & ->). exists (64 :: a), b. reflexivity.
    - clear Hb. induction reads as [|r rest IH]; cbn [map]; [constructor|]. constructor; [|assumption].
      exists (r_header r ++ tagRR ++ reason ++ tagRr ++ why). split; [reflexivity|].
      exists (r_header r), (tagRr ++ why). now rewrite <- !app_assoc.
  Qed.

  Lemma generic_texts_ok reads kind : Forall2 (reject_ok kind) reads (generic_texts reads kind).
  Proof.
    unfold generic_texts. induction reads as [|r rest IH]; cbn [map]; [constructor|]. constructor; [|assumption].
    exists (r_header r ++ tagRR ++ kind). split; [reflexivity|].
    exists (r_header r), []. now rewrite app_nil_r.
  Qed.

  (* what the step of pair p under strategy j wrote, by outcome class *)
  Lemma partition_content pairs p j :
    res_crashed (loader sh strats rejhdr cfg pairs) = false ->
    (p < length (consumed sh cfg pairs))%nat -> (j < length strats)%nat ->
    let evs := filter (lab_eqb p j) (res_trace (loader sh strats rejhdr cfg pairs)) in
    match nth j strats dflt (nth p pairs []) with
    | Accept recs => forallb a_ok (touched cfg recs) = true -> evs = write_target cfg p j recs
    | Reject why | Raise why =>
        if c_rejects cfg
        then exists ts, evs = write_reject cfg p j ts /\ Forall2 (reject_ok why) (nth p pairs []) ts
        else evs = []
    end.
  Proof.
    intros Hc Hp Hj evs. subst evs. rewrite (partition_events pairs p j Hc).
    pose proof (no_crash_step pairs p j) as Hn.
    destruct (loader_decl sh strats rejhdr cfg wf pairs Hc) as (Hex & _).
    specialize (Hn Hex Hp Hj).
    apply Nat.ltb_lt in Hp. apply Nat.ltb_lt in Hj. rewrite Hp, Hj. cbn [andb].
    unfold step_events, step_crash in *.
    destruct (nth j strats dflt (nth p pairs [])) as [recs|why|why]; [intros Hall; now rewrite (ok_prefix_all _ Hall)| |].
    - destruct (c_rejects cfg); [|reflexivity]. cbn [andb] in Hn.
      destruct (reject_texts rejhdr (nth p pairs []) why) as [ts|] eqn:Hts; [|discriminate].
      exists ts. split; [reflexivity|]. now apply reject_texts_ok.
    - destruct (c_rejects cfg); [|reflexivity].
      exists (generic_texts (nth p pairs []) why). split; [reflexivity|]. apply generic_texts_ok.
  Qed.
End Loader.
