(* C07 proofs, concrete part: Fragment/Molecule instance of the machine.
   - obligations on the expressions regenerated from the source (Gen/GenEject.v)
   - emit-once and no-IndexError for every configuration
   - no early ejection and schedule independence under the arrival-order / length / cache inequality *)
From Coq Require Import ZArith List Bool Lia ZifyBool Permutation.
Import ListNotations.
From SCMO Require Import Lib.Val Gen.GenEject Model.C07 Proofs.C07_a.
Open Scope Z_scope.

(* ------------------------------------------------------------------ what the source must say *)
Lemma pop_index_flat_ok i j : pop_index_flat i j = j - i.
Proof. unfold pop_index_flat. lia. Qed.
Lemma pop_index_grouped_ok i j : pop_index_grouped i j = j - i.
Proof. unfold pop_index_grouped. lia. Qed.
(* one machine for both pooling methods: pooling 0 = a single buffer key, member-wise comparison, flat pop site *)
Definition hashC (c : cfg) : frag -> Z := if c_pooling c =? 0 then (fun _ => 0) else f_hash.
Definition pidxC (c : cfg) : Z -> Z -> Z := if c_pooling c =? 0 then pop_index_flat else pop_index_grouped.
Definition runU (c : cfg) (fs : list frag) : list (list mol) * list mol * bool :=
  run_machine frag mol new_mol add_mol (matchC c) (hashC c) f_valid nochrom (yieldable (c_cache c)) (pidxC c)
              (c_every c) (c_yield_invalid c) fs.

Lemma runC_unified c fs : runC c fs = runU c fs.
Proof.
  unfold runC, runU, matchC, hashC, pidxC. destruct (c_pooling c =? 0); [apply frun_machine_equiv|reflexivity].
Qed.

Lemma pidxC_ok c i j : pidxC c i j = j - i.
Proof. unfold pidxC. destruct (c_pooling c =? 0); [apply pop_index_flat_ok|apply pop_index_grouped_ok]. Qed.

Ltac split_ifs H :=
  repeat match type of H with
         | (if ?b then _ else _) = true => let E := fresh "E" in destruct b eqn:E; [try discriminate H|try discriminate H]
         end.

(* Fragment.__eq__ accepts only: same sample, strand, contig, and start or end within the radius *)
Lemma fragment_eq_true so oo u r ss st sc sst se os ot oc ost oe :
  fragment_eq so oo u r ss st sc sst se os ot oc ost oe = true ->
  ss = os /\ st = ot /\ sc = oc /\ Z.min (Z.abs (sst - ost)) (Z.abs (se - oe)) <= r.
Proof. unfold fragment_eq. intros H. split_ifs H. lia. Qed.

(* Molecule.can_be_yielded says yes only on another contig or beyond cache_size/2 of the span *)
Lemma can_be_yielded_true c mc pos ms me cache :
  can_be_yielded false c mc pos ms me cache = true ->
  c <> mc \/ (c = mc /\ 2 * pos < 2 * ms - cache) \/ (c = mc /\ 2 * pos > 2 * me + cache).
Proof. unfold can_be_yielded. intros H. split_ifs H; lia. Qed.

(* ------------------------------------------------------------------ the instance *)
Lemma frags_new f : m_frags (new_mol f) = [f]. Proof. reflexivity. Qed.
Lemma frags_add m f : m_frags (add_mol m f) = m_frags m ++ [f]. Proof. reflexivity. Qed.

Definition wantedC (c : cfg) (f : frag) : bool := f_valid f || c_yield_invalid c.
Definition members (ms : list mol) : list frag := concat (map m_frags ms).

Lemma emit_once c fs outs fl :
  runC c fs = (outs, fl, true) -> Permutation (members (concat outs ++ fl)) (filter (wantedC c) fs).
Proof.
  intros H. rewrite runC_unified in H.
  exact (emit_once_generic frag mol new_mol add_mol (matchC c) (hashC c) f_valid nochrom (yieldable (c_cache c))
           (pidxC c) (c_yield_invalid c) m_frags frags_new frags_add (c_every c) fs outs fl H).
Qed.

Lemma no_index_error c fs : snd (runC c fs) = true.
Proof.
  rewrite runC_unified.
  exact (run_ok_generic frag mol new_mol add_mol (matchC c) (hashC c) f_valid nochrom (yieldable (c_cache c))
           (pidxC c) (c_yield_invalid c) (pidxC_ok c) (c_every c) fs).
Qed.

(* ------------------------------------------------------------------ input hypothesis, split form *)
Record good_input (L lag : Z) (all : list frag) : Prop := {
  gi_frag : forall f, In f all -> f_valid f = true -> nochrom f = false /\ 0 <= f_end f - f_start f <= L;
  gi_lag : forall l1 f l2 h l3, all = l1 ++ f :: l2 ++ h :: l3 -> f_valid f = true -> f_valid h = true ->
             f_chrom f = f_chrom h -> f_start f <= f_start h + lag;
  gi_blocks : forall l1 f l2 g l3 h l4, all = l1 ++ f :: l2 ++ g :: l3 ++ h :: l4 ->
             f_valid f = true -> f_valid g = true -> f_valid h = true ->
             f_chrom f = f_chrom h -> f_chrom g = f_chrom f }.

(* invariant of a buffered molecule w.r.t. the fragments consumed so far *)
Definition J (past : list frag) (m : mol) : Prop :=
  m_frags m <> [] /\
  forall f, In f (m_frags m) ->
    In f past /\ f_valid f = true /\ f_chrom f = m_chrom m /\ f_start f <= f_end f /\
    m_start m <= f_start f /\ f_end f <= m_end m.

Lemma J_mono past g m : J past m -> J (past ++ [g]) m.
Proof.
  intros [Hne H]. split; [exact Hne|]. intros f Hf. destruct (H f Hf) as (H1 & H2). split; [|exact H2].
  apply in_or_app. left. exact H1.
Qed.

Lemma J_new past g : f_valid g = true -> f_start g <= f_end g -> J (past ++ [g]) (new_mol g).
Proof.
  intros Hv Hse. split; [discriminate|]. cbn. intros f [<-|[]].
  repeat split; try lia; try assumption. apply in_or_app. right. left. reflexivity.
Qed.

Section Concrete.
Variable c : cfg.

Lemma match_chrom past m g : J past m -> matchC c m g = true -> f_chrom g = m_chrom m.
Proof.
  intros [_ H]. unfold matchC. destruct (c_pooling c =? 0).
  - unfold match_flat. intros Hm. apply existsb_exists in Hm. destruct Hm as (x & Hx & Heq).
    unfold frag_eq_frag in Heq. apply fragment_eq_true in Heq. destruct (H x Hx) as (_ & _ & Hc & _). lia.
  - unfold match_grouped, frag_eq_mol. intros Heq. apply fragment_eq_true in Heq. lia.
Qed.

(* a fragment on another contig, or lying entirely beyond the span end by more than the radius, is refused *)
Lemma far_no_match past m h : J past m ->
  f_chrom h <> m_chrom m \/ (f_start h > m_end m + c_radius c /\ f_end h > m_end m + c_radius c) ->
  matchC c m h = false.
Proof.
  intros HJ Hfar. destruct (matchC c m h) eqn:Hm; [exfalso|reflexivity].
  pose proof (match_chrom _ _ _ HJ Hm) as Hc. destruct Hfar as [Hfar|[Hs He]]; [contradiction|].
  destruct HJ as [Hne H]. unfold matchC in Hm. destruct (c_pooling c =? 0).
  - unfold match_flat in Hm. apply existsb_exists in Hm. destruct Hm as (x & Hx & Heq).
    unfold frag_eq_frag in Heq. apply fragment_eq_true in Heq. destruct (H x Hx) as (_ & _ & _ & H1 & H2 & H3). lia.
  - unfold match_grouped, frag_eq_mol in Hm. apply fragment_eq_true in Hm.
    destruct (m_frags m) as [|x l] eqn:E; [contradiction|].
    destruct (H x (or_introl eq_refl)) as (_ & _ & _ & H1 & H2 & H3). lia.
Qed.

Lemma J_add past m g : J past m -> f_valid g = true -> f_start g <= f_end g -> matchC c m g = true ->
  J (past ++ [g]) (add_mol m g).
Proof.
  intros HJ Hv Hse Hm. pose proof (match_chrom _ _ _ HJ Hm) as Hc. destruct HJ as [Hne H].
  split.
  - cbn. intros E. apply app_eq_nil in E. destruct E as [_ E]. discriminate.
  - cbn [add_mol m_frags m_chrom m_start m_end]. intros f Hf. apply in_app_or in Hf. destruct Hf as [Hf|[<-|[]]].
    + destruct (H f Hf) as (H1 & H2 & H3 & H4 & H5 & H6).
      repeat split; try lia; try assumption. apply in_or_app. left. exact H1.
    + repeat split; try lia; try assumption. apply in_or_app. right. left. reflexivity.
Qed.

Notation assignC := (assign frag mol add_mol (matchC c)).
Notation placeC := (place frag mol new_mol add_mol (matchC c)).
Notation gplaceC := (gplace frag mol new_mol add_mol (matchC c)).

Lemma assign_J past g (Hv : f_valid g = true) (Hse : f_start g <= f_end g) : forall l r,
  Forall (J past) l -> assignC g l = Some r -> Forall (J (past ++ [g])) r.
Proof.
  induction l as [|m l IH]; intros r HF H; cbn [assign] in H; [discriminate|].
  inversion HF as [|? ? Hm HF']; subst.
  destruct (matchC c m g) eqn:E.
  - injection H as <-. constructor; [apply J_add; assumption|].
    eapply Forall_impl; [|exact HF']. intros a. apply J_mono.
  - destruct (assignC g l) as [r'|] eqn:E2; [|discriminate]. injection H as <-.
    constructor; [apply J_mono; exact Hm|]. apply IH; [exact HF'|reflexivity].
Qed.

Lemma place_J past g (Hv : f_valid g = true) (Hse : f_start g <= f_end g) l :
  Forall (J past) l -> Forall (J (past ++ [g])) (placeC g l).
Proof.
  intros HF. unfold place. destruct (assignC g l) as [r|] eqn:E.
  - eapply assign_J; eassumption.
  - apply Forall_app. split.
    + eapply Forall_impl; [|exact HF]. intros a. apply J_mono.
    + constructor; [apply J_new; assumption|constructor].
Qed.

Lemma gplace_J past g (Hv : f_valid g = true) (Hse : f_start g <= f_end g) k : forall gs,
  Forall (J past) (gmols mol gs) -> Forall (J (past ++ [g])) (gmols mol (gplaceC g k gs)).
Proof.
  induction gs as [|[k' l] gs IH]; intros HF; cbn [gplace].
  - rewrite gmols_cons. cbn [gmols map concat]. rewrite app_nil_r. apply place_J; [assumption..|constructor].
  - rewrite gmols_cons in HF. apply Forall_app in HF. destruct HF as [H1 H2].
    destruct (k =? k'); rewrite gmols_cons; apply Forall_app; split.
    + apply place_J; assumption.
    + eapply Forall_impl; [|exact H2]. intros a. apply J_mono.
    + eapply Forall_impl; [|exact H1]. intros a. apply J_mono.
    + apply IH. exact H2.
Qed.

(* the geometric core: once can_be_yielded says yes, no later fragment of a well-ordered input matches *)
Lemma yieldable_dead L lag past g fut m :
  good_input L lag (past ++ g :: fut) ->
  0 <= L -> 0 <= lag -> 0 <= c_radius c -> 2 * (L + lag + c_radius c) <= c_cache c ->
  f_valid g = true ->
  J (past ++ [g]) m ->
  yieldable (c_cache c) g m = true ->
  dead_for frag mol (matchC c) f_valid fut m.
Proof.
  intros GI HL Hlag Hr Hineq Hvg HJ Hy. unfold dead_for. apply Forall_forall. intros h Hh Hvh.
  apply (far_no_match _ _ _ HJ).
  destruct (Z.eq_dec (f_chrom h) (m_chrom m)) as [Hch|Hch]; [right|left; exact Hch].
  destruct (gi_frag _ _ _ GI g) as [Hng Hglen]; [apply in_or_app; right; left; reflexivity|exact Hvg|].
  destruct (gi_frag _ _ _ GI h) as [_ Hhlen]; [apply in_or_app; right; right; exact Hh|exact Hvh|].
  unfold yieldable in Hy. rewrite Hng in Hy. apply can_be_yielded_true in Hy.
  destruct HJ as [Hne HJ].
  destruct (m_frags m) as [|x xs] eqn:Ex; [contradiction|].
  destruct (HJ x (or_introl eq_refl)) as (Hxin & Hvx & Hxc & Hxse & Hxs & Hxe).
  apply in_split in Hh. destruct Hh as (f1 & f2 & ->).
  (* g before h on the same contig *)
  assert (Hgh : f_chrom g = f_chrom h -> f_start g <= f_start h + lag).
  { intros E. apply (gi_lag _ _ _ GI past g f1 h f2); auto. }
  apply in_app_or in Hxin.
  destruct Hy as [Hy|[[Hcg Hy]|[Hcg Hy]]].
  - (* contig change: x lies strictly before g, h after g on x's contig: excluded by the block structure *)
    exfalso. destruct Hxin as [Hxin|[->|[]]]; [|lia].
    apply in_split in Hxin. destruct Hxin as (p1 & p2 & ->).
    assert (E : f_chrom g = f_chrom x).
    { apply (gi_blocks _ _ _ GI p1 x p2 g f1 h f2); auto; [|lia].
      rewrite <- !app_assoc. cbn. reflexivity. }
    lia.
  - (* "ahead of the position" cannot happen: the molecule's members arrived before g *)
    exfalso. destruct Hxin as [Hxin|[->|[]]]; [|lia].
    apply in_split in Hxin. destruct Hxin as (p1 & p2 & ->).
    assert (E : f_start x <= f_start g + lag).
    { apply (gi_lag _ _ _ GI p1 x p2 g (f1 ++ h :: f2)); auto; [|lia].
      rewrite <- !app_assoc. cbn. reflexivity. }
    lia.
  - (* beyond the span end by more than cache/2 *)
    assert (E : f_chrom g = f_chrom h) by lia. specialize (Hgh E). lia.
Qed.

Notation stepC := (step frag mol new_mol add_mol (matchC c) (hashC c) f_valid nochrom (yieldable (c_cache c)) (pidxC c)).
Notation safeC := (safe_from frag mol new_mol add_mol (matchC c) (hashC c) f_valid nochrom (yieldable (c_cache c))
                     (pidxC c) (c_yield_invalid c)).

Lemma in_gpicked p : forall gs m, In m (gpicked mol p gs) -> In m (gmols mol gs) /\ p m = true.
Proof.
  induction gs as [|[k l] gs IH]; intros m H; [destruct H|].
  unfold gpicked in H. cbn [map concat snd] in H. apply in_app_or in H. rewrite gmols_cons.
  destruct H as [H|H].
  - apply filter_In in H. destruct H as [H1 H2]. split; [apply in_or_app; left; exact H1|exact H2].
  - destruct (IH m H) as [H1 H2]. split; [apply in_or_app; right; exact H1|exact H2].
Qed.

Lemma in_gfilter p : forall gs m, In m (gmols mol (gfilter mol p gs)) -> In m (gmols mol gs).
Proof.
  induction gs as [|[k l] gs IH]; intros m H; [destruct H|].
  cbn [gfilter map fst snd] in H. rewrite gmols_cons in *. apply in_app_or in H. apply in_or_app.
  destruct H as [H|H].
  - left. apply filter_In in H. tauto.
  - right. apply IH. exact H.
Qed.

Lemma safe_concrete L lag all every :
  good_input L lag all ->
  0 <= L -> 0 <= lag -> 0 <= c_radius c -> 2 * (L + lag + c_radius c) <= c_cache c ->
  forall fs past st, all = past ++ fs -> Forall (J past) (gmols mol (st_groups mol st)) -> safeC every st fs.
Proof.
  intros GI HL Hlag Hr Hineq. induction fs as [|g fut IH]; intros past st Hall HJ; cbn [safe_from]; [exact I|].
  destruct (stepC every (c_yield_invalid c) st g) as [[st1 out] ok] eqn:S.
  assert (Hall' : all = (past ++ [g]) ++ fut) by (rewrite <- app_assoc; exact Hall).
  unfold step in S. destruct (f_valid g) eqn:Hv; cbn [negb] in S.
  - destruct (gi_frag _ _ _ GI g) as [Hng Hglen]; [rewrite Hall; apply in_or_app; right; left; reflexivity|exact Hv|].
    assert (HJ1 : Forall (J (past ++ [g])) (gmols mol (gplaceC g (hashC c g) (st_groups mol st)))).
    { apply gplace_J; [exact Hv|lia|exact HJ]. }
    destruct (eject_due _ _ _).
    + rewrite Hng in S. rewrite (geject_good mol (pidxC c) (pidxC_ok c)) in S. injection S as <- <- <-.
      split.
      * intros _. apply Forall_forall. intros m Hm. apply in_gpicked in Hm. destruct Hm as [Hm Hy].
        rewrite Forall_forall in HJ1. subst all.
        eapply yieldable_dead; eauto.
      * apply (IH (past ++ [g])); [exact Hall'|]. cbn [st_groups].
        apply Forall_forall. intros m Hm. apply in_gfilter in Hm. rewrite Forall_forall in HJ1. auto.
    + injection S as <- <- <-. split; [intros _; constructor|]. apply (IH (past ++ [g])); [exact Hall'|exact HJ1].
  - injection S as <- <- <-. split; [intros E; discriminate|].
    apply (IH (past ++ [g])); [exact Hall'|]. eapply Forall_impl; [|exact HJ]. intros a. apply J_mono.
Qed.
End Concrete.

(* ------------------------------------------------------------------ preb reflects good_input *)
Lemma lag_sortedb_split lag : forall vs, lag_sortedb lag vs = true ->
  forall l1 f l2 h l3, vs = l1 ++ f :: l2 ++ h :: l3 -> f_chrom f = f_chrom h -> f_start f <= f_start h + lag.
Proof.
  induction vs as [|a vs IH]; intros H l1 f l2 h l3 E Hc.
  - destruct l1; discriminate.
  - cbn [lag_sortedb] in H. apply andb_true_iff in H. destruct H as [H1 H2].
    destruct l1 as [|b l1]; cbn in E; injection E as -> ->.
    + rewrite forallb_forall in H1. specialize (H1 h).
      assert (Hin : In h (l2 ++ h :: l3)) by (apply in_or_app; right; left; reflexivity).
      specialize (H1 Hin). lia.
    + eapply IH; eauto.
Qed.

Lemma left_for_good_split cc : forall l, left_for_good cc l = true ->
  forall l2 g l3 h l4, l = l2 ++ g :: l3 ++ h :: l4 -> f_chrom h = cc -> f_chrom g = cc.
Proof.
  induction l as [|a l IH]; intros H l2 g l3 h l4 E Hh.
  - destruct l2; discriminate.
  - cbn [left_for_good] in H. destruct (f_chrom a =? cc) eqn:Ea.
    + destruct l2 as [|b l2]; cbn in E; injection E as -> ->; [lia|]. eapply IH; eauto.
    + exfalso. rewrite forallb_forall in H.
      destruct l2 as [|b l2]; cbn in E; injection E as -> ->.
      * assert (Hin : In h (l3 ++ h :: l4)) by (apply in_or_app; right; left; reflexivity).
        specialize (H h Hin). lia.
      * assert (Hin : In h (l2 ++ g :: l3 ++ h :: l4)).
        { apply in_or_app; right; right. apply in_or_app; right; left; reflexivity. }
        specialize (H h Hin). lia.
Qed.

Lemma blocksb_split : forall vs, blocksb vs = true ->
  forall l1 f l2 g l3 h l4, vs = l1 ++ f :: l2 ++ g :: l3 ++ h :: l4 -> f_chrom f = f_chrom h -> f_chrom g = f_chrom f.
Proof.
  induction vs as [|a vs IH]; intros H l1 f l2 g l3 h l4 E Hc.
  - destruct l1; discriminate.
  - cbn [blocksb] in H. apply andb_true_iff in H. destruct H as [H1 H2].
    destruct l1 as [|b l1]; cbn in E; injection E as -> ->.
    + eapply left_for_good_split; eauto.
    + eapply IH; eauto.
Qed.

Lemma filter_split2 (fs : list frag) l1 f l2 h l3 :
  fs = l1 ++ f :: l2 ++ h :: l3 -> f_valid f = true -> f_valid h = true ->
  filter f_valid fs = filter f_valid l1 ++ f :: filter f_valid l2 ++ h :: filter f_valid l3.
Proof. intros -> Hf Hh. rewrite filter_app. cbn. rewrite Hf, filter_app. cbn. rewrite Hh. reflexivity. Qed.

Lemma preb_good L lag c fs : preb L lag c fs = true ->
  good_input L lag fs /\ 0 <= L /\ 0 <= lag /\ 0 <= c_radius c /\ 2 * (L + lag + c_radius c) <= c_cache c.
Proof.
  unfold preb. intros H. repeat (apply andb_true_iff in H; destruct H as [H ?]).
  split; [|lia]. constructor.
  - intros f Hf Hv. rewrite forallb_forall in H. specialize (H f).
    assert (Hin : In f (filter f_valid fs)) by (apply filter_In; split; assumption).
    specialize (H Hin). lia.
  - intros l1 f l2 h l3 E Hf Hh Hc.
    eapply lag_sortedb_split; [eassumption| |exact Hc]. apply filter_split2; eassumption.
  - intros l1 f l2 g l3 h l4 E Hf Hg Hh Hc.
    eapply blocksb_split; [eassumption| |exact Hc].
    subst fs. rewrite filter_app. cbn. rewrite Hf, filter_app. cbn. rewrite Hg, filter_app. cbn. rewrite Hh. reflexivity.
Qed.

(* ------------------------------------------------------------------ the schedule theorems *)
Definition with_every (c : cfg) (e : option Z) : cfg :=
  mkCfg e (c_pooling c) (c_cache c) (c_radius c) (c_hd c) (c_yield_invalid c).

Lemma safe_run L lag c fs : preb L lag c fs = true ->
  safe_from frag mol new_mol add_mol (matchC c) (hashC c) f_valid nochrom (yieldable (c_cache c))
            (pidxC c) (c_yield_invalid c) (c_every c) (init mol) fs.
Proof.
  intros H. apply preb_good in H. destruct H as (GI & H1 & H2 & H3 & H4).
  eapply (safe_concrete c L lag fs (c_every c) GI H1 H2 H3 H4 fs []); [reflexivity|constructor].
Qed.

(* reading safe_from on the outputs of the run *)
Lemma safe_from_nth (c : cfg) : forall fs st outs st',
  run_from frag mol new_mol add_mol (matchC c) (hashC c) f_valid nochrom (yieldable (c_cache c)) (pidxC c)
           (c_every c) (c_yield_invalid c) st fs = (outs, st', true) ->
  safe_from frag mol new_mol add_mol (matchC c) (hashC c) f_valid nochrom (yieldable (c_cache c))
            (pidxC c) (c_yield_invalid c) (c_every c) st fs ->
  forall pre g post, fs = pre ++ g :: post -> f_valid g = true ->
  Forall (dead_for frag mol (matchC c) f_valid post) (nth (length pre) outs []).
Proof.
  induction fs as [|f fs IH]; intros st outs st' HR HS pre g post E Hv.
  - destruct pre; discriminate.
  - cbn [run_from] in HR. cbn [safe_from] in HS.
    destruct (step frag mol new_mol add_mol (matchC c) (hashC c) f_valid nochrom (yieldable (c_cache c)) (pidxC c)
                   (c_every c) (c_yield_invalid c) st f) as [[st1 out] ok] eqn:S.
    destruct HS as [HS1 HS2]. destruct ok; [|injection HR as _ _ HR; discriminate].
    destruct (run_from frag mol new_mol add_mol (matchC c) (hashC c) f_valid nochrom (yieldable (c_cache c)) (pidxC c)
                   (c_every c) (c_yield_invalid c) st1 fs) as [[o2 s2] k2] eqn:R2.
    injection HR as <- <- ->.
    destruct pre as [|a pre]; cbn in E; injection E as -> ->; cbn [length nth].
    + apply HS1. exact Hv.
    + eapply IH; eauto.
Qed.

Lemma no_early_eject L lag c fs outs fl : preb L lag c fs = true -> runC c fs = (outs, fl, true) ->
  forall pre g post m h, fs = pre ++ g :: post -> f_valid g = true ->
    In m (nth (length pre) outs []) -> In h post -> f_valid h = true -> matchC c m h = false.
Proof.
  intros Hpre HR pre g post m h E Hv Hm Hh Hvh.
  pose proof (safe_run L lag c fs Hpre) as HS.
  rewrite runC_unified in HR. unfold runU, run_machine in HR.
  destruct (run_from frag mol new_mol add_mol (matchC c) (hashC c) f_valid nochrom (yieldable (c_cache c)) (pidxC c)
                   (c_every c) (c_yield_invalid c) (init mol) fs) as [[o s] k] eqn:R.
  injection HR as <- <- ->.
  pose proof (safe_from_nth c fs (init mol) o s R HS pre g post E Hv) as HF.
  rewrite Forall_forall in HF. specialize (HF m Hm). unfold dead_for in HF. rewrite Forall_forall in HF.
  exact (HF h Hh Hvh).
Qed.

Lemma preb_every L lag c e fs : preb L lag (with_every c e) fs = preb L lag c fs.
Proof. reflexivity. Qed.

Lemma schedule_independent L lag c fs : preb L lag c fs = true ->
  Permutation (emitted mol (runC c fs)) (emitted mol (runC (with_every c None) fs)).
Proof.
  intros Hpre. pose proof (safe_run L lag c fs Hpre) as HS. rewrite !runC_unified.
  exact (sim_generic frag mol new_mol add_mol (matchC c) (hashC c) f_valid nochrom (yieldable (c_cache c))
           (pidxC c) (c_yield_invalid c) (pidxC_ok c) (c_every c) fs HS).
Qed.

Definition mol_ids (m : mol) : list Z := map f_id (m_frags m).

Lemma schedule_independent_ids L lag c fs : preb L lag c fs = true ->
  Permutation (map mol_ids (emitted mol (runC c fs))) (map mol_ids (emitted mol (runC (with_every c None) fs))).
Proof. intros H. apply Permutation_map. eapply schedule_independent. exact H. Qed.

(* ------------------------------------------------------------------ before the repairs (documentation of D10 / D31):
   the same machine with the expressions the source had *)
(* Molecule.can_be_yielded written out (so that these historical examples do not move with the source) *)
Definition yieldable_doc (cache : Z) (g : frag) (m : mol) : bool :=
  negb (f_chrom g =? m_chrom m) || (2 * f_end g <? 2 * m_start m - cache) || (2 * f_end g >? 2 * m_end m + cache).
Definition runC_with (pidx : Z -> Z -> Z) (matchm : mol -> frag -> bool) (c : cfg) (fs : list frag) :=
  frun_machine frag mol new_mol add_mol matchm f_valid nochrom (yieldable_doc (c_cache c)) pidx
               (c_every c) (c_yield_invalid c) fs.

(* Fragment.__eq__ as it was: no contig comparison *)
Definition fragment_eq_old (s_span_ok o_span_ok umi_ok : bool) (radius s_sample s_strand s_start s_end
                            o_sample o_strand o_start o_end : Z) : bool :=
  if negb (s_sample =? o_sample) then false else if negb (s_strand =? o_strand) then false
  else if negb s_span_ok || negb o_span_ok then false
  else if Z.min (Z.abs (s_start - o_start)) (Z.abs (s_end - o_end)) >? radius then false else umi_ok.
Definition match_flat_old (radius hd : Z) (m : mol) (f : frag) : bool :=
  existsb (fun g => fragment_eq_old true true (umi_eq hd (f_umi g) (f_umi f)) radius
                      (f_sample g) (f_strand g) (f_start g) (f_end g) (f_sample f) (f_strand f) (f_start f) (f_end f))
          (m_frags m).

Definition mkF (id chrom s e : Z) (umi : list Z) : frag := mkFrag id true 0 0 chrom s e umi 0.
Definition ex_cfg (e : option Z) : cfg := mkCfg e 0 40 0 0 false.
(* a long fragment, a short one, then two copies of a third fragment that arrive when only the short one is ejectable *)
Definition ex_d10 : list frag :=
  [mkF 0 0 100 110 [65]; mkF 1 0 101 103 [67]; mkF 2 0 125 127 [71]; mkF 3 0 125 127 [71]].
(* a, then another contig, then a fragment there with a's coordinates, sample, strand and UMI *)
Definition ex_d31 : list frag :=
  [mkF 0 0 100 110 [65]; mkF 1 1 50 60 [67]; mkF 2 1 100 110 [65]].

Definition ids_of (r : list (list mol) * list mol * bool) : list (list Z) := map mol_ids (emitted mol r).

(* a start-sorted library on one contig whose fragments are all shorter than cache_size = 40 but one is longer
   than cache_size/2 (outside the inequality of the schedule theorems) *)
Definition ex_gap : list frag := [mkF 0 0 100 110 [65]; mkF 1 0 105 136 [67]; mkF 2 0 106 110 [65]].

(* ------------------------------------------------------------------ several passes over one iterator object *)
Lemma iter_clears : iter_clears_at_start = true.
Proof. reflexivity. Qed.
Lemma clear_counter : clear_cache_counter = 0.
Proof. reflexivity. Qed.

(* whatever earlier (complete or abandoned) passes left in the buffers and the counter, a pass behaves like the
   pass of a fresh object: __iter__ starts by clearing *)
Lemma runC_after_fresh c buf ctr fs : runC_after c buf ctr fs = runC c fs.
Proof.
  unfold runC_after, runC. destruct (c_pooling c =? 0).
  - unfold frun_machine_from, fstart_state, frun_machine. rewrite iter_clears, clear_counter. reflexivity.
  - unfold run_machine_from, start_state, cleared, run_machine, init. rewrite iter_clears, clear_counter. reflexivity.
Qed.

Lemma emit_once_any_history c buf ctr fs outs fl :
  runC_after c buf ctr fs = (outs, fl, true) -> Permutation (members (concat outs ++ fl)) (filter (wantedC c) fs).
Proof. rewrite runC_after_fresh. apply emit_once. Qed.

(* documentation: the same pass WITHOUT the clear at the start, on the buffers an abandoned pass left behind *)
Definition run_dirty (c : cfg) (st : state mol) (fs : list frag) : list (list mol) * list mol * bool :=
  let '(outs, st', ok) :=
    run_from frag mol new_mol add_mol (matchC c) (hashC c) f_valid nochrom (yieldable_doc (c_cache c)) (fun i j => j - i)
             (c_every c) (c_yield_invalid c) st fs in (outs, flush mol st', ok).
