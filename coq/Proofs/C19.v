(* C19 proofs: the content invariant of HandleLimiter over an arbitrary OS-open oracle. *)
From Coq Require Import ZArith List Bool Lia Permutation.
Import ListNotations.
From SCMO Require Import Lib.Val Model.C19.
Open Scope Z_scope.

(* ------------------------------------------------------------------ basics *)
Lemma memZ_In : forall x l, memZ x l = true <-> In x l.
Proof.
  intros x l. unfold memZ. rewrite existsb_exists. split.
  - intros [y [Hy He]]. apply Z.eqb_eq in He. subst. exact Hy.
  - intros H. exists x. split; [exact H | apply Z.eqb_refl].
Qed.

Lemma memZ_false : forall x l, memZ x l = false <-> ~ In x l.
Proof.
  intros x l. rewrite <- memZ_In. destruct (memZ x l); split; intro H; congruence.
Qed.

Lemma fs_open_same : forall a p f, fs_open a p f p = if a then Some (content f p) else Some [].
Proof. intros. unfold fs_open. rewrite Z.eqb_refl. reflexivity. Qed.

Lemma fs_open_other : forall a p f q, q <> p -> fs_open a p f q = f q.
Proof. intros a p f q H. unfold fs_open. apply Z.eqb_neq in H. rewrite H. reflexivity. Qed.

Lemma fs_append_same : forall p s f, fs_append p s f p = Some (content f p ++ s).
Proof. intros. unfold fs_append. rewrite Z.eqb_refl. reflexivity. Qed.

Lemma fs_append_other : forall p s f q, q <> p -> fs_append p s f q = f q.
Proof. intros p s f q H. unfold fs_append. apply Z.eqb_neq in H. rewrite H. reflexivity. Qed.

(* ------------------------------------------------------------------ specification facts *)
Lemma writes_of_snoc : forall p l o,
  writes_of p (l ++ [o]) = writes_of p l ++ (if w_path o =? p then w_str o else []).
Proof.
  intros p l o. unfold writes_of. rewrite filter_app, map_app, concat_app. cbn [filter].
  destruct (w_path o =? p); cbn [map concat]; rewrite ?app_nil_r; reflexivity.
Qed.

Lemma writes_of_absent : forall p l, ~ In p (map w_path l) -> writes_of p l = [].
Proof.
  intros p l. unfold writes_of. induction l as [|o l IH]; intros H; [reflexivity|].
  cbn [filter]. destruct (w_path o =? p) eqn:E.
  - exfalso. apply H. left. apply Z.eqb_eq. exact E.
  - apply IH. intro H1. apply H. right. exact H1.
Qed.

Lemma first_op_none : forall p l, first_op p l = None <-> ~ In p (map w_path l).
Proof.
  intros p l. unfold first_op. induction l as [|o l IH]; cbn [find map In].
  - split; [intros _ H; exact H | reflexivity].
  - destruct (w_path o =? p) eqn:E.
    + split; [discriminate|]. intros H. exfalso. apply H. left. apply Z.eqb_eq. exact E.
    + rewrite IH. apply Z.eqb_neq in E. split.
      * intros H [H1|H1]; [exact (E H1) | exact (H H1)].
      * intros H H1. apply H. right. exact H1.
Qed.

Lemma first_op_some : forall p l o, first_op p l = Some o -> In o l /\ w_path o = p.
Proof.
  intros p l o H. unfold first_op in H. apply find_some in H. destruct H as [H1 H2].
  split; [exact H1 | apply Z.eqb_eq; exact H2].
Qed.

(* ------------------------------------------------------------------ prune / write_phase *)
Lemma paths_set_lastw : forall p t l, map fst (set_lastw p t l) = map fst l.
Proof.
  intros p t l. induction l as [|[q w] r IH]; [reflexivity|].
  cbn [set_lastw map]. rewrite IH. destruct (q =? p); reflexivity.
Qed.

Lemma length_set_lastw : forall p t l, length (set_lastw p t l) = length l.
Proof.
  intros p t l. rewrite <- (map_length fst), paths_set_lastw, map_length. reflexivity.
Qed.

Lemma prune_fs : forall c st, fs (prune c st) = fs st.
Proof. reflexivity. Qed.
Lemma prune_seen : forall c st, seen (prune c st) = seen st.
Proof. reflexivity. Qed.
Lemma prune_att : forall c st, att (prune c st) = att st.
Proof. reflexivity. Qed.
Lemma prune_paths : forall c st q, In q (paths (prune c st)) -> In q (paths st).
Proof.
  intros c st q. unfold paths, prune. cbn [opens]. rewrite !in_map_iff.
  intros [h [Hq Hin]]. apply filter_In in Hin. exists h. split; [exact Hq | apply Hin].
Qed.

Lemma wp_fs : forall c st o q,
  fs (write_phase c st o) q = fs_append (w_path o) (w_str o) (fs st) q.
Proof. intros. unfold write_phase. destruct (pruneEvery c <=? _); reflexivity. Qed.
Lemma wp_seen : forall c st o, seen (write_phase c st o) = seen st.
Proof. intros. unfold write_phase. destruct (pruneEvery c <=? _); reflexivity. Qed.
Lemma wp_att : forall c st o, att (write_phase c st o) = att st.
Proof. intros. unfold write_phase. destruct (pruneEvery c <=? _); reflexivity. Qed.
Lemma wp_paths : forall c st o q, In q (paths (write_phase c st o)) -> In q (paths st).
Proof.
  intros c st o q. unfold write_phase. destruct (pruneEvery c <=? _).
  - intros H. apply prune_paths in H. unfold paths in *. cbn [opens] in H.
    rewrite paths_set_lastw in H. exact H.
  - unfold paths. cbn [opens]. rewrite paths_set_lastw. intros H; exact H.
Qed.

(* ------------------------------------------------------------------ open_phase *)
Definition hopeless (orc : oracle) (o : wop) (st : state) : Prop :=
  exists i, att st = S i /\ orc i (w_path o) 0%nat = true /\ opens st = [].

Lemma open_ok : forall c orc st o st', fixed c = true ->
  open_phase c orc st o = Ok st' ->
  (forall q, fs st' q = fs_open (append_mode st o) (w_path o) (fs st) q) /\
  seen st' = (if append_mode st o then seen st else w_path o :: seen st) /\
  (forall q, In q (paths st') -> q = w_path o \/ In q (paths st)).
Proof.
  intros c orc st o st' Hfix H. unfold open_phase in H.
  destruct (orc (att st) (w_path o) (length (opens st))) eqn:E1.
  - destruct (0 <? Z.of_nat (length (opens st))) eqn:E2; [|discriminate].
    cbn [att close_all os_open] in H.
    destruct (orc (S (att st)) (w_path o) 0%nat) eqn:E3; [discriminate|].
    rewrite Hfix in H. injection H as H. subst st'. cbn [fs seen register os_open close_all].
    split; [reflexivity|]. split; [reflexivity|].
    intros q. unfold paths. cbn [opens register os_open close_all app map]. intros [Hq|[]].
    left. symmetry. exact Hq.
  - injection H as H. subst st'. cbn [fs seen register os_open].
    split; [reflexivity|]. split; [reflexivity|].
    intros q. unfold paths. cbn [opens register os_open]. rewrite map_app, in_app_iff.
    cbn [map fst In]. intros [Hq|[Hq|[]]]; [right; exact Hq | left; symmetry; exact Hq].
Qed.

Lemma open_raise : forall c orc st o e st', fixed c = true ->
  open_phase c orc st o = Raise e st' ->
  e = EOS /\ (forall q, fs st' q = fs st q) /\ seen st' = seen st /\
  (forall q, In q (paths st') -> In q (paths st)) /\ hopeless orc o st'.
Proof.
  intros c orc st o e st' Hfix H. unfold open_phase in H.
  destruct (orc (att st) (w_path o) (length (opens st))) eqn:E1; [|discriminate].
  destruct (0 <? Z.of_nat (length (opens st))) eqn:E2.
  - cbn [att close_all os_open] in H.
    destruct (orc (S (att st)) (w_path o) 0%nat) eqn:E3.
    + injection H as He H. subst st'. split; [symmetry; exact He|].
      cbn [fs seen os_open close_all]. split; [reflexivity|]. split; [reflexivity|].
      split; [intros q []|].
      exists (S (att st)). cbn [att opens os_open close_all]. auto.
    + rewrite Hfix in H. discriminate.
  - injection H as He H. subst st'. split; [symmetry; exact He|].
    cbn [fs seen os_open]. split; [reflexivity|]. split; [reflexivity|].
    split; [intros q Hq; exact Hq|].
    exists (att st). cbn [att opens os_open].
    assert (Hl : length (opens st) = 0%nat) by (apply Z.ltb_ge in E2; lia).
    rewrite Hl in E1. split; [reflexivity|]. split; [exact E1|].
    destruct (opens st); [reflexivity | discriminate].
Qed.

(* ------------------------------------------------------------------ the invariant *)
Definition pre (init : Z -> option str) (fa_of : Z -> bool) (p : Z) : str :=
  if fa_of p then content init p else [].

Record Inv (init : Z -> option str) (fa_of : Z -> bool) (done : list wop) (st : state) : Prop := {
  inv_written : forall p, In p (map w_path done) ->
                fs st p = Some (pre init fa_of p ++ writes_of p done);
  inv_untouched : forall p, ~ In p (map w_path done) -> fs st p = init p;
  inv_seen : forall p, In p (seen st) <-> (In p (map w_path done) /\ fa_of p = false);
  inv_open : forall p, In p (paths st) -> In p (map w_path done)
}.

Lemma inv_init : forall init fa_of, Inv init fa_of [] (init_state init).
Proof.
  intros. split; cbn [map In init_state fs seen paths opens].
  - intros p [].
  - reflexivity.
  - intros p. split; [intros [] | intros [[] _]].
  - intros p [].
Qed.

Lemma in_snoc : forall p done o,
  In p (map w_path (done ++ [o])) <-> In p (map w_path done) \/ p = w_path o.
Proof.
  intros. rewrite map_app, in_app_iff. cbn [map In]. split.
  - intros [H|[H|[]]]; [left; exact H | right; symmetry; exact H].
  - intros [H|H]; [left; exact H | right; left; symmetry; exact H].
Qed.

(* what the file system must look like after appending to a file whose previous state is right *)
Lemma step_fs : forall init fa_of done o st f',
  Inv init fa_of done st ->
  (forall q, q <> w_path o -> f' q = fs st q) ->
  f' (w_path o) = Some (pre init fa_of (w_path o) ++ writes_of (w_path o) done ++ w_str o) ->
  (forall p, In p (map w_path (done ++ [o])) ->
             f' p = Some (pre init fa_of p ++ writes_of p (done ++ [o]))) /\
  (forall p, ~ In p (map w_path (done ++ [o])) -> f' p = init p).
Proof.
  intros init fa_of done o st f' HI Hoth Hsame. split.
  - intros p Hp. rewrite writes_of_snoc. destruct (Z.eq_dec p (w_path o)) as [E|E].
    + subst p. rewrite Z.eqb_refl. exact Hsame.
    + assert (E' : (w_path o =? p) = false) by (apply Z.eqb_neq; congruence).
      rewrite E', app_nil_r, (Hoth p E). apply (inv_written _ _ _ _ HI).
      apply in_snoc in Hp. destruct Hp as [Hp|Hp]; [exact Hp | contradiction].
  - intros p Hp. rewrite in_snoc in Hp.
    assert (E : p <> w_path o) by (intro E; apply Hp; right; exact E).
    rewrite (Hoth p E). apply (inv_untouched _ _ _ _ HI). intro H. apply Hp. left. exact H.
Qed.

Lemma write_ok : forall c orc init fa_of done st o st',
  fixed c = true -> Inv init fa_of done st -> w_fa o = fa_of (w_path o) ->
  write c orc st o = Ok st' -> Inv init fa_of (done ++ [o]) st'.
Proof.
  intros c orc init fa_of done st o st' Hfix HI Hfa H. unfold write in H.
  destruct (memZ (w_path o) (paths st)) eqn:Eopen.
  - (* handle already open: plain append *)
    injection H as H. subst st'. apply memZ_In in Eopen.
    pose proof (inv_open _ _ _ _ HI _ Eopen) as Hdone.
    destruct (step_fs init fa_of done o st (fs (write_phase c st o)) HI) as [Hw Hu].
    + intros q Hq. rewrite wp_fs. apply fs_append_other. exact Hq.
    + rewrite wp_fs, fs_append_same. unfold content.
      rewrite (inv_written _ _ _ _ HI _ Hdone), app_assoc. reflexivity.
    + split; [exact Hw | exact Hu | |].
      * intros p. rewrite wp_seen, (inv_seen _ _ _ _ HI p), in_snoc. split.
        -- intros [H1 H2]. split; [left; exact H1 | exact H2].
        -- intros [[H1|H1] H2]; (split; [|exact H2]); [exact H1 | subst p; exact Hdone].
      * intros p Hp. apply wp_paths in Hp. apply in_snoc. left. apply (inv_open _ _ _ _ HI _ Hp).
  - (* open first *)
    destruct (open_phase c orc st o) as [st1|e st1] eqn:Eop; [|discriminate].
    injection H as H. subst st'.
    destruct (open_ok c orc st o st1 Hfix Eop) as [Hfs1 [Hseen1 Hpaths1]].
    set (p0 := w_path o) in *.
    (* the open mode is right: append iff the file already holds this writer's data or forceAppend *)
    assert (Hmode : content (fs st1) p0 = pre init fa_of p0 ++ writes_of p0 done).
    { unfold content at 1. rewrite Hfs1, fs_open_same. unfold append_mode. fold p0.
      destruct (in_dec Z.eq_dec p0 (map w_path done)) as [Hin|Hnin].
      - assert (Ha : memZ p0 (seen st) || w_fa o = true).
        { destruct (fa_of p0) eqn:Ef.
          - rewrite Hfa. apply orb_true_r.
          - apply orb_true_iff. left. apply memZ_In. apply (inv_seen _ _ _ _ HI). split; assumption. }
        rewrite Ha. unfold content. rewrite (inv_written _ _ _ _ HI _ Hin). reflexivity.
      - rewrite (writes_of_absent _ _ Hnin), app_nil_r. unfold pre.
        destruct (fa_of p0) eqn:Ef.
        + rewrite Hfa, orb_true_r. unfold content.
          rewrite (inv_untouched _ _ _ _ HI _ Hnin). reflexivity.
        + assert (Hns : memZ p0 (seen st) = false).
          { apply memZ_false. intro Hs. apply (inv_seen _ _ _ _ HI) in Hs. apply Hnin. apply Hs. }
          rewrite Hns, Hfa. reflexivity. }
    destruct (step_fs init fa_of done o st (fs (write_phase c st1 o)) HI) as [Hw Hu].
    + intros q Hq. rewrite wp_fs, fs_append_other by exact Hq. rewrite Hfs1.
      apply fs_open_other. exact Hq.
    + rewrite wp_fs. fold p0. rewrite fs_append_same, Hmode, app_assoc. reflexivity.
    + split; [exact Hw | exact Hu | |].
      * intros p. rewrite wp_seen, Hseen1, in_snoc. unfold append_mode. fold p0.
        destruct (memZ p0 (seen st)) eqn:Es; cbn [orb].
        -- rewrite (inv_seen _ _ _ _ HI p). split.
           ++ intros [H1 H2]. split; [left; exact H1 | exact H2].
           ++ intros [[H1|H1] H2]; [split; assumption|]. subst p.
              apply memZ_In in Es. apply (inv_seen _ _ _ _ HI) in Es. exact Es.
        -- destruct (w_fa o) eqn:Ew.
           ++ rewrite (inv_seen _ _ _ _ HI p). split.
              ** intros [H1 H2]. split; [left; exact H1 | exact H2].
              ** intros [[H1|H1] H2]; [split; assumption|]. subst p. congruence.
           ++ cbn [In]. rewrite (inv_seen _ _ _ _ HI p). split.
              ** intros [H1|[H1 H2]].
                 --- subst p. split; [right; reflexivity | congruence].
                 --- split; [left; exact H1 | exact H2].
              ** intros [[H1|H1] H2]; [right; split; assumption | left; symmetry; exact H1].
      * intros p Hp. apply wp_paths in Hp. apply Hpaths1 in Hp. apply in_snoc.
        destruct Hp as [Hp|Hp]; [right; exact Hp | left; apply (inv_open _ _ _ _ HI _ Hp)].
Qed.

Lemma write_raise : forall c orc st o e st', fixed c = true ->
  write c orc st o = Raise e st' ->
  e = EOS /\ (forall q, fs st' q = fs st q) /\ seen st' = seen st /\
  (forall q, In q (paths st') -> In q (paths st)) /\ hopeless orc o st'.
Proof.
  intros c orc st o e st' Hfix H. unfold write in H.
  destruct (memZ (w_path o) (paths st)); [discriminate|].
  destruct (open_phase c orc st o) as [st1|e1 st1] eqn:Eop; [discriminate|].
  injection H as He H. subst e1 st1. exact (open_raise c orc st o e st' Hfix Eop).
Qed.

Lemma inv_raise : forall init fa_of done st st',
  Inv init fa_of done st -> (forall q, fs st' q = fs st q) -> seen st' = seen st ->
  (forall q, In q (paths st') -> In q (paths st)) -> Inv init fa_of done st'.
Proof.
  intros init fa_of done st st' HI Hf Hs Hp. split.
  - intros p H. rewrite Hf. apply (inv_written _ _ _ _ HI _ H).
  - intros p H. rewrite Hf. apply (inv_untouched _ _ _ _ HI _ H).
  - intros p. rewrite Hs. apply (inv_seen _ _ _ _ HI).
  - intros p H. apply (inv_open _ _ _ _ HI). apply Hp. exact H.
Qed.

(* ------------------------------------------------------------------ the run *)
Lemma run_inv : forall c orc init fa_of ops done st n k r,
  fixed c = true -> Inv init fa_of done st ->
  Forall (fun o => w_fa o = fa_of (w_path o)) ops ->
  run_from c orc ops st n = (k, r) ->
  exists m, k = (n + m)%nat /\ (m <= length ops)%nat /\
            Inv init fa_of (done ++ firstn m ops) (state_of r) /\
            match r with
            | Ok _ => m = length ops
            | Raise e st' => (m < length ops)%nat /\ e = EOS /\
                             exists o, nth_error ops m = Some o /\ hopeless orc o st'
            end.
Proof.
  intros c orc init fa_of ops. induction ops as [|o ops IH]; intros done st n k r Hfix HI Hfa H.
  - cbn [run_from] in H. injection H as Hk Hr. subst k r. exists 0%nat.
    cbn [firstn length state_of]. rewrite app_nil_r. split; [lia|]. split; [lia|]. split; [exact HI | reflexivity].
  - cbn [run_from] in H. inversion Hfa as [|o' ops' Hfa1 Hfa2]. subst o' ops'.
    destruct (write c orc st o) as [st1|e st1] eqn:Ew.
    + pose proof (write_ok c orc init fa_of done st o st1 Hfix HI Hfa1 Ew) as HI1.
      destruct (IH (done ++ [o]) st1 (S n) k r Hfix HI1 Hfa2 H) as [m [Hk [Hm [HI2 Hr]]]].
      exists (S m). cbn [firstn length]. rewrite <- app_assoc in HI2. cbn [app] in HI2.
      split; [lia|]. split; [lia|]. split; [exact HI2|].
      destruct r as [s|e s].
      * lia.
      * destruct Hr as [Hlt [He Ho]]. split; [lia|]. split; [exact He|]. exact Ho.
    + injection H as Hk Hr. subst k r.
      destruct (write_raise c orc st o e st1 Hfix Ew) as [He [Hf [Hs [Hp Hh]]]].
      exists 0%nat. cbn [firstn length state_of nth_error]. rewrite app_nil_r.
      split; [lia|]. split; [lia|].
      split; [exact (inv_raise init fa_of done st st1 HI Hf Hs Hp)|].
      split; [lia|]. split; [exact He|]. exists o. split; [reflexivity | exact Hh].
Qed.

(* the raise part does not need the content invariant, hence no assumption on forceAppend *)
Lemma run_raise : forall c orc ops st n k e st',
  fixed c = true -> run_from c orc ops st n = (k, Raise e st') ->
  exists m, k = (n + m)%nat /\ e = EOS /\ exists o, nth_error ops m = Some o /\ hopeless orc o st'.
Proof.
  intros c orc ops. induction ops as [|o ops IH]; intros st n k e st' Hfix H.
  - cbn [run_from] in H. discriminate.
  - cbn [run_from] in H. destruct (write c orc st o) as [st1|e1 st1] eqn:Ew.
    + destruct (IH st1 (S n) k e st' Hfix H) as [m [Hk [He Ho]]].
      exists (S m). split; [lia|]. split; [exact He|]. exact Ho.
    + injection H as Hk He Hs. subst k e1 st1.
      destruct (write_raise c orc st o e st' Hfix Ew) as [He [_ [_ [_ Hh]]]].
      exists 0%nat. split; [lia|]. split; [exact He|]. exists o. split; [reflexivity | exact Hh].
Qed.

(* ------------------------------------------------------------------ consistency of forceAppend *)
Definition fa_first (ops : list wop) (p : Z) : bool :=
  match first_op p ops with Some o => w_fa o | None => false end.

Lemma fa_consistent_forall : forall ops, fa_consistentb ops = true ->
  Forall (fun o => w_fa o = fa_first ops (w_path o)) ops.
Proof.
  intros ops H. unfold fa_consistentb in H. rewrite forallb_forall in H.
  apply Forall_forall. intros o Ho. specialize (H o Ho). unfold fa_first.
  destruct (first_op (w_path o) ops) as [o1|] eqn:E.
  - apply eqb_prop in H. symmetry. exact H.
  - exfalso. apply first_op_none in E. apply E. apply in_map. exact Ho.
Qed.

Lemma Forall_firstn : forall A (P : A -> Prop) m l, Forall P l -> Forall P (firstn m l).
Proof.
  intros A P m. induction m as [|m IH]; intros l H; [constructor|].
  destruct l as [|x l]; [constructor|]. cbn [firstn]. inversion H as [|x' l' H1 H2]. subst.
  constructor; [exact H1 | apply IH; exact H2].
Qed.

Lemma inv_expected : forall init fa_of done st,
  Inv init fa_of done st -> Forall (fun o => w_fa o = fa_of (w_path o)) done ->
  forall p, fs st p = expected init done p.
Proof.
  intros init fa_of done st HI Hfa p. unfold expected.
  destruct (first_op p done) as [o|] eqn:E.
  - destruct (first_op_some _ _ _ E) as [Hin Hp].
    rewrite Forall_forall in Hfa. rewrite (Hfa o Hin), Hp.
    apply (inv_written _ _ _ _ HI). rewrite <- Hp. apply in_map. exact Hin.
  - apply (inv_untouched _ _ _ _ HI). apply first_op_none. exact E.
Qed.

(* ------------------------------------------------------------------ main statements *)
Lemma prefix : forall c orc init ops k r,
  fixed c = true -> fa_consistentb ops = true ->
  run_ops c orc init ops = (k, r) ->
  (k <= length ops)%nat /\
  (forall p, fs (close_all (state_of r)) p = expected init (firstn k ops) p) /\
  (k = length ops <-> exists st, r = Ok st).
Proof.
  intros c orc init ops k r Hfix Hc H. unfold run_ops in H.
  pose proof (fa_consistent_forall ops Hc) as Hfa.
  destruct (run_inv c orc init (fa_first ops) ops [] (init_state init) 0%nat k r Hfix
                    (inv_init init (fa_first ops)) Hfa H) as [m [Hk [Hm [HI Hr]]]].
  cbn [app plus] in Hk, HI. subst m. split; [exact Hm|]. split.
  - intros p. cbn [close_all fs].
    apply (inv_expected init (fa_first ops) (firstn k ops) (state_of r) HI).
    apply Forall_firstn. exact Hfa.
  - destruct r as [s|e s].
    + split; [intros _; exists s; reflexivity | intros _; exact Hr].
    + destruct Hr as [Hlt _]. split; [lia | intros [st Hst]; discriminate].
Qed.

Lemma raise_only_if_hopeless : forall c orc init ops k e st,
  fixed c = true -> run_ops c orc init ops = (k, Raise e st) ->
  e = EOS /\ exists o i, nth_error ops k = Some o /\ att st = S i /\
                         orc i (w_path o) 0%nat = true /\ opens st = [].
Proof.
  intros c orc init ops k e st Hfix H. unfold run_ops in H.
  destruct (run_raise c orc ops (init_state init) 0%nat k e st Hfix H) as [m [Hk [He [o [Hn Hh]]]]].
  cbn [plus] in Hk. subst m. split; [exact He|]. destruct Hh as [i [H1 [H2 H3]]].
  exists o, i. auto.
Qed.

Lemma no_raise : forall c orc init ops,
  fixed c = true ->
  (forall i o, In o ops -> orc i (w_path o) 0%nat = false) ->
  exists st, run_ops c orc init ops = (length ops, Ok st).
Proof.
  intros c orc init ops Hfix Horc.
  destruct (run_ops c orc init ops) as [k r] eqn:E. destruct r as [s|e s].
  - exists s. unfold run_ops in E.
    assert (Hk : forall ops st n k s, run_from c orc ops st n = (k, Ok s) -> k = (n + length ops)%nat).
    { clear. intros ops. induction ops as [|o ops IH]; intros st n k s H; cbn [run_from] in H.
      - injection H as Hk _. cbn [length]. lia.
      - destruct (write c orc st o); [|discriminate]. apply IH in H. cbn [length]. lia. }
    apply Hk in E. cbn [plus] in E. subst k. reflexivity.
  - exfalso. destruct (raise_only_if_hopeless c orc init ops k e s Hfix E) as [_ [o [i [Hn [_ [Ho _]]]]]].
    apply nth_error_In in Hn. rewrite (Horc i o Hn) in Ho. discriminate.
Qed.

Lemma content_thm : forall c orc init ops,
  fixed c = true -> fa_consistentb ops = true ->
  (forall i o, In o ops -> orc i (w_path o) 0%nat = false) ->
  exists st, run_ops c orc init ops = (length ops, Ok st) /\
             opens (close_all st) = [] /\
             forall p, fs (close_all st) p = expected init ops p.
Proof.
  intros c orc init ops Hfix Hc Horc.
  destruct (no_raise c orc init ops Hfix Horc) as [st Hst]. exists st. split; [exact Hst|].
  split; [reflexivity|].
  destruct (prefix c orc init ops (length ops) (Ok st) Hfix Hc Hst) as [_ [Hp _]].
  rewrite firstn_all in Hp. exact Hp.
Qed.

Lemma no_fa_consistent : forall ops, (forall o, In o ops -> w_fa o = false) -> fa_consistentb ops = true.
Proof.
  intros ops H. unfold fa_consistentb. apply forallb_forall. intros o Ho.
  destruct (first_op (w_path o) ops) as [o1|] eqn:E; [|reflexivity].
  apply first_op_some in E. destruct E as [E _]. rewrite (H o Ho), (H o1 E). reflexivity.
Qed.

Lemma content_plain : forall c orc init ops,
  fixed c = true -> (forall o, In o ops -> w_fa o = false) ->
  (forall i o, In o ops -> orc i (w_path o) 0%nat = false) ->
  exists st, run_ops c orc init ops = (length ops, Ok st) /\
             opens (close_all st) = [] /\
             (forall p, In p (map w_path ops) -> fs (close_all st) p = Some (writes_of p ops)) /\
             (forall p, ~ In p (map w_path ops) -> fs (close_all st) p = init p).
Proof.
  intros c orc init ops Hfix Hfa Horc.
  destruct (content_thm c orc init ops Hfix (no_fa_consistent ops Hfa) Horc) as [st [H1 [H2 H3]]].
  exists st. split; [exact H1|]. split; [exact H2|]. split.
  - intros p Hp. rewrite H3. unfold expected. destruct (first_op p ops) as [o|] eqn:E.
    + apply first_op_some in E. destruct E as [E _]. rewrite (Hfa o E). reflexivity.
    + exfalso. apply first_op_none in E. exact (E Hp).
  - intros p Hp. rewrite H3. unfold expected. apply first_op_none in Hp. rewrite Hp. reflexivity.
Qed.

(* a fault script accepted by script_goodb satisfies the oracle hypothesis *)
Lemma script_good_sound : forall s ops, script_goodb s ops = true ->
  forall i o, In o ops -> script_oracle s i (w_path o) 0%nat = false.
Proof.
  intros s ops H i o Ho. unfold script_goodb in H. apply andb_true_iff in H. destruct H as [H1 H2].
  rewrite forallb_forall in H2. specialize (H2 o Ho). apply negb_true_iff in H2.
  unfold script_oracle. rewrite H2. destruct (s_hard s) eqn:Eh; [|discriminate].
  cbn [memZ existsb Z.of_nat]. rewrite !andb_false_r.
  replace (s_limit s <=? 0) with (negb (0 <? s_limit s)) by (destruct (Z.ltb_spec 0 (s_limit s)), (Z.leb_spec (s_limit s) 0); cbn; lia || reflexivity).
  destruct (0 <? s_limit s); reflexivity.
Qed.

(* ------------------------------------------------------------------ the handle bound *)
Lemma ins_perm : forall h l, Permutation (ins_lastw h l) (h :: l).
Proof.
  intros h l. induction l as [|x r IH]; cbn [ins_lastw]; [apply Permutation_refl|].
  destruct (snd x <? snd h).
  - eapply perm_trans; [apply perm_skip; exact IH | apply perm_swap].
  - apply Permutation_refl.
Qed.

Lemma sort_perm : forall l, Permutation (sort_lastw l) l.
Proof.
  intros l. unfold sort_lastw. induction l as [|h l IH]; cbn [fold_right]; [apply perm_nil|].
  eapply perm_trans; [apply ins_perm | apply perm_skip; exact IH].
Qed.

Lemma filter_length_perm : forall A (f : A -> bool) l l',
  Permutation l l' -> length (filter f l) = length (filter f l').
Proof.
  intros A f l l' H. induction H as [|x l l' H IH|x y l|l l' l'' H1 IH1 H2 IH2]; cbn [filter].
  - reflexivity.
  - destruct (f x); cbn [length]; rewrite IH; reflexivity.
  - destruct (f x), (f y); reflexivity.
  - rewrite IH1. exact IH2.
Qed.

Lemma filter_len_le : forall A (f : A -> bool) l, (length (filter f l) <= length l)%nat.
Proof.
  intros A f l. induction l as [|x l IH]; cbn [filter length]; [lia|].
  destruct (f x); cbn [length]; lia.
Qed.

Lemma filter_victims_length : forall (l s : list (Z * Z)) m,
  Permutation s l ->
  (length (filter (fun h => negb (memZ (fst h) (map fst (firstn m s)))) l) <= length l - m)%nat.
Proof.
  intros l s m HP. rewrite <- (filter_length_perm _ _ _ _ HP), <- (Permutation_length HP).
  set (v := map fst (firstn m s)).
  rewrite <- (firstn_skipn m s) at 1 2. rewrite filter_app, !app_length.
  assert (H0 : filter (fun h => negb (memZ (fst h) v)) (firstn m s) = []).
  { assert (Hall : forall h, In h (firstn m s) -> In (fst h) v) by (intros h Hh; apply in_map; exact Hh).
    revert Hall. generalize (firstn m s). intros t. induction t as [|h t IH]; intros Hall; [reflexivity|].
    cbn [filter]. assert (Hm : memZ (fst h) v = true) by (apply memZ_In; apply Hall; left; reflexivity).
    rewrite Hm. cbn [negb]. apply IH. intros h' Hh'. apply Hall. right. exact Hh'. }
  rewrite H0. cbn [length plus].
  pose proof (filter_len_le _ (fun h => negb (memZ (fst h) v)) (skipn m s)) as Hle.
  rewrite skipn_length in Hle. rewrite firstn_length, skipn_length. lia.
Qed.

Lemma prune_length : forall c st,
  Z.of_nat (length (opens (prune c st))) <= Z.max 0 (maxHandles c)
  \/ (length (opens (prune c st)) = length (opens st) /\ Z.of_nat (length (opens st)) <= maxHandles c).
Proof.
  intros c st. unfold prune, victims. cbn [opens].
  set (n := Z.of_nat (length (opens st))).
  destruct (maxHandles c <? n) eqn:E.
  - left. apply Z.ltb_lt in E.
    pose proof (filter_victims_length (opens st) (sort_lastw (opens st))
                 (Z.to_nat (Z.min (n - maxHandles c) n)) (sort_perm (opens st))) as H.
    fold n in H. unfold n in *. lia.
  - right. apply Z.ltb_ge in E. cbn [map memZ existsb negb]. split; [|exact E].
    f_equal. clear. induction (opens st) as [|h l IH]; [reflexivity|]. cbn [filter]. rewrite IH. reflexivity.
Qed.

Definition bounded (c : cfg) (st : state) : Prop :=
  0 <= ctr st <= Z.max 0 (pruneEvery c - 1) /\
  Z.of_nat (length (opens st)) <= Z.max 0 (maxHandles c) + ctr st.

Lemma wp_bounded : forall c st o,
  0 <= ctr st <= Z.max 0 (pruneEvery c - 1) ->
  Z.of_nat (length (opens st)) <= Z.max 0 (maxHandles c) + ctr st + 1 ->
  bounded c (write_phase c st o).
Proof.
  intros c st o Hc Hl. unfold write_phase, bounded. cbn [ctr].
  destruct (pruneEvery c <=? ctr st + 1) eqn:E.
  - match goal with |- context [prune c ?s] => pose proof (prune_length c s) as HP end.
    cbn [opens] in HP. rewrite length_set_lastw in HP.
    assert (Hctr : ctr (prune c {| opens := set_lastw (w_path o) (clock st) (opens st); seen := seen st;
       ctr := ctr st + 1; clock := clock st + 1; att := att st;
       fs := fs_append (w_path o) (w_str o) (fs st); trace := trace st |}) = 0) by reflexivity.
    rewrite Hctr. split; [lia|]. destruct HP as [HP|[HP1 HP2]]; [lia|]. rewrite HP1. lia.
  - apply Z.leb_gt in E. cbn [ctr opens]. rewrite length_set_lastw. lia.
Qed.

Lemma write_bounded : forall c orc st o st',
  bounded c st -> write c orc st o = Ok st' -> bounded c st'.
Proof.
  intros c orc st o st' [Hc Hl] H. unfold write in H.
  destruct (memZ (w_path o) (paths st)).
  - injection H as H. subst st'. apply wp_bounded; [exact Hc | lia].
  - destruct (open_phase c orc st o) as [st1|e st1] eqn:Eop; [|discriminate].
    injection H as H. subst st'. unfold open_phase in Eop.
    destruct (orc (att st) (w_path o) (length (opens st))).
    + destruct (0 <? Z.of_nat (length (opens st))); [|discriminate].
      cbn [att close_all os_open] in Eop.
      destruct (orc (S (att st)) (w_path o) 0%nat); [discriminate|].
      destruct (fixed c); [|discriminate]. injection Eop as Eop. subst st1.
      apply wp_bounded; cbn [ctr opens register os_open close_all app length]; lia.
    + injection Eop as Eop. subst st1.
      apply wp_bounded; cbn [ctr opens register os_open]; [exact Hc|].
      rewrite app_length. cbn [length]. lia.
Qed.

Lemma write_raise_bounded : forall c orc st o e st',
  bounded c st -> write c orc st o = Raise e st' -> bounded c st'.
Proof.
  intros c orc st o e st' [Hc Hl] H. unfold write in H.
  destruct (memZ (w_path o) (paths st)); [discriminate|].
  destruct (open_phase c orc st o) as [st1|e1 st1] eqn:Eop; [discriminate|].
  injection H as He H. subst e1 st1. unfold open_phase in Eop.
  destruct (orc (att st) (w_path o) (length (opens st))); [|discriminate].
  destruct (0 <? Z.of_nat (length (opens st))).
  - cbn [att close_all os_open] in Eop.
    destruct (orc (S (att st)) (w_path o) 0%nat).
    + injection Eop as _ Eop. subst st'. unfold bounded. cbn [ctr opens os_open close_all length]. lia.
    + destruct (fixed c); [discriminate|]. injection Eop as _ Eop. subst st'.
      unfold bounded. cbn [ctr opens os_open close_all length]. lia.
  - injection Eop as _ Eop. subst st'. unfold bounded. cbn [ctr opens os_open]. lia.
Qed.

Lemma run_bounded : forall c orc ops st n k r,
  bounded c st -> run_from c orc ops st n = (k, r) -> bounded c (state_of r).
Proof.
  intros c orc ops. induction ops as [|o ops IH]; intros st n k r Hb H; cbn [run_from] in H.
  - injection H as _ Hr. subst r. exact Hb.
  - destruct (write c orc st o) as [st1|e st1] eqn:Ew.
    + apply (IH st1 (S n) k r); [|exact H]. exact (write_bounded c orc st o st1 Hb Ew).
    + injection H as _ Hr. subst r. exact (write_raise_bounded c orc st o e st1 Hb Ew).
Qed.

Lemma handles_bounded : forall c orc init ops k r,
  run_ops c orc init ops = (k, r) ->
  Z.of_nat (length (opens (state_of r))) <= Z.max 0 (maxHandles c) + Z.max 0 (pruneEvery c - 1).
Proof.
  intros c orc init ops k r H. unfold run_ops in H.
  assert (Hb : bounded c (init_state init)) by (unfold bounded; cbn [ctr opens init_state length]; lia).
  destruct (run_bounded c orc ops (init_state init) 0%nat k r Hb H) as [H1 H2]. lia.
Qed.

(* ------------------------------------------------------------------ the code as found (D27) *)
Definition d27_cfg : cfg := {| maxHandles := 2; pruneEvery := 5; fixed := false |}.
Definition d27_script : script := {| s_limit := 2; s_soft := [1]; s_hard := []; s_perm := [] |}.
Definition d27_ops : list wop :=
  [ {| w_path := 162; w_str := [48; 59]; w_fa := false |};
    {| w_path := 109; w_str := [49; 59]; w_fa := false |} ].

Lemma unrepaired_refuted :
  fixed d27_cfg = false /\ script_goodb d27_script d27_ops = true /\ fa_consistentb d27_ops = true /\
  fst (run_ops d27_cfg (script_oracle d27_script) (fun _ => None) d27_ops) = 1%nat /\
  match snd (run_ops d27_cfg (script_oracle d27_script) (fun _ => None) d27_ops) with
  | Raise e st => e = EKEY /\ fs st 109 = Some [] /\ opens st = []
  | Ok _ => False
  end.
Proof. vm_compute. repeat split; reflexivity. Qed.
