(* C18 proofs, top: the lemmas Props/C18.v closes its theorems with *)
From Coq Require Import ZArith List Bool Lia Permutation Sorting.Sorted.
Import ListNotations.
From SCMO Require Import Lib.Val Gen.GenAlleles Model.C18 Proofs.C18_s Proofs.C18_a Proofs.C18_b Proofs.C18_c Proofs.C18_d Proofs.C18_e.
Open Scope Z_scope.

(* eager loading answers the specification (no cache, no name condition needed) *)
Lemma eager_spec v cf qs fs : vcf_ok v = true -> is_lazy cf = false ->
  (forall q, In q qs -> 0 <= query_pos q) ->
  run_one v fs (cf, qs) = (fs, spec_run v (cf, qs)).
Proof.
  intros Hv Hl Hq. unfold run_one, spec_run. cbn [fst snd]. rewrite Hl.
  destruct (init_table v cf) as [t|] eqn:Hi.
  - rewrite (run_queries_eager v Hv cf t fs qs Hl Hi Hq).
    unfold init_table in Hi. rewrite Hl in Hi. destruct (c_chrom cf); [|reflexivity].
    destruct (valid_contig v s); [reflexivity|discriminate].
  - unfold init_table in Hi. rewrite Hl in Hi. destruct (c_chrom cf); [|discriminate].
    destruct (valid_contig v s); [discriminate|reflexivity].
Qed.

(* the base set of a phased record, in terms of the genotypes *)
Lemma bases_of_In cf r b :
  In b (bases_of cf r) <-> exists s al, In (s, al) (r_gts r) /\ selected cf s = true /\ In (Some b) al /\ single b = true.
Proof.
  rewrite bases_of_pairs, canon_In, in_map_iff. split.
  - intros ([b0 s] & E & Hin). cbn in E. subst b0. apply pairs_of_In in Hin. destruct Hin as [He Hs].
    apply events_In in He. destruct He as (al & Hg & Hsel & Ha). exists s, al. auto.
  - intros (s & al & Hg & Hsel & Ha & Hs). exists (b, s). split; [reflexivity|].
    apply pairs_of_In. split; [|exact Hs]. apply events_In. exists al. auto.
Qed.

(* nothing is answered at a record that involves an ignored conversion *)
Lemma ignored_not_informative cf r s al b : c_phased cf = true ->
  In (s, al) (r_gts r) -> selected cf s = true -> In (Some b) al -> single b = true ->
  ign_mem cf (r_ref r) b = true -> informativeb cf r = false.
Proof.
  intros Hp Hg Hsel Ha Hs Hi. unfold informativeb. rewrite Hp.
  assert (E : existsb (fun b0 => ign_mem cf (r_ref r) b0) (bases_of cf r) = true).
  { apply existsb_exists. exists b. split; [|exact Hi]. apply bases_of_In. exists s, al. auto. }
  rewrite E. cbn. apply andb_false_r.
Qed.
Lemma ignored_not_informative_unphased cf r l b : c_phased cf = false ->
  In (l, b) (combine letters (alleles r)) -> ign_mem cf (r_ref r) b = true -> informativeb cf r = false.
Proof.
  intros Hp Hin Hi. unfold informativeb. rewrite Hp.
  assert (E : existsb (fun b0 => ign_mem cf (r_ref r) b0) (firstn 6 (alleles r)) = true).
  { apply existsb_exists. exists b. split; [|exact Hi]. change 6%nat with (length letters).
    rewrite <- map_snd_combine. change b with (snd (l, b)). apply in_map, Hin. }
  rewrite E. cbn. apply andb_false_r.
Qed.

(* sel_alleles, in terms of the genotypes *)
Lemma sel_alleles_In cf r a :
  In a (sel_alleles cf r) <-> exists s al, In (s, al) (r_gts r) /\ selected cf s = true /\ In a al.
Proof.
  rewrite sel_alleles_events, in_map_iff. split.
  - intros ([s a0] & E & Hin). cbn in E. subst a0. apply events_In in Hin. destruct Hin as (al & H). exists s, al. exact H.
  - intros (s & al & H). exists (s, a). split; [reflexivity|]. apply events_In. exists al. exact H.
Qed.

(* multi-base alleles: a phased record all of whose selected genotypes are called is answered only when every
   selected allele is a single base and at least two different bases occur *)
Lemma multibase_not_informative cf r : c_phased cf = true -> informativeb cf r = true ->
  (forall s al, In (s, al) (r_gts r) -> selected cf s = true -> ~ In None al) ->
  (forall s al x, In (s, al) (r_gts r) -> selected cf s = true -> In (Some x) al -> single x = true)
  /\ (2 <= length (bases_of cf r))%nat.
Proof.
  intros Hp Hinf Hnm. unfold informativeb in Hinf. rewrite Hp in Hinf.
  assert (M : existsb is_missing (sel_alleles cf r) = false).
  { destruct (existsb is_missing (sel_alleles cf r)) eqn:E; [|reflexivity]. exfalso.
    apply existsb_exists in E. destruct E as ([x|] & Hin & Hx); [discriminate|].
    apply sel_alleles_In in Hin. destruct Hin as (s & al & Hg & Hs & Ha). apply (Hnm s al Hg Hs Ha). }
  rewrite M in Hinf. apply andb_true_iff in Hinf. destruct Hinf as [Hinf _].
  apply andb_true_iff in Hinf. destruct Hinf as [_ Hinf].
  apply andb_true_iff in Hinf. destruct Hinf as [Hinf _].
  apply andb_true_iff in Hinf. destruct Hinf as [H2 Hmulti]. split.
  - intros s al x Hg Hs Ha. destruct (single x) eqn:E; [reflexivity|]. exfalso.
    apply negb_true_iff in Hmulti.
    assert (existsb is_multi (sel_alleles cf r) = true); [|congruence].
    apply existsb_exists. exists (Some x). split; [apply sel_alleles_In; exists s, al; auto|]. cbn. rewrite E. reflexivity.
  - apply Nat.leb_le, H2.
Qed.

(* the cache round trip in one statement *)
Lemma cache_roundtrip ct c : ct_wf ct ->
  let t := read_cached (serialise ct) c [] in
  (forall p b, look3 (getd seqb t c) p b = look3 ct p b) /\
  (forall p, amem Z.eqb (getd seqb t c) p = amem Z.eqb ct p) /\
  (forall c', amem seqb t c' = true -> c' = c).
Proof.
  intros Hwf. cbv zeta. destruct (read_cached_serialise ct c Hwf) as [G M]. rewrite G. split; [|split].
  - intros p b. apply look3_entries, Hwf.
  - intros p. apply amem_entries, Hwf.
  - intros c' H. rewrite M in H. apply andb_true_iff in H. destruct H as [H _]. apply seqb_eq, H.
Qed.
Lemma loaded_wf v cf c : vcf_ok v = true -> ct_wf (getd seqb (contig_table v cf c) c).
Proof. intros Hv. apply tbl_wf_getd, contig_table_wf, Hv. Qed.

(* ------------------------------------------------------------------ one setting, any mode flags: no name condition needed *)
Definition sem_eq (cf cf0 : cfg) : Prop :=
  c_phased cf = c_phased cf0 /\ c_select cf = c_select cf0 /\ c_ignore cf = c_ignore cf0.

Lemma cache_name_ext cf cf0 c : sem_eq cf cf0 -> cache_name cf c = cache_name cf0 c.
Proof. intros (H1 & H2 & H3). rewrite !cache_name_shape. unfold cache_name_ref. rewrite H1, H2, H3. reflexivity. Qed.
Lemma cache_name_contig cf c1 c2 : cache_name cf c1 = cache_name cf c2 -> c1 = c2.
Proof. rewrite !cache_name_shape. unfold cache_name_ref. intros H. apply app_inv_tail in H. exact H. Qed.

Lemma sel_same_refl a : sel_same a a = true.
Proof.
  destruct a as [l|]; [|reflexivity]. cbn. rewrite Nat.eqb_refl. cbn.
  assert (H : forallb (fun s => smem s l) l = true) by (apply forallb_forall; intros s Hs; apply smem_In, Hs).
  rewrite H. reflexivity.
Qed.
Lemma ign_same_refl a : ign_same a a = true.
Proof.
  unfold ign_same.
  assert (H : forallb (fun q => pair_mem (fst q) (snd q) (ign_list a)) (ign_list a) = true).
  { apply forallb_forall. intros [x y] Hq. apply pair_mem_In. exact Hq. }
  rewrite H. reflexivity.
Qed.
Lemma sem_eq_same_sem cf1 cf2 cf0 : sem_eq cf1 cf0 -> sem_eq cf2 cf0 -> same_sem cf1 cf2 = true.
Proof.
  intros (A1 & A2 & A3) (B1 & B2 & B3). unfold same_sem. rewrite A1, A2, A3, B1, B2, B3.
  rewrite sel_same_refl, ign_same_refl. destruct (c_phased cf0); reflexivity.
Qed.

Lemma names_ok_one_setting ks cf0 : (forall k, In k ks -> sem_eq (fst k) cf0) -> names_ok ks = true.
Proof.
  intros H. unfold names_ok. apply forallb_forall. intros k1 H1. apply forallb_forall. intros k2 H2.
  destruct (seqb (cache_name (fst k1) (snd k1)) (cache_name (fst k2) (snd k2))) eqn:E; [|reflexivity]. cbn [negb orb].
  apply seqb_eq in E. rewrite (cache_name_ext _ cf0 _ (H k1 H1)), (cache_name_ext _ cf0 _ (H k2 H2)) in E.
  apply cache_name_contig in E. rewrite E, seqb_refl. cbn [andb].
  apply (sem_eq_same_sem _ _ cf0); [apply H, H1|apply H, H2].
Qed.

Lemma keys_of_In_inv h k : In k (keys_of h) -> exists run, In run h /\ fst k = fst run.
Proof.
  unfold keys_of. intros H. apply in_flat_map in H. destruct H as (run & Hr & Hk). apply in_map_iff in Hk.
  destruct Hk as (q & E & _). subst k. exists run. split; [exact Hr|reflexivity].
Qed.

Theorem one_setting_spec v cf0 h : vcf_ok v = true ->
  (forall run, In run h -> sem_eq (fst run) cf0) ->
  (forall run q, In run h -> In q (snd run) -> 0 <= query_pos q) ->
  snd (run_history v [] h) = map (spec_run v) h.
Proof.
  intros Hv Hs Hp. apply history_spec; [exact Hv|]. unfold hist_ok. apply andb_true_iff. split.
  - apply forallb_forall. intros run Hr. apply forallb_forall. intros q Hq. apply Z.leb_le. apply (Hp run q Hr Hq).
  - apply (names_ok_one_setting _ cf0). intros k Hk. apply keys_of_In_inv in Hk. destruct Hk as (run & Hr & E).
    rewrite E. apply Hs, Hr.
Qed.

(* getAllele(reads): the returned set is the same pure fold over answers that equal the specification's *)
Theorem get_allele_spec v h : vcf_ok v = true -> hist_ok h = true ->
  map alleles_of (snd (run_history v [] h)) = map (fun run => alleles_of (spec_run v run)) h.
Proof. intros Hv Hh. rewrite (history_spec v h Hv Hh), map_map. reflexivity. Qed.
