(* C20: the generic checker (Proofs/C20.v) evaluated on the pipelines GENERATED from the source.
   A changed order of side effects in /repo changes Gen/GenStatus.v and these vm_compute
   obligations are re-decided about what the source says now. *)
From Coq Require Import List Bool Arith.
Import ListNotations.
From SCMO Require Import Lib.StatusLang Gen.GenStatus Model.C20 Proofs.C20.

Lemma no_chk_ok (ch : nat -> bool) : forall id b, no_chk id = Some b -> ch id = b.
Proof. intros id b H. discriminate H. Qed.

(* 1. invariant: status Ok -> exists, complete, sorted, indexed; whatever fails, wherever *)
Lemma chk_inv_pipeline : check no_chk pipeline inv_init invb invb invb = true.
Proof. vm_compute. reflexivity. Qed.

Lemma never_ok_early : forall cnt ch f w0 r s,
  invb w0 = true -> lost w0 = false ->
  run_prog pipeline cnt ch f w0 = (r, s) ->
  st (wd s) = SOk -> ex (wd s) = true /\ co (wd s) = true /\ so (wd s) = true /\ ix (wd s) = true.
Proof.
  intros cnt ch f w0 r s Hinv Hl Hrun Hst.
  assert (Hi : inv_init w0 = true) by (unfold inv_init; rewrite Hinv, Hl; reflexivity).
  pose proof (check_sound _ _ _ _ _ _ chk_inv_pipeline cnt ch f w0 r s (no_chk_ok ch) Hi Hrun) as H.
  apply invb_spec; [destruct r; assumption | assumption].
Qed.

Lemma never_ok_early_crash_at : forall cnt ch k w0 r s,
  invb w0 = true -> lost w0 = false ->
  run_prog pipeline cnt ch (crash_at k) w0 = (r, s) ->
  st (wd s) = SOk -> ex (wd s) = true /\ co (wd s) = true /\ so (wd s) = true /\ ix (wd s) = true.
Proof. intros cnt ch k. apply never_ok_early. Qed.

(* 2. a run that returns normally (possibly after swallowed failures: sort retries, temp folder
      cleanup) ends with status Ok and all four *)
Lemma chk_end_pipeline : check no_chk pipeline fresh ok_and_four tt_w tt_w = true.
Proof. vm_compute. reflexivity. Qed.

Lemma ok_at_end : forall cnt ch f w0 s,
  lost w0 = false ->
  run_prog pipeline cnt ch f w0 = (RNormal, s) ->
  st (wd s) = SOk /\ ex (wd s) = true /\ co (wd s) = true /\ so (wd s) = true /\ ix (wd s) = true.
Proof.
  intros cnt ch f w0 s Hl Hrun.
  assert (Hi : fresh w0 = true) by (unfold fresh; rewrite Hl; reflexivity).
  pose proof (check_sound _ _ _ _ _ _ chk_end_pipeline cnt ch f w0 RNormal s (no_chk_ok ch) Hi Hrun) as H.
  cbn beta iota in H. unfold ok_and_four in H. apply andb_prop in H. destruct H as [H1 H2].
  apply status_eqb_eq in H1. split; [assumption|].
  repeat (apply andb_prop in H2; destruct H2 as [H2 ?]). auto.
Qed.

(* 3. a run that raises never leaves status Ok (when it did not start from a stale Ok and no
      blacklist temp files are cleaned up after the pipeline) *)
Definition chk_tmp : nat -> option bool := fun id => if Nat.eqb id id_ch_tempfiles then Some false else None.

Lemma chk_fail_pipeline : check chk_tmp pipeline not_ok tt_w not_ok not_ok = true.
Proof. vm_compute. reflexivity. Qed.

Lemma fail_not_ok : forall cnt ch f w0 r s,
  ch id_ch_tempfiles = false ->
  st w0 <> SOk ->
  run_prog pipeline cnt ch f w0 = (r, s) ->
  r <> RNormal -> st (wd s) <> SOk.
Proof.
  intros cnt ch f w0 r s Hch Hst Hrun Hr.
  assert (Hi : not_ok w0 = true).
  { unfold not_ok. destruct (status_eqb (st w0) SOk) eqn:E; [apply status_eqb_eq in E; contradiction | reflexivity]. }
  assert (Hc : forall id b, chk_tmp id = Some b -> ch id = b).
  { intros id b. unfold chk_tmp. destruct (Nat.eqb id id_ch_tempfiles) eqn:E; [|discriminate].
    apply Nat.eqb_eq in E. subst id. intros H. inversion H. assumption. }
  pose proof (check_sound _ _ _ _ _ _ chk_fail_pipeline cnt ch f w0 r s Hc Hi Hrun) as H.
  assert (Hn : not_ok (wd s) = true) by (destruct r; [contradiction Hr; reflexivity | assumption | assumption]).
  unfold not_ok in Hn. intros E. rewrite E in Hn. discriminate Hn.
Qed.

(* 4. a worker (the with block of run_tagging_tasks) that returns normally has produced a complete,
      sorted, indexed temporary BAM: justifies counting one worker result as one unit *)
Lemma chk_worker : check no_chk worker_body fresh four tt_w tt_w = true.
Proof. vm_compute. reflexivity. Qed.

Lemma worker_complete : forall cnt ch f w0 s,
  lost w0 = false ->
  run_prog worker_body cnt ch f w0 = (RNormal, s) ->
  ex (wd s) = true /\ co (wd s) = true /\ so (wd s) = true /\ ix (wd s) = true.
Proof.
  intros cnt ch f w0 s Hl Hrun.
  assert (Hi : fresh w0 = true) by (unfold fresh; rewrite Hl; reflexivity).
  pose proof (check_sound _ _ _ _ _ _ chk_worker cnt ch f w0 RNormal s (no_chk_ok ch) Hi Hrun) as H.
  cbn beta iota in H. unfold four in H.
  repeat (apply andb_prop in H; destruct H as [H ?]). auto.
Qed.

(* helpers for the examples *)
Definition ch_of (l : list nat) : nat -> bool := fun id => existsb (Nat.eqb id) l.
Definition w_fresh : world := mkW SNone false false false false false.
Definition w_prev_ok : world := mkW SOk true true true true false.
