(* C20: the generic checker (Proofs/C20.v) evaluated on the pipelines GENERATED from the source.
   A changed order of side effects or a changed except clause in /repo changes Gen/GenStatus.v and
   these vm_compute obligations are re-decided about what the source says now. *)
From Coq Require Import List Bool Arith.
Import ListNotations.
From SCMO Require Import Lib.StatusLang Gen.GenStatus Model.C20 Proofs.C20.

Lemma no_chk_ok (ch : nat -> bool) : forall id b, no_chk id = Some b -> ch id = b.
Proof. intros id b H. discriminate H. Qed.

(* 1. invariant: status Ok -> exists, complete, sorted, indexed; whatever fails, wherever, with
      whatever exception class *)
Lemma chk_inv_pipeline : check all_kinds no_chk pipeline inv_init P_inv = true.
Proof. vm_cast_no_check (eq_refl true). Qed.

Lemma never_ok_early : forall cnt ch f w0 r s,
  invb w0 = true -> lost w0 = false ->
  run_prog pipeline cnt ch f w0 = (r, s) ->
  st (wd s) = SOk -> ex (wd s) = true /\ co (wd s) = true /\ so (wd s) = true /\ ix (wd s) = true.
Proof.
  intros cnt ch f w0 r s Hinv Hl Hrun Hst.
  assert (Hi : inv_init w0 = true) by (unfold inv_init; rewrite Hinv, Hl; reflexivity).
  pose proof (check_sound _ _ _ _ _ chk_inv_pipeline cnt ch f w0 r s (any_kind f) (no_chk_ok ch) Hi Hrun) as H.
  apply invb_spec; assumption.
Qed.

Lemma never_ok_early_crash_at : forall cnt ch e k w0 r s,
  invb w0 = true -> lost w0 = false ->
  run_prog pipeline cnt ch (crash_at e k) w0 = (r, s) ->
  st (wd s) = SOk -> ex (wd s) = true /\ co (wd s) = true /\ so (wd s) = true /\ ix (wd s) = true.
Proof. intros cnt ch e k. apply never_ok_early. Qed.

(* 2. a run that returns normally (possibly after swallowed failures: sort retries, temp folder
      cleanup) ends with status Ok and all four *)
Lemma chk_end_pipeline : check all_kinds no_chk pipeline fresh P_end = true.
Proof. vm_cast_no_check (eq_refl true). Qed.

Lemma ok_at_end : forall cnt ch f w0 s,
  lost w0 = false ->
  run_prog pipeline cnt ch f w0 = (RNormal, s) ->
  st (wd s) = SOk /\ ex (wd s) = true /\ co (wd s) = true /\ so (wd s) = true /\ ix (wd s) = true.
Proof.
  intros cnt ch f w0 s Hl Hrun.
  assert (Hi : fresh w0 = true) by (unfold fresh; rewrite Hl; reflexivity).
  pose proof (check_sound _ _ _ _ _ chk_end_pipeline cnt ch f w0 RNormal s (any_kind f) (no_chk_ok ch) Hi Hrun) as H.
  cbn [P_end] in H. unfold ok_and_four in H. apply andb_prop in H. destruct H as [H1 H2].
  apply status_eqb_eq in H1. split; [assumption | apply four_spec; assumption].
Qed.

(* 3. a run that raises never leaves status Ok (when it did not start from a stale Ok and no
      blacklist temp files are cleaned up after the pipeline) *)
Definition chk_tmp : nat -> option bool := fun id => if Nat.eqb id id_ch_tempfiles then Some false else None.

Lemma chk_fail_pipeline : check all_kinds chk_tmp pipeline not_ok P_fail = true.
Proof. vm_cast_no_check (eq_refl true). Qed.

Lemma fail_not_ok : forall cnt ch f w0 r s,
  ch id_ch_tempfiles = false ->
  st w0 <> SOk ->
  run_prog pipeline cnt ch f w0 = (r, s) ->
  r <> RNormal -> st (wd s) <> SOk.
Proof.
  intros cnt ch f w0 r s Hch Hst Hrun Hr.
  assert (Hi : not_ok w0 = true).
  { unfold not_ok. destruct (status_eqb (st w0) SOk) eqn:E; [apply status_eqb_eq in E; contradiction | reflexivity]. }
  assert (Hc : forall id b, chk_tmp id = Some b -> ch id = b).
  { intros id b. unfold chk_tmp. destruct (Nat.eqb id id_ch_tempfiles) eqn:E; [|discriminate].
    apply Nat.eqb_eq in E. subst id. intros H. inversion H. subst b. assumption. }
  pose proof (check_sound _ _ _ _ _ chk_fail_pipeline cnt ch f w0 r s (any_kind f) Hc Hi Hrun) as H.
  destruct r as [|k]; [contradiction Hr; reflexivity|].
  cbn [P_fail] in H. unfold not_ok in H. intros E. rewrite E in H. discriminate H.
Qed.

(* 4. a worker (the with block of run_tagging_tasks) that returns normally has produced a complete,
      sorted, indexed temporary BAM - for every exception class EXCEPT TimeoutError, which the worker
      swallows on purpose (-max_time_per_segment: the region is skipped and blacklisted).  Justifies
      counting one worker result as one unit.  A wider except clause in the worker (OSError,
      Exception ...) refutes this obligation. *)
Definition worker_kinds : list ekind := [KRuntime; KValue; KOS; KMemory; KOther; KBase].
Definition no_timeout (f : nat -> fault) : Prop :=
  forall i, f i <> FBefore KTimeout /\ f i <> FPartial KTimeout.

Lemma no_timeout_kinds f : no_timeout f ->
  forall i, match f i with FNone => True | FBefore k => In k worker_kinds | FPartial k => In k worker_kinds end.
Proof.
  intros H i. destruct (H i) as [H1 H2]. destruct (f i) as [|k|k].
  - exact I.
  - destruct k; cbn; try tauto; exfalso; apply H1; reflexivity.
  - destruct k; cbn; try tauto; exfalso; apply H2; reflexivity.
Qed.

Lemma chk_worker : check worker_kinds no_chk worker_body fresh P_four = true.
Proof. vm_cast_no_check (eq_refl true). Qed.

Lemma worker_complete : forall cnt ch f w0 s,
  no_timeout f ->
  lost w0 = false ->
  run_prog worker_body cnt ch f w0 = (RNormal, s) ->
  ex (wd s) = true /\ co (wd s) = true /\ so (wd s) = true /\ ix (wd s) = true.
Proof.
  intros cnt ch f w0 s Hf Hl Hrun.
  assert (Hi : fresh w0 = true) by (unfold fresh; rewrite Hl; reflexivity).
  pose proof (check_sound _ _ _ _ _ chk_worker cnt ch f w0 RNormal s (no_timeout_kinds f Hf) (no_chk_ok ch) Hi Hrun) as H.
  cbn [P_four] in H. apply four_spec. assumption.
Qed.

(* the by-design exception: a TimeoutError in a task is swallowed and the worker still returns *)
Definition worker_timeout_loses_records (chs : list nat) : bool :=
  existsb (fun k =>
    let '(r, s) := run_prog worker_body (fun _ => 2) (fun id => existsb (Nat.eqb id) chs) (crash_at KTimeout k)
                            (mkW SNone false false false false false) in
    match r with RNormal => lost (wd s) && negb (co (wd s)) | _ => false end) (seq 0 60).

(* helpers for the examples *)
Definition ch_of (l : list nat) : nat -> bool := fun id => existsb (Nat.eqb id) l.
Definition w_fresh : world := mkW SNone false false false false false.
Definition w_prev_ok : world := mkW SOk true true true true false.
