(* C20: the generic checker (Proofs/C20.v) evaluated on the pipelines GENERATED from the source.
   A changed order of side effects, a changed except clause, a changed test on the molecule count or
   a changed return in /repo changes Gen/GenStatus.v and these vm_compute obligations are re-decided
   about what the source says now. *)
From Coq Require Import List Bool Arith.
Import ListNotations.
From SCMO Require Import Lib.StatusLang Gen.GenStatus Model.C20 Proofs.C20.

Definition P_inv (r : res) (w : world) : bool := invb w.
Definition P_inv_rep (r : res) (w : world) : bool := invb_rep w.
Definition P_end (r : res) (w : world) : bool := match r with RNormal => ok_and_four w | _ => true end.
Definition P_end_rep (r : res) (w : world) : bool := match r with RNormal => ok_and_good w | _ => true end.
Definition P_fail (r : res) (w : world) : bool := match r with RNormal => true | _ => not_ok w end.

(* 1. invariant: status Ok -> exists, complete, sorted, indexed; whatever fails, wherever, with
      whatever exception class other than TimeoutError *)
Lemma chk_inv_pipeline : check worker_kinds no_chk pipeline invb P_inv = true.
Proof. vm_cast_no_check (eq_refl true). Qed.

Lemma never_ok_early : forall cnt ch f w0 r s,
  no_timeout f ->
  aux_clear w0 = true -> invb w0 = true ->
  run_prog pipeline cnt ch f w0 = (r, s) ->
  st (wd s) = SOk -> ex (wd s) = true /\ co (wd s) = true /\ so (wd s) = true /\ ix (wd s) = true.
Proof.
  intros cnt ch f w0 r s Hf Haux Hinv Hrun Hst.
  pose proof (check_sound _ _ _ _ _ chk_inv_pipeline cnt ch f w0 r s (no_timeout_kinds f Hf) (no_chk_ok ch) Haux Hinv Hrun) as H.
  apply invb_spec; assumption.
Qed.

Lemma crash_at_no_timeout e k : e <> KTimeout -> no_timeout (crash_at e k).
Proof.
  intros He i. unfold crash_at. destruct (Nat.eqb i k); split; intros H; try discriminate H.
  inversion H. contradiction.
Qed.

Lemma never_ok_early_crash_at : forall cnt ch e k w0 r s,
  e <> KTimeout ->
  aux_clear w0 = true -> invb w0 = true ->
  run_prog pipeline cnt ch (crash_at e k) w0 = (r, s) ->
  st (wd s) = SOk -> ex (wd s) = true /\ co (wd s) = true /\ so (wd s) = true /\ ix (wd s) = true.
Proof. intros cnt ch e k w0 r s He. apply never_ok_early. apply crash_at_no_timeout. exact He. Qed.

(* 1'. every exception class, TimeoutError included (a worker swallows it on purpose and reports the
       task): status Ok -> exists, sorted, indexed, nothing dropped without a report, and complete unless a
       segment was reported *)
Lemma chk_inv_rep_pipeline : check all_kinds no_chk pipeline invb P_inv_rep = true.
Proof. vm_cast_no_check (eq_refl true). Qed.

Lemma never_ok_early_timeouts : forall cnt ch f w0 r s,
  aux_clear w0 = true -> invb w0 = true ->
  run_prog pipeline cnt ch f w0 = (r, s) ->
  st (wd s) = SOk ->
  ex (wd s) = true /\ so (wd s) = true /\ ix (wd s) = true /\ lost (wd s) = false /\ (co (wd s) = true \/ rep (wd s) = true).
Proof.
  intros cnt ch f w0 r s Haux Hinv Hrun Hst.
  pose proof (check_sound _ _ _ _ _ chk_inv_rep_pipeline cnt ch f w0 r s (any_kind f) (no_chk_ok ch) Haux Hinv Hrun) as H.
  apply invb_rep_spec; assumption.
Qed.

(* a run in which records were dropped without a report (in particular: a worker failed, see
   spawn_failure_lost / lost_sticky below) never says success *)
Lemma lost_never_ok : forall cnt ch f w0 r s,
  aux_clear w0 = true -> invb w0 = true ->
  run_prog pipeline cnt ch f w0 = (r, s) ->
  lost (wd s) = true -> st (wd s) <> SOk.
Proof.
  intros cnt ch f w0 r s Haux Hinv Hrun Hl Hst.
  destruct (never_ok_early_timeouts cnt ch f w0 r s Haux Hinv Hrun Hst) as [_ [_ [_ [H _]]]].
  rewrite H in Hl. discriminate Hl.
Qed.

(* 2. a run that returns normally (possibly after swallowed failures: sort retries, temp folder
      cleanup) ends with status Ok and all four *)
Lemma chk_end_pipeline : check worker_kinds no_chk pipeline any_w P_end = true.
Proof. vm_cast_no_check (eq_refl true). Qed.

Lemma ok_at_end : forall cnt ch f w0 s,
  no_timeout f ->
  aux_clear w0 = true ->
  run_prog pipeline cnt ch f w0 = (RNormal, s) ->
  st (wd s) = SOk /\ ex (wd s) = true /\ co (wd s) = true /\ so (wd s) = true /\ ix (wd s) = true.
Proof.
  intros cnt ch f w0 s Hf Haux Hrun.
  pose proof (check_sound _ _ _ _ _ chk_end_pipeline cnt ch f w0 RNormal s (no_timeout_kinds f Hf) (no_chk_ok ch) Haux eq_refl Hrun) as H.
  cbn [P_end] in H. unfold ok_and_four in H. apply andb_prop in H. destruct H as [H1 H2].
  apply status_eqb_eq in H1. split; [assumption | apply four_spec; assumption].
Qed.

Lemma chk_end_rep_pipeline : check all_kinds no_chk pipeline any_w P_end_rep = true.
Proof. vm_cast_no_check (eq_refl true). Qed.

Lemma ok_at_end_timeouts : forall cnt ch f w0 s,
  aux_clear w0 = true ->
  run_prog pipeline cnt ch f w0 = (RNormal, s) ->
  st (wd s) = SOk /\ ex (wd s) = true /\ so (wd s) = true /\ ix (wd s) = true /\ lost (wd s) = false /\
  (co (wd s) = true \/ rep (wd s) = true).
Proof.
  intros cnt ch f w0 s Haux Hrun.
  pose proof (check_sound _ _ _ _ _ chk_end_rep_pipeline cnt ch f w0 RNormal s (any_kind f) (no_chk_ok ch) Haux eq_refl Hrun) as H.
  cbn [P_end_rep] in H. unfold ok_and_good in H. apply andb_prop in H. destruct H as [H1 H2].
  apply status_eqb_eq in H1. split; [assumption | apply goodb_spec; assumption].
Qed.

(* 3. a run that does not return never leaves status Ok (when it did not start from a stale Ok and no
      blacklist temp files are cleaned up after the pipeline) *)
Definition chk_tmp : nat -> option bool := fun id => if Nat.eqb id id_ch_tempfiles then Some false else None.

Lemma chk_fail_pipeline : check all_kinds chk_tmp pipeline not_ok P_fail = true.
Proof. vm_cast_no_check (eq_refl true). Qed.

Lemma not_ok_of w : st w <> SOk -> not_ok w = true.
Proof.
  intros H. unfold not_ok. destruct (status_eqb (st w) SOk) eqn:E; [apply status_eqb_eq in E; contradiction | reflexivity].
Qed.
Lemma not_ok_spec w : not_ok w = true -> st w <> SOk.
Proof. unfold not_ok. intros H E. rewrite E in H. discriminate H. Qed.

Lemma fail_not_ok : forall cnt ch f w0 r s,
  (forall n, ch id_ch_tempfiles n = false) ->
  aux_clear w0 = true -> st w0 <> SOk ->
  run_prog pipeline cnt ch f w0 = (r, s) ->
  r <> RNormal -> st (wd s) <> SOk.
Proof.
  intros cnt ch f w0 r s Hch Haux Hst Hrun Hr.
  assert (Hc : forall id b, chk_tmp id = Some b -> forall n, ch id n = b).
  { intros id b. unfold chk_tmp. destruct (Nat.eqb id id_ch_tempfiles) eqn:E; [|discriminate].
    apply Nat.eqb_eq in E. subst id. intros H n. inversion H. subst b. apply Hch. }
  pose proof (check_sound _ _ _ _ _ chk_fail_pipeline cnt ch f w0 r s (any_kind f) Hc Haux (not_ok_of _ Hst) Hrun) as H.
  destruct r as [|k| | |v]; [contradiction Hr; reflexivity | apply not_ok_spec; exact H ..].
Qed.

(* 4. the worker (the whole of run_tagging_tasks, run_tagging_task inlined), started on a fresh temp path *)
Definition P_worker (r : res) (w : world) : bool :=
  match r with
  | RReturn VPath => four w
  | RReturn VNone => negb (lost w || gm w || gu w || rep w)
  | RRaised _ => true
  | _ => false       (* it never falls off its end *)
  end.
Definition P_worker_rep (r : res) (w : world) : bool :=
  match r with
  | RReturn VPath => goodb w
  | RReturn VNone => negb (lost w || gm w || gu w)
  | RRaised _ => true
  | _ => false
  end.

Lemma chk_worker : check_from worker_kinds no_chk worker_full [w_spawn0] P_worker = true.
Proof. vm_cast_no_check (eq_refl true). Qed.
Lemma chk_worker_rep : check_from all_kinds no_chk worker_full [w_spawn0] P_worker_rep = true.
Proof. vm_cast_no_check (eq_refl true). Qed.

Lemma spawn0_in : wmem (wd (start w_spawn0)) [w_spawn0] = true.
Proof. reflexivity. Qed.

Lemma worker_path_complete : forall cnt ch f s,
  no_timeout f ->
  run_prog worker_full cnt ch f w_spawn0 = (RReturn VPath, s) ->
  ex (wd s) = true /\ co (wd s) = true /\ so (wd s) = true /\ ix (wd s) = true.
Proof.
  intros cnt ch f s Hf Hrun.
  pose proof (check_from_sound _ _ _ _ _ chk_worker cnt ch f _ _ s (no_timeout_kinds f Hf) (no_chk_ok ch) spawn0_in Hrun) as H.
  cbn [P_worker] in H. apply four_spec. assumption.
Qed.

Lemma worker_path_timeouts : forall cnt ch f s,
  run_prog worker_full cnt ch f w_spawn0 = (RReturn VPath, s) ->
  ex (wd s) = true /\ so (wd s) = true /\ ix (wd s) = true /\ lost (wd s) = false /\ (co (wd s) = true \/ rep (wd s) = true).
Proof.
  intros cnt ch f s Hrun.
  pose proof (check_from_sound _ _ _ _ _ chk_worker_rep cnt ch f _ _ s (any_kind f) (no_chk_ok ch) spawn0_in Hrun) as H.
  cbn [P_worker_rep] in H. apply goodb_spec. assumption.
Qed.

Lemma worker_none_drops_nothing : forall cnt ch f s,
  run_prog worker_full cnt ch f w_spawn0 = (RReturn VNone, s) ->
  lost (wd s) = false /\ gm (wd s) = false /\ gu (wd s) = false.
Proof.
  intros cnt ch f s Hrun.
  pose proof (check_from_sound _ _ _ _ _ chk_worker_rep cnt ch f _ _ s (any_kind f) (no_chk_ok ch) spawn0_in Hrun) as H.
  cbn [P_worker_rep] in H. apply negb_true_iff in H.
  apply orb_false_elim in H. destruct H as [H H3]. apply orb_false_elim in H. destruct H as [H1 H2]. auto.
Qed.

Lemma worker_none_wrote_nothing : forall cnt ch f s,
  no_timeout f ->
  run_prog worker_full cnt ch f w_spawn0 = (RReturn VNone, s) ->
  rep (wd s) = false /\ lost (wd s) = false /\ gm (wd s) = false /\ gu (wd s) = false.
Proof.
  intros cnt ch f s Hf Hrun.
  pose proof (check_from_sound _ _ _ _ _ chk_worker cnt ch f _ _ s (no_timeout_kinds f Hf) (no_chk_ok ch) spawn0_in Hrun) as H.
  cbn [P_worker] in H. apply negb_true_iff in H.
  apply orb_false_elim in H. destruct H as [H H4]. apply orb_false_elim in H. destruct H as [H H3].
  apply orb_false_elim in H. destruct H as [H1 H2]. auto.
Qed.

Lemma worker_returns_or_raises : forall cnt ch f r s,
  run_prog worker_full cnt ch f w_spawn0 = (r, s) ->
  (exists v, r = RReturn v) \/ (exists k, r = RRaised k).
Proof.
  intros cnt ch f r s Hrun.
  pose proof (check_from_sound _ _ _ _ _ chk_worker_rep cnt ch f _ _ s (any_kind f) (no_chk_ok ch) spawn0_in Hrun) as H.
  destruct r as [|k| | |v]; cbn [P_worker_rep] in H; try discriminate H; [right | left]; eexists; reflexivity.
Qed.

(* 5. what a failing worker does to its caller, for every worker program: the caller's world is marked,
      and the mark stays for the rest of every run *)
Lemma spawn_failure_lost : forall cnt ch f l p s k s',
  exec cnt ch f (Spawn l p) s = (RRaised k, s') -> lost (wd s') = true.
Proof.
  intros cnt ch f l p s k s' H. cbn [exec] in H.
  destruct (exec cnt ch f p _) as [r s1]. destruct r as [|k1| | |v]; inversion H; reflexivity.
Qed.

Lemma lost_apply e w : lost w = true -> lost (apply e w) = true.
Proof. intros H. destruct e; cbn; rewrite ?H; reflexivity. Qed.
Lemma lost_partial e w : lost w = true -> lost (partial e w) = true.
Proof. intros H. destruct e; cbn; rewrite ?H; reflexivity. Qed.
Lemma lost_mark b rp w : lost w = true -> lost (mark_w b rp w) = true.
Proof. intros H. unfold mark_w. destruct b, rp; cbn; rewrite ?H; reflexivity. Qed.
Lemma lost_commit rp w : lost w = true -> lost (commit_w rp w) = true.
Proof. intros H. unfold commit_w. destruct rp; cbn; rewrite ?H; reflexivity. Qed.
Lemma lost_join v ww pw : lost pw = true -> lost (join v ww pw) = true.
Proof. intros H. destruct v; cbn; rewrite H; reflexivity. Qed.

Lemma lost_step f l e s r s' : step f l e s = (r, s') -> lost (wd s) = true -> lost (wd s') = true.
Proof.
  unfold step. destruct (f (cn s)) as [|k|k]; intros H Hl; inversion H; subst; cbn [wd];
    [apply lost_apply | | apply lost_partial]; exact Hl.
Qed.

Lemma lost_iter (one : cfg -> res * cfg) :
  (forall s r s', one s = (r, s') -> lost (wd s) = true -> lost (wd s') = true) ->
  forall n s r s', iter n one s = (r, s') -> lost (wd s) = true -> lost (wd s') = true.
Proof.
  intros Hone. induction n as [|n IH]; intros s r s' H Hl; cbn [iter] in H.
  - inversion H; subst. exact Hl.
  - destruct (one s) as [r0 s0] eqn:H0. pose proof (Hone _ _ _ H0 Hl) as Hl0.
    destruct r0; try (inversion H; subst; exact Hl0). exact (IH _ _ _ H Hl0).
Qed.

Lemma lost_sticky : forall cnt ch f p s r s',
  exec cnt ch f p s = (r, s') -> lost (wd s) = true -> lost (wd s') = true.
Proof.
  intros cnt ch f.
  induction p as [|l e|l k|a IHa b IHb|id l h body IHbody|body IHbody h IHh reraise hs|id a IHa b IHb
                  | | |v|g a IHa b IHb|l p IHp]; intros s r s' H Hl; cbn [exec] in H.
  - inversion H; subst. exact Hl.
  - exact (lost_step _ _ _ _ _ _ H Hl).
  - inversion H; subst. exact Hl.
  - destruct (exec cnt ch f a s) as [r1 s1] eqn:Ha. pose proof (IHa _ _ _ Ha Hl) as Hl1.
    destruct r1; try (inversion H; subst; exact Hl1). exact (IHb _ _ _ H Hl1).
  - match type of H with context [iter ?n ?o ?s0] => destruct (iter n o s0) as [ri si] eqn:Hit end.
    assert (Hsi : lost (wd si) = true).
    { refine (lost_iter _ _ _ _ _ _ Hit Hl). intros s0 r0 s0' H0 Hl0.
      destruct (step f l h s0) as [r1 s1] eqn:Hs. pose proof (lost_step _ _ _ _ _ _ Hs Hl0) as Hl1.
      destruct r1; try (inversion H0; subst; exact Hl1).
      destruct (exec cnt ch f body s1) as [rb sb] eqn:Hb. inversion H0; subst. exact (IHbody _ _ _ Hb Hl1). }
    destruct ri; try (inversion H; subst; exact Hsi). exact (lost_step _ _ _ _ _ _ H Hsi).
  - destruct (exec cnt ch f body (commit (reports h) s)) as [r1 s1] eqn:Hb.
    assert (Hl1 : lost (wd s1) = true) by (apply (IHbody _ _ _ Hb); apply lost_commit; exact Hl).
    destruct r1 as [|k| | |v]; try (inversion H; subst; apply lost_commit; exact Hl1).
    destruct (catches hs k); [|inversion H; subst; exact Hl1].
    destruct (exec cnt ch f h _) as [r2 s2] eqn:Hh.
    assert (Hl2 : lost (wd s2) = true) by (apply (IHh _ _ _ Hh); apply lost_mark; exact Hl1).
    destruct r2; inversion H; subst; exact Hl2.
  - destruct (ch id (cn s)); [exact (IHa _ _ _ H Hl) | exact (IHb _ _ _ H Hl)].
  - inversion H; subst. exact Hl.
  - inversion H; subst. exact Hl.
  - inversion H; subst. exact Hl.
  - destruct (guard_holds g (wd s)); [exact (IHa _ _ _ H Hl) | exact (IHb _ _ _ H Hl)].
  - destruct (exec cnt ch f p _) as [r1 s1]. destruct r1 as [|k| | |v]; inversion H; subst; cbn [wd];
      try reflexivity. apply lost_join. exact Hl.
Qed.

(* 6. --cluster (with no -contig): jobs are submitted, the process ends by exit(); the status file never
      says success and the run never returns *)
Definition chk_cluster : nat -> option bool := fun id =>
  if Nat.eqb id id_ch_cluster then Some true else if Nat.eqb id id_ch_cluster_contig_none then Some true else None.
Definition P_cluster (r : res) (w : world) : bool := match r with RNormal => false | _ => not_ok w end.

Lemma chk_cluster_pipeline : check all_kinds chk_cluster pipeline not_ok P_cluster = true.
Proof. vm_cast_no_check (eq_refl true). Qed.

Lemma cluster_never_ok : forall cnt ch f w0 r s,
  (forall n, ch id_ch_cluster n = true) -> (forall n, ch id_ch_cluster_contig_none n = true) ->
  aux_clear w0 = true -> st w0 <> SOk ->
  run_prog pipeline cnt ch f w0 = (r, s) ->
  r <> RNormal /\ st (wd s) <> SOk.
Proof.
  intros cnt ch f w0 r s H1 H2 Haux Hst Hrun.
  assert (Hc : forall id b, chk_cluster id = Some b -> forall n, ch id n = b).
  { intros id b. unfold chk_cluster. destruct (Nat.eqb id id_ch_cluster) eqn:E1.
    - apply Nat.eqb_eq in E1. subst id. intros H n. inversion H. apply H1.
    - destruct (Nat.eqb id id_ch_cluster_contig_none) eqn:E2; [|discriminate].
      apply Nat.eqb_eq in E2. subst id. intros H n. inversion H. apply H2. }
  pose proof (check_sound _ _ _ _ _ chk_cluster_pipeline cnt ch f w0 r s (any_kind f) Hc Haux (not_ok_of _ Hst) Hrun) as H.
  destruct r as [|k| | |v]; cbn [P_cluster] in H; [discriminate H | split; [discriminate | apply not_ok_spec; exact H] ..].
Qed.

(* helpers for the examples *)
Definition ch_of (l : list nat) : nat -> nat -> bool := fun id _ => existsb (Nat.eqb id) l.
Definition w_fresh : world := mkW SNone false false false false false false false false false false false.
Definition w_prev_ok : world := mkW SOk true true true true false false false false false false false.
Definition cnt3 : nat -> nat -> nat := fun _ _ => 3.

(* the by-design exception to "every record": a TimeoutError in a task (-max_time_per_segment, or an I/O
   timeout) is swallowed by the worker, the task is reported, the run ends with status Ok and an output
   that lacks records: [k] = index of the failing step *)
Definition timeout_run (chs : list nat) (k : nat) :=
  run_prog pipeline cnt3 (ch_of chs) (crash_at KTimeout k) w_fresh.
Definition timeout_incomplete_ok (chs : list nat) (k : nat) : bool :=
  let '(r, s) := timeout_run chs k in
  match r with RNormal => status_eqb (st (wd s)) SOk && negb (co (wd s)) && rep (wd s) && negb (lost (wd s)) | _ => false end.
Definition first_true (p : nat -> bool) (n : nat) : option nat := find p (seq 0 n).

(* a worker in which a task times out after writing part of its molecules (the failing step is the next()
   of the molecule loop and the step before it counted a written molecule) while another task completed: the
   returned temp BAM holds the half-written segment, and the segment is reported *)
Definition worker_timeout_run (chs : list nat) (k : nat) :=
  run_prog worker_full cnt3 (ch_of chs) (crash_at KTimeout k) w_spawn0.
Definition worker_half_written_reported (chs : list nat) (k : nat) : bool :=
  let '(r, s) := worker_timeout_run chs k in
  let t := rev (tr s) in
  match r with
  | RReturn VPath => Nat.eqb (nth k t 0) lbl_task_next && Nat.eqb (nth (k - 1) t 0) lbl_task_inc && Nat.ltb 0 k
                     && negb (co (wd s)) && rep (wd s) && gm (wd s) && negb (lost (wd s)) && ex (wd s) && so (wd s) && ix (wd s)
  | _ => false
  end.
(* ... and when it was the only task: the temp BAM (holding the half-written segment) is removed, None is
   returned, the segment is reported *)
Definition cnt_one_task : nat -> nat -> nat := fun id _ => if Nat.eqb id id_loop_tasks then 1 else 3.
Definition worker_timeout_none (chs : list nat) (k : nat) : bool :=
  let '(r, s) := run_prog worker_full cnt_one_task (ch_of chs) (crash_at KTimeout k) w_spawn0 in
  let t := rev (tr s) in
  match r with
  | RReturn VNone => Nat.eqb (nth k t 0) lbl_task_next && Nat.eqb (nth (k - 1) t 0) lbl_task_inc && Nat.ltb 0 k
                     && rep (wd s) && negb (ex (wd s)) && negb (lost (wd s))
  | _ => false
  end.

Lemma first_true_spec p n k : first_true p n = Some k -> p k = true.
Proof. unfold first_true. intros H. apply find_some in H. apply H. Qed.

Lemma every_record_refuted : exists k s,
  run_prog pipeline cnt3 (ch_of ch_true_multi) (crash_at KTimeout k) w_fresh = (RNormal, s) /\
  st (wd s) = SOk /\ co (wd s) = false /\ rep (wd s) = true /\ lost (wd s) = false.
Proof.
  destruct (first_true (timeout_incomplete_ok ch_true_multi) 4000) as [k|] eqn:E; [|vm_compute in E; discriminate E].
  apply first_true_spec in E. unfold timeout_incomplete_ok, timeout_run in E.
  destruct (run_prog pipeline cnt3 (ch_of ch_true_multi) (crash_at KTimeout k) w_fresh) as [r s] eqn:Hr.
  exists k, s. destruct r; try discriminate E.
  repeat (apply andb_prop in E; destruct E as [E ?]).
  apply status_eqb_eq in E. repeat match goal with H : negb _ = true |- _ => apply negb_true_iff in H end. auto.
Qed.

Lemma timeout_half_written_reported : exists k s,
  run_prog worker_full cnt3 (ch_of ch_true_multi) (crash_at KTimeout k) w_spawn0 = (RReturn VPath, s) /\
  nth k (rev (tr s)) 0 = lbl_task_next /\ nth (k - 1) (rev (tr s)) 0 = lbl_task_inc /\
  ex (wd s) = true /\ co (wd s) = false /\ rep (wd s) = true /\ gm (wd s) = true /\ lost (wd s) = false.
Proof.
  destruct (first_true (worker_half_written_reported ch_true_multi) 2000) as [k|] eqn:E; [|vm_compute in E; discriminate E].
  apply first_true_spec in E. unfold worker_half_written_reported, worker_timeout_run in E.
  destruct (run_prog worker_full cnt3 (ch_of ch_true_multi) (crash_at KTimeout k) w_spawn0) as [r s] eqn:Hr.
  exists k, s. destruct r as [|k0| | |v]; try discriminate E. destruct v; try discriminate E.
  repeat (apply andb_prop in E; destruct E as [E ?]).
  repeat match goal with H : negb _ = true |- _ => apply negb_true_iff in H end.
  repeat match goal with H : Nat.eqb _ _ = true |- _ => apply Nat.eqb_eq in H end. auto 10.
Qed.

Lemma timeout_only_segment_removed : exists k s,
  run_prog worker_full (fun id _ => if Nat.eqb id id_loop_tasks then 1 else 3) (ch_of ch_true_multi) (crash_at KTimeout k) w_spawn0
    = (RReturn VNone, s) /\
  nth k (rev (tr s)) 0 = lbl_task_next /\ nth (k - 1) (rev (tr s)) 0 = lbl_task_inc /\
  rep (wd s) = true /\ ex (wd s) = false /\ lost (wd s) = false.
Proof.
  destruct (first_true (worker_timeout_none ch_true_multi) 2000) as [k|] eqn:E; [|vm_compute in E; discriminate E].
  apply first_true_spec in E. unfold worker_timeout_none in E.
  destruct (run_prog worker_full _ (ch_of ch_true_multi) (crash_at KTimeout k) w_spawn0) as [r s] eqn:Hr.
  exists k, s. destruct r as [|k0| | |v]; try discriminate E. destruct v; try discriminate E.
  repeat (apply andb_prop in E; destruct E as [E ?]).
  repeat match goal with H : negb _ = true |- _ => apply negb_true_iff in H end.
  repeat match goal with H : Nat.eqb _ _ = true |- _ => apply Nat.eqb_eq in H end. auto 10.
Qed.
