(* C06 proofs, extension part 2: pooling_method 0 and 1 give the same molecules when the comparison is exact
   (distance 0; NLA or CHIC radius 0), for every arrival order and every cap; where they differ otherwise. *)
From Coq Require Import ZArith List Bool Lia ZifyBool Permutation.
Import ListNotations.
From SCMO Require Import Lib.Val Gen.GenAssign Model.C06 Model.C06x Proofs.C06_shape Proofs.C06 Proofs.C06_main Proofs.C06_cap Proofs.C06x.
Open Scope Z_scope.

Definition cls_inv (c : cfg) (X : list mol) : Prop :=
  NoDup (map (mkey c) X) /\
  forall m, In m X -> exists g, hd_error (m_frags m) = Some g /\ forall x, In x (m_frags m) -> fkeyb c g x = true.

Lemma feq_exact c x f : c_d c = 0 -> exact_site c -> feq c x f = fkeyb c x f.
Proof.
  intros Hd He. rewrite feq_shape. unfold feq_spec, fkeyb. rewrite Hd, umi_eq_0.
  destruct He as [E1|[E2 Er]].
  - rewrite E1. reflexivity.
  - rewrite E2, Er. cbn. now rewrite andb_true_r.
Qed.

Lemma fkeyb_trans_l c g x f : fkeyb c g x = true -> fkeyb c x f = fkeyb c g f.
Proof.
  intros H. apply fkeyb_eq in H. destruct (fkeyb c g f) eqn:E.
  - apply fkeyb_eq. apply fkeyb_eq in E. congruence.
  - apply fkeyb_false. apply fkeyb_false in E. congruence.
Qed.

Lemma accepts0_exact c f m g : c_d c = 0 -> exact_site c -> hd_error (m_frags m) = Some g ->
  (forall x, In x (m_frags m) -> fkeyb c g x = true) -> accepts0 c f m = fkeyb c f g.
Proof.
  intros Hd He Hh Hall. unfold accepts0. rewrite (fkeyb_sym c f g).
  destruct (m_frags m) as [|a l] eqn:Em; [discriminate|]. cbn in Hh. inversion Hh; subst a.
  destruct (fkeyb c g f) eqn:E.
  - apply existsb_exists. exists g. split; [now left|]. now rewrite feq_exact.
  - destruct (existsb (fun g0 => feq c g0 f) (g :: l)) eqn:Ex; [|reflexivity].
    apply existsb_exists in Ex as (x & Hx & Hfe). rewrite feq_exact in Hfe by assumption.
    rewrite (fkeyb_trans_l c g x f) in Hfe by auto. congruence.
Qed.

Lemma agree c f X m : c_d c = 0 -> exact_site c -> cls_inv c X -> In m X -> accepts0 c f m = accepts c f m.
Proof.
  intros Hd He [_ H] Hm. destruct (H m Hm) as (g & Hh & Hall).
  rewrite (accepts0_exact c f m g), (accepts_exact c f m g); auto.
Qed.

Lemma NoDup_map_eq {A B} (h : A -> B) (X : list A) a b : NoDup (map h X) -> In a X -> In b X -> h a = h b -> a = b.
Proof.
  induction X as [|x X IH]; intros Hn Ha Hb E; [destruct Ha|]. cbn in Hn. inversion Hn as [|? ? Hnot Hn']; subst.
  destruct Ha as [<-|Ha], Hb as [<-|Hb]; auto.
  - exfalso. apply Hnot. rewrite E. now apply in_map.
  - exfalso. apply Hnot. rewrite <- E. now apply in_map.
Qed.

Lemma unique_acceptor c f X m1 m2 : c_d c = 0 -> exact_site c -> cls_inv c X -> In m1 X -> In m2 X ->
  accepts c f m1 = true -> accepts c f m2 = true -> m1 = m2.
Proof.
  intros Hd He [Hn H] H1 H2 A1 A2. apply (NoDup_map_eq (mkey c) X); auto.
  destruct (H m1 H1) as (g1 & Hh1 & Hall1). destruct (H m2 H2) as (g2 & Hh2 & Hall2).
  rewrite (accepts_exact c f m1 g1) in A1 by auto. rewrite (accepts_exact c f m2 g2) in A2 by auto.
  apply fkeyb_eq in A1, A2. unfold mkey. rewrite Hh1, Hh2. cbn. congruence.
Qed.

Lemma cls_inv_perm c X Y : Permutation X Y -> cls_inv c X -> cls_inv c Y.
Proof.
  intros Hp [Hn H]. split.
  - eapply Permutation_NoDup; [apply Permutation_map; eassumption|assumption].
  - intros m Hm. apply H. eapply Permutation_in; [apply Permutation_sym; eassumption|assumption].
Qed.

Lemma mkey_add c m f : m_frags m <> [] -> mkey c (mol_add m f) = mkey c m.
Proof. unfold mkey. cbn [mol_add m_frags]. destruct (m_frags m); [congruence|reflexivity]. Qed.

Lemma cls_inv_step c f X X' e : c_d c = 0 -> exact_site c -> cls_inv c X -> trans0 c f X X' e -> cls_inv c X'.
Proof.
  intros Hd He Hinv Ht. pose proof Hinv as [Hn H].
  inversion Ht as [A B l1 m l2 EA EB Hacc Hfull Hrej|A B l1 m l2 EA EB Hacc Hfull Hrej|A B EB Hrej]; subst.
  - assert (Hm : In m (l1 ++ m :: l2)) by (apply in_or_app; right; now left).
    destruct (H m Hm) as (g & Hh & Hall).
    assert (Hfg : fkeyb c g f = true).
    { rewrite fkeyb_sym. rewrite <- (accepts0_exact c f m g); auto. }
    assert (Hne : m_frags m <> []) by (intros E; rewrite E in Hh; discriminate).
    split.
    + rewrite map_app in *. cbn [map] in *. now rewrite mkey_add.
    + intros m' Hm'. apply in_app_or in Hm' as [Hm'|[<-|Hm']].
      * apply H. apply in_or_app. now left.
      * exists g. cbn [mol_add m_frags]. split; [now apply hd_error_snoc|].
        intros x Hx. apply in_app_or in Hx as [Hx|[<-|[]]]; auto.
      * apply H. apply in_or_app. right. now right.
  - assert (Hm : In m (l1 ++ m :: l2)) by (apply in_or_app; right; now left).
    split.
    + rewrite map_app in *. cbn [map] in *. exact Hn.
    + intros m' Hm'. apply in_app_or in Hm' as [Hm'|[<-|Hm']].
      * apply H. apply in_or_app. now left.
      * cbn [mol_bump m_frags]. apply H. exact Hm.
      * apply H. apply in_or_app. right. now right.
  - split.
    + rewrite map_app. cbn [map]. apply Permutation_NoDup with (mkey c (mol_new 0 f) :: map (mkey c) X).
      * apply Permutation_cons_append.
      * constructor; [|assumption]. intros Hin. apply in_map_iff in Hin as (m & Hk & Hm).
        destruct (H m Hm) as (g & Hh & Hall). unfold mkey in Hk. rewrite Hh in Hk. cbn in Hk. inversion Hk as [Hk'].
        assert (Ha : accepts0 c f m = true).
        { rewrite (accepts0_exact c f m g); auto. apply fkeyb_eq. unfold fkey. congruence. }
        rewrite (Hrej m Hm) in Ha. discriminate.
    + intros m' Hm'. apply in_app_or in Hm' as [Hm'|[<-|[]]]; [auto|].
      exists f. cbn. split; [reflexivity|]. intros x [<-|[]]. unfold fkeyb. now rewrite !zs_eqb_refl.
Qed.

(* one arrival: the flat scan and the pooled scan end in the same molecules *)
Lemma step_perm c f X0 X1 X0' X1' e0 e1 : c_d c = 0 -> exact_site c -> cls_inv c X0 -> Permutation X0 X1 ->
  trans0 c f X0 X0' e0 -> trans c f X1 X1' e1 -> Permutation X0' X1' /\ e0 = e1.
Proof.
  intros Hd He Hinv Hp T0 T1.
  assert (Hag : forall m, In m X0 -> accepts0 c f m = accepts c f m) by (intros m Hm; eapply agree; eauto).
  assert (In01 : forall m, In m X0 -> In m X1) by (intros m Hm; eapply Permutation_in; eauto).
  assert (In10 : forall m, In m X1 -> In m X0) by (intros m Hm; eapply Permutation_in; [apply Permutation_sym|]; eauto).
  assert (Hmid : forall (l1 l2 : list mol) m, In m (l1 ++ m :: l2)) by (intros; apply in_or_app; right; now left).
  inversion T0 as [A B l1 m l2 EA EB Hacc Hfull Hrej|A B l1 m l2 EA EB Hacc Hfull Hrej|A B EB Hrej]; subst;
  inversion T1 as [A B l0 m0 l3 H EB Hacc1 Hfull1|A B l0 m0 l3 H EB Hacc1 Hfull1|A B l0 l3 H EB H5]; subst.
  - (* add / add *)
    assert (m = m0). { apply (unique_acceptor c f (l1 ++ m :: l2) m m0 Hd He Hinv); [apply Hmid|apply In10, Hmid|rewrite <- Hag by apply Hmid; exact Hacc|exact Hacc1]. }
    subst m0. split; [|reflexivity]. apply Permutation_app_inv in Hp. now apply Permutation_elt.
  - (* add / over *)
    assert (m = m0). { apply (unique_acceptor c f (l1 ++ m :: l2) m m0 Hd He Hinv); [apply Hmid|apply In10, Hmid|rewrite <- Hag by apply Hmid; exact Hacc|exact Hacc1]. }
    subst m0. congruence.
  - (* add / new *)
    exfalso. assert (Hm : In m (l0 ++ l3)) by (apply In01; auto).
    specialize (H5 m Hm). rewrite <- Hag in H5 by auto. congruence.
  - (* over / add *)
    assert (m = m0). { apply (unique_acceptor c f (l1 ++ m :: l2) m m0 Hd He Hinv); [apply Hmid|apply In10, Hmid|rewrite <- Hag by apply Hmid; exact Hacc|exact Hacc1]. }
    subst m0. congruence.
  - (* over / over *)
    assert (m = m0). { apply (unique_acceptor c f (l1 ++ m :: l2) m m0 Hd He Hinv); [apply Hmid|apply In10, Hmid|rewrite <- Hag by apply Hmid; exact Hacc|exact Hacc1]. }
    subst m0. split; [|reflexivity]. apply Permutation_app_inv in Hp. now apply Permutation_elt.
  - exfalso. assert (Hm : In m (l0 ++ l3)) by (apply In01; auto).
    specialize (H5 m Hm). rewrite <- Hag in H5 by auto. congruence.
  - (* new / add *)
    exfalso. assert (Hm : In m0 X0) by (apply In10; auto).
    specialize (Hrej m0 Hm). rewrite Hag in Hrej by auto. congruence.
  - exfalso. assert (Hm : In m0 X0) by (apply In10; auto).
    specialize (Hrej m0 Hm). rewrite Hag in Hrej by auto. congruence.
  - (* new / new *)
    split; [|reflexivity]. apply Permutation_trans with (mol_new 0 f :: X0); [apply Permutation_sym, Permutation_cons_append|].
    apply Permutation_cons_app. exact Hp.
Qed.

Lemma lockstep c frags : c_d c = 0 -> exact_site c -> forall s0 s1,
  groups_wf c (st_groups s1) -> cls_inv c (s0_mols s0) -> Permutation (s0_mols s0) (all_mols (st_groups s1)) ->
  s0_emitted s0 = st_emitted s1 ->
  Permutation (s0_mols (fold_left (step0 c) frags s0)) (all_mols (st_groups (fold_left (step c) frags s1))) /\
  s0_emitted (fold_left (step0 c) frags s0) = st_emitted (fold_left (step c) frags s1).
Proof.
  intros Hd He. induction frags as [|f frags IH]; intros s0 s1 Hwf Hinv Hp HE; cbn [fold_left]; [auto|].
  destruct (step_cases c s1 f Hwf) as (Hwf' & C1). pose proof (step0_cases c s0 f) as C0.
  apply IH; try assumption.
  - destruct C0 as [(Hv & Hg & _)|(Hv & e & Ht & _)].
    + now rewrite Hg.
    + eapply cls_inv_step; eauto.
  - destruct C0 as [(Hv & Hg & _)|(Hv & e & Ht & _)]; destruct C1 as [(Hv1 & Hg1 & _)|(Hv1 & e1 & Ht1 & _)]; try congruence.
    eapply step_perm; eauto.
  - destruct C0 as [(Hv & _ & Hm)|(Hv & e & Ht & Hm)]; destruct C1 as [(Hv1 & _ & Hm1)|(Hv1 & e1 & Ht1 & Hm1)]; try congruence.
    destruct (step_perm c f _ _ _ _ _ _ Hd He Hinv Hp Ht Ht1) as [_ ->]. congruence.
Qed.

Definition same_molecules (a b : option (list mol)) : Prop :=
  match a, b with
  | Some x, Some y => Permutation x y
  | None, None => True
  | _, _ => False
  end.

(* distance 0, exact sites: the flat buffer and the per-hash pools produce the same molecules (fragments in arrival
   order, refused fragments, kinds), for every arrival order and every cap; they raise on the same inputs *)
Lemma pool_equiv c frags : c_d c = 0 -> exact_site c -> same_molecules (assign0 c frags) (assign c frags).
Proof.
  intros Hd He. unfold assign0, assign. destruct (cap_bad c).
  - destruct (existsb (needs_mol c) frags); cbn; auto.
  - cbn. unfold assign0_ok, assign_ok.
    destruct (lockstep c frags Hd He s00 st0) as [Hp HE].
    + split; [constructor|intros k ms m []].
    + split; [constructor|intros m []].
    + constructor.
    + reflexivity.
    + fold s00 st0. rewrite HE. now apply Permutation_app_head.
Qed.

(* ---------------------------------------------------------------- where the two differ *)
Definition xf (id site : Z) (umi : list Z) : frag :=
  {| f_id := id; f_cell := 0; f_strand := 0; f_contig := 0; f_site := site; f_end := 0; f_umi := umi;
     f_valid := true; f_dup := false |}.
Definition xc (cls d r : Z) (cap : option Z) : cfg :=
  {| c_cls := cls; c_d := d; c_r := r; c_cap := cap; c_yinv := true; c_yover := true; c_fixed := true |}.
Definition part (o : option (list mol)) : option (list (list Z)) := option_map (map (fun m => map f_id (m_frags m))) o.

(* NLA, distance 1, UMIs AAA, AAT, ATT at one site: pooling 1 compares ATT with the representative AAA (distance 2,
   refused); pooling 0 compares it with every member and AAT accepts it *)
Definition w_umi : list frag := [xf 0 1000 [65;65;65]; xf 1 1000 [65;65;84]; xf 2 1000 [65;84;84]].
Lemma pool_equiv_umi_refuted : exists c frags, exact_site c /\ c_d c = 1 /\
  part (assign c frags) = Some [[0; 1]; [2]] /\ part (assign0 c frags) = Some [[0; 1; 2]].
Proof. exists (xc 1 1 0 None), w_umi. split; [now left|]. split; [reflexivity|]. split; vm_compute; reflexivity. Qed.

(* CHIC, radius 2, distance 0, forward sites 1000, 1002, 1004: pooling 1 compares 1004 with the molecule's extreme
   site 1000 (refused); pooling 0 compares it with every member and 1002 accepts it *)
Definition w_rad : list frag := [xf 0 1000 [65]; xf 1 1002 [65]; xf 2 1004 [65]].
Lemma pool_equiv_radius_refuted : exists c frags, c_cls c = 2 /\ c_r c = 2 /\ c_d c = 0 /\
  part (assign c frags) = Some [[0; 1]; [2]] /\ part (assign0 c frags) = Some [[0; 1; 2]].
Proof. exists (xc 2 0 2 None), w_rad. repeat split; vm_compute; reflexivity. Qed.

(* neither partition refines the other in general: CHIC radius 2, sites 1000, 1005, 1002, 1003 *)
Definition w_rad2 : list frag := [xf 0 1000 [65]; xf 1 1005 [65]; xf 2 1002 [65]; xf 3 1003 [65]].
Lemma pool_no_refinement_refuted : exists c frags, c_cls c = 2 /\ c_d c = 0 /\
  part (assign c frags) = Some [[0; 2]; [1; 3]] /\ part (assign0 c frags) = Some [[0; 2; 3]; [1]].
Proof. exists (xc 2 0 2 None), w_rad2. repeat split; vm_compute; reflexivity. Qed.

(* ---------------------------------------------------------------- the order of the capacity test *)
(* as coded (test after the match): a full molecule neither absorbs nor rejects a fragment of ANOTHER molecule of its
   pool.  Two UMIs at one NLA site, cap 1: two molecules, TF 1 each.  With the test hoisted before the match
   (offer_h; seeded change C06-13) the second fragment is refused by the full first molecule: it becomes an
   `overflow` singleton and is counted in the TF of a molecule it does not belong to. *)
Definition w_cap : list frag := [xf 0 1000 [65;65;65]; xf 1 1000 [67;67;67]].
Definition shape3 (m : mol) : list Z * nat * Z := (map f_id (m_frags m), tfn m, m_kind m).
Lemma cap_hoisted_refuted : exists c frags, c_d c = 0 /\ exact_site c /\ c_cap c = Some 1 /\
  option_map (map shape3) (assign c frags) = Some [([0], 1%nat, 0); ([1], 1%nat, 0)] /\
  option_map (map shape3) (assign0 c frags) = Some [([0], 1%nat, 0); ([1], 1%nat, 0)] /\
  map shape3 (assign_h c frags) = [([1], 1%nat, 1); ([0], 2%nat, 0)].
Proof. exists (xc 1 0 0 (Some 1)), w_cap. split; [reflexivity|]. split; [now left|]. repeat split; vm_compute; reflexivity. Qed.

(* non-vacuity of pool_equiv: cap 2, three copies of one UMI and a second UMI, shuffled *)
Definition w_eq : list frag := [xf 0 1000 [65;65]; xf 1 1000 [67;67]; xf 2 1000 [65;65]; xf 3 1001 [65;65]; xf 4 1000 [65;65]].
Lemma pool_equiv_example :
  option_map (map shape3) (assign0 (xc 1 0 0 (Some 2)) w_eq) = Some [([4], 1%nat, 1); ([0; 2], 3%nat, 0); ([1], 1%nat, 0); ([3], 1%nat, 0)] /\
  option_map (map shape3) (assign (xc 1 0 0 (Some 2)) w_eq) = Some [([4], 1%nat, 1); ([0; 2], 3%nat, 0); ([1], 1%nat, 0); ([3], 1%nat, 0)].
Proof. split; vm_compute; reflexivity. Qed.

Lemma efm_example :
  option_map (map (fun m => map (fun t => (t_id t, t_rc t, t_dup t, t_af t, t_tf t)) (write_tags true m)))
    (assign_efm (xc 1 1 0 (Some 1)) [xf 0 1000 [65;65]; xf 1 1000 [65;65]; xf 2 1000 [65;67]])
  = Some [[(0, 0, false, 1, 1)]; [(1, 0, false, 1, 1)]; [(2, 0, false, 1, 1)]].
Proof. vm_compute. reflexivity. Qed.

(* ---------------------------------------------------------------- exactness for pooling 0 (through pool_equiv) *)
Lemma perm_filter {A} (p : A -> bool) l1 l2 : Permutation l1 l2 -> Permutation (filter p l1) (filter p l2).
Proof.
  induction 1; cbn [filter].
  - constructor.
  - destruct (p x); [now constructor|assumption].
  - destruct (p x), (p y); try apply perm_swap; try apply Permutation_refl.
  - eapply Permutation_trans; eassumption.
Qed.

Lemma pool_equiv_some c frags out : c_d c = 0 -> exact_site c -> assign0 c frags = Some out ->
  exists out1, assign c frags = Some out1 /\ Permutation out out1.
Proof.
  intros Hd He H. pose proof (pool_equiv c frags Hd He) as Hs. rewrite H in Hs. unfold same_molecules in Hs.
  destruct (assign c frags) as [o|]; [|contradiction]. exists o. auto.
Qed.

Lemma exact0_main c frags out : c_d c = 0 -> exact_site c -> c_cap c = None -> assign0 c frags = Some out ->
  let ms := filter normal out in
  let vf := filter f_valid frags in
  (forall m, In m ms -> exists g, In g vf /\ m_frags m = filter (fkeyb c g) vf) /\
  (forall x, In x vf -> exists m, In m ms /\ In x (m_frags m)) /\
  NoDup (map (mkey c) ms) /\
  (forall m, In m out -> normal m = false -> exists f, m_frags m = [f] /\ f_valid f = false).
Proof.
  intros Hd He Hcap H. cbn zeta. destruct (pool_equiv_some c frags out Hd He H) as (out1 & H1 & Hp).
  destruct (exact_main c frags out1 Hd He Hcap H1) as (A & B & C & D).
  pose proof (perm_filter normal _ _ Hp) as Hpf.
  split; [|split; [|split]].
  - intros m Hm. apply A. eapply Permutation_in; eassumption.
  - intros x Hx. destruct (B x Hx) as (m & Hm & Hin). exists m. split; [|assumption].
    eapply Permutation_in; [apply Permutation_sym|]; eassumption.
  - eapply Permutation_NoDup; [apply Permutation_map, Permutation_sym; eassumption|assumption].
  - intros m Hm. apply D. eapply Permutation_in; eassumption.
Qed.

Lemma exact0_cap_main c k frags out : c_d c = 0 -> exact_site c -> c_cap c = Some k -> 1 <= k -> assign0 c frags = Some out ->
  let ms := filter normal out in
  let vf := filter f_valid frags in
  (forall m, In m ms -> exists g, In g vf /\ m_frags m = firstn (Z.to_nat k) (filter (fkeyb c g) vf) /\
                                  m_ovf m = skipn (Z.to_nat k) (filter (fkeyb c g) vf) /\
                                  Z.of_nat (length (m_frags m)) + m_over m = Z.of_nat (length (filter (fkeyb c g) vf))) /\
  (forall x, In x vf -> exists m g, In m ms /\ hd_error (m_frags m) = Some g /\ fkeyb c g x = true) /\
  NoDup (map (mkey c) ms).
Proof.
  intros Hd He Hcap Hk H. cbn zeta. destruct (pool_equiv_some c frags out Hd He H) as (out1 & H1 & Hp).
  destruct (Proofs.C06_cap.exact_cap_main c k frags out1 Hd He Hcap Hk H1) as (A & B & C).
  pose proof (perm_filter normal _ _ Hp) as Hpf.
  split; [|split].
  - intros m Hm. apply A. eapply Permutation_in; eassumption.
  - intros x Hx. destruct (B x Hx) as (m & g & Hm & Hh & Hf). exists m, g. split; [|auto].
    eapply Permutation_in; [apply Permutation_sym|]; eassumption.
  - eapply Permutation_NoDup; [apply Permutation_map, Permutation_sym; eassumption|assumption].
Qed.
