(* C18 proofs, part a: strings, sorted sets, association lists, store/lookup, load_recs *)
From Coq Require Import ZArith List Bool Lia Permutation Sorting.Sorted.
Import ListNotations.
From SCMO Require Import Lib.Val Gen.GenAlleles Model.C18 Proofs.C18_s.
Open Scope Z_scope.

(* ------------------------------------------------------------------ string comparison *)
Lemma scmp_eq a : forall b, scmp a b = Eq -> a = b.
Proof.
  induction a as [|x a IH]; intros [|y b] H; cbn in H; try discriminate; [reflexivity|].
  destruct (Z.compare_spec x y) as [E|E|E]; try discriminate. subst. f_equal. apply IH, H.
Qed.
Lemma scmp_refl a : scmp a a = Eq.
Proof. induction a as [|x a IH]; cbn; [reflexivity|]. rewrite Z.compare_refl. exact IH. Qed.
Lemma scmp_antisym a : forall b, scmp b a = CompOpp (scmp a b).
Proof.
  induction a as [|x a IH]; intros [|y b]; cbn; try reflexivity.
  rewrite (Z.compare_antisym x y). destruct (x ?= y); cbn; auto.
Qed.
Lemma scmp_lt_trans a : forall b c, scmp a b = Lt -> scmp b c = Lt -> scmp a c = Lt.
Proof.
  induction a as [|x a IH]; intros [|y b] [|z c] H1 H2; cbn in *; try discriminate; try reflexivity.
  destruct (Z.compare_spec x y) as [E1|E1|E1]; try discriminate;
  destruct (Z.compare_spec y z) as [E2|E2|E2]; try discriminate; subst.
  - rewrite Z.compare_refl. eapply IH; eauto.
  - destruct (Z.compare_spec z z); try lia. destruct (Z.compare_spec y z); try lia; reflexivity.
  - destruct (Z.compare_spec x z); try lia; reflexivity.
  - destruct (Z.compare_spec x z); try lia; reflexivity.
Qed.
Lemma seqb_eq a b : seqb a b = true <-> a = b.
Proof.
  unfold seqb. split.
  - destruct (scmp a b) eqn:E; try discriminate. intros _. apply scmp_eq, E.
  - intros ->. rewrite scmp_refl. reflexivity.
Qed.
Lemma seqb_refl a : seqb a a = true.
Proof. apply seqb_eq. reflexivity. Qed.
Lemma seqb_neq a b : seqb a b = false <-> a <> b.
Proof. rewrite <- seqb_eq. destruct (seqb a b); split; congruence. Qed.
Lemma seqb_sym a b : seqb a b = seqb b a.
Proof.
  destruct (seqb a b) eqn:E.
  - apply seqb_eq in E. subst. symmetry. apply seqb_refl.
  - symmetry. apply seqb_neq. apply seqb_neq in E. congruence.
Qed.
Lemma zeqb_eq (a b : Z) : Z.eqb a b = true <-> a = b.
Proof. apply Z.eqb_eq. Qed.

Lemma smem_In x l : smem x l = true <-> In x l.
Proof.
  unfold smem. rewrite existsb_exists. split.
  - intros (y & Hy & E). apply seqb_eq in E. subst. exact Hy.
  - intros H. exists x. split; [exact H|apply seqb_refl].
Qed.

(* ------------------------------------------------------------------ sorted sets *)
Definition slt (a b : str) : Prop := scmp a b = Lt.
Definition ssorted (l : list str) : Prop := StronglySorted slt l.

Lemma sins_In x a l : In x (sins a l) <-> x = a \/ In x l.
Proof.
  induction l as [|h t IH]; cbn.
  - intuition.
  - destruct (scmp a h) eqn:E; cbn.
    + apply scmp_eq in E. subst. intuition.
    + intuition.
    + rewrite IH. intuition.
Qed.
Lemma sins_sorted a l : ssorted l -> ssorted (sins a l).
Proof.
  unfold ssorted. induction l as [|h t IH]; cbn; intros Hs.
  - constructor; constructor.
  - destruct (scmp a h) eqn:E.
    + exact Hs.
    + constructor; [exact Hs|]. constructor; [exact E|].
      inversion Hs as [|? ? _ Hall]; subst.
      eapply Forall_impl; [|exact Hall]. intros y Hy. eapply scmp_lt_trans; eauto.
    + inversion Hs as [|? ? Ht Hall]; subst. constructor; [apply IH, Ht|].
      apply Forall_forall. intros y Hy. apply sins_In in Hy. destruct Hy as [->|Hy].
      * unfold slt. rewrite scmp_antisym, E. reflexivity.
      * rewrite Forall_forall in Hall. apply Hall, Hy.
Qed.
Lemma slt_irrefl a : ~ slt a a.
Proof. unfold slt. rewrite scmp_refl. discriminate. Qed.
Lemma ssorted_ext l1 : forall l2, ssorted l1 -> ssorted l2 -> (forall x, In x l1 <-> In x l2) -> l1 = l2.
Proof.
  unfold ssorted. induction l1 as [|a t1 IH]; intros [|b t2] H1 H2 Hx.
  - reflexivity.
  - exfalso. apply (proj2 (Hx b)). left; reflexivity.
  - exfalso. apply (proj1 (Hx a)). left; reflexivity.
  - inversion H1 as [|? ? Ht1 Ha]; subst. inversion H2 as [|? ? Ht2 Hb]; subst.
    rewrite Forall_forall in Ha, Hb.
    assert (a = b) as ->.
    { destruct (proj1 (Hx a) (or_introl eq_refl)) as [E|E]; [congruence|].
      destruct (proj2 (Hx b) (or_introl eq_refl)) as [E'|E']; [congruence|].
      exfalso. apply (slt_irrefl a). eapply scmp_lt_trans; [apply Ha, E'|apply Hb, E]. }
    f_equal. apply IH; try assumption. intros x. split; intros Hin.
    + destruct (proj1 (Hx x) (or_intror Hin)) as [E|E]; [|exact E]. subst. exfalso. apply (slt_irrefl x), Ha, Hin.
    + destruct (proj2 (Hx x) (or_intror Hin)) as [E|E]; [|exact E]. subst. exfalso. apply (slt_irrefl x), Hb, Hin.
Qed.
Lemma ssorted_NoDup l : ssorted l -> NoDup l.
Proof.
  unfold ssorted. induction 1 as [|a l Hs IH Hall]; constructor; [|exact IH].
  intros Hin. rewrite Forall_forall in Hall. apply (slt_irrefl a), Hall, Hin.
Qed.

(* set(list) in either insertion order *)
Definition canon (l : list str) : list str := fold_right sins [] l.
Lemma canon_In x l : In x (canon l) <-> In x l.
Proof. induction l as [|a l IH]; cbn; [tauto|]. rewrite sins_In, IH. intuition. Qed.
Lemma canon_sorted l : ssorted (canon l).
Proof. induction l as [|a l IH]; cbn; [constructor|]. apply sins_sorted, IH. Qed.
Lemma fold_sins_In (xs : list str) : forall acc x, In x (fold_left (fun acc y => sins y acc) xs acc) <-> In x acc \/ In x xs.
Proof.
  induction xs as [|y xs IH]; intros acc x; cbn; [tauto|]. rewrite IH, sins_In. intuition.
Qed.
Lemma fold_sins_sorted (xs : list str) : forall acc, ssorted acc -> ssorted (fold_left (fun acc y => sins y acc) xs acc).
Proof. induction xs as [|y xs IH]; intros acc H; cbn; [exact H|]. apply IH, sins_sorted, H. Qed.
Lemma canon_id l : ssorted l -> canon l = l.
Proof. intros H. apply ssorted_ext; [apply canon_sorted|exact H|intros x; apply canon_In]. Qed.

(* ------------------------------------------------------------------ association lists *)
Section AssocFacts.
  Context {K V : Type}.
  Variable eqb : K -> K -> bool.
  Hypothesis eqb_eq : forall a b, eqb a b = true <-> a = b.

  Lemma eqb_refl' a : eqb a a = true.
  Proof. apply eqb_eq. reflexivity. Qed.
  Lemma eqb_neq' a b : eqb a b = false <-> a <> b.
  Proof. rewrite <- eqb_eq. destruct (eqb a b); split; congruence. Qed.

  Lemma aget_aset (m : list (K * V)) k v k' :
    aget eqb (aset eqb m k v) k' = if eqb k' k then Some v else aget eqb m k'.
  Proof.
    induction m as [|[k0 v0] m IH]; cbn.
    - reflexivity.
    - destruct (eqb k k0) eqn:E; cbn.
      + apply eqb_eq in E. subst. destruct (eqb k' k0); reflexivity.
      + rewrite IH. destruct (eqb k' k0) eqn:E1; [|reflexivity].
        destruct (eqb k' k) eqn:E2; [|reflexivity].
        apply eqb_eq in E1, E2. subst. rewrite eqb_refl' in E. discriminate.
  Qed.
  Lemma amem_aset (m : list (K * V)) k v k' : amem eqb (aset eqb m k v) k' = eqb k' k || amem eqb m k'.
  Proof. unfold amem. rewrite aget_aset. destruct (eqb k' k); reflexivity. Qed.
  Lemma keys_aset (m : list (K * V)) k v x : In x (map fst (aset eqb m k v)) <-> x = k \/ In x (map fst m).
  Proof.
    induction m as [|[k0 v0] m IH]; cbn.
    - intuition.
    - destruct (eqb k k0) eqn:E; cbn.
      + apply eqb_eq in E. subst. intuition.
      + rewrite IH. intuition.
  Qed.
  Lemma aset_NoDup (m : list (K * V)) k v : NoDup (map fst m) -> NoDup (map fst (aset eqb m k v)).
  Proof.
    induction m as [|[k0 v0] m IH]; cbn; intros H.
    - constructor; [intros []|constructor].
    - inversion H as [|? ? Hn Hd]; subst. destruct (eqb k k0) eqn:E; cbn.
      + constructor; assumption.
      + constructor; [|apply IH, Hd]. intros Hin. apply keys_aset in Hin. destruct Hin as [->|Hin]; [|tauto].
        rewrite eqb_refl' in E. discriminate.
  Qed.
  Lemma aget_In (m : list (K * V)) k v : aget eqb m k = Some v -> In (k, v) m.
  Proof.
    induction m as [|[k0 v0] m IH]; cbn; [discriminate|].
    destruct (eqb k k0) eqn:E.
    - intros H. inversion H; subst. apply eqb_eq in E. subst. left; reflexivity.
    - intros H. right. apply IH, H.
  Qed.
  Lemma aget_None (m : list (K * V)) k : aget eqb m k = None <-> ~ In k (map fst m).
  Proof.
    induction m as [|[k0 v0] m IH]; cbn; [tauto|].
    destruct (eqb k k0) eqn:E.
    - apply eqb_eq in E. subst. split; [discriminate|]. intros H. exfalso. apply H. left; reflexivity.
    - apply eqb_neq' in E. rewrite IH. split; intros H; [intros [H1|H1]; [congruence|tauto]|tauto].
  Qed.
  Lemma In_aget (m : list (K * V)) k v : NoDup (map fst m) -> In (k, v) m -> aget eqb m k = Some v.
  Proof.
    induction m as [|[k0 v0] m IH]; cbn; intros Hd Hin; [destruct Hin|].
    inversion Hd as [|? ? Hn Hd']; subst. destruct Hin as [E|Hin].
    - inversion E; subst. rewrite eqb_refl'. reflexivity.
    - destruct (eqb k k0) eqn:E; [|apply IH; assumption].
      apply eqb_eq in E. subst. exfalso. apply Hn. change k0 with (fst (k0, v)). apply in_map, Hin.
  Qed.
  Lemma amem_In (m : list (K * V)) k : amem eqb m k = true <-> In k (map fst m).
  Proof.
    unfold amem. destruct (aget eqb m k) eqn:E.
    - split; [|reflexivity]. intros _. apply aget_In in E. change k with (fst (k, v)). apply in_map, E.
    - split; [discriminate|]. intros H. apply aget_None in E. tauto.
  Qed.
End AssocFacts.

Lemma getd_aset {K V} (eqb : K -> K -> bool) (eqb_eq : forall a b, eqb a b = true <-> a = b)
      (m : list (K * list V)) k v k' :
  getd eqb (aset eqb m k v) k' = if eqb k' k then v else getd eqb m k'.
Proof. unfold getd. rewrite aget_aset by assumption. destruct (eqb k' k); reflexivity. Qed.

(* ------------------------------------------------------------------ the nested dict *)
(* [destruct (aget e m k)] with the implicit arguments taken from the goal (ctable vs list (Z * bmap)) *)
(* unfold the type aliases everywhere so that elaborated [aget] terms match those in the goal *)
Ltac norm_ty := unfold getd, fsys, table, ctable, bmap in *.
Ltac destr_aget m k :=
  match goal with |- context [@aget ?A ?B ?e m k] => destruct (@aget A B e m k) eqn:? end.
Lemma lookup2_store t c p bm c' p' :
  lookup2 (store t c p bm) c' p' = if seqb c' c && (p' =? p) then Some bm else lookup2 t c' p'.
Proof.
  unfold lookup2, store. rewrite (aget_aset seqb seqb_eq).
  destruct (seqb c' c) eqn:E; cbn [andb].
  - rewrite (aget_aset Z.eqb zeqb_eq). apply seqb_eq in E. subst.
    destruct (p' =? p); [reflexivity|]. unfold getd, ctable. destr_aget t c; reflexivity.
  - reflexivity.
Qed.
Lemma amem_store t c p bm c' : amem seqb (store t c p bm) c' = seqb c' c || amem seqb t c'.
Proof. unfold store. apply (amem_aset seqb seqb_eq). Qed.
Lemma lookup2_nil c p : lookup2 [] c p = None.
Proof. reflexivity. Qed.

(* tables that hold (at most) contig c *)
Definition only_key (c : str) (t : table) : Prop := forall c', amem seqb t c' = true -> c' = c.
Lemma only_key_nil c : only_key c [].
Proof. intros c' H. discriminate. Qed.
Lemma only_key_store c t p bm : only_key c t -> only_key c (store t c p bm).
Proof.
  intros H c' Hm. rewrite amem_store in Hm. apply orb_true_iff in Hm. destruct Hm as [E|E].
  - apply seqb_eq, E.
  - apply H, E.
Qed.

(* ------------------------------------------------------------------ load_recs = "last informative record at the site wins" *)
Definition last_inf (cf : cfg) (c : str) (p : Z) (recs : list vrec) (acc : option bmap) : option bmap :=
  fold_left (fun acc r => if at_site c p r then match informative cf r with Some bm => Some bm | None => acc end else acc)
            recs acc.

Lemma load_recs_lookup cf c p recs : forall t,
  lookup2 (load_recs cf recs t) c p = last_inf cf c p recs (lookup2 t c p).
Proof.
  unfold load_recs, last_inf. induction recs as [|r recs IH]; intros t; cbn [fold_left]; [reflexivity|].
  rewrite IH. f_equal. unfold at_site. destruct (informative cf r) as [bm|].
  - rewrite lookup2_store, store_pos_shape. rewrite (seqb_sym c (r_chrom r)), (Z.eqb_sym p). destruct (seqb (r_chrom r) c && (r_pos r - 1 =? p)); reflexivity.
  - destruct (seqb (r_chrom r) c && (r_pos r - 1 =? p)); reflexivity.
Qed.
Lemma load_recs_amem cf recs : forall t c,
  amem seqb (load_recs cf recs t) c = true -> amem seqb t c = true \/ exists r, In r recs /\ r_chrom r = c.
Proof.
  unfold load_recs. induction recs as [|r recs IH]; intros t c H; cbn [fold_left] in H; [left; exact H|].
  apply IH in H. destruct H as [H|(r' & Hr & E)].
  - destruct (informative cf r); [|left; exact H]. rewrite amem_store in H. apply orb_true_iff in H.
    destruct H as [H|H]; [|left; exact H]. right. exists r. split; [left; reflexivity|]. apply seqb_eq in H. congruence.
  - right. exists r'. split; [right; exact Hr|exact E].
Qed.
Lemma load_recs_amem_mono cf recs : forall t c, amem seqb t c = true -> amem seqb (load_recs cf recs t) c = true.
Proof.
  unfold load_recs. induction recs as [|r recs IH]; intros t c H; cbn [fold_left]; [exact H|].
  apply IH. destruct (informative cf r); [|exact H]. rewrite amem_store, H. apply orb_true_r.
Qed.

Lemma last_inf_filter cf c p (f : vrec -> bool) recs :
  (forall r, at_site c p r = true -> f r = true) ->
  forall acc, last_inf cf c p (filter f recs) acc = last_inf cf c p recs acc.
Proof.
  intros Hf. unfold last_inf. induction recs as [|r recs IH]; intros acc; cbn [filter fold_left]; [reflexivity|].
  destruct (f r) eqn:E; cbn [fold_left]; [apply IH|].
  destruct (at_site c p r) eqn:E1; [rewrite Hf in E by assumption; discriminate|]. apply IH.
Qed.
Lemma last_inf_none cf c p recs : (forall r, In r recs -> at_site c p r = false) ->
  forall acc, last_inf cf c p recs acc = acc.
Proof.
  unfold last_inf. induction recs as [|r recs IH]; intros H acc; cbn [fold_left]; [reflexivity|].
  rewrite (H r (or_introl eq_refl)). apply IH. intros r' Hr. apply H. right; exact Hr.
Qed.

(* the sentinel sits at position -1 and does not disturb positions >= 0 *)
Lemma add_sentinel_lookup t c c' p : 0 <= p -> lookup2 (add_sentinel t c) c' p = lookup2 t c' p.
Proof.
  intros Hp. unfold add_sentinel. rewrite lookup2_store. change g_sentinel_pos with (-1).
  destruct (p =? -1) eqn:E; [apply Z.eqb_eq in E; lia|]. rewrite andb_false_r. reflexivity.
Qed.
Lemma add_sentinel_amem t c c' : amem seqb (add_sentinel t c) c' = seqb c' c || amem seqb t c'.
Proof. unfold add_sentinel. apply amem_store. Qed.
