(* C06 proofs, part 2: the result does not depend on the duplicate flags the input carries
   (assignment never reads them; the repaired write_tags assigns the bit), hence re-tagging is idempotent. *)
From Coq Require Import ZArith List Bool Lia.
Import ListNotations.
From SCMO Require Import Lib.Val Model.C06 Proofs.C06_shape Proofs.C06.
Open Scope Z_scope.

Definition erase (f : frag) : frag := set_dup f false.
Definition emol (m : mol) : mol :=
  {| m_frags := map erase (m_frags m); m_ovf := map erase (m_ovf m); m_kind := m_kind m |}.
Definition egroups (gs : groups) : groups := map (fun g => (fst g, map emol (snd g))) gs.
Definition estate (st : state) : state :=
  {| st_groups := egroups (st_groups st); st_emitted := map emol (st_emitted st) |}.

Lemma fold_left_map_ext {A B} (g : A -> B -> A) (h : B -> B) l : (forall a x, g a (h x) = g a x) ->
  forall a, fold_left g (map h l) a = fold_left g l a.
Proof. intros H. induction l as [|x l IH]; intros a; cbn; [reflexivity|]. now rewrite H, IH. Qed.

Lemma rep_of_erase fs : rep_of (map erase fs) = rep_of fs.
Proof. unfold rep_of. rewrite map_map. reflexivity. Qed.
Lemma site_of_erase fs : site_of (map erase fs) = site_of fs.
Proof. destruct fs as [|f fs]; [reflexivity|]. cbn [map site_of]. now rewrite fold_left_map_ext. Qed.
Lemma start_of_erase fs : start_of (map erase fs) = start_of fs.
Proof. destruct fs as [|f fs]; [reflexivity|]. cbn [map start_of]. now rewrite fold_left_map_ext. Qed.
Lemma end_of_erase fs : end_of (map erase fs) = end_of fs.
Proof. destruct fs as [|f fs]; [reflexivity|]. cbn [map end_of]. now rewrite fold_left_map_ext. Qed.
Lemma strand_of_erase fs : strand_of (map erase fs) = strand_of fs.
Proof. unfold strand_of. now rewrite fold_left_map_ext. Qed.
Lemma cell_of_erase fs : cell_of (map erase fs) = cell_of fs.
Proof. now destruct fs. Qed.
Lemma lastf_erase fs : lastf (map erase fs) = option_map erase (lastf fs).
Proof.
  destruct fs as [|a l] using rev_ind; [reflexivity|]. rewrite map_app. cbn [map]. now rewrite !lastf_snoc.
Qed.
Lemma hash_of_erase c fs : hash_of c (map erase fs) = hash_of c fs.
Proof. unfold hash_of. rewrite lastf_erase. now destruct (lastf fs). Qed.
Lemma chrom_of_erase fs : chrom_of (map erase fs) = chrom_of fs.
Proof. unfold chrom_of. rewrite lastf_erase. now destruct (lastf fs). Qed.

Lemma accepts_erase c f m : accepts c (erase f) (emol m) = accepts c f m.
Proof.
  unfold accepts. cbn [emol m_frags m_ovf]. rewrite <- map_app.
  rewrite !hash_of_erase, !rep_of_erase, !site_of_erase, !start_of_erase, !end_of_erase, !strand_of_erase,
          !cell_of_erase, !chrom_of_erase. reflexivity.
Qed.
Lemma full_erase c m : full c (emol m) = full c m.
Proof. unfold full. cbn [emol m_frags]. now rewrite map_length. Qed.
Lemma mol_add_erase m f : mol_add (emol m) (erase f) = emol (mol_add m f).
Proof. unfold mol_add, emol. cbn [m_frags m_ovf m_kind]. now rewrite map_app. Qed.
Lemma mol_bump_erase m f : mol_bump (emol m) (erase f) = emol (mol_bump m f).
Proof. unfold mol_bump, emol. cbn [m_frags m_ovf m_kind]. now rewrite map_app. Qed.

Definition eres (r : offer_res) : offer_res :=
  match r with Added l => Added (map emol l) | Overflowed l => Overflowed (map emol l) | Rejected => Rejected end.

Lemma offer_erase c f ms : offer c (erase f) (map emol ms) = eres (offer c f ms).
Proof.
  induction ms as [|m ms IH]; cbn [map]; [reflexivity|].
  rewrite !offer_cons, accepts_erase, full_erase, IH. destruct (accepts c f m).
  - destruct (full c m); cbn [eres map]; now rewrite ?mol_add_erase, ?mol_bump_erase.
  - now destruct (offer c f ms).
Qed.

Lemma step_group_erase c f ms :
  step_group c (erase f) (map emol ms) = (map emol (fst (step_group c f ms)), option_map emol (snd (step_group c f ms))).
Proof.
  unfold step_group. rewrite offer_erase. destruct (offer c f ms); cbn [eres fst snd option_map]; try reflexivity.
  now rewrite map_app.
Qed.

Lemma step_groups_erase c f k gs :
  step_groups c (erase f) k (egroups gs) = (egroups (fst (step_groups c f k gs)), option_map emol (snd (step_groups c f k gs))).
Proof.
  induction gs as [|[k' ms] gs IH]; cbn [egroups map step_groups fst snd]; [reflexivity|].
  destruct (zs_eqb k k').
  - rewrite step_group_erase. destruct (step_group c f ms) as [ms' e]. reflexivity.
  - fold (egroups gs). rewrite IH. destruct (step_groups c f k gs) as [gs'' e]. reflexivity.
Qed.

Lemma step_erase c st f : step c (estate st) (erase f) = estate (step c st f).
Proof.
  unfold step. change (f_valid (erase f)) with (f_valid f). change (key c (erase f)) with (key c f).
  destruct (f_valid f); cbn [negb].
  - cbn [estate st_groups st_emitted]. rewrite step_groups_erase.
    destruct (step_groups c f (key c f) (st_groups st)) as [gs' e]. cbn [fst snd].
    destruct e as [m|]; cbn [option_map]; [destruct (c_yover c)|]; unfold estate; cbn [st_groups st_emitted];
      rewrite ?map_app; reflexivity.
  - destruct (c_yinv c); [|reflexivity]. unfold estate. cbn [st_groups st_emitted]. now rewrite map_app.
Qed.

Lemma fold_erase c l : forall st, fold_left (step c) (map erase l) (estate st) = estate (fold_left (step c) l st).
Proof. induction l as [|f l IH]; intros st; cbn [map fold_left]; [reflexivity|]. now rewrite step_erase, IH. Qed.

Lemma all_mols_erase gs : all_mols (egroups gs) = map emol (all_mols gs).
Proof. unfold all_mols, egroups. rewrite concat_map, !map_map. reflexivity. Qed.

Lemma assign_ok_erase c l : assign_ok c (map erase l) = map emol (assign_ok c l).
Proof.
  unfold assign_ok. change {| st_groups := []; st_emitted := [] |} with (estate {| st_groups := []; st_emitted := [] |}).
  rewrite fold_erase. cbn [estate st_groups st_emitted]. now rewrite all_mols_erase, map_app.
Qed.

Lemma existsb_erase c l : existsb (needs_mol c) (map erase l) = existsb (needs_mol c) l.
Proof. induction l as [|f l IH]; cbn; [reflexivity|]. now rewrite IH. Qed.

Lemma assign_erase c l : assign c (map erase l) = option_map (map emol) (assign c l).
Proof.
  unfold assign. rewrite existsb_erase, assign_ok_erase. destruct (cap_bad c); [destruct (existsb _ l)|]; reflexivity.
Qed.

Lemma tags_from_erase n over fs : 0 <= n -> forall rc, 0 <= rc ->
  tags_from true n over rc (map erase fs) = tags_from true n over rc fs.
Proof.
  intros Hn. induction fs as [|f fs IH]; intros rc Hrc; cbn [map]; [reflexivity|].
  rewrite !tags_from_cons by assumption. rewrite IH by lia. reflexivity.
Qed.

Lemma write_tags_erase m : write_tags true (emol m) = write_tags true m.
Proof. unfold write_tags, m_over. cbn [emol m_frags m_ovf]. rewrite !map_length, tags_from_erase by lia. reflexivity. Qed.

Definition tagged (c : cfg) (l : list frag) : option (list (list tagrec)) :=
  option_map (map (write_tags true)) (assign c l).

Lemma tagged_erase c l : tagged c (map erase l) = tagged c l.
Proof.
  unfold tagged. rewrite assign_erase. destruct (assign c l) as [out|]; [|reflexivity]. cbn [option_map].
  rewrite map_map. f_equal. apply map_ext. intros m. apply write_tags_erase.
Qed.

Lemma dup_independent c l1 l2 : map erase l1 = map erase l2 -> tagged c l1 = tagged c l2.
Proof. intros H. now rewrite <- (tagged_erase c l1), <- (tagged_erase c l2), H. Qed.

Lemma retag_erase c l : map erase (retag c l) = map erase l.
Proof. unfold retag. destruct (assign c l); [|reflexivity]. rewrite map_map. reflexivity. Qed.

Lemma retag_idempotent c l : tagged c (retag c l) = tagged c l.
Proof. apply dup_independent, retag_erase. Qed.
