(* C12: lemmas about the nested dictionaries, the += 1 accumulation and the update-merge. *)
From Coq Require Import ZArith List Bool Lia ZifyBool Permutation.
Import ListNotations.
From SCMO Require Import Lib.Val Lib.PyInt Lib.PyIntFacts Gen.GenBinCount Model.C12.
Open Scope Z_scope.

(* ---- sums *)
Lemma zsum_cons {A} (f : A -> Z) x l : zsum f (x :: l) = f x + zsum f l.
Proof. reflexivity. Qed.
Lemma zcount_cons {A} (f : A -> bool) x l : zcount f (x :: l) = (if f x then 1 else 0) + zcount f l.
Proof. reflexivity. Qed.

Lemma zsum_app {A} (f : A -> Z) l l' : zsum f (l ++ l') = zsum f l + zsum f l'.
Proof. induction l as [|x l IH]; [reflexivity|]. rewrite <- app_comm_cons, !zsum_cons, IH. lia. Qed.

Lemma zsum_map {A B} (f : B -> Z) (g : A -> B) l : zsum f (map g l) = zsum (fun x => f (g x)) l.
Proof. induction l as [|x l IH]; [reflexivity|]. cbn [map]. rewrite !zsum_cons, IH. reflexivity. Qed.

Lemma zsum_flat_map {A B} (f : B -> Z) (g : A -> list B) l :
  zsum f (flat_map g l) = zsum (fun x => zsum f (g x)) l.
Proof. induction l as [|x l IH]; [reflexivity|]. cbn [flat_map]. rewrite zsum_app, zsum_cons, IH. reflexivity. Qed.

Lemma zsum_ext_in {A} (f g : A -> Z) l : (forall x, In x l -> f x = g x) -> zsum f l = zsum g l.
Proof.
  induction l as [|x l IH]; intros H; [reflexivity|].
  rewrite !zsum_cons. rewrite IH by (intros y Hy; apply H; right; exact Hy).
  rewrite (H x) by (left; reflexivity). reflexivity.
Qed.

Lemma zsum_zero {A} (f : A -> Z) l : (forall x, In x l -> f x = 0) -> zsum f l = 0.
Proof. intros H. rewrite (zsum_ext_in f (fun _ => 0) l H). clear H. induction l as [|x l IH]; [reflexivity|]. rewrite zsum_cons, IH. reflexivity. Qed.

Lemma zsum_add {A} (f g : A -> Z) l : zsum (fun x => f x + g x) l = zsum f l + zsum g l.
Proof. induction l as [|x l IH]; [reflexivity|]. rewrite !zsum_cons, IH. lia. Qed.

Lemma zsum_perm {A} (f : A -> Z) l l' : Permutation l l' -> zsum f l = zsum f l'.
Proof.
  induction 1 as [|x l l' _ IH|x y l|l l' l'' _ IH1 _ IH2]; rewrite ?zsum_cons; try lia.
Qed.

Lemma zcount_ext_in {A} (f g : A -> bool) l : (forall x, In x l -> f x = g x) -> zcount f l = zcount g l.
Proof.
  induction l as [|x l IH]; intros H; [reflexivity|].
  rewrite !zcount_cons. rewrite IH by (intros y Hy; apply H; right; exact Hy).
  rewrite (H x) by (left; reflexivity). reflexivity.
Qed.

Lemma zcount_filter {A} (f g : A -> bool) l : zcount f (filter g l) = zcount (fun x => g x && f x) l.
Proof.
  induction l as [|x l IH]; [reflexivity|]. cbn [filter]. rewrite zcount_cons.
  destruct (g x); cbn [andb]; [rewrite zcount_cons|]; rewrite IH; reflexivity.
Qed.

Lemma zcount_nonneg {A} (f : A -> bool) l : 0 <= zcount f l.
Proof. induction l as [|x l IH]; [reflexivity|]. rewrite zcount_cons. destruct (f x); lia. Qed.

(* sum over an integer range of an indicator of one index *)
Lemma zsum_single (v i0 : Z) : forall n lo, lo <= i0 < lo + Z.of_nat n ->
  zsum (fun i => if i =? i0 then v else 0) (zrange_from lo n) = v.
Proof.
  induction n as [|n IH]; intros lo H; [lia|]. cbn [zrange_from]. rewrite zsum_cons.
  destruct (lo =? i0) eqn:E.
  - rewrite zsum_zero; [lia|]. intros x Hx. apply zrange_from_In in Hx. destruct (x =? i0) eqn:E2; lia.
  - rewrite IH by lia. lia.
Qed.

(* ---- bin ids *)
Lemma binid_eqb_eq a b : binid_eqb a b = true <-> a = b.
Proof.
  destruct a as [[[a1 a2] a3] a4], b as [[[b1 b2] b3] b4]. unfold binid_eqb.
  rewrite !andb_true_iff, !Z.eqb_eq. split.
  - intros [[[-> ->] ->] ->]. reflexivity.
  - intros H. inversion H. auto.
Qed.
Lemma binid_eqb_refl a : binid_eqb a a = true.
Proof. apply binid_eqb_eq. reflexivity. Qed.
Lemma binid_eqb_neq a b : a <> b -> binid_eqb a b = false.
Proof. intros H. destruct (binid_eqb a b) eqn:E; [|reflexivity]. apply binid_eqb_eq in E. contradiction. Qed.
Lemma binid_eqb_sym a b : binid_eqb a b = binid_eqb b a.
Proof.
  destruct (binid_eqb b a) eqn:E.
  - apply binid_eqb_eq in E. subst. apply binid_eqb_refl.
  - apply binid_eqb_neq. intros ->. rewrite binid_eqb_refl in E. discriminate.
Qed.
Definition binid_dec (a b : binid) : {a = b} + {a <> b}.
Proof. repeat decide equality. Defined.

Definition keys (c : dict2) : list binid := map fst c.

Lemma keys_app c r : keys (c ++ r) = keys c ++ keys r.
Proof. apply map_app. Qed.

Lemma look_cons q0 d t q s : look ((q0, d) :: t) q s = if binid_eqb q q0 then val1 s d else look t q s.
Proof. unfold look. cbn [get2]. destruct (binid_eqb q q0); reflexivity. Qed.

Lemma look_nil q s : look [] q s = 0.
Proof. reflexivity. Qed.

Lemma look_notin c q s : ~ In q (keys c) -> look c q s = 0.
Proof.
  induction c as [|[q0 d] t IH]; intros H; [reflexivity|]. rewrite look_cons.
  cbn [keys map fst In] in H. rewrite binid_eqb_neq by (intros ->; apply H; left; reflexivity).
  apply IH. intros Hin. apply H. right. exact Hin.
Qed.

Lemma look_app_l c r q s : In q (keys c) -> look (c ++ r) q s = look c q s.
Proof.
  induction c as [|[q0 d] t IH]; intros H; [destruct H|]. rewrite <- app_comm_cons, !look_cons.
  destruct (binid_eqb q q0) eqn:E; [reflexivity|]. apply IH. destruct H as [H|H]; [|exact H].
  cbn [fst] in H. subst. rewrite binid_eqb_refl in E. discriminate.
Qed.

Lemma look_app_r c r q s : ~ In q (keys c) -> look (c ++ r) q s = look r q s.
Proof.
  induction c as [|[q0 d] t IH]; intros H; [reflexivity|]. rewrite <- app_comm_cons, look_cons.
  cbn [keys map fst In] in H. rewrite binid_eqb_neq by (intros ->; apply H; left; reflexivity).
  apply IH. intros Hin. apply H. right. exact Hin.
Qed.

(* ---- counts[bin_id][sample] += 1 *)
Lemma val1_cons s0 n t s : val1 s ((s0, n) :: t) = if s =? s0 then n else val1 s t.
Proof. unfold val1. cbn [get1]. destruct (s =? s0); reflexivity. Qed.

Lemma val1_inc1 s d s' : val1 s' (inc1 s d) = val1 s' d + (if s' =? s then 1 else 0).
Proof.
  induction d as [|[s0 n] t IH]; cbn [inc1].
  - rewrite val1_cons. unfold val1. cbn [get1]. destruct (s' =? s); lia.
  - destruct (s =? s0) eqn:E; rewrite !val1_cons.
    + destruct (s' =? s0) eqn:E2; destruct (s' =? s) eqn:E3; lia.
    + rewrite IH. destruct (s' =? s0) eqn:E2; destruct (s' =? s) eqn:E3; lia.
Qed.

Lemma look_inc2 q s c q' s' :
  look (inc2 q s c) q' s' = look c q' s' + (if binid_eqb q' q && (s' =? s) then 1 else 0).
Proof.
  induction c as [|[q0 d] t IH]; cbn [inc2].
  - rewrite look_cons, look_nil. destruct (binid_eqb q' q); cbn [andb]; [|reflexivity].
    rewrite val1_cons. unfold val1. cbn [get1]. rewrite ?look_nil. destruct (s' =? s); lia.
  - destruct (binid_eqb q q0) eqn:E; rewrite !look_cons.
    + apply binid_eqb_eq in E. subst q0. destruct (binid_eqb q' q); cbn [andb]; [|lia]. apply val1_inc1.
    + rewrite IH. destruct (binid_eqb q' q0) eqn:E2; [|reflexivity].
      apply binid_eqb_eq in E2. subst q0. rewrite binid_eqb_sym, E. cbn [andb]. lia.
Qed.

Lemma keys_inc2 q s c q' : In q' (keys (inc2 q s c)) <-> q' = q \/ In q' (keys c).
Proof.
  induction c as [|[q0 d] t IH]; cbn [inc2].
  - cbn. intuition congruence.
  - destruct (binid_eqb q q0) eqn:E.
    + apply binid_eqb_eq in E. subst q0. cbn [keys map fst In]. fold (keys t). intuition congruence.
    + cbn [keys map fst In]. fold (keys t). fold (keys (inc2 q s t)). rewrite IH. intuition.
Qed.

Lemma keys_inc2_NoDup q s c : NoDup (keys c) -> NoDup (keys (inc2 q s c)).
Proof.
  induction c as [|[q0 d] t IH]; cbn [inc2]; intros H.
  - cbn. constructor; [intros []|constructor].
  - cbn [keys map fst] in H. fold (keys t) in H. inversion H as [|? ? Hn Hd]; subst.
    destruct (binid_eqb q q0) eqn:E.
    + cbn [keys map fst]. fold (keys t). constructor; assumption.
    + cbn [keys map fst]. fold (keys (inc2 q s t)). constructor; [|apply IH; exact Hd].
      rewrite keys_inc2. intros [->|Hin]; [|contradiction]. rewrite binid_eqb_refl in E. discriminate.
Qed.

Lemma total1_inc1 s d : total1 (inc1 s d) = total1 d + 1.
Proof.
  induction d as [|[s0 n] t IH]; cbn [inc1]; [reflexivity|].
  destruct (s =? s0); cbn [total1 fold_right snd]; fold (total1 t); [lia|]. fold (total1 (inc1 s t)). lia.
Qed.

Lemma total_cons e t : total (e :: t) = total1 (snd e) + total t.
Proof. reflexivity. Qed.

Lemma total_inc2 q s c : total (inc2 q s c) = total c + 1.
Proof.
  induction c as [|[q0 d] t IH]; cbn [inc2]; [reflexivity|].
  destruct (binid_eqb q q0); rewrite !total_cons; cbn [snd]; [rewrite total1_inc1|rewrite IH]; lia.
Qed.

Lemma total_app c r : total (c ++ r) = total c + total r.
Proof. induction c as [|e c IH]; [reflexivity|]. rewrite <- app_comm_cons, !total_cons, IH. lia. Qed.

(* every stored count is positive *)
Definition positive (c : dict2) : Prop := forall q d s n, In (q, d) c -> In (s, n) d -> 1 <= n.
Definition nodup_samples (c : dict2) : Prop := forall q d, In (q, d) c -> NoDup (map fst d).

Lemma inc1_In s d s' n : In (s', n) (inc1 s d) -> In (s', n) d \/ (s' = s /\ exists m, n = m + 1 /\ (m = 0 \/ In (s', m) d)).
Proof.
  induction d as [|[s0 m] t IH]; cbn [inc1].
  - intros [H|[]]. inversion H; subst. right. split; [reflexivity|]. exists 0. auto.
  - destruct (s =? s0) eqn:E.
    + apply Z.eqb_eq in E. subst s0. intros [H|H].
      * inversion H; subst. right. split; [reflexivity|]. exists m. split; [reflexivity|]. right. left. reflexivity.
      * left. right. exact H.
    + intros [H|H].
      * left. left. exact H.
      * destruct (IH H) as [H1|(-> & m' & -> & [->|H2])].
        -- left. right. exact H1.
        -- right. split; [reflexivity|]. exists 0. auto.
        -- right. split; [reflexivity|]. exists m'. split; [reflexivity|]. right. right. exact H2.
Qed.

Lemma positive_inc2 q s c : positive c -> positive (inc2 q s c).
Proof.
  induction c as [|[q0 d] t IH]; cbn [inc2]; intros H.
  - intros q' d' s' n [E|[]] Hin. inversion E; subst. destruct Hin as [E2|[]]. inversion E2. lia.
  - destruct (binid_eqb q q0) eqn:E.
    + intros q' d' s' n [E1|Hin1] Hin.
      * inversion E1; subst. apply inc1_In in Hin. destruct Hin as [Hin|(-> & m & -> & [->|Hm])].
        -- apply (H q' d s' n); [left; reflexivity|exact Hin].
        -- lia.
        -- assert (1 <= m) by (apply (H q' d s m); [left; reflexivity|exact Hm]). lia.
      * apply (H q' d' s' n); [right; exact Hin1|exact Hin].
    + intros q' d' s' n [E1|Hin1] Hin.
      * inversion E1; subst. apply (H q' d' s' n); [left; reflexivity|exact Hin].
      * apply (IH (fun a b c0 e Ha Hb => H a b c0 e (or_intror Ha) Hb) q' d' s' n Hin1 Hin).
Qed.

(* ---- the update-merge of obtain_counts: when the incoming bin ids are new, it is concatenation *)
Lemma merge_entry_notin q sd c : ~ In q (keys c) -> merge_entry q sd c = c ++ [(q, sd)].
Proof.
  induction c as [|[q0 d] t IH]; intros H; [reflexivity|]. cbn [merge_entry].
  cbn [keys map fst In] in H. rewrite binid_eqb_neq by (intros ->; apply H; left; reflexivity).
  rewrite IH by (intros Hin; apply H; right; exact Hin). reflexivity.
Qed.

Lemma merge_disjoint : forall r c, NoDup (keys r) -> (forall q, In q (keys r) -> ~ In q (keys c)) ->
  merge c r = c ++ r.
Proof.
  induction r as [|[q sd] r IH]; intros c Hnd Hdis.
  - unfold merge. cbn [fold_left]. rewrite app_nil_r. reflexivity.
  - unfold merge. cbn [fold_left fst snd]. fold (merge (merge_entry q sd c) r).
    cbn [keys map fst] in Hnd. fold (keys r) in Hnd. inversion Hnd as [|? ? Hn Hd]; subst.
    rewrite merge_entry_notin by (apply Hdis; left; reflexivity).
    rewrite IH; [rewrite <- app_assoc; reflexivity|exact Hd|].
    intros q' Hq'. rewrite keys_app, in_app_iff. cbn [keys map fst In].
    intros [Hc|[->|[]]]; [|contradiction]. apply (Hdis q'); [right; exact Hq'|exact Hc].
Qed.

Lemma NoDup_app_intro {A} (l l' : list A) :
  NoDup l -> NoDup l' -> (forall x, In x l -> ~ In x l') -> NoDup (l ++ l').
Proof.
  induction l as [|x l IH]; intros H1 H2 H; [exact H2|]. cbn [app]. inversion H1 as [|? ? Hx Hl]; subst. constructor.
  - rewrite in_app_iff. intros [Hi|Hi]; [contradiction|]. apply (H x); [left; reflexivity|exact Hi].
  - apply IH; [exact Hl|exact H2|]. intros y Hy. apply H. right. exact Hy.
Qed.

(* ---- job results whose bin ids are OWNED by one job each: update-merging them in any order without
   repetition is concatenation, and a lookup in the merged dictionary is the sum of the lookups *)
Section MergeOwned.
  Variable J : Type.
  Variable res : J -> dict2.
  Variable own : binid -> J -> Prop.
  Variable dom : list J.
  Hypothesis res_nodup : forall j, In j dom -> NoDup (keys (res j)).
  Hypothesis res_owned : forall j q, In j dom -> In q (keys (res j)) -> own q j.
  Hypothesis own_unique : forall q j j', In j dom -> In j' dom -> own q j -> own q j' -> j = j'.

  Lemma fold_merge_concat : forall p c, NoDup p -> incl p dom ->
    (forall q, In q (keys c) -> forall j, In j p -> ~ own q j) ->
    fold_left merge (map res p) c = c ++ concat (map res p).
  Proof.
    induction p as [|j p IH]; intros c Hnd Hin Hc.
    - cbn. rewrite app_nil_r. reflexivity.
    - cbn [map fold_left concat]. inversion Hnd as [|? ? Hnj Hnd']; subst.
      assert (Hj : In j dom) by (apply Hin; left; reflexivity).
      rewrite merge_disjoint.
      + rewrite IH; [rewrite <- app_assoc; reflexivity|exact Hnd'|intros x Hx; apply Hin; right; exact Hx|].
        intros q Hq j' Hj'. rewrite keys_app, in_app_iff in Hq. destruct Hq as [Hq|Hq].
        * apply (Hc q Hq). right. exact Hj'.
        * intros Ho. assert (j = j').
          { apply (own_unique q); auto. apply Hin. right. exact Hj'. }
          subst. contradiction.
      + apply res_nodup. exact Hj.
      + intros q Hq Hqc. apply (Hc q Hqc j); [left; reflexivity|]. apply res_owned; assumption.
  Qed.

  Lemma merge_all_concat p : NoDup p -> incl p dom -> merge_all (map res p) = concat (map res p).
  Proof.
    intros Hnd Hin. unfold merge_all. rewrite fold_merge_concat; [reflexivity|exact Hnd|exact Hin|].
    intros q [].
  Qed.

  Lemma look_concat q s : forall p, NoDup p -> incl p dom ->
    look (concat (map res p)) q s = zsum (fun j => look (res j) q s) p.
  Proof.
    induction p as [|j p IH]; intros Hnd Hin; [reflexivity|].
    cbn [map concat]. rewrite zsum_cons. inversion Hnd as [|? ? Hnj Hnd']; subst.
    assert (Hj : In j dom) by (apply Hin; left; reflexivity).
    assert (Hin' : incl p dom) by (intros x Hx; apply Hin; right; exact Hx).
    destruct (in_dec binid_dec q (keys (res j))) as [Hq|Hq].
    - rewrite look_app_l by exact Hq. rewrite zsum_zero; [lia|].
      intros j' Hj'. apply look_notin. intros Hq'.
      assert (j = j') by (apply (own_unique q); auto). subst. contradiction.
    - rewrite look_app_r by exact Hq. rewrite (look_notin _ _ _ Hq), IH by assumption. lia.
  Qed.

  Lemma total_concat : forall p, total (concat (map res p)) = zsum (fun j => total (res j)) p.
  Proof.
    induction p as [|j p IH]; [reflexivity|]. cbn [map concat]. rewrite total_app, zsum_cons, IH. reflexivity.
  Qed.

  Lemma keys_concat_in : forall p q, In q (keys (concat (map res p))) -> exists j', In j' p /\ In q (keys (res j')).
  Proof.
    induction p as [|a p IHp]; intros q Hq; [destruct Hq|].
    cbn [map concat] in Hq. rewrite keys_app, in_app_iff in Hq. destruct Hq as [Hq|Hq].
    - exists a. split; [left; reflexivity|exact Hq].
    - destruct (IHp q Hq) as (j' & H1 & H2). exists j'. split; [right; exact H1|exact H2].
  Qed.

  Lemma keys_concat_NoDup : forall p, NoDup p -> incl p dom -> NoDup (keys (concat (map res p))).
  Proof.
    induction p as [|j p IH]; intros Hnd Hin; [constructor|].
    cbn [map concat]. rewrite keys_app. inversion Hnd as [|? ? Hnj Hnd']; subst.
    assert (Hj : In j dom) by (apply Hin; left; reflexivity).
    assert (Hin' : incl p dom) by (intros x Hx; apply Hin; right; exact Hx).
    apply NoDup_app_intro; [apply res_nodup; exact Hj|apply IH; assumption|].
    intros q Hq Hr. destruct (keys_concat_in p q Hr) as (j' & H1 & H2).
    assert (j = j') by (apply (own_unique q); auto). subst. contradiction.
  Qed.
End MergeOwned.
