(* C03 proofs, part 2: the hamming space built by expand, the resolution loop, the lookup theorem. *)
From Coq Require Import ZArith List Bool Arith Lia Permutation Sorted.
Import ListNotations.
From SCMO Require Import Lib.Val Lib.PyInt Gen.GenBarcode Model.C03 Proofs.C03.

(* ------------------------------------------------------------------ group-by: hammingSpace[inst].append(e) *)
Definition item := (str * entry)%type.      (* (hammingInstance, (distance, origin)) in append order *)

Definition collect (inst : str) (es : list item) : list entry :=
  map snd (filter (fun e => str_eqb inst (fst e)) es).

Definition space_of (es : list item) (hs : hspace) : hspace :=
  fold_left (fun h e => dappend (fst e) (snd e) h) es hs.

Lemma dgetl_space_of inst es : forall hs, dgetl inst (space_of es hs) = dgetl inst hs ++ collect inst es.
Proof.
  unfold space_of, collect. induction es as [|[i e] es IH]; intros hs; cbn [fold_left filter map fst snd].
  - rewrite app_nil_r. reflexivity.
  - rewrite IH, dgetl_dappend. destruct (str_eqb inst i); cbn [map snd]; [rewrite <- app_assoc|]; reflexivity.
Qed.

Definition hs_ok (hs : hspace) : Prop :=
  NoDup (keys hs) /\ forall inst l, In (inst, l) hs -> l <> [].

Lemma hs_ok_dappend k (x : entry) hs : hs_ok hs -> hs_ok (dappend k x hs).
Proof.
  intros [Hnd Hne]. rewrite dappend_dset. split.
  - apply keys_dset_nodup. exact Hnd.
  - intros inst l Hin.
    assert (Hnd' : NoDup (keys (dset k (dgetl k hs ++ [x]) hs))) by (apply keys_dset_nodup; exact Hnd).
    apply (in_dget _ _ _ Hnd') in Hin.
    destruct (str_eq_dec inst k) as [->|Hneq].
    + rewrite dget_dset_same in Hin. inversion Hin. destruct (dgetl k hs); discriminate.
    + rewrite dget_dset_other in Hin by exact Hneq. apply dget_some_in in Hin. eapply Hne. exact Hin.
Qed.

Lemma hs_ok_space_of es : forall hs, hs_ok hs -> hs_ok (space_of es hs).
Proof.
  unfold space_of. induction es as [|e es IH]; intros hs H; cbn; [exact H|].
  apply IH. apply hs_ok_dappend. exact H.
Qed.

Lemma space_of_entry es inst l : In (inst, l) (space_of es []) -> l = collect inst es /\ l <> [].
Proof.
  intros Hin.
  assert (Hok : hs_ok (space_of es [])) by (apply hs_ok_space_of; split; [constructor|intros ? ? []]).
  destruct Hok as [Hnd Hne]. split; [|eapply Hne; exact Hin].
  apply (in_dget _ _ _ Hnd) in Hin.
  pose proof (dgetl_space_of inst es []) as H. unfold dgetl at 1 in H. rewrite Hin in H. exact H.
Qed.

Lemma space_of_none es inst : dget inst (space_of es []) = None -> collect inst es = [].
Proof.
  intros Hn. pose proof (dgetl_space_of inst es []) as H. unfold dgetl at 1 in H. rewrite Hn in H.
  symmetry. exact H.
Qed.

Lemma in_collect inst e es : In e (collect inst es) <-> In (inst, e) es.
Proof.
  unfold collect. rewrite in_map_iff. split.
  - intros [[i e'] [He Hin]]. cbn in He. subst e'. apply filter_In in Hin. destruct Hin as [Hin Heq].
    cbn in Heq. apply str_eqb_eq in Heq. subst. exact Hin.
  - intros Hin. exists (inst, e). split; [reflexivity|]. apply filter_In. split; [exact Hin|].
    cbn. apply str_eqb_refl.
Qed.

Lemma collect_nodup inst es : NoDup es -> NoDup (collect inst es).
Proof.
  intros Hnd. unfold collect. apply NoDup_map_inj_in.
  - intros [i1 e1] [i2 e2] H1 H2 Heq. cbn in Heq. subst e2.
    apply filter_In in H1. destruct H1 as [_ H1]. apply filter_In in H2. destruct H2 as [_ H2].
    cbn in H1, H2. apply str_eqb_eq in H1. apply str_eqb_eq in H2. congruence.
  - apply NoDup_filter. exact Hnd.
Qed.

(* ------------------------------------------------------------------ the items expand appends, in order *)
Definition items_of (k : nat) (ks : list str) : list item :=
  flat_map (fun b => flat_map (fun d => map (fun inst => (inst, (d, b))) (circle alphabet b d)) (seq 0 (S k))) ks.

Lemma build_space_items k ks : build_space k ks = space_of (items_of k ks) [].
Proof.
  unfold build_space, space_of, items_of. rewrite fold_left_flat_map.
  apply fold_left_ext. intros hs b. unfold add_barcode_space. rewrite gen_dist_range_shape, fold_left_flat_map.
  apply fold_left_ext. intros hs' d. unfold add_circle. rewrite fold_left_map. reflexivity.
Qed.

Lemma in_items k ks inst d b :
  In (inst, (d, b)) (items_of k ks) <-> In b ks /\ (d <= k)%nat /\ In inst (circle alphabet b d).
Proof.
  unfold items_of. rewrite in_flat_map. split.
  - intros [b' [Hb H]]. apply in_flat_map in H. destruct H as [d' [Hd H]].
    apply in_map_iff in H. destruct H as [i [Heq Hi]]. inversion Heq; subst.
    apply in_seq in Hd. repeat split; auto. lia.
  - intros (Hb & Hd & Hi). exists b. split; [exact Hb|]. apply in_flat_map. exists d. split.
    + apply in_seq. lia.
    + apply in_map_iff. exists inst. auto.
Qed.

Lemma items_nodup k ks : NoDup ks -> NoDup (items_of k ks).
Proof.
  intros Hnd. unfold items_of. apply NoDup_flat_map_intro; [exact Hnd| |].
  - intros b _. apply NoDup_flat_map_intro; [apply seq_NoDup| |].
    + intros d _. apply NoDup_map_inj_in; [|apply circle_nodup]. intros x y _ _ H. congruence.
    + intros d1 d2 z _ _ Hne H1 H2.
      apply in_map_iff in H1. destruct H1 as [i1 [<- _]].
      apply in_map_iff in H2. destruct H2 as [i2 [E _]]. congruence.
  - intros b1 b2 z _ _ Hne H1 H2.
    apply in_flat_map in H1. destruct H1 as [d1 [_ H1]]. apply in_map_iff in H1. destruct H1 as [i1 [<- _]].
    apply in_flat_map in H2. destruct H2 as [d2 [_ H2]]. apply in_map_iff in H2. destruct H2 as [i2 [E _]].
    congruence.
Qed.

(* the candidate list of an instance: one (distance, origin) per whitelisted origin within k *)
Definition cands (k : nat) (ks : list str) (inst : str) : list entry := collect inst (items_of k ks).

Lemma cands_sound k ks inst d b : In (d, b) (cands k ks inst) ->
  In b ks /\ (d <= k)%nat /\ length inst = length b /\ hamming inst b = d.
Proof.
  unfold cands. rewrite in_collect, in_items. intros (Hb & Hd & Hc).
  apply circle_sound in Hc. tauto.
Qed.

Lemma cands_complete k ks inst b : Forall alpha inst -> Forall alpha b -> In b ks ->
  length inst = length b -> (hamming inst b <= k)%nat -> In (hamming inst b, b) (cands k ks inst).
Proof.
  intros Hi Hb Hin Hl Hd. unfold cands. rewrite in_collect, in_items.
  repeat split; auto. apply circle_complete; auto.
Qed.

Lemma cands_nodup k ks inst : NoDup ks -> NoDup (cands k ks inst).
Proof. intros H. apply collect_nodup. apply items_nodup. exact H. Qed.

(* ------------------------------------------------------------------ the resolution loop *)
Lemma resolve_step_pick t inst l : l <> [] ->
  resolve_step (Ok t) (inst, l) =
  match pick l with
  | None => Ok t
  | Some x => match dget (snd x) (bcs t) with
              | None => KeyError
              | Some i => Ok (add_barcode t inst i (fst x) (snd x))
              end
  end.
Proof.
  intros Hne. unfold resolve_step, pick. cbn [fst snd].
  rewrite gen_tie_shape, gen_pick_index_shape.
  pose proof (sort_nonempty l Hne) as Hs.
  destruct (sort l) as [|x [|y rest]]; [congruence| |].
  - change (Z.to_nat 0) with 0%nat. reflexivity.
  - replace (1 <? Z.of_nat (length (x :: y :: rest)))%Z with true
      by (symmetry; apply Z.ltb_lt; cbn [length]; lia).
    change (Z.to_nat 0) with 0%nat. change (Z.to_nat 1) with 1%nat. cbn [andb nth nth_error].
    destruct (Nat.eqb_spec (fst x) (fst y)) as [E|E].
    + rewrite E, Z.eqb_refl. reflexivity.
    + replace (Z.of_nat (fst x) =? Z.of_nat (fst y))%Z with false by (symmetry; apply Z.eqb_neq; lia).
      reflexivity.
Qed.

Definition hs_sound (ks : list str) (hs : hspace) : Prop :=
  forall inst l, In (inst, l) hs ->
    l <> [] /\ forall d b, In (d, b) l -> In b ks /\ (d = 0%nat -> inst = b).

(* value of the extended table at q after the loop over hs, started from t *)
Definition ext_after (t : tables) (hs : hspace) (q : str) : option hit :=
  match dget q hs with
  | Some l =>
      match pick l with
      | Some (d, b) =>
          if Nat.eqb d 0 then dget q (ext t)
          else match dget b (bcs t) with Some i => Some (i, b, d) | None => None end
      | None => dget q (ext t)
      end
  | None => dget q (ext t)
  end.

Lemma resolve_fold : forall hs t, NoDup (keys hs) -> hs_sound (keys (bcs t)) hs ->
  exists t', fold_left resolve_step hs (Ok t) = Ok t' /\ bcs t' = bcs t /\
             forall q, dget q (ext t') = ext_after t hs q.
Proof.
  induction hs as [|[inst l] hs IH]; intros t Hnd Hsound.
  - exists t. cbn. auto.
  - cbn [keys map fst] in Hnd. inversion Hnd as [|? ? Hna Hnd']; subst.
    destruct (Hsound inst l (or_introl eq_refl)) as [Hne Hl].
    cbn [fold_left]. rewrite (resolve_step_pick t inst l Hne).
    assert (Hsound' : hs_sound (keys (bcs t)) hs).
    { intros i' l' Hin. apply Hsound. right. exact Hin. }
    destruct (pick l) as [[d b]|] eqn:Ep.
    + (* an origin is chosen *)
      assert (Hin : In (d, b) l).
      { unfold pick in Ep. pose proof (sort_perm l) as Hp.
        destruct (sort l) as [|x rest]; [discriminate|].
        destruct (match rest with y :: _ => Nat.eqb (fst x) (fst y) | [] => false end); [discriminate|].
        inversion Ep; subst. eapply Permutation_in; [exact Hp|]. cbn; auto. }
      destruct (Hl d b Hin) as [Hb Hd0].
      destruct (in_keys_dget _ _ Hb) as [i Hi]. cbn [fst snd]. rewrite Hi.
      set (t1 := add_barcode t inst i d b).
      assert (Hb1 : bcs t1 = bcs t).
      { unfold t1, add_barcode. destruct (Nat.eqb_spec d 0) as [->|]; cbn; [|reflexivity].
        rewrite (Hd0 eq_refl). apply dset_id. exact Hi. }
      destruct (IH t1 Hnd') as (t' & Hf & Hb' & Hq).
      { rewrite Hb1. exact Hsound'. }
      exists t'. split; [exact Hf|]. split; [congruence|].
      intros q. rewrite Hq. unfold ext_after. cbn [dget].
      destruct (str_eqb_spec q inst) as [->|Hqi].
      * assert (Hn : dget inst hs = None) by (apply dget_none_iff; exact Hna).
        rewrite Hn, Ep. unfold t1, add_barcode.
        destruct (Nat.eqb_spec d 0) as [->|Hd]; cbn [ext].
        -- reflexivity.
        -- rewrite dget_dset_same, Hi. reflexivity.
      * rewrite Hb1.
        assert (He : dget q (ext t1) = dget q (ext t)).
        { unfold t1, add_barcode. destruct (Nat.eqb d 0); cbn [ext]; [reflexivity|].
          apply dget_dset_other. exact Hqi. }
        rewrite He. reflexivity.
    + (* tie: continue *)
      destruct (IH t Hnd' Hsound') as (t' & Hf & Hb' & Hq).
      exists t'. split; [exact Hf|]. split; [exact Hb'|].
      intros q. rewrite Hq. unfold ext_after. cbn [dget].
      destruct (str_eqb_spec q inst) as [->|Hqi]; [|reflexivity].
      assert (Hn : dget inst hs = None) by (apply dget_none_iff; exact Hna).
      rewrite Hn, Ep. reflexivity.
Qed.

(* ------------------------------------------------------------------ load *)
Lemma load_into_keys_nodup lines : forall d : list (str * Z), NoDup (keys d) ->
  NoDup (keys (fold_left (fun d l => dset (fst l) (snd l) d) lines d)).
Proof.
  induction lines as [|l lines IH]; intros d H; cbn; [exact H|].
  apply IH. apply keys_dset_nodup. exact H.
Qed.

Lemma load_into_keys_in lines b : forall d : list (str * Z),
  In b (keys (fold_left (fun d l => dset (fst l) (snd l) d) lines d)) <-> In b (keys d) \/ In b (map fst lines).
Proof.
  induction lines as [|l lines IH]; intros d; cbn [fold_left map In].
  - tauto.
  - rewrite IH, keys_dset_in. intuition congruence.
Qed.

Lemma load_keys_nodup lines : NoDup (keys (bcs (load lines))).
Proof. unfold load, load_into. cbn. apply load_into_keys_nodup. constructor. Qed.

Lemma load_keys_in lines b : In b (keys (bcs (load lines))) <-> In b (map fst lines).
Proof. unfold load, load_into. cbn [bcs]. rewrite load_into_keys_in. cbn. tauto. Qed.

Lemma find_app_first {A} (f : A -> bool) l1 l2 :
  find f (l1 ++ l2) = match find f l1 with Some x => Some x | None => find f l2 end.
Proof. induction l1 as [|a l1 IH]; cbn; [reflexivity|]. destruct (f a); auto. Qed.

(* the index a barcode ends up with: the one on its LAST line in the file *)
Definition index_of (lines : list (str * Z)) (b : str) : option Z :=
  option_map snd (find (fun l => str_eqb b (fst l)) (rev lines)).

Lemma load_into_get lines b : forall d : list (str * Z),
  dget b (fold_left (fun d l => dset (fst l) (snd l) d) lines d) =
  match index_of lines b with Some i => Some i | None => dget b d end.
Proof.
  unfold index_of. induction lines as [|l lines IH]; intros d; cbn [fold_left rev].
  - reflexivity.
  - rewrite IH. rewrite find_app_first.
    destruct (find (fun l0 => str_eqb b (fst l0)) (rev lines)) as [l'|]; [reflexivity|].
    cbn [find option_map]. destruct (str_eqb_spec b (fst l)) as [->|Hne]; cbn [option_map].
    + apply dget_dset_same.
    + apply dget_dset_other. exact Hne.
Qed.
