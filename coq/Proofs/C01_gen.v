(* C01: the shape of the loader loop regenerated from the current source (Gen/GenLoader.v) is well-formed.
   By computation: a source whose loop has another shape makes this file fail to compile. *)
From Coq Require Import Bool.
From SCMO Require Import Lib.C01Shape Gen.GenLoader.

Lemma generated_shape_wf : wf_shape loader_shape = true.
Proof. vm_compute. reflexivity. Qed.
