(* C19 proofs, part 3: descriptor accounting - every descriptor the writer opened is closed by close(). *)
From Coq Require Import ZArith List Bool Lia Permutation.
Import ListNotations.
From SCMO Require Import Lib.Val Model.C19 Proofs.C19.
Open Scope Z_scope.

Lemma n_opened_app : forall a b, n_opened (a ++ b) = (n_opened a + n_opened b)%nat.
Proof. intros. unfold n_opened. rewrite filter_app, app_length. reflexivity. Qed.
Lemma n_closed_app : forall a b, n_closed (a ++ b) = (n_closed a + n_closed b)%nat.
Proof. intros. unfold n_closed. rewrite filter_app, app_length. reflexivity. Qed.

Lemma closes_opened : forall l, n_opened (rev (map EvClose l)) = 0%nat.
Proof.
  intros l. unfold n_opened. induction l as [|p l IH]; [reflexivity|].
  cbn [map rev]. rewrite filter_app, app_length, IH. reflexivity.
Qed.
Lemma closes_closed : forall l, n_closed (rev (map EvClose l)) = length l.
Proof.
  intros l. unfold n_closed. induction l as [|p l IH]; [reflexivity|].
  cbn [map rev]. rewrite filter_app, app_length, IH. cbn [filter length]. lia.
Qed.

Definition acct (st : state) : Prop :=
  n_opened (trace st) = (n_closed (trace st) + length (opens st))%nat /\ NoDup (paths st).

Lemma nodup_map_filter : forall (f : Z * Z -> bool) l,
  NoDup (map fst l) -> NoDup (map fst (filter f l)).
Proof.
  intros f l. induction l as [|h l IH]; intros H; [constructor|].
  cbn [map] in H. inversion H as [|x xs Hn Hd]. subst. cbn [filter]. destruct (f h).
  - cbn [map]. constructor; [|apply IH; exact Hd].
    intro Hin. apply Hn. apply in_map_iff in Hin. destruct Hin as [y [Hy Hin]].
    apply filter_In in Hin. apply in_map_iff. exists y. split; [exact Hy | apply Hin].
  - apply IH. exact Hd.
Qed.

(* with distinct paths, removing the first m entries of a permutation removes exactly m entries *)
Lemma prune_exact : forall (l s : list (Z * Z)) m,
  Permutation s l -> NoDup (map fst l) -> (m <= length l)%nat ->
  (length (filter (fun h => negb (memZ (fst h) (map fst (firstn m s)))) l) + m = length l)%nat.
Proof.
  intros l s m HP Hnd Hm.
  assert (Hnds : NoDup (map fst s)).
  { apply (Permutation_NoDup (l := map fst l)); [apply Permutation_map; apply Permutation_sym; exact HP | exact Hnd]. }
  rewrite <- (filter_length_perm _ _ _ _ HP), <- (Permutation_length HP).
  rewrite <- (Permutation_length HP) in Hm.
  set (v := map fst (firstn m s)).
  rewrite <- (firstn_skipn m s) at 1 2. rewrite filter_app, !app_length.
  assert (H0 : filter (fun h => negb (memZ (fst h) v)) (firstn m s) = []).
  { assert (Hall : forall h, In h (firstn m s) -> In (fst h) v) by (intros h Hh; apply in_map; exact Hh).
    revert Hall. generalize (firstn m s). intros t. induction t as [|h t IH]; intros Hall; [reflexivity|].
    cbn [filter]. assert (Hx : memZ (fst h) v = true) by (apply memZ_In; apply Hall; left; reflexivity).
    rewrite Hx. cbn [negb]. apply IH. intros h' Hh'. apply Hall. right. exact Hh'. }
  assert (H1 : filter (fun h => negb (memZ (fst h) v)) (skipn m s) = skipn m s).
  { rewrite <- (firstn_skipn m s), map_app in Hnds. fold v in Hnds.
    assert (Hdisj : forall h, In h (skipn m s) -> ~ In (fst h) v).
    { intros h Hh Hv. revert Hnds Hv. generalize v. intros v0. induction v0 as [|x v0 IH]; intros Hnds Hv; [destruct Hv|].
      cbn [app] in Hnds. inversion Hnds as [|y ys Hn Hd]. subst. destruct Hv as [Hv|Hv].
      - subst x. apply Hn. apply in_app_iff. right. apply in_map. exact Hh.
      - exact (IH Hd Hv). }
    revert Hdisj. generalize (skipn m s). intros t. induction t as [|h t IH]; intros Hdisj; [reflexivity|].
    cbn [filter]. assert (Hx : memZ (fst h) v = false) by (apply memZ_false; apply Hdisj; left; reflexivity).
    rewrite Hx. cbn [negb]. f_equal. apply IH. intros h' Hh'. apply Hdisj. right. exact Hh'. }
  rewrite H0, H1. cbn [length plus]. rewrite firstn_length, skipn_length. lia.
Qed.

Lemma prune_acct : forall c st, acct st -> acct (prune c st).
Proof.
  intros c st [Ha Hn]. unfold acct, prune, victims, paths in *. cbn [trace opens].
  split; [|apply nodup_map_filter; exact Hn].
  rewrite n_opened_app, n_closed_app, closes_opened, closes_closed, Ha. cbn [plus].
  set (n := Z.of_nat (length (opens st))).
  destruct (maxHandles c <? n) eqn:E.
  - apply Z.ltb_lt in E. rewrite map_length.
    set (m := Z.to_nat (Z.min (n - maxHandles c) n)).
    assert (Hm : (m <= length (opens st))%nat) by (unfold m, n; lia).
    pose proof (prune_exact (opens st) (sort_lastw (opens st)) m (sort_perm (opens st)) Hn Hm) as HP.
    rewrite firstn_length, (Permutation_length (sort_perm (opens st))). lia.
  - cbn [map length memZ existsb negb].
    assert (Hid : filter (fun _ : Z * Z => true) (opens st) = opens st).
    { clear. induction (opens st) as [|h l IH]; [reflexivity|]. cbn [filter]. rewrite IH. reflexivity. }
    rewrite Hid. lia.
Qed.

Lemma wp_acct : forall c st o, acct st -> acct (write_phase c st o).
Proof.
  intros c st o [Ha Hn]. unfold write_phase.
  assert (H1 : acct {| opens := set_lastw (w_path o) (clock st) (opens st); seen := seen st; ctr := ctr st + 1;
                       clock := clock st + 1; att := att st; fs := fs_append (w_path o) (w_str o) (fs st);
                       trace := trace st |}).
  { unfold acct, paths. cbn [trace opens]. rewrite length_set_lastw, paths_set_lastw. split; assumption. }
  destruct (pruneEvery c <=? _); [apply prune_acct; exact H1 | exact H1].
Qed.

Lemma n_opened_cons_ok : forall p a n tr, n_opened (EvOpen p a n true :: tr) = S (n_opened tr).
Proof. reflexivity. Qed.
Lemma n_opened_cons_fail : forall p a n tr, n_opened (EvOpen p a n false :: tr) = n_opened tr.
Proof. reflexivity. Qed.
Lemma n_closed_cons_open : forall p a n ok tr, n_closed (EvOpen p a n ok :: tr) = n_closed tr.
Proof. reflexivity. Qed.

Lemma nodup_snoc : forall (l : list Z) x, NoDup l -> ~ In x l -> NoDup (l ++ [x]).
Proof.
  intros l x. induction l as [|y l IH]; intros Hn Hx; cbn [app].
  - constructor; [intros [] | constructor].
  - inversion Hn as [|z zs Hy Hd]. subst. constructor.
    + intro H. apply in_app_iff in H. destruct H as [H|[H|[]]]; [exact (Hy H)|]. subst. apply Hx. left. reflexivity.
    + apply IH; [exact Hd|]. intro H. apply Hx. right. exact H.
Qed.

Lemma write_acct : forall c orc st o r, fixed c = true -> acct st ->
  write c orc st o = r -> acct (state_of r).
Proof.
  intros c orc st o r Hfix [Ha Hn] H. subst r. unfold write.
  destruct (memZ (w_path o) (paths st)) eqn:Eo.
  - cbn [state_of]. apply wp_acct. split; assumption.
  - apply memZ_false in Eo. unfold open_phase.
    destruct (orc (att st) (w_path o) (length (opens st))).
    + destruct (0 <? Z.of_nat (length (opens st))).
      * cbn [att close_all os_open].
        destruct (orc (S (att st)) (w_path o) 0%nat).
        -- cbn [state_of]. unfold acct, paths. cbn [trace opens os_open close_all map length].
           rewrite n_opened_cons_fail, n_closed_cons_open, n_opened_app, n_closed_app, closes_opened, closes_closed.
           cbn [trace os_open]. rewrite n_opened_cons_fail, n_closed_cons_open. unfold paths. rewrite map_length. cbn [opens os_open].
           split; [lia | constructor].
        -- rewrite Hfix. cbn [state_of]. apply wp_acct. unfold acct, paths.
           cbn [trace opens register os_open close_all map length app fst].
           rewrite n_opened_cons_ok, n_closed_cons_open, n_opened_app, n_closed_app, closes_opened, closes_closed.
           cbn [trace os_open]. rewrite n_opened_cons_fail, n_closed_cons_open. unfold paths. rewrite map_length. cbn [opens os_open].
           split; [lia|]. constructor; [intros [] | constructor].
      * cbn [state_of]. unfold acct, paths. cbn [trace opens os_open].
        rewrite n_opened_cons_fail, n_closed_cons_open. split; assumption.
    + cbn [state_of]. apply wp_acct. unfold acct, paths. cbn [trace opens register os_open].
      rewrite n_opened_cons_ok, n_closed_cons_open, app_length, map_app. cbn [length map fst].
      split; [lia|].
      apply nodup_snoc; assumption.
Qed.

Lemma run_acct : forall c orc ops st n k r, fixed c = true -> acct st ->
  run_from c orc ops st n = (k, r) -> acct (state_of r).
Proof.
  intros c orc ops. induction ops as [|o ops IH]; intros st n k r Hfix Ha H; cbn [run_from] in H.
  - injection H as _ Hr. subst r. exact Ha.
  - pose proof (write_acct c orc st o (write c orc st o) Hfix Ha eq_refl) as Hw.
    destruct (write c orc st o) as [st1|e st1].
    + exact (IH st1 (S n) k r Hfix Hw H).
    + injection H as _ Hr. subst r. exact Hw.
Qed.

Lemma no_leak : forall c orc init ops k r, fixed c = true ->
  run_ops c orc init ops = (k, r) ->
  n_opened (trace (close_all (state_of r))) = n_closed (trace (close_all (state_of r))).
Proof.
  intros c orc init ops k r Hfix H. unfold run_ops in H.
  assert (H0 : acct (init_state init)) by (split; [reflexivity | constructor]).
  destruct (run_acct c orc ops (init_state init) 0%nat k r Hfix H0 H) as [Ha _].
  cbn [close_all trace]. rewrite n_opened_app, n_closed_app, closes_opened, closes_closed.
  unfold paths. rewrite map_length. lia.
Qed.

(* the code as found loses track of a descriptor on the D27 input *)
Lemma unrepaired_leaks :
  let tr := trace (close_all (state_of (snd (run_ops d27_cfg (script_oracle d27_script) (fun _ => None) d27_ops)))) in
  n_opened tr = S (n_closed tr).
Proof. vm_compute. reflexivity. Qed.
