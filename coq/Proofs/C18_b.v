(* C18 proofs, part b: write_cache / read_cached round trip at the level of characters *)
From Coq Require Import ZArith List Bool Lia Permutation Sorting.Sorted DecimalZ DecimalPos.
Import ListNotations.
From SCMO Require Import Lib.Val Gen.GenAlleles Model.C18 Proofs.C18_s Proofs.C18_a.
Open Scope Z_scope.

(* ------------------------------------------------------------------ integers as decimal strings *)
Lemma undigits_digits u : undigits (digits u) = Some u.
Proof. induction u as [|u IH|u IH|u IH|u IH|u IH|u IH|u IH|u IH|u IH|u IH]; cbn [digits undigits]; try rewrite IH; reflexivity. Qed.
Lemma digits_range u : Forall (fun c => 48 <= c <= 57) (digits u).
Proof. induction u; cbn [digits]; constructor; try lia; assumption. Qed.
Lemma digits_nonnil u : u <> Decimal.Nil -> exists c rest, digits u = c :: rest /\ 48 <= c <= 57.
Proof. destruct u; intros H; [congruence| | | | | | | | | |]; cbn [digits]; eexists; eexists; (split; [reflexivity|lia]). Qed.
Lemma to_int_nonnil z : match Z.to_int z with Decimal.Pos u => u <> Decimal.Nil | Decimal.Neg u => u <> Decimal.Nil end.
Proof. destruct z; cbn; [discriminate|apply Unsigned.to_uint_nonnil|apply Unsigned.to_uint_nonnil]. Qed.

Lemma parse_print_int0 z : parse_int0 (print_int z) = Some z.
Proof.
  unfold print_int. pose proof (DecimalZ.of_to z) as Hz. pose proof (to_int_nonnil z) as Hn.
  destruct (Z.to_int z) as [u|u].
  - destruct (digits_nonnil u Hn) as (c & rest & E & Hc). unfold parse_int0. rewrite E.
    destruct (c =? 45) eqn:E1; [apply Z.eqb_eq in E1; lia|].
    destruct (c =? 43) eqn:E2; [apply Z.eqb_eq in E2; lia|].
    rewrite <- E, undigits_digits. cbn [option_map]. rewrite Hz. reflexivity.
  - destruct (digits_nonnil u Hn) as (c & rest & E & Hc). unfold parse_int0.
    change (45 =? 45) with true. cbv iota. rewrite E. rewrite <- E, undigits_digits. cbn [option_map]. rewrite Hz. reflexivity.
Qed.
Lemma print_int_chars z : Forall (fun c => c = 45 \/ 48 <= c <= 57) (print_int z).
Proof.
  unfold print_int. destruct (Z.to_int z) as [u|u]; [|constructor; [left; reflexivity|]];
  (eapply Forall_impl; [|apply digits_range]); intros c Hc; right; exact Hc.
Qed.
Lemma print_int_head z : exists c rest, print_int z = c :: rest /\ is_space c = false.
Proof.
  unfold print_int. pose proof (to_int_nonnil z) as Hn. destruct (Z.to_int z) as [u|u].
  - destruct (digits_nonnil u Hn) as (c & rest & E & Hc). exists c, rest. split; [exact E|].
    unfold is_space. repeat (apply orb_false_iff; split); try apply andb_false_iff; lia.
  - exists 45, (digits u). split; reflexivity.
Qed.

(* ------------------------------------------------------------------ split / join *)
Lemma split_on_nonnil sep s : split_on sep s <> [].
Proof. destruct s as [|c s]; cbn; [discriminate|]. destruct (c =? sep); [discriminate|]. destruct (split_on sep s); discriminate. Qed.
Lemma split_on_one sep x : ~ In sep x -> split_on sep x = [x].
Proof.
  induction x as [|c x IH]; intros H; cbn; [reflexivity|].
  destruct (c =? sep) eqn:E; [apply Z.eqb_eq in E; subst; exfalso; apply H; left; reflexivity|].
  rewrite IH; [reflexivity|]. intros Hin. apply H. right; exact Hin.
Qed.
Lemma split_on_app sep x rest : ~ In sep x -> split_on sep (x ++ sep :: rest) = x :: split_on sep rest.
Proof.
  induction x as [|c x IH]; intros H; cbn.
  - rewrite Z.eqb_refl. reflexivity.
  - destruct (c =? sep) eqn:E; [apply Z.eqb_eq in E; subst; exfalso; apply H; left; reflexivity|].
    rewrite IH; [reflexivity|]. intros Hin. apply H. right; exact Hin.
Qed.
Lemma split_join sep l : l <> [] -> (forall x, In x l -> ~ In sep x) -> split_on sep (join sep l) = l.
Proof.
  induction l as [|x l IH]; intros Hne H; [congruence|].
  destruct l as [|y l].
  - cbn. apply split_on_one. apply H. left; reflexivity.
  - change (join sep (x :: y :: l)) with (x ++ sep :: join sep (y :: l)).
    rewrite split_on_app by (apply H; left; reflexivity). f_equal. apply IH; [discriminate|].
    intros z Hz. apply H. right; exact Hz.
Qed.
Lemma join_chars (P : Z -> Prop) sep l : P sep -> (forall x, In x l -> Forall P x) -> Forall P (join sep l).
Proof.
  intros Hs. induction l as [|x l IH]; intros H; [constructor|].
  destruct l as [|y l].
  - cbn. apply H. left; reflexivity.
  - change (join sep (x :: y :: l)) with (x ++ sep :: join sep (y :: l)).
    apply Forall_app. split; [apply H; left; reflexivity|]. constructor; [exact Hs|].
    apply IH. intros z Hz. apply H. right; exact Hz.
Qed.
Lemma join_nonnil sep l : l <> [] -> (forall x, In x l -> x <> []) -> join sep l <> [].
Proof.
  destruct l as [|x l]; intros Hne H; [congruence|].
  assert (x <> []) by (apply H; left; reflexivity).
  destruct l as [|y l]; cbn; [assumption|]. destruct x; [congruence|discriminate].
Qed.

(* ------------------------------------------------------------------ strip *)
Lemma lstrip_keep c s : is_space c = false -> lstrip (c :: s) = c :: s.
Proof. intros H. cbn. rewrite H. reflexivity. Qed.
Lemma strip_keep (a b : str) c0 rest :
  a ++ b = c0 :: rest -> is_space c0 = false -> b <> [] -> Forall (fun c => is_space c = false) b ->
  strip (a ++ b) = a ++ b.
Proof.
  intros E H0 Hb Hall. unfold strip. rewrite E, (lstrip_keep _ _ H0), <- E.
  rewrite rev_app_distr.
  destruct (rev b) as [|c rb] eqn:R.
  - exfalso. apply Hb. rewrite <- (rev_involutive b), R. reflexivity.
  - assert (Hc : is_space c = false).
    { rewrite Forall_forall in Hall. apply Hall. apply in_rev. rewrite R. left; reflexivity. }
    cbn [app]. rewrite (lstrip_keep _ _ Hc). change (c :: rb ++ rev a) with ((c :: rb) ++ rev a). rewrite <- R, <- rev_app_distr.
    apply rev_involutive.
Qed.

Lemma parse_print_int z : parse_int (print_int z) = Some z.
Proof.
  unfold parse_int. destruct (print_int_head z) as (c0 & rest & E & H0).
  replace (strip (print_int z)) with (print_int z); [apply parse_print_int0|].
  symmetry. change (print_int z) with ([] ++ print_int z). eapply strip_keep; [cbn; exact E|exact H0| |].
  - rewrite E. discriminate.
  - eapply Forall_impl; [|apply print_int_chars]. intros c [->|Hc]; [reflexivity|].
    unfold is_space. repeat (apply orb_false_iff; split); try apply andb_false_iff; lia.
Qed.

(* ------------------------------------------------------------------ lines *)
Lemma unl_id s : ~ In 13 s -> unl s = s.
Proof.
  induction s as [|c s IH]; intros H; cbn; [reflexivity|].
  destruct (c =? 13) eqn:E; [apply Z.eqb_eq in E; subst; exfalso; apply H; left; reflexivity|].
  rewrite IH; [reflexivity|]. intros Hin. apply H. right; exact Hin.
Qed.
Lemma lines_of_app body rest : ~ In 10 body -> lines_of (body ++ 10 :: rest) = body :: lines_of rest.
Proof.
  induction body as [|c body IH]; intros H; cbn.
  - reflexivity.
  - destruct (c =? 10) eqn:E; [apply Z.eqb_eq in E; subst; exfalso; apply H; left; reflexivity|].
    rewrite IH; [reflexivity|]. intros Hin. apply H. right; exact Hin.
Qed.
Lemma lines_of_concat bodies : (forall b, In b bodies -> ~ In 10 b) ->
  lines_of (concat (map (fun b => b ++ [10]) bodies)) = bodies.
Proof.
  induction bodies as [|b bodies IH]; intros H; [reflexivity|].
  cbn [map concat]. rewrite <- app_assoc. cbn [app]. rewrite lines_of_app by (apply H; left; reflexivity).
  f_equal. apply IH. intros b' Hb. apply H. right; exact Hb.
Qed.

(* ------------------------------------------------------------------ one line *)
Definition name_ok_P (s : str) : Prop :=
  (exists s' c, s = s' ++ [c] /\ is_space c = false) /\ Forall (fun c => c <> 9 /\ c <> 10 /\ c <> 13 /\ c <> 44) s.
Definition base_ok_P (b : str) : Prop := Forall (fun c => c <> 9 /\ c <> 10 /\ c <> 13) b.

Lemma name_ok_iff s : name_ok s = true <-> name_ok_P s.
Proof.
  unfold name_ok, name_ok_P. rewrite andb_true_iff, forallb_forall, Forall_forall.
  assert (HC : forall c, name_char_ok c = true <-> (c <> 9 /\ c <> 10 /\ c <> 13 /\ c <> 44)).
  { intros c. unfold name_char_ok. rewrite negb_true_iff, !orb_false_iff, !Z.eqb_neq. tauto. }
  split.
  - intros [H1 H2]. split; [|intros c Hc; apply HC, H2, Hc].
    destruct s as [|x s]; [discriminate|]. exists (removelast (x :: s)), (last (x :: s) 32).
    split; [apply app_removelast_last; discriminate|]. apply negb_true_iff, H1.
  - intros [(s' & c & E & Hc) H2]. split; [|intros c0 Hc0; apply HC, H2, Hc0].
    subst s. rewrite last_last. rewrite Hc. reflexivity.
Qed.
Lemma base_ok_iff b : forallb base_char_ok b = true <-> base_ok_P b.
Proof.
  unfold base_ok_P. rewrite forallb_forall, Forall_forall. split; intros H c Hc; specialize (H c Hc).
  - unfold base_char_ok in H. apply negb_true_iff in H. apply orb_false_iff in H. destruct H as [H H3].
    apply orb_false_iff in H. destruct H as [H1 H2]. apply Z.eqb_neq in H1, H2, H3. auto.
  - destruct H as (H1 & H2 & H3). unfold base_char_ok. apply Z.eqb_neq in H1, H2, H3. rewrite H1, H2, H3. reflexivity.
Qed.

Definition body_of (p : Z) (b : str) (ss : list str) : str := print_int p ++ 9 :: b ++ 9 :: join 44 ss.

Lemma line_of_body p kv : line_of p kv = body_of p (fst kv) (snd kv) ++ [10].
Proof. unfold line_of, body_of. rewrite <- !app_assoc. cbn. rewrite <- app_assoc. reflexivity. Qed.

Lemma join_names_chars ss : (forall s, In s ss -> name_ok_P s) -> Forall (fun c => c <> 9 /\ c <> 10 /\ c <> 13) (join 44 ss).
Proof.
  intros H. apply (join_chars (fun c => c <> 9 /\ c <> 10 /\ c <> 13)); [lia|].
  intros s Hs. destruct (H s Hs) as [_ Hall]. eapply Forall_impl; [|exact Hall]. intros c (A & B & C & _). auto.
Qed.
(* the line ends in a character strip() leaves alone *)
Lemma join_names_last ss : ss <> [] -> (forall s, In s ss -> name_ok_P s) ->
  exists l c, join 44 ss = l ++ [c] /\ is_space c = false.
Proof.
  induction ss as [|x ss IH]; intros Hne H; [congruence|]. destruct ss as [|y ss].
  - destruct (H x (or_introl eq_refl)) as [(s' & c & E & Hc) _]. exists s', c. cbn. auto.
  - destruct IH as (l & c & E & Hc); [discriminate|intros s Hs; apply H; right; exact Hs|].
    exists (x ++ 44 :: l), c. split; [|exact Hc].
    change (join 44 (x :: y :: ss)) with (x ++ 44 :: join 44 (y :: ss)). rewrite E, <- app_assoc. reflexivity.
Qed.

Lemma body_no_nl p b ss : base_ok_P b -> (forall s, In s ss -> name_ok_P s) ->
  forall c, In c (body_of p b ss) -> c <> 10 /\ c <> 13.
Proof.
  intros Hb Hs c Hc. unfold body_of in Hc. apply in_app_or in Hc. destruct Hc as [Hc|[Hc|Hc]].
  - pose proof (print_int_chars p) as Hp. rewrite Forall_forall in Hp. specialize (Hp c Hc). lia.
  - lia.
  - apply in_app_or in Hc. destruct Hc as [Hc|[Hc|Hc]].
    + unfold base_ok_P in Hb. rewrite Forall_forall in Hb. specialize (Hb c Hc). lia.
    + lia.
    + pose proof (join_names_chars ss Hs) as Hj. rewrite Forall_forall in Hj. specialize (Hj c Hc). lia.
Qed.

Lemma parse_line_body p b ss :
  base_ok_P b -> ss <> [] -> (forall s, In s ss -> name_ok_P s) -> ssorted ss ->
  parse_line (body_of p b ss) = Some (p, b, ss).
Proof.
  intros Hb Hne Hs Hsort. unfold parse_line.
  assert (Hj : Forall (fun c => c <> 9 /\ c <> 10 /\ c <> 13) (join 44 ss)) by (apply join_names_chars, Hs).
  (* strip is the identity: the line starts with a digit or '-' and ends with the last character of a sample name *)
  assert (Estrip : strip (body_of p b ss) = body_of p b ss).
  { destruct (print_int_head p) as (c0 & rest & E0 & H0). destruct (join_names_last ss Hne Hs) as (l & c & El & Hc).
    unfold body_of. rewrite El.
    replace (print_int p ++ 9 :: b ++ 9 :: l ++ [c]) with ((print_int p ++ 9 :: b ++ 9 :: l) ++ [c]).
    2:{ rewrite <- !app_assoc. cbn. rewrite <- app_assoc. reflexivity. }
    eapply strip_keep; [|exact H0|discriminate|constructor; [exact Hc|constructor]]. rewrite E0. cbn. reflexivity. }
  rewrite Estrip. unfold body_of.
  rewrite split_on_app.
  2:{ intros Hin. pose proof (print_int_chars p) as Hp. rewrite Forall_forall in Hp. specialize (Hp 9 Hin). lia. }
  rewrite split_on_app.
  2:{ intros Hin. unfold base_ok_P in Hb. rewrite Forall_forall in Hb. specialize (Hb 9 Hin). lia. }
  rewrite split_on_one.
  2:{ intros Hin. rewrite Forall_forall in Hj. specialize (Hj 9 Hin). lia. }
  rewrite parse_print_int. rewrite split_join.
  - fold (canon ss). rewrite canon_id by exact Hsort. reflexivity.
  - exact Hne.
  - intros s Hin H44. destruct (Hs s Hin) as [_ Hall]. rewrite Forall_forall in Hall. specialize (Hall 44 H44). lia.
Qed.

(* ------------------------------------------------------------------ the dict level *)
Definition entry := (Z * str * list str)%type.
Definition cset3 (ct : ctable) (e : entry) : ctable :=
  let '(p, b, ss) := e in aset Z.eqb ct p (aset seqb (getd Z.eqb ct p) b ss).
Definition look3 (ct : ctable) (p : Z) (b : str) : option (list str) :=
  match aget Z.eqb ct p with Some bm => aget seqb bm b | None => None end.
Definition entries (ct : ctable) : list entry :=
  flat_map (fun p => map (fun kv => (p, fst kv, snd kv)) (getd Z.eqb ct p)) (zsort (map fst ct)).
Definition ekey_eqb (p : Z) (b : str) (e : entry) : bool := let '(p', b', _) := e in (p =? p') && seqb b b'.

Lemma amem_cset3 ct e p' : amem Z.eqb (cset3 ct e) p' = (p' =? fst (fst e)) || amem Z.eqb ct p'.
Proof. destruct e as [[p b] ss]. unfold cset3. apply (amem_aset Z.eqb zeqb_eq). Qed.
Lemma look3_cset3 ct e p' b' :
  look3 (cset3 ct e) p' b' = if ekey_eqb p' b' e then Some (snd e) else look3 ct p' b'.
Proof.
  destruct e as [[p b] ss]. unfold cset3, look3, ekey_eqb. cbn [snd]. rewrite (aget_aset Z.eqb zeqb_eq).
  destruct (p' =? p) eqn:E; cbn [andb]; [|reflexivity].
  apply Z.eqb_eq in E. subst p'. rewrite (aget_aset seqb seqb_eq).
  destruct (seqb b' b); [reflexivity|]. unfold getd, ctable, bmap in *. destruct (aget Z.eqb ct p); reflexivity.
Qed.

Definition efind (p : Z) (b : str) (es : list entry) : option entry := find (ekey_eqb p b) es.

Lemma ekey_eqb_true p b e : ekey_eqb p b e = true <-> fst e = (p, b).
Proof.
  destruct e as [[p' b'] ss]. unfold ekey_eqb. cbn [fst]. rewrite andb_true_iff, Z.eqb_eq, seqb_eq.
  split; [intros [-> ->]; reflexivity|intros E; inversion E; auto].
Qed.

Lemma look3_fold es : NoDup (map fst es) -> forall ct p b,
  look3 (fold_left cset3 es ct) p b = match efind p b es with Some e => Some (snd e) | None => look3 ct p b end.
Proof.
  induction es as [|e es IH]; intros Hd ct p b; [reflexivity|].
  inversion Hd as [|? ? Hn Hd']; subst. cbn [fold_left]. rewrite IH by exact Hd'. unfold efind. cbn [find].
  rewrite look3_cset3. destruct (ekey_eqb p b e) eqn:E; [|reflexivity].
  destruct (find (ekey_eqb p b) es) as [e'|] eqn:F; [|reflexivity].
  exfalso. apply find_some in F. destruct F as [Hin E']. apply ekey_eqb_true in E, E'.
  apply Hn. rewrite E, <- E'. apply in_map, Hin.
Qed.
Lemma amem_fold es : forall ct p,
  amem Z.eqb (fold_left cset3 es ct) p = amem Z.eqb ct p || existsb (fun e => p =? fst (fst e)) es.
Proof.
  induction es as [|e es IH]; intros ct p; cbn [fold_left existsb]; [rewrite orb_false_r; reflexivity|].
  rewrite IH, amem_cset3. destruct (p =? fst (fst e)), (amem Z.eqb ct p); reflexivity.
Qed.
Lemma efind_In es p b ss : NoDup (map fst es) -> In (p, b, ss) es -> efind p b es = Some (p, b, ss).
Proof.
  induction es as [|e es IH]; intros Hd Hin; [destruct Hin|].
  inversion Hd as [|? ? Hn Hd']; subst. unfold efind. cbn [find]. destruct Hin as [->|Hin].
  - assert (ekey_eqb p b (p, b, ss) = true) as -> by (apply ekey_eqb_true; reflexivity). reflexivity.
  - destruct (ekey_eqb p b e) eqn:E; [|apply IH; assumption].
    exfalso. apply ekey_eqb_true in E. apply Hn. rewrite E. change (p, b) with (fst (p, b, ss)). apply in_map, Hin.
Qed.
Lemma efind_none es p b : (forall ss, ~ In (p, b, ss) es) -> efind p b es = None.
Proof.
  intros H. unfold efind. destruct (find (ekey_eqb p b) es) as [[[p' b'] ss]|] eqn:F; [|reflexivity].
  exfalso. apply find_some in F. destruct F as [Hin E]. apply ekey_eqb_true in E. cbn in E. inversion E; subst.
  apply (H ss Hin).
Qed.

(* ---- zsort is a permutation *)
Lemma zsort_ins_perm x l : Permutation (zsort_ins x l) (x :: l).
Proof.
  induction l as [|h t IH]; cbn; [reflexivity|]. destruct (x <=? h); [reflexivity|].
  rewrite IH. apply perm_swap.
Qed.
Lemma zsort_perm l : Permutation (zsort l) l.
Proof. induction l as [|x l IH]; cbn; [reflexivity|]. rewrite zsort_ins_perm, IH. reflexivity. Qed.

Lemma NoDup_app' {A} (l1 l2 : list A) : NoDup l1 -> NoDup l2 -> (forall x, In x l1 -> ~ In x l2) -> NoDup (l1 ++ l2).
Proof.
  induction l1 as [|a l1 IH]; intros H1 H2 H; [exact H2|]. inversion H1 as [|? ? Hn Hd]; subst. cbn.
  constructor.
  - intros Hin. apply in_app_or in Hin. destruct Hin as [Hin|Hin]; [tauto|]. apply (H a); [left; reflexivity|exact Hin].
  - apply IH; [exact Hd|exact H2|]. intros x Hx. apply H. right; exact Hx.
Qed.

(* well-formed contig tables: what load_recs builds from a vcf_ok file *)
Definition bm_wf (bm : bmap) : Prop :=
  bm <> [] /\ NoDup (map fst bm) /\
  forall b ss, In (b, ss) bm -> base_ok_P b /\ ss <> [] /\ ssorted ss /\ (forall s, In s ss -> name_ok_P s).
Definition ct_wf (ct : ctable) : Prop :=
  NoDup (map fst ct) /\ forall p bm, In (p, bm) ct -> bm_wf bm.

Lemma entries_In ct p b ss : ct_wf ct ->
  In (p, b, ss) (entries ct) <-> exists bm, In (p, bm) ct /\ In (b, ss) bm.
Proof.
  intros [Hd Hwf]. unfold entries. rewrite in_flat_map. split.
  - intros (p' & Hp & Hin). apply in_map_iff in Hin. destruct Hin as ([b' ss'] & E & Hin). cbn in E. inversion E; subst.
    norm_ty. destruct (aget Z.eqb ct p) as [bm|] eqn:G; [|destruct Hin].
    exists bm. split; [apply (aget_In Z.eqb zeqb_eq), G|exact Hin].
  - intros (bm & Hc & Hb). exists p. split.
    + apply (Permutation_in _ (Permutation_sym (zsort_perm _))). change p with (fst (p, bm)). apply in_map, Hc.
    + apply in_map_iff. exists (b, ss). split; [reflexivity|].
      norm_ty. rewrite (In_aget Z.eqb zeqb_eq ct p bm Hd Hc). exact Hb.
Qed.
Lemma entries_NoDup ct : ct_wf ct -> NoDup (map fst (entries ct)).
Proof.
  intros [Hd Hwf]. unfold entries.
  assert (Hs : NoDup (zsort (map fst ct))) by (apply (Permutation_NoDup (Permutation_sym (zsort_perm _))), Hd).
  induction Hs as [|p ps Hn Hs IH]; [constructor|].
  cbn [flat_map]. rewrite map_app. apply NoDup_app'.
  - rewrite map_map. cbn [fst].
    norm_ty. destruct (aget Z.eqb ct p) as [bm|] eqn:G; [|constructor].
    apply (aget_In Z.eqb zeqb_eq) in G. destruct (Hwf p bm G) as (_ & Hdb & _).
    apply FinFun.Injective_map_NoDup with (f := fun b => (p, b)) in Hdb; [|intros x y E; inversion E; reflexivity].
    rewrite map_map in Hdb. exact Hdb.
  - exact IH.
  - intros [p0 b0] H1 H2. apply in_map_iff in H1. destruct H1 as ([[p1 b1] ss1] & E1 & H1). cbn in E1. inversion E1; subst.
    apply in_map_iff in H1. destruct H1 as ([b ss] & E3 & _). inversion E3; subst.
    apply in_map_iff in H2. destruct H2 as ([[p2 b2] ss2] & E2 & H2). cbn in E2. inversion E2; subst.
    apply in_flat_map in H2. destruct H2 as (q & Hq & H2). apply in_map_iff in H2. destruct H2 as (kv & E4 & _).
    inversion E4; subst. contradiction.
Qed.

Lemma look3_entries ct p b : ct_wf ct -> look3 (fold_left cset3 (entries ct) []) p b = look3 ct p b.
Proof.
  intros Hwf. rewrite look3_fold by (apply entries_NoDup, Hwf). destruct Hwf as [Hd Hwf'].
  unfold look3. cbn [aget].
  destruct (aget Z.eqb ct p) as [bm|] eqn:G.
  - pose proof (aget_In Z.eqb zeqb_eq _ _ _ G) as Hc. destruct (Hwf' p bm Hc) as (_ & Hdb & _).
    destruct (aget seqb bm b) as [ss|] eqn:B.
    + rewrite (efind_In _ p b ss); [reflexivity|apply entries_NoDup; split; assumption|].
      apply entries_In; [split; assumption|]. exists bm. split; [exact Hc|apply (aget_In seqb seqb_eq), B].
    + rewrite efind_none; [reflexivity|]. intros ss Hin. apply entries_In in Hin; [|split; assumption].
      destruct Hin as (bm' & Hc' & Hb). rewrite (In_aget Z.eqb zeqb_eq ct p bm' Hd Hc') in G. inversion G; subst.
      apply (aget_None seqb seqb_eq) in B. apply B. change b with (fst (b, ss)). apply in_map, Hb.
  - rewrite efind_none; [reflexivity|]. intros ss Hin. apply entries_In in Hin; [|split; assumption].
    destruct Hin as (bm' & Hc' & _). apply (aget_None Z.eqb zeqb_eq) in G. apply G. change p with (fst (p, bm')). apply in_map, Hc'.
Qed.
Lemma amem_entries ct p : ct_wf ct -> amem Z.eqb (fold_left cset3 (entries ct) []) p = amem Z.eqb ct p.
Proof.
  intros Hwf. rewrite amem_fold. cbn [amem aget orb].
  destruct (amem Z.eqb ct p) eqn:M.
  - apply (amem_In Z.eqb zeqb_eq) in M. apply in_map_iff in M. destruct M as ([p' bm] & E & Hc). cbn in E. subst p'.
    destruct Hwf as [Hd Hwf']. destruct (Hwf' p bm Hc) as (Hne & _).
    destruct bm as [|[b ss] bm']; [congruence|].
    apply existsb_exists. exists (p, b, ss). split; [|cbn; apply Z.eqb_refl].
    apply entries_In; [split; assumption|]. exists ((b, ss) :: bm'). split; [exact Hc|left; reflexivity].
  - destruct (existsb (fun e => p =? fst (fst e)) (entries ct)) eqn:E; [|reflexivity].
    apply existsb_exists in E. destruct E as ([[p' b] ss] & Hin & E). cbn in E. apply Z.eqb_eq in E. subst p'.
    apply entries_In in Hin; [|exact Hwf]. destruct Hin as (bm & Hc & _).
    assert (amem Z.eqb ct p = true); [|congruence]. apply (amem_In Z.eqb zeqb_eq). change p with (fst (p, bm)). apply in_map, Hc.
Qed.

(* ---- the character level meets the dict level *)
Lemma serialise_bodies ct :
  serialise ct = concat (map (fun b => b ++ [10]) (map (fun e : entry => body_of (fst (fst e)) (snd (fst e)) (snd e)) (entries ct))).
Proof.
  unfold serialise, entries. f_equal. induction (zsort (map fst ct)) as [|p ps IH]; [reflexivity|].
  cbn [flat_map]. rewrite !map_app, IH. f_equal. rewrite !map_map. apply map_ext. intros kv. cbn [fst snd]. apply line_of_body.
Qed.

Lemma entries_ok ct : ct_wf ct -> forall p b ss, In (p, b, ss) (entries ct) ->
  base_ok_P b /\ ss <> [] /\ ssorted ss /\ (forall s, In s ss -> name_ok_P s).
Proof.
  intros Hwf p b ss Hin. apply entries_In in Hin; [|exact Hwf]. destruct Hin as (bm & Hc & Hb).
  destruct Hwf as [_ Hwf]. destruct (Hwf p bm Hc) as (_ & _ & H). apply (H b ss Hb).
Qed.

Lemma read_lines_bodies c (es : list entry) :
  (forall p b ss, In (p, b, ss) es -> base_ok_P b /\ ss <> [] /\ ssorted ss /\ (forall s, In s ss -> name_ok_P s)) ->
  forall t, read_lines (map (fun e : entry => body_of (fst (fst e)) (snd (fst e)) (snd e)) es) c t
            = fold_left (fun t (e : entry) => store3 t c (fst (fst e)) (snd (fst e)) (snd e)) es t.
Proof.
  induction es as [|[[p b] ss] es IH]; intros H t; [reflexivity|].
  cbn [map read_lines fold_left fst snd].
  destruct (H p b ss (or_introl eq_refl)) as (Hb & Hne & Hso & Hs).
  rewrite parse_line_body by assumption. apply IH. intros p' b' ss' Hin. apply (H p' b' ss'). right; exact Hin.
Qed.

Lemma fold_store3_getd c (es : list entry) : forall t,
  getd seqb (fold_left (fun t (e : entry) => store3 t c (fst (fst e)) (snd (fst e)) (snd e)) es t) c
  = fold_left cset3 es (getd seqb t c).
Proof.
  induction es as [|[[p b] ss] es IH]; intros t; [reflexivity|].
  cbn [fold_left fst snd]. rewrite IH. f_equal. unfold store3, store, cset3. unfold fsys, table, ctable, bmap in *. rewrite (getd_aset seqb seqb_eq), seqb_refl.
  reflexivity.
Qed.
Lemma fold_store3_amem c (es : list entry) : forall t c',
  amem seqb (fold_left (fun t (e : entry) => store3 t c (fst (fst e)) (snd (fst e)) (snd e)) es t) c'
  = amem seqb t c' || (seqb c' c && negb (match es with [] => true | _ => false end)).
Proof.
  induction es as [|[[p b] ss] es IH]; intros t c'; [cbn; rewrite andb_false_r, orb_false_r; reflexivity|].
  cbn [fold_left fst snd]. rewrite IH. unfold store3. rewrite amem_store. cbn [negb].
  destruct (seqb c' c), (amem seqb t c'), es; reflexivity.
Qed.

Lemma read_cached_serialise ct c : ct_wf ct ->
  let t := read_cached (serialise ct) c [] in
  getd seqb t c = fold_left cset3 (entries ct) [] /\
  (forall c', amem seqb t c' = seqb c' c && negb (match entries ct with [] => true | _ => false end)).
Proof.
  intros Hwf. cbv zeta. unfold read_cached. rewrite serialise_bodies.
  set (bodies := map (fun e : entry => body_of (fst (fst e)) (snd (fst e)) (snd e)) (entries ct)).
  assert (Hb : forall b, In b bodies -> forall ch, In ch b -> ch <> 10 /\ ch <> 13).
  { intros b Hin. apply in_map_iff in Hin. destruct Hin as ([[p b0] ss] & E & Hin). subst b. cbn [fst snd].
    destruct (entries_ok ct Hwf p b0 ss Hin) as (H1 & _ & _ & H4). apply body_no_nl; assumption. }
  rewrite unl_id.
  2:{ intros Hin. apply in_concat in Hin. destruct Hin as (l & Hl & Hc). apply in_map_iff in Hl.
      destruct Hl as (b & E & Hbin). subst l. apply in_app_or in Hc. destruct Hc as [Hc|[Hc|[]]]; [|discriminate].
      destruct (Hb b Hbin 13 Hc) as [_ F]. congruence. }
  rewrite lines_of_concat.
  2:{ intros b Hin H10. destruct (Hb b Hin 10 H10) as [F _]. congruence. }
  unfold bodies. rewrite read_lines_bodies by (apply entries_ok, Hwf).
  split; [rewrite fold_store3_getd; reflexivity|].
  intros c'. rewrite fold_store3_amem. reflexivity.
Qed.
