(* C19 proofs, part 4: the translator tie.  Shape lemmas about the definitions REGENERATED from
   handlelimiter.py (Gen/GenHandles.v) and, from them, the identity between the model K runs (hl_*,
   defined with the generated decisions) and the reference kernel the invariant proofs are about.
   A change of the source that alters one of these decisions regenerates a different definition and
   the corresponding lemma below no longer checks. *)
From Coq Require Import ZArith List Bool Lia.
Import ListNotations.
From SCMO Require Import Lib.Val Gen.GenHandles Model.C19.
Open Scope Z_scope.

(* ---- shape lemmas *)
Lemma s_init_ctr : g_init_ctr = 0.
Proof. reflexivity. Qed.
Lemma s_init_clean : g_init_clean = true.
Proof. reflexivity. Qed.
(* write() enters the open block iff the path has no entry - no other state is consulted *)
Lemma s_write_guard : forall is_open, g_write_guard is_open = negb is_open.
Proof. intros []; reflexivity. Qed.
(* append iff already written by this writer, or forceAppend *)
Lemma s_append_test : forall in_seen force, g_append_test in_seen force = in_seen || force.
Proof. intros [] []; reflexivity. Qed.
(* the append branch opens with 'a'/'ab', the other with 'w'/'wb', whatever the method *)
Lemma s_opens_append : forall a gz, g_opens_append a gz = a.
Proof. intros [] []; reflexivity. Qed.
(* the path is remembered only in the new-file branch and only after its open() succeeded *)
Lemma s_seen_added : forall a ok, g_seen_added a ok = negb a && ok.
Proof. intros [] []; reflexivity. Qed.
(* every OSError of open() reaches the recovery code, whatever its errno *)
Lemma s_handler : g_handler_catches true = true.
Proof. reflexivity. Qed.
(* retry iff something besides the placeholder is open *)
Lemma s_retry : forall n, g_retry n = (1 <? n).
Proof. intros n. unfold g_retry. rewrite ?Z.gtb_ltb. reflexivity. Qed.
(* close() is followed by the placeholder restore (D27 repaired) *)
Lemma s_restores : g_restores_placeholder = true.
Proof. reflexivity. Qed.
Lemma s_ctr_step : forall c, g_ctr_step c = c + 1.
Proof. intros c. unfold g_ctr_step. lia. Qed.
Lemma s_prune_due : forall c pe, g_prune_due c pe = (pe <=? c).
Proof. intros c pe. unfold g_prune_due. rewrite ?Z.geb_leb. reflexivity. Qed.
Lemma s_prune_needed : forall n mh, g_prune_needed n mh = (mh <? n).
Proof. intros n mh. unfold g_prune_needed. rewrite ?Z.gtb_ltb. reflexivity. Qed.
Lemma s_to_prune : forall n mh, g_to_prune n mh = n - mh.
Proof. intros n mh. unfold g_to_prune. lia. Qed.
(* victims: least recently written first *)
Lemma s_victim_key : forall w, g_victim_key w = w.
Proof. intros w. unfold g_victim_key. lia. Qed.
Lemma s_sort_descending : g_sort_descending = false.
Proof. reflexivity. Qed.
Lemma s_prune_ctr : g_prune_ctr = 0.
Proof. reflexivity. Qed.
Lemma s_prune_keeps_seen : g_prune_keeps_seen = true.
Proof. reflexivity. Qed.
(* close() clears openHandles only: seen and the counter survive *)
Lemma s_close_clears_seen : g_close_clears_seen = false.
Proof. reflexivity. Qed.
Lemma s_close_resets_ctr : g_close_resets_ctr = false.
Proof. reflexivity. Qed.

(* ---- the model defined with the generated decisions is the reference kernel *)
Definition cfg_of (mh pe : Z) : cfg := {| maxHandles := mh; pruneEvery := pe; fixed := true |}.

Lemma tie_append : forall st o, hl_append_branch st o = append_mode st o.
Proof. intros. unfold hl_append_branch, append_mode. apply s_append_test. Qed.

Lemma tie_open_fail : forall st p a, hl_os_open st p a false = os_open st p a false.
Proof.
  intros. unfold hl_os_open, os_open. rewrite s_opens_append, s_seen_added, andb_false_r. reflexivity.
Qed.

Lemma tie_open_ok : forall st p a,
  hl_register (hl_os_open st p a true) p = register (os_open st p a true) p a.
Proof.
  intros. unfold hl_register, hl_os_open, register, os_open. cbn [opens seen ctr clock att fs trace].
  rewrite s_opens_append, s_seen_added. destruct a; reflexivity.
Qed.

Lemma tie_close : forall st, hl_close_all st = close_all st.
Proof. intros. unfold hl_close_all, close_all. rewrite s_close_clears_seen, s_close_resets_ctr. reflexivity. Qed.

Lemma retry_plus_one : forall n : nat, (1 <? Z.of_nat n + 1) = (0 <? Z.of_nat n).
Proof. intros n. destruct (Z.ltb_spec 1 (Z.of_nat n + 1)), (Z.ltb_spec 0 (Z.of_nat n)); try reflexivity; lia. Qed.

Lemma tie_open_phase : forall mh pe orc st o,
  hl_open_phase orc st o = open_phase (cfg_of mh pe) orc st o.
Proof.
  intros mh pe orc st o. unfold hl_open_phase, open_phase. cbv zeta.
  rewrite s_handler, s_restores, !s_retry, retry_plus_one, tie_append.
  change (1 <? 1) with false. cbn [andb fixed cfg_of].
  destruct (orc (att st) (w_path o) (length (opens st))); [|apply f_equal; apply tie_open_ok].
  rewrite tie_open_fail, tie_close.
  destruct (0 <? Z.of_nat (length (opens st))); [|reflexivity].
  assert (Ha2 : hl_append_branch (close_all (os_open st (w_path o) (append_mode st o) false)) o = append_mode st o).
  { unfold hl_append_branch, append_mode. cbn [seen close_all os_open]. apply s_append_test. }
  rewrite !Ha2.
  destruct (orc (att (close_all (os_open st (w_path o) (append_mode st o) false))) (w_path o) 0%nat).
  - rewrite tie_open_fail. reflexivity.
  - apply f_equal. apply tie_open_ok.
Qed.

Lemma tie_ins : forall h l, hl_ins h l = ins_lastw h l.
Proof.
  intros h l. induction l as [|x r IH]; [reflexivity|]. cbn [hl_ins ins_lastw].
  unfold hl_before. rewrite s_sort_descending, !s_victim_key, IH. reflexivity.
Qed.

Lemma tie_sort : forall l, hl_sort l = sort_lastw l.
Proof.
  intros l. unfold hl_sort, sort_lastw. induction l as [|h l IH]; [reflexivity|].
  cbn [fold_right]. rewrite IH. apply tie_ins.
Qed.

Lemma tie_victims : forall mh pe st, hl_victims mh st = victims (cfg_of mh pe) st.
Proof.
  intros mh pe st. unfold hl_victims, victims. cbn [maxHandles cfg_of].
  rewrite s_prune_needed, s_to_prune, tie_sort.
  destruct (mh <? Z.of_nat (length (opens st))) eqn:E; [|reflexivity].
  apply Z.ltb_lt in E. unfold py_take.
  assert (Hl : length (sort_lastw (opens st)) = length (opens st)).
  { clear. unfold sort_lastw. induction (opens st) as [|h l IH]; [reflexivity|]. cbn [fold_right length].
    rewrite <- IH. generalize (fold_right ins_lastw [] l). intros t. clear.
    induction t as [|x r IH]; [reflexivity|]. cbn [ins_lastw]. destruct (snd x <? snd h); cbn [length]; [rewrite IH|]; reflexivity. }
  rewrite Hl.
  assert (E2 : (Z.of_nat (length (opens st)) - mh <? 0) = false) by (apply Z.ltb_ge; lia).
  rewrite E2. reflexivity.
Qed.

Lemma tie_prune : forall mh pe st, hl_prune mh st = prune (cfg_of mh pe) st.
Proof.
  intros. unfold hl_prune, prune. rewrite (tie_victims mh pe), s_prune_keeps_seen, s_prune_ctr. reflexivity.
Qed.

Lemma tie_write_phase : forall mh pe st o, hl_write_phase mh pe st o = write_phase (cfg_of mh pe) st o.
Proof.
  intros. unfold hl_write_phase, write_phase. cbn [ctr pruneEvery cfg_of].
  rewrite s_prune_due, s_ctr_step, (tie_prune mh pe). reflexivity.
Qed.

Lemma tie_write : forall mh pe orc st o, hl_write mh pe orc st o = write (cfg_of mh pe) orc st o.
Proof.
  intros. unfold hl_write, write. rewrite s_write_guard, (tie_open_phase mh pe).
  destruct (memZ (w_path o) (paths st)); cbn [negb].
  - rewrite tie_write_phase. reflexivity.
  - destruct (open_phase (cfg_of mh pe) orc st o); [rewrite tie_write_phase|]; reflexivity.
Qed.

Lemma tie_run_from : forall mh pe orc ops st n,
  hl_run_from mh pe orc ops st n = run_from (cfg_of mh pe) orc ops st n.
Proof.
  intros mh pe orc ops. induction ops as [|o ops IH]; intros st n; [reflexivity|].
  cbn [hl_run_from run_from]. rewrite tie_write. destruct (write (cfg_of mh pe) orc st o); [apply IH | reflexivity].
Qed.

Lemma tie_init : forall init, hl_init_state init = init_state init.
Proof. intros. unfold hl_init_state, init_state. rewrite s_init_ctr. reflexivity. Qed.

Lemma tie_run_ops : forall mh pe orc init ops,
  hl_run_ops mh pe orc init ops = run_ops (cfg_of mh pe) orc init ops.
Proof. intros. unfold hl_run_ops, run_ops. rewrite tie_init. apply tie_run_from. Qed.
