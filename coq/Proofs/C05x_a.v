(* C05 proofs, part x-a: contig selection - the job lists (one contig per process with / without the
   whitelist test, binned), bp_chunked, and the skip_contigs filter of MoleculeIterator *)
From Coq Require Import ZArith List Bool Lia ZifyBool Permutation.
Import ListNotations.
From SCMO Require Import Lib.Val Model.C05 Model.C05x Proofs.C05_a Proofs.C05_b Proofs.C05.
Open Scope Z_scope.

(* ---------------------------------------------------------------- toolkit *)
Lemma cmem_In c l : cmem c l = true <-> In c l.
Proof.
  unfold cmem. rewrite existsb_exists. split.
  - intros (x & Hx & He). apply cname_eqb_eq in He. subst x. exact Hx.
  - intros H. exists c. split; [exact H|apply cname_eqb_refl].
Qed.

Lemma cmem_false c l : cmem c l = false <-> ~ In c l.
Proof. rewrite <- cmem_In. destruct (cmem c l); split; congruence. Qed.

Lemma filter_ext_in' {A} (f g : A -> bool) (l : list A) :
  (forall x, In x l -> f x = g x) -> filter f l = filter g l.
Proof.
  induction l as [|a l IH]; intros H; cbn [filter]; [reflexivity|].
  rewrite (H a (or_introl eq_refl)), IH; [reflexivity|]. intros x Hx. apply H. right. exact Hx.
Qed.

Lemma filter_filter_and {A} (f g : A -> bool) (l : list A) :
  filter f (filter g l) = filter (fun x => g x && f x) l.
Proof.
  induction l as [|a l IH]; cbn [filter]; [reflexivity|].
  destruct (g a); cbn [filter andb]; [destruct (f a)|]; rewrite IH; reflexivity.
Qed.

Lemma filter_map_comm {A B} (f : B -> bool) (g : A -> B) (l : list A) :
  filter f (map g l) = map g (filter (fun a => f (g a)) l).
Proof.
  induction l as [|a l IH]; cbn [map filter]; [reflexivity|].
  destruct (f (g a)); cbn [map]; rewrite IH; reflexivity.
Qed.

Lemma flat_map_filter_if {A B} (f : A -> bool) (g h : A -> list B) (l : list A) :
  (forall a, In a l -> g a = if f a then h a else []) -> flat_map g l = flat_map h (filter f l).
Proof.
  induction l as [|a l IH]; intros H; cbn [flat_map filter]; [reflexivity|].
  rewrite (H a (or_introl eq_refl)), IH by (intros x Hx; apply H; right; exact Hx).
  destruct (f a); reflexivity.
Qed.

Lemma NoDup_filter {A} (f : A -> bool) (l : list A) : NoDup l -> NoDup (filter f l).
Proof.
  induction 1 as [|a l Hn Hd IH]; cbn [filter]; [constructor|].
  destruct (f a); [|exact IH]. constructor; [|exact IH]. intros Hin. apply Hn. apply filter_In in Hin. tauto.
Qed.

(* ---------------------------------------------------------------- whitelist *)
Lemma whitelist_spec sc skip cwr c :
  cmem c (whitelist sc skip cwr) = true <->
  match sc with
  | Some x => c = x
  | None => In c (map fst cwr) /\ cmem c skip = false
  end.
Proof.
  unfold whitelist. destruct sc as [x|].
  - rewrite cmem_In. cbn [In]. split; [intros [H|[]]; auto|intros ->; left; reflexivity].
  - rewrite cmem_In, filter_In, negb_true_iff. tauto.
Qed.

(* ---------------------------------------------------------------- one contig per process with the whitelist test *)
Definition keepc (wl : list cname) (cl : cname * Z) : bool := is_star (fst cl) || cmem (fst cl) wl.

(* the repaired loop is the loop of C05 run on the whitelisted entries *)
Lemma jobs_loop_wl_filter wl : forall cs current job_gen,
  jobs_loop_wl wl cs current job_gen = jobs_loop (filter (keepc wl) cs) current job_gen.
Proof.
  induction cs as [|[c len] cs IH]; intros current job_gen; cbn [jobs_loop_wl filter]; [reflexivity|].
  unfold keepc at 1. cbn [fst]. destruct (is_star c) eqn:Es; cbn [orb].
  - cbn [jobs_loop]. rewrite Es. apply IH.
  - destruct (cmem c wl) eqn:Ew; cbn [negb].
    + cbn [jobs_loop]. rewrite Es.
      destruct (len <? small_contig_threshold); [apply IH|].
      destruct (0 <? Z.of_nat (length current)); apply IH.
    + apply IH.
Qed.

Lemma keepc_names wl cs :
  filter nonstar (map fst (filter (keepc wl) cs)) = filter (fun c => nonstar c && cmem c wl) (map fst cs).
Proof.
  induction cs as [|[c len] cs IH]; cbn [filter map fst]; [reflexivity|].
  unfold keepc at 1, nonstar at 2. cbn [fst]. destruct (is_star c) eqn:Es; cbn [orb negb andb].
  - cbn [map filter fst]. unfold nonstar at 1. rewrite Es. cbn [negb]. exact IH.
  - destruct (cmem c wl); cbn [map filter fst]; [|exact IH].
    unfold nonstar at 1. rewrite Es. cbn [negb]. f_equal. exact IH.
Qed.

Lemma cpp_jobs_repaired_concat sc skip cwr :
  concat (cpp_jobs true sc skip cwr) =
  None :: filter (fun c => nonstar c && cmem c (whitelist sc skip cwr)) (map fst cwr).
Proof.
  unfold cpp_jobs. rewrite jobs_loop_wl_filter. fold (contig_jobs (filter (keepc (whitelist sc skip cwr)) cwr)).
  rewrite contig_jobs_concat, keepc_names. reflexivity.
Qed.

Lemma cpp_jobs_as_coded_concat sc skip cwr :
  concat (cpp_jobs false sc skip cwr) = None :: filter nonstar (map fst cwr).
Proof. unfold cpp_jobs. apply contig_jobs_concat. Qed.

Lemma nonstar_not_None (l : list cname) f : ~ In None (filter (fun c => nonstar c && f c) l).
Proof. intros H. apply filter_In in H. destruct H as (_ & H). discriminate H. Qed.

(* exactly once, and nothing that was not asked for *)
Lemma cpp_jobs_repaired_spec sc skip cwr :
  NoDup (map fst cwr) ->
  NoDup (concat (cpp_jobs true sc skip cwr)) /\
  (forall c, In c (concat (cpp_jobs true sc skip cwr)) <->
             c = None \/ (In c (map fst cwr) /\ cmem c (whitelist sc skip cwr) = true)).
Proof.
  intros Hnd. rewrite cpp_jobs_repaired_concat. split.
  - constructor; [apply nonstar_not_None|apply NoDup_filter, Hnd].
  - intros c. cbn [In]. rewrite filter_In, andb_true_iff. split.
    + intros [H|(H1 & _ & H3)]; [left; symmetry; exact H|right; split; assumption].
    + intros [->|(H1 & H2)]; [left; reflexivity|].
      destruct c as [x|]; [right; repeat split; assumption|left; reflexivity].
Qed.

(* D31: the block as it is schedules a contig that -contig excludes *)
Lemma cpp_jobs_as_coded_refuted :
  let cwr := [(Some 1, 500); (Some 2, 5000000)] in
  In (Some 2) (concat (cpp_jobs false (Some (Some 1)) [] cwr)) /\
  cmem (Some 2) (whitelist (Some (Some 1)) [] cwr) = false /\
  In (Some 2) (concat (cpp_jobs false None [Some 2] cwr)) /\
  cmem (Some 2) (whitelist None [Some 2] cwr) = false.
Proof. cbv zeta. repeat split; vm_compute; auto. Qed.

(* ---------------------------------------------------------------- bp_chunked loses nothing *)
Lemma bp_loop_concat k : forall l bp cur, concat (bp_loop k bp cur l) = cur ++ l.
Proof.
  induction l as [|t l IH]; intros bp cur; cbn [bp_loop].
  - cbn [concat]. rewrite !app_nil_r. reflexivity.
  - cbv zeta. destruct (k <=? bp + task_bp t).
    + cbn [concat]. rewrite IH. cbn [app]. rewrite <- app_assoc. reflexivity.
    + rewrite IH, <- app_assoc. reflexivity.
Qed.

Lemma bp_chunked_concat l k : concat (bp_chunked l k) = l.
Proof. unfold bp_chunked. rewrite bp_loop_concat. reflexivity. Qed.

Section BinnedJobs.
  Variable bins : Z -> list region.

  Lemma binned_jobs_concat wl hdr k :
    concat (binned_jobs bins wl hdr k) = (None, None) :: regions bins wl hdr.
  Proof. unfold binned_jobs. cbn [concat app]. rewrite bp_chunked_concat. reflexivity. Qed.

  Definition on_contig (c : Z) (t : task) : bool := cname_eqb (fst t) (Some c).

  Lemma on_contig_tasks c c' (bs : list region) :
    filter (on_contig c) (map (fun b => (Some c', Some b)) bs) =
    if c' =? c then map (fun b => (Some c', Some b)) bs else [].
  Proof.
    induction bs as [|b bs IH]; cbn [map filter]; [destruct (c' =? c); reflexivity|].
    unfold on_contig at 1. cbn [fst cname_eqb]. rewrite IH. destruct (c' =? c); reflexivity.
  Qed.

  Lemma regions_cons wl c len hdr :
    regions bins wl ((c, len) :: hdr) =
    @app task (if cmem (Some c) wl then map (fun b => (Some c, Some b) : task) (bins len) else []) (regions bins wl hdr).
  Proof. reflexivity. Qed.

  (* every whitelisted header contig gets exactly its regions, every other contig none *)
  Lemma regions_per_contig wl : forall hdr c len,
    NoDup (map fst hdr) -> In (c, len) hdr ->
    filter (on_contig c) (regions bins wl hdr) =
    if cmem (Some c) wl then map (fun b => (Some c, Some b)) (bins len) else [].
  Proof.
    induction hdr as [|[c' len'] hdr IH]; intros c len Hnd Hin; [destruct Hin|].
    cbn [map fst] in Hnd. inversion Hnd as [|x xs Hn Hd]; subst.
    rewrite regions_cons, filter_app.
    destruct Hin as [Heq|Hin].
    - inversion Heq; subst c' len'.
      assert (Hrest : filter (on_contig c) (regions bins wl hdr) = []).
      { apply filter_none. intros t Ht. unfold regions in Ht. apply in_flat_map in Ht.
        destruct Ht as ([c2 l2] & Hc2 & Ht). cbn [fst snd] in Ht.
        destruct (cmem (Some c2) wl); [|destruct Ht].
        apply in_map_iff in Ht. destruct Ht as (b & <- & _). unfold on_contig. cbn [fst cname_eqb].
        apply Z.eqb_neq. intros ->. apply Hn. apply in_map_iff. exists (c, l2). split; [reflexivity|exact Hc2]. }
      rewrite Hrest, app_nil_r. destruct (cmem (Some c) wl); [|reflexivity].
      rewrite on_contig_tasks, Z.eqb_refl. reflexivity.
    - assert (Hne : c' <> c).
      { intros ->. apply Hn. apply in_map_iff. exists (c, len). split; [reflexivity|exact Hin]. }
      rewrite (IH c len Hd Hin).
      destruct (cmem (Some c') wl); [|reflexivity].
      rewrite on_contig_tasks. apply Z.eqb_neq in Hne. rewrite Hne. reflexivity.
  Qed.

  Lemma regions_selected wl hdr t :
    In t (regions bins wl hdr) ->
    exists c len b, t = (Some c, Some b) /\ In (c, len) hdr /\ cmem (Some c) wl = true /\ In b (bins len).
  Proof.
    unfold regions. intros H. apply in_flat_map in H. destruct H as ([c len] & Hc & Ht). cbn [fst snd] in Ht.
    destruct (cmem (Some c) wl) eqn:E; [|destruct Ht].
    apply in_map_iff in Ht. destruct Ht as (b & <- & Hb). exists c, len, b. auto.
  Qed.

  (* the contigs of the regions, as a list *)
  Lemma regions_flat wl hdr {B} (g : task -> list B) :
    flat_map g (regions bins wl hdr) =
    flat_map (fun cl => flat_map (fun b => g (Some (fst cl), Some b)) (bins (snd cl)))
             (filter (fun cl => cmem (Some (fst cl)) wl) hdr).
  Proof.
    unfold regions. rewrite flat_map_flat_map.
    induction hdr as [|[c len] hdr IH]; cbn [flat_map filter fst snd]; [reflexivity|].
    destruct (cmem (Some c) wl); cbn [flat_map fst snd]; rewrite IH; [|reflexivity].
    rewrite flat_map_map'. reflexivity.
  Qed.
End BinnedJobs.

(* ---------------------------------------------------------------- the skip_contigs test *)
Lemma rec_kept_nil r : rec_kept [] r = true.
Proof. unfold rec_kept. destruct (r_contig r); reflexivity. Qed.

Lemma rec_kept_contig skip a b : r_contig a = r_contig b -> rec_kept skip a = rec_kept skip b.
Proof. unfold rec_kept. intros ->. reflexivity. Qed.

Lemma rec_kept_unplaced skip r : r_contig r = None -> rec_kept skip r = true.
Proof. unfold rec_kept. intros ->. reflexivity. Qed.

Lemma rec_kept_force1 skip r : rec_kept skip (force1 r) = rec_kept skip r.
Proof. reflexivity. Qed.
Lemma rec_kept_force2 skip r : rec_kept skip (force2 r) = rec_kept skip r.
Proof. reflexivity. Qed.
Lemma rec_kept_norm skip r : rec_kept skip (norm r) = rec_kept skip r.
Proof. unfold norm. destruct (r_paired r), (r_read1 r); reflexivity. Qed.

(* the test as a function of the key (it only reads the contig) *)
Definition key_kept (skip : list cname) (k : (Z * Z * cname * Z) * (bool * bool)) : bool :=
  match snd (fst (fst k)) with
  | None => true
  | Some c => negb (cmem (Some c) skip)
  end.

Lemma key_kept_key skip r : key_kept skip (key r) = rec_kept skip r.
Proof. reflexivity. Qed.

Lemma map_key_filter skip l : map key (filter (rec_kept skip) l) = filter (key_kept skip) (map key l).
Proof. rewrite filter_map_comm. reflexivity. Qed.

Lemma nkeys_filter skip l : nkeys (filter (rec_kept skip) l) = filter (key_kept skip) (nkeys l).
Proof.
  unfold nkeys. rewrite !filter_map_comm. f_equal. f_equal. apply filter_ext_in'. intros r _.
  rewrite key_kept_key. symmetry. apply rec_kept_norm.
Qed.

(* mates that the cache joins lie on one contig *)
Definition coloc (l : list rec) : Prop :=
  forall a b, In a l -> In b l -> primary a = true -> primary b = true ->
              cacheable a = true -> cacheable b = true -> r_name a = r_name b -> r_contig a = r_contig b.

Lemma coloc_incl l l' : incl l' l -> coloc l -> coloc l'.
Proof. intros Hi H a b Ha Hb. apply H; apply Hi; assumption. Qed.

Lemma coloc_filter p l : coloc l -> coloc (filter p l).
Proof. apply coloc_incl. intros x Hx. apply filter_In in Hx. tauto. Qed.

Lemma coloc_same_contig c l : (forall r, In r l -> r_contig r = c) -> coloc l.
Proof. intros H a b Ha Hb _ _ _ _ _. rewrite (H a Ha), (H b Hb). reflexivity. Qed.

Lemma coloc_fetch c recs : coloc (fetch c recs).
Proof.
  apply (coloc_same_contig c). intros r Hr. apply filter_In in Hr. destruct Hr as (_ & Hr).
  apply cname_eqb_eq in Hr. exact Hr.
Qed.

Lemma coloc_b_sound recs : coloc_b recs = true -> coloc recs.
Proof.
  unfold coloc_b. rewrite forallb_forall. intros H a b Ha Hb Hpa Hpb Hca Hcb Hn.
  specialize (H a Ha). rewrite forallb_forall in H. specialize (H b Hb).
  rewrite Hpa, Hpb, Hca, Hcb in H. apply Z.eqb_eq in Hn. rewrite Hn in H. cbn [andb negb orb] in H.
  apply cname_eqb_eq in H. exact H.
Qed.

(* invariant of the pairing loop: a cached record is a primary, cacheable record of the stream, filed
   under its own name *)
Definition centry (all : list rec) (d : dict) : Prop :=
  forall k v, In (k, v) d -> k = r_name v /\ In v all /\ primary v = true /\ cacheable v = true.

Definition pair_ok (all : list rec) (p : pairT) : Prop :=
  forall a b, p = (Some a, Some b) ->
    r_name a = r_name b /\ In a all /\ In b all /\ primary a = true /\ primary b = true /\
    cacheable a = true /\ cacheable b = true.

Lemma dset_In' k v d k' v' : In (k', v') (dset k v d) -> (k' = k /\ v' = v) \/ In (k', v') d.
Proof.
  induction d as [|[k0 v0] d IH]; cbn [dset].
  - intros [H|[]]. inversion H; subst. left. auto.
  - destruct (k =? k0) eqn:E.
    + apply Z.eqb_eq in E. subst k0.
      intros [H|H]; [inversion H; subst; left; auto|right; right; exact H].
    + intros [H|H]; [right; left; exact H|]. destruct (IH H) as [H'|H']; [left; exact H'|right; right; exact H'].
Qed.

Lemma centry_ddel all k d : centry all d -> centry all (ddel k d).
Proof. intros H k' v Hin. apply H. apply (ddel_incl k d). exact Hin. Qed.

Lemma centry_dset all d r :
  centry all d -> In r all -> primary r = true -> cacheable r = true -> centry all (dset (r_name r) r d).
Proof.
  intros H Hin Hp Hc k v Hkv. apply dset_In' in Hkv. destruct Hkv as [(-> & ->)|Hkv]; [auto|apply H; exact Hkv].
Qed.

Lemma pair_ok_single1 all a : pair_ok all (Some a, None).
Proof. intros x y H. discriminate H. Qed.
Lemma pair_ok_single2 all b : pair_ok all (None, Some b).
Proof. intros x y H. discriminate H. Qed.

Lemma pair_loop_pairs all : forall rs c1 c2 ps,
  incl rs all -> centry all c1 -> centry all c2 ->
  pair_loop rs c1 c2 = Ok ps -> Forall (pair_ok all) ps.
Proof.
  induction rs as [|r rs IH]; intros c1 c2 ps Hi H1 H2 Hrun; cbn [pair_loop] in Hrun.
  - inversion Hrun; subst. unfold flush. apply Forall_app. split; apply Forall_forall; intros p Hp;
      apply in_map_iff in Hp; destruct Hp as ([k v] & <- & _); [apply pair_ok_single1|apply pair_ok_single2].
  - assert (Hi' : incl rs all) by (intros x Hx; apply Hi; right; exact Hx).
    assert (Hr : In r all) by (apply Hi; left; reflexivity).
    destruct (r_sec r) eqn:Esec; [eapply IH; [exact Hi'| | |exact Hrun]; assumption|].
    assert (Hprim : primary r = true) by (unfold primary; rewrite Esec; reflexivity).
    destruct (r_paired r) eqn:Ep; cbn [negb] in Hrun.
    2:{ apply cons_res_Ok in Hrun. destruct Hrun as (ps' & Hrun & ->).
        constructor; [apply pair_ok_single1|eapply IH; [exact Hi'| | |exact Hrun]; assumption]. }
    destruct (negb (r_mate_unmapped r) && cname_eqb (r_contig r) (r_next r)) eqn:Ec.
    + assert (Hcache : cacheable r = true) by (unfold cacheable; rewrite Ep; exact Ec).
      destruct (r_read1 r) eqn:E1.
      * assert (H1' := centry_dset all c1 r H1 Hr Hprim Hcache).
        destruct (dget (r_name r) (dset (r_name r) r c1)) as [a|] eqn:Ea; [|eapply IH; [exact Hi'| | |exact Hrun]; assumption].
        destruct (dget (r_name r) c2) as [b|] eqn:Eb; [|eapply IH; [exact Hi'| | |exact Hrun]; assumption].
        apply cons_res_Ok in Hrun. destruct Hrun as (ps' & Hrun & ->). constructor.
        -- intros x y Hxy. inversion Hxy; subst x y.
           destruct (H1' _ _ (dget_Some_In _ _ _ Ea)) as (Hna & Hia & Hpa & Hca).
           destruct (H2 _ _ (dget_Some_In _ _ _ Eb)) as (Hnb & Hib & Hpb & Hcb).
           repeat split; try assumption. congruence.
        -- eapply IH; [exact Hi'|apply centry_ddel; exact H1'|apply centry_ddel; exact H2|exact Hrun].
      * assert (H2' := centry_dset all c2 r H2 Hr Hprim Hcache).
        destruct (dget (r_name r) c1) as [a|] eqn:Ea; [|eapply IH; [exact Hi'| | |exact Hrun]; assumption].
        destruct (dget (r_name r) (dset (r_name r) r c2)) as [b|] eqn:Eb; [|eapply IH; [exact Hi'| | |exact Hrun]; assumption].
        apply cons_res_Ok in Hrun. destruct Hrun as (ps' & Hrun & ->). constructor.
        -- intros x y Hxy. inversion Hxy; subst x y.
           destruct (H1 _ _ (dget_Some_In _ _ _ Ea)) as (Hna & Hia & Hpa & Hca).
           destruct (H2' _ _ (dget_Some_In _ _ _ Eb)) as (Hnb & Hib & Hpb & Hcb).
           repeat split; try assumption. congruence.
        -- eapply IH; [exact Hi'|apply centry_ddel; exact H1|apply centry_ddel; exact H2'|exact Hrun].
    + destruct (r_read1 r) eqn:E1.
      * apply cons_res_Ok in Hrun. destruct Hrun as (ps' & Hrun & ->).
        constructor; [apply pair_ok_single1|eapply IH; [exact Hi'| | |exact Hrun]; assumption].
      * destruct (r_read2 r); [|discriminate].
        apply cons_res_Ok in Hrun. destruct Hrun as (ps' & Hrun & ->).
        constructor; [apply pair_ok_single2|eapply IH; [exact Hi'| | |exact Hrun]; assumption].
Qed.

(* on a pair whose reads lie on one contig the pair test is the record test *)
Definition pair_uniform (p : pairT) : Prop := forall a b, p = (Some a, Some b) -> r_contig a = r_contig b.

Lemma pair_kept_cons s skip p : pair_kept (s :: skip) p = existsb (rec_kept (s :: skip)) (pair_recs p).
Proof. reflexivity. Qed.

Lemma slotted_kept skip p :
  pair_uniform p ->
  filter (rec_kept skip) (slotted p) = if pair_kept skip p then slotted p else [].
Proof.
  intros Hu. destruct skip as [|s skip'].
  - cbn [pair_kept]. apply filter_all. intros x _. apply rec_kept_nil.
  - rewrite pair_kept_cons. generalize (s :: skip'). intros skip.
    destruct p as [[a|] [b|]]; unfold slotted, pair_recs; cbn [fst snd option_map opt_list app frag_recs filter existsb].
    + rewrite rec_kept_force1, rec_kept_force2, (rec_kept_contig skip a b (Hu a b eq_refl)).
      destruct (rec_kept skip b); reflexivity.
    + rewrite rec_kept_force1. destruct (rec_kept skip a); reflexivity.
    + rewrite rec_kept_force2. destruct (rec_kept skip b); reflexivity.
    + reflexivity.
Qed.

Lemma pairing_uniform rs ps : coloc rs -> pairing rs = Ok ps -> Forall pair_uniform ps.
Proof.
  intros Hc H. unfold pairing in H.
  assert (HF := pair_loop_pairs rs rs [] [] ps (incl_refl rs)
                  (fun k v (Hin : In (k, v) []) => match Hin with end)
                  (fun k v (Hin : In (k, v) []) => match Hin with end) H).
  eapply Forall_impl; [|exact HF]. intros p Hp a b Hab.
  destruct (Hp a b Hab) as (Hn & Hia & Hib & Hpa & Hpb & Hca & Hcb). apply Hc; assumption.
Qed.

(* the pairs that pass the test carry exactly the primary records that are not on a skipped contig *)
Lemma pairing_kept_conserve skip rs ps :
  K (filter primary rs) -> coloc rs -> pairing rs = Ok ps ->
  Permutation (map key (flat_map slotted (filter (pair_kept skip) ps)))
              (nkeys (filter (rec_kept skip) (filter primary rs))).
Proof.
  intros HK Hc H.
  assert (HU := pairing_uniform rs ps Hc H). rewrite Forall_forall in HU.
  rewrite <- (flat_map_filter_if (pair_kept skip) (fun p => filter (rec_kept skip) (slotted p)) slotted)
    by (intros p Hp; apply slotted_kept, HU, Hp).
  rewrite <- filter_flat_map, map_key_filter, nkeys_filter.
  apply Permutation_filter. apply pairing_conserve; assumption.
Qed.

(* the qflag wrapper: one record per pair *)
Lemma qflag_pair_kept skip r :
  pair_kept skip (if r_read2 r then (None, Some r) else (Some r, None)) = rec_kept skip r.
Proof.
  destruct skip as [|s skip']; [cbn [pair_kept]; symmetry; apply rec_kept_nil|].
  rewrite pair_kept_cons. unfold pair_recs. destruct (r_read2 r); cbn [frag_recs existsb]; apply orb_false_r.
Qed.

Lemma fragments_sel_conserve qflag skip stream fs :
  pre_stream qflag stream -> coloc stream ->
  fragments_sel qflag skip stream = Ok fs ->
  Permutation (map key (flat_map frag_recs fs)) (nkeys (expected qflag (filter (rec_kept skip) stream))).
Proof.
  unfold fragments_sel, pre_stream, expected. intros Hpre Hc H.
  apply bind_Ok in H. destruct H as (ps & Hps & Hfs).
  rewrite (mapM_mkfrag_recs _ _ Hfs). destruct qflag.
  - unfold pairing_qflag in Hps. inversion Hps; subst ps. rewrite filter_map_comm.
    rewrite (filter_ext_in' _ (rec_kept skip)) by (intros r _; apply qflag_pair_kept).
    rewrite qflag_slotted; [apply Permutation_refl|].
    intros r Hr. apply Hpre. apply filter_In in Hr. tauto.
  - rewrite filter_filter_comm. apply pairing_kept_conserve; assumption.
Qed.
