(* C05 proofs, part c: the single-process and the contig-per-process pipelines conserve records *)
From Coq Require Import ZArith List Bool Lia ZifyBool Permutation.
Import ListNotations.
From SCMO Require Import Lib.Val Model.C05 Proofs.C05_a Proofs.C05_b.
Open Scope Z_scope.

(* what must come out: every primary record (MatePairIterator drops secondary / supplementary ones);
   the qflag ReadIterator passes every record *)
Definition expected (qflag : bool) (l : list rec) : list rec := if qflag then l else filter primary l.

(* precondition on a stream: no (name, first?) collision among primary records; for qflag sane flags *)
Definition pre_stream (qflag : bool) (l : list rec) : Prop :=
  if qflag then (forall r, In r l -> wf_flags r = true) else K (filter primary l).

Lemma expected_app q a b : expected q (a ++ b) = expected q a ++ expected q b.
Proof. unfold expected. destruct q; [reflexivity|apply filter_app]. Qed.

Lemma expected_perm q a b : Permutation a b -> Permutation (expected q a) (expected q b).
Proof. unfold expected. destruct q; [tauto|apply Permutation_filter]. Qed.

Lemma expected_flat_map {A} q (g : A -> list rec) l :
  expected q (flat_map g l) = flat_map (fun a => expected q (g a)) l.
Proof. unfold expected. destruct q; [reflexivity|apply filter_flat_map]. Qed.

Lemma pre_stream_filter q p l : pre_stream q l -> pre_stream q (filter p l).
Proof.
  unfold pre_stream. destruct q.
  - intros H r Hr. apply H. apply filter_In in Hr. tauto.
  - intros H. rewrite filter_filter_comm. unfold K. apply NoDup_map_filter. exact H.
Qed.

Lemma pre_stream_perm q a b : Permutation a b -> pre_stream q a -> pre_stream q b.
Proof.
  unfold pre_stream. destruct q; intros HP H.
  - intros r Hr. apply H. eapply Permutation_in; [apply Permutation_sym, HP|exact Hr].
  - eapply K_perm; [apply Permutation_filter, HP|exact H].
Qed.

Lemma nkeys_flat_map {A} (g : A -> list rec) l : nkeys (flat_map g l) = flat_map (fun a => nkeys (g a)) l.
Proof. unfold nkeys. rewrite !map_flat_map. reflexivity. Qed.

(* the qflag wrapper puts each record in the slot of its mate number *)
Lemma qflag_slotted : forall l, (forall r, In r l -> wf_flags r = true) ->
  map key (flat_map slotted (map (fun r => if r_read2 r then (None, Some r) else (Some r, None)) l)) = nkeys l.
Proof.
  induction l as [|r l IH]; intros H; [reflexivity|].
  cbn [map flat_map]. rewrite map_app, nkeys_cons, IH by (intros x Hx; apply H; right; exact Hx).
  f_equal. assert (Hr := H r (or_introl eq_refl)). unfold wf_flags in Hr. unfold norm.
  destruct (r_paired r), (r_read1 r), (r_read2 r); cbn in Hr; try discriminate; reflexivity.
Qed.

Section Pipelines.
  Variable sort : list orec -> list orec.
  Variable merge : list bam -> bam.
  Variable valid : frag -> bool.
  Variable it : bool -> bool -> list frag -> list (list frag) * list frag.
  Variable qflag : bool.

  Hypothesis sort_perm : forall l, Permutation (sort l) l.
  Hypothesis it_ok : iter_contract valid it.

  (* ---- one stream through pairing and Fragment construction *)
  Lemma fragments_conserve stream fs :
    pre_stream qflag stream -> fragments qflag stream = Ok fs ->
    Permutation (map key (flat_map frag_recs fs)) (nkeys (expected qflag stream)).
  Proof.
    unfold fragments, pre_stream, expected. intros Hpre H. apply bind_Ok in H. destruct H as (ps & Hps & Hfs).
    rewrite (mapM_mkfrag_recs _ _ Hfs). destruct qflag.
    - unfold pairing_qflag in Hps. inversion Hps; subst. rewrite qflag_slotted by exact Hpre. apply Permutation_refl.
    - apply pairing_conserve; assumption.
  Qed.

  (* ---- one MoleculeIterator, default options: everything is written *)
  Lemma mol_iter_conserve stream ms :
    pre_stream qflag stream -> mol_iter it qflag true true stream = Ok ms ->
    Permutation (map key (map fst (write ms))) (nkeys (expected qflag stream)).
  Proof.
    unfold mol_iter. intros Hpre H. apply bind_Ok in H. destruct H as (fs & Hfs & Hms). inversion Hms; subst ms.
    rewrite write_fst.
    eapply Permutation_trans; [|apply (fragments_conserve stream fs); assumption].
    apply Permutation_map. apply perm_flat_map. apply (contract_default valid). exact it_ok.
  Qed.

  (* ---- one MoleculeIterator with --no_rejects: exactly the valid fragments *)
  Lemma mol_iter_no_rejects stream ms fs :
    fragments qflag stream = Ok fs -> mol_iter it qflag false true stream = Ok ms ->
    Permutation (map fst (write ms)) (flat_map frag_recs (filter valid fs)).
  Proof.
    unfold mol_iter. intros Hfs H. rewrite Hfs in H. cbn [bind] in H. inversion H; subst ms.
    rewrite write_fst. apply perm_flat_map. apply contract_no_rejects. exact it_ok.
  Qed.

  (* ---- single process *)
  Section Single.
    Variables (hdr : list (Z * Z)) (recs : list rec).
    Hypothesis hdr_nodup : NoDup (map fst hdr).
    Hypothesis recs_placed : forall r, In r recs -> placed_in (map fst hdr) r = true.

    Lemma pre_fetch c : pre_stream qflag recs -> pre_stream qflag (fetch c recs).
    Proof. apply pre_stream_filter. Qed.

    Lemma pre_fetch_all : pre_stream qflag recs -> pre_stream qflag (fetch_all (map fst hdr) recs).
    Proof.
      intros H.
      assert (HP : Permutation (fetch_all (map fst hdr) recs)
                               (filter (on_any (map (@Some Z) (map fst hdr))) recs)).
      { unfold fetch_all. rewrite <- (flat_map_map' (@Some Z) (fun c => fetch c recs)).
        apply fetch_union. apply FinFun.Injective_map_NoDup; [|exact hdr_nodup]. intros x y Hxy. congruence. }
      eapply pre_stream_perm; [apply Permutation_sym, HP|]. apply pre_stream_filter. exact H.
    Qed.

    Lemma single_conserve b :
      pre_stream qflag recs ->
      single sort it qflag true true hdr recs = Ok b ->
      Permutation (map key (map fst (snd b))) (nkeys (expected qflag recs)).
    Proof.
      unfold single. intros Hpre H.
      apply bind_Ok in H. destruct H as (m1 & Hm1 & H).
      apply bind_Ok in H. destruct H as (m2 & Hm2 & H). inversion H; subst b. clear H.
      unfold sorted_bam. cbn [snd].
      eapply Permutation_trans; [apply Permutation_map, Permutation_map, sort_perm|].
      rewrite write_app, !map_app.
      eapply Permutation_trans.
      { apply Permutation_app.
        - apply (mol_iter_conserve _ _ (pre_fetch None Hpre) Hm1).
        - apply (mol_iter_conserve _ _ (pre_fetch_all Hpre) Hm2). }
      rewrite <- nkeys_app, <- expected_app.
      apply nkeys_perm, expected_perm, fetch_single; assumption.
    Qed.

    Lemma single_no_rejects b fs1 fs2 :
      fragments qflag (fetch None recs) = Ok fs1 ->
      fragments qflag (fetch_all (map fst hdr) recs) = Ok fs2 ->
      single sort it qflag false true hdr recs = Ok b ->
      Permutation (map fst (snd b)) (flat_map frag_recs (filter valid (fs1 ++ fs2))).
    Proof.
      unfold single. intros H1 H2 H.
      apply bind_Ok in H. destruct H as (m1 & Hm1 & H).
      apply bind_Ok in H. destruct H as (m2 & Hm2 & H). inversion H; subst b. clear H.
      unfold sorted_bam. cbn [snd].
      eapply Permutation_trans; [apply Permutation_map, sort_perm|].
      rewrite write_app, map_app, filter_app, flat_map_app.
      apply Permutation_app; eapply mol_iter_no_rejects; eassumption.
    Qed.

    (* every written record carries a read group that the header declares *)
    Lemma single_rg yi yo b r g :
      single sort it qflag yi yo hdr recs = Ok b -> In (r, g) (snd b) -> In g (fst b).
    Proof.
      unfold single. intros H Hin.
      apply bind_Ok in H. destruct H as (m1 & Hm1 & H).
      apply bind_Ok in H. destruct H as (m2 & Hm2 & H). inversion H; subst b. clear H.
      unfold sorted_bam in *. cbn [fst snd] in *.
      apply (write_rg _ r). eapply Permutation_in; [apply sort_perm|exact Hin].
    Qed.

    Lemma single_is_sorted yi yo b :
      single sort it qflag yi yo hdr recs = Ok b -> exists l, snd b = sort l.
    Proof.
      unfold single. intros H.
      apply bind_Ok in H. destruct H as (m1 & Hm1 & H).
      apply bind_Ok in H. destruct H as (m2 & Hm2 & H). inversion H; subst b. clear H.
      unfold sorted_bam. cbn [snd]. eauto.
    Qed.
  End Single.

  (* ---- contig per process *)
  Hypothesis merge_perm : forall bs, Permutation (snd (merge bs)) (flat_map snd bs).
  Hypothesis merge_rg : forall bs b, In b bs -> incl (fst b) (fst (merge bs)).

  Definition job_recs (o : option bam) : list orec := match o with Some b => snd b | None => [] end.

  Lemma somes_recs (l : list (option bam)) : flat_map snd (somes l) = flat_map job_recs l.
  Proof.
    unfold somes. rewrite flat_map_flat_map. apply flat_map_ext. intros [b|]; cbn [flat_map job_recs]; [apply app_nil_r|reflexivity].
  Qed.

  Section Multi.
    Variables (hdr : list (Z * Z)) (recs : list rec) (in_rgs : list Z).
    Hypothesis hdr_nodup : NoDup (map fst hdr).
    Hypothesis recs_placed : forall r, In r recs -> placed_in (map fst hdr) r = true.

    (* the records of a job file are those of the molecules of its tasks *)
    Lemma job_written yi yo cs o :
      job sort it qflag yi yo recs cs = Ok o ->
      exists mss, mapM (fun c => mol_iter it qflag yi yo (fetch c recs)) cs = Ok mss /\
                  Permutation (job_recs o) (flat_map write mss).
    Proof.
      unfold job. intros H. apply bind_Ok in H. destruct H as (mss & Hmss & H). inversion H; subst o. clear H.
      exists mss. split; [exact Hmss|].
      rewrite <- write_concat. destruct (concat mss) as [|m ms] eqn:E.
      - cbn [job_recs]. apply Permutation_refl.
      - cbn [job_recs]. unfold sorted_bam. cbn [snd]. apply sort_perm.
    Qed.

    Lemma job_conserve cs o :
      pre_stream qflag recs ->
      job sort it qflag true true recs cs = Ok o ->
      Permutation (map key (map fst (job_recs o)))
                  (flat_map (fun c => nkeys (expected qflag (fetch c recs))) cs).
    Proof.
      intros Hpre H. destruct (job_written _ _ _ _ H) as (mss & Hmss & HP).
      eapply Permutation_trans; [apply Permutation_map, Permutation_map, HP|].
      apply mapM_Ok in Hmss. clear H HP.
      induction Hmss as [|c ms cs mss Hc _ IH]; [constructor|].
      cbn [flat_map]. rewrite !map_app. apply Permutation_app; [|exact IH].
      apply mol_iter_conserve; [apply pre_stream_filter; exact Hpre|exact Hc].
    Qed.

    Lemma jobs_conserve : forall jobs outs,
      pre_stream qflag recs ->
      Forall2 (fun j o => job sort it qflag true true recs j = Ok o) jobs outs ->
      Permutation (map key (map fst (flat_map job_recs outs)))
                  (flat_map (fun c => nkeys (expected qflag (fetch c recs))) (concat jobs)).
    Proof.
      intros jobs outs Hpre H. induction H as [|j o jobs outs Hj _ IH]; [constructor|].
      cbn [flat_map concat]. rewrite !map_app, flat_map_app.
      apply Permutation_app; [apply job_conserve; assumption|exact IH].
    Qed.

    (* any completion order of the jobs *)
    Lemma multi_conserve outs done :
      pre_stream qflag recs ->
      job_outputs sort it qflag true true hdr recs = Ok outs ->
      Permutation done outs ->
      Permutation (map key (map fst (snd (multi_merge merge in_rgs done)))) (nkeys (expected qflag recs)).
    Proof.
      intros Hpre H Hdone. unfold job_outputs in H. apply mapM_Ok in H.
      unfold multi_merge.
      eapply Permutation_trans; [apply Permutation_map, Permutation_map, merge_perm|].
      cbn [flat_map snd app]. rewrite somes_recs.
      eapply Permutation_trans; [apply Permutation_map, Permutation_map, perm_flat_map, Hdone|].
      eapply Permutation_trans; [apply (jobs_conserve _ _ Hpre H)|].
      rewrite <- nkeys_flat_map, <- expected_flat_map.
      apply nkeys_perm, expected_perm, fetch_jobs; assumption.
    Qed.

    Lemma multi_rg yi yo outs done r g :
      job_outputs sort it qflag yi yo hdr recs = Ok outs ->
      Permutation done outs ->
      In (r, g) (snd (multi_merge merge in_rgs done)) -> In g (fst (multi_merge merge in_rgs done)).
    Proof.
      intros H Hdone Hin. unfold job_outputs in H. apply mapM_Ok in H. unfold multi_merge in *.
      apply (Permutation_in _ (merge_perm _)) in Hin. cbn [flat_map snd app] in Hin.
      apply in_flat_map in Hin. destruct Hin as (b & Hb & Hin).
      apply (merge_rg _ b); [right; exact Hb|].
      unfold somes in Hb. apply in_flat_map in Hb. destruct Hb as ([b'|] & Ho & Hb'); [|destruct Hb'].
      destruct Hb' as [<-|[]].
      apply (Permutation_in _ Hdone) in Ho.
      (* b' is the output of one of the jobs *)
      assert (Hex : exists j, job sort it qflag yi yo recs j = Ok (Some b')).
      { clear -H Ho. induction H as [|j o jobs outs Hj _ IH]; [destruct Ho|].
        destruct Ho as [->|Ho]; [eauto|apply IH; exact Ho]. }
      destruct Hex as (j & Hj). unfold job in Hj. apply bind_Ok in Hj. destruct Hj as (mss & _ & Hj).
      destruct (concat mss) as [|m ms] eqn:E; [discriminate|]. inversion Hj; subst b'. clear Hj.
      unfold sorted_bam in *. cbn [fst snd] in *.
      apply (write_rg _ r). eapply Permutation_in; [apply sort_perm|exact Hin].
    Qed.

    (* --no_rejects, contig per process: F gives the fragments of each task's stream *)
    Lemma job_no_rejects (F : cname -> list frag) cs o :
      (forall c, In c cs -> fragments qflag (fetch c recs) = Ok (F c)) ->
      job sort it qflag false true recs cs = Ok o ->
      Permutation (map fst (job_recs o)) (flat_map (fun c => flat_map frag_recs (filter valid (F c))) cs).
    Proof.
      intros HF H. destruct (job_written _ _ _ _ H) as (mss & Hmss & HP).
      eapply Permutation_trans; [apply Permutation_map, HP|].
      apply mapM_Ok in Hmss. clear H HP.
      induction Hmss as [|c ms cs mss Hc _ IH]; [constructor|].
      cbn [flat_map]. rewrite !map_app. apply Permutation_app.
      - eapply mol_iter_no_rejects; [apply HF; left; reflexivity|exact Hc].
      - apply IH. intros x Hx. apply HF. right. exact Hx.
    Qed.

    Lemma multi_no_rejects (F : cname -> list frag) outs done :
      (forall c, fragments qflag (fetch c recs) = Ok (F c)) ->
      job_outputs sort it qflag false true hdr recs = Ok outs ->
      Permutation done outs ->
      Permutation (map fst (snd (multi_merge merge in_rgs done)))
                  (flat_map (fun c => flat_map frag_recs (filter valid (F c)))
                            (concat (contig_jobs (contigs_with_reads hdr recs)))).
    Proof.
      intros HF H Hdone. unfold job_outputs in H. apply mapM_Ok in H. unfold multi_merge.
      eapply Permutation_trans; [apply Permutation_map, merge_perm|].
      cbn [flat_map snd app]. rewrite somes_recs.
      eapply Permutation_trans; [apply Permutation_map, perm_flat_map, Hdone|].
      clear Hdone. generalize dependent (contig_jobs (contigs_with_reads hdr recs)). intros jobs H.
      induction H as [|j o jobs outs Hj _ IH]; [constructor|].
      cbn [flat_map concat]. rewrite !map_app, flat_map_app.
      apply Permutation_app; [|exact IH].
      apply job_no_rejects; [|exact Hj]. intros c _. apply HF.
    Qed.
  End Multi.
End Pipelines.

(* ---------------------------------------------------------------- no exception with sane flags *)
Lemma dset_In k v d k' v' : In (k', v') (dset k v d) -> (k', v') = (k', v) \/ In (k', v') d.
Proof.
  induction d as [|[k0 v0] d IH]; cbn [dset].
  - intros [H|[]]. inversion H; subst. left. reflexivity.
  - destruct (k =? k0).
    + intros [H|H]; [inversion H; subst; left; reflexivity|right; right; exact H].
    + intros [H|H]; [right; left; exact H|]. destruct (IH H) as [H'|H']; [left; exact H'|right; right; exact H'].
Qed.

(* slot 0 of every emitted pair never carries the read-2 bit *)
Definition slot0_ok (p : pairT) : Prop := forall a, fst p = Some a -> r_read2 a = false.

Lemma pair_loop_slot0 : forall rs c1 c2 ps,
  (forall r, In r rs -> wf_flags r = true) ->
  (forall k v, In (k, v) c1 -> r_read2 v = false) ->
  pair_loop rs c1 c2 = Ok ps -> Forall slot0_ok ps.
Proof.
  induction rs as [|r rs IH]; intros c1 c2 ps Hwf Hc1 Hrun; cbn [pair_loop] in Hrun.
  - inversion Hrun; subst. unfold flush. apply Forall_app. split; apply Forall_forall; intros p Hp;
      apply in_map_iff in Hp; destruct Hp as ([k v] & <- & Hin); intros a Ha; cbn [fst snd] in Ha.
    + inversion Ha; subst. eapply Hc1; exact Hin.
    + discriminate.
  - assert (Hwf' : forall x, In x rs -> wf_flags x = true) by (intros x Hx; apply Hwf; right; exact Hx).
    assert (Hr := Hwf r (or_introl eq_refl)). unfold wf_flags in Hr.
    destruct (r_sec r); [eapply IH; eassumption|].
    destruct (r_paired r) eqn:Ep; cbn [negb] in Hrun.
    2:{ apply cons_res_Ok in Hrun. destruct Hrun as (ps' & Hrun & ->). constructor; [|eapply IH; eassumption].
        intros a Ha. cbn [fst] in Ha. inversion Ha; subst. apply negb_true_iff. exact Hr. }
    assert (Hc1' : r_read1 r = true -> forall k v, In (k, v) (dset (r_name r) r c1) -> r_read2 v = false).
    { intros E1 k v Hin. apply dset_In in Hin. destruct Hin as [Hin|Hin]; [|eapply Hc1; exact Hin].
      inversion Hin; subst. rewrite E1 in Hr. destruct (r_read2 r); [discriminate|reflexivity]. }
    destruct (negb (r_mate_unmapped r) && cname_eqb (r_contig r) (r_next r)).
    + destruct (r_read1 r) eqn:E1.
      * destruct (dget (r_name r) (dset (r_name r) r c1)) as [a|] eqn:Ea;
          [|eapply IH; [exact Hwf'|exact (Hc1' eq_refl)|exact Hrun]].
        destruct (dget (r_name r) c2) as [b|] eqn:Eb;
          [|eapply IH; [exact Hwf'|exact (Hc1' eq_refl)|exact Hrun]].
        apply cons_res_Ok in Hrun. destruct Hrun as (ps' & Hrun & ->). constructor.
        -- intros x Hx. cbn [fst] in Hx. inversion Hx; subst. apply dget_Some_In in Ea. eapply (Hc1' eq_refl); exact Ea.
        -- eapply IH; [exact Hwf'| |exact Hrun]. intros k v Hin. apply (Hc1' eq_refl k v).
           apply (ddel_incl (r_name r)). exact Hin.
      * destruct (dget (r_name r) c1) as [a|] eqn:Ea; [|eapply IH; eassumption].
        destruct (dget (r_name r) (dset (r_name r) r c2)) as [b|] eqn:Eb; [|eapply IH; eassumption].
        apply cons_res_Ok in Hrun. destruct Hrun as (ps' & Hrun & ->). constructor.
        -- intros x Hx. cbn [fst] in Hx. inversion Hx; subst. apply dget_Some_In in Ea. eapply Hc1; exact Ea.
        -- eapply IH; [exact Hwf'| |exact Hrun]. intros k v Hin. apply (Hc1 k v).
           apply (ddel_incl (r_name r)). exact Hin.
    + destruct (r_read1 r) eqn:E1.
      * apply cons_res_Ok in Hrun. destruct Hrun as (ps' & Hrun & ->). constructor; [|eapply IH; eassumption].
        intros x Hx. cbn [fst] in Hx. inversion Hx; subst. cbn. destruct (r_read2 r); [discriminate|reflexivity].
      * destruct (r_read2 r); [|discriminate].
        apply cons_res_Ok in Hrun. destruct Hrun as (ps' & Hrun & ->). constructor; [|eapply IH; eassumption].
        intros x Hx. cbn [fst] in Hx. discriminate.
Qed.

Lemma mkfrag_total p : slot0_ok p -> exists f, mkfrag p = Ok f.
Proof.
  destruct p as [[a|] b]; cbn [mkfrag]; intros H; [|eauto].
  rewrite (H a eq_refl). cbn [andb]. eauto.
Qed.

Lemma fragments_total qflag stream :
  (forall r, In r stream -> wf_flags r = true) -> exists fs, fragments qflag stream = Ok fs.
Proof.
  intros Hwf. unfold fragments. destruct qflag.
  - unfold pairing_qflag. cbn [bind]. apply mapM_total. intros p Hp.
    apply in_map_iff in Hp. destruct Hp as (r & <- & _). apply mkfrag_total.
    intros a Ha. destruct (r_read2 r) eqn:E; cbn [fst] in Ha; [discriminate|]. inversion Ha; subst. exact E.
  - unfold pairing. destruct (pair_loop_total stream [] [] Hwf) as (ps & Hps). rewrite Hps. cbn [bind].
    apply mapM_total. intros p Hp. apply mkfrag_total.
    assert (HF := pair_loop_slot0 stream [] [] ps Hwf (fun k v (H : In (k, v) []) => match H with end) Hps).
    rewrite Forall_forall in HF. apply HF. exact Hp.
Qed.

Lemma wf_fetch_all names recs :
  (forall r, In r recs -> wf_flags r = true) -> forall r, In r (fetch_all names recs) -> wf_flags r = true.
Proof.
  intros H r Hr. unfold fetch_all in Hr. apply in_flat_map in Hr. destruct Hr as (c & _ & Hr).
  apply filter_In in Hr. apply H. tauto.
Qed.

Lemma single_total sort it qflag yi yo hdr recs :
  (forall r, In r recs -> wf_flags r = true) -> exists b, single sort it qflag yi yo hdr recs = Ok b.
Proof.
  intros Hwf. unfold single, mol_iter.
  destruct (fragments_total qflag (fetch None recs)) as (f1 & ->).
  { intros r Hr. apply filter_In in Hr. apply Hwf. tauto. }
  destruct (fragments_total qflag (fetch_all (map fst hdr) recs)) as (f2 & ->).
  { apply wf_fetch_all. exact Hwf. }
  cbn [bind]. eauto.
Qed.

Lemma multi_total sort merge it qflag yi yo in_rgs hdr recs :
  (forall r, In r recs -> wf_flags r = true) -> exists b, multi sort merge it qflag yi yo in_rgs hdr recs = Ok b.
Proof.
  intros Hwf. unfold multi, job_outputs.
  destruct (mapM_total (job sort it qflag yi yo recs) (contig_jobs (contigs_with_reads hdr recs))) as (outs & ->).
  - intros cs _. unfold job.
    destruct (mapM_total (fun c => mol_iter it qflag yi yo (fetch c recs)) cs) as (mss & ->).
    + intros c _. unfold mol_iter. destruct (fragments_total qflag (fetch c recs)) as (fs & ->).
      * intros r Hr. apply filter_In in Hr. apply Hwf. tauto.
      * cbn [bind]. eauto.
    + cbn [bind]. eauto.
  - cbn [bind]. eauto.
Qed.

(* ---------------------------------------------------------------- the boolean precondition implies the propositional one *)
Lemma pk_eqb_eq a b : pk_eqb a b = true <-> a = b.
Proof.
  destruct a as [x p], b as [y q]. unfold pk_eqb. cbn [fst snd].
  rewrite andb_true_iff, Z.eqb_eq, Bool.eqb_true_iff. split; [intros [-> ->]; reflexivity|intros H; inversion H; auto].
Qed.

Lemma nodup_pk_NoDup l : nodup_pk l = true -> NoDup l.
Proof.
  induction l as [|a l IH]; cbn [nodup_pk]; intros H; [constructor|].
  apply andb_true_iff in H. destruct H as (Hn & Hl). constructor; [|apply IH, Hl].
  intros Hin. apply negb_true_iff in Hn. assert (existsb (pk_eqb a) l = true); [|congruence].
  apply existsb_exists. exists a. split; [exact Hin|apply pk_eqb_eq; reflexivity].
Qed.

Lemma nodupZ_NoDup l : nodupZ l = true -> NoDup l.
Proof.
  induction l as [|a l IH]; cbn [nodupZ]; intros H; [constructor|].
  apply andb_true_iff in H. destruct H as (Hn & Hl). constructor; [|apply IH, Hl].
  intros Hin. apply negb_true_iff in Hn. assert (existsb (Z.eqb a) l = true); [|congruence].
  apply existsb_exists. exists a. split; [exact Hin|apply Z.eqb_refl].
Qed.

Lemma pre_sound hdr recs qflag : pre hdr recs = true ->
  pre_stream qflag recs /\ NoDup (map fst hdr) /\ (forall r, In r recs -> placed_in (map fst hdr) r = true)
  /\ (forall r, In r recs -> wf_flags r = true).
Proof.
  unfold pre. rewrite !andb_true_iff. intros (((Hwf & Hnc) & Hh) & Hp).
  rewrite forallb_forall in Hwf, Hp. repeat split; try assumption.
  - unfold pre_stream. destruct qflag; [exact Hwf|]. apply nodup_pk_NoDup. exact Hnc.
  - apply nodupZ_NoDup. exact Hh.
Qed.

(* mate number: with sane flags a paired record keeps its mate bits *)
Lemma norm_mate r : wf_flags r = true -> r_paired r = true ->
  r_read1 (norm r) = r_read1 r /\ r_read2 (norm r) = r_read2 r.
Proof.
  unfold wf_flags, norm. intros H Hp. rewrite Hp in *.
  destruct (r_read1 r) eqn:E1, (r_read2 r) eqn:E2; cbn in *; try discriminate; rewrite ?E1, ?E2; auto.
Qed.

Lemma norm_core r : core (norm r) = core r.
Proof. unfold norm. destruct (r_paired r), (r_read1 r); reflexivity. Qed.

(* ---------------------------------------------------------------- D8 / D30: the unrepaired code *)
Lemma jobs_old_refuted :
  (* [small; small; LARGE]: the large contig is dropped;  [LARGE; small]: the small one is dropped;
     [small; '*']: the unplaced bin is processed twice *)
  ~ In (Some 3) (concat (contig_jobs_old [(Some 1, 500); (Some 2, 600); (Some 3, 5000000)])) /\
  ~ In (Some 2) (concat (contig_jobs_old [(Some 1, 5000000); (Some 2, 600)])) /\
  concat (contig_jobs_old [(Some 1, 500); (None, 0)]) = [None; Some 1; None].
Proof.
  repeat split; vm_compute; intros H; repeat (destruct H as [H|H]; [discriminate H|]); exact H.
Qed.

Definition demo_r2 : rec :=
  mkRec 7 1 (Some 0) 10 (Some 0) true false true false false false 0 true 0.

Lemma qflag_old_refuted :
  wf_flags demo_r2 = true /\ bind (pairing_qflag_old [demo_r2]) (mapM mkfrag) = Raise 2.
Proof. split; reflexivity. Qed.

(* ---------------------------------------------------------------- the contracts of sort / merge are satisfiable *)
Lemma insert_by_perm {A} (le : A -> A -> bool) a : forall l, Permutation (insert_by le a l) (a :: l).
Proof.
  induction l as [|b l IH]; cbn [insert_by]; [apply Permutation_refl|].
  destruct (le a b); [apply Permutation_refl|].
  eapply Permutation_trans; [constructor; exact IH|]. apply perm_swap.
Qed.

Lemma isort_perm {A} (le : A -> A -> bool) : forall l, Permutation (isort le l) l.
Proof.
  induction l as [|a l IH]; cbn [isort fold_right]; [constructor|].
  eapply Permutation_trans; [apply insert_by_perm|]. constructor. exact IH.
Qed.

Lemma csort_perm l : Permutation (csort l) l.
Proof. apply isort_perm. Qed.

Lemma cmerge_perm bs : Permutation (snd (cmerge bs)) (flat_map snd bs).
Proof. apply csort_perm. Qed.

Lemma cmerge_rg bs b : In b bs -> incl (fst b) (fst (cmerge bs)).
Proof.
  intros Hb g Hg. unfold cmerge. cbn [fst]. apply In_dedupZ. apply in_flat_map. exists b. split; assumption.
Qed.

(* a concrete library: two contigs (one below, one above the threshold), a proper pair, a half-mapped pair,
   an orphan second read, an unpaired read, a secondary alignment, an unplaced unmapped pair *)
Definition demo_hdr : list (Z * Z) := [(0, 600); (1, 250000)].
Definition demo_recs : list rec :=
  [ mkRec 1 10 (Some 0) 5 (Some 0) true true false false false false 100 true 1;
    mkRec 2 10 (Some 0) 40 (Some 0) true false true false false false 100 true 1;
    mkRec 3 11 (Some 0) 50 (Some 0) true true false true false false 100 false 2;
    mkRec 4 11 (Some 0) 50 (Some 0) true false true false false false 100 false 2;
    mkRec 5 12 (Some 1) 7 (Some 1) true false true false false false 101 true 3;
    mkRec 6 13 (Some 1) 9 None false false false false false false 101 true 4;
    mkRec 7 10 (Some 1) 99 (Some 0) true true false false true false 100 true 1;
    mkRec 8 14 None (-1) None true true false true false false 102 false 5;
    mkRec 9 14 None (-1) None true false true true false false 102 false 5 ].

Lemma demo_pre : pre demo_hdr demo_recs = true.
Proof. reflexivity. Qed.

Definition demo_it := simple_iter cvalid cmkey None false.

Lemma demo_runs :
  (* default options: 8 primary records out of 9, single process and contig-per-process alike *)
  (exists b, single csort demo_it false true true demo_hdr demo_recs = Ok b /\
             map (fun o : orec => r_id (fst o)) (snd b) = [1; 2; 3; 4; 5; 6; 8; 9]) /\
  (exists b, multi csort cmerge demo_it false true true [] demo_hdr demo_recs = Ok b /\
             map (fun o : orec => r_id (fst o)) (snd b) = [1; 2; 3; 4; 5; 6; 8; 9]) /\
  (* --no_rejects: the two invalid fragments (half-mapped pair, unmapped pair) are gone *)
  (exists b, single csort demo_it false false true demo_hdr demo_recs = Ok b /\
             map (fun o : orec => r_id (fst o)) (snd b) = [1; 2; 5; 6]) /\
  contig_jobs (contigs_with_reads demo_hdr demo_recs) = [[None]; [Some 0]; [Some 1]].
Proof.
  repeat split; try (eexists; split; vm_compute; reflexivity). 
Qed.
