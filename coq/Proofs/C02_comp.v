(* C02 proofs, part 3: composite strategies (Model/C02Comp.v). *)
From Coq Require Import ZArith List Bool Lia ZifyBool PeanoNat.
Import ListNotations.
From SCMO Require Import Lib.Val Lib.PySlice Lib.PySliceFacts Model.C02Defs Model.C02Comp Model.C02Protocols
     Gen.GenLayouts Gen.GenComp Model.C02 Proofs.C02 Proofs.C02_b.
Open Scope Z_scope.

(* ------------------------------------------------------------------ substring search *)
Lemma prefixb_iff p s : prefixb p s = true <-> exists t, s = p ++ t.
Proof.
  revert s. induction p as [|x p IH]; intros s; cbn [prefixb].
  - split; [intros _; exists s; reflexivity|reflexivity].
  - destruct s as [|y s]; [split; [discriminate|intros [t H]; discriminate]|].
    rewrite andb_true_iff, IH. split.
    + intros [Hxy [t ->]]. exists t. cbn [app]. f_equal. lia.
    + intros [t H]. cbn [app] in H. inversion H; subst. split; [lia|eauto].
Qed.

(* p occurs in s at position j *)
Definition occ (p s : list Z) (j : nat) : bool := prefixb p (skipn j s).

Lemma occ_iff p s j : (j <= length s)%nat ->
  (occ p s j = true <-> exists a b, s = a ++ p ++ b /\ length a = j).
Proof.
  intros Hj. unfold occ. rewrite prefixb_iff. split.
  - intros [t Ht]. exists (firstn j s), t. split; [rewrite <- Ht; symmetry; apply firstn_skipn|].
    rewrite firstn_length. lia.
  - intros (a & b & -> & <-). exists b. rewrite skipn_app, skipn_all, Nat.sub_diag. reflexivity.
Qed.

(* str.find: the FIRST occurrence, or none at all *)
Lemma find_sub_some p s i : find_sub p s = Some i ->
  (i <= length s)%nat /\ occ p s i = true /\ forall j, (j < i)%nat -> occ p s j = false.
Proof.
  revert i. induction s as [|y t IH]; intros i H; cbn [find_sub] in H.
  - destruct (prefixb p []) eqn:E; [|discriminate]. inversion H; subst.
    repeat split; [cbn; lia|exact E|intros j Hj; lia].
  - destruct (prefixb p (y :: t)) eqn:E.
    + inversion H; subst. repeat split; [lia|exact E|intros j Hj; lia].
    + destruct (find_sub p t) as [k|] eqn:Ek; [|discriminate]. inversion H; subst.
      destruct (IH k eq_refl) as (Hk & Ho & Hm). repeat split.
      * cbn [length]. lia.
      * exact Ho.
      * intros [|j] Hj; [exact E|]. apply Hm. lia.
Qed.

Lemma find_sub_none p s : find_sub p s = None -> forall j, (j <= length s)%nat -> occ p s j = false.
Proof.
  induction s as [|y t IH]; intros H j Hj; cbn [find_sub] in H.
  - destruct (prefixb p []) eqn:E; [discriminate|]. cbn [length] in Hj. replace j with 0%nat by lia. exact E.
  - destruct (prefixb p (y :: t)) eqn:E; [discriminate|].
    destruct (find_sub p t) eqn:Ek; [discriminate|].
    destruct j as [|j]; [exact E|]. apply (IH eq_refl). cbn [length] in Hj. lia.
Qed.

Lemma contains_iff p s : contains p s = true <-> exists a b, s = a ++ p ++ b.
Proof.
  unfold contains. destruct (find_sub p s) as [i|] eqn:E; split; try discriminate; try reflexivity.
  - intros _. destruct (find_sub_some _ _ _ E) as (Hi & Ho & _).
    apply occ_iff in Ho; [|assumption]. destruct Ho as (a & b & H & _). eauto.
  - intros (a & b & H). pose proof (find_sub_none _ _ E (length a)) as Hn.
    assert (Hl : (length a <= length s)%nat) by (rewrite H, app_length; lia).
    specialize (Hn Hl). assert (occ p s (length a) = true); [|congruence].
    apply occ_iff; [assumption|]. eauto.
Qed.

(* ------------------------------------------------------------------ suffix trimmer  re.sub('[chars]*$', '') *)
Lemma dwe_nil_iff f l : drop_while_end f l = [] <-> forallb f l = true.
Proof.
  induction l as [|x t IH]; cbn [drop_while_end forallb]; [tauto|].
  destruct (drop_while_end f t) as [|y r] eqn:E; cbn [is_nil andb].
  - destruct (f x); cbn [andb]; [|split; discriminate].
    split; [intros _; apply IH; reflexivity|reflexivity].
  - split; [discriminate|]. intros H. apply andb_true_iff in H. destruct H as [_ H].
    apply IH in H. discriminate.
Qed.

(* l = kept ++ dropped, the dropped suffix consists of chars, the kept part does not end in one *)
Lemma dwe_spec f l :
  exists t, l = drop_while_end f l ++ t /\ forallb f t = true /\
            (drop_while_end f l = [] \/ exists a x, drop_while_end f l = a ++ [x] /\ f x = false).
Proof.
  induction l as [|x t IH]; cbn [drop_while_end].
  - exists []. repeat split. left. reflexivity.
  - destruct IH as (u & Hu & Hf & Hend).
    destruct (drop_while_end f t) as [|y r] eqn:E; cbn [is_nil andb].
    + destruct (f x) eqn:Ex.
      * exists (x :: t). repeat split; [|left; reflexivity].
        cbn [forallb]. rewrite Ex. cbn [app] in Hu. subst u. exact Hf.
      * exists u. repeat split; [cbn [app]; f_equal; exact Hu|exact Hf|].
        right. exists [], x. split; [reflexivity|exact Ex].
    + exists u. repeat split; [cbn [app] in *; f_equal; exact Hu|exact Hf|].
      right. destruct Hend as [Hn|(a & z & Ha & Hz)]; [discriminate|].
      exists (x :: a), z. split; [cbn [app]; f_equal; exact Ha|exact Hz].
Qed.

(* it is the LONGEST such suffix: any other split with a suffix of chars keeps at least as much *)
Lemma dwe_longest f l a t : l = a ++ t -> forallb f t = true -> (length (drop_while_end f l) <= length a)%nat.
Proof.
  revert a. induction l as [|x l' IH]; intros a H Ht; cbn [drop_while_end]; [cbn; lia|].
  destruct a as [|y a'].
  - cbn [app] in H. subst t. assert (Hn : drop_while_end f (x :: l') = []) by (apply dwe_nil_iff; exact Ht).
    cbn [drop_while_end] in Hn. rewrite Hn. cbn. lia.
  - cbn [app] in H. inversion H; subst. specialize (IH a' eq_refl Ht).
    destruct (is_nil _ && f y); cbn [length]; lia.
Qed.

Lemma dwe_prefix f l : exists k, drop_while_end f l = firstn k l /\ (k <= length l)%nat.
Proof.
  destruct (dwe_spec f l) as (t & Ht & _). remember (drop_while_end f l) as d eqn:Ed. clear Ed.
  exists (length d). subst l. split.
  - rewrite firstn_app, Nat.sub_diag, firstn_all. cbn [firstn]. rewrite app_nil_r. reflexivity.
  - rewrite app_length. lia.
Qed.

(* ------------------------------------------------------------------ poly-T pruning *)
Lemma run_len_spec c s :
  firstn (run_len c s) s = repeat c (run_len c s) /\
  (forall x, nth_error s (run_len c s) = Some x -> x <> c) /\ (run_len c s <= length s)%nat.
Proof.
  induction s as [|x t IH]; cbn [run_len].
  - repeat split; [intros x H; discriminate|cbn; lia].
  - destruct (x =? c) eqn:E.
    + destruct IH as (H1 & H2 & H3). repeat split.
      * cbn [firstn repeat]. f_equal; [lia|exact H1].
      * intros y Hy. cbn [nth_error] in Hy. apply H2. exact Hy.
      * cbn [length]. lia.
    + repeat split; [intros y Hy; cbn [nth_error] in Hy; inversion Hy; subst; lia|cbn [length]; lia].
Qed.

(* the loop's value: the maximal run of c, but a read made of c only keeps its last base *)
Lemma prune_pos_rule c s : prune_pos c s = Nat.min (run_len c s) (length s - 1).
Proof.
  induction s as [|x t IH]; [reflexivity|]. cbn [prune_pos run_len].
  destruct (x =? c) eqn:E; [|cbn [length]; lia].
  destruct t as [|y u]; [reflexivity|]. rewrite IH. cbn [length]. lia.
Qed.

Lemma prune_pos_le c s : (prune_pos c s <= length s)%nat.
Proof. rewrite prune_pos_rule. lia. Qed.

(* ------------------------------------------------------------------ stretches *)
Definition same_tags (e o : orec) : Prop :=
  o_bc o = o_bc e /\ o_BC o = o_BC e /\ o_bi o = o_bi e /\ o_RX o = o_RX e /\ o_RQ o = o_RQ e /\
  o_rS o = o_rS e /\ o_lh o = o_lh e /\ o_lq o = o_lq e.

(* o's sequence and qualities are the SAME stretch [a, a+k) of e's *)
Definition stretch (e o : orec) : Prop :=
  exists a k, o_seq o = sub a k (o_seq e) /\ o_qual o = sub a k (o_qual e).

Lemma same_tags_refl e : same_tags e e.
Proof. repeat split. Qed.
Lemma same_tags_with_sq s q e : same_tags e (with_sq s q e).
Proof. repeat split. Qed.

Lemma sub_whole {A} (l : list A) k : (length l <= k)%nat -> sub 0 k l = l.
Proof. intros H. unfold sub. cbn [skipn]. apply firstn_all2. exact H. Qed.

Lemma stretch_refl e : stretch e e.
Proof.
  exists 0%nat, (Nat.max (length (o_seq e)) (length (o_qual e))). split; symmetry; apply sub_whole; lia.
Qed.

Lemma sub_from {A} (l : list A) a k : (length l <= a + k)%nat -> sub a k l = skipn a l.
Proof. intros H. unfold sub. apply firstn_all2. rewrite skipn_length. lia. Qed.

Lemma stretch_prune c e : stretch e (prune_rec c e).
Proof.
  exists (prune_pos c (o_seq e)), (Nat.max (length (o_seq e)) (length (o_qual e))).
  unfold prune_rec, with_sq. cbn [o_seq o_qual]. split; symmetry; apply sub_from; lia.
Qed.

Lemma stretch_firstn k e s q : s = firstn k (o_seq e) -> q = firstn k (o_qual e) -> stretch e (with_sq s q e).
Proof. intros -> ->. exists 0%nat, k. split; reflexivity. Qed.

(* a stretch of equally long strings is equally long and index aligned *)
Lemma stretch_aligned e o : stretch e o -> length (o_seq e) = length (o_qual e) ->
  length (o_seq o) = length (o_qual o) /\
  exists a, forall j x, nth_error (o_seq o) j = Some x ->
     nth_error (o_seq e) (a + j) = Some x /\ nth_error (o_qual o) j = nth_error (o_qual e) (a + j).
Proof.
  intros (a & k & Hs & Hq) Hl. rewrite Hs, Hq. split; [rewrite !sub_length; lia|].
  exists a. intros j x Hj. rewrite sub_nth_error in Hj. rewrite sub_nth_error.
  destruct (j <? k)%nat; [|discriminate]. split; [exact Hj|reflexivity].
Qed.

(* composing with the arm's own emitted stretch: a stretch of (skipn ins r) is a stretch of r from ins on *)
Lemma sub_skipn {A} (l : list A) n a k : sub a k (skipn n l) = sub (n + a) k l.
Proof. unfold sub. rewrite <- skipn_add. reflexivity. Qed.

(* ------------------------------------------------------------------ arms *)
Lemma arm_spec a P lookup recs out :
  arm_positions a = Some P -> run_arm a lookup recs = Accept out ->
  expected P (arm_rxb a) lookup recs = Some out /\ p_min P <= Z.of_nat (length recs) <= p_max P.
Proof.
  destruct a as [L W|L W]; cbn [arm_positions run_arm arm_rxb]; intros HP H.
  - apply (contig_spec _ _ _ _ _ _ HP H).
  - apply (scattered_spec _ _ _ _ _ _ HP H).
Qed.

(* ------------------------------------------------------------------ read-2 trimming of TCHIC *)
Lemma cut_at_inv p s0 q0 sq k :
  fst sq = firstn k s0 -> (forall m, (m <= k)%nat -> firstn m (snd sq) = firstn m q0) -> (k <= length s0)%nat ->
  exists k', (k' <= k)%nat /\ fst (cut_at p sq) = firstn k' s0 /\
             (forall m, (m <= k')%nat -> firstn m (snd (cut_at p sq)) = firstn m q0).
Proof.
  intros Hs Hq Hk. unfold cut_at.
  destruct (find_sub p (fst sq)) as [i|] eqn:E.
  - destruct (find_sub_some _ _ _ E) as (Hi & _ & _). rewrite Hs, firstn_length in Hi.
    exists i. cbn [fst snd]. split; [lia|]. split.
    + rewrite Hs, firstn_firstn. f_equal. lia.
    + intros m Hm. rewrite firstn_firstn. replace (Nat.min m i) with m by lia. apply Hq. lia.
  - exists k. split; [lia|]. split; [exact Hs|exact Hq].
Qed.

Lemma fold_cuts_inv cuts s0 q0 sq k :
  fst sq = firstn k s0 -> (forall m, (m <= k)%nat -> firstn m (snd sq) = firstn m q0) -> (k <= length s0)%nat ->
  exists k', (k' <= k)%nat /\
    fst (fold_left (fun acc p => cut_at p acc) cuts sq) = firstn k' s0 /\
    (forall m, (m <= k')%nat -> firstn m (snd (fold_left (fun acc p => cut_at p acc) cuts sq)) = firstn m q0).
Proof.
  revert sq k. induction cuts as [|p t IH]; intros sq k Hs Hq Hk; cbn [fold_left].
  - exists k. split; [lia|]. split; assumption.
  - destruct (cut_at_inv p s0 q0 sq k Hs Hq Hk) as (k1 & Hk1 & Hs1 & Hq1).
    destruct (IH (cut_at p sq) k1 Hs1 Hq1 ltac:(lia)) as (k2 & Hk2 & Hs2 & Hq2).
    exists k2. split; [lia|]. split; assumption.
Qed.

Lemma pyslice_drop_last {A} d (l : list A) : 0 < d ->
  pyslice (mkSlice None (Some (- d))) l = firstn (length l - Z.to_nat d) l.
Proof.
  intros Hd. unfold pyslice, slice_lo, slice_hi, adjust. cbn [ps_start ps_stop].
  destruct (- d <? 0) eqn:E; [|lia]. unfold sub. cbn [Z.to_nat skipn]. f_equal. lia.
Qed.

Lemma pyslice_from_none_prefix {A} b (l : list A) : exists k, pyslice (mkSlice None b) l = firstn k l /\ (k <= length l)%nat.
Proof.
  unfold pyslice, slice_lo. cbn [ps_start adjust]. unfold sub. cbn [Z.to_nat skipn].
  set (n := Z.of_nat (length l)). pose proof (slice_hi_range n (mkSlice None b) ltac:(lia)) as Hr.
  exists (Z.to_nat (slice_hi n (mkSlice None b) - 0)). split; [reflexivity|lia].
Qed.

(* sequence and qualities of read 2 are cut at the SAME index: alignment is preserved *)
Lemma trim_r2_prefix T s q :
  let m := length (fst (trim_r2 T s q)) in
  trim_r2 T s q = (firstn m s, firstn m q) /\ (m <= length s)%nat.
Proof.
  unfold trim_r2.
  destruct (fold_cuts_inv (t_cuts T) s q (s, q) (length s)) as (k1 & Hk1 & Hf & Hfq).
  { cbn [fst]. symmetry. apply firstn_all. }
  { intros m _. reflexivity. }
  { lia. }
  set (sq := fold_left (fun acc p => cut_at p acc) (t_cuts T) (s, q)) in *.
  rewrite Hf.
  destruct (dwe_prefix (in_chars (t_trim_chars T)) (firstn k1 s)) as (k2 & -> & Hk2).
  destruct (pyslice_from_none_prefix (Some (- t_trim_drop T)) (firstn k2 (firstn k1 s))) as (k3 & -> & Hk3).
  rewrite !firstn_firstn in *. rewrite !firstn_length in *. cbn [fst]. rewrite !firstn_length.
  cbv zeta. split; [|lia].
  f_equal.
  - f_equal. lia.
  - apply Hfq. lia.
Qed.

(* the declared rule for the cut index: cut at the first poly-A / poly-G run, strip the longest
   suffix of G/A, drop 3 more *)
Lemma trim_r2_rule T s q : 0 < t_trim_drop T ->
  let s1 := fst (fold_left (fun acc p => cut_at p acc) (t_cuts T) (s, q)) in
  let s2 := drop_while_end (in_chars (t_trim_chars T)) s1 in
  fst (trim_r2 T s q) = firstn (length s2 - Z.to_nat (t_trim_drop T)) s2.
Proof.
  intros Hd. unfold trim_r2. cbn [fst]. cbv zeta. apply pyslice_drop_last. exact Hd.
Qed.

(* ------------------------------------------------------------------ DamID + transcriptome strategies *)
Definition lift (mx : list Z) (dt : option (list Z)) (o : orec) : crec := mkCR o mx dt None None None.

(* which arm wins, what is returned:
   both arms accept  -> the DamID arm's records (dt = Ambiguous), or - merging strategy - the pruned
                        transcriptome records updated with the DamID arm's tags;
   only DamID        -> its records, dt = DamID;   only transcriptome -> its records, read 1 poly-T pruned, dt = RNA *)
Theorem dual_spec D lkd lkt recs out Pd Pt :
  arm_positions (d_damid D) = Some Pd -> arm_positions (d_tx D) = Some Pt ->
  demux_dual D lkd lkt recs = Accept out ->
  length recs = 2%nat /\
  ((exists d t1 tr,
      expected Pd (arm_rxb (d_damid D)) lkd recs = Some d /\
      expected Pt (arm_rxb (d_tx D)) lkt recs = Some (t1 :: tr) /\
      ((d_merge D = false /\ out = map (lift (d_mx_damid D) (d_dt_both D)) d) \/
       (d_merge D = true /\
        out = map (fun p => lift (d_mx_damid D) None (merge_rec (fst p) (snd p)))
                  (combine (prune_rec (d_prune D) t1 :: tr) d))))
   \/ (exists d, expected Pd (arm_rxb (d_damid D)) lkd recs = Some d /\
                 run_arm (d_tx D) lkt recs = Reject /\
                 out = map (lift (d_mx_damid D) (Some (d_dt_damid D))) d)
   \/ (exists t1 tr, expected Pt (arm_rxb (d_tx D)) lkt recs = Some (t1 :: tr) /\
                     run_arm (d_damid D) lkd recs = Reject /\
                     out = map (lift (d_mx_tx D) (Some (d_dt_tx D))) (prune_rec (d_prune D) t1 :: tr))).
Proof.
  intros HPd HPt H. unfold demux_dual in H.
  destruct (negb _) eqn:En in H; [discriminate|]. apply negb_false_iff in En.
  split; [lia|].
  destruct (run_arm (d_damid D) lkd recs) as [d| |kd] eqn:Ed; cbn [try_arm bind] in H; try discriminate.
  - destruct (arm_spec _ _ _ _ _ HPd Ed) as [Hed _].
    destruct (run_arm (d_tx D) lkt recs) as [t| |kt] eqn:Et; cbn [bind] in H; try discriminate.
    + destruct (arm_spec _ _ _ _ _ HPt Et) as [Het _].
      destruct t as [|t1 tr]; [discriminate|]. cbn [bind] in H.
      left. exists d, t1, tr. split; [assumption|]. split; [assumption|].
      destruct (d_merge D); inversion H; subst; [right|left]; split; reflexivity.
    + right. left. exists d. inversion H; subst. repeat split; assumption.
  - destruct (run_arm (d_tx D) lkt recs) as [t| |kt] eqn:Et; cbn [bind] in H; try discriminate.
    destruct (arm_spec _ _ _ _ _ HPt Et) as [Het _].
    destruct t as [|t1 tr]; [discriminate|]. cbn [bind] in H.
    right. right. exists t1, tr. inversion H; subst. repeat split; assumption.
Qed.

(* ------------------------------------------------------------------ TCHIC *)
Definition tchic_mk (T : tchic) (dt : list Z) (rx rr : option (list Z)) (o : orec) : crec :=
  mkCR o (t_mx T) (Some dt) rx rr None.

Theorem tchic_spec T lookup cs2 recs out P :
  positions_c (t_L T) (t_W T) = Some P ->
  demux_tchic T lookup cs2 recs = Accept out ->
  length recs = 2%nat /\
  exists e1 e2 bc0,
    expected P false lookup recs = Some [e1; e2] /\ cs2 (o_bi e1) = Some bc0 /\
    let eb := bc0 ++ t_suffix T in
    let rc2 := revcomp (t_comp T) (o_seq e2) in
    ((* transcriptome bleed-through: barcode + poly-T found in read 1 or in the reverse complement of read 2 *)
     (contains eb (o_seq e1) || contains eb rc2 = true /\
      let rx := if contains eb (o_seq e1) then extract_umi (t_umi_len T) (o_seq e1) eb
                else extract_umi (t_umi_len T) rc2 eb in
      let m := length (fst (trim_r2 T (o_seq e2) (o_qual e2))) in
      out = [tchic_mk T (t_dt_vasa T) rx None e1;
             tchic_mk T (t_dt_vasa T) rx None (with_sq (firstn m (o_seq e2)) (firstn m (o_qual e2)) e2)])
     \/
     (contains eb (o_seq e1) || contains eb rc2 = false /\
      contains (t_polyT T) (o_seq e1) || contains (t_polyT T) (o_seq e2) = false /\
      ((existsb (fun e => contains (fst e) (match snd e with
                                            | Some w => firstn (Z.to_nat w) (o_seq e1)
                                            | None => o_seq e1 end)) (t_t7 T) = true /\
        out = [tchic_mk T (t_dt_t7 T) None (Some (t_rr T)) e1; tchic_mk T (t_dt_t7 T) None (Some (t_rr T)) e2])
       \/
       (existsb (fun e => contains (fst e) (match snd e with
                                            | Some w => firstn (Z.to_nat w) (o_seq e1)
                                            | None => o_seq e1 end)) (t_t7 T) = false /\
        out = [tchic_mk T (t_dt_chic T) None None e1; tchic_mk T (t_dt_chic T) None None e2])))).
Proof.
  intros HP H. unfold demux_tchic in H.
  destruct (negb _) eqn:En in H; [discriminate|]. apply negb_false_iff in En.
  split; [lia|].
  apply bind_accept in H. destruct H as (o & Ho & H).
  destruct (contig_spec _ _ _ _ _ _ HP Ho) as [He _].
  destruct o as [|r1 [|r2 [|r3 o']]]; try discriminate.
  destruct (cs2 (o_bi r1)) as [bc0|] eqn:Ec; [|discriminate].
  exists r1, r2, bc0. split; [assumption|]. split; [assumption|]. cbv zeta.
  destruct (contains (bc0 ++ t_suffix T) (o_seq r1) || contains (bc0 ++ t_suffix T) (revcomp (t_comp T) (o_seq r2))) eqn:Eb.
  - left. split; [reflexivity|].
    destruct (trim_r2_prefix T (o_seq r2) (o_qual r2)) as [Ht _]. cbv zeta in Ht.
    set (m := length (fst (trim_r2 T (o_seq r2) (o_qual r2)))) in *.
    rewrite Ht in H. cbn [fst snd] in H. inversion H; subst. reflexivity.
  - right. split; [reflexivity|].
    destruct (contains (t_polyT T) (o_seq r1) || contains (t_polyT T) (o_seq r2)) eqn:Et; [discriminate|].
    split; [reflexivity|].
    match type of H with (if ?c then _ else _) = _ => destruct c eqn:E7 end; inversion H; subst;
      [left|right]; split; reflexivity.
Qed.

(* ------------------------------------------------------------------ CHICTV *)
Theorem chictv_spec V lookup recs out P :
  arm_positions (v_arm V) = Some P ->
  demux_chictv V lookup recs = Accept out ->
  length recs = 2%nat /\
  exists e1 er pos,
    expected P (arm_rxb (v_arm V)) lookup recs = Some (e1 :: er) /\
    (* read 1 is clipped at the FIRST occurrence of the oligo in its insert *)
    find_sub (v_oligo V) (o_seq e1) = Some pos /\
    let st := (pos - Z.to_nat (v_umi_len V))%nat in
    let umi := sub st (pos - st) (o_seq e1) in
    out = mkCR (with_sq (firstn pos (o_seq e1)) (firstn pos (o_qual e1)) e1) (v_mx V) None None None (Some umi)
          :: map (fun o => mkCR o (v_mx V) None None None (Some umi)) er.
Proof.
  intros HP H. unfold demux_chictv in H.
  destruct (negb _) eqn:En in H; [discriminate|]. apply negb_false_iff in En.
  split; [lia|].
  destruct recs as [|r0 rt]; [discriminate|].
  destruct (contains (v_oligo V) (fst r0)); [|discriminate].
  apply bind_accept in H. destruct H as (o & Ho & H).
  destruct (arm_spec _ _ _ _ _ HP Ho) as [He _].
  destruct o as [|o1 rest]; [discriminate|].
  destruct (find_sub (v_oligo V) (o_seq o1)) as [pos|] eqn:Ef; [|discriminate].
  exists o1, rest, pos. split; [assumption|]. split; [exact Ef|]. inversion H; subst. reflexivity.
Qed.

(* ------------------------------------------------------------------ bulk *)
Theorem bulk_spec recs out : demux_bulk recs = Accept out -> out = recs.
Proof. unfold demux_bulk. intros H. inversion H. reflexivity. Qed.

Ltac splits := repeat match goal with |- _ /\ _ => split end.

(* ------------------------------------------------------------------ the common statement *)
(* tags of o: those of t, and where t has none, those of s (s = t except in the merging strategy) *)
Definition tags_from (t s o : orec) : Prop :=
  o_bc o = o_bc t /\ o_BC o = o_BC t /\ o_bi o = o_bi t /\
  o_RX o = or_else (o_RX t) (o_RX s) /\ o_RQ o = or_else (o_RQ t) (o_RQ s) /\
  o_rS o = or_else (o_rS t) (o_rS s) /\ o_lh o = or_else (o_lh t) (o_lh s) /\ o_lq o = or_else (o_lq t) (o_lq s).

Lemma or_else_same {A} (x : option A) : or_else x x = x.
Proof. destruct x; reflexivity. Qed.

Lemma tags_from_same e o : same_tags e o -> tags_from e e o.
Proof.
  intros (H1 & H2 & H3 & H4 & H5 & H6 & H7 & H8). unfold tags_from. rewrite !or_else_same. repeat split; assumption.
Qed.

Lemma tags_from_merge t d : tags_from d t (merge_rec t d).
Proof. repeat split. Qed.

Lemma tags_from_merge_prune c t d : tags_from d t (merge_rec (prune_rec c t) d).
Proof. repeat split. Qed.

Lemma stretch_merge t0 t d : stretch t0 t -> stretch t0 (merge_rec t d).
Proof. intros (a & k & Hs & Hq). exists a, k. split; assumption. Qed.

(* o is explained by s (where its bases come from) and t (where its tags come from) *)
Definition expl (s t o : orec) : Prop := stretch s o /\ tags_from t s o.

Definition all_expl (es et : list orec) (out : list crec) : Prop :=
  length out = length es /\
  forall i c, nth_error out i = Some c ->
    exists s t, nth_error es i = Some s /\ nth_error et i = Some t /\ expl s t (cr_o c).

Lemma nth_map_inv {A B} (f : A -> B) l i y : nth_error (map f l) i = Some y ->
  exists x, nth_error l i = Some x /\ y = f x.
Proof.
  revert i. induction l as [|h t IH]; intros [|i] H; cbn [map nth_error] in H; try discriminate.
  - inversion H. exists h. split; reflexivity.
  - apply IH. exact H.
Qed.

Lemma all_expl_map (f : orec -> crec) (g : orec -> orec) es :
  (forall o, cr_o (f o) = g o) -> (forall o, stretch o (g o) /\ same_tags o (g o)) ->
  all_expl es es (map f es).
Proof.
  intros Hf Hg. split; [apply map_length|].
  intros i c Hc. apply nth_map_inv in Hc. destruct Hc as (x & Hx & ->).
  exists x, x. split; [assumption|]. split; [assumption|]. rewrite Hf. split; [apply Hg|apply tags_from_same; apply Hg].
Qed.

Lemma all_expl_cons s o es out :
  expl s s (cr_o o) -> all_expl es es out -> all_expl (s :: es) (s :: es) (o :: out).
Proof.
  intros He [Hl Ha]. split; [cbn [length]; lia|].
  intros [|i] c Hc; cbn [nth_error] in *.
  - inversion Hc; subst. exists s, s. split; [reflexivity|]. split; [reflexivity|]. exact He.
  - apply Ha. exact Hc.
Qed.

(* what an explained record means in terms of the input mate (with C02_record_meaning for s):
   a contiguous stretch of THAT mate starting at or after the arm's insert start, same indices for bases
   and qualities, equal length when the input is *)
Lemma expl_of_mate P b lookup recs es i r s t o :
  expected P b lookup recs = Some es -> nth_error recs i = Some r -> nth_error es i = Some s ->
  expl s t o ->
  exists a k, o_seq o = sub (ins_of P i + a) k (fst r) /\ o_qual o = sub (ins_of P i + a) k (snd r) /\
              (length (fst r) = length (snd r) -> length (o_seq o) = length (o_qual o)).
Proof.
  intros He Hr Hs [(a & k & H1 & H2) _].
  destruct (expected_record _ _ _ _ _ _ _ _ He Hr Hs) as (Hseq & Hqual & _).
  exists a, k. rewrite H1, H2, Hseq, Hqual, !sub_skipn. repeat split.
  intros Hl. rewrite !sub_length. lia.
Qed.

(* ---- every composite: accepted => exactly 2 mates, one record per mate, each record explained by the
   expected records of the arm(s) of the strategy *)
Definition comp_run (c : compdef) (lkA lkB : lookup_t) (cs2 : Z -> option (list Z)) (recs : list mate)
  : outcome (list crec) :=
  match c with
  | CTchic t => demux_tchic t lkA cs2 recs
  | CChictv v => demux_chictv v lkA recs
  | CDual d => demux_dual d lkA lkB recs
  | CBulk => Reject
  end.

Theorem composite_spec c lkA lkB cs2 recs out :
  Forall (fun a => arm_positions a <> None) (comp_arms c) ->
  comp_run c lkA lkB cs2 recs = Accept out ->
  length recs = 2%nat /\ length out = 2%nat /\
  exists as_ lks at_ lkt Ps Pt es et,
    In (as_, lks) (combine (comp_arms c) [lkA; lkB]) /\ In (at_, lkt) (combine (comp_arms c) [lkA; lkB]) /\
    arm_positions as_ = Some Ps /\ arm_positions at_ = Some Pt /\
    expected Ps (arm_rxb as_) lks recs = Some es /\ expected Pt (arm_rxb at_) lkt recs = Some et /\
    all_expl es et out.
Proof.
  intros Harms H. destruct c as [T|V|D|]; cbn [comp_run comp_arms] in *; [| | |discriminate].
  - (* TCHIC *)
    inversion Harms as [|a l Ha _]; subst. cbn [arm_positions] in Ha.
    destruct (positions_c (t_L T) (t_W T)) as [P|] eqn:EP; [|contradiction].
    destruct (tchic_spec _ _ _ _ _ _ EP H) as (Hn & e1 & e2 & bc0 & He & _ & Hout). cbv zeta in Hout.
    split; [assumption|].
    assert (Hex : all_expl [e1; e2] [e1; e2] out).
    { destruct Hout as [[_ ->]|(_ & _ & [[_ ->]|[_ ->]])]; unfold tchic_mk;
        repeat apply all_expl_cons; cbn [cr_o];
        try (split; [apply stretch_refl|apply tags_from_same, same_tags_refl]);
        try (split; [eapply stretch_firstn; reflexivity|apply tags_from_same, same_tags_with_sq]);
        (split; [reflexivity|intros [|i] c Hc; discriminate]). }
    split; [destruct Hex as [Hl _]; exact Hl|].
    exists (ArmC (t_L T) (t_W T)), lkA, (ArmC (t_L T) (t_W T)), lkA, P, P, [e1; e2], [e1; e2].
    cbn [combine In arm_positions arm_rxb]. splits; auto.
  - (* CHICTV *)
    inversion Harms as [|a l Ha _]; subst.
    destruct (arm_positions (v_arm V)) as [P|] eqn:EP; [|contradiction].
    destruct (chictv_spec _ _ _ _ _ EP H) as (Hn & e1 & er & pos & He & _ & Hout). cbv zeta in Hout.
    split; [assumption|].
    assert (Hex : all_expl (e1 :: er) (e1 :: er) out).
    { subst out. apply all_expl_cons.
      - cbn [cr_o]. split; [eapply stretch_firstn; reflexivity|apply tags_from_same, same_tags_with_sq].
      - apply (all_expl_map _ (fun o => o)); [reflexivity|].
        intros o. split; [apply stretch_refl|apply same_tags_refl]. }
    assert (Hl2 : length (e1 :: er) = 2%nat) by (rewrite (expected_arity _ _ _ _ _ He); exact Hn).
    split; [destruct Hex as [Hl _]; lia|].
    exists (v_arm V), lkA, (v_arm V), lkA, P, P, (e1 :: er), (e1 :: er).
    cbn [combine In]. splits; auto.
  - (* DamID + transcriptome *)
    inversion Harms as [|a l Ha Hrest]; subst. inversion Hrest as [|a' l' Hb _]; subst.
    destruct (arm_positions (d_damid D)) as [Pd|] eqn:EPd; [|contradiction].
    destruct (arm_positions (d_tx D)) as [Pt|] eqn:EPt; [|contradiction].
    destruct (dual_spec _ _ _ _ _ _ _ EPd EPt H) as (Hn & Hcases).
    split; [assumption|].
    assert (Hprune : forall c t1 tr, all_expl (t1 :: tr) (t1 :: tr)
                                        (map (lift (d_mx_tx D) c) (prune_rec (d_prune D) t1 :: tr))).
    { intros c t1 tr. cbn [map]. apply all_expl_cons.
      - cbn [lift cr_o]. split; [apply stretch_prune|apply tags_from_same; unfold prune_rec; apply same_tags_with_sq].
      - apply (all_expl_map _ (fun o => o)); [reflexivity|].
        intros o. split; [apply stretch_refl|apply same_tags_refl]. }
    destruct Hcases as [(d & t1 & tr & Hed & Het & Hboth)|[(d & Hed & _ & ->)|(t1 & tr & Het & _ & ->)]].
    + destruct Hboth as [[_ ->]|[_ ->]].
      * assert (Hex : all_expl d d (map (lift (d_mx_damid D) (d_dt_both D)) d)).
        { apply (all_expl_map _ (fun o => o)); [reflexivity|].
          intros o. split; [apply stretch_refl|apply same_tags_refl]. }
        split; [rewrite map_length, (expected_arity _ _ _ _ _ Hed); exact Hn|].
        exists (d_damid D), lkA, (d_damid D), lkA, Pd, Pd, d, d. cbn [combine In]. splits; auto.
      * (* merged: bases from the pruned transcriptome record, tags from the DamID record *)
        assert (Hld : length d = 2%nat) by (rewrite (expected_arity _ _ _ _ _ Hed); exact Hn).
        assert (Hlt : length (t1 :: tr) = 2%nat) by (rewrite (expected_arity _ _ _ _ _ Het); exact Hn).
        assert (Hex : all_expl (t1 :: tr) d
                        (map (fun p => lift (d_mx_damid D) None (merge_rec (fst p) (snd p)))
                             (combine (prune_rec (d_prune D) t1 :: tr) d))).
        { split; [rewrite map_length, combine_length; cbn [length] in *; lia|].
          intros i c Hc. apply nth_map_inv in Hc. destruct Hc as ([x y] & Hxy & ->). cbn [fst snd lift cr_o].
          destruct d as [|d1 [|d2 [|]]]; cbn [length] in Hld; try lia.
          destruct tr as [|t2 [|]]; cbn [length] in Hlt; try lia.
          destruct i as [|[|i]]; cbn [combine nth_error] in Hxy; try (destruct i; discriminate).
          - inversion Hxy as [[Hx Hy]]. subst x y. exists t1, d1. split; [reflexivity|]. split; [reflexivity|].
            split; [apply (stretch_merge t1 (prune_rec (d_prune D) t1) d1); apply stretch_prune|apply tags_from_merge_prune].
          - inversion Hxy as [[Hx Hy]]. subst x y. exists t2, d2. split; [reflexivity|]. split; [reflexivity|].
            split; [apply (stretch_merge t2 t2 d2); apply stretch_refl|apply tags_from_merge]. }
        split; [destruct Hex as [Hl _]; lia|].
        exists (d_tx D), lkB, (d_damid D), lkA, Pt, Pd, (t1 :: tr), d. cbn [combine In]. splits; auto.
    + assert (Hex : all_expl d d (map (lift (d_mx_damid D) (Some (d_dt_damid D))) d)).
      { apply (all_expl_map _ (fun o => o)); [reflexivity|].
        intros o. split; [apply stretch_refl|apply same_tags_refl]. }
      split; [rewrite map_length, (expected_arity _ _ _ _ _ Hed); exact Hn|].
      exists (d_damid D), lkA, (d_damid D), lkA, Pd, Pd, d, d. cbn [combine In]. splits; auto.
    + pose proof (Hprune (Some (d_dt_tx D)) t1 tr) as Hex.
      split; [destruct Hex as [Hl _]; rewrite Hl, (expected_arity _ _ _ _ _ Het); exact Hn|].
      exists (d_tx D), lkB, (d_tx D), lkB, Pt, Pt, (t1 :: tr), (t1 :: tr). cbn [combine In]. splits; auto.
Qed.

(* ------------------------------------------------------------------ the registered composites *)
Lemma arms_match_spec arms ps : arms_match arms ps = true ->
  Forall2 (fun a p => arm_positions a = Some p /\ wf_p p = true) arms ps.
Proof.
  revert ps. induction arms as [|a t IH]; intros [|p ps] H; cbn [arms_match] in H; try discriminate; [constructor|].
  split_andb. constructor; [|apply IH; assumption].
  split; [|assumption]. unfold opt_playout_eqb in *. destruct (arm_positions a) as [x|]; [|discriminate].
  f_equal. apply playout_eqb_eq. assumption.
Qed.

(* every registered composite / bulk strategy: its regenerated arms take tags and inserts from exactly
   the pinned positions, which are well formed *)
Lemma registered_comp g c ps :
  In g gen_table -> g_kind g = 3 \/ g_kind g = 0 ->
  find_comp (g_name g) = Some c -> find_comp_protocol (g_name g) = Some ps ->
  Forall2 (fun a p => arm_positions a = Some p /\ wf_p p = true) (comp_arms c) ps.
Proof.
  intros Hin Hk Hc Hp. pose proof registered_wf as Hr. rewrite forallb_forall in Hr.
  specialize (Hr g Hin). unfold registered_ok in Hr.
  destruct (find_protocol (g_name g)) as [p|]; [|discriminate].
  apply andb_true_iff in Hr. destruct Hr as [_ Hr].
  assert (H12 : (g_kind g =? 1) || (g_kind g =? 2) = false) by lia. rewrite H12 in Hr.
  assert (H4 : (g_kind g =? 4) = false) by lia. rewrite H4 in Hr.
  apply andb_true_iff in Hr. destruct Hr as [_ Hr]. unfold comp_ok in Hr. rewrite Hc, Hp in Hr.
  destruct (find_comp_literals (g_name g)); [|discriminate].
  split_andb. apply arms_match_spec. assumption.
Qed.

Lemma lists_eqb_eq a b : lists_eqb a b = true -> a = b.
Proof.
  assert (Hl : forall x y, list_eqb x y = true -> x = y).
  { unfold list_eqb. induction x as [|h t IH]; intros [|h' t'] Hxy; cbn [length combine forallb Nat.eqb] in Hxy;
      try discriminate; [reflexivity|]. split_andb. cbn [fst snd] in *. f_equal; [lia|].
    apply IH. apply andb_true_iff. split; assumption. }
  revert b. induction a as [|x a' IH]; intros [|y b'] H; cbn [lists_eqb] in H; try discriminate; [reflexivity|].
  split_andb. f_equal; [apply Hl|apply IH]; assumption.
Qed.

(* ... and every literal of its regenerated definition equals the pinned one *)
Lemma registered_comp_literals g c lits :
  In g gen_table -> g_kind g = 3 \/ g_kind g = 0 ->
  find_comp (g_name g) = Some c -> find_comp_literals (g_name g) = Some lits -> comp_consts c = lits.
Proof.
  intros Hin Hk Hc Hp. pose proof registered_wf as Hr. rewrite forallb_forall in Hr.
  specialize (Hr g Hin). unfold registered_ok in Hr.
  destruct (find_protocol (g_name g)) as [p|]; [|discriminate].
  apply andb_true_iff in Hr. destruct Hr as [_ Hr].
  assert (H12 : (g_kind g =? 1) || (g_kind g =? 2) = false) by lia. rewrite H12 in Hr.
  assert (H4 : (g_kind g =? 4) = false) by lia. rewrite H4 in Hr.
  apply andb_true_iff in Hr. destruct Hr as [_ Hr]. unfold comp_ok in Hr. rewrite Hc, Hp in Hr.
  destruct (find_comp_protocol (g_name g)); [|discriminate].
  split_andb. apply lists_eqb_eq. assumption.
Qed.

Theorem registered_composite_spec g c ps lkA lkB cs2 recs out :
  In g gen_table -> g_kind g = 3 ->
  find_comp (g_name g) = Some c -> find_comp_protocol (g_name g) = Some ps ->
  comp_run c lkA lkB cs2 recs = Accept out ->
  Forall2 (fun a p => arm_positions a = Some p /\ wf_p p = true) (comp_arms c) ps /\
  length recs = 2%nat /\ length out = 2%nat /\
  exists as_ lks at_ lkt Ps Pt es et,
    In (as_, lks) (combine (comp_arms c) [lkA; lkB]) /\ In (at_, lkt) (combine (comp_arms c) [lkA; lkB]) /\
    arm_positions as_ = Some Ps /\ arm_positions at_ = Some Pt /\ In Ps ps /\ In Pt ps /\
    expected Ps (arm_rxb as_) lks recs = Some es /\ expected Pt (arm_rxb at_) lkt recs = Some et /\
    all_expl es et out.
Proof.
  intros Hin Hk Hc Hp H.
  pose proof (registered_comp g c ps Hin (or_introl Hk) Hc Hp) as HF.
  split; [exact HF|].
  assert (Harms : Forall (fun a => arm_positions a <> None) (comp_arms c)).
  { clear -HF. induction HF as [|a p la lp [Ha _] _ IH]; constructor; [congruence|exact IH]. }
  destruct (composite_spec c lkA lkB cs2 recs out Harms H) as (Hn & Ho & as_ & lks & at_ & lkt & Ps & Pt & es & et & Hi1 & Hi2 & HPs & HPt & Hes & Het & Hex).
  split; [exact Hn|]. split; [exact Ho|].
  assert (Hin_ps : forall a lk P, In (a, lk) (combine (comp_arms c) [lkA; lkB]) -> arm_positions a = Some P -> In P ps).
  { intros a lk P Hi HP. apply in_combine_l in Hi. clear -HF Hi HP.
    induction HF as [|a' p la lp [Ha _] _ IH]; [destruct Hi|].
    destruct Hi as [->|Hi]; [left; congruence|right; apply IH; exact Hi]. }
  exists as_, lks, at_, lkt, Ps, Pt, es, et. splits; try assumption.
  - exact (Hin_ps as_ lks Ps Hi1 HPs).
  - exact (Hin_ps at_ lkt Pt Hi2 HPt).
Qed.
