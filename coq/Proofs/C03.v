From Coq Require Import ZArith List Bool Arith Lia.
Import ListNotations.
From SCMO Require Import Lib.Val Model.C03.

Lemma placeholder : hamming [65;67] [65;71] = 1%nat.
Proof. reflexivity. Qed.
