(* C03 proofs, part 1: strings, dictionaries, hamming_circle, sorted(). *)
From Coq Require Import ZArith List Bool Arith Lia Permutation Sorted ZifyBool.
Import ListNotations.
From SCMO Require Import Lib.Val Lib.PyInt Gen.GenBarcode Model.C03.

(* ------------------------------------------------------------------ shape of the REGENERATED kernel
   (Gen/GenBarcode.v is rewritten from the source on every run).  Each lemma says the generated definition
   is the one the hand-written proofs below assume; proved by lia / case analysis so that arithmetically
   equivalent rewrites of the source (k+1 -> 1+k, len > 1 -> len >= 2, a == b -> b == a) still pass, and
   anything else (== -> <, k+1 -> k, [1] -> [-1], another alphabet) stops here. *)
Lemma zrange_from_nat n : forall a, map Z.to_nat (zrange_from (Z.of_nat a) n) = seq a n.
Proof.
  induction n as [|n IH]; intros a; cbn [zrange_from map seq]; [reflexivity|].
  rewrite Nat2Z.id. f_equal. replace (Z.of_nat a + 1)%Z with (Z.of_nat (S a)) by lia. apply IH.
Qed.

Lemma zrange_nat lo hi a n : lo = Z.of_nat a -> (hi - lo)%Z = Z.of_nat n -> map Z.to_nat (zrange lo hi) = seq a n.
Proof. intros -> H. unfold zrange. rewrite H, Nat2Z.id. apply zrange_from_nat. Qed.

(* expand: for hammingDistance in range(0, k + 1)  ==  distances 0, 1, ..., k *)
Lemma gen_dist_range_shape k : map Z.to_nat (gen_dist_range (Z.of_nat k)) = seq 0 (S k).
Proof. unfold gen_dist_range. apply zrange_nat; lia. Qed.

(* expand: skip iff there are at least two entries and the two smallest distances are equal *)
Lemma gen_tie_shape len dist : gen_tie len dist = ((1 <? len)%Z && (dist 0 =? dist 1)%Z).
Proof. unfold gen_tie. lia. Qed.

(* expand: otherwise the first entry of the sorted list is assigned *)
Lemma gen_pick_index_shape len : gen_pick_index len = 0%Z.
Proof. unfold gen_pick_index. lia. Qed.

(* hamming_circle: the alphabet expand passes, r ranges over all but the last letter, and a position holding
   alphabet[r] is replaced by the last letter *)
Lemma gen_alphabet_shape : gen_alphabet = [65; 67; 84; 71; 78]%Z.
Proof. reflexivity. Qed.

Lemma gen_repl_range_shape alen : gen_repl_range alen = zrange 0 (alen - 1).
Proof. unfold gen_repl_range. f_equal; lia. Qed.

Lemma gen_replace_shape alen aat cur ar :
  gen_replace alen aat cur ar = if (cur =? ar)%Z then aat (alen - 1)%Z else ar.
Proof.
  unfold gen_replace.
  repeat match goal with |- context [Z.eqb ?a ?b] => destruct (Z.eqb_spec a b) end;
    try reflexivity; try (f_equal; lia); try lia.
Qed.

(* lookup: exact table, then extended table, then the lazy load *)
Lemma gen_lookup_order_shape : gen_lookup_order = [0; 1; 2]%Z.
Proof. reflexivity. Qed.

Lemma lookup_unfold t q :
  lookup t q = match dget q (bcs t) with Some i => Some (i, q, 0%nat) | None => dget q (ext t) end.
Proof.
  unfold lookup. rewrite gen_lookup_order_shape. cbn. unfold lookup_stage. cbn.
  destruct (dget q (bcs t)); [reflexivity|]. destruct (dget q (ext t)); reflexivity.
Qed.

Lemma get_unfold p q :
  get p q =
  match lookup (p_tab p) q with
  | Some a => (p, Ans (Some a))
  | None =>
      match p_pending p with
      | None => (p, Ans None)
      | Some lines =>
          match expand (p_k p) (load_into (p_tab p) lines) with
          | Ok t' => ({| p_k := p_k p; p_pending := None; p_tab := t' |}, Ans (lookup t' q))
          | _ => (p, Raised)
          end
      end
  end.
Proof.
  rewrite lookup_unfold. unfold get. rewrite gen_lookup_order_shape. cbn. unfold lookup_stage. cbn.
  destruct (dget q (bcs (p_tab p))); [reflexivity|].
  destruct (dget q (ext (p_tab p))); [reflexivity|].
  destruct (p_pending p); reflexivity.
Qed.

(* ------------------------------------------------------------------ strings *)
Lemma str_eqb_spec a b : reflect (a = b) (str_eqb a b).
Proof.
  revert b; induction a as [|x a IH]; intros [|y b]; cbn; try (constructor; congruence).
  destruct (Z.eqb_spec x y) as [->|Hne]; cbn.
  - destruct (IH b) as [->|Hne]; constructor; congruence.
  - constructor; congruence.
Qed.

Lemma str_eqb_refl a : str_eqb a a = true.
Proof. destruct (str_eqb_spec a a); congruence. Qed.

Lemma str_eqb_eq a b : str_eqb a b = true <-> a = b.
Proof. destruct (str_eqb_spec a b); split; congruence. Qed.

Lemma str_eqb_neq a b : a <> b -> str_eqb a b = false.
Proof. destruct (str_eqb_spec a b); congruence. Qed.

Lemma str_eq_dec (a b : str) : {a = b} + {a <> b}.
Proof. destruct (str_eqb_spec a b); auto. Qed.

(* ------------------------------------------------------------------ generic list facts *)
Lemma NoDup_app_intro {A} (l1 l2 : list A) :
  NoDup l1 -> NoDup l2 -> (forall x, In x l1 -> In x l2 -> False) -> NoDup (l1 ++ l2).
Proof.
  induction l1 as [|a l1 IH]; intros H1 H2 Hd; cbn; auto.
  inversion H1 as [|? ? Hna Hnd]; subst. constructor.
  - rewrite in_app_iff. intros [H|H]; [auto|]. apply (Hd a); cbn; auto.
  - apply IH; auto. intros x Hx1 Hx2. apply (Hd x); cbn; auto.
Qed.

Lemma NoDup_flat_map_intro {A B} (g : A -> list B) (l : list A) :
  NoDup l -> (forall x, In x l -> NoDup (g x)) ->
  (forall x y z, In x l -> In y l -> x <> y -> In z (g x) -> In z (g y) -> False) ->
  NoDup (flat_map g l).
Proof.
  induction l as [|a l IH]; intros Hl Hg Hd; cbn; [constructor|].
  inversion Hl as [|? ? Hna Hnd]; subst.
  apply NoDup_app_intro.
  - apply Hg; cbn; auto.
  - apply IH; auto.
    + intros x Hx. apply Hg; cbn; auto.
    + intros x y z Hx Hy. apply Hd; cbn; auto.
  - intros z Hz1 Hz2. apply in_flat_map in Hz2. destruct Hz2 as [y [Hy Hzy]].
    apply (Hd a y z); cbn; auto. intros ->. contradiction.
Qed.

Lemma NoDup_map_inj_in {A B} (f : A -> B) (l : list A) :
  (forall x y, In x l -> In y l -> f x = f y -> x = y) -> NoDup l -> NoDup (map f l).
Proof.
  induction l as [|a l IH]; intros Hinj Hl; cbn; [constructor|].
  inversion Hl as [|? ? Hna Hnd]; subst. constructor.
  - rewrite in_map_iff. intros [y [Hfy Hy]]. apply Hna.
    rewrite (Hinj a y); cbn; auto.
  - apply IH; auto. intros x y Hx Hy. apply Hinj; cbn; auto.
Qed.

Lemma fold_left_ext {A B} (f g : A -> B -> A) (l : list B) (a : A) :
  (forall a x, f a x = g a x) -> fold_left f l a = fold_left g l a.
Proof. intros H. revert a. induction l as [|x l IH]; intros a; cbn; [reflexivity|]. rewrite H. apply IH. Qed.

Lemma fold_left_flat_map {A B C} (f : A -> C -> A) (g : B -> list C) (l : list B) (a : A) :
  fold_left f (flat_map g l) a = fold_left (fun a x => fold_left f (g x) a) l a.
Proof. revert a. induction l as [|x l IH]; intros a; cbn; [reflexivity|]. rewrite fold_left_app. apply IH. Qed.

Lemma fold_left_map {A B C} (f : A -> C -> A) (g : B -> C) (l : list B) (a : A) :
  fold_left f (map g l) a = fold_left (fun a x => f a (g x)) l a.
Proof. revert a. induction l as [|x l IH]; intros a; cbn; [reflexivity|]. apply IH. Qed.

(* ------------------------------------------------------------------ dictionaries *)
Definition keys {V} (d : list (str * V)) : list str := map fst d.

Lemma dget_dset_same {V} k (v : V) d : dget k (dset k v d) = Some v.
Proof.
  induction d as [|[k' v'] d IH]; cbn.
  - rewrite str_eqb_refl. reflexivity.
  - destruct (str_eqb k k') eqn:E; cbn; rewrite E; auto.
Qed.

Lemma dget_dset_other {V} k k' (v : V) d : k' <> k -> dget k' (dset k v d) = dget k' d.
Proof.
  intros Hne. induction d as [|[k2 v2] d IH]; cbn.
  - rewrite (str_eqb_neq _ _ Hne). reflexivity.
  - destruct (str_eqb_spec k k2) as [->|Hk]; cbn.
    + rewrite (str_eqb_neq _ _ Hne). reflexivity.
    + rewrite IH. reflexivity.
Qed.

Lemma keys_dset_in {V} k (v : V) d k' : In k' (keys (dset k v d)) <-> k' = k \/ In k' (keys d).
Proof.
  induction d as [|[k2 v2] d IH]; cbn.
  - intuition congruence.
  - destruct (str_eqb_spec k k2) as [->|Hk]; cbn.
    + intuition congruence.
    + rewrite IH. intuition congruence.
Qed.

Lemma keys_dset_nodup {V} k (v : V) d : NoDup (keys d) -> NoDup (keys (dset k v d)).
Proof.
  induction d as [|[k2 v2] d IH]; cbn; intros H.
  - constructor; [intros []|constructor].
  - inversion H as [|? ? Hna Hnd]; subst.
    destruct (str_eqb_spec k k2) as [->|Hk]; cbn.
    + constructor; auto.
    + constructor; [|apply IH; auto].
      intros Hin. apply (keys_dset_in k v d k2) in Hin. destruct Hin as [->|Hin]; [congruence|contradiction].
Qed.

Lemma dget_none_iff {V} k (d : list (str * V)) : dget k d = None <-> ~ In k (keys d).
Proof.
  induction d as [|[k2 v2] d IH]; cbn.
  - intuition.
  - destruct (str_eqb_spec k k2) as [->|Hk].
    + split; [discriminate|]. intros H. exfalso. apply H. auto.
    + rewrite IH. intuition congruence.
Qed.

Lemma dget_some_in {V} k (v : V) d : dget k d = Some v -> In (k, v) d.
Proof.
  induction d as [|[k2 v2] d IH]; cbn; [discriminate|].
  destruct (str_eqb_spec k k2) as [->|Hk]; intros H.
  - left. congruence.
  - right. auto.
Qed.

Lemma dget_some_key {V} k (v : V) d : dget k d = Some v -> In k (keys d).
Proof. intros H. apply dget_some_in in H. apply (in_map fst) in H. exact H. Qed.

Lemma in_keys_dget {V} k (d : list (str * V)) : In k (keys d) -> exists v, dget k d = Some v.
Proof.
  intros H. destruct (dget k d) as [v|] eqn:E; [eauto|]. apply dget_none_iff in E. contradiction.
Qed.

Lemma in_dget {V} k (v : V) d : NoDup (keys d) -> In (k, v) d -> dget k d = Some v.
Proof.
  induction d as [|[k2 v2] d IH]; cbn; intros Hnd Hin; [contradiction|].
  inversion Hnd as [|? ? Hna Hnd']; subst.
  destruct Hin as [Heq|Hin].
  - inversion Heq; subst. rewrite str_eqb_refl. reflexivity.
  - destruct (str_eqb_spec k k2) as [->|Hk].
    + exfalso. apply Hna. apply (in_map fst) in Hin. exact Hin.
    + auto.
Qed.

Lemma dset_id {V} k (v : V) d : dget k d = Some v -> dset k v d = d.
Proof.
  induction d as [|[k2 v2] d IH]; cbn; [discriminate|].
  destruct (str_eqb k k2) eqn:E; intros H.
  - congruence.
  - rewrite IH; auto.
Qed.

Definition dgetl {X} (k : str) (d : list (str * list X)) : list X :=
  match dget k d with Some l => l | None => [] end.

Lemma dappend_dset {X} k (x : X) d : dappend k x d = dset k (dgetl k d ++ [x]) d.
Proof.
  unfold dgetl. induction d as [|[k2 l2] d IH]; cbn; [reflexivity|].
  destruct (str_eqb k k2) eqn:E; [reflexivity|]. rewrite IH. reflexivity.
Qed.

Lemma dgetl_dappend {X} k (x : X) d q :
  dgetl q (dappend k x d) = if str_eqb q k then dgetl q d ++ [x] else dgetl q d.
Proof.
  rewrite dappend_dset. unfold dgetl at 1.
  destruct (str_eqb_spec q k) as [->|Hne].
  - rewrite dget_dset_same. reflexivity.
  - rewrite dget_dset_other by exact Hne. reflexivity.
Qed.

(* ------------------------------------------------------------------ hamming_circle *)
Definition alpha (c : Z) : Prop := In c alphabet.

Lemma in_alphabet_Forall s : in_alphabet s = true <-> Forall alpha s.
Proof.
  unfold in_alphabet. rewrite forallb_forall, Forall_forall. unfold alpha.
  split; intros H c Hc; specialize (H c Hc).
  - apply existsb_exists in H. destruct H as [a [Ha E]]. apply Z.eqb_eq in E. subst. exact Ha.
  - apply existsb_exists. exists c. split; [exact H|apply Z.eqb_refl].
Qed.

Lemma repl_unfold c : repl alphabet c =
  [ (if Z.eqb c 65 then 78 else 65); (if Z.eqb c 67 then 78 else 67);
    (if Z.eqb c 84 then 78 else 84); (if Z.eqb c 71 then 78 else 71) ]%Z.
Proof.
  unfold repl, alphabet. rewrite gen_alphabet_shape. cbn [length].
  change (Z.of_nat 5) with 5%Z. rewrite gen_repl_range_shape.
  change (zrange 0 (5 - 1)) with [0; 1; 2; 3]%Z. cbn [map].
  rewrite !gen_replace_shape. reflexivity.
Qed.

Lemma alphabet_unfold : alphabet = [65; 67; 84; 71; 78]%Z.
Proof. unfold alphabet. apply gen_alphabet_shape. Qed.

Lemma repl_neq c r : In r (repl alphabet c) -> r <> c.
Proof.
  rewrite repl_unfold. cbn [In].
  destruct (Z.eqb_spec c 65), (Z.eqb_spec c 67), (Z.eqb_spec c 84), (Z.eqb_spec c 71); lia.
Qed.

Lemma repl_nodup c : NoDup (repl alphabet c).
Proof.
  rewrite repl_unfold.
  destruct (Z.eqb_spec c 65), (Z.eqb_spec c 67), (Z.eqb_spec c 84), (Z.eqb_spec c 71); try lia;
    repeat (constructor; [cbn [In]; lia|]); constructor.
Qed.

Lemma repl_complete c r : alpha c -> alpha r -> r <> c -> In r (repl alphabet c).
Proof.
  unfold alpha. rewrite repl_unfold, alphabet_unfold. cbn [In]. intros Hc Hr Hne.
  destruct (Z.eqb_spec c 65), (Z.eqb_spec c 67), (Z.eqb_spec c 84), (Z.eqb_spec c 71); lia.
Qed.

Lemma circle_nil n : circle alphabet [] n = match n with O => [[]] | S _ => [] end.
Proof. reflexivity. Qed.

Lemma circle_cons c s n : circle alphabet (c :: s) n =
  (match n with
   | O => []
   | S m => flat_map (fun r => map (cons r) (circle alphabet s m)) (repl alphabet c)
   end) ++ map (cons c) (circle alphabet s n).
Proof. reflexivity. Qed.

Lemma hamming_cons a x b y : hamming (a :: x) (b :: y) = ((if Z.eqb a b then 0 else 1) + hamming x y)%nat.
Proof. reflexivity. Qed.

(* every enumerated string has the length of s and differs from it in exactly n positions *)
Lemma circle_sound : forall s n x, In x (circle alphabet s n) -> length x = length s /\ hamming x s = n.
Proof.
  induction s as [|c s IH]; intros n x Hin.
  - rewrite circle_nil in Hin. destruct n; cbn in Hin; [|contradiction].
    destruct Hin as [<-|[]]. auto.
  - rewrite circle_cons in Hin. apply in_app_iff in Hin. destruct Hin as [Hin|Hin].
    + destruct n as [|m]; [contradiction|].
      apply in_flat_map in Hin. destruct Hin as [r [Hr Hin]].
      apply in_map_iff in Hin. destruct Hin as [y [<- Hy]].
      apply IH in Hy. destruct Hy as [Hl Hh]. apply repl_neq in Hr.
      rewrite hamming_cons. cbn [length]. destruct (Z.eqb_spec r c); [congruence|]. lia.
    + apply in_map_iff in Hin. destruct Hin as [y [<- Hy]].
      apply IH in Hy. destruct Hy as [Hl Hh].
      rewrite hamming_cons, Z.eqb_refl. cbn [length]. lia.
Qed.

(* every string over the alphabet at distance n from s (over the alphabet) is enumerated *)
Lemma circle_complete : forall s x, Forall alpha s -> Forall alpha x -> length x = length s ->
  In x (circle alphabet s (hamming x s)).
Proof.
  induction s as [|c s IH]; intros x Hs Hx Hl.
  - destruct x; [|discriminate]. cbn. auto.
  - destruct x as [|a x]; [discriminate|].
    inversion Hs as [|? ? Hc Hs']; subst. inversion Hx as [|? ? Ha Hx']; subst.
    cbn [length] in Hl. assert (Hl' : length x = length s) by lia.
    specialize (IH x Hs' Hx' Hl').
    rewrite hamming_cons, circle_cons. apply in_app_iff.
    destruct (Z.eqb_spec a c) as [->|Hne].
    + right. cbn [Nat.add]. apply in_map. exact IH.
    + left. cbn [Nat.add]. apply in_flat_map. exists a. split.
      * apply repl_complete; auto.
      * apply in_map. exact IH.
Qed.

(* each string is enumerated once *)
Lemma circle_nodup : forall s n, NoDup (circle alphabet s n).
Proof.
  induction s as [|c s IH]; intros n.
  - rewrite circle_nil. destruct n; repeat constructor. intros [].
  - rewrite circle_cons. apply NoDup_app_intro.
    + destruct n as [|m]; [constructor|].
      apply NoDup_flat_map_intro.
      * apply repl_nodup.
      * intros r _. apply NoDup_map_inj_in; [|apply IH]. intros x y _ _ H. congruence.
      * intros r1 r2 z _ _ Hne H1 H2.
        apply in_map_iff in H1. destruct H1 as [y1 [<- _]].
        apply in_map_iff in H2. destruct H2 as [y2 [E _]]. congruence.
    + apply NoDup_map_inj_in; [|apply IH]. intros x y _ _ H. congruence.
    + intros z H1 H2. apply in_map_iff in H2. destruct H2 as [y2 [<- _]].
      destruct n as [|m]; [contradiction|].
      apply in_flat_map in H1. destruct H1 as [r [Hr H1]].
      apply in_map_iff in H1. destruct H1 as [y1 [E _]].
      apply repl_neq in Hr. congruence.
Qed.

Lemma hamming_refl x : hamming x x = 0%nat.
Proof. induction x as [|a x IH]; [reflexivity|]. rewrite hamming_cons, Z.eqb_refl, IH. reflexivity. Qed.

Lemma hamming_zero : forall x y, length x = length y -> hamming x y = 0%nat -> x = y.
Proof.
  induction x as [|a x IH]; intros [|b y] Hl Hh; try discriminate; [reflexivity|].
  rewrite hamming_cons in Hh. destruct (Z.eqb_spec a b) as [->|]; [|discriminate].
  f_equal. apply IH; [cbn in Hl; lia|exact Hh].
Qed.

(* ------------------------------------------------------------------ sorted() *)
Definition dle (x y : entry) : Prop := (fst x <= fst y)%nat.

Lemma entry_leb_true x y : entry_leb x y = true -> dle x y.
Proof.
  unfold entry_leb, dle. intros H. apply orb_true_iff in H. destruct H as [H|H].
  - apply Nat.ltb_lt in H. lia.
  - apply andb_true_iff in H. destruct H as [H _]. apply Nat.eqb_eq in H. lia.
Qed.

Lemma entry_leb_false x y : entry_leb x y = false -> dle y x.
Proof.
  unfold entry_leb, dle. intros H. apply orb_false_iff in H. destruct H as [H _].
  apply Nat.ltb_ge in H. exact H.
Qed.

Lemma insert_perm x l : Permutation (insert x l) (x :: l).
Proof.
  induction l as [|y l IH]; cbn; [reflexivity|].
  destruct (entry_leb x y); [reflexivity|].
  rewrite IH. apply perm_swap.
Qed.

Lemma sort_perm l : Permutation (sort l) l.
Proof.
  induction l as [|x l IH]; cbn; [reflexivity|].
  rewrite insert_perm. constructor. exact IH.
Qed.

Lemma HdRel_insert a x l : HdRel dle a l -> dle a x -> HdRel dle a (insert x l).
Proof.
  intros Hh Hax. destruct l as [|y l]; cbn.
  - constructor. exact Hax.
  - destruct (entry_leb x y); constructor; [exact Hax|]. inversion Hh; auto.
Qed.

Lemma insert_sorted x l : Sorted dle l -> Sorted dle (insert x l).
Proof.
  induction l as [|y l IH]; cbn; intros Hs.
  - repeat constructor.
  - destruct (entry_leb x y) eqn:E.
    + constructor; [exact Hs|]. constructor. apply entry_leb_true. exact E.
    + inversion Hs as [|? ? Hs' Hh]; subst. constructor; [apply IH; exact Hs'|].
      apply HdRel_insert; [exact Hh|]. apply entry_leb_false. exact E.
Qed.

Lemma sort_sorted l : StronglySorted dle (sort l).
Proof.
  apply Sorted_StronglySorted.
  - intros x y z. unfold dle. lia.
  - induction l as [|x l IH]; cbn; [constructor|]. apply insert_sorted. exact IH.
Qed.

(* what expand does with the sorted list: the first element unless the first two distances tie *)
Definition pick (l : list entry) : option entry :=
  match sort l with
  | [] => None
  | x :: rest => if (match rest with y :: _ => Nat.eqb (fst x) (fst y) | [] => false end) then None else Some x
  end.

Lemma pick_some l x : NoDup l -> pick l = Some x ->
  In x l /\ forall y, In y l -> y <> x -> (fst x < fst y)%nat.
Proof.
  unfold pick. intros Hnd Hp.
  pose proof (sort_perm l) as Hperm. pose proof (sort_sorted l) as Hss.
  destruct (sort l) as [|x0 rest] eqn:Es; [discriminate|].
  assert (Hnd' : NoDup (x0 :: rest)) by (eapply Permutation_NoDup; [symmetry; exact Hperm|exact Hnd]).
  inversion Hss as [|? ? Hss' Hall]; subst.
  destruct rest as [|y0 rest'].
  - inversion Hp; subst. split.
    + eapply Permutation_in; [exact Hperm|]. cbn; auto.
    + intros y Hy Hne. apply (Permutation_in (l' := [x])) in Hy; [|symmetry; exact Hperm].
      destruct Hy as [->|[]]. congruence.
  - destruct (Nat.eqb_spec (fst x0) (fst y0)) as [|Hne0]; [discriminate|].
    inversion Hp; subst. split.
    + eapply Permutation_in; [exact Hperm|]. cbn; auto.
    + intros y Hy Hne. apply (Permutation_in (l' := x :: y0 :: rest')) in Hy; [|symmetry; exact Hperm].
      destruct Hy as [->|Hy]; [congruence|].
      inversion Hall as [|? ? Hxy0 Hall']; subst.
      inversion Hss' as [|? ? _ Hall2]; subst.
      unfold dle in *.
      destruct Hy as [->|Hy]; [lia|].
      rewrite Forall_forall in Hall2. specialize (Hall2 y Hy). unfold dle in Hall2. lia.
Qed.

Lemma pick_none l : l <> [] -> NoDup l -> pick l = None ->
  exists x y, In x l /\ In y l /\ x <> y /\ fst x = fst y /\ forall z, In z l -> (fst x <= fst z)%nat.
Proof.
  unfold pick. intros Hne Hnd Hp.
  pose proof (sort_perm l) as Hperm. pose proof (sort_sorted l) as Hss.
  destruct (sort l) as [|x0 rest] eqn:Es.
  - exfalso. apply Hne. apply Permutation_nil. exact Hperm.
  - assert (Hnd' : NoDup (x0 :: rest)) by (eapply Permutation_NoDup; [symmetry; exact Hperm|exact Hnd]).
    destruct rest as [|y0 rest']; [discriminate|].
    destruct (Nat.eqb_spec (fst x0) (fst y0)) as [Heq|]; [|discriminate].
    exists x0, y0. repeat split.
    + eapply Permutation_in; [exact Hperm|]. cbn; auto.
    + eapply Permutation_in; [exact Hperm|]. cbn; auto.
    + intros ->. inversion Hnd' as [|? ? Hna _]; subst. apply Hna. cbn; auto.
    + exact Heq.
    + intros z Hz. apply (Permutation_in (l' := x0 :: y0 :: rest')) in Hz; [|symmetry; exact Hperm].
      inversion Hss as [|? ? _ Hall]; subst. destruct Hz as [->|Hz]; [lia|].
      rewrite Forall_forall in Hall. specialize (Hall z Hz). exact Hall.
Qed.

Lemma sort_nonempty l : l <> [] -> sort l <> [].
Proof.
  intros Hne Hs. apply Hne. apply Permutation_nil. rewrite <- Hs. apply sort_perm.
Qed.
