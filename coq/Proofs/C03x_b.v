(* C03x proofs, part 2: the two passes of parse_barcode_file on printed files, int() on printed indices,
   the three layouts, the degenerate index-first files, composition with the lookup theorems *)
From Coq Require Import ZArith List Bool Arith Lia DecimalZ DecimalPos.
Import ListNotations.
From SCMO Require Import Lib.Val Lib.PyInt Gen.GenBarcode Model.C03 Model.C03x.
From SCMO Require Import Proofs.C03 Proofs.C03_b Proofs.C03_c Proofs.C03x.
Open Scope Z_scope.

Theorem parse_reduces maxd rows : rows_okb rows = true ->
  parse_file maxd (print_rows rows) =
  second_pass maxd (existsb first_is_barcode (map r_toks rows)) 0 (map r_toks rows).
Proof. intros H. unfold parse_file, file_index_not_first. rewrite tokenise_printed by exact H. reflexivity. Qed.

(* ------------------------------------------------------------------ pass 2, line by line *)
Definition item_of (maxd : nat) (inf : bool) (i : Z) (p : list str) : option (str * index) :=
  let n := Z.of_nat (length p) in
  if gen_is_single n then Some (nth 0 p [], IInt (gen_lineno_index i))
  else if gen_is_pair n then
    match p with
    | [a; b] => Some (if inf then a else b, index_rule maxd (if inf then b else a))
    | _ => None
    end
  else None.

Lemma second_pass_cons maxd inf i p ps :
  second_pass maxd inf i (p :: ps) =
  match item_of maxd inf i p with
  | None => None
  | Some it => option_map (cons it) (second_pass maxd inf (i + 1) ps)
  end.
Proof. reflexivity. Qed.

Lemma item_nil maxd inf i : item_of maxd inf i [] = None.
Proof. reflexivity. Qed.
Lemma item_single maxd inf i a : item_of maxd inf i [a] = Some (a, IInt (i + 1)).
Proof. reflexivity. Qed.
Lemma item_pair maxd inf i a b :
  item_of maxd inf i [a; b] = Some (if inf then a else b, index_rule maxd (if inf then b else a)).
Proof. reflexivity. Qed.
Lemma item_many maxd inf i a b c p : item_of maxd inf i (a :: b :: c :: p) = None.
Proof.
  unfold item_of. rewrite gen_is_single_shape, gen_is_pair_shape. cbn [length].
  destruct (_ =? 1) eqn:E1; [apply Z.eqb_eq in E1; lia|].
  destruct (_ =? 2) eqn:E2; [apply Z.eqb_eq in E2; lia|]. reflexivity.
Qed.

(* ValueError exactly when some line has a number of columns other than 1 or 2 (a blank line has 0) *)
Lemma second_pass_none_iff maxd inf : forall ps i,
  second_pass maxd inf i ps = None <-> exists p, In p ps /\ length p <> 1%nat /\ length p <> 2%nat.
Proof.
  induction ps as [|p0 ps IH]; intros i.
  - cbn. split; [discriminate|]. intros (p & [] & _).
  - rewrite second_pass_cons.
    assert (Hsome : forall it, item_of maxd inf i p0 = Some it -> (length p0 = 1%nat \/ length p0 = 2%nat) ->
              (match item_of maxd inf i p0 with None => None | Some it => option_map (cons it) (second_pass maxd inf (i + 1) ps) end = None
               <-> exists p, In p (p0 :: ps) /\ length p <> 1%nat /\ length p <> 2%nat)).
    { intros it Hit Hlen. rewrite Hit. destruct (second_pass maxd inf (i + 1) ps) eqn:R; cbn [option_map].
      - split; [discriminate|]. intros (p & [<-|Hin] & H1 & H2); [lia|].
        assert (Hn : second_pass maxd inf (i + 1) ps = None) by (apply IH; exists p; auto). congruence.
      - split; [intros _|reflexivity]. apply IH in R. destruct R as (p & Hin & H). exists p. split; [right; exact Hin|exact H]. }
    destruct p0 as [|x [|y [|z p']]].
    + rewrite item_nil. split; [intros _|reflexivity]. exists []. cbn. repeat split; auto; discriminate.
    + apply (Hsome _ (item_single _ _ _ _)). left. reflexivity.
    + apply (Hsome _ (item_pair _ _ _ _ _)). right. reflexivity.
    + rewrite item_many. split; [intros _|reflexivity]. exists (x :: y :: z :: p'). cbn [In length].
      repeat split; auto; lia.
Qed.

Fixpoint number_from (i : Z) (bcs : list str) : list (str * index) :=
  match bcs with [] => [] | b :: r => (b, IInt (i + 1)) :: number_from (i + 1) r end.

Lemma second_pass_singles maxd inf : forall bcs i,
  second_pass maxd inf i (map (fun b => [b]) bcs) = Some (number_from i bcs).
Proof.
  induction bcs as [|b r IH]; intros i; [reflexivity|].
  cbn [map]. rewrite second_pass_cons, item_single, IH. reflexivity.
Qed.

Lemma second_pass_pairs maxd inf : forall (pairs : list (str * str)) i,
  second_pass maxd inf i (map (fun p => [fst p; snd p]) pairs) =
  Some (map (fun p => (if inf then fst p else snd p, index_rule maxd (if inf then snd p else fst p))) pairs).
Proof.
  induction pairs as [|p r IH]; intros i; [reflexivity|].
  cbn [map]. rewrite second_pass_cons, item_pair, IH. reflexivity.
Qed.

Lemma detect_singles bcs : existsb first_is_barcode (map (fun b : str => [b]) bcs) = false.
Proof. induction bcs as [|b r IH]; [reflexivity|]. cbn [map existsb]. rewrite IH. reflexivity. Qed.

Lemma detect_pairs (pairs : list (str * str)) :
  existsb first_is_barcode (map (fun p => [fst p; snd p]) pairs) = existsb (fun p => is_barcode_token (fst p)) pairs.
Proof. induction pairs as [|p r IH]; [reflexivity|]. cbn [map existsb]. rewrite IH. reflexivity. Qed.

(* every 2-column file of admissible tokens, whatever they are: the column order is decided by whether SOME
   first token is made of column-class characters only, and applied to every line *)
Theorem two_column_exact maxd (drows : list (row * (str * str))) :
  let rows := map (fun dr => mkRow (r_lead (fst dr)) [fst (snd dr); snd (snd dr)] (r_sep (fst dr))
                                   (r_trail (fst dr)) (r_eol (fst dr))) drows in
  let pairs := map snd drows in
  rows_okb rows = true ->
  parse_file maxd (print_rows rows) =
  Some (if existsb (fun p => is_barcode_token (fst p)) pairs
        then map (fun p => (fst p, index_rule maxd (snd p))) pairs
        else map (fun p => (snd p, index_rule maxd (fst p))) pairs).
Proof.
  intros rows pairs H. rewrite parse_reduces by exact H.
  assert (E : map r_toks rows = map (fun p => [fst p; snd p]) pairs).
  { unfold rows, pairs. rewrite !map_map. reflexivity. }
  rewrite E, detect_pairs, second_pass_pairs.
  destruct (existsb _ pairs); reflexivity.
Qed.

(* ------------------------------------------------------------------ int() on a printed integer *)
Lemma int_body_digit c d s prev :
  c <> 95 -> digit_val c = Some d -> int_body (c :: s) prev = option_map (dcons d) (int_body s true).
Proof.
  intros Hc Hd. cbn [int_body]. destruct (c =? 95) eqn:E; [apply Z.eqb_eq in E; contradiction|].
  rewrite Hd. reflexivity.
Qed.

Lemma int_body_udigits u : forall prev,
  int_body (udigits u) prev = match u with Decimal.Nil => if prev then Some Decimal.Nil else None | _ => Some u end.
Proof.
  induction u as [|u IH|u IH|u IH|u IH|u IH|u IH|u IH|u IH|u IH|u IH]; intros prev; cbn [udigits];
    [reflexivity| | | | | | | | | |];
    match goal with |- int_body (?c :: _) _ = _ =>
      rewrite (int_body_digit c (c - 48)) by (try discriminate; vm_compute; reflexivity) end;
    rewrite IH; destruct u; reflexivity.
Qed.

Lemma ulen_udigits u : ulen u = length (udigits u).
Proof. induction u; cbn [ulen udigits length]; congruence. Qed.

Lemma udigits_range u : Forall (fun c => 48 <= c <= 57) (udigits u).
Proof. induction u; cbn [udigits]; constructor; try lia; assumption. Qed.

Lemma udigits_nonnil u : u <> Decimal.Nil -> exists c rest, udigits u = c :: rest /\ 48 <= c <= 57.
Proof. destruct u; intros H; [congruence| | | | | | | | | |]; cbn [udigits]; eexists; eexists; (split; [reflexivity|lia]). Qed.

Lemma to_int_nonnil z : match Z.to_int z with Decimal.Pos u => u <> Decimal.Nil | Decimal.Neg u => u <> Decimal.Nil end.
Proof. destruct z; cbn; [discriminate|apply Unsigned.to_uint_nonnil|apply Unsigned.to_uint_nonnil]. Qed.

Definition limit_hit (maxd : nat) (u : Decimal.uint) : bool := Nat.ltb 0 maxd && Nat.ltb maxd (ulen u).

Lemma int_of_token_unsigned maxd c r : c <> 45 -> c <> 43 ->
  int_of_token maxd (c :: r) =
  match int_body (c :: r) false with
  | None => None
  | Some u => if limit_hit maxd u then None else Some (Z.of_int (Decimal.Pos u))
  end.
Proof.
  intros H1 H2. unfold int_of_token.
  destruct (c =? 45) eqn:E1; [apply Z.eqb_eq in E1; contradiction|].
  destruct (c =? 43) eqn:E2; [apply Z.eqb_eq in E2; contradiction|]. reflexivity.
Qed.

Lemma int_of_token_neg maxd r :
  int_of_token maxd (45 :: r) =
  match int_body r false with
  | None => None
  | Some u => if limit_hit maxd u then None else Some (Z.of_int (Decimal.Neg u))
  end.
Proof. reflexivity. Qed.

Lemma limit_ok maxd u (s : str) : (maxd = 0%nat \/ (length s <= maxd)%nat) -> (ulen u <= length s)%nat -> limit_hit maxd u = false.
Proof.
  intros H Hu. unfold limit_hit. destruct H as [->|H]; [reflexivity|].
  apply andb_false_iff. right. apply Nat.ltb_ge. lia.
Qed.

(* int(str(z)) = z for every integer z (within the digit limit of the interpreter) *)
Theorem int_of_token_dec maxd z :
  (maxd = 0%nat \/ (length (dec_of_Z z) <= maxd)%nat) -> int_of_token maxd (dec_of_Z z) = Some z.
Proof.
  unfold dec_of_Z. pose proof (DecimalZ.of_to z) as Hz. pose proof (to_int_nonnil z) as Hn.
  destruct (Z.to_int z) as [u|u]; intros Hlim.
  - destruct (udigits_nonnil u Hn) as (c & rest & E & Hc).
    rewrite E, int_of_token_unsigned by lia. rewrite <- E, int_body_udigits.
    destruct u; [congruence| | | | | | | | | |];
      (rewrite (limit_ok maxd _ _ Hlim) by (rewrite ulen_udigits; apply Nat.le_refl); rewrite Hz; reflexivity).
  - rewrite int_of_token_neg, int_body_udigits.
    destruct u; [congruence| | | | | | | | | |];
      (rewrite (limit_ok maxd _ _ Hlim) by (rewrite ulen_udigits; cbn [length]; lia); rewrite Hz; reflexivity).
Qed.

Lemma dec_chars z : Forall (fun c => c = 45 \/ 48 <= c <= 57) (dec_of_Z z).
Proof.
  unfold dec_of_Z. destruct (Z.to_int z) as [u|u]; [|constructor; [left; reflexivity|]];
  (eapply Forall_impl; [|apply udigits_range]); intros c Hc; right; exact Hc.
Qed.

Lemma dec_has_digit z : exists c, In c (dec_of_Z z) /\ 48 <= c <= 57.
Proof.
  unfold dec_of_Z. pose proof (to_int_nonnil z) as Hn. destruct (Z.to_int z) as [u|u];
    destruct (udigits_nonnil u Hn) as (c & rest & E & Hc); exists c; rewrite E; cbn [In]; auto.
Qed.

Lemma digit_nonspace c : c = 45 \/ 48 <= c <= 57 -> is_space c = false.
Proof.
  intros H.
  assert (Hc : c = 45 \/ c = 48 \/ c = 49 \/ c = 50 \/ c = 51 \/ c = 52 \/ c = 53 \/ c = 54 \/ c = 55 \/ c = 56 \/ c = 57) by lia.
  repeat (destruct Hc as [->|Hc]; [vm_compute; reflexivity|]). subst c. vm_compute. reflexivity.
Qed.

Lemma dec_tok_ok z : tok_okb (dec_of_Z z) = true.
Proof.
  unfold tok_okb. apply andb_true_intro. split.
  - destruct (dec_has_digit z) as (c & Hc & _). destruct (dec_of_Z z); [contradiction|reflexivity].
  - apply forallb_forall. intros c Hc. apply negb_true_iff. apply digit_nonspace.
    pose proof (dec_chars z) as H. rewrite Forall_forall in H. exact (H c Hc).
Qed.

Lemma dec_not_barcode z : is_barcode_token (dec_of_Z z) = false.
Proof. apply digit_token_not_barcode. apply dec_has_digit. Qed.

(* the index rule of the code is inverted by printing *)
Theorem index_rule_print maxd ix : idx_okb maxd ix = true -> index_rule maxd (print_index ix) = ix.
Proof.
  destruct ix as [z|s]; cbn [idx_okb print_index]; intros H; unfold index_rule.
  - rewrite int_of_token_dec; [reflexivity|]. apply orb_prop in H. destruct H as [H|H].
    + left. apply Nat.eqb_eq. exact H.
    + right. apply Nat.leb_le. exact H.
  - apply andb_prop in H. destruct H as [_ H]. destruct (int_of_token maxd s); [discriminate|reflexivity].
Qed.

Lemma idx_tok_ok maxd ix : idx_okb maxd ix = true -> tok_okb (print_index ix) = true.
Proof.
  destruct ix as [z|s]; cbn [idx_okb print_index]; intros H; [apply dec_tok_ok|].
  apply andb_prop in H. tauto.
Qed.

(* ------------------------------------------------------------------ barcodes over ACGTN as tokens *)
Lemma alphabet_chars_plain :
  forallb (fun c => negb (is_space c) && negb (c =? 45) && negb (c =? 43) && negb (c =? 95) &&
                    match digit_val c with None => true | Some _ => false end) alphabet = true.
Proof. vm_compute. reflexivity. Qed.

Lemma alphabet_char_plain c : existsb (Z.eqb c) alphabet = true ->
  is_space c = false /\ c <> 45 /\ c <> 43 /\ c <> 95 /\ digit_val c = None.
Proof.
  intros H. apply existsb_exists in H. destruct H as (a & Ha & E). apply Z.eqb_eq in E. subst a.
  pose proof alphabet_chars_plain as P. rewrite forallb_forall in P. specialize (P c Ha).
  repeat (apply andb_prop in P; destruct P as [P ?]).
  repeat match goal with H : negb _ = true |- _ => apply negb_true_iff in H end.
  repeat match goal with H : (_ =? _) = false |- _ => apply Z.eqb_neq in H end.
  destruct (digit_val c); [discriminate|]. auto.
Qed.

Lemma bc_tok_ok bc : bc_okb bc = true -> tok_okb bc = true.
Proof.
  unfold bc_okb, tok_okb, in_alphabet. intros H. apply andb_prop in H. destruct H as [Hn Ha].
  rewrite Hn. cbn [andb]. apply forallb_forall. intros c Hc. rewrite forallb_forall in Ha.
  apply negb_true_iff. apply (alphabet_char_plain c (Ha c Hc)).
Qed.

Lemma bc_is_barcode bc : bc_okb bc = true -> is_barcode_token bc = true.
Proof. unfold bc_okb. intros H. apply andb_prop in H. apply barcode_token_wf. tauto. Qed.

Lemma bc_index_rule maxd bc : bc_okb bc = true -> index_rule maxd bc = IStr bc.
Proof.
  unfold bc_okb, in_alphabet. intros H. apply andb_prop in H. destruct H as [Hn Ha].
  destruct bc as [|c r]; [discriminate|]. cbn [forallb] in Ha. apply andb_prop in Ha. destruct Ha as [Hc _].
  destruct (alphabet_char_plain c Hc) as (_ & H45 & H43 & H95 & Hd).
  unfold index_rule. rewrite int_of_token_unsigned by assumption.
  cbn [int_body]. destruct (c =? 95) eqn:E; [apply Z.eqb_eq in E; contradiction|]. rewrite Hd. reflexivity.
Qed.

(* ------------------------------------------------------------------ the three layouts *)

Lemma toks_one ws : map r_toks (map (row_of LOne) ws) = map (fun b => [b]) (map wbc ws).
Proof. rewrite !map_map. reflexivity. Qed.
Lemma toks_bf ws : map r_toks (map (row_of LBarcodeFirst) ws) =
  map (fun p => [fst p; snd p]) (map (fun w => (wbc w, print_index (wix w))) ws).
Proof. rewrite !map_map. reflexivity. Qed.
Lemma toks_if ws : map r_toks (map (row_of LIndexFirst) ws) =
  map (fun p => [fst p; snd p]) (map (fun w => (print_index (wix w), wbc w)) ws).
Proof. rewrite !map_map. reflexivity. Qed.

Lemma index_eqb_eq a b : index_eqb a b = true -> a = b.
Proof.
  destruct a as [x|x], b as [y|y]; cbn [index_eqb]; intros H; try discriminate.
  - apply Z.eqb_eq in H. congruence.
  - apply str_eqb_eq in H. congruence.
Qed.

Lemma number_from_numbered : forall ws i, line_numbered i ws = true -> number_from i (map wbc ws) = map swap_w ws.
Proof.
  induction ws as [|w r IH]; intros i H; [reflexivity|].
  cbn [line_numbered] in H. apply andb_prop in H. destruct H as [Hw Hr]. apply index_eqb_eq in Hw.
  cbn [map number_from]. rewrite IH by exact Hr. unfold swap_w, wbc. rewrite Hw. reflexivity.
Qed.

Record wl_ok (maxd : nat) (ly : layout) (ws : list wrow) : Prop := {
  wk_rows : rows_okb (map (row_of ly) ws) = true;
  wk_bc : forall w, In w ws -> bc_okb (wbc w) = true;
  wk_num : ly = LOne -> line_numbered 0 ws = true;
  wk_idx : ly <> LOne -> forall w, In w ws -> idx_okb maxd (wix w) = true }.

Lemma wl_okb_inv maxd ly ws : wl_okb maxd ly ws = true -> wl_ok maxd ly ws.
Proof.
  unfold wl_okb. intros H. apply andb_prop in H. destruct H as [H H3]. apply andb_prop in H. destruct H as [H1 H2].
  rewrite forallb_forall in H2. constructor; [exact H1|exact H2| |].
  - intros ->. exact H3.
  - intros Hly w Hw. destruct ly; [congruence| |]; rewrite forallb_forall in H3; exact (H3 w Hw).
Qed.

Lemma map_ext_in' {A B} (f g : A -> B) l : (forall a, In a l -> f a = g a) -> map f l = map g l.
Proof. apply map_ext_in. Qed.

Lemma degenerate_eq ws : degenerate ws = existsb (fun p : str * str => is_barcode_token (fst p))
                                                 (map (fun w => (print_index (wix w), wbc w)) ws).
Proof. unfold degenerate. induction ws as [|w r IH]; [reflexivity|]. cbn [map existsb fst]. rewrite IH. reflexivity. Qed.

(* an index-first file: exact result, degenerate or not *)
Theorem file_index_first_exact maxd ws : wl_okb maxd LIndexFirst ws = true ->
  parse_file maxd (print_wl LIndexFirst ws) =
  Some (if degenerate ws then map (fun w => (print_index (wix w), IStr (wbc w))) ws else map swap_w ws).
Proof.
  intros H. apply wl_okb_inv in H. destruct H as [Hrows Hbc _ Hidx].
  unfold print_wl. rewrite parse_reduces by exact Hrows. rewrite toks_if, detect_pairs, second_pass_pairs.
  rewrite <- degenerate_eq. rewrite map_map. cbn [fst snd]. destruct (degenerate ws); f_equal; apply map_ext_in; intros w Hw.
  - rewrite bc_index_rule by (apply Hbc; exact Hw). reflexivity.
  - rewrite index_rule_print by (apply Hidx; [discriminate|exact Hw]). reflexivity.
Qed.

Theorem file_barcode_first_exact maxd ws : wl_okb maxd LBarcodeFirst ws = true ->
  parse_file maxd (print_wl LBarcodeFirst ws) = Some (map swap_w ws).
Proof.
  intros H. apply wl_okb_inv in H. destruct H as [Hrows Hbc _ Hidx].
  unfold print_wl. rewrite parse_reduces by exact Hrows. rewrite toks_bf, detect_pairs, second_pass_pairs.
  destruct ws as [|w0 r]; [reflexivity|].
  replace (existsb _ _) with true.
  - rewrite map_map. cbn [fst snd]. f_equal. apply map_ext_in. intros w Hw.
    rewrite index_rule_print by (apply Hidx; [discriminate|exact Hw]). reflexivity.
  - cbn [map existsb fst]. rewrite bc_is_barcode by (apply Hbc; left; reflexivity). reflexivity.
Qed.

Theorem file_one_column_exact maxd ws : wl_okb maxd LOne ws = true ->
  parse_file maxd (print_wl LOne ws) = Some (map swap_w ws).
Proof.
  intros H. apply wl_okb_inv in H. destruct H as [Hrows _ Hnum _].
  unfold print_wl. rewrite parse_reduces by exact Hrows. rewrite toks_one, second_pass_singles.
  rewrite number_from_numbered by (apply Hnum; reflexivity). reflexivity.
Qed.

(* print / parse round trip, all layouts *)
Theorem file_roundtrip maxd ly ws :
  wl_okb maxd ly ws = true -> (ly = LIndexFirst -> degenerate ws = false) ->
  parse_file maxd (print_wl ly ws) = Some (map swap_w ws).
Proof.
  intros H Hd. destruct ly.
  - apply file_one_column_exact. exact H.
  - apply file_barcode_first_exact. exact H.
  - rewrite file_index_first_exact by exact H. rewrite Hd by reflexivity. reflexivity.
Qed.

(* the detected column order of a printed whitelist *)
Theorem file_detect maxd ly ws : wl_okb maxd ly ws = true ->
  file_index_not_first (file_parts (print_wl ly ws)) =
  match ly with LOne => false | LBarcodeFirst => negb (is_nil ws) | LIndexFirst => degenerate ws end.
Proof.
  intros H. apply wl_okb_inv in H. destruct H as [Hrows Hbc _ _].
  unfold print_wl, file_index_not_first. rewrite tokenise_printed by exact Hrows. destruct ly.
  - rewrite toks_one. apply detect_singles.
  - rewrite toks_bf, detect_pairs. destruct ws as [|w0 r]; [reflexivity|].
    cbn [map existsb fst is_nil negb]. rewrite bc_is_barcode by (apply Hbc; left; reflexivity). reflexivity.
  - rewrite toks_if, detect_pairs, <- degenerate_eq. reflexivity.
Qed.

(* degenerate = some index is a string made of column-class characters only; integers never are *)
Theorem degenerate_iff ws :
  degenerate ws = true <-> exists w s, In w ws /\ wix w = IStr s /\ is_barcode_token s = true.
Proof.
  unfold degenerate. rewrite existsb_exists. split.
  - intros (w & Hw & Hb). fold (wix w) in Hb. destruct (wix w) as [z|s] eqn:E; cbn [print_index] in Hb.
    + rewrite dec_not_barcode in Hb. discriminate.
    + exists w, s. auto.
  - intros (w & s & Hw & E & Hb). exists w. split; [exact Hw|]. fold (wix w). rewrite E. exact Hb.
Qed.

(* a file is refused exactly when some line has 0 or more than 2 columns *)
Theorem file_raises_iff maxd rows : rows_okb rows = true ->
  (parse_file maxd (print_rows rows) = None <->
   exists r, In r rows /\ length (r_toks r) <> 1%nat /\ length (r_toks r) <> 2%nat).
Proof.
  intros H. rewrite parse_reduces by exact H. rewrite second_pass_none_iff. split.
  - intros (p & Hp & Hl). apply in_map_iff in Hp. destruct Hp as (r & <- & Hr). exists r. auto.
  - intros (r & Hr & Hl). exists (r_toks r). split; [apply in_map; exact Hr|exact Hl].
Qed.

(* ------------------------------------------------------------------ file -> tables -> lookup *)
Lemma index_of_numbered num l b : index_of (numbered num l) b = option_map num (index_ofx l b).
Proof.
  unfold index_of, index_ofx, numbered. rewrite <- map_rev. generalize (rev l). intros l0.
  induction l0 as [|e l0 IH]; [reflexivity|]. cbn [map find fst]. destruct (str_eqb b (fst e)); [reflexivity|exact IH].
Qed.

Lemma map_fst_numbered num l : map fst (numbered num l) = map fst l.
Proof. unfold numbered. rewrite map_map. reflexivity. Qed.

Lemma wf_lines_numbered num l : (forall e, In e l -> in_alphabet (fst e) = true) -> wf_lines (numbered num l) = true.
Proof.
  intros H. unfold wf_lines, numbered. apply forallb_forall. intros x Hx. apply in_map_iff in Hx.
  destruct Hx as (e & <- & He). cbn [fst]. apply H. exact He.
Qed.

Lemma map_fst_swap ws : map fst (map swap_w ws) = map wbc ws.
Proof. rewrite map_map. reflexivity. Qed.

(* END TO END: a printed whitelist file, read by parse_barcode_file, expanded and queried *)
Theorem file_lookup_iff num maxd k ly ws q :
  wl_okb maxd ly ws = true -> (ly = LIndexFirst -> degenerate ws = false) -> in_alphabet q = true ->
  exists t, file_tables num maxd k (print_wl ly ws) = Some (Ok t) /\
  forall i b d,
    lookup t q = Some (i, b, d) <->
    (In b (map wbc ws) /\ length q = length b /\ d = hamming q b /\ (d <= k)%nat /\
     forall b', In b' (map wbc ws) -> b' <> b -> length b' = length q -> (d < hamming q b')%nat)
    /\ exists ix, index_ofx (map swap_w ws) b = Some ix /\ i = num ix.
Proof.
  intros H Hd Hq. pose proof (file_roundtrip maxd ly ws H Hd) as Hp.
  apply wl_okb_inv in H. destruct H as [_ Hbc _ _].
  set (lines := numbered num (map swap_w ws)).
  destruct (eager_tables_ok lines k) as (t & tx & Ht & _ & _).
  exists t. split.
  - unfold file_tables, file_lines. rewrite Hp. cbn [option_map]. fold lines. rewrite Ht. reflexivity.
  - assert (Hwf : wf_lines lines = true).
    { apply wf_lines_numbered. intros e He. apply in_map_iff in He. destruct He as (w & <- & Hw).
      cbn [swap_w fst]. specialize (Hbc w Hw). unfold bc_okb in Hbc. apply andb_prop in Hbc. tauto. }
    intros i b d. rewrite (eager_assign_iff lines k t q Ht Hwf Hq i b d).
    unfold nearest, whitelisted, lines. rewrite map_fst_numbered, map_fst_swap, index_of_numbered.
    split; intros [Hn Hi]; (split; [exact Hn|]).
    + destruct (index_ofx (map swap_w ws) b) as [ix|]; [|discriminate]. cbn [option_map] in Hi.
      exists ix. split; [reflexivity|congruence].
    + destruct Hi as (ix & E & ->). rewrite E. reflexivity.
Qed.

(* exact members of a printed whitelist map to themselves at distance 0 *)
Theorem file_exact_self num maxd k ly ws b :
  wl_okb maxd ly ws = true -> (ly = LIndexFirst -> degenerate ws = false) -> In b (map wbc ws) ->
  exists t ix, file_tables num maxd k (print_wl ly ws) = Some (Ok t) /\
               index_ofx (map swap_w ws) b = Some ix /\ lookup t b = Some (num ix, b, 0%nat).
Proof.
  intros H Hd Hb. pose proof (file_roundtrip maxd ly ws H Hd) as Hp.
  set (lines := numbered num (map swap_w ws)).
  destruct (eager_tables_ok lines k) as (t & tx & Ht & _ & _).
  assert (Hw : whitelisted lines b).
  { unfold whitelisted, lines. rewrite map_fst_numbered, map_fst_swap. exact Hb. }
  destruct (exact_self lines k t b Ht Hw) as (i & Hi & Hl).
  unfold lines in Hi. rewrite index_of_numbered in Hi.
  destruct (index_ofx (map swap_w ws) b) as [ix|] eqn:E; [|discriminate]. cbn [option_map] in Hi.
  exists t, ix. split; [|split; [reflexivity|]].
  - unfold file_tables, file_lines. rewrite Hp. cbn [option_map]. fold lines. rewrite Ht. reflexivity.
  - rewrite Hl. congruence.
Qed.

(* lazily loaded file = eagerly loaded file, for every history of operations (counts masked) *)
Theorem file_lazy_eq_eager num maxd k text ops :
  match file_run num maxd k true text ops, file_run num maxd k false text ops with
  | Some a, Some b => map mask a = map mask b
  | None, None => parse_file maxd text = None
  | _, _ => False
  end.
Proof.
  unfold file_run, file_lines. destruct (parse_file maxd text) as [l|]; cbn [option_map]; [|reflexivity].
  destruct (lazy_eq_eager_ops (numbered num l) k ops) as (p & Hp & E). rewrite Hp. exact E.
Qed.

(* ------------------------------------------------------------------ the degenerate index-first file: a genuine
   mis-read.  One index token made of letters of the column class ('N' here) turns the whole file around: the
   whitelisted barcode AA is not found any more (it became an index), the barcode table holds the index names. *)
Definition deco_tab_lf : deco := mkDeco [] [9] [] [10].
Definition ws_degenerate : list wrow := [(deco_tab_lf, (IInt 1, [67; 67])); (deco_tab_lf, (IStr [78], [65; 65]))].

Theorem file_index_first_degenerate_refuted :
  wl_okb 4300 LIndexFirst ws_degenerate = true /\
  parse_file 4300 (print_wl LIndexFirst ws_degenerate) <> Some (map swap_w ws_degenerate) /\
  parse_file 4300 (print_wl LIndexFirst ws_degenerate) = Some [([49], IStr [67; 67]); ([78], IStr [65; 65])] /\
  exists t, file_tables (num_of_table [([65; 65], 7); ([67; 67], 8)]) 4300 1 (print_wl LIndexFirst ws_degenerate) = Some (Ok t) /\
            In [65; 65] (map wbc ws_degenerate) /\ lookup t [65; 65] = None.
Proof.
  split; [vm_compute; reflexivity|]. split; [vm_compute; discriminate|]. split; [vm_compute; reflexivity|].
  eexists. split; [vm_compute; reflexivity|]. split; [vm_compute; tauto|]. vm_compute. reflexivity.
Qed.
