(* C12 extension, part (a): get_binned_counts with user regions - exact multiplicity of every record. *)
From Coq Require Import ZArith List Bool Lia ZifyBool Permutation.
Import ListNotations.
From SCMO Require Import Lib.Val Lib.PyInt Lib.PyIntFacts Gen.GenBinCount Model.C12 Model.C12x Proofs.C12_dict.
Open Scope Z_scope.

(* ---- more sums *)
Lemma zcount_as_zsum {A} (f : A -> bool) l : zcount f l = zsum (fun x => if f x then 1 else 0) l.
Proof. induction l as [|x l IH]; [reflexivity|]. rewrite zcount_cons, zsum_cons, IH. reflexivity. Qed.

Lemma zcount_map {A B} (f : B -> bool) (g : A -> B) l : zcount f (map g l) = zcount (fun x => f (g x)) l.
Proof. induction l as [|x l IH]; [reflexivity|]. cbn [map]. rewrite !zcount_cons, IH. reflexivity. Qed.

Lemma zcount_app {A} (f : A -> bool) l l' : zcount f (l ++ l') = zcount f l + zcount f l'.
Proof. induction l as [|x l IH]; [reflexivity|]. rewrite <- app_comm_cons, !zcount_cons, IH. lia. Qed.

Lemma zcount_flat_map {A B} (f : B -> bool) (g : A -> list B) l :
  zcount f (flat_map g l) = zsum (fun x => zcount f (g x)) l.
Proof. induction l as [|x l IH]; [reflexivity|]. cbn [flat_map]. rewrite zcount_app, zsum_cons, IH. reflexivity. Qed.

Lemma zcount_pos_iff {A} (f : A -> bool) l : 0 < zcount f l <-> exists x, In x l /\ f x = true.
Proof.
  induction l as [|x l IH].
  - split; [cbn; lia|intros (x & [] & _)].
  - rewrite zcount_cons. pose proof (zcount_nonneg f l) as Hn. destruct (f x) eqn:E.
    + split; [intros _; exists x; split; [left; reflexivity|exact E]|lia].
    + rewrite Z.add_0_l, IH. split.
      * intros (y & Hy & Hf). exists y. split; [right; exact Hy|exact Hf].
      * intros (y & [->|Hy] & Hf); [congruence|]. exists y. auto.
Qed.

Lemma zsum_swap {A B} (F : A -> B -> Z) la lb :
  zsum (fun a => zsum (fun b => F a b) lb) la = zsum (fun b => zsum (fun a => F a b) la) lb.
Proof.
  induction la as [|a la IH].
  - cbn [zsum fold_right]. symmetry. apply zsum_zero. reflexivity.
  - rewrite zsum_cons, IH. rewrite <- zsum_add. apply zsum_ext_in. intros b _. rewrite zsum_cons. reflexivity.
Qed.

Lemma zsum_nonneg {A} (f : A -> Z) l : (forall x, In x l -> 0 <= f x) -> 0 <= zsum f l.
Proof.
  induction l as [|x l IH]; intros H; [reflexivity|]. rewrite zsum_cons.
  assert (0 <= f x) by (apply H; left; reflexivity). assert (0 <= zsum f l) by (apply IH; intros y Hy; apply H; right; exact Hy). lia.
Qed.

(* ---- the region counter in terms of [region_hit] *)
Definition rsite (r : rread) : Z := snd r.
Definition region_hits (fs : Z) (regions : list (Z * Z)) (reads : list rread) : list rread :=
  flat_map (fun rg => filter (region_hit fs rg) reads) regions.

Lemma region_counts_unfold fs bin regions reads :
  region_counts fs bin regions reads
  = let bins := map (fun r => g_region_bin (rsite r) bin) (region_hits fs regions reads) in
    map (fun b => (b, zcount (Z.eqb b) bins)) (nodup Z.eq_dec bins).
Proof. reflexivity. Qed.

(* the window of a region as coded: [max(0, start - fs), stop], both ends inclusive; plus the two fetch conditions *)
Lemma region_hit_iff fs a stop lo hi s :
  region_hit fs (a, stop) (lo, hi, s) = true
  <-> Z.max 0 (a - fs) <= s <= stop /\ lo < stop /\ Z.max 0 (a - fs) < hi.
Proof. unfold region_hit, g_region_start, g_region_skip. cbn [fst snd]. lia. Qed.

(* for a record whose site lies inside its aligned span: counted iff the site is in the half-open window, or exactly
   on the (inclusive) stop while the record starts before it *)
Lemma region_hit_inside fs a stop lo hi s : lo <= s < hi ->
  region_hit fs (a, stop) (lo, hi, s) = true
  <-> (Z.max 0 (a - fs) <= s < stop) \/ (s = stop /\ lo < stop /\ Z.max 0 (a - fs) <= stop).
Proof. intros H. rewrite region_hit_iff. lia. Qed.

Lemma region_hit_window fs rg r : region_hit fs rg r = true -> g_region_start (fst rg) fs <= rsite r <= snd rg.
Proof.
  destruct rg as [a stop], r as [[lo hi] s]. intros H. apply region_hit_iff in H. unfold g_region_start, rsite. cbn [fst snd]. lia.
Qed.

(* count of one bin = sum over the records of that bin of the number of regions that count the record *)
Lemma region_bin_count fs bin regions reads b :
  zcount (Z.eqb b) (map (fun r => g_region_bin (rsite r) bin) (region_hits fs regions reads))
  = zsum (fun r => if g_region_bin (rsite r) bin =? b then region_mult fs regions r else 0) reads.
Proof.
  rewrite zcount_map. unfold region_hits. rewrite zcount_flat_map.
  rewrite (zsum_ext_in _ (fun rg => zsum (fun r => if region_hit fs rg r && (g_region_bin (rsite r) bin =? b) then 1 else 0) reads)).
  - rewrite zsum_swap. apply zsum_ext_in. intros r _. unfold region_mult. rewrite zcount_as_zsum.
    destruct (g_region_bin (rsite r) bin =? b).
    + apply zsum_ext_in. intros rg _. rewrite andb_true_r. reflexivity.
    + apply zsum_zero. intros rg _. rewrite andb_false_r. reflexivity.
  - intros rg _. rewrite zcount_filter, zcount_as_zsum. apply zsum_ext_in. intros r _.
    rewrite (Z.eqb_sym b). reflexivity.
Qed.

Lemma regions_exact fs bin regions reads b n :
  In (b, n) (region_counts fs bin regions reads)
  <-> 0 < n /\ n = zsum (fun r => if g_region_bin (rsite r) bin =? b then region_mult fs regions r else 0) reads.
Proof.
  rewrite region_counts_unfold. cbv zeta. rewrite in_map_iff. rewrite <- region_bin_count.
  set (bins := map _ (region_hits fs regions reads)). split.
  - intros (b' & Heq & Hin). inversion Heq; subst. apply nodup_In in Hin. split; [|reflexivity].
    apply zcount_pos_iff. exists b. split; [exact Hin|apply Z.eqb_refl].
  - intros [Hpos ->]. exists b. split; [reflexivity|]. apply nodup_In.
    apply zcount_pos_iff in Hpos. destruct Hpos as (x & Hx & He). apply Z.eqb_eq in He. subst. exact Hx.
Qed.

(* the bins reported are distinct (a DataFrame index) *)
Lemma regions_keys_NoDup fs bin regions reads : NoDup (map fst (region_counts fs bin regions reads)).
Proof. rewrite region_counts_unfold. cbv zeta. rewrite map_map. cbn [fst]. rewrite map_id. apply NoDup_nodup. Qed.

(* total of the table = sum of the multiplicities *)
Lemma region_hits_length fs regions reads :
  Z.of_nat (length (region_hits fs regions reads)) = zsum (region_mult fs regions) reads.
Proof.
  assert (Hl : forall (l : list rread), Z.of_nat (length l) = zcount (fun _ => true) l).
  { induction l as [|x l IH]; [reflexivity|]. rewrite zcount_cons. cbn [length]. lia. }
  rewrite Hl. unfold region_hits. rewrite zcount_flat_map.
  rewrite (zsum_ext_in _ (fun rg => zsum (fun r => if region_hit fs rg r then 1 else 0) reads)).
  - rewrite zsum_swap. apply zsum_ext_in. intros r _. unfold region_mult. rewrite zcount_as_zsum. reflexivity.
  - intros rg _. rewrite zcount_filter, zcount_as_zsum. apply zsum_ext_in. intros r _. rewrite andb_true_r. reflexivity.
Qed.

Lemma zsum_count_partition (bins : list Z) : zsum (fun b => zcount (Z.eqb b) bins) (nodup Z.eq_dec bins) = Z.of_nat (length bins).
Proof.
  induction bins as [|x l IH]; [reflexivity|]. cbn [nodup length]. destruct (in_dec Z.eq_dec x l) as [Hin|Hnin].
  - rewrite (zsum_ext_in _ (fun b => (if b =? x then 1 else 0) + zcount (Z.eqb b) l)) by (intros b _; rewrite zcount_cons; reflexivity).
    rewrite zsum_add, IH.
    assert (zsum (fun b => if b =? x then 1 else 0) (nodup Z.eq_dec l) = 1); [|lia].
    assert (Hnd := NoDup_nodup Z.eq_dec l). assert (Hx : In x (nodup Z.eq_dec l)) by (apply nodup_In; exact Hin).
    revert Hnd Hx. generalize (nodup Z.eq_dec l) as u. induction u as [|y u IHu]; intros Hnd Hx; [destruct Hx|].
    inversion Hnd as [|? ? Hn Hd]; subst. rewrite zsum_cons. destruct Hx as [->|Hx].
    + rewrite Z.eqb_refl. rewrite zsum_zero; [lia|]. intros z Hz. destruct (z =? x) eqn:E; [|reflexivity].
      apply Z.eqb_eq in E. subst. contradiction.
    + rewrite IHu by assumption. destruct (y =? x) eqn:E; [|lia]. apply Z.eqb_eq in E. subst. contradiction.
  - rewrite zsum_cons, zcount_cons, Z.eqb_refl.
    rewrite (zsum_ext_in _ (fun b => zcount (Z.eqb b) l)).
    + rewrite IH. assert (zcount (Z.eqb x) l = 0); [|lia].
      pose proof (zcount_nonneg (Z.eqb x) l). destruct (Z.eq_dec (zcount (Z.eqb x) l) 0) as [|Hne]; [assumption|].
      exfalso. apply Hnin. assert (Hp : 0 < zcount (Z.eqb x) l) by lia. apply zcount_pos_iff in Hp.
      destruct Hp as (y & Hy & He). apply Z.eqb_eq in He. subst. exact Hy.
    + intros b Hb. rewrite zcount_cons. apply nodup_In in Hb. destruct (b =? x) eqn:E; [|reflexivity].
      apply Z.eqb_eq in E. subst. contradiction.
Qed.

Lemma regions_total fs bin regions reads :
  zsum snd (region_counts fs bin regions reads) = zsum (region_mult fs regions) reads.
Proof.
  rewrite region_counts_unfold. cbv zeta. rewrite zsum_map. cbn [snd].
  rewrite zsum_count_partition, map_length. apply region_hits_length.
Qed.

(* ---- separated regions: nothing is counted twice *)
Lemma win_disjoint_no_double fs rg rg' r : win_disjoint fs rg rg' = true ->
  region_hit fs rg r = true -> region_hit fs rg' r = false.
Proof.
  intros Hd Hh. destruct (region_hit fs rg' r) eqn:E; [|reflexivity]. exfalso.
  apply region_hit_window in Hh, E. unfold win_disjoint in Hd. lia.
Qed.

Lemma separated_mult fs regions r : regions_separated fs regions = true ->
  region_mult fs regions r = if existsb (fun rg => region_hit fs rg r) regions then 1 else 0.
Proof.
  unfold region_mult. induction regions as [|rg t IH]; intros Hs; [reflexivity|].
  cbn [regions_separated] in Hs. apply andb_true_iff in Hs. destruct Hs as [Hd Hs].
  rewrite zcount_cons. cbn [existsb]. destruct (region_hit fs rg r) eqn:E; cbn [orb].
  - rewrite zcount_as_zsum, zsum_zero; [reflexivity|]. intros rg' Hin.
    rewrite forallb_forall in Hd. rewrite (win_disjoint_no_double fs rg rg' r (Hd rg' Hin) E). reflexivity.
  - rewrite IH by exact Hs. lia.
Qed.

Lemma separated_once fs regions r : regions_separated fs regions = true ->
  0 <= region_mult fs regions r <= 1
  /\ (region_mult fs regions r = 1 <-> exists rg, In rg regions /\ region_hit fs rg r = true).
Proof.
  intros Hs. rewrite (separated_mult fs regions r Hs). destruct (existsb _ regions) eqn:E.
  - split; [lia|]. split; [intros _|reflexivity]. apply existsb_exists in E. exact E.
  - split; [lia|]. split; [discriminate|]. intros H. apply existsb_exists in H. congruence.
Qed.

(* what "separated" means for user regions on a coordinate-sorted list: each stop is more than fs before the next start
   (and starts are >= fs, so no clipping) *)
Lemma far_apart_separated fs a b : 0 <= fs -> snd a + fs < fst b -> win_disjoint fs a b = true.
Proof. intros Hf H. unfold win_disjoint, g_region_start. lia. Qed.

(* ---- the region semantics a caller expects (half-open user regions [start, stop)) is NOT what is counted *)
Lemma regions_margin_refuted : exists fs bin regions reads b,
  fs = 1000 /\ regions = [(2000, 4000)] /\ reads = [(1500, 1503, 1500)]
  /\ (forall rg r, In rg regions -> In r reads -> ~ (fst rg <= rsite r < snd rg))
  /\ In (b, 1) (region_counts fs bin regions reads).
Proof.
  exists 1000, 100, [(2000, 4000)], [(1500, 1503, 1500)], 1500.
  split; [reflexivity|split; [reflexivity|split; [reflexivity|split]]].
  - intros rg r [<-|[]] [<-|[]]. cbn. lia.
  - vm_compute. left. reflexivity.
Qed.

(* regions that do not touch but are closer than fs still double count *)
Lemma regions_close_refuted : exists fs regions r,
  fs = 1000 /\ regions = [(0, 2000); (2500, 4000)] /\ region_mult fs regions r = 2.
Proof. exists 1000, [(0, 2000); (2500, 4000)], (1800, 1803, 1800). repeat split. Qed.

(* the sibling counter get_binned_counts_prefixed / _generate_count_dict_prefixed uses the same three expressions
   (regenerated separately, names g_pregion_): everything above applies to it verbatim *)
Lemma pregion_same :
  (forall start fs, g_pregion_start start fs = g_region_start start fs)
  /\ (forall cut start stop, g_pregion_skip cut start stop = g_region_skip cut start stop)
  /\ (forall cut bin, g_pregion_bin cut bin = g_region_bin cut bin).
Proof.
  split; [|split]; intros.
  - first [reflexivity | unfold g_pregion_start, g_region_start; lia].
  - first [reflexivity | unfold g_pregion_skip, g_region_skip; lia].
  - first [reflexivity | unfold g_pregion_bin, g_region_bin; lia].
Qed.
