(* C18 proofs, part e: state-machine refinement.  Along any history (runs with arbitrary settings and
   mode flags sharing one cache directory) every answer equals the mode-independent specification. *)
From Coq Require Import ZArith List Bool Lia Permutation Sorting.Sorted.
Import ListNotations.
From SCMO Require Import Lib.Val Gen.GenAlleles Model.C18 Proofs.C18_s Proofs.C18_a Proofs.C18_b Proofs.C18_c Proofs.C18_d.
Open Scope Z_scope.

Lemma spec_answer_scope v cf q : in_scope cf (query_contig q) = true -> spec_answer v cf q = site_answer v cf q.
Proof. destruct q as [c p b|c p]; cbn [spec_answer site_answer query_contig]; intros ->; reflexivity. Qed.
Lemma spec_answer_out v cf q : in_scope cf (query_contig q) = false ->
  spec_answer v cf q = match q with QGet _ _ _ => ANone | QHas _ _ => ABool false end.
Proof. destruct q as [c p b|c p]; cbn [spec_answer query_contig]; intros ->; reflexivity. Qed.

Section Refine.
  Variable v : vcf.
  Hypothesis Hv : vcf_ok v = true.
  Variable ks : list (cfg * str).
  Hypothesis Hks : names_ok ks = true.

  Lemma same_sem_table cf1 cf2 c : same_sem cf1 cf2 = true -> contig_table v cf1 c = contig_table v cf2 c.
  Proof.
    intros H. unfold contig_table. destruct (valid_contig v c); [|reflexivity].
    unfold load_recs. apply fold_left_ext'. intros t r. rewrite (same_sem_informative cf1 cf2 r H). reflexivity.
  Qed.

  Lemma names_inj k1 k2 : In k1 ks -> In k2 ks ->
    cache_name (fst k1) (snd k1) = cache_name (fst k2) (snd k2) ->
    snd k1 = snd k2 /\ same_sem (fst k1) (fst k2) = true.
  Proof.
    intros H1 H2 E. unfold names_ok in Hks. rewrite forallb_forall in Hks. specialize (Hks k1 H1).
    rewrite forallb_forall in Hks. specialize (Hks k2 H2). rewrite E, seqb_refl in Hks. cbn in Hks.
    apply andb_true_iff in Hks. destruct Hks as [A B]. apply seqb_eq in A. auto.
  Qed.

  Definition good_ct (cf : cfg) (c : str) (ct : ctable) : Prop :=
    (forall p, amem Z.eqb ct p = amem Z.eqb (CT v cf c) p) /\ (forall p b, look3 ct p b = look3 (CT v cf c) p b).
  Definition fs_ok (fs : fsys) : Prop :=
    forall name content, aget seqb fs name = Some content ->
      exists k, In k ks /\ name = cache_name (fst k) (snd k) /\ content = serialise (CT v (fst k) (snd k)).
  Definition st_ok (cf : cfg) (st : table * fsys) : Prop :=
    fs_ok (snd st) /\ forall c, amem seqb (fst st) c = true -> good_ct cf c (getd seqb (fst st) c).

  Lemma good_ct_refl cf c : good_ct cf c (CT v cf c).
  Proof. split; reflexivity. Qed.
  Lemma CT_wf cf c : ct_wf (CT v cf c).
  Proof. unfold CT. apply tbl_wf_getd, contig_table_wf, Hv. Qed.

  Lemma good_ct_get cf c ct p b : good_ct cf c ct -> 0 <= p -> ans_get ct p b = site_answer v cf (QGet c p b).
  Proof. intros [_ H] Hp. rewrite <- CT_get by assumption. unfold ans_get. rewrite H. reflexivity. Qed.
  Lemma good_ct_has cf c ct p : good_ct cf c ct -> 0 <= p -> ans_has ct p = site_answer v cf (QHas c p).
  Proof. intros [H _] Hp. rewrite <- CT_has by assumption. unfold ans_has. rewrite H. reflexivity. Qed.

  Lemma fetch_lazy_ok cf fs c : fs_ok fs -> In (cf, c) ks ->
    fs_ok (snd (fetch_lazy v cf fs c)) /\ only_key c (fst (fetch_lazy v cf fs c))
    /\ good_ct cf c (getd seqb (fst (fetch_lazy v cf fs c)) c).
  Proof.
    intros Hfs Hk. unfold fetch_lazy.
    destruct (if c_cache cf && cacheable c then aget seqb fs (cache_name cf c) else None) as [content|] eqn:E.
    - (* served from the cache file *)
      destruct (c_cache cf && cacheable c); [|discriminate].
      destruct (Hfs _ _ E) as (k & Hkin & En & Ec).
      destruct (names_inj (cf, c) k Hk Hkin En) as [Ec' Hsem]. cbn [fst snd] in Ec', Hsem.
      assert (ECT : CT v (fst k) (snd k) = CT v cf c).
      { unfold CT. rewrite <- Ec'. rewrite (same_sem_table cf (fst k) c Hsem). reflexivity. }
      rewrite ECT in Ec. subst content. cbn [fst snd].
      destruct (read_cached_serialise (CT v cf c) c (CT_wf cf c)) as [G M].
      split; [exact Hfs|]. split.
      + intros c' Hm. rewrite M in Hm. apply andb_true_iff in Hm. destruct Hm as [Hm _]. apply seqb_eq, Hm.
      + rewrite G. split.
        * intros p. apply amem_entries, CT_wf.
        * intros p b. apply look3_entries, CT_wf.
    - (* read from the VCF *)
      cbn [fst snd]. split; [|split; [apply contig_table_only|apply good_ct_refl]].
      destruct (c_cache cf && cacheable c && valid_contig v c); [|exact Hfs].
      intros name content. rewrite (aget_aset seqb seqb_eq). destruct (seqb name (cache_name cf c)) eqn:En.
      + intros H. inversion H; subst. apply seqb_eq in En. exists (cf, c). auto.
      + apply Hfs.
  Qed.

  Lemma fetch_raises_has cf st c p : 0 <= p -> fetch_raises v cf st c = true ->
    answer_has (fst (ensure v cf st c)) c p = ABool false.
  Proof.
    intros Hp. unfold fetch_raises, ensure.
    destruct (self_lazy cf && negb (amem seqb (fst st) c)); [|discriminate]. cbn [andb]. unfold fetch_lazy.
    destruct (if c_cache cf && cacheable c then aget seqb (snd st) (cache_name cf c) else None); [discriminate|].
    intros H. apply negb_true_iff in H. cbn [fst]. unfold contig_table. rewrite H.
    unfold answer_has. rewrite add_sentinel_lookup by exact Hp. reflexivity.
  Qed.

  Lemma step_lazy cf st q : is_lazy cf = true -> st_ok cf st -> In (cf, query_contig q) ks -> 0 <= query_pos q ->
    st_ok cf (fst (step v cf st q)) /\ snd (step v cf st q) = spec_answer v cf q.
  Proof.
    intros Hl [Hfs Ht] Hk Hp.
    rewrite spec_answer_scope by (unfold in_scope; rewrite Hl; reflexivity).
    assert (He : st_ok cf (ensure v cf st (query_contig q)) /\
                 good_ct cf (query_contig q) (getd seqb (fst (ensure v cf st (query_contig q))) (query_contig q))).
    { unfold ensure. rewrite self_lazy_shape, Hl. cbn [andb]. destruct (amem seqb (fst st) (query_contig q)) eqn:M; cbn [negb].
      - split; [split; assumption|apply Ht, M].
      - destruct (fetch_lazy_ok cf (snd st) (query_contig q) Hfs Hk) as (A & B & C).
        split; [|exact C]. split; [exact A|]. intros c Hm. rewrite (B c Hm). exact C. }
    destruct He as [Hst Hg].
    destruct q as [c p b|c p]; cbn [step fst snd query_contig query_pos] in *.
    - split; [exact Hst|]. rewrite answer_get_ct. apply good_ct_get; assumption.
    - split; [exact Hst|].
      assert (Hn : answer_has (fst (ensure v cf st c)) c p = site_answer v cf (QHas c p))
        by (rewrite answer_has_ct; apply good_ct_has; assumption).
      destruct (fetch_raises v cf st c) eqn:R; [|exact Hn].
      rewrite has_invalid_contig_shape, <- Hn. symmetry. apply fetch_raises_has; assumption.
  Qed.

  Lemma run_queries_lazy cf qs : is_lazy cf = true ->
    forall st, st_ok cf st -> (forall q, In q qs -> In (cf, query_contig q) ks /\ 0 <= query_pos q) ->
    fs_ok (fst (run_queries v cf st qs)) /\ snd (run_queries v cf st qs) = map (spec_answer v cf) qs.
  Proof.
    intros Hl. induction qs as [|q qs IH]; intros st Hst Hq.
    - cbn. split; [apply Hst|reflexivity].
    - cbn [run_queries map]. destruct (Hq q (or_introl eq_refl)) as [Hk Hp].
      destruct (step_lazy cf st q Hl Hst Hk Hp) as [Hst' Ha].
      destruct (step v cf st q) as [st' a]. cbn [fst snd] in Hst', Ha.
      specialize (IH st' Hst' (fun q' Hin => Hq q' (or_intror Hin))).
      destruct (run_queries v cf st' qs) as [fs' ans]. cbn [fst snd] in *. destruct IH as [A B].
      split; [exact A|]. rewrite Ha, B. reflexivity.
  Qed.

  (* ---- eager: the table never changes *)
  Lemma step_eager cf t fs q : is_lazy cf = false ->
    step v cf (t, fs) q = ((t, fs), match q with QGet c p b => answer_get t c p b | QHas c p => answer_has t c p end).
  Proof. intros Hl. destruct q; cbn [step]; unfold ensure, fetch_raises; rewrite self_lazy_shape, Hl; reflexivity. Qed.

  Lemma eager_answers cf t : is_lazy cf = false -> init_table v cf = Some t ->
    forall q, 0 <= query_pos q ->
    match q with QGet c p b => answer_get t c p b | QHas c p => answer_has t c p end = spec_answer v cf q.
  Proof.
    intros Hl Hi q Hp. unfold init_table in Hi. rewrite Hl in Hi.
    destruct (c_chrom cf) as [c0|] eqn:Hc.
    - destruct (valid_contig v c0) eqn:Hval; [|discriminate]. inversion Hi; subst t. clear Hi.
      destruct (seqb c0 (query_contig q)) eqn:E.
      + rewrite spec_answer_scope by (unfold in_scope; rewrite Hl, Hc; exact E).
        apply seqb_eq in E. destruct q as [c p b|c p]; cbn [query_contig query_pos] in *; subst c.
        * rewrite answer_get_ct. apply CT_get; assumption.
        * rewrite answer_has_ct. apply CT_has; assumption.
      + rewrite spec_answer_out by (unfold in_scope; rewrite Hl, Hc; exact E).
        assert (M : aget seqb (contig_table v cf c0) (query_contig q) = None).
        { destruct (aget seqb (contig_table v cf c0) (query_contig q)) eqn:G; [|reflexivity]. exfalso.
          assert (query_contig q = c0) by (apply (contig_table_only v cf c0); unfold amem; rewrite G; reflexivity).
          subst c0. rewrite seqb_refl in E. discriminate. }
        destruct q as [c p b|c p]; cbn [query_contig] in M; unfold answer_get, answer_has, lookup2; rewrite M; reflexivity.
    - inversion Hi; subst t. clear Hi.
      rewrite spec_answer_scope by (unfold in_scope; rewrite Hl, Hc; reflexivity).
      destruct q as [c p b|c p]; cbn [site_answer]; unfold answer_get, answer_has;
        rewrite load_recs_lookup, lookup2_nil, last_inf_spec_rec; destruct (spec_rec v cf c p) as [r|]; cbn [option_map]; try reflexivity.
      rewrite site_dict_aget. destruct (carriers cf r b); reflexivity.
  Qed.

  Lemma run_queries_eager cf t fs qs : is_lazy cf = false -> init_table v cf = Some t ->
    (forall q, In q qs -> 0 <= query_pos q) ->
    run_queries v cf (t, fs) qs = (fs, map (spec_answer v cf) qs).
  Proof.
    intros Hl Hi. induction qs as [|q qs IH]; intros Hq; [reflexivity|].
    cbn [run_queries map]. rewrite step_eager by exact Hl.
    rewrite IH by (intros q' Hin; apply Hq; right; exact Hin).
    rewrite (eager_answers cf t Hl Hi q) by (apply Hq; left; reflexivity). reflexivity.
  Qed.

  Lemma run_one_ok fs run : fs_ok fs ->
    (forall q, In q (snd run) -> In (fst run, query_contig q) ks /\ 0 <= query_pos q) ->
    fs_ok (fst (run_one v fs run)) /\ snd (run_one v fs run) = spec_run v run.
  Proof.
    intros Hfs Hq. unfold run_one, spec_run. destruct (is_lazy (fst run)) eqn:Hl.
    - unfold init_table. rewrite Hl.
      apply (run_queries_lazy (fst run) (snd run) Hl ([], fs)); [|exact Hq].
      split; [exact Hfs|]. intros c Hm. discriminate.
    - destruct (init_table v (fst run)) as [t|] eqn:Hi.
      + rewrite (run_queries_eager (fst run) t fs (snd run) Hl Hi) by (intros q Hin; apply (Hq q Hin)).
        cbn [fst snd]. split; [exact Hfs|].
        unfold init_table in Hi. rewrite Hl in Hi. destruct (c_chrom (fst run)); [|reflexivity].
        destruct (valid_contig v s); [reflexivity|discriminate].
      + cbn [fst snd]. split; [exact Hfs|].
        unfold init_table in Hi. rewrite Hl in Hi. destruct (c_chrom (fst run)); [|discriminate].
        destruct (valid_contig v s); [discriminate|reflexivity].
  Qed.

  Lemma run_history_ok h : forall fs, fs_ok fs ->
    (forall run q, In run h -> In q (snd run) -> In (fst run, query_contig q) ks /\ 0 <= query_pos q) ->
    fs_ok (fst (run_history v fs h)) /\ snd (run_history v fs h) = map (spec_run v) h.
  Proof.
    induction h as [|run h IH]; intros fs Hfs Hq; [split; [exact Hfs|reflexivity]|].
    cbn [run_history map].
    destruct (run_one_ok fs run Hfs (fun q Hin => Hq run q (or_introl eq_refl) Hin)) as [A B].
    destruct (run_one v fs run) as [fs1 a]. cbn [fst snd] in A, B.
    destruct (IH fs1 A (fun run' q Hr Hin => Hq run' q (or_intror Hr) Hin)) as [C D].
    destruct (run_history v fs1 h) as [fs2 rest]. cbn [fst snd] in *. split; [exact C|]. rewrite B, D. reflexivity.
  Qed.
End Refine.

Lemma keys_of_In h run q : In run h -> In q (snd run) -> In (fst run, query_contig q) (keys_of h).
Proof.
  intros Hr Hq. unfold keys_of. apply in_flat_map. exists run. split; [exact Hr|].
  apply in_map_iff. exists q. split; [reflexivity|exact Hq].
Qed.

Theorem history_spec v h : vcf_ok v = true -> hist_ok h = true ->
  snd (run_history v [] h) = map (spec_run v) h.
Proof.
  intros Hv Hh. unfold hist_ok in Hh. apply andb_true_iff in Hh. destruct Hh as [Hpos Hn].
  apply (run_history_ok v Hv (keys_of h) Hn h []).
  - intros name content E. discriminate.
  - intros run q Hr Hq. split; [apply keys_of_In; assumption|].
    rewrite forallb_forall in Hpos. specialize (Hpos run Hr). rewrite forallb_forall in Hpos.
    apply Z.leb_le, (Hpos q Hq).
Qed.

(* two histories that ask the same things under the same settings but load differently *)
Definition scope_all (cf : cfg) : Prop := is_lazy cf = true \/ c_chrom cf = None.
Definition same_request (r1 r2 : cfg * list query) : Prop :=
  snd r1 = snd r2 /\ c_phased (fst r1) = c_phased (fst r2) /\ c_select (fst r1) = c_select (fst r2)
  /\ c_ignore (fst r1) = c_ignore (fst r2) /\ scope_all (fst r1) /\ scope_all (fst r2).

Lemma informativeb_ext cf1 cf2 r : c_phased cf1 = c_phased cf2 -> c_select cf1 = c_select cf2 -> c_ignore cf1 = c_ignore cf2 ->
  informativeb cf1 r = informativeb cf2 r.
Proof.
  intros H1 H2 H3. unfold informativeb, bases_of, assigned_of, sel_alleles, ign_mem, selected. rewrite H1, H2, H3. reflexivity.
Qed.
Lemma carriers_ext cf1 cf2 r b : c_phased cf1 = c_phased cf2 -> c_select cf1 = c_select cf2 ->
  carriers cf1 r b = carriers cf2 r b.
Proof. intros H1 H2. unfold carriers, selected. rewrite H1, H2. reflexivity. Qed.

Lemma spec_run_same v r1 r2 : same_request r1 r2 -> spec_run v r1 = spec_run v r2.
Proof.
  intros (Hq & Hp & Hs & Hi & S1 & S2). unfold spec_run.
  assert (E1 : (if is_lazy (fst r1) then true else match c_chrom (fst r1) with None => true | Some c => valid_contig v c end) = true).
  { destruct S1 as [->| ->]; [reflexivity|]. destruct (is_lazy (fst r1)); reflexivity. }
  assert (E2 : (if is_lazy (fst r2) then true else match c_chrom (fst r2) with None => true | Some c => valid_contig v c end) = true).
  { destruct S2 as [->| ->]; [reflexivity|]. destruct (is_lazy (fst r2)); reflexivity. }
  rewrite E1, E2, Hq. apply map_ext. intros q.
  assert (I1 : forall c, in_scope (fst r1) c = true).
  { intros c. unfold in_scope. destruct S1 as [->| ->]; [reflexivity|apply orb_true_r]. }
  assert (I2 : forall c, in_scope (fst r2) c = true).
  { intros c. unfold in_scope. destruct S2 as [->| ->]; [reflexivity|apply orb_true_r]. }
  assert (SR : forall c p, spec_rec v (fst r1) c p = spec_rec v (fst r2) c p).
  { intros c p. unfold spec_rec. apply fold_left_ext'. intros acc r. rewrite (informativeb_ext _ _ r Hp Hs Hi). reflexivity. }
  destruct q as [c p b|c p]; cbn [spec_answer]; rewrite I1, I2, SR; [|reflexivity].
  destruct (spec_rec v (fst r2) c p); [|reflexivity]. rewrite (carriers_ext _ _ v0 b Hp Hs). reflexivity.
Qed.

Theorem modes_equal v h1 h2 : vcf_ok v = true -> hist_ok h1 = true -> hist_ok h2 = true ->
  Forall2 same_request h1 h2 ->
  snd (run_history v [] h1) = snd (run_history v [] h2).
Proof.
  intros Hv H1 H2 HF. rewrite !history_spec by assumption.
  induction HF as [|r1 r2 l1 l2 Hr HF IH]; [reflexivity|]. cbn [map].
  rewrite (spec_run_same v r1 r2 Hr). f_equal.
  apply IH.
  - unfold hist_ok in *. apply andb_true_iff in H1. destruct H1 as [A B]. cbn [forallb] in A. apply andb_true_iff in A.
    destruct A as [_ A]. rewrite A. cbn [andb].
    unfold names_ok in *. rewrite forallb_forall in B. apply forallb_forall. intros k1 Hk1.
    assert (Hin1 : In k1 (keys_of (r1 :: l1))) by (unfold keys_of in *; cbn [flat_map]; apply in_or_app; right; exact Hk1).
    specialize (B k1 Hin1). rewrite forallb_forall in B. apply forallb_forall. intros k2 Hk2. apply B.
    unfold keys_of in *. cbn [flat_map]. apply in_or_app. right; exact Hk2.
  - unfold hist_ok in *. apply andb_true_iff in H2. destruct H2 as [A B]. cbn [forallb] in A. apply andb_true_iff in A.
    destruct A as [_ A]. rewrite A. cbn [andb].
    unfold names_ok in *. rewrite forallb_forall in B. apply forallb_forall. intros k1 Hk1.
    assert (Hin1 : In k1 (keys_of (r2 :: l2))) by (unfold keys_of in *; cbn [flat_map]; apply in_or_app; right; exact Hk1).
    specialize (B k1 Hin1). rewrite forallb_forall in B. apply forallb_forall. intros k2 Hk2. apply B.
    unfold keys_of in *. cbn [flat_map]. apply in_or_app. right; exact Hk2.
Qed.
