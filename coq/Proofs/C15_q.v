(* C15 proofs, part q: phred qualities of the consensus bases. *)
From Coq Require Import ZArith List Bool Lia QArith Permutation Lqa.
Import ListNotations.
From SCMO Require Import Lib.Val Lib.PyInt Gen.GenDedup Model.C15 Proofs.C15_g Proofs.C15_c Proofs.C15.
Open Scope Z_scope.
Ltac Zify.zify_post_hook ::= Z.to_euclidean_division_equations.

Lemma qlt_iff a b : qlt a b = true <-> (a < b)%Q.
Proof.
  unfold qlt. rewrite negb_true_iff. split; intros H.
  - apply Qnot_le_lt. intros Hle. apply Qle_bool_iff in Hle. congruence.
  - destruct (Qle_bool b a) eqn:E; [|reflexivity]. apply Qle_bool_iff in E.
    exfalso. exact (Qlt_not_le _ _ H E).
Qed.
Lemma qlt_false a b : qlt a b = false <-> (b <= a)%Q.
Proof.
  unfold qlt. rewrite negb_false_iff. apply Qle_bool_iff.
Qed.
Lemma qlt_comp a a' b b' : (a == a')%Q -> (b == b')%Q -> qlt a b = qlt a' b'.
Proof. intros Ha Hb. unfold qlt. now rewrite Ha, Hb. Qed.

(* np.clip *)
Lemma clipq_range x : (clip_lo <= clipq x /\ clipq x <= clip_hi)%Q.
Proof.
  destruct shape_clip as (_ & Hlh & _). unfold clipq.
  destruct (qlt x clip_lo) eqn:E1.
  - split; [apply Qle_refl|now apply Qlt_le_weak].
  - apply qlt_false in E1. destruct (qlt clip_hi x) eqn:E2.
    + split; [now apply Qlt_le_weak|apply Qle_refl].
    + apply qlt_false in E2. now split.
Qed.
Lemma clipq_comp x y : (x == y)%Q -> (clipq x == clipq y)%Q.
Proof.
  intros H. unfold clipq. rewrite (qlt_comp x y clip_lo clip_lo H (Qeq_refl _)).
  rewrite (qlt_comp clip_hi clip_hi x y (Qeq_refl _) H).
  destruct (qlt y clip_lo); [reflexivity|]. destruct (qlt clip_hi y); [reflexivity|assumption].
Qed.
Lemma clipq_mono x y : (x <= y)%Q -> (clipq x <= clipq y)%Q.
Proof.
  intros H. destruct shape_clip as (_ & Hlh & _). unfold clipq.
  destruct (qlt x clip_lo) eqn:X1; destruct (qlt y clip_lo) eqn:Y1;
    rewrite ?qlt_iff, ?qlt_false in *.
  - apply Qle_refl.
  - destruct (qlt clip_hi y) eqn:Y2; rewrite ?qlt_iff, ?qlt_false in *; [now apply Qlt_le_weak|assumption].
  - exfalso. apply (Qlt_not_le _ _ Y1). eapply Qle_trans; eassumption.
  - destruct (qlt clip_hi x) eqn:X2; destruct (qlt clip_hi y) eqn:Y2; rewrite ?qlt_iff, ?qlt_false in *.
    + apply Qle_refl.
    + exfalso. apply (Qlt_not_le _ _ X2). eapply Qle_trans; eassumption.
    + assumption.
    + assumption.
Qed.

(* ------------------------------------------------------------------ range, monotonicity *)
Lemma filter_len_le {A} (f : A -> bool) l : (length (filter f l) <= length l)%nat.
Proof. induction l as [|a l IH]; cbn; [lia|]. destruct (f a); cbn; lia. Qed.

Lemma filter_len_mono {A} (f g : A -> bool) l : (forall a, In a l -> f a = true -> g a = true) ->
  (length (filter f l) <= length (filter g l))%nat.
Proof.
  induction l as [|a l IH]; intros H; cbn; [lia|].
  assert (IH' := IH (fun b Hb => H b (or_intror Hb))).
  destruct (f a) eqn:F.
  - rewrite (H a (or_introl eq_refl) F). cbn. lia.
  - destruct (g a); cbn; lia.
Qed.

Lemma filter_ext_len {A} (f g : A -> bool) l : (forall a, f a = g a) -> filter f l = filter g l.
Proof. intros H. induction l as [|a l IH]; cbn; [reflexivity|]. now rewrite H, IH. Qed.

Lemma phred_range tt p : 0 <= phred tt p <= Z.of_nat (length tt).
Proof. unfold phred. pose proof (filter_len_le (qlt (clipq (1 - p)%Q)) tt). lia. Qed.

Lemma phred_comp tt p p' : (p == p')%Q -> phred tt p = phred tt p'.
Proof.
  intros H. unfold phred. f_equal. f_equal. apply filter_ext_len. intros t.
  apply qlt_comp; [|reflexivity]. apply clipq_comp. now rewrite H.
Qed.

(* a more confident call never gets a lower quality *)
Lemma phred_mono tt p p' : (p <= p')%Q -> phred tt p <= phred tt p'.
Proof.
  intros H. unfold phred. apply inj_le. apply filter_len_mono. intros t _ Ht.
  rewrite qlt_iff in *. eapply Qle_lt_trans; [|exact Ht].
  apply clipq_mono. unfold Qminus. apply Qplus_le_r. now apply Qopp_le_compat.
Qed.

(* ------------------------------------------------------------------ the band law (rint of -10 log10) *)
Fixpoint qdec (l : list Q) : Prop :=
  match l with
  | a :: ((b :: _) as t) => (b < a)%Q /\ qdec t
  | _ => True
  end.

Lemma qdec_tail a l : qdec (a :: l) -> qdec l /\ forall t, In t l -> (t < a)%Q.
Proof.
  revert a. induction l as [|b l IH]; intros a H; [split; [exact I|intros ? []]|].
  destruct H as [Hba Hd]. split; [exact Hd|]. intros t [<-|Ht]; [assumption|].
  destruct (IH b Hd) as [_ Hlt]. eapply Qlt_trans; [apply Hlt; assumption|assumption].
Qed.

Lemma filter_none_len {A} (f : A -> bool) l : (forall a, In a l -> f a = false) -> filter f l = [].
Proof.
  induction l as [|a l IH]; intros H; cbn; [reflexivity|].
  rewrite (H a (or_introl eq_refl)). apply IH. intros b Hb. apply H. now right.
Qed.

(* for strictly decreasing thresholds the ones above x are a prefix: the quality k says that the first k
   thresholds are above the clipped 1 - p and all later ones are not *)
Lemma phred_band tt p : qdec tt ->
  let k := Z.to_nat (phred tt p) in let x := clipq (1 - p)%Q in
  (forall t, In t (firstn k tt) -> (x < t)%Q) /\ (forall t, In t (skipn k tt) -> (t <= x)%Q).
Proof.
  unfold phred. rewrite Nat2Z.id. set (x := clipq (1 - p)%Q). cbn zeta.
  induction tt as [|a tt IH]; intros Hd; [split; intros ? []|].
  destruct (qdec_tail a tt Hd) as [Hd' Hlt]. cbn [filter]. destruct (qlt x a) eqn:E.
  - cbn [length firstn skipn]. destruct (IH Hd') as [I1 I2]. split; [|exact I2].
    intros t [<-|Ht]; [now apply qlt_iff|now apply I1].
  - apply qlt_false in E. rewrite filter_none_len.
    + cbn [length firstn skipn]. split; [intros ? []|]. intros t [<-|Ht]; [assumption|].
      apply Qlt_le_weak. eapply Qlt_le_trans; [apply Hlt; assumption|assumption].
    + intros t Ht. apply qlt_false. apply Qlt_le_weak. eapply Qlt_le_trans; [apply Hlt; assumption|assumption].
Qed.

(* ------------------------------------------------------------------ the ends of the scale *)
Lemma phred_zero tt p : (p <= 1 - clip_hi)%Q -> Forall (fun t => t <= clip_hi)%Q tt -> phred tt p = 0.
Proof.
  intros Hp Ht. unfold phred. rewrite filter_none_len; [reflexivity|].
  intros t Hin. rewrite Forall_forall in Ht. apply qlt_false.
  eapply Qle_trans; [apply Ht; assumption|].
  assert (Hx : (clip_hi <= 1 - p)%Q) by lra.
  destruct shape_clip as (_ & Hlh & _). unfold clipq.
  destruct (qlt (1 - p) clip_lo) eqn:E1.
  - apply qlt_iff in E1. exfalso. apply (Qlt_not_le _ _ E1). eapply Qle_trans; [|exact Hx]. now apply Qlt_le_weak.
  - destruct (qlt clip_hi (1 - p)); [apply Qle_refl|assumption].
Qed.

Lemma phred_full tt p : (1 - clip_lo <= p)%Q -> Forall (fun t => clip_lo < t)%Q tt ->
  phred tt p = Z.of_nat (length tt).
Proof.
  intros Hp Ht. unfold phred. f_equal. f_equal.
  assert (Hx : (1 - p <= clip_lo)%Q) by lra.
  assert (Hc : (clipq (1 - p) == clip_lo)%Q).
  { destruct shape_clip as (_ & Hlh & _). unfold clipq. destruct (qlt (1 - p) clip_lo) eqn:E1; [reflexivity|].
    apply qlt_false in E1. destruct (qlt clip_hi (1 - p)) eqn:E2.
    - apply qlt_iff in E2. exfalso. apply (Qlt_not_le _ _ E2). eapply Qle_trans; [exact Hx|now apply Qlt_le_weak].
    - now apply Qle_antisym. }
  induction tt as [|a tt IH]; [reflexivity|]. inversion Ht as [|? ? Ha Ht']; subst. cbn [filter].
  rewrite (qlt_comp _ clip_lo a a Hc (Qeq_refl _)). apply qlt_iff in Ha. rewrite Ha. cbn [length]. f_equal.
  now apply IH.
Qed.

(* ------------------------------------------------------------------ the table of the correspondence check *)
Lemma qlt_floor x T : qlt x (Qmake T two60) = (floor60 x <? T).
Proof.
  unfold qlt, Qle_bool, floor60. cbn [Qnum Qden]. destruct x as [n d]. cbn [Qnum Qden].
  assert (Hd : 0 < Zpos d) by lia. assert (H60 : 0 < Zpos two60) by lia.
  destruct (T * Zpos d <=? n * Zpos two60) eqn:E; cbn [negb]; symmetry.
  - apply Z.leb_le in E. apply Z.ltb_ge. apply Z.div_le_lower_bound; lia.
  - apply Z.leb_gt in E. apply Z.ltb_lt. apply Z.div_lt_upper_bound; lia.
Qed.

Lemma filter_map_len {A B} (f : B -> bool) (g : A -> B) l :
  length (filter f (map g l)) = length (filter (fun a => f (g a)) l).
Proof. induction l as [|a l IH]; cbn; [reflexivity|]. destruct (f (g a)); cbn; now rewrite IH. Qed.

Lemma phred_floor_correct ttab p : phred_floor ttab p = phred (tt_of ttab) p.
Proof.
  unfold phred_floor, phred, tt_of. cbn zeta. rewrite filter_map_len. f_equal. f_equal.
  apply filter_ext_len. intros T. now rewrite qlt_floor.
Qed.

(* the threshold table the check passes is valid: decreasing, inside the clip bounds *)
Lemma decreasing_qdec ttab : decreasing ttab = true -> qdec (tt_of ttab).
Proof.
  induction ttab as [|a [|b t] IH]; intros H; try exact I.
  cbn [decreasing] in H. apply andb_true_iff in H. destruct H as [Hba Hd].
  change (tt_of (a :: b :: t)) with (Qmake a two60 :: tt_of (b :: t)).
  change (tt_of (b :: t)) with (Qmake b two60 :: tt_of t) at 1. cbn [qdec]. split.
  - apply Z.ltb_lt in Hba. unfold Qlt. cbn [Qnum Qden]. nia.
  - exact (IH Hd).
Qed.

Lemma valid_ttab_spec ttab : valid_ttab ttab = true ->
  qdec (tt_of ttab) /\ Forall (fun t => clip_lo < t /\ t <= clip_hi)%Q (tt_of ttab).
Proof.
  unfold valid_ttab. intros H. apply andb_true_iff in H. destruct H as [Hd Hf]. split; [now apply decreasing_qdec|].
  rewrite forallb_forall in Hf. apply Forall_forall. intros t Ht. unfold tt_of in Ht. apply in_map_iff in Ht.
  destruct Ht as (T & <- & HT). specialize (Hf T HT). apply andb_true_iff in Hf. destruct Hf as [H1 H2].
  apply qlt_iff in H1. apply negb_true_iff, qlt_false in H2. now split.
Qed.

(* ------------------------------------------------------------------ the quality the extracted model computes *)
Section Fast.
  Variable pc : Z -> Q.
  Hypothesis Hpc : forall q, (0 <= pc q /\ pc q < 1)%Q.

  Lemma call_raw_call_of os : call_raw pc os = call_of (likelihoods pc os).
  Proof. unfold call_raw, call_of. now rewrite decide_spec. Qed.

  Lemma col_qual_fast_correct ttab os : col_qual_fast pc ttab os = col_qual pc (tt_of ttab) os.
  Proof.
    unfold col_qual_fast, col_qual, prob_fast. rewrite phred_floor_correct. destruct os as [|o os]; [reflexivity|].
    apply phred_comp. rewrite call_raw_call_of. symmetry. apply (call_is_call_of pc Hpc).
  Qed.

  (* a column whose two best likelihoods are equal is called N with probability 0: quality 0 *)
  Lemma call_argmax_qual tt os : os <> [] -> Forall (fun t => t <= clip_hi)%Q tt ->
    let l := likelihoods pc os in
    (exists p, unique_max l (fst (call pc os)) p /\ (snd (call pc os) == p / qsum (map snd l))%Q) \/
    (tied_max l /\ fst (call pc os) = baseN /\ col_qual pc tt os = 0).
  Proof.
    intros Hne Htt. cbn zeta. destruct (call_is_call_of pc Hpc os) as [H1 H2].
    destruct (call_of_spec (likelihoods pc os)) as [[Hnil _]|[(b & p & Hu & Hc)|[Ht Hc]]].
    - exfalso. pose proof (total_pos pc Hpc os) as Hpos. rewrite Hnil in Hpos. cbn in Hpos. discriminate.
    - left. exists p. rewrite H1, Hc. split; [assumption|]. rewrite H2, Hc. reflexivity.
    - right. split; [assumption|]. split; [now rewrite H1, Hc|].
      unfold col_qual. destruct os as [|o os']; [congruence|]. apply phred_zero; [|assumption].
      rewrite H2, Hc. cbn [snd]. unfold Qdiv. rewrite Qmult_0_l.
      destruct shape_clip as (_ & _ & Hh). lra.
  Qed.
End Fast.

(* a position nobody observed reads ('N', 0): quality 0 *)
Lemma col_qual_nil pc tt : Forall (fun t => t <= clip_hi)%Q tt -> col_qual pc tt [] = 0.
Proof.
  intros H. unfold col_qual. apply phred_zero; [|assumption].
  destruct shape_clip as (_ & _ & Hh). rewrite (proj2 (proj2 (proj2 shape_no_call_result))).
  change (inject_Z 0) with 0%Q. lra.
Qed.

(* ------------------------------------------------------------------ a column in which only N was read *)
Lemma conf_dict_allN (pc : Z -> Q) : forall os d v, Forall (fun o => fst o = baseN) os -> d = [(baseN, v)] ->
  exists v', fold_left (fun d o => dict_add (fst o) (pc (snd o)) d) os d = [(baseN, v')].
Proof.
  induction os as [|o os IH]; intros d v Hall Hd; [exists v; assumption|].
  inversion Hall as [|? ? Ho Hall']; subst. cbn [fold_left]. rewrite Ho. cbn [dict_add]. rewrite Z.eqb_refl.
  eapply IH; [assumption|reflexivity].
Qed.

Lemma call_allN pc os : os <> [] -> Forall (fun o => fst o = baseN) os ->
  fst (call pc os) = baseN /\ (snd (call pc os) == 1)%Q.
Proof.
  intros Hne Hall. destruct os as [|o os]; [congruence|]. inversion Hall as [|? ? Ho Hall']; subst.
  assert (Hc : exists v, conf_dict pc (o :: os) = [(baseN, v)]).
  { unfold conf_dict. cbn [fold_left dict_add]. rewrite Ho. eapply conf_dict_allN; [assumption|reflexivity]. }
  destruct Hc as [v Hc]. unfold call. rewrite decide_spec. unfold base_probs, likelihoods. rewrite Hc.
  cbn. split; reflexivity.
Qed.

(* ------------------------------------------------------------------ the table of 90 thresholds is the exact one:
   T_k = floor(10^(-(2k+1)/20) * 2^60), i.e. T_k^20 * 10^(2k+1) <= 2^1200 < (T_k + 1)^20 * 10^(2k+1);
   so  T_k / 2^60 <= 10^(-(2k+1)/20) < (T_k + 1) / 2^60, the rounding threshold between qualities k and k + 1 *)
Definition exact_threshold (kT : Z * Z) : bool :=
  let (k, T) := kT in
  (T ^ 20 * 10 ^ (2 * k + 1) <=? 2 ^ 1200) && (2 ^ 1200 <? (T + 1) ^ 20 * 10 ^ (2 * k + 1)).
Lemma ttab90_exact :
  length ttab90 = 90%nat /\ forallb exact_threshold (combine (zrange 0 90) ttab90) = true /\ valid_ttab ttab90 = true.
Proof. vm_compute. repeat split; reflexivity. Qed.
