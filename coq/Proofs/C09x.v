(* C09 proofs, extension: NlaIIIFragment(no_overhang=True) and the max_fragment_size rule.  Everything is proved
   about the definitions REGENERATED from the current source into Gen/GenSite.v (nla_no_overhang_gen,
   span_pair_gen / span_r1_gen / span_r2_gen, fragment_size_gen, nla_is_valid_gen, chic_is_valid_gen);
   gen_fwd / gen_rev / *_valid_on / *_valid_off / fragment_size_abs are the only lemmas that look inside them. *)
From Coq Require Import ZArith List Bool Lia.
Import ListNotations.
From SCMO Require Import Lib.Val Lib.C09Str Lib.PySlice Lib.PySliceFacts Lib.C09Ref Gen.GenSite Model.C09 Model.C09x Proofs.C09.
Open Scope Z_scope.

Definition GTAC : str := [71; 84; 65; 67].

(* ------------------------------------------------------------------ find *)
Ltac crunch_find :=
  repeat (cbn [py_find_from py_startswith py_prefix firstn length str_eqb app];
          repeat match goal with
                 | |- context [?a =? ?b] => let v := eval vm_compute in (a =? b) in
                                            match v with true => idtac | false => idtac end;
                                            change (a =? b) with v
                 end;
          cbn [andb]; rewrite ?andb_false_r, ?andb_true_r; cbv beta iota).

Lemma find_CATG_at : forall b a i, (length b <= 3)%nat ->
  py_find_from CATG (b ++ CATG ++ a) i = i + Z.of_nat (length b).
Proof.
  intros b a i H. unfold CATG.
  destruct b as [|b1 [|b2 [|b3 [|b4 b]]]]; cbn [length] in H |- *; try lia; crunch_find; lia.
Qed.

Lemma find_GTAC_at : forall b a i, (length b <= 3)%nat ->
  py_find_from GTAC (b ++ GTAC ++ a) i = i + Z.of_nat (length b).
Proof.
  intros b a i H. unfold GTAC.
  destruct b as [|b1 [|b2 [|b3 [|b4 b]]]]; cbn [length] in H |- *; try lia; crunch_find; lia.
Qed.

Lemma contains_CATG_mid : forall a b, py_contains CATG (a ++ CATG ++ b) = true.
Proof. intros a b. apply contains_iff. exists a, b. reflexivity. Qed.

(* ------------------------------------------------------------------ windows of a reference  pre ++ CATG ++ post *)
Lemma fetch_range : forall l a k, 0 <= a -> 0 <= k ->
  fetch_slice l a (a + k) = firstn (Z.to_nat k) (skipn (Z.to_nat a) l).
Proof. intros l a k Ha Hk. unfold fetch_slice. rewrite pyslice_range by assumption. reflexivity. Qed.

(* the window of a forward read whose first [clip] cycles are clipped: the last 3-clip bases before the CATG,
   the CATG, the first clip bases after it *)
Lemma window_fwd : forall pre post clip, 0 <= clip <= 3 -> 3 <= Z.of_nat (length pre) + clip ->
  clip <= Z.of_nat (length post) ->
  exists A B, length A = Z.to_nat (3 - clip) /\ length B = Z.to_nat clip /\
  fetch_slice (pre ++ CATG ++ post) (Z.of_nat (length pre) + clip - 3) (Z.of_nat (length pre) + clip + 4)
  = A ++ CATG ++ B.
Proof.
  intros pre post clip Hc Hp Hpost.
  set (n := length pre). set (j := Z.to_nat (3 - clip)).
  exists (skipn (n - j) pre), (firstn (Z.to_nat clip) post).
  assert (Hj : (j <= n)%nat) by (unfold j, n; lia).
  split; [rewrite skipn_length; fold n; lia|].
  split; [rewrite firstn_length; lia|].
  replace (Z.of_nat n + clip + 4) with ((Z.of_nat n + clip - 3) + 7) by lia.
  rewrite fetch_range by lia.
  replace (Z.to_nat (Z.of_nat n + clip - 3)) with (n - j)%nat by (unfold j; lia).
  rewrite skipn_app. fold n. replace (n - j - n)%nat with 0%nat by lia. cbn [skipn].
  rewrite firstn_app. rewrite skipn_length. fold n.
  rewrite firstn_all2 by (rewrite skipn_length; fold n; lia).
  f_equal. replace (Z.to_nat 7 - (n - (n - j)))%nat with (4 + Z.to_nat clip)%nat by (unfold j; lia).
  unfold CATG. cbn [app firstn]. reflexivity.
Qed.

Lemma window_rev : forall pre post clip, 0 <= clip <= 3 -> clip <= Z.of_nat (length pre) ->
  exists B A, length B = Z.to_nat clip /\
  fetch_slice (pre ++ CATG ++ post) (Z.of_nat (length pre) - clip) (Z.of_nat (length pre) - clip + 7)
  = B ++ CATG ++ A.
Proof.
  intros pre post clip Hc Hp.
  set (n := length pre). set (j := Z.to_nat clip).
  exists (skipn (n - j) pre), (firstn (3 - j) post).
  assert (Hj : (j <= n)%nat) by (unfold j, n; lia).
  split; [rewrite skipn_length; fold n; lia|].
  rewrite fetch_range by lia.
  replace (Z.to_nat (Z.of_nat n - clip)) with (n - j)%nat by (unfold j; lia).
  rewrite skipn_app. fold n. replace (n - j - n)%nat with 0%nat by lia. cbn [skipn].
  rewrite firstn_app. rewrite skipn_length. fold n.
  rewrite firstn_all2 by (rewrite skipn_length; fold n; lia).
  f_equal. replace (Z.to_nat 7 - (n - (n - j)))%nat with (4 + (3 - j))%nat by (unfold j; lia).
  unfold CATG. cbn [app firstn]. reflexivity.
Qed.

(* ------------------------------------------------------------------ normal form of the generated branch *)
Definition no_rejected : bool * bool * bool * Z * option str * option str * bool * bool :=
  (false, false, false, 0, None, Some [110; 111; 95; 67; 65; 84; 71; 95; 105; 110; 95; 114; 101; 102], true, false).

(* rewrite every window  fetch_slice ref a b  of the goal into  fetch_slice ref a0 b0  (a = a0, b = b0 by lia) *)
Ltac norm_fetch a0 b0 :=
  repeat match goal with
         | |- context [fetch_slice ?r ?a ?b] =>
           lazymatch a with
           | a0 => lazymatch b with b0 => fail | _ => replace b with b0 by lia end
           | _ => replace a with a0 by lia
           end
         end.

Lemma gen_fwd : forall ref s e,
  nla_no_overhang_gen (-4) (fetch_slice ref) false s e =
  let w := fetch_slice ref (s - 7) s in
  if py_contains CATG w
  then let site := s - py_find GTAC (rev w) - 4 in
       (true, true, false, site, Some w, None, false, negb (site =? 0))
  else no_rejected.
Proof.
  intros ref s e. cbv beta iota zeta delta [nla_no_overhang_gen py_reversed].
  change [67; 65; 84; 71] with CATG. change [71; 84; 65; 67] with GTAC.
  norm_fetch (s - 7) s.
  destruct (py_contains CATG (fetch_slice ref (s - 7) s)); reflexivity.
Qed.

Lemma gen_rev : forall ref s e,
  nla_no_overhang_gen (-4) (fetch_slice ref) true s e =
  let w := fetch_slice ref e (e + 7) in
  if py_contains CATG w
  then let site := e + py_find CATG w in
       (true, true, true, site, Some w, None, false, negb (site =? 0))
  else no_rejected.
Proof.
  intros ref s e. cbv beta iota zeta delta [nla_no_overhang_gen py_reversed].
  change [67; 65; 84; 71] with CATG.
  norm_fetch e (e + 7).
  destruct (py_contains CATG (fetch_slice ref e (e + 7))); reflexivity.
Qed.

(* ------------------------------------------------------------------ no_overhang: site of a simulated read *)
Lemma nla_no_site : forall c pre_ post cycles mid reverse clip tail preq,
  let ref := pre_ ++ CATG ++ post in
  let p := Z.of_nat (length pre_) in
  let r := simulate_nla_no cycles mid p reverse clip tail in
  good_mid mid = true -> c_check_motif c = true -> 0 <= clip <= 3 -> 0 < p ->
  0 <= r_start r -> ref_end r <= Z.of_nat (length ref) -> (reverse = false -> 3 <= p + clip) ->
  nla_no_fragment c (-4) (Some ref) true preq (Some r) =
  Done (site_obs p (xorb reverse (c_invert c)) reverse (Some (no_window ref p reverse clip)) preq).
Proof.
  intros c pre_ post cycles mid reverse clip tail preq ref p r Hmid Hcm Hclip Hp Hs He Hw.
  pose proof (good_mid_pos mid Hmid) as Hlen.
  subst r. unfold simulate_nla_no, place_read, nla_no_fragment in *. rewrite Hcm. cbn [negb].
  destruct reverse.
  - cbn [r_unmapped r_rev r_cigar r_start] in *. unfold ref_end in *. cbn [r_start r_cigar] in *.
    rewrite ref_span_wrapped in * by exact Hmid.
    assert (Hnil : is_nil (softclip tail ++ mid ++ softclip clip) = false).
    { destruct (softclip tail ++ mid ++ softclip clip) eqn:E; [|reflexivity].
      apply app_eq_nil in E. destruct E as [_ E]. apply app_eq_nil in E. destruct E as [E _].
      exfalso. exact (good_mid_nonempty mid Hmid E). }
    rewrite Hnil. cbn [andb].
    rewrite gen_rev. cbv zeta.
    replace (p - 1 + 1 - clip - ref_len mid + ref_len mid) with (p - clip) by lia.
    destruct (window_rev pre_ post clip Hclip ltac:(fold p; lia)) as [B [A [HB HW]]].
    fold p in HW. fold ref in HW. rewrite HW.
    rewrite contains_CATG_mid. unfold py_find. rewrite find_CATG_at by lia. rewrite HB.
    replace (p - clip + (0 + Z.of_nat (Z.to_nat clip))) with p by lia.
    assert (E : (p =? 0) = false) by (apply Z.eqb_neq; lia). rewrite E. cbn [negb]. rewrite andb_true_r.
    unfold site_obs, no_window. rewrite HW. destruct (c_invert c); reflexivity.
  - specialize (Hw eq_refl).
    cbn [r_unmapped r_rev r_cigar r_start andb] in *. unfold ref_end in *. cbn [r_start r_cigar] in *.
    rewrite ref_span_wrapped in * by exact Hmid.
    rewrite gen_fwd. cbv zeta.
    assert (Hpost : clip <= Z.of_nat (length post)).
    { unfold ref in He. rewrite !app_length in He. unfold CATG in He. cbn [length] in He. lia. }
    destruct (window_fwd pre_ post clip Hclip ltac:(fold p; lia) Hpost) as [A [B [HA [HB HW]]]].
    fold p in HW. fold ref in HW.
    replace (p + 4 + clip - 7) with (p + clip - 3) by lia.
    replace (p + 4 + clip) with (p + clip + 4) by lia. rewrite HW.
    rewrite contains_CATG_mid.
    rewrite !rev_app_distr. change (rev CATG) with GTAC. rewrite <- app_assoc.
    unfold py_find. rewrite find_GTAC_at by (rewrite rev_length; lia). rewrite rev_length, HB.
    replace (p + clip + 4 - (0 + Z.of_nat (Z.to_nat clip)) - 4) with p by lia.
    assert (E : (p =? 0) = false) by (apply Z.eqb_neq; lia). rewrite E. cbn [negb]. rewrite andb_true_r.
    unfold site_obs, no_window. rewrite HW. destruct (c_invert c); reflexivity.
Qed.

(* ------------------------------------------------------------------ no_overhang: rejection *)
Lemma nla_no_reject : forall c ref r preq,
  r_unmapped r = false -> c_check_motif c = true -> r_cigar r <> [] ->
  py_contains CATG (if r_rev r then fetch_slice ref (ref_end r) (ref_end r + 7)
                    else fetch_slice ref (r_start r - 7) (r_start r)) = false ->
  is_rejected (nla_no_fragment c (-4) (Some ref) true preq (Some r)) /\
  exists o, nla_no_fragment c (-4) (Some ref) true preq (Some r) = Done o /\ o_rs o = None /\ o_loc o = None.
Proof.
  intros c ref [s cg rv sq um mx] preq Hmap Hcm Hcg Hno. cbn [r_unmapped r_cigar r_rev r_start] in *. subst um.
  unfold nla_no_fragment. rewrite Hcm. cbn [negb r_unmapped r_rev r_cigar r_start].
  assert (Hnil : is_nil cg = false) by (destruct cg; [contradiction | reflexivity]).
  rewrite Hnil, andb_false_r.
  destruct rv; [rewrite gen_rev | rewrite gen_fwd]; cbv zeta; rewrite Hno; unfold no_rejected;
    (split; [eexists; split; [reflexivity|]; cbn [o_ds o_valid o_qcfail o_rz o_rr];
             repeat split; try reflexivity; try apply andb_false_r; discriminate
            | eexists; split; [reflexivity|]; split; reflexivity]).
Qed.

(* ------------------------------------------------------------------ find / contains under complement *)
Lemma comp_inj : forall a b, comp a = comp b -> a = b.
Proof. intros a b H. rewrite <- (comp_invol a), <- (comp_invol b), H. reflexivity. Qed.

Lemma str_eqb_map_comp : forall a b, str_eqb (map comp a) (map comp b) = str_eqb a b.
Proof.
  intros a b. apply eq_true_iff_eq. rewrite !str_eqb_eq. split; intro H; [|rewrite H; reflexivity].
  revert b H. induction a as [|x a IH]; destruct b as [|y b]; cbn [map]; intro H; try discriminate; [reflexivity|].
  inversion H as [[H1 H2]]. apply comp_inj in H1. rewrite (IH b H2), H1. reflexivity.
Qed.

Lemma startswith_map_comp : forall p s, py_startswith (map comp p) (map comp s) = py_startswith p s.
Proof.
  intros p s. unfold py_startswith, py_prefix. rewrite map_length, firstn_map. apply str_eqb_map_comp.
Qed.

Lemma find_from_map_comp : forall p s i, py_find_from (map comp p) (map comp s) i = py_find_from p s i.
Proof.
  intros p s. induction s as [|x s IH]; intro i; cbn [map py_find_from].
  - change (@nil Z) with (map comp []) at 1. rewrite startswith_map_comp. reflexivity.
  - change (comp x :: map comp s) with (map comp (x :: s)). rewrite startswith_map_comp, IH. reflexivity.
Qed.

Lemma find_map_comp : forall p s, py_find (map comp p) (map comp s) = py_find p s.
Proof. intros. apply find_from_map_comp. Qed.

Lemma contains_CATG_revcomp : forall w, py_contains CATG (revcomp w) = py_contains CATG w.
Proof. intro w. change CATG with (revcomp CATG) at 1. apply contains_revcomp. Qed.

Lemma startswith_length : forall p s, py_startswith p s = true -> (length p <= length s)%nat.
Proof. intros p s H. apply startswith_iff in H. destruct H as [b ->]. rewrite app_length. lia. Qed.

Lemma find_from_bounds : forall p s i, py_contains p s = true ->
  i <= py_find_from p s i /\ py_find_from p s i + Z.of_nat (length p) <= i + Z.of_nat (length s).
Proof.
  intros p s. induction s as [|x s IH]; intros i H; cbn [py_contains py_find_from] in *.
  - rewrite orb_false_r in H. rewrite H. pose proof (startswith_length _ _ H). lia.
  - destruct (py_startswith p (x :: s)) eqn:E.
    + pose proof (startswith_length _ _ E). lia.
    + cbn [orb] in H. specialize (IH (i + 1) H). cbn [length]. lia.
Qed.

Lemma find_bounds : forall p s, py_contains p s = true ->
  0 <= py_find p s /\ py_find p s + Z.of_nat (length p) <= Z.of_nat (length s).
Proof. intros p s H. pose proof (find_from_bounds p s 0 H). unfold py_find. lia. Qed.

(* ------------------------------------------------------------------ windows of the reverse-complemented reference *)
Lemma fetch_revcomp : forall ref a k, 0 <= a -> 0 <= k -> a + k <= Z.of_nat (length ref) ->
  fetch_slice (revcomp ref) a (a + k) =
  revcomp (fetch_slice ref (Z.of_nat (length ref) - a - k) (Z.of_nat (length ref) - a)).
Proof.
  intros ref a k Ha Hk H. set (n := length ref).
  set (b := Z.of_nat n - a - k). replace (Z.of_nat n - a) with (b + k) by (unfold b; lia).
  rewrite !fetch_range by (unfold b; lia). unfold revcomp.
  set (m := map comp ref). assert (Hm : length m = n) by (unfold m; rewrite map_length; reflexivity).
  rewrite skipn_rev, firstn_rev, firstn_length, Hm.
  rewrite skipn_firstn_comm. f_equal.
  rewrite <- firstn_map, <- skipn_map. fold m.
  replace (Nat.min (n - Z.to_nat a) n - Z.to_nat k)%nat with (Z.to_nat b) by (unfold b; lia).
  f_equal. unfold b. lia.
Qed.

Lemma fetch_length_le : forall l a k, 0 <= a -> 0 <= k -> (length (fetch_slice l a (a + k)) <= Z.to_nat k)%nat.
Proof. intros. rewrite fetch_range by assumption. rewrite firstn_length. lia. Qed.

(* ------------------------------------------------------------------ no_overhang: mirror symmetry *)
Lemma nla_no_mirror : forall c ref r preq,
  let L := Z.of_nat (length ref) in
  r_unmapped r = false -> r_cigar r <> [] ->
  0 <= r_start r -> r_start r < ref_end r -> ref_end r <= L -> 8 <= fwd_start L r ->
  forget_rr (nla_no_fragment c (-4) (Some (revcomp ref)) true preq (Some (mirror L r))) =
  mirror_result L 4 (nla_no_fragment c (-4) (Some ref) true preq (Some r)).
Proof.
  intros c ref [s cg rv sq um mx] preq L Hmap Hcg Hs Hse He Hf.
  cbn [r_unmapped r_cigar r_start] in Hmap, Hcg, Hs. subst um.
  unfold fwd_start in Hf. cbn [r_rev r_start] in Hf, Hse.
  unfold nla_no_fragment, mirror. cbn [r_unmapped r_cigar r_rev r_start r_seq r_mx].
  destruct (c_check_motif c); [|reflexivity]. cbn [negb].
  assert (Hnil : is_nil cg = false) by (destruct cg; [contradiction | reflexivity]).
  assert (Hnil' : is_nil (rev cg) = false).
  { destruct (rev cg) eqn:E; [|reflexivity]. exfalso. apply (rev_nonempty _ cg Hcg). exact E. }
  rewrite Hnil, Hnil', !andb_false_r.
  unfold ref_end in *. cbn [r_start r_cigar] in *. rewrite ref_span_rev.
  set (e := s + ref_span cg) in *.
  replace (L - e + ref_span cg) with (L - s) by (unfold e; lia).
  destruct rv; cbn [negb].
  - (* r reverse, its mirror image forward *)
    rewrite gen_fwd, gen_rev. cbv zeta.
    assert (Hw : fetch_slice (revcomp ref) (L - e - 7) (L - e - 7 + 7) = revcomp (fetch_slice ref e (e + 7))).
    { rewrite fetch_revcomp by (fold L; lia). fold L. f_equal. f_equal; lia. }
    replace (L - e - 7 + 7) with (L - e) in Hw by lia. rewrite Hw.
    set (w := fetch_slice ref e (e + 7)).
    rewrite contains_CATG_revcomp.
    destruct (py_contains CATG w) eqn:Hc; [|reflexivity].
    assert (Hk : py_find GTAC (rev (revcomp w)) = py_find CATG w).
    { unfold revcomp. rewrite rev_involutive. change GTAC with (map comp CATG). apply find_map_comp. }
    rewrite Hk. pose proof (find_bounds CATG w Hc) as Hb.
    pose proof (fetch_length_le ref e 7 ltac:(lia) ltac:(lia)) as Hl. fold w in Hl.
    change (length CATG) with 4%nat in Hb.
    set (k := py_find CATG w) in *.
    assert (E1 : (L - e - k - 4 =? 0) = false) by (apply Z.eqb_neq; lia).
    assert (E2 : (e + k =? 0) = false) by (apply Z.eqb_neq; lia).
    rewrite E1, E2.
    unfold forget_rr, mirror_result, drop_rr, mirror_obs.
    cbn [o_ds o_rs o_rz o_rr o_qcfail o_valid o_loc o_cut_strand option_map negb].
    apply f_equal. apply obs_ext; try reflexivity; try (apply f_equal; lia).
    destruct (c_invert c); reflexivity.
  - (* r forward, its mirror image reverse *)
    rewrite gen_fwd, gen_rev. cbv zeta.
    assert (Hw : fetch_slice (revcomp ref) (L - s) (L - s + 7) = revcomp (fetch_slice ref (s - 7) s)).
    { rewrite fetch_revcomp by (fold L; lia). fold L. f_equal. f_equal; lia. }
    rewrite Hw.
    set (w := fetch_slice ref (s - 7) s).
    rewrite contains_CATG_revcomp.
    destruct (py_contains CATG w) eqn:Hc; [|reflexivity].
    assert (Hk : py_find CATG (revcomp w) = py_find GTAC (rev w)).
    { unfold revcomp. rewrite <- map_rev. change CATG with (map comp GTAC). apply find_map_comp. }
    rewrite Hk.
    assert (Hc' : py_contains GTAC (rev w) = true).
    { rewrite <- Hc. rewrite <- contains_CATG_revcomp. unfold revcomp. rewrite <- map_rev.
      change CATG with (map comp GTAC).
      apply eq_true_iff_eq. rewrite !contains_iff. split.
      - intros [a [b H]]. exists (map comp a), (map comp b). rewrite H, !map_app. reflexivity.
      - intros [a [b H]]. exists (map comp a), (map comp b).
        rewrite <- (map_id (rev w)). rewrite <- (map_ext _ _ comp_invol), <- map_map, H, !map_app, map_map.
        rewrite (map_ext _ _ comp_invol), map_id. reflexivity. }
    pose proof (find_bounds GTAC (rev w) Hc') as Hb.
    pose proof (fetch_length_le ref (s - 7) 7 ltac:(lia) ltac:(lia)) as Hl.
    replace (s - 7 + 7) with s in Hl by lia. fold w in Hl.
    rewrite rev_length in Hb. change (length GTAC) with 4%nat in Hb.
    set (k := py_find GTAC (rev w)) in *.
    assert (E1 : (L - s + k =? 0) = false) by (apply Z.eqb_neq; lia).
    assert (E2 : (s - k - 4 =? 0) = false) by (apply Z.eqb_neq; lia).
    rewrite E1, E2.
    unfold forget_rr, mirror_result, drop_rr, mirror_obs.
    cbn [o_ds o_rs o_rz o_rr o_qcfail o_valid o_loc o_cut_strand option_map negb].
    apply f_equal. apply obs_ext; try reflexivity; try (apply f_equal; lia).
    destruct (c_invert c); reflexivity.
Qed.

Lemma sim_nla_no_mirror : forall L cycles mid p reverse clip tail, good_mid mid = true ->
  mirror L (simulate_nla_no cycles mid p reverse clip tail) =
  simulate_nla_no cycles (rev mid) (L - 4 - p) (negb reverse) clip tail.
Proof.
  intros L cycles mid p reverse clip tail Hmid.
  unfold simulate_nla_no, place_read, mirror, ref_end.
  destruct reverse; cbn [negb r_start r_cigar r_rev r_seq r_unmapped r_mx];
    rewrite ref_span_wrapped by exact Hmid; rewrite rev_wrapped, ?revcomp_invol, ?ref_len_rev;
    f_equal; lia.
Qed.

(* ------------------------------------------------------------------ size rule: the rule switched off *)
Definition set_valid (pre : bool) (x : result) : result :=
  match x with
  | Raise => Raise
  | Done o => Done (mkObs (o_ds o) (o_rs o) (o_rz o) (o_rr o) (o_qcfail o) (negb pre && o_valid o) (o_loc o) (o_cut_strand o))
  end.

Lemma nla_fragment_pre : forall c two pre r1,
  nla_fragment c two pre r1 = set_valid pre (nla_fragment c two false r1).
Proof.
  intros c two pre r1. unfold nla_fragment.
  destruct two; [|reflexivity]. cbn [negb].
  destruct r1 as [r|]; [|unfold set_valid, rejected; cbn [o_ds o_rs o_rz o_rr o_qcfail o_valid o_loc o_cut_strand]; rewrite andb_false_r; reflexivity].
  destruct (r_unmapped r); [unfold set_valid, rejected; cbn [o_ds o_rs o_rz o_rr o_qcfail o_valid o_loc o_cut_strand]; rewrite andb_false_r; reflexivity|].
  destruct (negb (usable (c_nocigar c) r)); [reflexivity|].
  destruct (nla_site_gen _ _ _ _ _ _ _ _ _ _ _) as [[[[[[a b] d] e] f] g] h].
  cbn [set_valid o_ds o_rs o_rz o_rr o_qcfail o_valid o_loc o_cut_strand negb andb]. reflexivity.
Qed.

Lemma nla_no_fragment_pre : forall c off ref two pre r1,
  nla_no_fragment c off ref two pre r1 = set_valid pre (nla_no_fragment c off ref two false r1).
Proof.
  intros c off ref two pre r1. unfold nla_no_fragment.
  destruct ref as [contig|]; [|reflexivity].
  destruct (negb (c_check_motif c)); [reflexivity|].
  destruct two; [|reflexivity]. cbn [negb].
  destruct r1 as [r|]; [|unfold set_valid, rejected; cbn [o_ds o_rs o_rz o_rr o_qcfail o_valid o_loc o_cut_strand]; rewrite andb_false_r; reflexivity].
  destruct (r_unmapped r); [unfold set_valid, rejected; cbn [o_ds o_rs o_rz o_rr o_qcfail o_valid o_loc o_cut_strand]; rewrite andb_false_r; reflexivity|].
  destruct (r_rev r && is_nil (r_cigar r)); [reflexivity|].
  destruct (nla_no_overhang_gen _ _ _ _ _) as [[[[[[[a0 a] b] d] e] f] g] h].
  cbn [set_valid o_ds o_rs o_rz o_rr o_qcfail o_valid o_loc o_cut_strand negb andb]. reflexivity.
Qed.

Lemma nla_valid_off : forall q found sz, nla_is_valid_gen q found None sz = (negb q && found, None, false).
Proof. intros q found sz. cbv beta iota zeta delta [nla_is_valid_gen]. destruct q; reflexivity. Qed.

Lemma chic_valid_off : forall q found sz, chic_is_valid_gen q found None sz = (negb q && found, None, false).
Proof. intros q found sz. cbv beta iota zeta delta [chic_is_valid_gen]. destruct q; reflexivity. Qed.

Lemma apply_valid_off : forall pre o,
  Done (apply_valid (negb pre && o_valid o, None, false) o) = set_valid pre (Done o).
Proof.
  intros pre o. unfold apply_valid, set_valid, add_reason. cbn [fst snd]. rewrite orb_false_r. reflexivity.
Qed.

Lemma nla_x_off : forall c (two : bool) pre r1 (r2 : option read),
  span_at_init pre r1 (if two then r2 else None) <> SpanRaise ->
  nla_fragment_x c two pre r1 r2 None = nla_fragment c two pre r1.
Proof.
  intros c two pre r1 r2 H. unfold nla_fragment_x, with_size_rule. rewrite (nla_fragment_pre c two pre r1).
  destruct (span_at_init pre r1 (if two then r2 else None)); try contradiction;
    (destruct (nla_fragment c two false r1) as [|o]; [reflexivity|]; rewrite nla_valid_off; apply apply_valid_off).
Qed.

Lemma nla_no_x_off : forall c off ref (two : bool) pre r1 (r2 : option read),
  span_at_init pre r1 (if two then r2 else None) <> SpanRaise ->
  nla_no_fragment_x c off ref two pre r1 r2 None = nla_no_fragment c off ref two pre r1.
Proof.
  intros c off ref two pre r1 r2 H. unfold nla_no_fragment_x, with_size_rule.
  rewrite (nla_no_fragment_pre c off ref two pre r1).
  destruct ref as [contig|]; [|reflexivity].
  destruct (negb (c_check_motif c)) eqn:Hcm; [unfold nla_no_fragment; rewrite Hcm; reflexivity|].
  destruct (span_at_init pre r1 (if two then r2 else None)); try contradiction;
    (destruct (nla_no_fragment c off (Some contig) two false r1) as [|o]; [reflexivity|]; rewrite nla_valid_off; apply apply_valid_off).
Qed.

Lemma chic_fragment_pre : forall c pre r1 r2,
  chic_fragment c pre r1 r2 = set_valid pre (chic_fragment c false r1 r2).
Proof.
  intros c pre r1 r2. unfold chic_fragment.
  destruct r1 as [r|]; [|unfold set_valid, rejected; cbn [o_ds o_rs o_rz o_rr o_qcfail o_valid o_loc o_cut_strand]; rewrite andb_false_r; reflexivity].
  destruct (r_unmapped r); [unfold set_valid, rejected; cbn [o_ds o_rs o_rz o_rr o_qcfail o_valid o_loc o_cut_strand]; rewrite andb_false_r; reflexivity|].
  destruct (match r2 with Some (false, rev2) => Bool.eqb (r_rev r) rev2 | _ => false end);
    [unfold set_valid, rejected; cbn [o_ds o_rs o_rz o_rr o_qcfail o_valid o_loc o_cut_strand]; rewrite andb_false_r; reflexivity|].
  destruct (negb (usable (c_nocigar c) r)); [reflexivity|].
  destruct (chic_site_gen _ _ _ _ _ _ _ _ _ _) as [[[[[[a b] d] e] f] g] h].
  cbn [set_valid o_ds o_rs o_rz o_rr o_qcfail o_valid o_loc o_cut_strand negb andb]. reflexivity.
Qed.

Lemma chic_x_off : forall c pre r1 r2 seqs,
  span_at_init (pre || any_homopolymer seqs) r1 r2 <> SpanRaise ->
  chic_fragment_x c pre r1 r2 seqs None = chic_fragment_h c pre r1 (r2_summary r2) seqs.
Proof.
  intros c pre r1 r2 seqs H. unfold chic_fragment_x, with_size_rule, chic_fragment_h in *.
  destruct (any_homopolymer seqs).
  - rewrite orb_true_r in *. unfold span_at_init. cbv beta iota.
    rewrite (chic_fragment_pre c true r1 (r2_summary r2)).
    destruct (chic_fragment c false r1 (r2_summary r2)) as [|o]; cbn [set_valid]; [reflexivity|].
    rewrite chic_valid_off. cbn [negb andb].
    unfold apply_valid, mark_homo, add_reason. cbn [fst snd o_ds o_rs o_rz o_rr o_qcfail o_valid o_loc o_cut_strand orb].
    reflexivity.
  - rewrite orb_false_r in *. rewrite (chic_fragment_pre c pre r1 (r2_summary r2)).
    destruct (span_at_init pre r1 r2); try contradiction;
      (destruct (chic_fragment c false r1 (r2_summary r2)) as [|o]; [reflexivity|]; rewrite chic_valid_off; apply apply_valid_off).
Qed.

(* ------------------------------------------------------------------ size rule: general form *)
Lemma fragment_size_abs : forall s e, fragment_size_gen s e = Z.abs (e - s).
Proof. intros s e. cbv beta iota zeta delta [fragment_size_gen]. lia. Qed.

Lemma nla_valid_on : forall q found m sz,
  nla_is_valid_gen q found (Some m) (Some sz) =
  if negb q && (m <? sz) then (false, Some s_FS, true) else (negb q && found, None, false).
Proof.
  intros q found m sz. cbv beta iota zeta delta [nla_is_valid_gen]. rewrite Z.gtb_ltb.
  destruct q; [reflexivity|]. cbn [negb andb]. destruct (m <? sz); reflexivity.
Qed.

Lemma chic_valid_on : forall q found m sz,
  chic_is_valid_gen q found (Some m) (Some sz) = (negb q && negb (m <? sz) && found, None, false).
Proof.
  intros q found m sz. cbv beta iota zeta delta [chic_is_valid_gen]. rewrite Z.gtb_ltb.
  destruct q; [reflexivity|]. cbn [negb andb]. destruct (m <? sz); reflexivity.
Qed.

Lemma nla_valid_nosize : forall q found m, nla_is_valid_gen q found m None = (negb q && found, None, false).
Proof. intros q found m. cbv beta iota zeta delta [nla_is_valid_gen]. destruct q, m; reflexivity. Qed.

Lemma chic_valid_nosize : forall q found m, chic_is_valid_gen q found m None = (negb q && found, None, false).
Proof. intros q found m. cbv beta iota zeta delta [chic_is_valid_gen]. destruct q, m; reflexivity. Qed.

(* the NlaIII verdict for any read pair: compared with the same fragment without the rule, the fragment is
   turned into a size-rejected one exactly when it was not qcfail on input and its span is longer than m *)
Lemma with_size_nla : forall pre r1 r2 m base o,
  with_size_rule nla_is_valid_gen pre r1 r2 None base = Done o ->
  with_size_rule nla_is_valid_gen pre r1 r2 (Some m) base =
  Done (match size_of (span_at_init pre r1 r2) with
        | Some sz => if negb pre && (m <? sz) then size_rejected_nla o else o
        | None => o
        end).
Proof.
  intros pre r1 r2 m base o H. unfold with_size_rule in *.
  destruct (span_at_init pre r1 r2) as [| |s e]; try discriminate H;
    destruct base as [|o0]; try discriminate H; cbn [size_of] in *.
  - rewrite nla_valid_nosize in *. exact H.
  - rewrite nla_valid_off in H. rewrite nla_valid_on.
    inversion H as [Ho]. clear H.
    destruct (negb pre && (m <? fragment_size_gen s e)) eqn:E; [|reflexivity].
    unfold size_rejected_nla, apply_valid, add_reason.
    cbn [fst snd o_ds o_rs o_rz o_rr o_qcfail o_valid o_loc o_cut_strand]. rewrite ?orb_false_r, ?orb_true_r.
    reflexivity.
Qed.

Lemma with_size_chic : forall q r1 r2 m base o,
  with_size_rule chic_is_valid_gen q r1 r2 None base = Done o ->
  with_size_rule chic_is_valid_gen q r1 r2 (Some m) base =
  Done (match size_of (span_at_init q r1 r2) with
        | Some sz => if m <? sz then size_rejected_chic o else o
        | None => o
        end).
Proof.
  intros q r1 r2 m base o H. unfold with_size_rule in *.
  destruct (span_at_init q r1 r2) as [| |s e] eqn:Hsp; try discriminate H;
    destruct base as [|o0]; try discriminate H; cbn [size_of] in *.
  - rewrite chic_valid_nosize in *. exact H.
  - rewrite chic_valid_off in H. rewrite chic_valid_on.
    inversion H as [Ho]. clear H.
    assert (Hq : q = false).
    { unfold span_at_init in Hsp. destruct q; [discriminate Hsp | reflexivity]. }
    subst q. cbn [negb andb].
    destruct (m <? fragment_size_gen s e) eqn:E; cbn [negb andb]; [|reflexivity].
    unfold size_rejected_chic, apply_valid, add_reason.
    cbn [fst snd o_ds o_rs o_rz o_rr o_qcfail o_valid o_loc o_cut_strand]. rewrite ?orb_false_r.
    reflexivity.
Qed.

(* ------------------------------------------------------------------ span of placed reads *)
Lemma is_nil_wrapped : forall a mid b, good_mid mid = true -> is_nil (softclip a ++ mid ++ softclip b) = false.
Proof.
  intros a mid b H. destruct (softclip a ++ mid ++ softclip b) eqn:E; [|reflexivity].
  apply app_eq_nil in E. destruct E as [_ E]. apply app_eq_nil in E. destruct E as [E _].
  exfalso. exact (good_mid_nonempty mid H E).
Qed.

Lemma place_read_end : forall cycles mid x reverse clip tail mx, good_mid mid = true ->
  ref_end_opt (place_read cycles mid x reverse clip tail mx) =
  Some (if reverse then x + 1 - clip else x + clip + ref_len mid).
Proof.
  intros cycles mid x reverse clip tail mx H. unfold ref_end_opt, place_read, ref_end.
  destruct reverse; cbn [r_unmapped r_cigar r_start]; rewrite is_nil_wrapped by exact H;
    rewrite ref_span_wrapped by exact H; cbn [orb]; f_equal; lia.
Qed.

Lemma place_read_start : forall cycles mid x reverse clip tail mx,
  r_start (place_read cycles mid x reverse clip tail mx) =
  if reverse then x + 1 - clip - ref_len mid else x + clip.
Proof. intros. unfold place_read. destruct reverse; reflexivity. Qed.

Lemma place_read_rev : forall cycles mid x reverse clip tail mx,
  r_rev (place_read cycles mid x reverse clip tail mx) = reverse.
Proof. intros. unfold place_read. destruct reverse; reflexivity. Qed.

Lemma frag_size_pair_sim : forall c1 mid1 x1 reverse cl1 t1 mx c2 mid2 x2 cl2 t2,
  good_mid mid1 = true -> good_mid mid2 = true ->
  frag_size (Some (place_read c1 mid1 x1 reverse cl1 t1 mx)) (Some (place_mate c2 mid2 x2 reverse cl2 t2)) =
  Some (Z.abs (pair_extent x1 cl1 x2 cl2 reverse)).
Proof.
  intros c1 mid1 x1 reverse cl1 t1 mx c2 mid2 x2 cl2 t2 H1 H2.
  unfold frag_size, frag_span, place_mate.
  rewrite !place_read_end by assumption. rewrite !place_read_start, !place_read_rev.
  unfold span_of, size_of, pair_extent. rewrite fragment_size_abs.
  destruct reverse; cbn [negb]; cbv beta iota zeta delta [span_pair_gen]; cbn [negb andb fst snd]; f_equal; lia.
Qed.

Lemma frag_size_single_sim : forall c1 mid1 x1 reverse cl1 t1 mx, good_mid mid1 = true ->
  frag_size (Some (place_read c1 mid1 x1 reverse cl1 t1 mx)) None = Some (ref_len mid1).
Proof.
  intros c1 mid1 x1 reverse cl1 t1 mx H1. pose proof (good_mid_pos mid1 H1) as Hp.
  unfold frag_size, frag_span. rewrite place_read_end by assumption. rewrite place_read_start.
  unfold span_of, size_of. rewrite fragment_size_abs.
  destruct reverse; cbv beta iota zeta delta [span_r1_gen]; cbn [fst snd]; f_equal; lia.
Qed.

Lemma frag_span_not_raise : forall a ea r2, ref_end_opt a = Some ea -> frag_span (Some a) r2 <> SpanRaise.
Proof.
  intros a ea r2 H. unfold frag_span. rewrite H. destruct r2 as [b|]; [destruct (ref_end_opt b)|]; unfold span_of; discriminate.
Qed.

Lemma span_at_init_not_raise : forall q a ea r2, ref_end_opt a = Some ea -> span_at_init q (Some a) r2 <> SpanRaise.
Proof.
  intros q a ea r2 H. unfold span_at_init. destruct q; [discriminate|]. exact (frag_span_not_raise a ea r2 H).
Qed.

Lemma size_at_init : forall q r1 r2, size_of (span_at_init q r1 r2) = if q then None else frag_size r1 r2.
Proof. intros q r1 r2. unfold span_at_init. destruct q; reflexivity. Qed.

(* ------------------------------------------------------------------ size rule on simulated fragments *)
Lemma nla_size_sim : forall c cycles mid p reverse clip tail pre mate m sz,
  good_mid mid = true -> py_prefix 4 cycles = CATG ->
  let r1 := simulate_nla cycles mid p reverse clip tail false in
  frag_size (Some r1) mate = Some sz ->
  nla_fragment_x c true pre (Some r1) mate (Some m) =
  Done (let o := site_obs (p + clip_shift c reverse clip) (xorb reverse (c_invert c)) reverse (Some CATG) pre in
        if negb pre && (m <? sz) then size_rejected_nla o else o).
Proof.
  intros c cycles mid p reverse clip tail pre mate m sz Hmid Hmotif r1 Hsz.
  assert (He : exists ea, ref_end_opt r1 = Some ea).
  { unfold r1, simulate_nla. eexists. apply place_read_end. exact Hmid. }
  destruct He as [ea He].
  pose proof (nla_x_off c true pre (Some r1) mate (span_at_init_not_raise pre r1 ea mate He)) as Hoff.
  unfold r1 in Hoff at 2. rewrite nla_site_any in Hoff by assumption.
  unfold nla_fragment_x in *. rewrite (with_size_nla _ _ _ m _ _ Hoff).
  rewrite size_at_init. cbv zeta. destruct pre; [reflexivity|]. rewrite Hsz. reflexivity.
Qed.

Lemma chic_size_sim : forall c cycles mid x reverse clip tail trimmed mx pre mate seqs m sz,
  good_mid mid = true -> mx_trimmed mx = trimmed -> any_homopolymer seqs = false ->
  let r1 := simulate_chic cycles mid x reverse clip tail trimmed mx in
  r2_ok reverse (r2_summary mate) = true ->
  frag_size (Some r1) mate = Some sz ->
  chic_fragment_x c pre (Some r1) mate seqs (Some m) =
  Done (let o := site_obs ((if reverse then x + 1 else x - 1) + clip_shift c reverse clip)
                          (xorb reverse (c_invert c)) (xorb reverse (c_invert c)) None pre in
        if negb pre && (m <? sz) then size_rejected_chic o else o).
Proof.
  intros c cycles mid x reverse clip tail trimmed mx pre mate seqs m sz Hmid Hmx Hh r1 Hr2 Hsz.
  assert (He : exists ea, ref_end_opt r1 = Some ea).
  { unfold r1, simulate_chic. eexists. apply place_read_end. exact Hmid. }
  destruct He as [ea He].
  pose proof (chic_x_off c pre (Some r1) mate seqs (span_at_init_not_raise _ r1 ea mate He)) as Hoff.
  unfold r1 in Hoff at 2. rewrite chic_site_any_h in Hoff by assumption.
  unfold chic_fragment_x in *. rewrite (with_size_chic _ _ _ m _ _ Hoff).
  rewrite size_at_init, Hh, orb_false_r. cbv zeta. destruct pre; [reflexivity|]. rewrite Hsz. reflexivity.
Qed.

(* ------------------------------------------------------------------ size rule: mirror symmetry *)
Lemma is_nil_rev : forall (A : Type) (l : list A), is_nil (rev l) = is_nil l.
Proof.
  intros A l. destruct l as [|a l]; [reflexivity|]. cbn [rev is_nil].
  destruct (rev l ++ [a]) eqn:E; [|reflexivity]. apply app_eq_nil in E. destruct E as [_ E]. discriminate E.
Qed.

Lemma ref_end_opt_mirror : forall L r,
  ref_end_opt (mirror L r) = option_map (fun _ => L - r_start r) (ref_end_opt r).
Proof.
  intros L [s cg rv sq um mx]. unfold ref_end_opt, mirror, ref_end. cbn [r_unmapped r_cigar r_start].
  rewrite is_nil_rev, ref_span_rev. destruct (um || is_nil cg); cbn [option_map]; [reflexivity|]. f_equal. lia.
Qed.

Lemma mirror_start : forall L r, r_start (mirror L r) = L - ref_end r.
Proof. reflexivity. Qed.

Lemma mirror_rev : forall L r, r_rev (mirror L r) = negb (r_rev r).
Proof. reflexivity. Qed.

Lemma ref_end_opt_some : forall r e, ref_end_opt r = Some e -> e = ref_end r.
Proof. intros r e H. unfold ref_end_opt in H. destruct (r_unmapped r || is_nil (r_cigar r)); inversion H; reflexivity. Qed.

Lemma frag_size_mirror : forall L a r2 ea, ref_end_opt a = Some ea -> mate_ok a r2 = true ->
  frag_size (Some (mirror L a)) (option_map (mirror L) r2) = frag_size (Some a) r2.
Proof.
  intros L a r2 ea Ha Hm. pose proof (ref_end_opt_some a ea Ha) as Hea.
  unfold frag_size, frag_span. destruct r2 as [b|]; cbn [option_map].
  - rewrite !ref_end_opt_mirror, Ha. cbn [option_map]. unfold mate_ok in Hm.
    destruct (ref_end_opt b) as [eb|] eqn:Hb; cbn [option_map].
    + pose proof (ref_end_opt_some b eb Hb) as Heb.
      rewrite !mirror_start, !mirror_rev. unfold span_of, size_of. rewrite !fragment_size_abs.
      cbv beta iota zeta delta [span_pair_gen].
      destruct (r_rev a), (r_rev b); cbn in Hm; try discriminate Hm; cbn [negb andb fst snd]; f_equal; lia.
    + rewrite !mirror_start. unfold span_of, size_of. rewrite !fragment_size_abs.
      cbv beta iota zeta delta [span_r1_gen]. cbn [fst snd]. f_equal. lia.
  - rewrite !ref_end_opt_mirror, Ha. cbn [option_map]. rewrite !mirror_start. unfold span_of, size_of.
    rewrite !fragment_size_abs. cbv beta iota zeta delta [span_r1_gen]. cbn [fst snd]. f_equal. lia.
Qed.

Lemma mapped_end : forall r, r_unmapped r = false -> r_cigar r <> [] -> ref_end_opt r = Some (ref_end r).
Proof.
  intros r Hm Hc. unfold ref_end_opt. rewrite Hm. destruct (r_cigar r); [contradiction | reflexivity].
Qed.

(* the verdict commutes with mirroring: it only reads validity, and mirroring keeps validity *)
Lemma apply_valid_mirror : forall (isvalid : bool -> bool -> option Z -> option Z -> bool * option str * bool)
    q m sz L w x x',
  forget_rr x' = mirror_result L w x ->
  forget_rr (match x' with Raise => Raise | Done o => Done (apply_valid (isvalid q (o_valid o) m sz) o) end) =
  mirror_result L w (match x with Raise => Raise | Done o => Done (apply_valid (isvalid q (o_valid o) m sz) o) end).
Proof.
  intros isvalid q m sz L w x x' H.
  destruct x as [|o], x' as [|o']; cbn [forget_rr mirror_result] in *; try discriminate H; [reflexivity|].
  inversion H as [H1]. clear H.
  destruct o as [a1 a2 a3 a4 a5 a6 a7 a8], o' as [b1 b2 b3 b4 b5 b6 b7 b8].
  unfold drop_rr, mirror_obs, apply_valid in *.
  cbn [o_ds o_rs o_rz o_rr o_qcfail o_valid o_loc o_cut_strand] in *.
  inversion H1; subst. reflexivity.
Qed.

Lemma with_size_mirror : forall isvalid q L w a r2 m x x' ea,
  ref_end_opt a = Some ea -> mate_ok a r2 = true ->
  forget_rr x' = mirror_result L w x ->
  forget_rr (with_size_rule isvalid q (Some (mirror L a)) (option_map (mirror L) r2) m x') =
  mirror_result L w (with_size_rule isvalid q (Some a) r2 m x).
Proof.
  intros isvalid q L w a r2 m x x' ea Ha Hm H. unfold with_size_rule.
  assert (Hsz : size_of (span_at_init q (Some (mirror L a)) (option_map (mirror L) r2)) = size_of (span_at_init q (Some a) r2)).
  { rewrite !size_at_init. destruct q; [reflexivity|]. exact (frag_size_mirror L a r2 ea Ha Hm). }
  assert (Ha' : ref_end_opt (mirror L a) = Some (L - r_start a)).
  { rewrite ref_end_opt_mirror, Ha. reflexivity. }
  pose proof (span_at_init_not_raise q a ea r2 Ha) as N1.
  pose proof (span_at_init_not_raise q (mirror L a) _ (option_map (mirror L) r2) Ha') as N2.
  destruct (span_at_init q (Some a) r2) eqn:E1; try contradiction;
    destruct (span_at_init q (Some (mirror L a)) (option_map (mirror L) r2)) eqn:E2; try contradiction;
    cbn [size_of] in Hsz |- *; try discriminate Hsz; try rewrite Hsz; apply apply_valid_mirror; exact H.
Qed.

Lemma nla_x_mirror : forall c L a r2 pre m, r_unmapped a = false -> r_cigar a <> [] -> mate_ok a r2 = true ->
  forget_rr (nla_fragment_x c true pre (Some (mirror L a)) (option_map (mirror L) r2) m) =
  mirror_result L 4 (nla_fragment_x c true pre (Some a) r2 m).
Proof.
  intros c L a r2 pre m Hmap Hcg Hm. unfold nla_fragment_x.
  apply (with_size_mirror nla_is_valid_gen pre L 4 a r2 m _ _ (ref_end a) (mapped_end a Hmap Hcg) Hm).
  apply nla_mirror; assumption.
Qed.

Lemma r2_summary_mirror : forall L r2, r2_summary (option_map (mirror L) r2) = mirror_r2 (r2_summary r2).
Proof. intros L [b|]; reflexivity. Qed.

Lemma chic_x_mirror : forall c L a r2 pre seqs m, r_unmapped a = false -> r_cigar a <> [] -> mate_ok a r2 = true ->
  forget_rr (chic_fragment_x c pre (Some (mirror L a)) (option_map (mirror L) r2) (map revcomp seqs) m) =
  mirror_result L 1 (chic_fragment_x c pre (Some a) r2 seqs m).
Proof.
  intros c L a r2 pre seqs m Hmap Hcg Hm. unfold chic_fragment_x. rewrite any_homopolymer_mirror.
  apply (with_size_mirror chic_is_valid_gen _ L 1 a r2 m _ _ (ref_end a) (mapped_end a Hmap Hcg) Hm).
  rewrite r2_summary_mirror. apply chic_mirror_h; assumption.
Qed.

Lemma nla_no_x_mirror : forall c ref a r2 pre m,
  let L := Z.of_nat (length ref) in
  r_unmapped a = false -> r_cigar a <> [] -> mate_ok a r2 = true ->
  0 <= r_start a -> r_start a < ref_end a -> ref_end a <= L -> 8 <= fwd_start L a ->
  forget_rr (nla_no_fragment_x c (-4) (Some (revcomp ref)) true pre (Some (mirror L a)) (option_map (mirror L) r2) m) =
  mirror_result L 4 (nla_no_fragment_x c (-4) (Some ref) true pre (Some a) r2 m).
Proof.
  intros c ref a r2 pre m L Hmap Hcg Hm H0 H1 H2 H3. unfold nla_no_fragment_x.
  destruct (negb (c_check_motif c)); [reflexivity|].
  apply (with_size_mirror nla_is_valid_gen pre L 4 a r2 m _ _ (ref_end a) (mapped_end a Hmap Hcg) Hm).
  apply nla_no_mirror; assumption.
Qed.

(* scCHIC: no hypothesis on the mate is needed - a mapped mate on the same strand makes the fragment invalid
   ("orientation") whatever its size *)
Lemma chic_valid_found_false : forall q m sz, chic_is_valid_gen q false m sz = (false, None, false).
Proof. intros q m sz. cbv beta iota zeta delta [chic_is_valid_gen]. destruct q, m as [m|], sz as [sz|]; try reflexivity.
  destruct (sz >? m); reflexivity. Qed.

Lemma chic_same_strand_invalid : forall c pre a b seqs o,
  r_unmapped a = false -> r_unmapped b = false -> r_rev a = r_rev b ->
  chic_fragment_h c pre (Some a) (r2_summary (Some b)) seqs = Done o -> o_valid o = false.
Proof.
  intros c pre a b seqs o Ha Hb Hr H. unfold chic_fragment_h, r2_summary in H. cbn [option_map] in H.
  rewrite Hb in H.
  assert (E : forall p, chic_fragment c p (Some a) (Some (false, r_rev b)) = Done (rejected s_orientation)).
  { intro p. unfold chic_fragment. rewrite Ha, Hr. rewrite eqb_reflx. reflexivity. }
  rewrite !E in H. destruct (any_homopolymer seqs); inversion H; reflexivity.
Qed.

Lemma chic_x_mirror_any : forall c L a r2 pre seqs m, r_unmapped a = false -> r_cigar a <> [] ->
  forget_rr (chic_fragment_x c pre (Some (mirror L a)) (option_map (mirror L) r2) (map revcomp seqs) m) =
  mirror_result L 1 (chic_fragment_x c pre (Some a) r2 seqs m).
Proof.
  intros c L a r2 pre seqs m Hmap Hcg.
  destruct (mate_ok a r2) eqn:Hm; [apply chic_x_mirror; assumption|].
  unfold mate_ok in Hm. destruct r2 as [b|]; [|discriminate Hm].
  destruct (ref_end_opt b) as [eb|] eqn:Hb; [|discriminate Hm].
  apply negb_false_iff in Hm. apply eqb_prop in Hm.
  assert (Hbu : r_unmapped b = false).
  { unfold ref_end_opt in Hb. destruct (r_unmapped b); [discriminate Hb | reflexivity]. }
  pose proof (chic_mirror_h c L a false (r2_summary (Some b)) seqs Hmap Hcg) as HM.
  rewrite <- (r2_summary_mirror L) in HM.
  unfold chic_fragment_x, with_size_rule. cbn [option_map]. rewrite any_homopolymer_mirror.
  set (q := pre || any_homopolymer seqs).
  pose proof (span_at_init_not_raise q a (ref_end a) (Some b) (mapped_end a Hmap Hcg)) as N1.
  assert (Ha' : ref_end_opt (mirror L a) = Some (L - r_start a)).
  { rewrite ref_end_opt_mirror, (mapped_end a Hmap Hcg). reflexivity. }
  pose proof (span_at_init_not_raise q (mirror L a) _ (Some (mirror L b)) Ha') as N2.
  cbn [option_map] in HM.
  destruct (chic_fragment_h c false (Some a) (r2_summary (Some b)) seqs) as [|o] eqn:E1;
    destruct (chic_fragment_h c false (Some (mirror L a)) (r2_summary (Some (mirror L b))) (map revcomp seqs)) as [|o'] eqn:E2;
    cbn [forget_rr mirror_result] in HM; try discriminate HM.
  - destruct (span_at_init q (Some a) (Some b)); try contradiction;
      destruct (span_at_init q (Some (mirror L a)) (Some (mirror L b))); try contradiction; reflexivity.
  - pose proof (chic_same_strand_invalid c false a b seqs o Hmap Hbu Hm E1) as V1.
    assert (V2 : o_valid o' = false).
    { inversion HM as [H1]. destruct o as [a1 a2 a3 a4 a5 a6 a7 a8], o' as [b1 b2 b3 b4 b5 b6 b7 b8]. unfold drop_rr, mirror_obs in H1.
      cbn [o_ds o_rs o_rz o_rr o_qcfail o_valid o_loc o_cut_strand] in *. inversion H1. subst. reflexivity. }
    rewrite V1, V2.
    destruct (span_at_init q (Some a) (Some b)); try contradiction;
      destruct (span_at_init q (Some (mirror L a)) (Some (mirror L b))); try contradiction;
      rewrite !chic_valid_found_false; cbn [forget_rr mirror_result];
      inversion HM as [H1]; destruct o as [a1 a2 a3 a4 a5 a6 a7 a8], o' as [b1 b2 b3 b4 b5 b6 b7 b8]; unfold drop_rr, mirror_obs, apply_valid in *;
      cbn [fst snd o_ds o_rs o_rz o_rr o_qcfail o_valid o_loc o_cut_strand] in *; inversion H1; subst; reflexivity.
Qed.

(* ------------------------------------------------------------------ statements as used in Props/C09.v *)
Lemma nla_size_general : forall c (two : bool) pre r1 (r2 : option read) m o,
  nla_fragment_x c two pre r1 r2 None = Done o ->
  nla_fragment_x c two pre r1 r2 (Some m) =
  Done (match (if pre then None else frag_size r1 (if two then r2 else None)) with
        | Some sz => if m <? sz then size_rejected_nla o else o
        | None => o
        end).
Proof.
  intros c two pre r1 r2 m o H. unfold nla_fragment_x in *. rewrite (with_size_nla _ _ _ m _ _ H).
  rewrite size_at_init. destruct pre; reflexivity.
Qed.

Lemma chic_size_general : forall c pre r1 r2 seqs m o,
  chic_fragment_x c pre r1 r2 seqs None = Done o ->
  chic_fragment_x c pre r1 r2 seqs (Some m) =
  Done (match (if pre || any_homopolymer seqs then None else frag_size r1 r2) with
        | Some sz => if m <? sz then size_rejected_chic o else o
        | None => o
        end).
Proof.
  intros c pre r1 r2 seqs m o H. unfold chic_fragment_x in *. rewrite (with_size_chic _ _ _ m _ _ H).
  rewrite size_at_init. reflexivity.
Qed.

Lemma frag_size_is_span : forall r1 r2 s e, frag_span r1 r2 = Span s e -> frag_size r1 r2 = Some (Z.abs (e - s)).
Proof. intros r1 r2 s e H. unfold frag_size. rewrite H. cbn [size_of]. rewrite fragment_size_abs. reflexivity. Qed.

Lemma nla_no_size_sim : forall c pre_ post cycles mid reverse clip tail preq mate m sz,
  let ref := pre_ ++ CATG ++ post in
  let p := Z.of_nat (length pre_) in
  let r := simulate_nla_no cycles mid p reverse clip tail in
  good_mid mid = true -> c_check_motif c = true -> 0 <= clip <= 3 -> 0 < p ->
  0 <= r_start r -> ref_end r <= Z.of_nat (length ref) -> (reverse = false -> 3 <= p + clip) ->
  frag_size (Some r) mate = Some sz ->
  nla_no_fragment_x c (-4) (Some ref) true preq (Some r) mate (Some m) =
  Done (let o := site_obs p (xorb reverse (c_invert c)) reverse (Some (no_window ref p reverse clip)) preq in
        if negb preq && (m <? sz) then size_rejected_nla o else o).
Proof.
  intros c pre_ post cycles mid reverse clip tail preq mate m sz ref p r Hmid Hcm Hclip Hp Hs He Hw Hsz.
  assert (Hea : exists ea, ref_end_opt r = Some ea).
  { unfold r, simulate_nla_no. eexists. apply place_read_end. exact Hmid. }
  destruct Hea as [ea Hea].
  pose proof (nla_no_x_off c (-4) (Some ref) true preq (Some r) mate (span_at_init_not_raise preq r ea mate Hea)) as Hoff.
  pose proof (nla_no_site c pre_ post cycles mid reverse clip tail preq Hmid Hcm Hclip Hp Hs He Hw) as Hsite.
  fold ref p r in Hsite. rewrite Hsite in Hoff.
  unfold nla_no_fragment_x in *. rewrite Hcm in *. cbn [negb] in *.
  rewrite (with_size_nla _ _ _ m _ _ Hoff).
  rewrite size_at_init. cbv zeta. destruct preq; [reflexivity|]. rewrite Hsz. reflexivity.
Qed.

(* ------------------------------------------------------------------ refutations (concrete witnesses) *)
(* soft clips are not corrected in no_overhang mode: with 4 clipped cycles the CATG leaves the scanned window *)
Lemma nla_no_clip_refuted :
  exists c pre_ post cycles mid reverse clip tail,
    let ref := pre_ ++ CATG ++ post in
    let p := Z.of_nat (length pre_) in
    let r := simulate_nla_no cycles mid p reverse clip tail in
    good_mid mid = true /\ c_check_motif c = true /\ 0 <= clip /\ 0 < p /\
    0 <= r_start r /\ ref_end r <= Z.of_nat (length ref) /\ 3 <= p + clip /\
    is_rejected (nla_no_fragment c (-4) (Some ref) true false (Some r)).
Proof.
  exists (mkCfg false true false false), (repeat 65 10), (repeat 84 20), (repeat 84 10), [(0, 6)], false, 4, 0.
  cbv zeta. repeat split; try (vm_compute; reflexivity); try (vm_compute; discriminate).
  eexists. split; [vm_compute; reflexivity|]. cbn. repeat split; discriminate.
Qed.

(* the window of a forward read closer than 7 bases to the contig start is taken with a negative slice bound:
   the CATG at the contig start is not found, although the mirrored fragment at the contig end is *)
Lemma nla_no_contig_start_refuted :
  exists c ref r,
    let L := Z.of_nat (length ref) in
    r_unmapped r = false /\ r_cigar r <> [] /\ 0 <= r_start r /\ r_start r < ref_end r /\ ref_end r <= L /\
    forget_rr (nla_no_fragment c (-4) (Some (revcomp ref)) true false (Some (mirror L r))) <>
    mirror_result L 4 (nla_no_fragment c (-4) (Some ref) true false (Some r)).
Proof.
  exists (mkCfg false true false false), (CATG ++ repeat 84 20), (mkRead 4 [(0, 6)] false (repeat 84 6) false None).
  cbv zeta. repeat split; try (vm_compute; reflexivity); try (vm_compute; discriminate).
Qed.

(* a site at reference position 0 is falsy: `if self.identify_site():` stores found_valid_site = False *)
Lemma nla_no_site_zero_refuted :
  exists c ref r,
    let L := Z.of_nat (length ref) in
    r_unmapped r = false /\ r_cigar r <> [] /\ 7 <= r_start r /\ r_start r < ref_end r /\ ref_end r <= L /\
    forget_rr (nla_no_fragment c (-4) (Some (revcomp ref)) true false (Some (mirror L r))) <>
    mirror_result L 4 (nla_no_fragment c (-4) (Some ref) true false (Some r)).
Proof.
  exists (mkCfg false true false false), (CATG ++ repeat 84 20), (mkRead 7 [(0, 6)] false (repeat 84 6) false None).
  cbv zeta. repeat split; try (vm_compute; reflexivity); try (vm_compute; discriminate).
Qed.

(* two mates on the same strand: update_span takes min / max of the two START coordinates, which is not
   mirror symmetric *)
Lemma size_same_orientation_refuted :
  exists c L a b m,
    r_unmapped a = false /\ r_cigar a <> [] /\ r_unmapped b = false /\ r_cigar b <> [] /\ r_rev a = r_rev b /\
    forget_rr (nla_fragment_x c true false (Some (mirror L a)) (Some (mirror L b)) (Some m)) <>
    mirror_result L 4 (nla_fragment_x c true false (Some a) (Some b) (Some m)).
Proof.
  exists (mkCfg false true false false), 2000,
         (mkRead 500 [(0, 20)] false (CATG ++ repeat 65 16) false None),
         (mkRead 600 [(0, 30)] false (repeat 65 30) false None), 100.
  repeat split; try (vm_compute; reflexivity); try (vm_compute; discriminate).
Qed.
