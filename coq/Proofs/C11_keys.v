(* C11 proofs, part 3: every key component is the read's own; str(int) / float() round trip for by-value counting;
   soundness of the executable specification specb; a concrete example. *)
From Coq Require Import ZArith List Bool QArith Lia DecimalPos.
Import ListNotations.
From SCMO Require Import Lib.Val Model.C11 Proofs.C11 Proofs.C11_table.
Open Scope Z_scope.

(* ------------------------------------------------------------------ own keys *)
Definition own_str (o : opts) (r : read) (c : str) : Prop :=
  exists t, In t (snd (prep o)) /\
    (c = feat r t \/
     exists f, In f (split (o_delim o) (feat r t)) /\ (c = f \/ c = none_if_empty f \/ exists ch, In ch f /\ c = [ch])).

Definition own_kc (o : opts) (reg : option (Z * Z * str)) (r : read) (c : kc) : Prop :=
  match c with
  | KS s => own_str o r s \/ o_byvalue o = Some s \/ exists g, reg = Some g /\ s = snd g
  | KZ z => exists g, reg = Some g /\ (z = fst (fst g) \/ z = snd (fst g))
  end.

Lemma product_in : forall ls st, In st (product ls) -> Forall (fun x => exists l, In l ls /\ In x l) st.
Proof.
  induction ls as [|l ls IH]; intros st H; cbn [product] in H.
  - destruct H as [<-|[]]. constructor.
  - apply in_flat_map in H. destruct H as (x & Hx & H). apply in_map_iff in H. destruct H as (st' & <- & Hst).
    constructor.
    + exists l. split; [left; reflexivity|assumption].
    + apply IH in Hst. eapply Forall_impl; [|exact Hst]. intros y (l' & Hl' & Hy). exists l'. split; [right|]; assumption.
Qed.

Lemma dedup_str_In : forall l x, In x (dedup_str l) -> In x l.
Proof.
  induction l as [|y l IH]; intros x H; [destruct H|]. cbn [dedup_str] in H. destruct H as [<-|H]; [left; reflexivity|].
  right. apply filter_In in H. apply IH. exact (proj1 H).
Qed.

Definition own_raw (o : opts) (r : read) (k : rawkey) : Prop :=
  match k with
  | RTuple cs => Forall (own_str o r) cs
  | RStr f => exists t, In t (snd (prep o)) /\ In f (split (o_delim o) (feat r t))
  end.

Lemma joined_feature_own o r : Forall (own_str o r) (joined_feature o (snd (prep o)) r).
Proof.
  unfold joined_feature. apply Forall_forall. intros c Hc. apply in_map_iff in Hc. destruct Hc as (t & <- & Ht).
  apply filter_In in Ht. exists t. split; [exact (proj1 Ht)|left; reflexivity].
Qed.

Lemma incs_own o w r l k a : incs o w r = Ok l -> In (k, a) l -> own_raw o r k.
Proof.
  pose proof (joined_feature_own o r) as Hjf. unfold incs. destruct (prep o) as [joined ft] eqn:Hprep.
  cbn [snd] in Hjf. destruct joined.
  - destruct (o_split o).
    + destruct (is_nil (o_delim o)); [discriminate|]. destruct (o_byvalue o).
      * destruct (is_nil _); [|discriminate]. intros H. apply Ok_inj in H. subst l. intros [].
      * intros H. apply Ok_inj in H. subst l. rewrite in_map_iff. intros (st & Hst & Hin). inversion Hst. subst k a.
        cbn [own_raw]. apply product_in in Hin. apply Forall_forall. intros c Hc. apply in_map_iff in Hc.
        destruct Hc as (x & <- & Hx). rewrite Forall_forall in Hin. destruct (Hin x Hx) as (l' & Hl' & Hxl).
        apply in_map_iff in Hl'. destruct Hl' as (t & <- & Ht). exists t. rewrite Hprep. cbn [snd].
        split; [assumption|]. right. exists x. split; [assumption|]. right. left. reflexivity.
    + destruct (o_byvalue o); intros H; apply Ok_inj in H; subst l; intros [Hin|[]]; inversion Hin; subst k a;
        cbn [own_raw]; assumption.
  - destruct (_ && _ && _); [discriminate|]. intros H. apply Ok_inj in H. subst l. rewrite in_flat_map.
    intros (t & Ht & Hin). apply dedup_str_In in Ht. destruct (is_byvalue o t).
    + destruct Hin as [Hin|[]]. inversion Hin. subst k a. cbn [own_raw]. assumption.
    + destruct (o_split o).
      * apply in_map_iff in Hin. destruct Hin as (f & Hf & Hin). inversion Hf. subst k a. cbn [own_raw].
        exists t. rewrite Hprep. cbn [snd]. auto.
      * destruct Hin as [Hin|[]]. inversion Hin. subst k a. cbn [own_raw]. constructor; [|constructor].
        exists t. rewrite Hprep. cbn [snd]. split; [assumption|left; reflexivity].
Qed.

Lemma region_own o s e n r : Forall (own_kc o (Some (s, e, n)) r) [KZ s; KZ e; KS n].
Proof.
  constructor; [cbn [own_kc]; exists (s, e, n); split; [reflexivity|left; reflexivity]|].
  constructor; [cbn [own_kc]; exists (s, e, n); split; [reflexivity|right; reflexivity]|].
  constructor; [cbn [own_kc]; right; right; exists (s, e, n); split; reflexivity|constructor].
Qed.

Lemma final_keys_own o reg r l k a :
  (forall k' a', In (k', a') l -> own_raw o r k') -> In (k, a) (final_keys o reg l) -> Forall (own_kc o reg r) k.
Proof.
  intros Hl. unfold final_keys. destruct reg as [[[s e] n]|].
  - rewrite in_flat_map. intros ([rk a'] & Hin & Hk). cbn [fst snd] in Hk. specialize (Hl rk a' Hin).
    unfold bed_key in Hk. destruct (byvalue_truthy o) as [b|] eqn:Hb.
    + cbn [is_nil] in Hk. destruct Hk as [Hk|[]]. inversion Hk. subst k a. cbn [map app].
      unfold byvalue_truthy in Hb. destruct (o_byvalue o) as [b'|] eqn:Hb'; [|discriminate].
      destruct (is_nil b'); [discriminate|]. inversion Hb. subst b'.
      constructor; [cbn [own_kc]; right; left; exact Hb'|apply region_own].
    + destruct (is_nil _) eqn:En; [destruct Hk|]. destruct Hk as [Hk|[]]. inversion Hk. subst k a.
      apply Forall_app. split.
      * apply Forall_forall. intros c Hc. apply in_map_iff in Hc. destruct Hc as (x & <- & Hx). cbn [own_kc]. left.
        destruct rk as [cs|f]; cbn [own_raw] in Hl.
        -- rewrite Forall_forall in Hl. apply Hl. assumption.
        -- destruct Hl as (t & Ht & Hf). apply in_map_iff in Hx. destruct Hx as (ch & <- & Hch).
           exists t. split; [assumption|]. right. exists f. split; [assumption|]. right. right. exists ch. auto.
      * apply region_own.
  - rewrite in_map_iff. intros ([rk a'] & Hk & Hin). cbn [fst snd] in Hk. inversion Hk. subst k a.
    specialize (Hl rk a' Hin). destruct rk as [cs|f]; cbn [plain_key own_raw] in *.
    + apply Forall_forall. intros c Hc. apply in_map_iff in Hc. destruct Hc as (x & <- & Hx). cbn [own_kc]. left.
      rewrite Forall_forall in Hl. apply Hl. assumption.
    + constructor; [|constructor]. cbn [own_kc]. left. destruct Hl as (t & Ht & Hf). exists t. split; [assumption|].
      right. exists f. split; [assumption|]. left. reflexivity.
Qed.

Lemma assign_own_key o reg r l ck w :
  assign o reg r = Ok l -> In (ck, w) l -> Forall (own_kc o reg r) (snd ck).
Proof.
  unfold assign. destruct (should_count o r) as [[|]|]; try discriminate.
  - destruct (weight o r) as [w0|]; [|discriminate]. destruct (incs o w0 r) as [li|] eqn:Hi; [|discriminate].
    intros H. apply Ok_inj in H. subst l. rewrite in_map_iff. intros ([k a] & Hp & Hin). inversion Hp. subst ck w.
    cbn [fst snd]. apply (final_keys_own o reg r li k a); [|assumption].
    intros k' a' Hin'. exact (incs_own o w0 r li k' a' Hi Hin').
  - intros H. apply Ok_inj in H. subst l. intros [].
Qed.

(* ------------------------------------------------------------------ float(str(int)) = int *)
Lemma uint_codes_digits : forall u, all_digits (uint_codes u) = true.
Proof. induction u; cbn [uint_codes all_digits forallb]; try reflexivity; exact IHu. Qed.

Lemma split_aux_digits : forall s cur, all_digits s = true -> split_aux [46] s O cur = [rev cur ++ s].
Proof.
  induction s as [|c s IH]; intros cur H; cbn [split_aux].
  - rewrite app_nil_r. reflexivity.
  - cbn [all_digits forallb] in H. apply andb_true_iff in H. destruct H as [Hc Hs].
    cbn [is_prefix]. replace (46 =? c) with false.
    + cbn [andb]. rewrite (IH (c :: cur) Hs). cbn [rev]. rewrite <- app_assoc. reflexivity.
    + symmetry. apply Z.eqb_neq. unfold is_digit in Hc. lia.
Qed.

Lemma split_digits s : all_digits s = true -> split [46] s = [s].
Proof. intros H. unfold split. rewrite split_aux_digits by assumption. reflexivity. Qed.

Lemma strip_sign_digits s : all_digits s = true -> strip_sign s = (false, s).
Proof.
  destruct s as [|c s]; [reflexivity|]. cbn [all_digits forallb]. rewrite andb_true_iff. intros [Hc _].
  unfold is_digit in Hc. unfold strip_sign.
  destruct (Z.eq_dec c 45) as [->|N1]; [discriminate|]. destruct (Z.eq_dec c 43) as [->|N2]; [discriminate|].
  destruct c as [|p|p]; try reflexivity.
  do 6 (destruct p as [p|p|]; try reflexivity); try contradiction.
Qed.

Lemma dv_pos : forall u acc, digits_val (Zpos acc) (uint_codes u) = Zpos (Pos.of_uint_acc u acc).
Proof.
  induction u; intros acc; cbn [uint_codes digits_val Pos.of_uint_acc]; try reflexivity;
    match goal with |- digits_val ?x _ = _ =>
      match goal with |- _ = Zpos (Pos.of_uint_acc _ ?a) => replace x with (Zpos a) by lia end end; apply IHu.
Qed.

Lemma dv_0 : forall u, digits_val 0 (uint_codes u) = Z.of_N (Pos.of_uint u).
Proof.
  induction u; cbn [uint_codes digits_val Pos.of_uint]; try reflexivity; try exact IHu;
    match goal with |- digits_val ?x _ = Z.of_N (N.pos (Pos.of_uint_acc _ ?a)) =>
      replace x with (Zpos a) by lia end; apply dv_pos.
Qed.

Lemma uint_codes_nonnil u : u <> Decimal.Nil -> is_nil (uint_codes u) = false.
Proof. destruct u; [contradiction| | | | | | | | | |]; reflexivity. Qed.

Lemma drop_ws_id s : forallb (fun c => negb (is_ws c)) s = true -> drop_ws s = s.
Proof.
  destruct s as [|c s]; [reflexivity|]. cbn [forallb drop_ws]. rewrite andb_true_iff, negb_true_iff.
  intros [-> _]. reflexivity.
Qed.

Lemma py_strip_id s : forallb (fun c => negb (is_ws c)) s = true -> py_strip s = s.
Proof.
  intros H. unfold py_strip. rewrite (drop_ws_id s H). rewrite drop_ws_id; [apply rev_involutive|].
  apply forallb_forall. intros c Hc. apply in_rev in Hc. rewrite forallb_forall in H. apply H. assumption.
Qed.

Lemma digits_not_ws s : all_digits s = true -> forallb (fun c => negb (is_ws c)) s = true.
Proof.
  unfold all_digits. rewrite !forallb_forall. intros H c Hc. specialize (H c Hc). unfold is_digit in H. unfold is_ws.
  apply negb_true_iff. apply orb_false_iff. split; [apply Z.eqb_neq; lia|]. apply andb_false_iff. right. lia.
Qed.

Lemma parse_decimal_str_of_Z z : parse_decimal (str_of_Z z) = Some (inject_Z z).
Proof.
  unfold str_of_Z, Z.to_int. destruct z as [|p|p].
  - reflexivity.
  - unfold parse_decimal. rewrite py_strip_id by (apply digits_not_ws, uint_codes_digits).
    rewrite strip_sign_digits by apply uint_codes_digits.
    rewrite split_digits by apply uint_codes_digits.
    rewrite uint_codes_nonnil by apply Unsigned.to_uint_nonnil. rewrite uint_codes_digits. cbn [negb andb].
    rewrite dv_0, Unsigned.of_to. reflexivity.
  - unfold parse_decimal.
    rewrite py_strip_id by (cbn [forallb]; rewrite digits_not_ws by apply uint_codes_digits; reflexivity).
    cbn [strip_sign].
    rewrite split_digits by apply uint_codes_digits.
    rewrite uint_codes_nonnil by apply Unsigned.to_uint_nonnil. rewrite uint_codes_digits. cbn [negb andb].
    rewrite dv_0, Unsigned.of_to. reflexivity.
Qed.

Lemma by_value_int r b z : meta r b = Some (TInt z) -> (num_of (meta r b) == inject_Z z)%Q.
Proof.
  intros H. rewrite H. unfold num_of, py_float_or_0. cbn [py_str]. rewrite parse_decimal_str_of_Z. reflexivity.
Qed.

(* a float tag contributes its exact value; a string tag the value of its decimal literal (0 when it is none) *)
Lemma by_value_float r b q s : meta r b = Some (TFlt q s) -> num_of (meta r b) = q.
Proof. intros H. rewrite H. reflexivity. Qed.

Lemma by_value_str r b s : meta r b = Some (TStr s) ->
  num_of (meta r b) = match parse_decimal s with Some q => q | None => 0%Q end.
Proof. intros H. rewrite H. reflexivity. Qed.

(* ------------------------------------------------------------------ soundness of the executable specification *)
Lemma existsb_ck k l : existsb (ck_eqb k) l = true <-> In k l.
Proof.
  rewrite existsb_exists. split.
  - intros (x & Hx & E). apply ck_eqb_eq in E. subst x. assumption.
  - intros H. exists k. split; [assumption|apply ck_eqb_refl].
Qed.

Lemma nodup_keys_iff : forall l, nodup_keys l = true <-> NoDup l.
Proof.
  induction l as [|k l IH]; cbn [nodup_keys].
  - split; [constructor|reflexivity].
  - rewrite andb_true_iff, negb_true_iff, IH. split.
    + intros [H1 H2]. constructor; [|assumption]. intros Hin. apply existsb_ck in Hin. congruence.
    + intros H. inversion H as [|? ? Hn Hd]; subst. split; [|assumption].
      destruct (existsb (ck_eqb k) l) eqn:E; [|reflexivity]. apply existsb_ck in E. contradiction.
Qed.

Lemma add_cell_keys_incl k w x : forall t, In x (map fst (add_cell k w t)) -> x = k \/ In x (map fst t).
Proof.
  induction t as [|[k' w'] t IH]; cbn [add_cell map fst].
  - intros [<-|[]]. left. reflexivity.
  - destruct (ck_eqb k k'); cbn [map fst].
    + intros [<-|H]; [right; left; reflexivity|right; right; exact H].
    + intros [<-|H]; [right; left; reflexivity|]. destruct (IH H) as [->|H']; [left; reflexivity|right; right; exact H'].
Qed.

Lemma add_cell_NoDup k w : forall t, NoDup (map fst t) -> NoDup (map fst (add_cell k w t)).
Proof.
  induction t as [|[k' w'] t IH]; cbn [add_cell map fst]; intros H.
  - constructor; [intros []|constructor].
  - inversion H as [|? ? Hn Hd]; subst. destruct (ck_eqb k k') eqn:E; cbn [map fst]; constructor; auto.
    intros Hin. apply add_cell_keys_incl in Hin. destruct Hin as [->|Hin]; [|contradiction].
    rewrite ck_eqb_refl in E. discriminate.
Qed.

Lemma add_all_NoDup : forall l t, NoDup (map fst t) -> NoDup (map fst (add_all l t)).
Proof.
  induction l as [|c l IH]; intros t H; [exact H|]. unfold add_all. cbn [fold_left].
  apply IH. apply add_cell_NoDup. assumption.
Qed.

Lemma count_pairs_NoDup o : forall pairs t t',
  count_pairs o pairs (Ok t) = Ok t' -> NoDup (map fst t) -> NoDup (map fst t').
Proof.
  induction pairs as [|p pairs IH]; intros t t' H Hd.
  - cbn in H. apply Ok_inj in H. subst t'. assumption.
  - rewrite count_pairs_cons in H. unfold step in H at 1.
    destruct (assign o (fst p) (snd p)) as [l|e]; [|rewrite count_pairs_raise in H; discriminate].
    apply IH in H; [assumption|]. apply add_all_NoDup. assumption.
Qed.

Lemma count_table_NoDup o reads t : count_table o reads = Ok t -> NoDup (map fst t).
Proof.
  rewrite count_table_pairs. destruct (is_nil (snd (prep o))); [discriminate|].
  intros H. apply count_pairs_NoDup in H; [assumption|constructor].
Qed.

Lemma cell_notin k : forall t, ~ In k (map fst t) -> (cell k t == 0)%Q.
Proof.
  induction t as [|[k' w'] t IH]; intros H; [reflexivity|]. rewrite cell_cons. cbn [fst snd map] in *.
  destruct (ck_eqb k k') eqn:E.
  - apply ck_eqb_eq in E. subst k'. exfalso. apply H. left. reflexivity.
  - rewrite IH; [ring|]. intros Hin. apply H. right. assumption.
Qed.

Lemma cell_unique : forall t c, NoDup (map fst t) -> In c t -> (cell (fst c) t == snd c)%Q.
Proof.
  induction t as [|[k' w'] t IH]; intros c Hd Hin; [destruct Hin|].
  cbn [map fst] in Hd. inversion Hd as [|? ? Hn Hd']; subst. rewrite cell_cons. cbn [fst snd].
  destruct Hin as [<-|Hin].
  - cbn [fst snd]. rewrite ck_eqb_refl, (cell_notin k' t Hn). ring.
  - assert (E : ck_eqb (fst c) k' = false).
    { destruct (ck_eqb (fst c) k') eqn:E; [|reflexivity]. apply ck_eqb_eq in E. subst k'.
      exfalso. apply Hn. apply in_map. assumption. }
    rewrite E, (IH c Hd' Hin). ring.
Qed.

Lemma NoDup_map_filter {A B} (f : A -> B) (p : A -> bool) : forall l, NoDup (map f l) -> NoDup (map f (filter p l)).
Proof.
  induction l as [|x l IH]; intros H; [constructor|]. cbn [map] in H. inversion H as [|? ? Hn Hd]; subst.
  cbn [filter]. destruct (p x); [|auto]. cbn [map]. constructor; [|auto].
  intros Hin. apply Hn. apply in_map_iff in Hin. destruct Hin as (y & Hy & Hin). apply filter_In in Hin.
  rewrite <- Hy. apply in_map. exact (proj1 Hin).
Qed.

Lemma specb_sound o reads t : count_table o reads = Ok t -> specb o reads (Some (filter nonzero t)) = true.
Proof.
  intros H. pose proof (count_table_NoDup o reads t H) as Hd. pose proof (count_table_spec o reads t H) as Hs.
  unfold specb. destruct (pre o reads); [|reflexivity]. rewrite !andb_true_iff. split; [split|].
  - apply forallb_forall. intros c Hc. apply filter_In in Hc. destruct Hc as [Hc _].
    apply Qeq_bool_iff. rewrite <- Hs. symmetry. apply cell_unique; assumption.
  - apply forallb_forall. intros k _. destruct (Qeq_bool (spec_cell o k reads) 0) eqn:E; [reflexivity|].
    cbn [orb]. apply existsb_ck. apply Qeq_bool_neq in E. rewrite <- Hs in E.
    destruct (existsb (ck_eqb k) (map fst t)) eqn:Ein.
    + apply existsb_ck in Ein. apply in_map_iff in Ein. destruct Ein as ([k' w] & Hk & Hin). cbn [fst] in Hk. subst k'.
      apply in_map_iff. exists (k, w). split; [reflexivity|]. apply filter_In. split; [assumption|].
      unfold nonzero. cbn [snd]. apply negb_true_iff. destruct (Qeq_bool w 0) eqn:Ew; [|reflexivity].
      exfalso. apply E. apply Qeq_bool_iff in Ew. rewrite <- Ew. exact (cell_unique t (k, w) Hd Hin).
    + exfalso. apply E. apply cell_notin. intros Hin. apply existsb_ck in Hin. congruence.
  - apply nodup_keys_iff. apply NoDup_map_filter. assumption.
Qed.

(* ------------------------------------------------------------------ a concrete example *)
Definition ex_tags (rc : Z) : list (str * tval) := [([83; 77], TStr [99; 49]); ([82; 67], TInt rc)].
Definition ex_chr1 : option str := Some [99; 104; 114; 49].
Definition ex_reads : list read :=
  [ mkRead true true false false false false false true 60 [0] (ex_tags 2) ex_chr1 10 (Some 30);
    mkRead true false true false false false false true 60 [4; 0] (ex_tags 2) ex_chr1 50 (Some 70);
    mkRead true false true true false false false false 0 [] (ex_tags 2) ex_chr1 10 None;       (* unmapped, no CIGAR *)
    mkRead false false false false false false true false 60 [0] (ex_tags 2) ex_chr1 90 (Some 110) ]. (* duplicate *)
Definition ex_opts : opts :=
  mkOpts false false false 0 false true None false false true None false false None
         (Some [s_chrom; [82; 67]]) None false [44] [[83; 77]] None None.

Definition ex_key : cellkey := ([Some (TStr [99; 49])], [KS [99; 104; 114; 49]; KS [50]]).  (* (c1,), (chr1, '2') *)

Lemma ex_ok :
  pre ex_opts ex_reads = true /\
  exists t, count_table ex_opts ex_reads = Ok t /\
    (cell ex_key t == 1)%Q /\
    map (passesb ex_opts) ex_reads = [true; true; false; false].
Proof.
  split; [vm_compute; reflexivity|]. eexists. split; [vm_compute; reflexivity|]. split; vm_compute; reflexivity.
Qed.
