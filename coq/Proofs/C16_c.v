(* C16 proofs, part c: statements on the index built by sort() for arbitrary feature lists, the executable
   specification (mode 2) satisfies the declarative one, eviction is harmless, refutations for the code at HEAD. *)
From Coq Require Import ZArith List Bool Lia Permutation Sorted.
Import ListNotations.
From SCMO Require Import Gen.GenFeatures Model.C16 Proofs.C16_a Proofs.C16_b.
Open Scope Z_scope.

(* ------------------------------------------------------------------ lookups on the index sort() builds *)
Definition starts_le_ends (fs : list feat) : Prop := forall f, In f fs -> f_start f <= f_end f.

Lemma fast_exact fs x q : starts_le_ends fs ->
  at_rec (build_pure fs) x q 0 = filter (hit x q) (sort_feats fs) /\
  Permutation (at_rec (build_pure fs) x q 0) (filter (hit x q) fs).
Proof.
  intros H. pose proof (build_wb fs H) as Hwb. rewrite (at_exact_fast _ x q Hwb). rewrite build_feats.
  split; [reflexivity | apply perm_filter, sort_perm].
Qed.

Lemma set_exact fs x q o : starts_le_ends fs -> o = 1 \/ o = 2 ->
  NoDup (at_rec (build_pure fs) x q o) /\
  forall f, In f (at_rec (build_pure fs) x q o) <-> In f fs /\ hit x q f = true.
Proof.
  intros H Ho. pose proof (build_wb fs H) as Hwb. split.
  - rewrite (at_exact_set _ x q o Hwb Ho). apply NoDup_filter, dedup_NoDup.
  - intros f. rewrite (at_exact_In _ x q o f Hwb) by tauto. rewrite build_feats, sort_In. tauto.
Qed.

Lemma variants_agree fs x q o f : starts_le_ends fs -> o = 1 \/ o = 2 ->
  (In f (at_rec (build_pure fs) x q o) <-> In f (at_rec (build_pure fs) x q 0)).
Proof.
  intros H Ho. pose proof (build_wb fs H) as Hwb.
  rewrite !(at_exact_In _ x q _ f Hwb) by tauto. tauto.
Qed.

Lemma range_exact fs a b q : starts_le_ends fs -> a <= b ->
  let r := build_pure fs in
  let l := dedup (between_rec r a b q ++ at_rec r a q 0 ++ at_rec r b q 0) in
  NoDup l /\ forall f, In f l <-> In f fs /\ hit_between a b q f = true.
Proof.
  intros H Hab r l. pose proof (build_wb fs H) as Hwb. split; [apply dedup_NoDup|].
  intros f. unfold l, r. rewrite (between_exact _ a b q f Hwb Hab). rewrite build_feats, sort_In. tauto.
Qed.

(* ------------------------------------------------------------------ T: what the regenerated kernel is *)
Lemma source_kernel :
  (forall r x q o, at_rec r x q o = at_rec_ref r x q o) /\
  (forall r a b q, between_rec r a b q = between_rec_ref r a b q) /\
  (forall fs, pre_rec fs = pre_rec_ref fs) /\ (forall l v, ss g_fastidx_side l v = ss_left l v) /\
  (forall bs be, g_block_start bs be = bs /\ g_block_end bs be = be - 1) /\
  g_autosort_at = true /\ cfg_fixed = cfg_ref.
Proof.
  repeat split; intros;
    auto using at_rec_shape, between_rec_shape, pre_rec_shape, ss_fastidx_shape, block_start_shape, block_end_shape.
Qed.

(* ------------------------------------------------------------------ the executable specification *)
Lemma covered_overlap bl f :
  (forall a b, In (a, b) bl -> a < b) ->
  (existsb (fun p => overlap (fst p) (snd p - 1) f) bl = true <-> covered bl f).
Proof.
  intros Hbl. rewrite existsb_exists. unfold covered. split.
  - intros [[a b] [Hin Hov]]. cbn [fst snd] in Hov. apply overlap_spec in Hov.
    exists a, b, (Z.max a (f_start f)). split; [exact Hin | lia].
  - intros [a [b [p [Hin [Hp Hf]]]]]. exists (a, b). split; [exact Hin|]. cbn [fst snd]. apply overlap_spec. lia.
Qed.

Lemma spec_step_ok all o : op_wfb o = true -> ans_ok all o (spec_step all o).
Proof.
  intros Hop. destruct o as [c f| |c x q o|c a b q|c bl q meth]; cbn [spec_step ans_ok].
  - destruct (strand_ok f); cbn; auto.
  - reflexivity.
  - destruct (o =? 0); cbn [ans_ok].
    + apply sort_perm.
    + split.
      * eapply Permutation_NoDup; [apply Permutation_sym, sort_perm | apply dedup_NoDup].
      * intros f. rewrite sort_In, dedup_In. tauto.
  - split.
    + eapply Permutation_NoDup; [apply Permutation_sym, sort_perm | apply dedup_NoDup].
    + intros f. rewrite sort_In, dedup_In. tauto.
  - split.
    + eapply Permutation_NoDup; [apply Permutation_sym, sort_perm | apply dedup_NoDup].
    + intros f. rewrite sort_In, dedup_In. unfold spec_blocks. rewrite filter_In, andb_true_iff.
      rewrite covered_overlap; [tauto|].
      intros a b Hab. cbn [op_wfb] in Hop. rewrite forallb_forall in Hop. specialize (Hop (a, b) Hab).
      cbn in Hop. apply Z.ltb_lt in Hop. exact Hop.
Qed.

Lemma spec_run_ok ops : forall all, forallb op_wfb ops = true -> trace_ok all ops (spec_run all ops).
Proof.
  induction ops as [|o t IH]; intros all H; cbn [spec_run trace_ok]; [exact I|].
  cbn [forallb] in H. apply andb_true_iff in H. destruct H as [H1 H2].
  split; [apply spec_step_ok; exact H1 | apply IH; exact H2].
Qed.

(* ------------------------------------------------------------------ evictions (other instances share the cache) *)
Lemma evict_ok st all m' :
  Inv st all -> incl m' (st_memo st) -> Inv (mkS (st_contigs st) (st_sorted st) m') all.
Proof.
  intros Hinv Hincl. constructor; cbn [st_contigs st_sorted st_memo].
  - exact (inv_nodup _ _ Hinv).
  - exact (inv_rel _ _ Hinv).
  - intros Hs. destruct (inv_sorted _ _ Hinv Hs) as [Hwb Hok]. split; [exact Hwb|].
    intros k v Hin. apply Hok. apply Hincl. exact Hin.
  - intros Hs. rewrite (inv_unsorted _ _ Hinv Hs) in Hincl. destruct m' as [|x m']; [reflexivity|].
    exfalso. apply (Hincl x). left. reflexivity.
Qed.

Theorem eviction_harmless ops2 : forall st all m',
  Inv st all -> all_wf all -> incl m' (st_memo st) -> hist_wf all ops2 ->
  trace_ok all ops2 (run_ops cfg_fixed (mkS (st_contigs st) (st_sorted st) m') ops2).
Proof.
  rewrite cfg_fixed_shape. intros st all m' Hinv Hwf Hincl Hh. apply history_gen; [apply evict_ok; assumption | exact Hwf | exact Hh].
Qed.

(* ------------------------------------------------------------------ refutations: the code as it is at HEAD *)
Definition f1 := mkF 10 20 1 1 1.
Definition f2 := mkF 5 30 2 1 2.
Definition f3 := mkF 30 40 3 1 3.
(* D19: the second, identical question is answered from the cache of the first *)
Definition ops_D19 : list op := [Add 0 f1; Sort; At 0 15 0 0; Add 0 f2; At 0 15 0 0].
(* D19 through sort(): a fresh question after the second sort() misses f2 (stale 'nb' answers in fastIndex) *)
Definition ops_D19_sort : list op := [Add 0 f1; Sort; Add 0 f2; Sort; At 0 16 0 0].
(* D32: a range query right after addFeature is answered from the index of the previous state *)
Definition ops_D32 : list op := [Add 0 f1; Between 0 12 13 0].
(* D20: a read covering 25..29 (pysam block (25, 30)) is annotated with the feature [30, 40] *)
Definition ops_D20 : list op := [Add 0 f3; Sort; Blocks 0 [(25, 30)] 0 1].

Lemma no_D19 g : run_ops g init ops_D19 = [ROk []; ROk []; ROk [f1]; ROk []; ROk [f1]] -> ~ trace_ok [] ops_D19 (run_ops g init ops_D19).
Proof.
  intros E H. rewrite E in H. simpl in H. destruct H as [_ [_ [_ [_ [H _]]]]].
  apply Permutation_length in H. vm_compute in H. discriminate.
Qed.

Lemma no_D32 g : run_ops g init ops_D32 = [ROk []; ROk []] -> ~ trace_ok [] ops_D32 (run_ops g init ops_D32).
Proof.
  intros E H. rewrite E in H. simpl in H. destruct H as [_ [[_ H] _]].
  apply (proj2 (H f1)). vm_compute. left. reflexivity.
Qed.

Lemma no_D20 g : run_ops g init ops_D20 = [ROk []; ROk []; ROk [f3]] -> ~ trace_ok [] ops_D20 (run_ops g init ops_D20).
Proof.
  intros E H. rewrite E in H. simpl in H. destruct H as [_ [_ [[_ H] _]]].
  destruct (proj1 (H f3)) as [_ [_ [a [b [p [Hin [Hp Hf]]]]]]]; [left; reflexivity|].
  destruct Hin as [Hin|[]]. inversion Hin. subst. unfold f3 in Hf. cbn in Hf. lia.
Qed.

Lemma refuted_D19 : hist_wfb ops_D19 = true /\ ~ trace_ok [] ops_D19 (run_ops (mkCfg false true true) init ops_D19).
Proof. split; [vm_compute; reflexivity | apply no_D19; vm_compute; reflexivity]. Qed.

Lemma refuted_D19_sort :
  hist_wfb ops_D19_sort = true /\ ~ trace_ok [] ops_D19_sort (run_ops (mkCfg false true true) init ops_D19_sort).
Proof.
  split; [vm_compute; reflexivity|]. intros H.
  assert (E : run_ops (mkCfg false true true) init ops_D19_sort = [ROk []; ROk []; ROk []; ROk []; ROk [f1]])
    by (vm_compute; reflexivity).
  rewrite E in H. simpl in H. destruct H as [_ [_ [_ [_ [H _]]]]].
  apply Permutation_length in H. vm_compute in H. discriminate.
Qed.

Lemma refuted_D32 : hist_wfb ops_D32 = true /\ ~ trace_ok [] ops_D32 (run_ops (mkCfg true false true) init ops_D32).
Proof. split; [vm_compute; reflexivity | apply no_D32; vm_compute; reflexivity]. Qed.

Lemma refuted_D20 : hist_wfb ops_D20 = true /\ ~ trace_ok [] ops_D20 (run_ops (mkCfg true true false) init ops_D20).
Proof. split; [vm_compute; reflexivity | apply no_D20; vm_compute; reflexivity]. Qed.

Lemma refuted_head :
  (hist_wfb ops_D19 = true /\ ~ trace_ok [] ops_D19 (run_ops cfg_head init ops_D19)) /\
  (hist_wfb ops_D32 = true /\ ~ trace_ok [] ops_D32 (run_ops cfg_head init ops_D32)) /\
  (hist_wfb ops_D20 = true /\ ~ trace_ok [] ops_D20 (run_ops cfg_head init ops_D20)).
Proof.
  split; [|split]; (split; [vm_compute; reflexivity|]).
  - apply no_D19; vm_compute; reflexivity.
  - apply no_D32; vm_compute; reflexivity.
  - apply no_D20; vm_compute; reflexivity.
Qed.
