(* C03x proofs, part 1: text-mode line iteration, strip / split, tokenisation of printed files *)
From Coq Require Import ZArith List Bool Arith Lia.
Import ListNotations.
From SCMO Require Import Lib.Val Lib.PyInt Gen.GenBarcode Model.C03 Model.C03x Proofs.C03.
Open Scope Z_scope.

(* ------------------------------------------------------------------ T: the regenerated pieces have the shape
   the proofs below are written for *)
Lemma gen_is_single_shape n : gen_is_single n = (n =? 1).
Proof. reflexivity. Qed.
Lemma gen_is_pair_shape n : gen_is_pair n = (n =? 2).
Proof. reflexivity. Qed.
Lemma gen_lineno_index_shape i : gen_lineno_index i = i + 1.
Proof. reflexivity. Qed.
Lemma gen_resplit_char_shape : gen_resplit_char = 32.
Proof. reflexivity. Qed.
Lemma space_facts : is_space 32 = true /\ is_space 9 = true /\ is_space 10 = true /\ is_space 13 = true.
Proof. vm_compute. repeat split. Qed.
Lemma resplit_is_space : is_space gen_resplit_char = true.
Proof. vm_compute. reflexivity. Qed.

(* ------------------------------------------------------------------ split() *)
Fixpoint tw (s : str) : str :=
  match s with [] => [] | c :: s' => if is_space c then [] else c :: tw s' end.
Fixpoint dw (s : str) : str :=
  match s with [] => [] | c :: s' => if is_space c then s else dw s' end.
Definition head_space (s : str) : bool := match s with [] => true | c :: _ => is_space c end.
Definition nonspaces (t : str) : bool := forallb (fun c => negb (is_space c)) t.

Lemma toks_cons c s : toks (c :: s) = let (t, r) := toks s in if is_space c then ([], push t r) else (c :: t, r).
Proof. reflexivity. Qed.

Lemma toks_spec s : toks s = (tw s, split_ws (dw s)).
Proof.
  induction s as [|c s IH]; [reflexivity|].
  rewrite toks_cons, IH. cbn [tw dw]. destruct (is_space c) eqn:E; [|reflexivity].
  unfold split_ws at 2. rewrite toks_cons, IH, E. reflexivity.
Qed.

Lemma split_ws_nil : split_ws [] = [].
Proof. reflexivity. Qed.

Lemma split_ws_space c s : is_space c = true -> split_ws (c :: s) = split_ws s.
Proof.
  intros H. unfold split_ws. rewrite toks_cons. destruct (toks s) as [t r]. rewrite H. reflexivity.
Qed.

Lemma split_ws_nonspace c s : is_space c = false -> split_ws (c :: s) = (c :: tw s) :: split_ws (dw s).
Proof.
  intros H. unfold split_ws at 1. rewrite toks_cons, toks_spec, H. reflexivity.
Qed.

Lemma split_ws_spaces w s : forallb is_space w = true -> split_ws (w ++ s) = split_ws s.
Proof.
  induction w as [|c w IH]; intros H; [reflexivity|].
  cbn [forallb] in H. apply andb_prop in H. destruct H as [Hc Hw].
  cbn [app]. rewrite split_ws_space by exact Hc. apply IH. exact Hw.
Qed.

Lemma split_ws_all_space w : forallb is_space w = true -> split_ws w = [].
Proof. intros H. rewrite <- (app_nil_r w). rewrite split_ws_spaces by exact H. reflexivity. Qed.

Lemma tw_app t s : nonspaces t = true -> head_space s = true -> tw (t ++ s) = t.
Proof.
  unfold nonspaces. induction t as [|c t IH]; intros Ht Hs.
  - destruct s as [|d s]; [reflexivity|]. cbn [app tw]. cbn [head_space] in Hs. rewrite Hs. reflexivity.
  - cbn [forallb] in Ht. apply andb_prop in Ht. destruct Ht as [Hc Ht]. apply negb_true_iff in Hc.
    cbn [app tw]. rewrite Hc, IH by assumption. reflexivity.
Qed.

Lemma dw_app t s : nonspaces t = true -> head_space s = true -> dw (t ++ s) = s.
Proof.
  unfold nonspaces. induction t as [|c t IH]; intros Ht Hs.
  - destruct s as [|d s]; [reflexivity|]. cbn [app dw]. cbn [head_space] in Hs. rewrite Hs. reflexivity.
  - cbn [forallb] in Ht. apply andb_prop in Ht. destruct Ht as [Hc Ht]. apply negb_true_iff in Hc.
    cbn [app dw]. rewrite Hc. apply IH; assumption.
Qed.

Lemma tok_okb_inv t : tok_okb t = true -> exists c t', t = c :: t' /\ is_space c = false /\ nonspaces t' = true.
Proof.
  unfold tok_okb. intros H. apply andb_prop in H. destruct H as [Hn Hs].
  destruct t as [|c t']; [discriminate|]. cbn [forallb] in Hs. apply andb_prop in Hs. destruct Hs as [Hc Hs].
  apply negb_true_iff in Hc. exists c, t'. repeat split; assumption.
Qed.

Lemma split_ws_tok t s : tok_okb t = true -> head_space s = true -> split_ws (t ++ s) = t :: split_ws s.
Proof.
  intros Ht Hs. destruct (tok_okb_inv t Ht) as (c & t' & -> & Hc & Ht').
  cbn [app]. rewrite split_ws_nonspace by exact Hc. rewrite tw_app, dw_app by assumption. reflexivity.
Qed.

Lemma all_space_head w s : forallb is_space w = true -> w <> [] -> head_space (w ++ s) = true.
Proof.
  intros H Hn. destruct w as [|c w]; [congruence|]. cbn [forallb] in H. apply andb_prop in H. cbn. tauto.
Qed.

Lemma all_space_head' w : forallb is_space w = true -> head_space w = true.
Proof. intros H. destruct w as [|c w]; [reflexivity|]. cbn [forallb] in H. apply andb_prop in H. cbn. tauto. Qed.

Lemma split_ws_join sep ts w :
  forallb is_space sep = true -> sep <> [] -> forallb tok_okb ts = true -> forallb is_space w = true ->
  split_ws (join sep ts ++ w) = ts.
Proof.
  intros Hsep Hne Hts Hw. induction ts as [|t ts IH].
  - cbn [join app]. apply split_ws_all_space. exact Hw.
  - cbn [forallb] in Hts. apply andb_prop in Hts. destruct Hts as [Ht Hts].
    destruct ts as [|t2 ts'].
    + cbn [join]. rewrite split_ws_tok by (try exact Ht; apply all_space_head'; exact Hw).
      rewrite split_ws_all_space by exact Hw. reflexivity.
    + change (join sep (t :: t2 :: ts')) with (t ++ sep ++ join sep (t2 :: ts')).
      rewrite <- !app_assoc. rewrite split_ws_tok by (try exact Ht; apply all_space_head; assumption).
      rewrite split_ws_spaces by exact Hsep. rewrite IH by exact Hts. reflexivity.
Qed.

Lemma split_ws_join' sep ts w :
  forallb is_space sep = true -> (sep <> [] \/ (length ts <= 1)%nat) -> forallb tok_okb ts = true ->
  forallb is_space w = true -> split_ws (join sep ts ++ w) = ts.
Proof.
  intros Hsep [Hne|Hlen] Hts Hw; [apply split_ws_join; assumption|].
  destruct ts as [|t [|t2 ts']]; [| |cbn [length] in Hlen; lia].
  - cbn [join app]. apply split_ws_all_space. exact Hw.
  - cbn [forallb] in Hts. apply andb_prop in Hts. destruct Hts as [Ht _].
    cbn [join]. rewrite split_ws_tok by (try exact Ht; apply all_space_head'; exact Hw).
    rewrite split_ws_all_space by exact Hw. reflexivity.
Qed.

(* ------------------------------------------------------------------ strip() *)
Lemma rstrip_cons c s : rstrip (c :: s) = if is_space c && is_nil (rstrip s) then [] else c :: rstrip s.
Proof. reflexivity. Qed.

Lemma toks_rstrip s : toks (rstrip s) = toks s.
Proof.
  induction s as [|c s IH]; [reflexivity|].
  rewrite rstrip_cons. destruct (is_space c && is_nil (rstrip s)) eqn:E.
  - apply andb_prop in E. destruct E as [Ec En]. destruct (rstrip s) eqn:R; [|discriminate].
    rewrite toks_cons, <- IH, Ec. reflexivity.
  - rewrite !toks_cons, IH. reflexivity.
Qed.

Lemma split_ws_rstrip s : split_ws (rstrip s) = split_ws s.
Proof. unfold split_ws. rewrite toks_rstrip. reflexivity. Qed.

Lemma split_ws_lstrip s : split_ws (lstrip s) = split_ws s.
Proof.
  induction s as [|c s IH]; [reflexivity|]. cbn [lstrip]. destruct (is_space c) eqn:E; [|reflexivity].
  rewrite split_ws_space by exact E. exact IH.
Qed.

Lemma split_ws_strip s : split_ws (strip s) = split_ws s.
Proof. unfold strip. rewrite split_ws_rstrip. apply split_ws_lstrip. Qed.

Lemma lstrip_head s c r : lstrip s = c :: r -> is_space c = false.
Proof.
  induction s as [|d s IH]; [discriminate|]. cbn [lstrip]. destruct (is_space d) eqn:E; [exact IH|].
  intros H. injection H as -> _. exact E.
Qed.

Lemma rstrip_head s c r : rstrip s = c :: r -> exists r', s = c :: r'.
Proof.
  destruct s as [|d s]; [discriminate|]. rewrite rstrip_cons.
  destruct (is_space d && is_nil (rstrip s)); [discriminate|]. intros H. injection H as -> _. eexists. reflexivity.
Qed.

Lemma strip_head s c r : strip s = c :: r -> is_space c = false.
Proof.
  unfold strip. intros H. destruct (rstrip_head _ _ _ H) as [r' Hr]. exact (lstrip_head _ _ _ Hr).
Qed.

Lemma rstrip_idem s : rstrip (rstrip s) = rstrip s.
Proof.
  induction s as [|c s IH]; [reflexivity|].
  rewrite rstrip_cons. destruct (is_space c && is_nil (rstrip s)) eqn:E; [reflexivity|].
  rewrite rstrip_cons, IH, E. reflexivity.
Qed.

Lemma rstrip_all_space w : forallb is_space w = true -> rstrip w = [].
Proof.
  induction w as [|c w IH]; intros H; [reflexivity|].
  cbn [forallb] in H. apply andb_prop in H. destruct H as [Hc Hw].
  rewrite rstrip_cons, IH, Hc by exact Hw. reflexivity.
Qed.

Lemma rstrip_spaces y w : forallb is_space w = true -> rstrip (y ++ w) = rstrip y.
Proof.
  intros H. induction y as [|c y IH].
  - cbn [app]. rewrite rstrip_all_space by exact H. reflexivity.
  - cbn [app]. rewrite !rstrip_cons, IH. reflexivity.
Qed.

Lemma rstrip_length y : (length (rstrip y) <= length y)%nat.
Proof.
  induction y as [|c y IH]; [apply Nat.le_refl|].
  rewrite rstrip_cons. destruct (is_space c && is_nil (rstrip y)); cbn [length]; lia.
Qed.

Lemma tw_dw s : tw s ++ dw s = s.
Proof.
  induction s as [|c s IH]; [reflexivity|]. cbn [tw dw]. destruct (is_space c); [reflexivity|].
  cbn [app]. rewrite IH. reflexivity.
Qed.

Lemma tw_nonspaces s : nonspaces (tw s) = true.
Proof.
  unfold nonspaces. induction s as [|c s IH]; [reflexivity|]. cbn [tw]. destruct (is_space c) eqn:E; [reflexivity|].
  cbn [forallb]. rewrite E, IH. reflexivity.
Qed.

Lemma split_ws_nil_inv y : split_ws y = [] -> forallb is_space y = true.
Proof.
  induction y as [|c y IH]; intros H; [reflexivity|].
  destruct (is_space c) eqn:E.
  - rewrite split_ws_space in H by exact E. cbn [forallb]. rewrite E, IH by exact H. reflexivity.
  - rewrite split_ws_nonspace in H by exact E. discriminate.
Qed.

(* a stripped string with exactly one token is that token *)
Lemma strip_single s t : split_ws (strip s) = [t] -> strip s = t /\ nonspaces t = true.
Proof.
  intros H. destruct (strip s) as [|c x'] eqn:X; [discriminate|].
  pose proof (strip_head _ _ _ X) as Hc.
  rewrite split_ws_nonspace in H by exact Hc. injection H as Ht Hrest.
  pose proof (split_ws_nil_inv _ Hrest) as Hsp.
  assert (Hfix : rstrip (c :: x') = c :: x').
  { rewrite <- X. unfold strip. apply rstrip_idem. }
  assert (Hd : dw x' = []).
  { pose proof (tw_dw x') as Hsplit.
    assert (Hlen : (length (c :: x') <= length (c :: tw x'))%nat).
    { rewrite <- Hfix at 1. rewrite <- Hsplit at 1.
      change (c :: tw x' ++ dw x') with ((c :: tw x') ++ dw x').
      rewrite rstrip_spaces by exact Hsp. apply rstrip_length. }
    rewrite <- Hsplit in Hlen at 1. cbn [length] in Hlen. rewrite app_length in Hlen.
    destruct (dw x'); [reflexivity|cbn [length] in Hlen; lia]. }
  pose proof (tw_dw x') as Hsplit. rewrite Hd, app_nil_r in Hsplit.
  subst t. rewrite Hsplit. split; [reflexivity|].
  unfold nonspaces. cbn [forallb]. rewrite Hc. cbn [negb andb].
  rewrite <- Hsplit. apply tw_nonspaces.
Qed.

(* ------------------------------------------------------------------ split(' ') *)
Lemma split_on_aux_none sep s : forallb (fun c => negb (c =? sep)) s = true -> split_on_aux sep s = (s, []).
Proof.
  induction s as [|c s IH]; intros H; [reflexivity|].
  cbn [forallb] in H. apply andb_prop in H. destruct H as [Hc Hs]. apply negb_true_iff in Hc.
  cbn [split_on_aux]. rewrite IH by exact Hs. rewrite Hc. reflexivity.
Qed.

Lemma split_on_none sep s : forallb (fun c => negb (c =? sep)) s = true -> split_on sep s = [s].
Proof. intros H. unfold split_on. rewrite split_on_aux_none by exact H. reflexivity. Qed.

Lemma nonspaces_no_sep t : nonspaces t = true -> forallb (fun c => negb (c =? gen_resplit_char)) t = true.
Proof.
  unfold nonspaces. intros H. apply forallb_forall. intros c Hc.
  rewrite forallb_forall in H. specialize (H c Hc). apply negb_true_iff in H. apply negb_true_iff.
  apply Z.eqb_neq. intros ->. rewrite resplit_is_space in H. discriminate.
Qed.

(* the `' ' in line` fallback never changes the columns: parts = line.split() for every line *)
Theorem parts_of_eq line : parts_of line = split_ws line.
Proof.
  unfold parts_of. destruct (gen_is_single _ && _) eqn:E; [|apply split_ws_strip].
  apply andb_prop in E. destruct E as [E1 _]. rewrite gen_is_single_shape in E1. apply Z.eqb_eq in E1.
  destruct (split_ws (strip line)) as [|t [|t2 r]] eqn:P; cbn [length] in E1; try lia.
  destruct (strip_single _ _ P) as [Hs Hn].
  rewrite Hs. rewrite split_on_none by (apply nonspaces_no_sep; exact Hn).
  rewrite <- split_ws_strip, P. reflexivity.
Qed.

(* ------------------------------------------------------------------ for line in f *)
Definition no_nl (c : Z) : bool := negb (c =? 10) && negb (c =? 13).
Definition prepend (b : str) (ls : list str) : list str :=
  match ls with [] => if is_nil b then [] else [b] | l :: r => (b ++ l) :: r end.

Lemma split_lines_body b s : forallb no_nl b = true -> split_lines (b ++ s) = prepend b (split_lines s).
Proof.
  induction b as [|c b IH]; intros H.
  - cbn [app]. destruct (split_lines s); reflexivity.
  - cbn [forallb] in H. apply andb_prop in H. destruct H as [Hc Hb].
    unfold no_nl in Hc. apply andb_prop in Hc. destruct Hc as [H10 H13].
    apply negb_true_iff in H10. apply negb_true_iff in H13.
    cbn [app split_lines]. rewrite H10, H13, IH by exact Hb.
    destruct (split_lines s); destruct b; reflexivity.
Qed.

Lemma is_nl_inv e : is_nl e = true -> e = [10] \/ e = [13] \/ e = [13; 10].
Proof.
  unfold is_nl. intros H. apply orb_prop in H. destruct H as [H|H]; [apply orb_prop in H; destruct H as [H|H]|];
    apply str_eqb_eq in H; tauto.
Qed.

Lemma split_lines_eol e s :
  is_nl e = true -> (str_eqb e [13] && lf_head s) = false -> split_lines (e ++ s) = [10] :: split_lines s.
Proof.
  intros He Hs. destruct (is_nl_inv e He) as [->|[->| ->]].
  - reflexivity.
  - cbn in Hs. destruct s as [|d s]; [reflexivity|]. cbn [lf_head] in Hs.
    cbn [app split_lines]. change (13 =? 10) with false. change (13 =? 13) with true. cbv iota. rewrite Hs. reflexivity.
  - reflexivity.
Qed.

Lemma nonspace_no_nl c : is_space c = false -> no_nl c = true.
Proof.
  intros H. unfold no_nl. destruct space_facts as (_ & _ & S10 & S13).
  destruct (c =? 10) eqn:E1; [apply Z.eqb_eq in E1; subst c; congruence|].
  destruct (c =? 13) eqn:E2; [apply Z.eqb_eq in E2; subst c; congruence|]. reflexivity.
Qed.

Lemma blank_no_nl c : blank c = true -> no_nl c = true.
Proof. unfold blank, no_nl. intros H. apply andb_prop in H. destruct H as [H H13]. apply andb_prop in H. destruct H as [_ H10]. rewrite H10, H13. reflexivity. Qed.

Lemma blank_space c : blank c = true -> is_space c = true.
Proof. unfold blank. intros H. apply andb_prop in H. destruct H as [H _]. apply andb_prop in H. tauto. Qed.

Lemma forallb_impl {A} (f g : A -> bool) l : (forall a, f a = true -> g a = true) -> forallb f l = true -> forallb g l = true.
Proof. intros Hfg H. apply forallb_forall. intros a Ha. rewrite forallb_forall in H. auto. Qed.

Lemma tok_no_nl t : tok_okb t = true -> forallb no_nl t = true.
Proof.
  unfold tok_okb. intros H. apply andb_prop in H. destruct H as [_ H].
  eapply forallb_impl; [|exact H]. intros c Hc. apply nonspace_no_nl. apply negb_true_iff. exact Hc.
Qed.

Lemma join_no_nl sep ts : forallb no_nl sep = true -> forallb tok_okb ts = true -> forallb no_nl (join sep ts) = true.
Proof.
  intros Hsep. induction ts as [|t ts IH]; intros H; [reflexivity|].
  cbn [forallb] in H. apply andb_prop in H. destruct H as [Ht Hts].
  destruct ts as [|t2 ts']; [cbn [join]; apply tok_no_nl; exact Ht|].
  change (join sep (t :: t2 :: ts')) with (t ++ sep ++ join sep (t2 :: ts')).
  rewrite !forallb_app, tok_no_nl, Hsep, IH by assumption. reflexivity.
Qed.

Record row_ok (r : row) : Prop := {
  ok_lead : forallb blank (r_lead r) = true;
  ok_sep : forallb blank (r_sep r) = true;
  ok_sep_ne : r_sep r <> [] \/ (length (r_toks r) <= 1)%nat;
  ok_trail : forallb blank (r_trail r) = true;
  ok_toks : forallb tok_okb (r_toks r) = true }.

Lemma row_okb_inv r : row_okb r = true -> row_ok r.
Proof.
  unfold row_okb. intros H. repeat (apply andb_prop in H; destruct H as [H ?]).
  constructor; try assumption.
  match goal with H : (_ || _) = true |- _ => apply orb_prop in H; destruct H as [H|H] end.
  - left. destruct (r_sep r); [discriminate|discriminate].
  - right. apply Nat.leb_le. assumption.
Qed.

Lemma body_no_nl r : row_ok r -> forallb no_nl (body r) = true.
Proof.
  intros [H1 H2 _ H3 H4]. unfold body. rewrite !forallb_app.
  rewrite (forallb_impl _ _ _ blank_no_nl H1), (forallb_impl _ _ _ blank_no_nl H3).
  rewrite join_no_nl; [reflexivity| |exact H4]. exact (forallb_impl _ _ _ blank_no_nl H2).
Qed.

Lemma body_parts r w : row_ok r -> forallb is_space w = true -> parts_of (body r ++ w) = r_toks r.
Proof.
  intros [H1 H2 Hne H3 H4] Hw. rewrite parts_of_eq. unfold body. rewrite <- !app_assoc.
  rewrite split_ws_spaces by exact (forallb_impl _ _ _ blank_space H1).
  apply split_ws_join'; try assumption.
  - exact (forallb_impl _ _ _ blank_space H2).
  - rewrite forallb_app, (forallb_impl _ _ _ blank_space H3), Hw. reflexivity.
Qed.

Lemma body_nonempty r : row_ok r -> r_toks r <> [] -> body r <> [].
Proof.
  intros [_ _ _ _ H4] Hne. unfold body. destruct (r_toks r) as [|t ts]; [congruence|].
  cbn [forallb] in H4. apply andb_prop in H4. destruct H4 as [Ht _].
  destruct (tok_okb_inv t Ht) as (c & t' & -> & _).
  intros H. apply app_eq_nil in H. destruct H as [_ H]. apply app_eq_nil in H. destruct H as [H _].
  destruct ts; cbn [join] in H; discriminate.
Qed.

(* printing any rows of tokens with admissible white space and line ends, then iterating over the lines and
   tokenising each as parse_barcode_file does, gives back exactly the tokens of each row *)
Theorem tokenise_printed rows : rows_okb rows = true -> file_parts (print_rows rows) = map r_toks rows.
Proof.
  unfold file_parts. induction rows as [|r rest IH]; intros H; [reflexivity|].
  cbn [rows_okb] in H. apply andb_prop in H. destruct H as [H Hrest].
  apply andb_prop in H. destruct H as [Hr He]. apply row_okb_inv in Hr.
  cbn [print_rows map]. unfold print_row. rewrite <- app_assoc.
  rewrite split_lines_body by (apply body_no_nl; exact Hr).
  apply orb_prop in He. destruct He as [He|He].
  - apply andb_prop in He. destruct He as [Hnl Hcr]. apply negb_true_iff in Hcr.
    rewrite split_lines_eol by assumption. cbn [prepend map].
    rewrite body_parts by (try exact Hr; reflexivity || (destruct space_facts as (_ & _ & S10 & _); cbn [forallb]; rewrite S10; reflexivity)).
    rewrite IH by exact Hrest. reflexivity.
  - apply andb_prop in He. destruct He as [He Htk]. apply andb_prop in He. destruct He as [He Hlast].
    destruct (r_eol r); [|discriminate]. destruct rest; [|discriminate].
    cbn [print_rows app split_lines prepend].
    assert (Hb : body r <> []) by (apply body_nonempty; [exact Hr|destruct (r_toks r); [discriminate|discriminate]]).
    destruct (body r) as [|c b] eqn:B; [congruence|]. cbn [is_nil map].
    rewrite <- B, <- (app_nil_r (body r)), body_parts by (try exact Hr; reflexivity). reflexivity.
Qed.
