(* C06 proofs, part 6: the molecule attributes of the model (folds over the fragment list) obey the running
   updates of Molecule._add_fragment / CHICMolecule._add_fragment: appending a fragment = one update step. *)
From Coq Require Import ZArith List Bool Lia.
Import ListNotations.
From SCMO Require Import Lib.Val Model.C06 Proofs.C06.
Open Scope Z_scope.

Lemma counter_snoc us u : counter (us ++ [u]) = counter_add u (counter us).          (* umi_counter[umi] += 1 *)
Proof. unfold counter. now rewrite fold_left_app. Qed.

Lemma site_of_snoc fs f : fs <> [] -> site_of (fs ++ [f]) = site_step (site_of fs) f.   (* max reverse / min otherwise *)
Proof. destruct fs as [|g fs]; [congruence|]. intros _. cbn [app site_of]. now rewrite fold_left_app. Qed.

Lemma start_of_snoc fs f : fs <> [] -> start_of (fs ++ [f]) = Z.min (f_site f) (start_of fs).
Proof. destruct fs as [|g fs]; [congruence|]. intros _. cbn [app start_of]. now rewrite fold_left_app. Qed.

Lemma end_of_snoc fs f : fs <> [] -> end_of (fs ++ [f]) = Z.max (f_end f) (end_of fs).
Proof. destruct fs as [|g fs]; [congruence|]. intros _. cbn [app end_of]. now rewrite fold_left_app. Qed.

Lemma strand_of_snoc fs f : strand_of (fs ++ [f]) = if f_strand f =? 2 then strand_of fs else f_strand f.
Proof. unfold strand_of. now rewrite fold_left_app. Qed.

Lemma cell_of_snoc fs f : fs <> [] -> cell_of (fs ++ [f]) = cell_of fs.                (* sample of the first fragment *)
Proof. destruct fs; [congruence|reflexivity]. Qed.

Lemma chrom_of_snoc fs f : chrom_of (fs ++ [f]) = f_contig f.                          (* chromosome = add_span[0] *)
Proof. unfold chrom_of. now rewrite lastf_snoc. Qed.

Lemma hash_of_snoc c fs f : hash_of c (fs ++ [f]) = key c f.                           (* match_hash = fragment.match_hash *)
Proof. unfold hash_of. now rewrite lastf_snoc. Qed.

(* Counter.most_common(1) returns an entry whose count is maximal (that it is the FIRST maximal entry in insertion
   order is by definition of [best], strict comparison; ties are exercised by K: umi_tie_events) *)
Lemma best_spec c : forall cur, let b := best c cur in
  (b = cur \/ In b c) /\ snd cur <= snd b /\ (forall x, In x c -> snd x <= snd b).
Proof.
  induction c as [|[k n] c IH]; intros cur; cbn [best].
  - cbn. split; [now left|]. split; [lia|intros x []].
  - destruct (snd cur <? n) eqn:E.
    + destruct (IH (k, n)) as (H1 & H2 & H3). cbn [snd] in H2. apply Z.ltb_lt in E. repeat split.
      * right. destruct H1 as [->|H1]; [now left|now right].
      * lia.
      * intros x [<-|Hx]; [assumption|auto].
    + destruct (IH cur) as (H1 & H2 & H3). apply Z.ltb_ge in E. repeat split.
      * destruct H1 as [->|H1]; [now left|right; now right].
      * assumption.
      * intros x [<-|Hx]; [cbn [snd]; lia|auto].
Qed.

Lemma most_common_max c x : In x c -> exists b, In b c /\ most_common c = fst b /\ snd x <= snd b.
Proof.
  destruct c as [|y c]; [intros []|]. intros Hx. cbn [most_common].
  destruct (best_spec c y) as (H1 & H2 & H3). exists (best c y). split; [|split; [reflexivity|]].
  - destruct H1 as [->|H1]; [now left|now right].
  - destruct Hx as [<-|Hx]; [assumption|auto].
Qed.

Lemma running_state : forall c fs f, fs <> [] ->
  counter (map f_umi (fs ++ [f])) = counter_add (f_umi f) (counter (map f_umi fs)) /\
  site_of (fs ++ [f]) = site_step (site_of fs) f /\
  start_of (fs ++ [f]) = Z.min (f_site f) (start_of fs) /\ end_of (fs ++ [f]) = Z.max (f_end f) (end_of fs) /\
  strand_of (fs ++ [f]) = (if f_strand f =? 2 then strand_of fs else f_strand f) /\
  cell_of (fs ++ [f]) = cell_of fs /\ chrom_of (fs ++ [f]) = f_contig f /\ hash_of c (fs ++ [f]) = key c f.
Proof.
  intros c fs f H. rewrite map_app. cbn [map].
  exact (conj (counter_snoc _ _) (conj (site_of_snoc _ _ H) (conj (start_of_snoc _ _ H) (conj (end_of_snoc _ _ H)
        (conj (strand_of_snoc _ _) (conj (cell_of_snoc _ _ H) (conj (chrom_of_snoc _ _) (hash_of_snoc _ _ _)))))))).
Qed.

(* the concrete library of the non-vacuity example in Props/C06.v *)
Definition ex_frag (id strand : Z) (umi : list Z) (dup : bool) : frag :=
  {| f_id := id; f_cell := 0; f_strand := strand; f_contig := 0; f_site := 1000; f_end := 0; f_umi := umi;
     f_valid := true; f_dup := dup |}.
Definition ex_cfg : cfg := {| c_cls := 1; c_d := 1; c_r := 0; c_cap := None; c_yinv := true; c_yover := true; c_fixed := true |}.
