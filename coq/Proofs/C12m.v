(* C12 extension, part (b): count_methylation_binned on the generate_commands tiling - every call of a passing record is
   counted by exactly one job, MethylationCountMatrix.update (which overwrites) never overwrites, the merged matrix is the
   declarative one for every bins_per_job and completion order. *)
From Coq Require Import ZArith List Bool Lia ZifyBool Permutation.
Import ListNotations.
From SCMO Require Import Lib.Val Lib.PyInt Lib.PyIntFacts Gen.GenBinCount Model.C12 Model.C12x
  Proofs.C12_dict Proofs.C12 Proofs.C12x.
Open Scope Z_scope.
Ltac Zify.zify_post_hook ::= Z.to_euclidean_division_equations.

(* ---- keys *)
Lemma mkey_eqb_eq a b : mkey_eqb a b = true <-> a = b.
Proof.
  destruct a as [s q], b as [s' q']. unfold mkey_eqb. cbn [fst snd]. rewrite andb_true_iff, Z.eqb_eq, binid_eqb_eq.
  split; [intros [-> ->]; reflexivity|intros H; inversion H; auto].
Qed.
Lemma mkey_eqb_refl a : mkey_eqb a a = true.
Proof. apply mkey_eqb_eq. reflexivity. Qed.
Lemma mkey_eqb_neq a b : a <> b -> mkey_eqb a b = false.
Proof. intros H. destruct (mkey_eqb a b) eqn:E; [|reflexivity]. apply mkey_eqb_eq in E. contradiction. Qed.
Lemma mkey_eqb_sym a b : mkey_eqb a b = mkey_eqb b a.
Proof.
  destruct (mkey_eqb b a) eqn:E.
  - apply mkey_eqb_eq in E. subst. apply mkey_eqb_refl.
  - apply mkey_eqb_neq. intros ->. rewrite mkey_eqb_refl in E. discriminate.
Qed.
Definition mkey_dec (a b : mkey) : {a = b} + {a <> b}.
Proof. repeat decide equality. Defined.

Definition fkeys (m : fmap) : list mkey := map fst m.
(* one component of the stored pair: meth = true -> n_methylated (index True), false -> n_unmethylated *)
Definition fcnt (m : fmap) (k : mkey) (meth : bool) : Z := if meth then snd (fval m k) else fst (fval m k).

Lemma fget_cons k0 v t k : fget k ((k0, v) :: t) = if mkey_eqb k k0 then Some v else fget k t.
Proof. reflexivity. Qed.

Lemma fget_notin m k : ~ In k (fkeys m) -> fget k m = None.
Proof.
  induction m as [|[k0 v] t IH]; intros H; [reflexivity|]. rewrite fget_cons. cbn [fkeys map fst In] in H.
  rewrite mkey_eqb_neq by (intros ->; apply H; left; reflexivity). apply IH. intros Hin. apply H. right. exact Hin.
Qed.

Lemma fget_in m k : In k (fkeys m) -> exists v, fget k m = Some v.
Proof.
  induction m as [|[k0 v] t IH]; intros H; [destruct H|]. rewrite fget_cons. destruct (mkey_eqb k k0) eqn:E; [eauto|].
  apply IH. destruct H as [H|H]; [|exact H]. cbn [fst] in H. subst. rewrite mkey_eqb_refl in E. discriminate.
Qed.

Lemma fcnt_notin m k meth : ~ In k (fkeys m) -> fcnt m k meth = 0.
Proof. intros H. unfold fcnt, fval. rewrite (fget_notin m k H). destruct meth; reflexivity. Qed.

(* ---- += 1 *)
Lemma fget_bump k b m k' :
  fget k' (bump k b m) = if mkey_eqb k' k then Some (bump_val b (fval m k')) else fget k' m.
Proof.
  unfold fval. induction m as [|[k0 v] t IH]; cbn [bump].
  - rewrite fget_cons. cbn [fget]. reflexivity.
  - destruct (mkey_eqb k k0) eqn:E; rewrite !fget_cons.
    + apply mkey_eqb_eq in E. subst k0. destruct (mkey_eqb k' k); reflexivity.
    + rewrite IH. destruct (mkey_eqb k' k0) eqn:E2; [|reflexivity].
      apply mkey_eqb_eq in E2. subst k0. rewrite mkey_eqb_sym, E. reflexivity.
Qed.

Lemma fcnt_bump k b m k' meth :
  fcnt (bump k b m) k' meth = fcnt m k' meth + (if mkey_eqb k' k && Bool.eqb b meth then 1 else 0).
Proof.
  unfold fcnt. unfold fval at 1 2. rewrite fget_bump. destruct (mkey_eqb k' k); cbn [andb].
  - unfold bump_val. destruct b, meth; cbn [fst snd Bool.eqb]; lia.
  - fold (fval m k'). destruct meth; lia.
Qed.

Lemma fkeys_bump k b m k' : In k' (fkeys (bump k b m)) <-> k' = k \/ In k' (fkeys m).
Proof.
  induction m as [|[k0 v] t IH]; cbn [bump].
  - cbn. intuition congruence.
  - destruct (mkey_eqb k k0) eqn:E.
    + apply mkey_eqb_eq in E. subst k0. cbn [fkeys map fst In]. fold (fkeys t). intuition congruence.
    + cbn [fkeys map fst In]. fold (fkeys t). fold (fkeys (bump k b t)). rewrite IH. intuition.
Qed.

Lemma fkeys_bump_NoDup k b m : NoDup (fkeys m) -> NoDup (fkeys (bump k b m)).
Proof.
  induction m as [|[k0 v] t IH]; cbn [bump]; intros H.
  - cbn. constructor; [intros []|constructor].
  - cbn [fkeys map fst] in H. fold (fkeys t) in H. inversion H as [|? ? Hn Hd]; subst.
    destruct (mkey_eqb k k0) eqn:E.
    + cbn [fkeys map fst]. fold (fkeys t). constructor; assumption.
    + cbn [fkeys map fst]. fold (fkeys (bump k b t)). constructor; [|apply IH; exact Hd].
      rewrite fkeys_bump. intros [->|Hin]; [|contradiction]. rewrite mkey_eqb_refl in E. discriminate.
Qed.

(* ---- MethylationCountMatrix.update *)
Lemma fget_fset k v m k' : fget k' (fset k v m) = if mkey_eqb k' k then Some v else fget k' m.
Proof.
  induction m as [|[k0 v0] t IH]; cbn [fset].
  - rewrite fget_cons. reflexivity.
  - destruct (mkey_eqb k k0) eqn:E; rewrite !fget_cons.
    + apply mkey_eqb_eq in E. subst k0. destruct (mkey_eqb k' k); reflexivity.
    + rewrite IH. destruct (mkey_eqb k' k0) eqn:E2; [|reflexivity].
      apply mkey_eqb_eq in E2. subst k0. rewrite mkey_eqb_sym, E. reflexivity.
Qed.

Lemma fget_fupdate : forall other self k, NoDup (fkeys other) ->
  fget k (fupdate self other) = match fget k other with Some v => Some v | None => fget k self end.
Proof.
  induction other as [|[k0 v0] t IH]; intros self k Hnd; [reflexivity|].
  unfold fupdate. cbn [fold_left fst snd]. fold (fupdate (fset k0 v0 self) t).
  cbn [fkeys map fst] in Hnd. fold (fkeys t) in Hnd. inversion Hnd as [|? ? Hn Hd]; subst.
  rewrite IH by exact Hd. rewrite fget_cons, fget_fset. destruct (mkey_eqb k k0) eqn:E.
  - apply mkey_eqb_eq in E. subst k0. rewrite (fget_notin t k Hn). reflexivity.
  - destruct (fget k t); reflexivity.
Qed.

(* job results in which a key is produced by at most one job: merging by update in any order without repetition gives,
   for that key, the sum of the per-job values *)
Section MergeOwnedF.
  Variable J : Type.
  Variable res : J -> fmap.
  Variable k : mkey.

  Lemma fold_fupdate_skip : forall p acc, (forall j, In j p -> NoDup (fkeys (res j))) ->
    (forall j, In j p -> ~ In k (fkeys (res j))) ->
    fget k (fold_left fupdate (map res p) acc) = fget k acc.
  Proof.
    induction p as [|j p IH]; intros acc Hnd Hno; [reflexivity|]. cbn [map fold_left].
    rewrite IH; [|intros x Hx; apply Hnd; right; exact Hx|intros x Hx; apply Hno; right; exact Hx].
    rewrite fget_fupdate by (apply Hnd; left; reflexivity).
    rewrite (fget_notin (res j) k) by (apply Hno; left; reflexivity). reflexivity.
  Qed.

  Lemma fold_fupdate_owned meth : forall p acc, NoDup p -> (forall j, In j p -> NoDup (fkeys (res j))) ->
    (forall j j', In j p -> In j' p -> In k (fkeys (res j)) -> In k (fkeys (res j')) -> j = j') ->
    fget k acc = None ->
    fcnt (fold_left fupdate (map res p) acc) k meth = zsum (fun j => fcnt (res j) k meth) p.
  Proof.
    induction p as [|j p IH]; intros acc Hp Hnd Hu Hacc.
    - cbn [map fold_left zsum fold_right]. unfold fcnt, fval. rewrite Hacc. destruct meth; reflexivity.
    - cbn [map fold_left]. rewrite zsum_cons. inversion Hp as [|? ? Hnj Hp']; subst.
      assert (Hnd' : forall x, In x p -> NoDup (fkeys (res x))) by (intros x Hx; apply Hnd; right; exact Hx).
      destruct (in_dec mkey_dec k (fkeys (res j))) as [Hin|Hnin].
      + assert (Hno : forall x, In x p -> ~ In k (fkeys (res x))).
        { intros x Hx Hk. assert (j = x) by (apply Hu; [left; reflexivity|right; exact Hx|exact Hin|exact Hk]). subst. contradiction. }
        rewrite zsum_zero by (intros x Hx; apply fcnt_notin; apply Hno; exact Hx).
        unfold fcnt at 1. unfold fval. rewrite (fold_fupdate_skip p _ Hnd' Hno).
        rewrite fget_fupdate by (apply Hnd; left; reflexivity).
        destruct (fget_in _ _ Hin) as (v & Hv). unfold fcnt, fval. rewrite Hv. destruct meth; lia.
      + rewrite (fcnt_notin _ _ _ Hnin), Z.add_0_l. apply IH; [exact Hp'|exact Hnd'| |].
        * intros x y Hx Hy. apply Hu; right; assumption.
        * rewrite fget_fupdate by (apply Hnd; left; reflexivity). rewrite (fget_notin _ _ Hnin). exact Hacc.
  Qed.
End MergeOwnedF.

(* ---- one job *)
Definition mitem := (mread * (Z * Z))%type.
Definition isite (it : mitem) : Z := fst (snd it).

Definition msel (c : mcfg) (cn : mcontig) (jb : Z * Z) (it : mitem) : bool :=
  m_fetched (g_m_f_start (fst jb) (c_mfs (mc c))) (g_m_f_end (snd jb) (c_mfs (mc c)) (mclen cn)) (fst it)
  && negb (g_m_not_owned (isite it) (fst jb) (snd jb)).

Definition mQ (c : mcfg) (cn : mcontig) (k : mkey) (meth : bool) (it : mitem) : bool :=
  mkey_eqb k (m_sample (fst it), m_loc c cn (fst it) (isite it)) && Bool.eqb (snd (snd it) =? 1) meth.

Definition mind (c : mcfg) (cn : mcontig) (st en : Z) (k : mkey) (meth : bool) (r : mread) (cl : Z * Z) : bool :=
  negb (g_m_not_owned (fst cl) st en) && (is_call (snd cl) && mQ c cn k meth (r, cl)).

Lemma fcnt_count_call c cn st en r acc cl k meth :
  fcnt (m_count_call c cn st en r acc cl) k meth = fcnt acc k meth + (if mind c cn st en k meth r cl then 1 else 0).
Proof.
  unfold m_count_call, mind, mQ, isite. cbn [fst snd]. destruct (g_m_not_owned (fst cl) st en); cbn [negb andb]; [lia|].
  destruct (is_call (snd cl)); cbn [andb]; [|lia]. apply fcnt_bump.
Qed.

Lemma fcnt_fold_calls c cn st en r k meth : forall l acc,
  fcnt (fold_left (m_count_call c cn st en r) l acc) k meth = fcnt acc k meth + zcount (mind c cn st en k meth r) l.
Proof.
  induction l as [|cl l IH]; intros acc; cbn [fold_left].
  - cbn. lia.
  - rewrite IH, fcnt_count_call, zcount_cons. lia.
Qed.

Lemma fcnt_fold_reads c cn st en k meth : forall l acc,
  fcnt (fold_left (m_count_read c cn st en) l acc) k meth
  = fcnt acc k meth + zsum (fun r => if m_passes c r then zcount (mind c cn st en k meth r) (m_calls r) else 0) l.
Proof.
  induction l as [|r l IH]; intros acc; cbn [fold_left].
  - cbn. lia.
  - rewrite IH, zsum_cons. unfold m_count_read. destruct (m_passes c r); cbn [negb]; [rewrite fcnt_fold_calls|]; lia.
Qed.

Lemma zsum_filter {A} (f : A -> Z) (g : A -> bool) l : zsum f (filter g l) = zsum (fun x => if g x then f x else 0) l.
Proof.
  induction l as [|x l IH]; [reflexivity|]. cbn [filter]. rewrite zsum_cons. destruct (g x); [rewrite zsum_cons|]; rewrite IH; lia.
Qed.

Lemma zcount_false {A} (l : list A) : zcount (fun _ => false) l = 0.
Proof. induction l as [|x l IH]; [reflexivity|]. rewrite zcount_cons, IH. reflexivity. Qed.

(* any predicate over the calls of the passing records *)
Lemma zcount_items c cn (P : mitem -> bool) :
  zcount P (m_items c cn)
  = zsum (fun r => if m_passes c r then zcount (fun cl => is_call (snd cl) && P (r, cl)) (m_calls r) else 0) (mreads cn).
Proof.
  unfold m_items. rewrite zcount_flat_map, zsum_filter. apply zsum_ext_in. intros r _.
  destruct (m_passes c r); [|reflexivity]. rewrite zcount_map, zcount_filter. reflexivity.
Qed.

Lemma fcnt_count_job c cn jb k meth :
  fcnt (m_count_job c (cn, jb)) k meth = zcount (fun it => msel c cn jb it && mQ c cn k meth it) (m_items c cn).
Proof.
  destruct jb as [st en]. unfold m_count_job. rewrite fcnt_fold_reads, zsum_filter, zcount_items.
  replace (fcnt [] k meth) with 0 by (destruct meth; reflexivity). rewrite Z.add_0_l.
  apply zsum_ext_in. intros r _. unfold msel. cbn [fst snd].
  destruct (m_passes c r); [|destruct (m_fetched _ _ r); reflexivity].
  destruct (m_fetched _ _ r); cbn [andb].
  - apply zcount_ext_in. intros cl _. unfold mind, isite. cbn [fst snd].
    destruct (g_m_not_owned (fst cl) st en), (is_call (snd cl)); reflexivity.
  - rewrite (zcount_ext_in _ (fun _ => false)) by (intros cl _; apply andb_false_r). symmetry. apply zcount_false.
Qed.

(* keys of a job result come from owned calls *)
Lemma fkeys_count_call c cn st en r acc cl k :
  In k (fkeys (m_count_call c cn st en r acc cl)) ->
  In k (fkeys acc) \/ (g_m_not_owned (fst cl) st en = false /\ k = (m_sample r, m_loc c cn r (fst cl))).
Proof.
  unfold m_count_call. destruct (g_m_not_owned (fst cl) st en); [auto|]. destruct (is_call (snd cl)); [|auto].
  rewrite fkeys_bump. intuition.
Qed.

Lemma fkeys_fold_calls c cn st en r k : forall l acc,
  In k (fkeys (fold_left (m_count_call c cn st en r) l acc)) ->
  In k (fkeys acc) \/ exists cl, In cl l /\ g_m_not_owned (fst cl) st en = false /\ k = (m_sample r, m_loc c cn r (fst cl)).
Proof.
  induction l as [|cl l IH]; intros acc H; cbn [fold_left] in H; [auto|].
  destruct (IH _ H) as [H1|(cl' & H1 & H2)].
  - apply fkeys_count_call in H1. destruct H1 as [H1|H1]; [auto|]. right. exists cl. split; [left; reflexivity|exact H1].
  - right. exists cl'. split; [right; exact H1|exact H2].
Qed.

Lemma fkeys_fold_reads c cn st en k : forall l acc,
  In k (fkeys (fold_left (m_count_read c cn st en) l acc)) ->
  In k (fkeys acc) \/ exists r cl, In r l /\ m_passes c r = true /\ In cl (m_calls r)
                                   /\ g_m_not_owned (fst cl) st en = false /\ k = (m_sample r, m_loc c cn r (fst cl)).
Proof.
  induction l as [|r l IH]; intros acc H; cbn [fold_left] in H; [auto|].
  destruct (IH _ H) as [H1|(r' & cl & H1 & H2)].
  - unfold m_count_read in H1. destruct (m_passes c r) eqn:Hp; cbn [negb] in H1; [|auto].
    apply fkeys_fold_calls in H1. destruct H1 as [H1|(cl & H1 & H2)]; [auto|].
    right. exists r, cl. split; [left; reflexivity|]. split; [exact Hp|]. split; [exact H1|exact H2].
  - right. exists r', cl. split; [right; exact H1|exact H2].
Qed.

Lemma fkeys_NoDup_fold_calls c cn st en r : forall l acc,
  NoDup (fkeys acc) -> NoDup (fkeys (fold_left (m_count_call c cn st en r) l acc)).
Proof.
  induction l as [|cl l IH]; intros acc H; cbn [fold_left]; [exact H|]. apply IH. unfold m_count_call.
  destruct (g_m_not_owned _ _ _); [exact H|]. destruct (is_call _); [|exact H]. apply fkeys_bump_NoDup. exact H.
Qed.

Lemma m_count_job_NoDup c j : NoDup (fkeys (m_count_job c j)).
Proof.
  destruct j as [cn [st en]]. unfold m_count_job. generalize (filter (m_fetched (g_m_f_start st (c_mfs (mc c)))
    (g_m_f_end en (c_mfs (mc c)) (mclen cn))) (mreads cn)) as l.
  assert (H : NoDup (fkeys [])) by constructor. revert H. generalize (@nil (mkey * (Z * Z))) as acc.
  intros acc H l. revert acc H. induction l as [|r l IH]; intros acc H; cbn [fold_left]; [exact H|].
  apply IH. unfold m_count_read. destruct (m_passes c r); cbn [negb]; [|exact H]. apply fkeys_NoDup_fold_calls. exact H.
Qed.

(* ---- hypotheses *)
Definition m_regular_genome (c : mcfg) (g : list mcontig) : Prop :=
  forall cn, In cn g -> forall r, In r (mreads cn) -> m_regular c (mclen cn) r = true.

Lemma m_regular_passes c len r : m_regular c len r = true -> m_passes c r = true ->
  0 <= m_lo r < m_hi r /\ m_hi r <= len /\ forall cl, In cl (m_calls r) -> m_lo r <= fst cl < m_hi r.
Proof.
  unfold m_regular. intros H Hp. rewrite Hp in H. cbn [negb orb] in H. rewrite !andb_true_iff in H.
  destruct H as [[[H1 H2] H3] H4]. split; [lia|split; [lia|]]. intros cl Hcl. rewrite forallb_forall in H4.
  specialize (H4 cl Hcl). lia.
Qed.

Lemma in_m_items c cn it : In it (m_items c cn) ->
  In (fst it) (mreads cn) /\ m_passes c (fst it) = true /\ In (snd it) (m_calls (fst it)) /\ is_call (snd (snd it)) = true.
Proof.
  unfold m_items. rewrite in_flat_map. intros (r & Hr & Hin). apply filter_In in Hr. destruct Hr as [Hr Hp].
  apply in_map_iff in Hin. destruct Hin as (cl & <- & Hcl). apply filter_In in Hcl. cbn [fst snd]. tauto.
Qed.

(* the record of a call, seen as a record of the fragment counter whose site is the call position: the fetch window and
   the ownership test of count_methylation_binned are those of count_fragments_binned *)
Definition pseudo (c : mcfg) (it : mitem) : rec :=
  {| r_lo := m_lo (fst it); r_hi := m_hi (fst it); r_ds := Some (isite it); r_r1 := true; r_qcfail := false;
     r_dup := false; r_mp := 0; r_mq := c_mq (mc c); r_sample := 0; r_key := 0 |}.
Definition pcontig (cn : mcontig) : contig := {| cid := mcid cn; clen := mclen cn; creads := [] |}.

Lemma msel_sel c cn jb it : msel c cn jb it = sel (mc c) (pcontig cn) jb (pseudo c it).
Proof.
  unfold msel, sel, m_fetched, fetched, g_m_f_start, g_f_start, g_m_f_end, g_f_end, g_m_not_owned, g_not_owned,
    pseudo, pcontig, site, isite. cbn [fst snd r_lo r_hi r_ds clen]. lia.
Qed.

Lemma pseudo_passes c it : passes (mc c) (pseudo c it) = true.
Proof.
  apply passes_spec. unfold pseudo. cbn [r_r1 r_qcfail r_dup r_mp r_mq].
  split; [reflexivity|split; [reflexivity|split; [intros _; reflexivity|split; [right; left; reflexivity|intros _; lia]]]].
Qed.

Lemma pseudo_regular c cn it : valid_cfg (mc c) = true -> m_regular c (mclen cn) (fst it) = true ->
  m_passes c (fst it) = true -> In (snd it) (m_calls (fst it)) ->
  regular (mc c) (clen (pcontig cn)) (pseudo c it) = true /\ 0 <= isite it < mclen cn.
Proof.
  intros Hv Hr Hp Hin. apply valid_cfg_iff in Hv. destruct Hv as (_ & _ & Hm).
  destruct (m_regular_passes _ _ _ Hr Hp) as (H1 & H2 & H3). specialize (H3 _ Hin).
  split; [|unfold isite; lia]. unfold regular. rewrite pseudo_passes. cbn [negb orb].
  unfold near, wf_rec, site, pseudo, pcontig, isite. cbn [r_lo r_hi r_ds clen]. lia.
Qed.

(* exactly one owner: every call of a passing record is selected (its record fetched, its position owned) by exactly
   one job of the contig *)
Lemma msel_once c cn it : valid_cfg (mc c) = true -> m_regular c (mclen cn) (fst it) = true ->
  m_passes c (fst it) = true -> In (snd it) (m_calls (fst it)) ->
  zsum (fun jb => if msel c cn jb it then 1 else 0) (jobs_contig (mc c) (mclen cn)) = 1.
Proof.
  intros Hv Hr Hp Hin. destruct (pseudo_regular c cn it Hv Hr Hp Hin) as [Hreg _].
  destruct (once (mc c) (pcontig cn) (pseudo c it) Hv (pseudo_passes c it) Hreg) as [H _].
  rewrite (zsum_ext_in _ (fun jb => if sel (mc c) (pcontig cn) jb (pseudo c it) then 1 else 0))
    by (intros jb _; rewrite msel_sel; reflexivity).
  exact H.
Qed.

Lemma m_sum_jobs c cn k meth : valid_cfg (mc c) = true ->
  (forall r, In r (mreads cn) -> m_regular c (mclen cn) r = true) ->
  zsum (fun jb => fcnt (m_count_job c (cn, jb)) k meth) (jobs_contig (mc c) (mclen cn))
  = zcount (mQ c cn k meth) (m_items c cn).
Proof.
  intros Hv Hreg.
  rewrite (zsum_ext_in _ (fun jb => zsum (fun it => if msel c cn jb it && mQ c cn k meth it then 1 else 0) (m_items c cn)))
    by (intros jb _; rewrite fcnt_count_job; apply zcount_as_zsum).
  rewrite zsum_swap, zcount_as_zsum. apply zsum_ext_in. intros it Hit.
  destruct (in_m_items c cn it Hit) as (H1 & H2 & H3 & _).
  destruct (mQ c cn k meth it).
  - rewrite (zsum_ext_in _ (fun jb => if msel c cn jb it then 1 else 0)) by (intros jb _; rewrite andb_true_r; reflexivity).
    apply (msel_once c cn it Hv (Hreg _ H1) H2 H3).
  - apply zsum_zero. intros jb _. rewrite andb_false_r. reflexivity.
Qed.

(* the bin of a call as coded = the bin containing the call position (no dyad shift) *)
Lemma m_loc_decl c cn r s : valid_cfg (mc c) = true -> m_dyad c = false -> 0 <= s -> m_loc c cn r s = m_decl_loc c cn r s.
Proof.
  intros Hv Hd Hs. apply valid_cfg_iff in Hv. destruct Hv as (Hb & _).
  unfold m_loc, m_decl_loc, g_m_dyad_site, g_m_bin_i, g_m_bin_start, g_m_bin_end. rewrite Hd, andb_false_r.
  rewrite Z.quot_div_nonneg by lia. repeat (f_equal; try lia).
Qed.

Lemma m_sum_jobs_decl c cn k meth : valid_cfg (mc c) = true -> m_dyad c = false ->
  (forall r, In r (mreads cn) -> m_regular c (mclen cn) r = true) ->
  zsum (fun jb => fcnt (m_count_job c (cn, jb)) k meth) (jobs_contig (mc c) (mclen cn))
  = zcount (m_contrib c cn k meth) (m_items c cn).
Proof.
  intros Hv Hd Hreg. rewrite m_sum_jobs by assumption. apply zcount_ext_in. intros it Hit.
  destruct (in_m_items c cn it Hit) as (H1 & H2 & H3 & _).
  destruct (pseudo_regular c cn it Hv (Hreg _ H1) H2 H3) as [_ Hs].
  unfold mQ, m_contrib. rewrite m_loc_decl by (auto; lia). reflexivity.
Qed.

(* ---- ownership of keys by jobs *)
Definition mown (k : mkey) (j : mjob) : Prop :=
  let '(_, (_, qc, qbs, _)) := k in mcid (fst j) = qc /\ fst (snd j) <= qbs < snd (snd j).

Lemma in_m_all_jobs c g cn jb : In (cn, jb) (m_all_jobs c g) <-> In cn g /\ In jb (jobs_contig (mc c) (mclen cn)).
Proof.
  unfold m_all_jobs. rewrite in_flat_map. split.
  - intros (cn' & Hg & Hin). apply in_map_iff in Hin. destruct Hin as (jb' & Heq & Hj). inversion Heq; subst. auto.
  - intros [Hg Hj]. exists cn. split; [exact Hg|]. apply in_map_iff. exists jb. auto.
Qed.

Lemma mcid_inj : forall g cn cn', NoDup (map mcid g) -> In cn g -> In cn' g -> mcid cn = mcid cn' -> cn = cn'.
Proof.
  induction g as [|a g IH]; intros cn cn' Hnd H1 H2 He; [destruct H1|].
  cbn [map] in Hnd. inversion Hnd as [|? ? Hn Hd]; subst.
  destruct H1 as [->|H1], H2 as [->|H2]; auto.
  - exfalso. apply Hn. rewrite He. apply in_map. exact H2.
  - exfalso. apply Hn. rewrite <- He. apply in_map. exact H1.
Qed.

Lemma m_all_jobs_NoDup c : forall g, valid_cfg (mc c) = true -> NoDup (map mcid g) -> NoDup (m_all_jobs c g).
Proof.
  intros g Hv. induction g as [|cn g IH]; intros Hnd; [constructor|].
  cbn [map] in Hnd. inversion Hnd as [|? ? Hn Hd]; subst.
  unfold m_all_jobs. cbn [flat_map]. fold (m_all_jobs c g). apply NoDup_app_intro.
  - apply FinFun.Injective_map_NoDup; [|apply jobs_contig_NoDup; exact Hv]. intros x y H. inversion H. reflexivity.
  - apply IH. exact Hd.
  - intros [cn' jb] H1 H2. apply in_map_iff in H1. destruct H1 as (jb' & Heq & _). inversion Heq; subst.
    apply in_m_all_jobs in H2. destruct H2 as [H2 _]. apply Hn. apply in_map. exact H2.
Qed.

Lemma m_job_owned c g j k : valid_cfg (mc c) = true -> m_dyad c = false -> In j (m_all_jobs c g) ->
  In k (fkeys (m_count_job c j)) -> mown k j.
Proof.
  intros Hv Hd Hj Hk. destruct j as [cn [st en]]. apply in_m_all_jobs in Hj. destruct Hj as [_ Hj].
  apply in_jobs_contig in Hj; [|exact Hv]. destruct Hj as (i & Hi & -> & ->).
  unfold m_count_job in Hk. apply fkeys_fold_reads in Hk. destruct Hk as [[]|(r & cl & _ & _ & _ & Ho & ->)].
  unfold g_m_not_owned in Ho. assert (Hs : i * W (mc c) <= fst cl < i * W (mc c) + W (mc c)) by lia.
  pose proof (cell_in_job (mc c) i (fst cl) Hv (proj1 Hi) Hs) as Hcell. cbv zeta in Hcell.
  unfold mown, m_loc, g_m_dyad_site. rewrite Hd, andb_false_r. cbn [fst snd]. split; [reflexivity|].
  unfold g_m_bin_start, g_m_bin_i. unfold g_bin_start, g_bin_i in Hcell. lia.
Qed.

Lemma mown_unique c g k j j' : valid_cfg (mc c) = true -> NoDup (map mcid g) ->
  In j (m_all_jobs c g) -> In j' (m_all_jobs c g) -> mown k j -> mown k j' -> j = j'.
Proof.
  intros Hv Hnd Hj Hj' Ho Ho'. pose proof (W_pos (mc c) Hv) as HW.
  destruct j as [cn [st en]], j' as [cn' [st' en']], k as [ks [[[qk qc] qbs] qbe]].
  unfold mown in Ho, Ho'. cbn [fst snd] in Ho, Ho'. destruct Ho as [Hc Hb], Ho' as [Hc' Hb'].
  apply in_m_all_jobs in Hj, Hj'. destruct Hj as [Hg Hj], Hj' as [Hg' Hj'].
  assert (cn = cn') by (apply (mcid_inj g); auto; congruence). subst cn'.
  apply in_jobs_contig in Hj, Hj'; try exact Hv.
  destruct Hj as (i & _ & -> & ->), Hj' as (i' & _ & -> & ->).
  assert (i = i') by nia. subst. reflexivity.
Qed.

(* ---- the merged matrix, for every completion order *)
Lemma m_merged_sum c g p k meth : valid_cfg (mc c) = true -> m_dyad c = false -> NoDup (map mcid g) ->
  Permutation (m_all_jobs c g) p ->
  fcnt (fmerge_all (map (m_count_job c) p)) k meth = zsum (fun j => fcnt (m_count_job c j) k meth) (m_all_jobs c g).
Proof.
  intros Hv Hd Hnd Hp. unfold fmerge_all. rewrite (zsum_perm _ _ _ Hp).
  assert (Hin : forall j, In j p -> In j (m_all_jobs c g)) by (intros j Hj; apply (Permutation_in _ (Permutation_sym Hp)); exact Hj).
  apply fold_fupdate_owned.
  - apply (Permutation_NoDup Hp). apply m_all_jobs_NoDup; assumption.
  - intros j _. apply m_count_job_NoDup.
  - intros j j' Hj Hj' Hk Hk'. apply (mown_unique c g k); auto; apply (m_job_owned c g); auto.
  - reflexivity.
Qed.

Lemma m_matrix_cnt c g p k meth : valid_cfg (mc c) = true -> m_dyad c = false -> NoDup (map mcid g) ->
  m_regular_genome c g -> Permutation (m_all_jobs c g) p ->
  fcnt (fmerge_all (map (m_count_job c) p)) k meth = zsum (fun cn => zcount (m_contrib c cn k meth) (m_items c cn)) g.
Proof.
  intros Hv Hd Hnd Hreg Hp. rewrite (m_merged_sum c g p k meth) by assumption.
  unfold m_all_jobs. rewrite zsum_flat_map. apply zsum_ext_in. intros cn Hcn. rewrite zsum_map.
  apply m_sum_jobs_decl; [exact Hv|exact Hd|apply Hreg; exact Hcn].
Qed.

Lemma m_matrix c g p k : valid_cfg (mc c) = true -> m_dyad c = false -> NoDup (map mcid g) ->
  m_regular_genome c g -> Permutation (m_all_jobs c g) p ->
  fval (fmerge_all (map (m_count_job c) p)) k = m_decl c g k.
Proof.
  intros Hv Hd Hnd Hreg Hp.
  pose proof (m_matrix_cnt c g p k false Hv Hd Hnd Hreg Hp) as H0.
  pose proof (m_matrix_cnt c g p k true Hv Hd Hnd Hreg Hp) as H1.
  unfold fcnt in H0, H1. unfold m_decl. destruct (fval _ k) as [u v]. cbn [fst snd] in H0, H1. subst. reflexivity.
Qed.

Definition m_set_k (c : mcfg) (k : Z) : mcfg := {| mc := set_k (mc c) k; m_dyad := m_dyad c; m_stranded := m_stranded c |}.

Lemma m_decl_set_k c k g key : m_decl (m_set_k c k) g key = m_decl c g key.
Proof. reflexivity. Qed.

Lemma m_invariant c k1 k2 g p1 p2 key : 0 < c_b (mc c) -> 0 <= c_mfs (mc c) -> 0 < k1 -> 0 < k2 -> m_dyad c = false ->
  NoDup (map mcid g) -> m_regular_genome c g ->
  Permutation (m_all_jobs (m_set_k c k1) g) p1 -> Permutation (m_all_jobs (m_set_k c k2) g) p2 ->
  fval (fmerge_all (map (m_count_job (m_set_k c k1)) p1)) key = fval (fmerge_all (map (m_count_job (m_set_k c k2)) p2)) key.
Proof.
  intros Hb Hm H1 H2 Hd Hnd Hreg Hp1 Hp2.
  assert (Hv1 : valid_cfg (mc (m_set_k c k1)) = true) by (apply valid_cfg_iff; cbn; lia).
  assert (Hv2 : valid_cfg (mc (m_set_k c k2)) = true) by (apply valid_cfg_iff; cbn; lia).
  assert (Hr1 : m_regular_genome (m_set_k c k1) g) by exact Hreg.
  assert (Hr2 : m_regular_genome (m_set_k c k2) g) by exact Hreg.
  rewrite (m_matrix _ g p1), (m_matrix _ g p2) by assumption. reflexivity.
Qed.

Lemma m_obtain_matrix c g sched key : valid_cfg (mc c) = true -> m_dyad c = false -> NoDup (map mcid g) ->
  m_regular_genome c g -> Permutation (seq 0 (length (m_all_jobs c g))) sched ->
  fval (m_obtain c g sched) key = m_decl c g key.
Proof.
  intros Hv Hd Hnd Hreg Hs. unfold m_obtain. apply m_matrix; try assumption. apply apply_sched_perm. exact Hs.
Qed.

(* a key of the merged matrix was produced by a job: nothing is invented *)
Lemma m_pre_sound c g : m_pre c g = true ->
  valid_cfg (mc c) = true /\ m_dyad c = false /\ NoDup (map mcid g) /\ m_regular_genome c g.
Proof.
  unfold m_pre. rewrite !andb_true_iff. intros [[[H1 H2] H3] H4].
  split; [exact H1|split; [destruct (m_dyad c); [discriminate|reflexivity]|split]].
  - clear -H3. unfold m_nodup_cids in H3. induction (map mcid g) as [|x l IH]; [constructor|].
    apply andb_true_iff in H3. destruct H3 as [Ha Hb]. constructor; [|apply IH; exact Hb].
    intros Hin. apply negb_true_iff in Ha. assert (existsb (Z.eqb x) l = true); [|congruence].
    apply existsb_exists. exists x. split; [exact Hin|apply Z.eqb_refl].
  - intros cn Hcn r Hr. rewrite forallb_forall in H4. specialize (H4 cn Hcn). rewrite forallb_forall in H4. auto.
Qed.

(* ---- dyad mode (--mirror_cpg_dyad): the +1 shift is applied AFTER the ownership test, so a reverse-strand call on the
   last position of a job lands in the first bin of the next job, whose result overwrites it: the matrix depends on
   bins_per_job *)
Definition mk_m (lo hi : Z) (rev : bool) (calls : list (Z * Z)) : mread :=
  {| m_lo := lo; m_hi := hi; m_r1 := true; m_qcfail := false; m_dup := false; m_mp := 0; m_mq := 60; m_sample := 1;
     m_rev := rev; m_calls := calls |}.
Definition mcfg0 (b k : Z) (dyad stranded : bool) : mcfg := {| mc := cfg0 b k 0; m_dyad := dyad; m_stranded := stranded |}.
Definition m_run_id (c : mcfg) (g : list mcontig) : fmap := fmerge_all (map (m_count_job c) (m_all_jobs c g)).

Lemma m_dyad_refuted : exists c g k1 k2 key,
  m_dyad c = true /\ valid_cfg (mc (m_set_k c k1)) = true /\ valid_cfg (mc (m_set_k c k2)) = true /\ NoDup (map mcid g)
  /\ m_regular_genome c g
  /\ fval (m_run_id (m_set_k c k1) g) key <> fval (m_run_id (m_set_k c k2) g) key.
Proof.
  exists (mcfg0 10 1 true false), [{| mcid := 1; mclen := 40; mreads := [mk_m 5 10 true [(9, 1)]; mk_m 12 15 false [(12, 1)]] |}],
         1, 2, (1, (0, 1, 10, 20)).
  split; [reflexivity|split; [reflexivity|split; [reflexivity|split; [repeat constructor; intros []|split]]]].
  - intros cn [<-|[]] r [<-|[<-|[]]]; reflexivity.
  - vm_compute. discriminate.
Qed.
