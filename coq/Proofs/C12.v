(* C12: the job-parallel binned counter is independent of the job split and of the completion order. *)
From Coq Require Import ZArith List Bool Lia ZifyBool Permutation.
Import ListNotations.
From SCMO Require Import Lib.Val Lib.PyInt Lib.PyIntFacts Gen.GenBinCount Model.C12 Proofs.C12_dict.
Open Scope Z_scope.
Ltac Zify.zify_post_hook ::= Z.to_euclidean_division_equations.

Definition W (c : cfg) : Z := c_b c * c_k c.

Lemma valid_cfg_iff c : valid_cfg c = true <-> 0 < c_b c /\ 0 < c_k c /\ 0 <= c_mfs c.
Proof. unfold valid_cfg. lia. Qed.

Lemma W_pos c : valid_cfg c = true -> 0 < W c.
Proof. intros H. apply valid_cfg_iff in H. unfold W. nia. Qed.

(* ---- the job list produced by the generated expressions of generate_jobs: the obligation a changed
   step / end expression breaks *)
Lemma jobs_contig_shape c len : valid_cfg c = true ->
  jobs_contig c len = map (fun i => (i * W c, i * W c + W c)) (zrange 0 (cdiv len (W c))).
Proof.
  intros Hv. pose proof (W_pos c Hv) as HW. unfold W in *.
  unfold jobs_contig, py_range, g_job_step, g_range_lo, g_range_hi, g_job_start, g_job_end.
  match goal with |- context [if ?t then _ else _] => destruct t eqn:E end; [|exfalso; lia].
  rewrite map_map. replace (len - 0) with len by lia. apply map_ext. intros i. f_equal; lia.
Qed.

Lemma in_jobs_contig c len st en : valid_cfg c = true ->
  In (st, en) (jobs_contig c len) <-> exists i, 0 <= i < cdiv len (W c) /\ st = i * W c /\ en = i * W c + W c.
Proof.
  intros Hv. rewrite jobs_contig_shape by assumption. rewrite in_map_iff. split.
  - intros (i & Heq & Hin). apply zrange_In in Hin. inversion Heq. exists i. auto.
  - intros (i & Hi & -> & ->). exists i. split; [reflexivity|apply zrange_In; exact Hi].
Qed.

Lemma jobs_contig_NoDup c len : valid_cfg c = true -> NoDup (jobs_contig c len).
Proof.
  intros Hv. rewrite jobs_contig_shape by assumption. pose proof (W_pos c Hv) as HW.
  apply FinFun.Injective_map_NoDup; [|apply zrange_NoDup].
  intros x y H. inversion H. nia.
Qed.

Lemma in_all_jobs c g cn jb : In (cn, jb) (all_jobs c g) <-> In cn g /\ In jb (jobs_contig c (clen cn)).
Proof.
  unfold all_jobs. rewrite in_flat_map. split.
  - intros (cn' & Hg & Hin). apply in_map_iff in Hin. destruct Hin as (jb' & Heq & Hj).
    inversion Heq; subst. auto.
  - intros [Hg Hj]. exists cn. split; [exact Hg|]. apply in_map_iff. exists jb. auto.
Qed.

Lemma cid_inj : forall g cn cn', NoDup (map cid g) -> In cn g -> In cn' g -> cid cn = cid cn' -> cn = cn'.
Proof.
  induction g as [|a g IH]; intros cn cn' Hnd H1 H2 He; [destruct H1|].
  cbn [map] in Hnd. inversion Hnd as [|? ? Hn Hd]; subst.
  destruct H1 as [->|H1], H2 as [->|H2]; auto.
  - exfalso. apply Hn. rewrite He. apply in_map. exact H2.
  - exfalso. apply Hn. rewrite <- He. apply in_map. exact H1.
Qed.

Lemma all_jobs_NoDup c : forall g, valid_cfg c = true -> NoDup (map cid g) -> NoDup (all_jobs c g).
Proof.
  intros g Hv. induction g as [|cn g IH]; intros Hnd; [constructor|].
  cbn [map] in Hnd. inversion Hnd as [|? ? Hn Hd]; subst.
  unfold all_jobs. cbn [flat_map]. fold (all_jobs c g). apply NoDup_app_intro.
  - apply FinFun.Injective_map_NoDup; [|apply jobs_contig_NoDup; exact Hv]. intros x y H. inversion H. reflexivity.
  - apply IH. exact Hd.
  - intros [cn' jb] H1 H2. apply in_map_iff in H1. destruct H1 as (jb' & Heq & _). inversion Heq; subst.
    apply in_all_jobs in H2. destruct H2 as [H2 _]. apply Hn. apply in_map. exact H2.
Qed.

(* ---- one job *)
Definition sel (c : cfg) (cn : contig) (jb : Z * Z) (r : rec) : bool :=
  fetched (g_f_start (fst jb) (c_mfs c)) (g_f_end (snd jb) (c_mfs c) (clen cn)) r
  && negb (g_not_owned (site r) (fst jb) (snd jb)).

Definition cellid (c : cfg) (cn : contig) (r : rec) : binid :=
  (r_key r, cid cn, fst (bin_of c (clen cn) r), snd (bin_of c (clen cn) r)).

Definition counted (c : cfg) (st en : Z) (r : rec) : bool := passes c r && negb (g_not_owned (site r) st en).

Lemma look_count_read c cn st en counts r q s :
  look (count_read c cn st en counts r) q s
  = look counts q s + (if counted c st en r && (binid_eqb q (cellid c cn r) && (s =? r_sample r)) then 1 else 0).
Proof.
  unfold count_read, counted, cellid. destruct (passes c r); cbn [negb andb]; [|lia].
  destruct (g_not_owned (site r) st en); cbn [negb andb]; [lia|].
  destruct (bin_of c (clen cn) r) as [bs be]. cbn [fst snd]. apply look_inc2.
Qed.

Lemma total_count_read c cn st en counts r :
  total (count_read c cn st en counts r) = total counts + (if counted c st en r then 1 else 0).
Proof.
  unfold count_read, counted. destruct (passes c r); cbn [negb andb]; [|lia].
  destruct (g_not_owned (site r) st en); cbn [negb andb]; [lia|].
  destruct (bin_of c (clen cn) r) as [bs be]. apply total_inc2.
Qed.

Lemma keys_count_read c cn st en counts r q :
  In q (keys (count_read c cn st en counts r)) ->
  In q (keys counts) \/ (counted c st en r = true /\ q = cellid c cn r).
Proof.
  unfold count_read, counted, cellid. destruct (passes c r); cbn [negb andb]; [|auto].
  destruct (g_not_owned (site r) st en); cbn [negb andb]; [auto|].
  destruct (bin_of c (clen cn) r) as [bs be]. cbn [fst snd]. rewrite keys_inc2. intuition.
Qed.

Lemma keys_count_read_NoDup c cn st en counts r :
  NoDup (keys counts) -> NoDup (keys (count_read c cn st en counts r)).
Proof.
  unfold count_read. destruct (passes c r); cbn [negb]; [|auto].
  destruct (g_not_owned (site r) st en); [auto|].
  destruct (bin_of c (clen cn) r) as [bs be]. apply keys_inc2_NoDup.
Qed.

Lemma positive_count_read c cn st en counts r : positive counts -> positive (count_read c cn st en counts r).
Proof.
  unfold count_read. destruct (passes c r); cbn [negb]; [|auto].
  destruct (g_not_owned (site r) st en); [auto|].
  destruct (bin_of c (clen cn) r) as [bs be]. apply positive_inc2.
Qed.

Lemma look_fold_count c cn st en q s : forall l counts,
  look (fold_left (count_read c cn st en) l counts) q s
  = look counts q s + zcount (fun r => counted c st en r && (binid_eqb q (cellid c cn r) && (s =? r_sample r))) l.
Proof.
  induction l as [|r l IH]; intros counts; cbn [fold_left].
  - unfold zcount. cbn [fold_right]. lia.
  - rewrite IH, look_count_read, zcount_cons. lia.
Qed.

Lemma total_fold_count c cn st en : forall l counts,
  total (fold_left (count_read c cn st en) l counts) = total counts + zcount (counted c st en) l.
Proof.
  induction l as [|r l IH]; intros counts; cbn [fold_left].
  - unfold zcount. cbn [fold_right]. lia.
  - rewrite IH, total_count_read, zcount_cons. lia.
Qed.

Lemma keys_fold_count c cn st en q : forall l counts,
  In q (keys (fold_left (count_read c cn st en) l counts)) ->
  In q (keys counts) \/ exists r, In r l /\ counted c st en r = true /\ q = cellid c cn r.
Proof.
  induction l as [|r l IH]; intros counts H; cbn [fold_left] in H; [auto|].
  destruct (IH _ H) as [H1|(r' & H1 & H2)].
  - apply keys_count_read in H1. destruct H1 as [H1|[H1 H2]]; [auto|]. right. exists r. split; [left; reflexivity|auto].
  - right. exists r'. split; [right; exact H1|exact H2].
Qed.

Lemma keys_fold_count_NoDup c cn st en : forall l counts,
  NoDup (keys counts) -> NoDup (keys (fold_left (count_read c cn st en) l counts)).
Proof.
  induction l as [|r l IH]; intros counts H; cbn [fold_left]; [exact H|].
  apply IH. apply keys_count_read_NoDup. exact H.
Qed.

Lemma positive_fold_count c cn st en : forall l counts,
  positive counts -> positive (fold_left (count_read c cn st en) l counts).
Proof.
  induction l as [|r l IH]; intros counts H; cbn [fold_left]; [exact H|].
  apply IH. apply positive_count_read. exact H.
Qed.

Lemma look_count_job c cn jb q s :
  look (count_job c (cn, jb)) q s
  = zcount (fun r => sel c cn jb r && (passes c r && (binid_eqb q (cellid c cn r) && (s =? r_sample r)))) (creads cn).
Proof.
  destruct jb as [st en]. unfold count_job. rewrite look_fold_count, look_nil, zcount_filter.
  rewrite Z.add_0_l. apply zcount_ext_in. intros r _. unfold sel, counted. cbn [fst snd].
  destruct (fetched _ _ r), (passes c r), (g_not_owned _ _ _); reflexivity.
Qed.

Lemma total_count_job c cn jb :
  total (count_job c (cn, jb)) = zcount (fun r => sel c cn jb r && (passes c r && true)) (creads cn).
Proof.
  destruct jb as [st en]. unfold count_job. rewrite total_fold_count, zcount_filter.
  change (total []) with 0. rewrite Z.add_0_l. apply zcount_ext_in. intros r _. unfold sel, counted. cbn [fst snd].
  destruct (fetched _ _ r), (passes c r), (g_not_owned _ _ _); reflexivity.
Qed.

Lemma count_job_NoDup c j : NoDup (keys (count_job c j)).
Proof. destruct j as [cn [st en]]. unfold count_job. apply keys_fold_count_NoDup. constructor. Qed.

Lemma count_job_positive c j : positive (count_job c j).
Proof. destruct j as [cn [st en]]. unfold count_job. apply positive_fold_count. intros ? ? ? ? []. Qed.

(* ---- arithmetic of one bin inside one job: the obligation a changed bin / ownership expression breaks *)
Lemma owned_iff s st en : g_not_owned s st en = false <-> st <= s < en.
Proof. unfold g_not_owned. lia. Qed.

Lemma cell_in_job c i s : valid_cfg c = true -> 0 <= i -> i * W c <= s < i * W c + W c ->
  let bs := g_bin_start (c_b c) (g_bin_i s (c_b c)) in
  i * W c <= bs < i * W c + W c /\ bs = c_b c * (s / c_b c) /\ bs <= s < bs + c_b c /\ bs mod c_b c = 0.
Proof.
  intros Hv Hi Hs. apply valid_cfg_iff in Hv. destruct Hv as (Hb & Hk & _). unfold W in *.
  assert (H0 : 0 <= s) by nia.
  cbv zeta. unfold g_bin_start, g_bin_i. rewrite Z.quot_div_nonneg by lia.
  assert (Hq : i * c_k c <= s / c_b c) by (apply Z.div_le_lower_bound; nia).
  assert (Hm : (c_b c * (s / c_b c)) mod c_b c = 0) by (rewrite Z.mul_comm; apply Z_mod_mult).
  pose proof (Z.mul_div_le s (c_b c) Hb) as Hd1. pose proof (Z.mul_succ_div_gt s (c_b c) Hb) as Hd2.
  revert Hq Hm Hd1 Hd2. generalize (s / c_b c) as d. intros d Hq Hm Hd1 Hd2.
  assert (c_b c * (i * c_k c) <= c_b c * d) by (apply Z.mul_le_mono_nonneg_l; lia).
  split; [lia|split; [lia|split; [lia|]]].
  match goal with |- ?x mod _ = 0 => replace x with (c_b c * d) by lia end. exact Hm.
Qed.

Lemma cellid_cell_of c cn r : valid_cfg c = true -> 0 <= site r -> cellid c cn r = cell_of c cn r.
Proof.
  intros Hv H0. apply valid_cfg_iff in Hv. destruct Hv as (Hb & _).
  unfold cellid, cell_of, bin_of, g_bin_start, g_bin_end, g_bin_i. cbn [fst snd].
  rewrite Z.quot_div_nonneg by lia. repeat (f_equal; try lia).
Qed.

Lemma regular_passes c len r : regular c len r = true -> passes c r = true ->
  0 <= site r < len /\ near (c_mfs c) r = true /\ wf_rec len r = true.
Proof.
  unfold regular. intros H Hp. rewrite Hp in H. cbn [negb orb] in H.
  rewrite !andb_true_iff in H. destruct H as [[[H1 H2] H3] H4]. repeat split; auto; lia.
Qed.

(* the record is selected (fetched and owned) by exactly the job with index site / W *)
Lemma sel_iff c cn r i : valid_cfg c = true -> passes c r = true -> regular c (clen cn) r = true -> 0 <= i ->
  sel c cn (i * W c, i * W c + W c) r = (i =? site r / W c).
Proof.
  intros Hv Hp Hr Hi. pose proof (W_pos c Hv) as HW. apply valid_cfg_iff in Hv. destruct Hv as (_ & _ & Hm).
  destruct (regular_passes _ _ _ Hr Hp) as (Hs & Hn & Hw).
  unfold near in Hn. unfold wf_rec in Hw.
  unfold sel, fetched, g_f_start, g_f_end, g_not_owned. cbn [fst snd].
  set (w := W c) in *. set (s := site r) in *. set (iw := i * w) in *.
  destruct (i =? s / w) eqn:E.
  - assert (iw <= s < iw + w) by (subst iw; nia). lia.
  - assert (s < iw \/ s >= iw + w) by (subst iw; nia). lia.
Qed.

Lemma site_index_in_range c len s : valid_cfg c = true -> 0 <= s < len -> 0 <= s / W c < cdiv len (W c).
Proof. intros Hv Hs. pose proof (W_pos c Hv) as HW. unfold cdiv. set (w := W c) in *. nia. Qed.

(* summing any per-record indicator over the jobs of a contig counts every passing record once *)
Lemma sum_jobs_reads c cn (G : rec -> bool) : valid_cfg c = true ->
  forall l, (forall r, In r l -> regular c (clen cn) r = true) ->
  zsum (fun jb => zcount (fun r => sel c cn jb r && (passes c r && G r)) l) (jobs_contig c (clen cn))
  = zcount (fun r => passes c r && G r) l.
Proof.
  intros Hv. induction l as [|r l IH]; intros Hreg.
  - apply zsum_zero. reflexivity.
  - rewrite zcount_cons, <- IH by (intros x Hx; apply Hreg; right; exact Hx).
    rewrite jobs_contig_shape by exact Hv. rewrite !zsum_map.
    assert (Hr : regular c (clen cn) r = true) by (apply Hreg; left; reflexivity).
    transitivity (zsum (fun i => (if i =? site r / W c then (if passes c r && G r then 1 else 0) else 0)
                                 + zcount (fun r0 => sel c cn (i * W c, i * W c + W c) r0 && (passes c r0 && G r0)) l)
                       (zrange 0 (cdiv (clen cn) (W c)))).
    + apply zsum_ext_in. intros i Hin. apply zrange_In in Hin. rewrite zcount_cons. f_equal.
      destruct (passes c r) eqn:Hp.
      * rewrite sel_iff by (auto; lia). destruct (i =? site r / W c); reflexivity.
      * rewrite andb_false_r. cbn [andb]. destruct (i =? site r / W c); reflexivity.
    + rewrite zsum_add. f_equal.
      destruct (passes c r) eqn:Hp; cbn [andb].
      * destruct (regular_passes _ _ _ Hr Hp) as (Hs & _).
        pose proof (site_index_in_range c _ _ Hv Hs) as Hrange.
        unfold zrange. apply zsum_single. lia.
      * apply zsum_zero. intros i _. destruct (i =? site r / W c); reflexivity.
Qed.

Lemma sum_jobs_look c cn q s : valid_cfg c = true ->
  (forall r, In r (creads cn) -> regular c (clen cn) r = true) ->
  zsum (fun jb => look (count_job c (cn, jb)) q s) (jobs_contig c (clen cn))
  = zcount (contributes c cn q s) (creads cn).
Proof.
  intros Hv Hreg.
  rewrite (zsum_ext_in _ _ _ (fun jb _ => look_count_job c cn jb q s)).
  rewrite (sum_jobs_reads c cn (fun r => binid_eqb q (cellid c cn r) && (s =? r_sample r)) Hv _ Hreg).
  apply zcount_ext_in. intros r Hin. unfold contributes. destruct (passes c r) eqn:Hp; [|reflexivity].
  destruct (regular_passes _ _ _ (Hreg r Hin) Hp) as (Hs & _).
  rewrite cellid_cell_of by (auto; lia). rewrite binid_eqb_sym, Z.eqb_sym. reflexivity.
Qed.

Lemma sum_jobs_total c cn : valid_cfg c = true ->
  (forall r, In r (creads cn) -> regular c (clen cn) r = true) ->
  zsum (fun jb => total (count_job c (cn, jb))) (jobs_contig c (clen cn)) = zcount (passes c) (creads cn).
Proof.
  intros Hv Hreg.
  rewrite (zsum_ext_in _ _ _ (fun jb _ => total_count_job c cn jb)).
  rewrite (sum_jobs_reads c cn (fun _ => true) Hv _ Hreg).
  apply zcount_ext_in. intros r _. apply andb_true_r.
Qed.

Definition regular_genome (c : cfg) (g : list contig) : Prop :=
  forall cn, In cn g -> forall r, In r (creads cn) -> regular c (clen cn) r = true.

Lemma sum_all_jobs_look c g q s : valid_cfg c = true -> regular_genome c g ->
  zsum (fun j => look (count_job c j) q s) (all_jobs c g) = decl c g q s.
Proof.
  intros Hv Hreg. unfold all_jobs, decl. rewrite zsum_flat_map. apply zsum_ext_in. intros cn Hcn.
  rewrite zsum_map. apply sum_jobs_look; [exact Hv|apply Hreg; exact Hcn].
Qed.

Lemma sum_all_jobs_total c g : valid_cfg c = true -> regular_genome c g ->
  zsum (fun j => total (count_job c j)) (all_jobs c g) = decl_total c g.
Proof.
  intros Hv Hreg. unfold all_jobs, decl_total. rewrite zsum_flat_map. apply zsum_ext_in. intros cn Hcn.
  rewrite zsum_map. apply sum_jobs_total; [exact Hv|apply Hreg; exact Hcn].
Qed.

(* ---- ownership of bin ids by jobs *)
Definition own (q : binid) (j : job) : Prop :=
  let '(_, qc, qbs, _) := q in cid (fst j) = qc /\ fst (snd j) <= qbs < snd (snd j).

Lemma count_job_cells c g cn jb q : valid_cfg c = true -> In (cn, jb) (all_jobs c g) ->
  In q (keys (count_job c (cn, jb))) ->
  exists r, In r (creads cn) /\ passes c r = true /\ q = cellid c cn r /\ fst jb <= site r < snd jb
            /\ fst jb <= fst (bin_of c (clen cn) r) < snd jb
            /\ fst (bin_of c (clen cn) r) = c_b c * (site r / c_b c)
            /\ fst (bin_of c (clen cn) r) mod c_b c = 0.
Proof.
  intros Hv Hj Hq. destruct jb as [st en]. apply in_all_jobs in Hj. destruct Hj as [_ Hj].
  apply in_jobs_contig in Hj; [|exact Hv]. destruct Hj as (i & Hi & -> & ->).
  unfold count_job in Hq. apply keys_fold_count in Hq. destruct Hq as [[]|(r & Hin & Hc & ->)].
  apply filter_In in Hin. destruct Hin as [Hin _]. unfold counted in Hc. apply andb_true_iff in Hc.
  destruct Hc as [Hp Ho]. apply negb_true_iff, owned_iff in Ho.
  exists r. cbn [fst snd]. pose proof (cell_in_job c i (site r) Hv (proj1 Hi) Ho) as Hcell. cbv zeta in Hcell.
  unfold bin_of. cbn [fst snd]. tauto.
Qed.

Lemma count_job_owned c g j q : valid_cfg c = true -> In j (all_jobs c g) -> In q (keys (count_job c j)) -> own q j.
Proof.
  intros Hv Hj Hq. destruct j as [cn jb].
  destruct (count_job_cells c g cn jb q Hv Hj Hq) as (r & _ & _ & -> & _ & Hb & _).
  unfold own, cellid. cbn [fst snd]. split; [reflexivity|exact Hb].
Qed.

Lemma own_unique c g q j j' : valid_cfg c = true -> NoDup (map cid g) ->
  In j (all_jobs c g) -> In j' (all_jobs c g) -> own q j -> own q j' -> j = j'.
Proof.
  intros Hv Hnd Hj Hj' Ho Ho'. pose proof (W_pos c Hv) as HW.
  destruct j as [cn [st en]], j' as [cn' [st' en']], q as [[[qk qc] qbs] qbe].
  unfold own in Ho, Ho'. cbn [fst snd] in Ho, Ho'. destruct Ho as [Hc Hb], Ho' as [Hc' Hb'].
  apply in_all_jobs in Hj, Hj'. destruct Hj as [Hg Hj], Hj' as [Hg' Hj'].
  assert (cn = cn') by (apply (cid_inj g); auto; congruence). subst cn'.
  apply in_jobs_contig in Hj, Hj'; try exact Hv.
  destruct Hj as (i & _ & -> & ->), Hj' as (i' & _ & -> & ->).
  assert (i = i') by nia. subst. reflexivity.
Qed.

(* ---- the merged dictionary, for every completion order *)
Lemma merged_is_concat c g p : valid_cfg c = true -> NoDup (map cid g) -> Permutation (all_jobs c g) p ->
  merge_all (map (count_job c) p) = concat (map (count_job c) p).
Proof.
  intros Hv Hnd Hp.
  apply (merge_all_concat job (count_job c) own (all_jobs c g)).
  - intros j _. apply count_job_NoDup.
  - intros j q Hj Hq. apply (count_job_owned c g); assumption.
  - intros q j j' H1 H2 H3 H4. exact (own_unique c g q j j' Hv Hnd H1 H2 H3 H4).
  - apply (Permutation_NoDup Hp). apply all_jobs_NoDup; assumption.
  - intros x Hx. apply (Permutation_in _ (Permutation_sym Hp)). exact Hx.
Qed.

Lemma merged_look_sum c g p q s : valid_cfg c = true -> NoDup (map cid g) -> Permutation (all_jobs c g) p ->
  look (merge_all (map (count_job c) p)) q s = zsum (fun j => look (count_job c j) q s) (all_jobs c g).
Proof.
  intros Hv Hnd Hp. rewrite (merged_is_concat c g p) by assumption.
  rewrite (look_concat job (count_job c) own (all_jobs c g)).
  - symmetry. apply zsum_perm. exact Hp.
  - intros j q' Hj Hq. apply (count_job_owned c g); assumption.
  - intros q' j j' H1 H2 H3 H4. exact (own_unique c g q' j j' Hv Hnd H1 H2 H3 H4).
  - apply (Permutation_NoDup Hp). apply all_jobs_NoDup; assumption.
  - intros x Hx. apply (Permutation_in _ (Permutation_sym Hp)). exact Hx.
Qed.

Lemma matrix_decl c g p q s : valid_cfg c = true -> NoDup (map cid g) -> regular_genome c g ->
  Permutation (all_jobs c g) p -> look (merge_all (map (count_job c) p)) q s = decl c g q s.
Proof. intros Hv Hnd Hreg Hp. rewrite (merged_look_sum c g p) by assumption. apply sum_all_jobs_look; assumption. Qed.

Lemma matrix_total c g p : valid_cfg c = true -> NoDup (map cid g) -> regular_genome c g ->
  Permutation (all_jobs c g) p -> total (merge_all (map (count_job c) p)) = decl_total c g.
Proof.
  intros Hv Hnd Hreg Hp. rewrite (merged_is_concat c g p) by assumption. rewrite total_concat.
  rewrite <- (zsum_perm _ _ _ Hp). apply sum_all_jobs_total; assumption.
Qed.

(* the merged dictionary is a well-formed dict: distinct bin ids, positive entries *)
Lemma merged_wellformed c g p : valid_cfg c = true -> NoDup (map cid g) -> Permutation (all_jobs c g) p ->
  NoDup (keys (merge_all (map (count_job c) p))) /\ positive (merge_all (map (count_job c) p)).
Proof.
  intros Hv Hnd Hp. rewrite (merged_is_concat c g p) by assumption. split.
  - apply (keys_concat_NoDup job (count_job c) own (all_jobs c g)).
    + intros j _. apply count_job_NoDup.
    + intros j q Hj Hq. apply (count_job_owned c g); assumption.
    + intros q j j' H1 H2 H3 H4. exact (own_unique c g q j j' Hv Hnd H1 H2 H3 H4).
    + apply (Permutation_NoDup Hp). apply all_jobs_NoDup; assumption.
    + intros x Hx. apply (Permutation_in _ (Permutation_sym Hp)). exact Hx.
  - intros q d s n Hin Hs. apply in_concat in Hin. destruct Hin as (res & Hres & Hin).
    apply in_map_iff in Hres. destruct Hres as (j & <- & _). apply (count_job_positive c j q d s n); assumption.
Qed.

(* ---- schedules given as position lists *)
Lemma flat_map_map {A B C} (f : B -> list C) (g : A -> B) l : flat_map f (map g l) = flat_map (fun x => f (g x)) l.
Proof. induction l as [|x l IH]; [reflexivity|]. cbn [map flat_map]. rewrite IH. reflexivity. Qed.

Lemma apply_sched_id {A} (l : list A) : apply_sched (seq 0 (length l)) l = l.
Proof.
  unfold apply_sched. induction l as [|x l IH]; [reflexivity|].
  cbn [length seq flat_map nth_error app]. rewrite <- seq_shift, flat_map_map. cbn [nth_error]. rewrite IH. reflexivity.
Qed.

Lemma apply_sched_perm {A} (l : list A) sched :
  Permutation (seq 0 (length l)) sched -> Permutation l (apply_sched sched l).
Proof.
  intros H. rewrite <- (apply_sched_id l) at 1. unfold apply_sched. apply Permutation_flat_map. exact H.
Qed.

Lemma obtain_ok c g sched : valid_cfg c = true ->
  obtain c g sched = Ok (merge_all (map (count_job c) (apply_sched sched (all_jobs c g)))).
Proof.
  intros Hv. pose proof (W_pos c Hv) as HW. unfold W in HW. unfold obtain. destruct g as [|cn g].
  - unfold all_jobs, apply_sched. cbn [flat_map]. replace (flat_map _ sched) with (@nil job); [reflexivity|].
    induction sched as [|i sched IH]; [reflexivity|]. cbn [flat_map]. rewrite <- IH. destruct i; reflexivity.
  - unfold g_job_step. destruct (_ =? 0) eqn:E; [lia|reflexivity].
Qed.

(* ---- the filter, as the property statement words it: the obligation a changed rejection arm breaks *)
Lemma passes_spec c r : passes c r = true <->
  r_r1 r = true /\ r_qcfail r = false /\ (c_dedup c = true -> r_dup r = false)
  /\ (c_ignmp c = true \/ r_mp r = 0 \/ r_mp r = 1) /\ (c_has_mq c = true -> c_mq c <= r_mq r).
Proof.
  unfold passes, g_job_filter, g_read_counts.
  destruct (r_r1 r), (r_qcfail r), (r_dup r), (c_dedup c), (c_ignmp c), (c_has_mq c);
    cbn [negb andb orb]; split; intros H; try discriminate; try lia;
    repeat match goal with H : _ /\ _ |- _ => destruct H end; try discriminate; try lia;
    try (match goal with H : true = true -> _ |- _ => specialize (H eq_refl) end; try discriminate; try lia).
Qed.

(* pre (boolean, evaluated by the harness) implies the hypotheses of the theorems *)
Lemma nodup_cids_sound g : nodup_cids g = true -> NoDup (map cid g).
Proof.
  unfold nodup_cids. induction (map cid g) as [|x l IH]; intros H; [constructor|].
  apply andb_true_iff in H. destruct H as [H1 H2]. constructor; [|apply IH; exact H2].
  intros Hin. apply negb_true_iff in H1. assert (existsb (Z.eqb x) l = true); [|congruence].
  apply existsb_exists. exists x. split; [exact Hin|apply Z.eqb_refl].
Qed.

Lemma pre_sound c g : pre c g = true -> valid_cfg c = true /\ NoDup (map cid g) /\ regular_genome c g.
Proof.
  unfold pre. rewrite !andb_true_iff. intros [[H1 H2] H3]. split; [exact H1|split; [apply nodup_cids_sound; exact H2|]].
  intros cn Hcn r Hr. rewrite forallb_forall in H3. specialize (H3 cn Hcn). rewrite forallb_forall in H3. auto.
Qed.

(* ---- statements in the form used by Props *)
Lemma jobs_tile c len : valid_cfg c = true ->
  let w := c_b c * c_k c in
  jobs_contig c len = map (fun i => (i * w, (i + 1) * w)) (zrange 0 (cdiv len w))
  /\ (forall st en, In (st, en) (jobs_contig c len) ->
        0 <= st < len /\ en = st + w /\ st mod c_b c = 0 /\ en mod c_b c = 0)
  /\ (forall x, 0 <= x < len ->
        exists jb, In jb (jobs_contig c len) /\ fst jb <= x < snd jb
                   /\ forall jb', In jb' (jobs_contig c len) -> fst jb' <= x < snd jb' -> jb' = jb)
  /\ (0 <= len -> len <= cdiv len w * w < len + w).
Proof.
  intros Hv w. pose proof (W_pos c Hv) as HW. fold (W c) in w. subst w.
  pose proof Hv as Hv'. apply valid_cfg_iff in Hv'. destruct Hv' as (Hb & Hk & _).
  split; [|split; [|split]].
  - rewrite jobs_contig_shape by exact Hv. apply map_ext. intros i. f_equal. lia.
  - intros st en Hin. apply in_jobs_contig in Hin; [|exact Hv]. destruct Hin as (i & Hi & -> & ->).
    unfold cdiv in Hi. unfold W in *.
    assert (Hm1 : (i * (c_b c * c_k c)) mod c_b c = 0).
    { replace (i * (c_b c * c_k c)) with (i * c_k c * c_b c) by lia. apply Z_mod_mult. }
    assert (Hm2 : (i * (c_b c * c_k c) + c_b c * c_k c) mod c_b c = 0).
    { replace (i * (c_b c * c_k c) + c_b c * c_k c) with ((i + 1) * c_k c * c_b c) by lia. apply Z_mod_mult. }
    split; [|split; [reflexivity|split; assumption]].
    set (w := c_b c * c_k c) in *. clearbody w. nia.
  - intros x Hx. pose proof (site_index_in_range c len x Hv Hx) as Hr.
    exists (x / W c * W c, x / W c * W c + W c). cbn [fst snd]. split; [|split].
    + apply in_jobs_contig; [exact Hv|]. exists (x / W c). auto.
    + set (w := W c) in *. clearbody w. nia.
    + intros [st en] Hin Hc. cbn [fst snd] in Hc. apply in_jobs_contig in Hin; [|exact Hv].
      destruct Hin as (i & Hi & -> & ->). assert (i = x / W c); [|subst; reflexivity].
      set (w := W c) in *. clearbody w. nia.
  - intros Hl. unfold cdiv. set (w := W c) in *. clearbody w. nia.
Qed.

Lemma once c cn r : valid_cfg c = true -> passes c r = true -> regular c (clen cn) r = true ->
  zsum (fun jb => if sel c cn jb r then 1 else 0) (jobs_contig c (clen cn)) = 1
  /\ cellid c cn r = cell_of c cn r
  /\ c_b c * (site r / c_b c) <= site r < c_b c * (site r / c_b c) + c_b c.
Proof.
  intros Hv Hp Hr. destruct (regular_passes _ _ _ Hr Hp) as (Hs & _).
  pose proof Hv as Hv'. apply valid_cfg_iff in Hv'. destruct Hv' as (Hb & _).
  split; [|split].
  - rewrite jobs_contig_shape by exact Hv. rewrite zsum_map.
    rewrite (zsum_ext_in _ (fun i => if i =? site r / W c then 1 else 0)).
    + pose proof (site_index_in_range c _ _ Hv Hs) as Hrange. unfold zrange. apply zsum_single. lia.
    + intros i Hin. apply zrange_In in Hin. rewrite sel_iff by (auto; lia). reflexivity.
  - apply cellid_cell_of; [exact Hv|lia].
  - pose proof (Z.mul_div_le (site r) (c_b c) Hb). pose proof (Z.mul_succ_div_gt (site r) (c_b c) Hb). lia.
Qed.

Definition set_k (c : cfg) (k : Z) : cfg :=
  {| c_b := c_b c; c_k := k; c_mfs := c_mfs c; c_has_mq := c_has_mq c; c_mq := c_mq c;
     c_dedup := c_dedup c; c_ignmp := c_ignmp c |}.

Lemma invariant c k1 k2 g p1 p2 q s : 0 < c_b c -> 0 <= c_mfs c -> 0 < k1 -> 0 < k2 ->
  NoDup (map cid g) -> regular_genome c g ->
  Permutation (all_jobs (set_k c k1) g) p1 -> Permutation (all_jobs (set_k c k2) g) p2 ->
  look (merge_all (map (count_job (set_k c k1)) p1)) q s = look (merge_all (map (count_job (set_k c k2)) p2)) q s
  /\ total (merge_all (map (count_job (set_k c k1)) p1)) = total (merge_all (map (count_job (set_k c k2)) p2)).
Proof.
  intros Hb Hm H1 H2 Hnd Hreg Hp1 Hp2.
  assert (Hv1 : valid_cfg (set_k c k1) = true) by (apply valid_cfg_iff; cbn; lia).
  assert (Hv2 : valid_cfg (set_k c k2) = true) by (apply valid_cfg_iff; cbn; lia).
  assert (Hr1 : regular_genome (set_k c k1) g) by exact Hreg.
  assert (Hr2 : regular_genome (set_k c k2) g) by exact Hreg.
  rewrite (matrix_decl _ g p1), (matrix_decl _ g p2), (matrix_total _ g p1), (matrix_total _ g p2) by assumption.
  split; reflexivity.
Qed.

Lemma obtain_matrix c g sched : valid_cfg c = true -> NoDup (map cid g) -> regular_genome c g ->
  Permutation (seq 0 (length (all_jobs c g))) sched ->
  exists d, obtain c g sched = Ok d /\ (forall q s, look d q s = decl c g q s) /\ total d = decl_total c g
            /\ NoDup (keys d) /\ positive d.
Proof.
  intros Hv Hnd Hreg Hs. eexists. split; [apply obtain_ok; exact Hv|].
  pose proof (apply_sched_perm (all_jobs c g) sched Hs) as Hp.
  split; [intros q s; apply matrix_decl; assumption|split; [apply matrix_total; assumption|]].
  apply (merged_wellformed c g); assumption.
Qed.

(* ---- sessions: every call of a history describes the BAM of that call only *)
Lemma history_stateless h i c g sched : nth_error h i = Some (c, g, sched) ->
  nth_error (run_history h) i = Some (obtain c g sched).
Proof. intros H. unfold run_history. rewrite (map_nth_error _ _ _ H). reflexivity. Qed.

Lemma history_matrix h i c g sched : nth_error h i = Some (c, g, sched) ->
  valid_cfg c = true -> NoDup (map cid g) -> regular_genome c g ->
  Permutation (seq 0 (length (all_jobs c g))) sched ->
  exists d, nth_error (run_history h) i = Some (Ok d) /\ (forall q s, look d q s = decl c g q s)
            /\ total d = decl_total c g /\ NoDup (keys d) /\ positive d.
Proof.
  intros H Hv Hnd Hreg Hs. destruct (obtain_matrix c g sched Hv Hnd Hreg Hs) as (d & Ho & Hrest).
  exists d. split; [|exact Hrest]. rewrite (history_stateless _ _ _ _ _ H), Ho. reflexivity.
Qed.

(* ---- the excluded cases are real: concrete counterexamples on the faithful model *)
Definition mk (lo hi : Z) (ds : option Z) : rec :=
  {| r_lo := lo; r_hi := hi; r_ds := ds; r_r1 := true; r_qcfail := false; r_dup := false; r_mp := 0; r_mq := 60;
     r_sample := 1; r_key := 0 |}.
Definition cfg0 (b k mfs : Z) : cfg :=
  {| c_b := b; c_k := k; c_mfs := mfs; c_has_mq := true; c_mq := 50; c_dedup := true; c_ignmp := false |}.
Definition run_id (c : cfg) (g : list contig) : dict2 := merge_all (map (count_job c) (all_jobs c g)).

(* H2 dropped: a site farther than max_fragment_size from its record is counted with 100 bins per job, not with 1 *)
Lemma far_site_refuted : exists c g k1 k2 q s,
  valid_cfg (set_k c k1) = true /\ valid_cfg (set_k c k2) = true /\ NoDup (map cid g)
  /\ (forall cn r, In cn g -> In r (creads cn) -> passes c r = true /\ 0 <= site r < clen cn /\ wf_rec (clen cn) r = true)
  /\ look (run_id (set_k c k1) g) q s <> look (run_id (set_k c k2) g) q s.
Proof.
  exists (cfg0 10 1 5), [{| cid := 1; clen := 1000; creads := [mk 500 510 (Some 100)] |}], 1, 100, (0, 1, 100, 110), 1.
  split; [reflexivity|split; [reflexivity|split; [repeat constructor; intros []|split]]].
  - intros cn r [<-|[]] [<-|[]]. vm_compute. intuition discriminate.
  - vm_compute. discriminate.
Qed.

(* H1 dropped (site >= contig length): counted with 3 bins per job, not with 1 *)
Lemma site_beyond_contig_refuted : exists c g k1 k2 q s,
  valid_cfg (set_k c k1) = true /\ valid_cfg (set_k c k2) = true /\ NoDup (map cid g)
  /\ (forall cn r, In cn g -> In r (creads cn) -> passes c r = true /\ near (c_mfs c) r = true /\ wf_rec (clen cn) r = true)
  /\ look (run_id (set_k c k1) g) q s <> look (run_id (set_k c k2) g) q s.
Proof.
  exists (cfg0 10 1 1000), [{| cid := 1; clen := 95; creads := [mk 85 95 (Some 105)] |}], 1, 3, (0, 1, 100, 95), 1.
  split; [reflexivity|split; [reflexivity|split; [repeat constructor; intros []|split]]].
  - intros cn r [<-|[]] [<-|[]]. vm_compute. intuition discriminate.
  - vm_compute. discriminate.
Qed.

(* H1 dropped (negative site): the record passes the filter but is counted by no job, whatever the split *)
Lemma negative_site_dropped : exists c g,
  NoDup (map cid g)
  /\ (forall cn r, In cn g -> In r (creads cn) -> passes c r = true /\ near (c_mfs c) r = true /\ wf_rec (clen cn) r = true)
  /\ decl_total c g = 1
  /\ forall k p, 0 < k -> Permutation (all_jobs (set_k c k) g) p -> total (merge_all (map (count_job (set_k c k)) p)) = 0.
Proof.
  exists (cfg0 10 1 1000), [{| cid := 1; clen := 95; creads := [mk 0 10 (Some (-2))] |}].
  split; [repeat constructor; intros []|split; [|split; [reflexivity|]]].
  - intros cn r [<-|[]] [<-|[]]. vm_compute. intuition discriminate.
  - intros k p Hk Hp.
    assert (Hv : valid_cfg (set_k (cfg0 10 1 1000) k) = true) by (apply valid_cfg_iff; cbn; lia).
    assert (Hnd : NoDup (map cid [{| cid := 1; clen := 95; creads := [mk 0 10 (Some (-2))] |}])) by (repeat constructor; intros []).
    rewrite (merged_is_concat _ _ p Hv Hnd Hp).
    rewrite total_concat. rewrite <- (zsum_perm _ _ _ Hp). apply zsum_zero.
    intros [cn [st en]] Hin. pose proof Hin as Hin'. apply in_all_jobs in Hin'. destruct Hin' as [[<-|[]] Hjb].
    apply in_jobs_contig in Hjb; [|exact Hv]. destruct Hjb as (i & Hi & -> & ->).
    rewrite total_count_job. cbn [creads]. rewrite zcount_cons. change (zcount _ []) with 0.
    pose proof (W_pos _ Hv) as HW.
    replace (sel _ _ _ _) with false; [reflexivity|]. symmetry. unfold sel. apply andb_false_iff. right.
    apply negb_false_iff. unfold g_not_owned. cbn [fst snd site r_ds mk]. nia.
Qed.

(* D15: get_binned_counts with two adjacent user regions counts one record twice *)
Lemma regions_refuted : exists fs bin regions reads b,
  fs = 1000 /\ regions = [(0, 2000); (2000, 4000)] /\ length reads = 1%nat
  /\ In (b, 2) (region_counts fs bin regions reads).
Proof.
  exists 1000, 100, [(0, 2000); (2000, 4000)], [(1500, 1503, 1500)], 1500.
  split; [reflexivity|split; [reflexivity|split; [reflexivity|]]]. vm_compute. left. reflexivity.
Qed.

(* with a single region (or pairwise distance > fs between regions) nothing is counted twice: the defect needs
   two regions whose widened windows overlap, or a site exactly on the shared edge *)
Lemma regions_edge_refuted : exists fs bin regions reads b,
  fs = 0 /\ regions = [(0, 2000); (2000, 4000)] /\ length reads = 1%nat
  /\ In (b, 2) (region_counts fs bin regions reads).
Proof.
  exists 0, 100, [(0, 2000); (2000, 4000)], [(1998, 2003, 2000)], 2000.
  split; [reflexivity|split; [reflexivity|split; [reflexivity|]]]. vm_compute. left. reflexivity.
Qed.
