(* C02 proofs, part 1: the demultiplex models produce exactly the records the positional
   specification [expected] prescribes, for EVERY well-formed layout and EVERY input. *)
From Coq Require Import ZArith List Bool Lia ZifyBool PeanoNat.
Import ListNotations.
From SCMO Require Import Lib.Val Lib.PySlice Lib.PySliceFacts Model.C02Defs.
Open Scope Z_scope.

Ltac split_andb :=
  repeat match goal with
         | H : _ && _ = true |- _ => apply andb_true_iff in H; destruct H
         end.

(* ------------------------------------------------------------------ small facts *)
Lemma enc_qs_total l r : enc_qs l = Some r -> r = map enc_total l.
Proof.
  revert r. induction l as [|c t IH]; intros r H; cbn [enc_qs] in H.
  - inversion H. reflexivity.
  - destruct (enc_q c) as [x|] eqn:Ec; [|discriminate].
    destruct (enc_qs t) as [r'|] eqn:Et; [|discriminate].
    inversion H; subst. cbn [map]. unfold enc_total at 1. rewrite Ec. f_equal. apply IH. reflexivity.
Qed.

Lemma enc_or_raise_accept l r : enc_or_raise l = Accept r -> r = map enc_total l.
Proof.
  unfold enc_or_raise. destruct (enc_qs l) as [x|] eqn:E; intros H; inversion H; subst.
  apply enc_qs_total. assumption.
Qed.

Lemma idx_or_raise_accept {A} (l : list A) i x : 0 <= i -> idx_or_raise l i = Accept x ->
  nth_error l (Z.to_nat i) = Some x.
Proof.
  intros Hi. unfold idx_or_raise. rewrite pyindex_nonneg by assumption.
  destruct (nth_error l (Z.to_nat i)); intros H; inversion H. reflexivity.
Qed.

Lemma bind_accept {A B} (o : outcome A) (f : A -> outcome B) b :
  bind o f = Accept b -> exists a, o = Accept a /\ f a = Accept b.
Proof. destruct o; cbn [bind]; intros H; try discriminate. eauto. Qed.

Lemma all_some_nth {A} (l : list (option A)) r i x :
  all_some l = Some r -> nth_error l i = Some x -> exists y, x = Some y /\ nth_error r i = Some y.
Proof.
  revert r i. induction l as [|h t IH]; intros r i Hall Hn.
  - destruct i; discriminate.
  - cbn [all_some] in Hall. destruct h as [a|]; [|discriminate].
    destruct (all_some t) as [r'|] eqn:Et; [|discriminate]. inversion Hall; subst.
    destruct i as [|i]; cbn [nth_error] in *.
    + inversion Hn; subst. eauto.
    + eapply IH; [reflexivity|eassumption].
Qed.

Lemma all_some_length {A} (l : list (option A)) r : all_some l = Some r -> length r = length l.
Proof.
  revert r. induction l as [|h t IH]; intros r H; cbn [all_some] in H.
  - inversion H. reflexivity.
  - destruct h; [|discriminate]. destruct (all_some t) eqn:E; [|discriminate].
    inversion H; subst. cbn [length]. f_equal. apply IH. reflexivity.
Qed.

Lemma cap_start_pyslice {A} sl s (l : list A) : cap_start sl = Some s -> pyslice sl l = skipn (Z.to_nat s) l.
Proof.
  unfold cap_start. destruct sl as [[a|] [b|]]; cbn [ps_start ps_stop]; try discriminate.
  - destruct (a <? 0) eqn:E; [discriminate|]. intros H; inversion H; subst.
    apply (pyslice_from s l). lia.
  - intros H; inversion H; subst. apply pyslice_all.
Qed.

Lemma cap_start_nonneg sl s : cap_start sl = Some s -> 0 <= s.
Proof.
  unfold cap_start. destruct sl as [[a|] [b|]]; cbn [ps_start ps_stop]; try discriminate.
  - destruct (a <? 0) eqn:E; [discriminate|]. intros H; inversion H; subst. lia.
  - intros H; inversion H. lia.
Qed.

Lemma range_of_pyslice {A} sl a k (l : list A) : range_of sl = Some (a, k) ->
  0 <= a /\ 0 <= k /\ pyslice sl l = sub (Z.to_nat a) (Z.to_nat k) l.
Proof.
  unfold range_of. destruct sl as [[x|] [y|]]; cbn [ps_start ps_stop]; try discriminate.
  destruct ((0 <=? x) && (x <=? y)) eqn:E; [|discriminate]. intros H; inversion H; subst.
  apply andb_true_iff in E. destruct E as [E1 E2].
  repeat split; try lia.
  replace y with (a + (y - a)) at 1 by lia. apply (pyslice_range a (y - a) l); lia.
Qed.

(* ------------------------------------------------------------------ the capture loop *)
Lemma emit_all_ext ins rid recs mk1 mk2 : (forall s q, mk1 s q = mk2 s q) ->
  emit_all ins rid recs mk1 = emit_all ins rid recs mk2.
Proof.
  intros H. revert rid. induction recs as [|r t IH]; intros rid; [reflexivity|].
  cbn [emit_all]. rewrite H, IH. reflexivity.
Qed.

Lemma emit_all_map f ins rid recs mk :
  map f (emit_all ins rid recs mk) = emit_all ins rid recs (fun s q => f (mk s q)).
Proof.
  revert rid. induction recs as [|r t IH]; intros rid; [reflexivity|].
  cbn [emit_all map]. rewrite IH. reflexivity.
Qed.

Lemma emit_all_length ins rid recs mk : length (emit_all ins rid recs mk) = length recs.
Proof. revert rid. induction recs as [|r t IH]; intros rid; [reflexivity|]. cbn [emit_all length]. rewrite IH. reflexivity. Qed.

Lemma emit_all_nth ins rid recs mk i r :
  nth_error recs i = Some r ->
  nth_error (emit_all ins rid recs mk) i
  = Some (mk (skipn (Z.to_nat (nth (rid + i) ins 0)) (fst r)) (skipn (Z.to_nat (nth (rid + i) ins 0)) (snd r))).
Proof.
  revert rid i. induction recs as [|h t IH]; intros rid i H; [destruct i; discriminate|].
  destruct i as [|i]; cbn [nth_error emit_all] in *.
  - inversion H; subst. rewrite Nat.add_0_r. reflexivity.
  - rewrite (IH (S rid) i H). replace (S rid + i)%nat with (rid + S i)%nat by lia. reflexivity.
Qed.

Lemma capture_all_spec caps ins rid recs mk out :
  all_some (map cap_start caps) = Some ins ->
  capture_all caps rid recs mk = Accept out ->
  out = emit_all ins rid recs mk.
Proof.
  intros Hall. revert rid out. induction recs as [|r t IH]; intros rid out H; cbn [capture_all] in H.
  - inversion H. reflexivity.
  - destruct (nth_error caps rid) as [sl|] eqn:En; [|discriminate].
    apply bind_accept in H. destruct H as (rest & Hrest & H). inversion H; subst. clear H.
    cbn [emit_all]. rewrite (IH _ _ Hrest).
    assert (Hm : nth_error (map cap_start caps) rid = Some (cap_start sl)) by (apply map_nth_error; assumption).
    destruct (all_some_nth _ _ _ _ Hall Hm) as (s & Hs & Hi).
    rewrite (nth_error_nth _ _ 0 Hi).
    rewrite !(cap_start_pyslice sl s) by assumption. reflexivity.
Qed.

(* ------------------------------------------------------------------ regions of one mate *)
Lemma mate_seq_nth recs m r : 0 <= m -> nth_error recs (Z.to_nat m) = Some r -> mate_seq recs m = fst r.
Proof. intros _ H. unfold mate_seq. rewrite H. reflexivity. Qed.
Lemma mate_qual_nth recs m r : 0 <= m -> nth_error recs (Z.to_nat m) = Some r -> mate_qual recs m = snd r.
Proof. intros _ H. unfold mate_qual. rewrite H. reflexivity. Qed.

Lemma cat_seq_1 recs r : cat_seq recs [r] = reg_seq recs r.
Proof. unfold cat_seq. cbn [map concat]. apply app_nil_r. Qed.
Lemma cat_qual_1 recs r : cat_qual recs [r] = reg_qual recs r.
Proof. unfold cat_qual. cbn [map concat]. apply app_nil_r. Qed.

(* ------------------------------------------------------------------ inversion of positions_c *)
Definition okm (m : Z) : Prop := 0 <= m < 2.

Lemma positions_c_inv L W P : positions_c L W = Some P ->
  exists ins primer lig,
    okm (c_bcRead L) /\ 0 <= c_bcStart L /\ 0 <= c_bcLength L /\
    (c_umiLength L = 0 \/ (okm (c_umiRead L) /\ 0 <= c_umiStart L /\ 0 < c_umiLength L)) /\
    all_some (map cap_start (c_capture L)) = Some ins /\ length ins = 2%nat /\
    (match c_rpRead L with
     | None => primer = None
     | Some r => exists sl k, c_rpSlice L = Some sl /\ range_of sl = Some (0, k) /\ okm r /\ primer = Some (r, 0, k)
     end) /\
    (match w_lig W with
     | None => lig = None
     | Some (ls, ll) => 0 <= ls /\ 0 <= ll /\ lig = Some (0, ls, ll)
     end) /\
    P = mk_playout [(c_bcRead L, c_bcStart L, c_bcLength L)]
                   (if c_umiLength L =? 0 then [] else [(c_umiRead L, c_umiStart L, c_umiLength L)])
                   primer lig ins W.
Proof.
  unfold positions_c. intros H.
  destruct (negb _) eqn:E1 in H; [discriminate|]. apply negb_false_iff in E1.
  destruct (negb _) eqn:E2 in H; [discriminate|]. apply negb_false_iff in E2.
  destruct (all_some (map cap_start (c_capture L))) as [ins|] eqn:Eins; [|discriminate].
  destruct (negb (Nat.eqb (length ins) 2)) eqn:E3; [discriminate|]. apply negb_false_iff in E3.
  apply Nat.eqb_eq in E3.
  match type of H with (match ?x with _ => _ end) = _ => destruct x as [primer|] eqn:Ep; [|discriminate] end.
  match type of H with (match ?x with _ => _ end) = _ => destruct x as [lig|] eqn:El; [|discriminate] end.
  inversion H; subst. clear H.
  exists ins, primer, lig.
  split_andb.
  split; [unfold okm; lia|]. split; [lia|]. split; [lia|].
  split.
  { apply orb_true_iff in E2. destruct E2 as [E2|E2]; [left; lia|right].
    split_andb. unfold okm. lia. }
  split; [reflexivity|]. split; [assumption|].
  split.
  { destruct (c_rpRead L) as [r|]; [|inversion Ep; reflexivity].
    destruct (c_rpSlice L) as [sl|]; [|discriminate].
    destruct (range_of sl) as [[a k]|] eqn:Er; [|discriminate].
    destruct a; try discriminate.
    destruct ((0 <=? r) && (r <? 2)) eqn:Eo; [|discriminate]. inversion Ep; subst.
    split_andb. exists sl, k. repeat split; try reflexivity; try assumption; unfold okm; lia. }
  split; [|reflexivity].
  destruct (w_lig W) as [[ls ll]|]; [|inversion El; reflexivity].
  destruct ((0 <=? ls) && (0 <=? ll)) eqn:Eo; [|discriminate]. inversion El; subst.
  split_andb. repeat split; lia.
Qed.

(* ------------------------------------------------------------------ UmiBarcodeDemuxMethod.demultiplex *)
(* what the base class computes, stated with the positions only *)
Definition base_mk (recs : list mate) (bc : list region) (umi : list region) (has_rx : bool)
           (primer : option region) (bi : Z) (BC : list Z) : list Z -> list Z -> orec :=
  fun s q =>
    mkO s q (cat_seq recs bc) BC bi
        (if has_rx then Some (cat_seq recs umi) else None)
        (if has_rx then Some (map enc_total (cat_qual recs umi)) else None)
        (option_map (reg_seq recs) primer) None None [].

Lemma contig_base_spec L W P lookup recs out :
  positions_c L W = Some P ->
  demux_contig_base L lookup recs = Accept out ->
  (length recs = 1%nat \/ length recs = 2%nat) /\
  (Exists (fun r : region => fst (fst r) = 1) (p_bc P ++ p_umi P ++ match p_primer P with Some r => [r] | None => [] end)
     -> length recs = 2%nat) /\
  exists bi BC, lookup (cat_seq recs (p_bc P)) = Some (bi, BC) /\
    out = emit_all (p_insert P) 0 recs
            (base_mk recs (p_bc P) (p_umi P) (negb (is_nil (p_umi P))) (p_primer P) bi BC).
Proof.
  intros HP H. destruct (positions_c_inv _ _ _ HP) as (ins & primer & lig & Hbm & Hbs & Hbl & Humi & Hins & Hlen & Hpr & Hlig & ->).
  unfold mk_playout. cbn [p_bc p_umi p_primer p_insert].
  unfold demux_contig_base in H.
  destruct (negb _) eqn:En in H; [discriminate|]. apply negb_false_iff in En.
  assert (Hn : length recs = 1%nat \/ length recs = 2%nat) by (apply orb_true_iff in En; lia).
  apply bind_accept in H. destruct H as (rb & Hrb & H).
  apply idx_or_raise_accept in Hrb; [|unfold okm in Hbm; lia].
  rewrite !(pyslice_range _ _ _ Hbs Hbl) in H.
  assert (Hraw : sub (Z.to_nat (c_bcStart L)) (Z.to_nat (c_bcLength L)) (fst rb)
                 = cat_seq recs [(c_bcRead L, c_bcStart L, c_bcLength L)]).
  { rewrite cat_seq_1. unfold reg_seq. rewrite (mate_seq_nth _ _ rb); [reflexivity|unfold okm in Hbm; lia|assumption]. }
  rewrite Hraw in H.
  destruct (lookup _) as [[bi BC]|] eqn:Elk; [|discriminate].
  apply bind_accept in H. destruct H as (rS & HrS & H).
  apply bind_accept in H. destruct H as (umi & Humi' & H).
  apply bind_accept in H. destruct H as (RQ & HRQ & H).
  destruct (negb (Nat.eqb (length BC) _)) in H; [discriminate|].
  apply (capture_all_spec _ _ _ _ _ _ Hins) in H.
  (* random primer *)
  assert (HrSv : rS = option_map (reg_seq recs) primer /\
                 (forall r, c_rpRead L = Some r -> r = 1 -> length recs = 2%nat)).
  { destruct (c_rpRead L) as [r|].
    - destruct Hpr as (sl & k & Hsl & Hrange & Hokr & ->).
      apply bind_accept in HrS. destruct HrS as (m & Hm & HrS). rewrite Hsl in HrS. inversion HrS; subst.
      apply idx_or_raise_accept in Hm; [|unfold okm in Hokr; lia].
      destruct (range_of_pyslice sl 0 k (fst m) Hrange) as (_ & _ & ->).
      split.
      + cbn [option_map]. unfold reg_seq. rewrite (mate_seq_nth _ _ m); [reflexivity|unfold okm in Hokr; lia|assumption].
      + intros r' Hr' ->. inversion Hr'; subst. assert (Hlt : (Z.to_nat 1 < length recs)%nat) by (apply nth_error_Some; congruence). lia.
    - subst primer. inversion HrS. split; [reflexivity|]. intros r' Hr'. discriminate. }
  destruct HrSv as [-> HrS1].
  split; [assumption|].
  (* UMI *)
  destruct (c_umiLength L =? 0) eqn:Eul.
  - inversion Humi'; subst. inversion HRQ; subst. cbn [is_nil negb option_map].
    split.
    { intros Hex. apply Exists_exists in Hex. destruct Hex as (r & Hin & Hr1).
      cbn [app] in Hin. destruct Hin as [<-|Hin].
      - cbn [fst] in Hr1. assert (Hlt : (Z.to_nat (c_bcRead L) < length recs)%nat) by (apply nth_error_Some; congruence). lia.
      - destruct primer as [[[pm pa] pk]|]; [|destruct Hin]. destruct Hin as [<-|[]]. cbn [fst] in Hr1. subst pm.
        destruct (c_rpRead L) as [r|] eqn:Er; [|discriminate].
        destruct Hpr as (sl & k & _ & _ & _ & Heq). inversion Heq; subst. eapply HrS1; reflexivity. }
    exists bi, BC. split; [reflexivity|].
    apply emit_all_ext. intros s q. reflexivity.
  - destruct Humi as [Hz|(Hum & Hus & Hul)]; [apply Z.eqb_neq in Eul; contradiction|].
    apply bind_accept in Humi'. destruct Humi' as (ru & Hru & Hu). inversion Hu; subst. clear Hu.
    apply idx_or_raise_accept in Hru; [|unfold okm in Hum; lia].
    apply bind_accept in HRQ. destruct HRQ as (rq & Hrq & HRQ). inversion HRQ; subst. clear HRQ.
    apply enc_or_raise_accept in Hrq. subst rq.
    rewrite !(pyslice_range _ _ _ Hus) by lia.
    cbn [is_nil negb option_map fst].
    split.
    { intros Hex. apply Exists_exists in Hex. destruct Hex as (r & Hin & Hr1).
      cbn [app] in Hin. destruct Hin as [<-|[<-|Hin]].
      - cbn [fst] in Hr1. assert (Hlt : (Z.to_nat (c_bcRead L) < length recs)%nat) by (apply nth_error_Some; congruence). lia.
      - cbn [fst] in Hr1. assert (Hlt : (Z.to_nat (c_umiRead L) < length recs)%nat) by (apply nth_error_Some; congruence). lia.
      - destruct primer as [[[pm pa] pk]|]; [|destruct Hin]. destruct Hin as [<-|[]]. cbn [fst] in Hr1. subst pm.
        destruct (c_rpRead L) as [r|] eqn:Er; [|discriminate].
        destruct Hpr as (sl & k & _ & _ & _ & Heq). inversion Heq; subst. eapply HrS1; reflexivity. }
    exists bi, BC. split; [reflexivity|].
    assert (Hu1 : sub (Z.to_nat (c_umiStart L)) (Z.to_nat (c_umiLength L)) (fst ru)
                  = cat_seq recs [(c_umiRead L, c_umiStart L, c_umiLength L)]).
    { rewrite cat_seq_1. unfold reg_seq. rewrite (mate_seq_nth _ _ ru); [reflexivity|unfold okm in Hum; lia|assumption]. }
    assert (Hu2 : sub (Z.to_nat (c_umiStart L)) (Z.to_nat (c_umiLength L)) (snd ru)
                  = cat_qual recs [(c_umiRead L, c_umiStart L, c_umiLength L)]).
    { rewrite cat_qual_1. unfold reg_qual. rewrite (mate_qual_nth _ _ ru); [reflexivity|unfold okm in Hum; lia|assumption]. }
    rewrite Hu1, Hu2.
    apply emit_all_ext. intros s q. reflexivity.
Qed.

(* ------------------------------------------------------------------ subclass overrides *)
Lemma wrap_spec W base recs out :
  wrap W base recs = Accept out ->
  (match w_exact W with Some k => Z.of_nat (length recs) = k | None => True end) /\
  match w_lig W with
  | None => base recs = Accept out
  | Some (ls, ll) =>
    exists r0 out0, nth_error recs 0 = Some r0 /\ base recs = Accept out0 /\
      (w_need2 W = true -> (2 <= length out0)%nat) /\
      out = map (set_lig (pyslice (slice_range ls (ls + ll)) (fst r0))
                         (map enc_total (pyslice (slice_range ls (ls + ll)) (snd r0)))) out0
  end.
Proof.
  unfold wrap. intros H.
  match type of H with (if ?c then _ else _) = _ => destruct c eqn:Ee; [discriminate|] end.
  split.
  { destruct (w_exact W) as [k|]; [|exact I]. apply negb_false_iff in Ee. lia. }
  destruct (w_lig W) as [[ls ll]|]; [|assumption].
  apply bind_accept in H. destruct H as (r0 & Hr0 & H).
  apply (idx_or_raise_accept recs 0 r0 ltac:(lia)) in Hr0. cbn [Z.to_nat] in Hr0.
  apply bind_accept in H. destruct H as (out0 & Hb & H).
  apply bind_accept in H. destruct H as (lq & Hlq & H).
  apply enc_or_raise_accept in Hlq. subst lq.
  destruct (w_need2 W && (length out0 <? 2)%nat) eqn:En; [discriminate|].
  inversion H; subst. exists r0, out0. repeat split; try assumption.
  intros Hn2. rewrite Hn2 in En. cbn [andb] in En. apply Nat.ltb_ge in En. assumption.
Qed.

(* expected, unfolded for a layout built by mk_playout *)
Lemma expected_unfold P b lookup recs bi BC :
  lookup (cat_seq recs (p_bc P)) = Some (bi, BC) ->
  expected P b lookup recs =
  Some (emit_all (p_insert P) 0 recs (fun s q =>
      let has_rx := if b then negb (is_nil (cat_seq recs (p_umi P))) else negb (is_nil (p_umi P)) in
      mkO s q (cat_seq recs (p_bc P)) BC bi
          (if has_rx then Some (cat_seq recs (p_umi P)) else None)
          (if has_rx then Some (map enc_total (cat_qual recs (p_umi P))) else None)
          (option_map (reg_seq recs) (p_primer P))
          (option_map (reg_seq recs) (p_lig P))
          (option_map (fun r => map enc_total (reg_qual recs r)) (p_lig P))
          [])).
Proof. intros H. unfold expected. rewrite H. reflexivity. Qed.

Lemma arity_mk bc umi primer lig ins W n :
  (match w_exact W with Some k => Z.of_nat n = k | None => True end) ->
  (n = 1%nat \/ n = 2%nat) ->
  (Exists (fun r : region => fst (fst r) = 1) (bc ++ umi ++ match primer with Some r => [r] | None => [] end) -> n = 2%nat) ->
  (match w_lig W with Some _ => w_need2 W = true -> (2 <= n)%nat | None => True end) ->
  p_min (mk_playout bc umi primer lig ins W) <= Z.of_nat n <= p_max (mk_playout bc umi primer lig ins W).
Proof.
  intros He Hn Hm Hl. unfold mk_playout. cbn [p_min p_max].
  destruct (w_exact W) as [k|]; [lia|].
  destruct (uses_mate1 _) eqn:Eu.
  - cbn [orb]. assert (n = 2%nat); [|lia]. apply Hm.
    unfold uses_mate1 in Eu. apply existsb_exists in Eu. destruct Eu as ([[m a] k] & Hin & Hm1).
    apply Exists_exists. exists (m, a, k). split; [assumption|]. cbn [fst]. lia.
  - cbn [orb]. destruct (w_lig W) as [x|].
    + destruct (w_need2 W); cbn [andb]; [specialize (Hl eq_refl)|]; lia.
    + rewrite andb_false_r. lia.
Qed.

Theorem contig_spec L W lookup recs out P :
  positions_c L W = Some P ->
  demux_contig L W lookup recs = Accept out ->
  expected P false lookup recs = Some out /\ p_min P <= Z.of_nat (length recs) <= p_max P.
Proof.
  intros HP H. unfold demux_contig in H. apply wrap_spec in H. destruct H as [Hex Hl].
  pose proof (positions_c_inv _ _ _ HP) as (ins & primer & lig & _ & _ & _ & _ & _ & _ & _ & Hlig & HPeq).
  destruct (w_lig W) as [[ls ll]|] eqn:El.
  - destruct Hl as (r0 & out0 & Hr0 & Hb & Hn2 & ->).
    destruct (contig_base_spec _ _ _ _ _ _ HP Hb) as (Hn & Hm1 & bi & BC & Hlk & ->).
    destruct Hlig as (Hls & Hll & ->).
    split.
    + rewrite (expected_unfold _ _ _ _ _ _ Hlk). f_equal. rewrite emit_all_map.
      apply emit_all_ext. intros s q. unfold base_mk, set_lig. cbn [o_seq o_qual o_bc o_BC o_bi o_RX o_RQ o_rS o_extra].
      rewrite HPeq. unfold mk_playout. cbn [p_bc p_umi p_primer p_lig p_insert option_map].
      rewrite !(pyslice_range _ _ _ Hls Hll).
      unfold reg_seq, reg_qual, mate_seq, mate_qual. cbn [Z.to_nat]. rewrite Hr0. reflexivity.
    + rewrite HPeq in *. apply arity_mk; [assumption|assumption|exact Hm1|].
      rewrite El. intros Hn2'. specialize (Hn2 Hn2'). rewrite emit_all_length in Hn2. assumption.
  - destruct (contig_base_spec _ _ _ _ _ _ HP Hl) as (Hn & Hm1 & bi & BC & Hlk & ->).
    subst lig. split.
    + rewrite (expected_unfold _ _ _ _ _ _ Hlk). f_equal.
      apply emit_all_ext. intros s q. unfold base_mk.
      rewrite HPeq. unfold mk_playout. cbn [p_bc p_umi p_primer p_lig p_insert option_map]. reflexivity.
    + rewrite HPeq in *. apply arity_mk; [assumption|assumption|exact Hm1|].
      rewrite El. exact I.
Qed.

(* ------------------------------------------------------------------ ScatteredUmiBarcodeDemuxMethod.demultiplex *)
Lemma reg_seq_0 recs r0 a k : nth_error recs 0 = Some r0 ->
  reg_seq recs (0, a, k) = sub (Z.to_nat a) (Z.to_nat k) (fst r0).
Proof. intros H. unfold reg_seq, mate_seq. change (Z.to_nat 0) with 0%nat. rewrite H. reflexivity. Qed.
Lemma reg_qual_0 recs r0 a k : nth_error recs 0 = Some r0 ->
  reg_qual recs (0, a, k) = sub (Z.to_nat a) (Z.to_nat k) (snd r0).
Proof. intros H. unfold reg_qual, mate_qual. change (Z.to_nat 0) with 0%nat. rewrite H. reflexivity. Qed.

Lemma apply_slices_regions recs r0 sls rs :
  nth_error recs 0 = Some r0 ->
  regions_of_slices 0 sls = Some rs ->
  apply_slices sls (fst r0) = cat_seq recs rs /\ apply_slices sls (snd r0) = cat_qual recs rs.
Proof.
  intros Hr0. unfold regions_of_slices. revert rs.
  induction sls as [|sl t IH]; intros rs H; cbn [map all_some] in H.
  - inversion H. split; reflexivity.
  - destruct (range_of sl) as [[a k]|] eqn:Er; [|discriminate].
    destruct (all_some _) as [rs'|] eqn:Et; [|discriminate]. inversion H; subst. clear H.
    destruct (IH rs' eq_refl) as [IH1 IH2].
    unfold apply_slices, cat_seq, cat_qual in *. cbn [map concat]. rewrite IH1, IH2.
    destruct (range_of_pyslice sl a k (fst r0) Er) as (_ & _ & ->).
    destruct (range_of_pyslice sl a k (snd r0) Er) as (_ & _ & ->).
    rewrite (reg_seq_0 _ _ _ _ Hr0), (reg_qual_0 _ _ _ _ Hr0). split; reflexivity.
Qed.

Lemma scatter_one recs r0 b0 rs :
  (length recs = 1%nat \/ length recs = 2%nat) ->
  nth_error recs 0 = Some r0 ->
  regions_of_slices 0 b0 = Some rs ->
  scatter_seq recs [b0; []] = cat_seq recs rs /\ scatter_qual recs [b0; []] = cat_qual recs rs.
Proof.
  intros Hn Hr0 Hrs. destruct (apply_slices_regions recs r0 b0 rs Hr0 Hrs) as [H1 H2].
  unfold scatter_seq, scatter_qual.
  destruct recs as [|x [|y [|z t]]]; cbn [length] in Hn; try lia;
    cbn [nth_error] in Hr0; inversion Hr0; subst;
    cbn [combine map concat fst snd]; unfold apply_slices at 2; cbn [map concat];
    rewrite ?app_nil_r; split; assumption.
Qed.

Lemma positions_s_inv L W P : positions_s L W = Some P ->
  exists b0 u0 rb ru ins lig,
    s_bc L = [b0; []] /\ s_umi L = [u0; []] /\ s_rpRead L = None /\
    regions_of_slices 0 b0 = Some rb /\ regions_of_slices 0 u0 = Some ru /\
    all_some (map cap_start (s_cap L)) = Some ins /\ length ins = 2%nat /\
    (match w_lig W with
     | None => lig = None
     | Some (ls, ll) => 0 <= ls /\ 0 <= ll /\ lig = Some (0, ls, ll)
     end) /\
    P = mk_playout rb ru None lig ins W.
Proof.
  unfold positions_s. intros H.
  destruct (s_bc L) as [|b0 [|b1 tb]]; try discriminate.
  destruct b1; try discriminate. destruct tb; try discriminate.
  destruct (s_umi L) as [|u0 [|u1 tu]]; try discriminate.
  destruct u1; try discriminate. destruct tu; try discriminate.
  destruct (s_rpRead L); try discriminate.
  destruct (regions_of_slices 0 b0) as [rb|] eqn:Eb; [|discriminate].
  destruct (regions_of_slices 0 u0) as [ru|] eqn:Eu; [|discriminate].
  destruct (all_some (map cap_start (s_cap L))) as [ins|] eqn:Ei; [|discriminate].
  destruct (negb (Nat.eqb (length ins) 2)) eqn:E3; [discriminate|]. apply negb_false_iff in E3.
  apply Nat.eqb_eq in E3.
  match type of H with (match ?x with _ => _ end) = _ => destruct x as [lig|] eqn:El; [|discriminate] end.
  inversion H; subst. exists b0, u0, rb, ru, ins, lig. repeat split; try reflexivity; try assumption.
  destruct (w_lig W) as [[ls ll]|]; [|inversion El; reflexivity].
  destruct ((0 <=? ls) && (0 <=? ll)) eqn:Eo; [|discriminate]. inversion El; subst.
  split_andb. repeat split; lia.
Qed.

Lemma is_nil_false_if {A} (l : list A) (x y : option (list Z)) :
  (if is_nil l then x else y) = (if negb (is_nil l) then y else x).
Proof. destruct (is_nil l); reflexivity. Qed.

Lemma scattered_base_spec L W P lookup recs out :
  positions_s L W = Some P ->
  demux_scattered_base L lookup recs = Accept out ->
  (length recs = 1%nat \/ length recs = 2%nat) /\
  exists bi BC, lookup (cat_seq recs (p_bc P)) = Some (bi, BC) /\
    out = emit_all (p_insert P) 0 recs
            (base_mk recs (p_bc P) (p_umi P) (negb (is_nil (cat_seq recs (p_umi P)))) None bi BC).
Proof.
  intros HP H.
  destruct (positions_s_inv _ _ _ HP) as (b0 & u0 & rb & ru & ins & lig & Hbc & Humi & Hrp & Hrb & Hru & Hins & Hlen & Hlig & ->).
  unfold mk_playout. cbn [p_bc p_umi p_primer p_insert].
  unfold demux_scattered_base in H.
  destruct (negb _) eqn:En in H; [discriminate|]. apply negb_false_iff in En.
  assert (Hn : length recs = 1%nat \/ length recs = 2%nat) by (apply orb_true_iff in En; lia).
  split; [assumption|].
  assert (Hr0 : exists r0, nth_error recs 0 = Some r0).
  { destruct recs as [|r0 t]; [cbn [length] in Hn; lia|]. exists r0. reflexivity. }
  destruct Hr0 as [r0 Hr0].
  rewrite Hbc, Humi, Hrp in H.
  destruct (scatter_one recs r0 b0 rb Hn Hr0 Hrb) as [Hb1 Hb2].
  destruct (scatter_one recs r0 u0 ru Hn Hr0 Hru) as [Hu1 Hu2].
  rewrite Hb1, Hu1, Hu2 in H.
  destruct (lookup _) as [[bi BC]|] eqn:Elk; [|discriminate].
  cbn [bind] in H.
  apply bind_accept in H. destruct H as (RQ & HRQ & H).
  apply (capture_all_spec _ _ _ _ _ _ Hins) in H. subst out.
  exists bi, BC. split; [reflexivity|].
  apply emit_all_ext. intros s q. unfold base_mk. cbn [option_map].
  destruct (is_nil (cat_seq recs ru)) eqn:Enil; cbn [negb].
  - inversion HRQ; subst. reflexivity.
  - apply bind_accept in HRQ. destruct HRQ as (rq & Hrq & HRQ). inversion HRQ; subst.
    apply enc_or_raise_accept in Hrq. subst rq. reflexivity.
Qed.

Theorem scattered_spec L W lookup recs out P :
  positions_s L W = Some P ->
  demux_scattered L W lookup recs = Accept out ->
  expected P true lookup recs = Some out /\ p_min P <= Z.of_nat (length recs) <= p_max P.
Proof.
  intros HP H. unfold demux_scattered in H. apply wrap_spec in H. destruct H as [Hex Hl].
  pose proof (positions_s_inv _ _ _ HP) as (b0 & u0 & rb & ru & ins & lig & _ & _ & _ & _ & _ & _ & _ & Hlig & HPeq).
  assert (Hno1 : ~ Exists (fun r : region => fst (fst r) = 1) (rb ++ ru ++ [])).
  { pose proof (positions_s_inv _ _ _ HP) as (b0' & u0' & rb' & ru' & ins' & lig' & _ & _ & _ & Hrb & Hru & _ & _ & _ & HPeq').
    assert (Heq : rb' = rb /\ ru' = ru).
    { rewrite HPeq in HPeq'. unfold mk_playout in HPeq'. inversion HPeq'. split; reflexivity. }
    destruct Heq; subst rb' ru'.
    assert (Hall : forall sls rs, regions_of_slices 0 sls = Some rs -> Forall (fun r : region => fst (fst r) = 0) rs).
    { unfold regions_of_slices. induction sls as [|sl t IH]; intros rs H; cbn [map all_some] in H.
      - inversion H. constructor.
      - destruct (range_of sl) as [[a k]|]; [|discriminate]. destruct (all_some _) eqn:Et; [|discriminate].
        inversion H; subst. constructor; [reflexivity|]. apply IH. reflexivity. }
    intros Hx. apply Exists_exists in Hx. destruct Hx as (r & Hin & Hr1).
    rewrite app_nil_r in Hin. apply in_app_or in Hin.
    pose proof (Hall _ _ Hrb) as F1. pose proof (Hall _ _ Hru) as F2.
    rewrite Forall_forall in F1, F2. destruct Hin as [Hin|Hin]; [apply F1 in Hin|apply F2 in Hin]; lia. }
  destruct (w_lig W) as [[ls ll]|] eqn:El.
  - destruct Hl as (r0 & out0 & Hr0 & Hb & Hn2 & ->).
    destruct (scattered_base_spec _ _ _ _ _ _ HP Hb) as (Hn & bi & BC & Hlk & ->).
    destruct Hlig as (Hls & Hll & ->).
    split.
    + rewrite (expected_unfold _ _ _ _ _ _ Hlk). f_equal. rewrite emit_all_map.
      apply emit_all_ext. intros s q. unfold base_mk, set_lig. cbn [o_seq o_qual o_bc o_BC o_bi o_RX o_RQ o_rS o_extra].
      rewrite HPeq. unfold mk_playout. cbn [p_bc p_umi p_primer p_lig p_insert option_map].
      rewrite !(pyslice_range _ _ _ Hls Hll).
      unfold reg_seq, reg_qual, mate_seq, mate_qual. cbn [Z.to_nat]. rewrite Hr0. reflexivity.
    + rewrite HPeq in *. apply arity_mk; [assumption|assumption|intros Hx; exfalso; exact (Hno1 Hx)|].
      rewrite El. intros Hn2'. specialize (Hn2 Hn2'). rewrite emit_all_length in Hn2. assumption.
  - destruct (scattered_base_spec _ _ _ _ _ _ HP Hl) as (Hn & bi & BC & Hlk & ->).
    subst lig. split.
    + rewrite (expected_unfold _ _ _ _ _ _ Hlk). f_equal.
      apply emit_all_ext. intros s q. unfold base_mk.
      rewrite HPeq. unfold mk_playout. cbn [p_bc p_umi p_primer p_lig p_insert option_map]. reflexivity.
    + rewrite HPeq in *. apply arity_mk; [assumption|assumption|intros Hx; exfalso; exact (Hno1 Hx)|].
      rewrite El. exact I.
Qed.

(* ------------------------------------------------------------------ restriction-bisulfite *)
Lemma emit_all_set_extra e ins rid recs mk :
  map (set_extra e) (emit_all ins rid recs mk) = emit_all ins rid recs (fun s q => set_extra e (mk s q)).
Proof. apply emit_all_map. Qed.

Theorem rb_spec L R lookup recs out P X :
  positions_rb L R = Some (P, X) ->
  demux_rb L R lookup recs = Accept out ->
  expected_rb P X lookup recs = Some out /\ length recs = 2%nat.
Proof.
  unfold positions_rb. intros HP H.
  destruct (negb _) eqn:Eok in HP; [discriminate|]. apply negb_false_iff in Eok.
  destruct (c_rpRead L) eqn:Erp; [discriminate|].
  match type of HP with (match ?x with _ => _ end) = _ => destruct x as [P'|] eqn:EP; [|discriminate] end.
  inversion HP; subst P' X. clear HP.
  destruct (positions_c_inv _ _ _ EP) as (ins & primer & lig & Hbm & Hbs & Hbl & Humi & Hins & Hlen & Hpr & Hlig & HPeq).
  cbn [c_bcRead c_bcStart c_bcLength c_umiRead c_umiStart c_umiLength c_rpRead c_rpSlice c_capture w_lig] in *.
  subst primer lig.
  split_andb.
  unfold demux_rb in H.
  destruct (negb _) eqn:En in H; [discriminate|]. apply negb_false_iff in En.
  assert (Hn : length recs = 2%nat) by lia.
  split; [|assumption].
  apply bind_accept in H. destruct H as (rb & Hrb & H).
  apply idx_or_raise_accept in Hrb; [|unfold okm in Hbm; lia].
  rewrite !(pyslice_range _ _ _ Hbs Hbl) in H.
  assert (Hraw : sub (Z.to_nat (c_bcStart L)) (Z.to_nat (c_bcLength L)) (fst rb)
                 = cat_seq recs [(c_bcRead L, c_bcStart L, c_bcLength L)]).
  { rewrite cat_seq_1. unfold reg_seq. rewrite (mate_seq_nth _ _ rb); [reflexivity|unfold okm in Hbm; lia|assumption]. }
  assert (Hrawq : sub (Z.to_nat (c_bcStart L)) (Z.to_nat (c_bcLength L)) (snd rb)
                 = reg_qual recs (c_bcRead L, c_bcStart L, c_bcLength L)).
  { unfold reg_qual. rewrite (mate_qual_nth _ _ rb); [reflexivity|unfold okm in Hbm; lia|assumption]. }
  rewrite Hraw in H.
  destruct (lookup _) as [[bi BC]|] eqn:Elk; [|discriminate].
  apply bind_accept in H. destruct H as (umi & Humi' & H).
  apply bind_accept in H. destruct H as (enz & Henz & H).
  apply bind_accept in H. destruct H as (ispcr & His & H).
  apply bind_accept in H. destruct H as (RQ & HRQ & H).
  apply bind_accept in H. destruct H as (QT & HQT & H).
  apply enc_or_raise_accept in HQT. rewrite Hrawq in HQT.
  destruct (negb (Nat.eqb (length BC) _)) in H; [discriminate|].
  destruct enz as [[es eqraw]|]; [|discriminate].
  apply bind_accept in H. destruct H as (eq_ & Heq & H).
  apply enc_or_raise_accept in Heq.
  destruct ispcr as [is_|]; [|discriminate].
  apply (capture_all_spec _ _ _ _ _ _ Hins) in H.
  (* enzyme, ISPCR *)
  assert (Eel : (rb_enzLength R =? 0) = false) by lia. rewrite Eel in Henz.
  apply bind_accept in Henz. destruct Henz as (re & Hre & Henz). inversion Henz; subst es eqraw. clear Henz.
  apply idx_or_raise_accept in Hre; [|lia].
  assert (Eil : (rb_isLength R =? 0) = false) by lia. rewrite Eil in His.
  apply bind_accept in His. destruct His as (ri & Hri & His). inversion His; subst is_. clear His.
  apply idx_or_raise_accept in Hri; [|lia].
  rewrite !(pyslice_range _ _ (fst re)) in H by lia.
  rewrite !(pyslice_range _ _ (snd re)) in Heq by lia.
  rewrite !(pyslice_range _ _ (fst ri)) in H by lia.
  assert (He1 : sub (Z.to_nat (rb_enzStart R)) (Z.to_nat (rb_enzLength R)) (fst re)
                = reg_seq recs (rb_enzRead R, rb_enzStart R, rb_enzLength R)).
  { unfold reg_seq. rewrite (mate_seq_nth _ _ re); [reflexivity|lia|assumption]. }
  assert (He2 : sub (Z.to_nat (rb_enzStart R)) (Z.to_nat (rb_enzLength R)) (snd re)
                = reg_qual recs (rb_enzRead R, rb_enzStart R, rb_enzLength R)).
  { unfold reg_qual. rewrite (mate_qual_nth _ _ re); [reflexivity|lia|assumption]. }
  assert (Hi1 : sub (Z.to_nat (rb_isStart R)) (Z.to_nat (rb_isLength R)) (fst ri)
                = reg_seq recs (rb_isRead R, rb_isStart R, rb_isLength R)).
  { unfold reg_seq. rewrite (mate_seq_nth _ _ ri); [reflexivity|lia|assumption]. }
  rewrite He1, Hi1 in H. rewrite He2 in Heq. subst QT eq_.
  unfold expected_rb.
  assert (Hlk : lookup (cat_seq recs (p_bc P)) = Some (bi, BC)).
  { rewrite HPeq. unfold mk_playout. cbn [p_bc]. assumption. }
  rewrite (expected_unfold _ _ _ _ _ _ Hlk). f_equal. rewrite emit_all_set_extra. subst out.
  rewrite HPeq. unfold mk_playout. cbn [p_bc p_umi p_primer p_lig p_insert option_map].
  unfold extra_value, set_extra. cbn [map fst snd Z.eqb Pos.eqb orb o_seq o_qual o_bc o_BC o_bi o_RX o_RQ o_rS o_lh o_lq].
  (* UMI *)
  destruct (c_umiLength L =? 0) eqn:Eul.
  - inversion Humi'; subst. inversion HRQ; subst. cbn [is_nil negb option_map].
    apply emit_all_ext. intros s q. reflexivity.
  - destruct Humi as [Hz|(Hum & Hus & Hul)]; [lia|].
    apply bind_accept in Humi'. destruct Humi' as (ru & Hru & Hu). inversion Hu; subst. clear Hu.
    apply idx_or_raise_accept in Hru; [|unfold okm in Hum; lia].
    apply bind_accept in HRQ. destruct HRQ as (rq & Hrq & HRQ). inversion HRQ; subst. clear HRQ.
    apply enc_or_raise_accept in Hrq. subst rq.
    rewrite !(pyslice_range _ _ _ Hus) by lia.
    cbn [is_nil negb option_map fst].
    assert (Hu1 : sub (Z.to_nat (c_umiStart L)) (Z.to_nat (c_umiLength L)) (fst ru)
                  = cat_seq recs [(c_umiRead L, c_umiStart L, c_umiLength L)]).
    { rewrite cat_seq_1. unfold reg_seq. rewrite (mate_seq_nth _ _ ru); [reflexivity|unfold okm in Hum; lia|assumption]. }
    assert (Hu2 : sub (Z.to_nat (c_umiStart L)) (Z.to_nat (c_umiLength L)) (snd ru)
                  = cat_qual recs [(c_umiRead L, c_umiStart L, c_umiLength L)]).
    { rewrite cat_qual_1. unfold reg_qual. rewrite (mate_qual_nth _ _ ru); [reflexivity|unfold okm in Hum; lia|assumption]. }
    rewrite Hu1, Hu2.
    apply emit_all_ext. intros s q. reflexivity.
Qed.
