(* C15 proofs, part e: a unanimous column of better-than-even observations is called as observed. *)
From Coq Require Import ZArith List Bool Lia QArith Permutation.
Import ListNotations.
From SCMO Require Import Lib.Val Lib.PyInt Model.C15 Proofs.C15_c Proofs.C15_d.
Open Scope Z_scope.

Lemma half_lt p : (1 # 2 < p)%Q -> (1 - p < p)%Q.
Proof.
  destruct p as [n d]. unfold Qlt, Qminus, Qplus, Qopp. cbn [Qnum Qden]. intros H.
  rewrite ?Pos.mul_1_l, ?Pos.mul_1_r, ?Z.mul_1_l, ?Z.mul_1_r in *. nia.
Qed.
Lemma one_minus_nonneg p : (p < 1)%Q -> (0 <= 1 - p)%Q.
Proof.
  destruct p as [n d]. unfold Qlt, Qle, Qminus, Qplus, Qopp. cbn [Qnum Qden]. intros H.
  rewrite ?Pos.mul_1_l, ?Pos.mul_1_r, ?Z.mul_1_l, ?Z.mul_1_r in *. nia.
Qed.

Lemma qprodr_nonneg v : Forall (fun p => 0 <= p)%Q v -> (0 <= qprodr v)%Q.
Proof.
  induction v as [|p v IH]; intros H; cbn [qprodr fold_right]; [discriminate|].
  inversion H; subst. fold (qprodr v). apply Qmult_le_0_compat; auto.
Qed.

Lemma Forall2_left_nonneg (a b : list Q) :
  Forall2 (fun x y => 0 <= x /\ x < y)%Q a b -> Forall (fun p => 0 <= p)%Q a.
Proof. induction 1 as [|x y a b [H _] _ IH]; constructor; assumption. Qed.

(* strict monotonicity of a non-empty product: 0 <= a_i < b_i pointwise *)
Lemma qprodr_lt : forall (a b : list Q), a <> [] ->
  Forall2 (fun x y => 0 <= x /\ x < y)%Q a b -> (qprodr a < qprodr b)%Q.
Proof.
  induction a as [|x a IH]; intros b Hne H; [congruence|].
  inversion H as [|? y ? b' [Hx Hxy] Hab]; subst. cbn [qprodr fold_right]. fold (qprodr a) (qprodr b').
  destruct a as [|x' a'].
  - inversion Hab; subst. cbn [qprodr fold_right]. now rewrite !Qmult_1_r.
  - assert (Hlt : (qprodr (x' :: a') < qprodr b')%Q) by (apply IH; [discriminate|assumption]).
    assert (Hnn : (0 <= qprodr (x' :: a'))%Q).
    { apply qprodr_nonneg. eapply Forall2_left_nonneg. eassumption. }
    apply Qle_lt_trans with (y := (y * qprodr (x' :: a'))%Q).
    + apply Qmult_le_compat_r; [apply Qlt_le_weak; assumption|assumption].
    + apply Qmult_lt_l; [exact (Qle_lt_trans _ _ _ Hx Hxy)|exact Hlt].
Qed.

Lemma Forall2_len {A B} (R : A -> B -> Prop) a b : Forall2 R a b -> length a = length b.
Proof. induction 1; cbn; congruence. Qed.

Lemma lik_lt (a b : list Q) : a <> [] ->
  Forall2 (fun x y => 0 <= x /\ x < y)%Q a b -> (lik a < lik b)%Q.
Proof.
  intros Hne H. unfold lik, qprod. rewrite !qprod_acc, !Qmult_1_l.
  rewrite (Forall2_len _ _ _ H). apply Qmult_lt_compat_r; [apply scale4_pos|now apply qprodr_lt].
Qed.

Lemma call_unanimous pc : (forall q, (0 <= pc q /\ pc q < 1)%Q) -> forall os b,
  os <> [] -> b <> baseN ->
  Forall (fun o => fst o = b /\ (1 # 2 < pc (snd o))%Q) os ->
  fst (call pc os) = b.
Proof.
  intros Hpc os b Hne HbN Hall.
  assert (Hkeys : forall k, is_key os k -> k = baseN \/ k = b).
  { intros k [->|(q & Hin)]; [now left|]. right. rewrite Forall_forall in Hall.
    destruct (Hall _ Hin) as [E _]. exact E. }
  assert (Hkb : is_key os b).
  { right. destruct os as [|[k q] os']; [congruence|]. inversion Hall as [|? ? [E _] _]; subst.
    cbn [fst] in *. exists q. now left. }
  assert (HL : (L pc os baseN < L pc os b)%Q).
  { unfold L. rewrite Z.eqb_refl. destruct (b =? baseN) eqn:E; [apply Z.eqb_eq in E; contradiction|].
    assert (Hq : quals_of b os = map snd os).
    { unfold quals_of. f_equal. clear -Hall. induction Hall as [|o os [E _] _ IH]; cbn [filter]; [reflexivity|].
      rewrite E, Z.eqb_refl. now rewrite IH. }
    assert (Hn : nonN os = os).
    { unfold nonN. clear -Hall HbN. induction Hall as [|o os [E _] _ IH]; cbn [filter]; [reflexivity|].
      rewrite E. destruct (b =? baseN) eqn:E'; [apply Z.eqb_eq in E'; contradiction|]. cbn [negb]. now rewrite IH. }
    rewrite Hq, Hn, map_map. apply lik_lt.
    - destruct os; [congruence|discriminate].
    - clear -Hall Hpc. induction Hall as [|o os [_ Hp] _ IH]; cbn [map]; constructor; [|exact IH].
      unfold om. destruct (Hpc (snd o)) as [H0 H1]. split; [now apply one_minus_nonneg|now apply half_lt]. }
  destruct (call_decl pc Hpc os) as [[Hk Hmax]|[_ (k1 & k2 & Hne12 & Hk1 & Hk2 & Heq & Hmax)]].
  - destruct (Hkeys _ Hk) as [E|E]; [|exact E]. exfalso.
    specialize (Hmax b Hkb). rewrite E in Hmax. specialize (Hmax HbN).
    apply (Qlt_irrefl (L pc os b)). eapply Qlt_trans; eassumption.
  - exfalso. destruct (Hkeys _ Hk1) as [E1|E1], (Hkeys _ Hk2) as [E2|E2]; subst; try congruence.
    + rewrite Heq in HL. now apply Qlt_irrefl in HL.
    + rewrite Heq in HL. now apply Qlt_irrefl in HL.
Qed.
