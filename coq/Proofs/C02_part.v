(* C02 - the partition statement: every base position of a mate is in EXACTLY one tag region or emitted *)
From Coq Require Import ZArith List Bool Lia.
Import ListNotations.
From SCMO Require Import Model.C02Defs Model.C02Protocols Proofs.C02_b.
Open Scope Z_scope.

Fixpoint all_disjoint (l : list region) : bool :=
  match l with
  | [] => true
  | r :: t => negb (existsb (overlap r) t) && all_disjoint t
  end.

(* every tag region ends at or before the start of the emitted stretch of its mate *)
Definition tags_before_insert (P : playout) : bool :=
  forallb (fun r : region => let '(m, a, k) := r in a + k <=? nth (Z.to_nat m) (p_insert P) 0) (tag_regions P).

Definition partition_ok (P : playout) : bool := all_disjoint (tag_regions P) && tags_before_insert P.

Lemma in_both_overlap m p r1 r2 : in_region m p r1 = true -> in_region m p r2 = true -> overlap r1 r2 = true.
Proof.
  destruct r1 as [[m1 a1] k1], r2 as [[m2 a2] k2]. unfold in_region, overlap. intros H1 H2.
  apply andb_true_iff in H1 as [H1 H1c]. apply andb_true_iff in H1 as [H1a H1b].
  apply andb_true_iff in H2 as [H2 H2c]. apply andb_true_iff in H2 as [H2a H2b].
  apply Z.eqb_eq in H1a, H2a. apply Z.leb_le in H1b, H2b. apply Z.ltb_lt in H1c, H2c.
  apply andb_true_iff. split; [apply andb_true_iff; split|].
  - apply Z.eqb_eq. lia.
  - apply Z.ltb_lt. lia.
  - apply Z.ltb_lt. lia.
Qed.

Lemma existsb_overlap_false r t r2 m p :
  existsb (overlap r) t = false -> In r2 t -> in_region m p r = true -> in_region m p r2 = true -> False.
Proof.
  intros He Hin H1 H2. pose proof (in_both_overlap _ _ _ _ H1 H2) as Ho.
  assert (existsb (overlap r) t = true) by (apply existsb_exists; eauto). congruence.
Qed.

(* no base in two tags: two regions (by index) containing the same position are the same region *)
Lemma disjoint_unique l : all_disjoint l = true -> forall i j r1 r2 m p,
  nth_error l i = Some r1 -> nth_error l j = Some r2 ->
  in_region m p r1 = true -> in_region m p r2 = true -> i = j.
Proof.
  induction l as [|r t IH]; intros Hd i j r1 r2 m p Hi Hj H1 H2.
  - destruct i; discriminate.
  - cbn [all_disjoint] in Hd. apply andb_true_iff in Hd as [Hn Hd]. apply negb_true_iff in Hn.
    destruct i as [|i], j as [|j]; cbn [nth_error] in Hi, Hj.
    + reflexivity.
    + inversion Hi; subst. exfalso. eapply existsb_overlap_false; eauto using nth_error_In.
    + inversion Hj; subst. exfalso. eapply (existsb_overlap_false r2 t r1); eauto using nth_error_In.
    + f_equal. eapply IH; eauto.
Qed.

(* no base both in a tag and emitted *)
Lemma tag_not_emitted P m p r :
  tags_before_insert P = true -> In r (tag_regions P) -> in_region m p r = true ->
  p < nth (Z.to_nat m) (p_insert P) 0.
Proof.
  intros Ht Hin Hr. unfold tags_before_insert in Ht. rewrite forallb_forall in Ht. specialize (Ht r Hin).
  destruct r as [[rm a] k]. unfold in_region in Hr.
  apply andb_true_iff in Hr as [Hr Hc]. apply andb_true_iff in Hr as [Ha Hb].
  apply Z.eqb_eq in Ha. subst rm. apply Z.leb_le in Ht. apply Z.ltb_lt in Hc. lia.
Qed.

(* the partition: for a layout passing the check, every position of mate i (i < 2) of an accepted input is
   EITHER emitted (at or after the insert start, and then in no tag region) OR in a tag region (then before
   the insert start, hence not emitted, and in no other tag region) *)
Lemma partition P b lookup recs out i r o p :
  wf_p P = true -> partition_ok P = true -> (i < 2)%nat ->
  expected P b lookup recs = Some out -> nth_error recs i = Some r -> nth_error out i = Some o ->
  (p < length (fst r))%nat ->
  ((exists n reg, nth_error (tag_regions P) n = Some reg /\ in_region (Z.of_nat i) (Z.of_nat p) reg = true /\
      (p < ins_of P i)%nat /\
      forall n' reg', nth_error (tag_regions P) n' = Some reg' -> in_region (Z.of_nat i) (Z.of_nat p) reg' = true -> n' = n)
   \/
   ((ins_of P i <= p)%nat /\ nth_error (o_seq o) (p - ins_of P i) = nth_error (fst r) p /\
      forall reg, In reg (tag_regions P) -> in_region (Z.of_nat i) (Z.of_nat p) reg = false)).
Proof.
  intros Hwf Hp Hi He Hr Ho Hlen. unfold partition_ok in Hp. apply andb_true_iff in Hp as [Hd Ht].
  assert (Hins : forall reg, In reg (tag_regions P) -> in_region (Z.of_nat i) (Z.of_nat p) reg = true -> (p < ins_of P i)%nat).
  { intros reg Hin Hreg. pose proof (tag_not_emitted _ _ _ _ Ht Hin Hreg) as Hlt.
    rewrite Nat2Z.id in Hlt. unfold ins_of. lia. }
  destruct (accounted _ _ _ _ _ _ _ _ _ Hwf Hi He Hr Ho Hlen) as [(reg & Hin & Hreg) | (Hge & Hnth)].
  - left. destruct (In_nth_error _ _ Hin) as (n & Hn). exists n, reg. split; [exact Hn|]. split; [exact Hreg|]. split; [exact (Hins reg Hin Hreg)|].
    intros n' reg' Hn' Hreg'. eapply disjoint_unique; eauto.
  - right. split; [exact Hge|]. split; [exact Hnth|]. intros reg Hin. destruct (in_region (Z.of_nat i) (Z.of_nat p) reg) eqn:E; auto.
    apply Hins in E; auto. lia.
Qed.

(* ---- the pinned table ---- *)
Definition single_protocols : list protocol :=
  filter (fun p => (pr_kind p =? 1) || (pr_kind p =? 2)) protocols.
Definition partition_names (ok : bool) : list sname :=
  map pr_name (filter (fun p => Bool.eqb (partition_ok (pr_layout p)) ok) single_protocols).
Definition only_lig_offends (P : playout) : bool :=
  partition_ok (mkP (p_bc P) (p_umi P) (p_primer P) None (p_insert P) (p_min P) (p_max P)).

Open Scope sname_scope.
(* strategies whose pinned layout does NOT satisfy exclusivity (see the _refuted lemmas) *)
Definition partition_exceptions : list sname :=
  ["scCHIC384C8U3"; "scCHIC384C8U3l"; "scCHIC384C8U3se"; "DamID2"; "DamID2_3u4b3u6b"; "DamID2_8bp_noCA"].
Definition lig_only_exceptions : list sname :=
  ["scCHIC384C8U3"; "scCHIC384C8U3l"; "scCHIC384C8U3se"; "DamID2_3u4b3u6b"].

Lemma partition_table :
  length single_protocols = 21%nat /\
  forallb (fun p => wf_p (pr_layout p) &&
                    (partition_ok (pr_layout p) || existsb (sname_eqb (pr_name p)) partition_exceptions))
          single_protocols = true /\
  length (partition_names true) = 15%nat /\ partition_names false = partition_exceptions.
Proof. vm_compute. repeat split. Qed.

Lemma partition_registered p :
  In p single_protocols -> existsb (sname_eqb (pr_name p)) partition_exceptions = false ->
  wf_p (pr_layout p) = true /\ partition_ok (pr_layout p) = true.
Proof.
  intros Hin Hex. destruct partition_table as (_ & H & _). rewrite forallb_forall in H. specialize (H p Hin).
  apply andb_true_iff in H as [Hw Hp]. rewrite Hex, orb_false_r in Hp. auto.
Qed.

(* in four of the six exceptions only the ligation-motif region offends: it is recorded (lh / lq) AND its last
   base(s) stay in the emitted insert; barcode, UMI and primer regions still partition with the insert *)
Lemma partition_lig_only p :
  In p single_protocols -> existsb (sname_eqb (pr_name p)) lig_only_exceptions = true ->
  only_lig_offends (pr_layout p) = true.
Proof.
  intros Hin Hex.
  assert (H : forallb (fun p => negb (existsb (sname_eqb (pr_name p)) lig_only_exceptions) || only_lig_offends (pr_layout p))
                      single_protocols = true) by (vm_compute; reflexivity).
  rewrite forallb_forall in H. specialize (H p Hin). rewrite Hex in H. exact H.
Qed.

(* exclusivity refuted as coded, ligation motif: scCHIC384C8U3 records read-1 positions 11..12 as lh and emits from 12 *)
Lemma partition_lig_refuted :
  exists p reg pos, In p single_protocols /\ p_lig (pr_layout p) = Some reg /\
    in_region 0 pos reg = true /\ nth 0 (p_insert (pr_layout p)) 0 <= pos.
Proof.
  exists (Pr "scCHIC384C8U3" 1 [(0, 3, 8)] [(0, 0, 3)] (Some (1, 0, 6)) (Some (0, 11, 2)) [12; 6] (2, 2) []), (0, 11, 2), 12.
  vm_compute. repeat split; try discriminate. tauto.
Qed.

(* exclusivity refuted as coded, BARCODE base: DamID2_8bp_noCA takes the barcode from read-1 positions 3..10 and
   emits from position 10: base 10 is both the last barcode base and the first emitted base *)
Lemma partition_barcode_refuted :
  exists p reg pos, In p single_protocols /\ In reg (p_bc (pr_layout p)) /\
    in_region 0 pos reg = true /\ nth 0 (p_insert (pr_layout p)) 0 <= pos.
Proof.
  exists (Pr "DamID2_8bp_noCA" 1 [(0, 3, 8)] [(0, 0, 3)] None (Some (0, 11, 2)) [10; 0] (1, 2) []), (0, 3, 8), 10.
  vm_compute. repeat split; try discriminate; tauto.
Qed.

(* a base in two tags: DamID2 barcode read-1 3..12 and ligation motif 11..12 share positions 11 and 12 *)
Lemma partition_two_tags_refuted :
  exists p r1 r2 pos, In p single_protocols /\ In r1 (p_bc (pr_layout p)) /\ p_lig (pr_layout p) = Some r2 /\
    in_region 0 pos r1 = true /\ in_region 0 pos r2 = true.
Proof.
  exists (Pr "DamID2" 1 [(0, 3, 10)] [(0, 0, 3)] None (Some (0, 11, 2)) [12; 0] (1, 2) []), (0, 3, 10), (0, 11, 2), 11.
  vm_compute. repeat split; tauto.
Qed.
