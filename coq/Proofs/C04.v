(* C04 proofs, part 1: python string primitives, dictionaries, quality codec, fqSafe (for every kept class) *)
From Coq Require Import ZArith List Bool Lia.
Import ListNotations.
From SCMO Require Import Lib.Val Gen.GenCodec Model.C04.
Open Scope Z_scope.

(* ------------------------------------------------------------------ facts about the regenerated constants.
   Each is a closed computation; a change of the source that falsifies one makes this file fail. *)
(* the regenerated tables satisfy the well-formedness predicates of Model/C04x.v (codec, header forms against the name
   format, limit against the BAM capacity) *)
Lemma gen_tables_wf : wf_tables = true.
Proof. vm_compute. reflexivity. Qed.
Lemma gen_wf_codec : wf_codec C0 = true.
Proof. vm_compute. reflexivity. Qed.
Lemma gen_enc_bounds : (0 <=? enc_lo) && (enc_lo <=? enc_hi) && (enc_hi <? len enc_table) = true.
Proof. vm_compute. reflexivity. Qed.
Lemma gen_dec_same : dec_table = enc_table /\ dec_off = enc_off.
Proof. split; reflexivity. Qed.
Lemma gen_sat_bounds : enc_lo + enc_off = 33 /\ enc_hi + enc_off = 84.
Proof. split; reflexivity. Qed.
Lemma gen_limit : header_limit <= 254.
Proof. vm_compute. discriminate. Qed.
(* the demultiplexer and the tagger agree on which tags hold encoded qualities, and every written tag is defined *)
Lemma gen_written_tags :
  forallb is_phred encoded_tags && forallb (fun k => negb (is_phred k)) plain_tags
  && forallb (fun k => match tagdef k with Some _ => true | None => false end) (encoded_tags ++ plain_tags) = true.
Proof. vm_compute. reflexivity. Qed.
Lemma gen_name_sep : name_sep = 58.
Proof. reflexivity. Qed.

(* ------------------------------------------------------------------ generic list facts *)
Lemma str_eqb_refl : forall a, str_eqb a a = true.
Proof. induction a as [|x a IH]; cbn; [reflexivity|]. rewrite Z.eqb_refl, IH. reflexivity. Qed.

Lemma str_eqb_eq : forall a b, str_eqb a b = true <-> a = b.
Proof.
  induction a as [|x a IH]; destruct b as [|y b]; cbn; split; intro H; try reflexivity; try discriminate.
  - apply andb_true_iff in H. destruct H as [H1 H2]. apply Z.eqb_eq in H1. apply IH in H2. subst. reflexivity.
  - inversion H; subst. rewrite Z.eqb_refl. cbn. apply IH. reflexivity.
Qed.

Lemma str_eqb_neq : forall a b, str_eqb a b = false <-> a <> b.
Proof.
  intros a b. split.
  - intros H E. subst. rewrite str_eqb_refl in H. discriminate.
  - intros H. destruct (str_eqb a b) eqn:E; [|reflexivity]. apply str_eqb_eq in E. contradiction.
Qed.

Lemma str_eqb_sym : forall a b, str_eqb a b = str_eqb b a.
Proof.
  intros a b. destruct (str_eqb a b) eqn:E.
  - apply str_eqb_eq in E. subst. symmetry. apply str_eqb_refl.
  - symmetry. apply str_eqb_neq. apply str_eqb_neq in E. congruence.
Qed.

Lemma len_nonneg : forall A (l : list A), 0 <= len l.
Proof. intros. unfold len. lia. Qed.

Lemma len_app : forall A (a b : list A), len (a ++ b) = len a + len b.
Proof. intros. unfold len. rewrite app_length. lia. Qed.

Lemma len_cons : forall A (x : A) l, len (x :: l) = 1 + len l.
Proof. intros. unfold len. cbn [length]. lia. Qed.

(* ------------------------------------------------------------------ split / join *)
Lemma split_cons : forall sep c r,
  split sep (c :: r) = if c =? sep then [] :: split sep r
                       else match split sep r with h :: t => (c :: h) :: t | [] => [[c]] end.
Proof. reflexivity. Qed.

Lemma split_nosep : forall sep p, ~ In sep p -> split sep p = [p].
Proof.
  intros sep p. induction p as [|c p IH]; intro H; [reflexivity|].
  rewrite split_cons. destruct (c =? sep) eqn:E.
  - apply Z.eqb_eq in E. subst. exfalso. apply H. left. reflexivity.
  - rewrite IH; [reflexivity|]. intro HI. apply H. right. exact HI.
Qed.

Lemma split_app_sep : forall sep p s, ~ In sep p -> split sep (p ++ sep :: s) = p :: split sep s.
Proof.
  intros sep p s. induction p as [|c p IH]; intro H.
  - cbn [app]. rewrite split_cons, Z.eqb_refl. reflexivity.
  - cbn [app]. rewrite split_cons. destruct (c =? sep) eqn:E.
    + apply Z.eqb_eq in E. subst. exfalso. apply H. left. reflexivity.
    + rewrite IH; [reflexivity|]. intro HI. apply H. right. exact HI.
Qed.

Lemma join_cons2 : forall sep p q r, join sep (p :: q :: r) = p ++ sep :: join sep (q :: r).
Proof. reflexivity. Qed.

(* split is a left inverse of join on non-empty lists of separator-free pieces *)
Lemma split_join : forall sep parts, parts <> [] -> Forall (fun p => ~ In sep p) parts ->
  split sep (join sep parts) = parts.
Proof.
  intros sep parts. induction parts as [|p r IH]; intros Hne HF; [contradiction|].
  inversion HF as [|? ? Hp Hr]; subst. destruct r as [|q r].
  - cbn [join]. apply split_nosep. exact Hp.
  - rewrite join_cons2, split_app_sep by exact Hp. f_equal. apply IH; [discriminate|exact Hr].
Qed.

Lemma join_In : forall sep parts c, In c (join sep parts) -> c = sep \/ exists p, In p parts /\ In c p.
Proof.
  intros sep parts. induction parts as [|p r IH]; intros c H; [contradiction|].
  destruct r as [|q r].
  - cbn [join] in H. right. exists p. split; [left; reflexivity|exact H].
  - rewrite join_cons2 in H. apply in_app_or in H. destruct H as [H|[H|H]].
    + right. exists p. split; [left; reflexivity|exact H].
    + left. symmetry. exact H.
    + destruct (IH c H) as [E|[p' [Hp Hc]]]; [left; exact E|]. right. exists p'. split; [right; exact Hp|exact Hc].
Qed.

(* ------------------------------------------------------------------ split at a set of characters *)
Lemma split_any_cons : forall seps c r,
  split_any seps (c :: r) = if in_chars seps c then [] :: split_any seps r
                         else match split_any seps r with h :: t => (c :: h) :: t | [] => [[c]] end.
Proof. reflexivity. Qed.

Lemma split_any_nonempty : forall seps s, split_any seps s <> [].
Proof.
  intros seps s. destruct s as [|c r]; [discriminate|]. rewrite split_any_cons.
  destruct (in_chars seps c); [discriminate|]. destruct (split_any seps r); discriminate.
Qed.

Lemma split_any_nosep : forall seps p, (forall c, In c p -> in_chars seps c = false) -> split_any seps p = [p].
Proof.
  intros seps p. induction p as [|c p IH]; intro H; [reflexivity|].
  rewrite split_any_cons, (H c (or_introl eq_refl)). rewrite IH; [reflexivity|].
  intros x Hx. apply H. right. exact Hx.
Qed.

Lemma split_any_app_sep : forall seps p x s, (forall c, In c p -> in_chars seps c = false) -> in_chars seps x = true ->
  split_any seps (p ++ x :: s) = p :: split_any seps s.
Proof.
  intros seps p x s. induction p as [|c p IH]; intros H Hx.
  - cbn [app]. rewrite split_any_cons, Hx. reflexivity.
  - cbn [app]. rewrite split_any_cons, (H c (or_introl eq_refl)). rewrite IH; [reflexivity| |exact Hx].
    intros y Hy. apply H. right. exact Hy.
Qed.

(* the number of pieces is one more than the number of separator characters *)
Definition count_in (seps : list Z) (s : str) : Z := len (filter (in_chars seps) s).

Lemma count_in_cons : forall seps c s, count_in seps (c :: s) = (if in_chars seps c then 1 else 0) + count_in seps s.
Proof. intros. unfold count_in. cbn [filter]. destruct (in_chars seps c); [rewrite len_cons|]; lia. Qed.

Lemma split_any_len : forall seps s, len (split_any seps s) = 1 + count_in seps s.
Proof.
  intros seps s. induction s as [|c s IH]; [reflexivity|].
  rewrite split_any_cons, count_in_cons. destruct (in_chars seps c).
  - unfold len in *. cbn [length]. lia.
  - pose proof (split_any_nonempty seps s) as NE. destruct (split_any seps s) as [|h t]; [contradiction|].
    unfold len in *. cbn [length] in *. lia.
Qed.

(* split on one character is split at the singleton set *)
Lemma split_any_single : forall sep s, split_any [sep] s = split sep s.
Proof.
  intros sep s. induction s as [|c s IH]; [reflexivity|]. rewrite split_any_cons, split_cons.
  unfold in_chars. cbn [existsb]. rewrite orb_false_r, IH. reflexivity.
Qed.

(* pieces glued with separators, and split again *)
Fixpoint glue (ps : list str) (ss : list Z) : str :=
  match ps, ss with
  | p :: (_ :: _) as r, x :: ss' => p ++ x :: glue r ss'
  | p :: _, _ => p
  | [], _ => []
  end.

Lemma glue_cons2 : forall p q r x ss, glue (p :: q :: r) (x :: ss) = p ++ x :: glue (q :: r) ss.
Proof. reflexivity. Qed.

Lemma split_any_glue : forall seps ps ss, ps <> [] -> S (length ss) = length ps ->
  Forall (fun p => forall c, In c p -> in_chars seps c = false) ps -> Forall (fun x => in_chars seps x = true) ss ->
  split_any seps (glue ps ss) = ps.
Proof.
  intros seps ps. induction ps as [|p r IH]; intros ss Hne Hl HP HS; [contradiction|].
  inversion HP as [|? ? Hp Hr]; subst. destruct r as [|q r].
  - destruct ss; [|cbn in Hl; discriminate]. cbn [glue]. apply split_any_nosep. exact Hp.
  - destruct ss as [|x ss]; [cbn in Hl; discriminate|]. inversion HS as [|? ? Hx Hss]; subst.
    rewrite glue_cons2, split_any_app_sep by assumption. f_equal.
    apply IH; [discriminate|cbn in Hl |- *; congruence|exact Hr|exact Hss].
Qed.

(* ------------------------------------------------------------------ s.replace(p, '') *)
(* a string in which [p] does not occur is left alone *)
Fixpoint occurs (p s : str) : bool :=
  match s with
  | [] => false
  | _ :: r => starts_with p s || occurs p r
  end.

Lemma remove_sub_aux_noocc : forall p s, occurs p s = false -> remove_sub_aux p O s = s.
Proof.
  intros p s. induction s as [|c s IH]; intro H; [reflexivity|].
  cbn [occurs] in H. apply orb_false_iff in H. destruct H as [H1 H2].
  cbn [remove_sub_aux]. rewrite H1, IH by exact H2. reflexivity.
Qed.

Lemma remove_sub_noocc : forall p s, occurs p s = false -> remove_sub p s = s.
Proof. intros p s H. unfold remove_sub. destruct p; [reflexivity|]. apply remove_sub_aux_noocc. exact H. Qed.

Lemma remove_sub_nil : forall s, remove_sub [] s = s.
Proof. reflexivity. Qed.

(* ------------------------------------------------------------------ strip, for every whitespace set *)
Section Strip.
  Variable sp : list Z.

  Lemma lstrip_g_nospace : forall s, Forall (fun c => in_chars sp c = false) s -> lstrip_g sp s = s.
  Proof. intros s H. destruct s as [|c r]; [reflexivity|]. inversion H; subst. cbn [lstrip_g]. rewrite H2. reflexivity. Qed.

  Lemma strip_g_nospace : forall s, Forall (fun c => in_chars sp c = false) s -> strip_g sp s = s.
  Proof.
    intros s H. unfold strip_g, rstrip_g. rewrite (lstrip_g_nospace s H).
    rewrite lstrip_g_nospace; [apply rev_involutive|].
    apply Forall_forall. intros c Hc. apply in_rev in Hc. revert c Hc. apply Forall_forall. exact H.
  Qed.
End Strip.

Lemma strip_nospace : forall s, Forall (fun c => is_space c = false) s -> strip s = s.
Proof. intros s H. apply strip_g_nospace. exact H. Qed.

(* ------------------------------------------------------------------ fqSafe, for every kept class *)
Section Keep.
  Variable keep : list (Z * Z).
  Let K := in_ranges keep.
  Let F := fqSafe_g keep.

  Lemma fqSafe_g_idem : forall s, F (F s) = F s.
  Proof.
    unfold F, fqSafe_g. induction s as [|c s IH]; [reflexivity|]. cbn [filter].
    destruct (in_ranges keep c) eqn:E; [|exact IH]. cbn [filter]. rewrite E, IH. reflexivity.
  Qed.

  Lemma fqSafe_g_fixed : forall s, forallb K s = true -> F s = s.
  Proof.
    unfold F, K, fqSafe_g. induction s as [|c s IH]; intro H; [reflexivity|].
    cbn [forallb] in H. apply andb_true_iff in H. destruct H as [H1 H2]. cbn [filter]. rewrite H1, IH by exact H2. reflexivity.
  Qed.

  Lemma fqSafe_g_safe : forall s, forallb K (F s) = true.
  Proof.
    unfold F, K, fqSafe_g. induction s as [|c s IH]; [reflexivity|]. cbn [filter].
    destruct (in_ranges keep c) eqn:E; [|exact IH]. cbn [forallb]. rewrite E, IH. reflexivity.
  Qed.

  (* exactly the strings over the kept class come back unchanged *)
  Lemma fqSafe_g_fixed_iff : forall s, F s = s <-> forallb K s = true.
  Proof.
    intro s. split; [|apply fqSafe_g_fixed]. intro H. rewrite <- H. apply fqSafe_g_safe.
  Qed.

  Lemma fqSafe_g_app : forall a b, F (a ++ b) = F a ++ F b.
  Proof. intros. unfold F, fqSafe_g. apply filter_app. Qed.

  Lemma len_fqSafe_g : forall s, len (F s) <= len s.
  Proof.
    induction s as [|c s IH]; [cbn; lia|]. unfold F, fqSafe_g in *. cbn [filter].
    destruct (in_ranges keep c); rewrite ?len_cons; lia.
  Qed.

  (* what is lost: exactly the characters outside the class, nothing is reordered or added *)
  Lemma len_fqSafe_g_exact : forall s, len (F s) = len s - len (filter (fun c => negb (K c)) s).
  Proof.
    induction s as [|c s IH]; [reflexivity|]. unfold F, K, fqSafe_g in *. cbn [filter].
    destruct (in_ranges keep c); cbn [negb]; rewrite ?len_cons; lia.
  Qed.
End Keep.

Lemma fqSafe_idem : forall s, fqSafe (fqSafe s) = fqSafe s.
Proof. exact (fqSafe_g_idem fqsafe_ranges). Qed.

Lemma fqSafe_fixed : forall s, safe s = true -> fqSafe s = s.
Proof. exact (fqSafe_g_fixed fqsafe_ranges). Qed.

Lemma fqSafe_safe : forall s, safe (fqSafe s) = true.
Proof. exact (fqSafe_g_safe fqsafe_ranges). Qed.

Lemma fqSafe_fixed_iff : forall s, fqSafe s = s <-> safe s = true.
Proof. exact (fqSafe_g_fixed_iff fqsafe_ranges). Qed.

(* the header-safe alphabet is exactly [A-Za-z0-9_-] *)
Lemma safe_alphabet : forall c, fq_keep c = true <->
  (c = 45 \/ 48 <= c <= 57 \/ 65 <= c <= 90 \/ c = 95 \/ 97 <= c <= 122).
Proof.
  intro c. unfold fq_keep, in_ranges, fqsafe_ranges. cbn [existsb fst snd].
  rewrite !orb_true_iff, !andb_true_iff, !Z.leb_le. split; intro H; [|lia].
  destruct H as [H|[H|[H|[H|[H|H]]]]]; try lia; discriminate.
Qed.

Lemma fqSafe_app : forall a b, fqSafe (a ++ b) = fqSafe a ++ fqSafe b.
Proof. exact (fqSafe_g_app fqsafe_ranges). Qed.

Lemma safe_app : forall a b, safe (a ++ b) = safe a && safe b.
Proof. intros. unfold safe, safe_g. apply forallb_app. Qed.

Lemma len_fqSafe : forall s, len (fqSafe s) <= len s.
Proof. exact (len_fqSafe_g fqsafe_ranges). Qed.

(* ------------------------------------------------------------------ dictionaries *)
Section DictFacts.
  Context {V : Type}.
  Implicit Types d : list (str * V).

  Lemma get_cons : forall k k' (v : V) d, get k ((k', v) :: d) = if str_eqb k k' then Some v else get k d.
  Proof. reflexivity. Qed.

  Lemma dset_cons : forall k (v : V) k' v' d,
    dset k v ((k', v') :: d) = if str_eqb k k' then (k', v) :: d else (k', v') :: dset k v d.
  Proof. reflexivity. Qed.

  Lemma get_dset_same : forall k (v : V) d, get k (dset k v d) = Some v.
  Proof.
    intros k v d. induction d as [|[k' v'] d IH].
    - cbn. rewrite str_eqb_refl. reflexivity.
    - rewrite dset_cons. destruct (str_eqb k k') eqn:E; rewrite get_cons, E; [reflexivity|exact IH].
  Qed.

  Lemma get_dset_other : forall k k2 (v : V) d, k2 <> k -> get k2 (dset k v d) = get k2 d.
  Proof.
    intros k k2 v d Hne. induction d as [|[k' v'] d IH].
    - cbn. destruct (str_eqb k2 k) eqn:E; [apply str_eqb_eq in E; contradiction|reflexivity].
    - rewrite dset_cons. destruct (str_eqb k k') eqn:E.
      + apply str_eqb_eq in E. subst k'. rewrite !get_cons.
        destruct (str_eqb k2 k) eqn:E2; [apply str_eqb_eq in E2; contradiction|reflexivity].
      + rewrite !get_cons. destruct (str_eqb k2 k'); [reflexivity|exact IH].
  Qed.

  Lemma dset_fresh : forall k (v : V) d, get k d = None -> dset k v d = d ++ [(k, v)].
  Proof.
    intros k v d. induction d as [|[k' v'] d IH]; intro H; [reflexivity|].
    rewrite get_cons in H. rewrite dset_cons. destruct (str_eqb k k'); [discriminate|].
    cbn [app]. rewrite IH by exact H. reflexivity.
  Qed.

  Lemma get_app : forall k d1 d2, get k (d1 ++ d2) = match get k d1 with Some v => Some v | None => get k d2 end.
  Proof.
    intros k d1 d2. induction d1 as [|[k' v'] d1 IH]; [reflexivity|].
    cbn [app]. rewrite !get_cons. destruct (str_eqb k k'); [reflexivity|exact IH].
  Qed.

  Lemma get_None_notin : forall k d, get k d = None <-> ~ In k (map fst d).
  Proof.
    intros k d. induction d as [|[k' v'] d IH]; [cbn; tauto|].
    rewrite get_cons. cbn [map fst In]. destruct (str_eqb k k') eqn:E.
    - apply str_eqb_eq in E. subst. split; [discriminate|]. intro H. exfalso. apply H. left. reflexivity.
    - apply str_eqb_neq in E. rewrite IH. split; [intros H [H1|H1]; [congruence|contradiction]|tauto].
  Qed.

  Lemma get_In : forall k (v : V) d, NoDup (map fst d) -> In (k, v) d -> get k d = Some v.
  Proof.
    intros k v d. induction d as [|[k' v'] d IH]; intros ND HI; [contradiction|].
    cbn [map fst] in ND. inversion ND as [|? ? Hn ND']; subst. rewrite get_cons. destruct HI as [HI|HI].
    - inversion HI; subst. rewrite str_eqb_refl. reflexivity.
    - destruct (str_eqb k k') eqn:E; [|apply IH; assumption].
      apply str_eqb_eq in E. subst. exfalso. apply Hn. apply in_map_iff. exists (k', v). split; [reflexivity|exact HI].
  Qed.

  Lemma get_Some_In : forall k (v : V) d, get k d = Some v -> In (k, v) d.
  Proof.
    intros k v d. induction d as [|[k' v'] d IH]; intro H; [discriminate|].
    rewrite get_cons in H. destruct (str_eqb k k') eqn:E.
    - apply str_eqb_eq in E. inversion H; subst. left. reflexivity.
    - right. apply IH. exact H.
  Qed.

  Lemma keys_dset : forall k (v : V) d, get k d <> None -> map fst (dset k v d) = map fst d.
  Proof.
    intros k v d. induction d as [|[k' v'] d IH]; intro H; [cbn in H; congruence|].
    rewrite get_cons in H. rewrite dset_cons. destruct (str_eqb k k'); [reflexivity|].
    cbn [map fst]. rewrite IH by exact H. reflexivity.
  Qed.
End DictFacts.

Lemma get_map_val : forall A B (f : A -> B) k (d : list (str * A)),
  get k (map (fun kv => (fst kv, f (snd kv))) d) = option_map f (get k d).
Proof.
  intros A B f k d. induction d as [|[k' v'] d IH]; [reflexivity|].
  cbn [map fst snd]. rewrite !get_cons. destruct (str_eqb k k'); [reflexivity|exact IH].
Qed.

(* ------------------------------------------------------------------ quality codec *)
Lemma nth_error_index_of : forall l n x, NoDup l -> nth_error l n = Some x -> index_of x l = Some (Z.of_nat n).
Proof.
  induction l as [|y l IH]; intros n x ND H; [destruct n; discriminate|].
  inversion ND as [|? ? Hn ND']; subst. destruct n as [|n].
  - cbn in H. inversion H; subst. cbn [index_of]. rewrite Z.eqb_refl. reflexivity.
  - cbn [nth_error] in H. cbn [index_of]. destruct (y =? x) eqn:E.
    + apply Z.eqb_eq in E. subst. exfalso. apply Hn. eapply nth_error_In. exact H.
    + rewrite (IH n x ND' H). f_equal. lia.
Qed.

Fixpoint nodupb (l : list Z) : bool :=
  match l with [] => true | x :: r => negb (existsb (Z.eqb x) r) && nodupb r end.

Lemma nodupb_NoDup : forall l, nodupb l = true -> NoDup l.
Proof.
  induction l as [|x l IH]; intro H; [constructor|]. cbn [nodupb] in H. apply andb_true_iff in H. destruct H as [H1 H2].
  constructor; [|apply IH; exact H2]. intro HI. apply negb_true_iff in H1.
  assert (E : existsb (Z.eqb x) l = true) by (apply existsb_exists; exists x; split; [exact HI|apply Z.eqb_refl]).
  congruence.
Qed.

Lemma enc_table_nodup : NoDup enc_table.
Proof. apply nodupb_NoDup. vm_compute. reflexivity. Qed.

Definition clamp_index (c : Z) : Z := clampZ enc_lo enc_hi (c - enc_off).

Lemma clamp_index_bounds : forall c, 0 <= clamp_index c < len enc_table.
Proof.
  intro c. pose proof gen_enc_bounds as G. apply andb_true_iff in G. destruct G as [G G3].
  apply andb_true_iff in G. destruct G as [G1 G2].
  apply Z.leb_le in G1. apply Z.leb_le in G2. apply Z.ltb_lt in G3. unfold clamp_index, clampZ. lia.
Qed.

(* totality, for every integer character code *)
Lemma phred_enc_char_total : forall c, exists e,
  phred_enc_char c = Some e /\ nth_error enc_table (Z.to_nat (clamp_index c)) = Some e.
Proof.
  intro c. pose proof (clamp_index_bounds c) as B. unfold phred_enc_char, py_getitem. fold (clamp_index c).
  assert (E1 : (clamp_index c <? 0) = false) by (apply Z.ltb_ge; lia).
  assert (E2 : (len enc_table <=? clamp_index c) = false) by (apply Z.leb_gt; lia).
  cbv zeta. rewrite E1. cbv iota. rewrite E1, E2. cbn [orb].
  destruct (nth_error enc_table (Z.to_nat (clamp_index c))) as [e|] eqn:E.
  - exists e. split; reflexivity.
  - exfalso. apply nth_error_None in E. unfold len in B. lia.
Qed.

Lemma phred_char_roundtrip : forall c e, phred_enc_char c = Some e ->
  phred_dec_char e = Some (clamp_index c + enc_off).
Proof.
  intros c e H. destruct (phred_enc_char_total c) as [e' [H1 H2]]. rewrite H in H1. inversion H1; subst e'.
  unfold phred_dec_char. destruct gen_dec_same as [Et Eo]. rewrite Et, Eo.
  rewrite (nth_error_index_of _ _ _ enc_table_nodup H2). pose proof (clamp_index_bounds c). rewrite Z2Nat.id by lia. reflexivity.
Qed.

Definition saturate (c : Z) : Z := Z.min (Z.max 33 c) 84.

Lemma clamp_saturate : forall c, clamp_index c + enc_off = saturate c.
Proof.
  intro c. destruct gen_sat_bounds as [A B]. unfold clamp_index, clampZ, saturate. lia.
Qed.

Lemma mapM_cons : forall A B (f : A -> res B) a r,
  mapM f (a :: r) = match f a with
                    | Raise e => Raise e
                    | Ok b => match mapM f r with Raise e => Raise e | Ok bs => Ok (b :: bs) end
                    end.
Proof. reflexivity. Qed.

Lemma phred_enc_cons : forall c s,
  phred_enc (c :: s) = match phred_enc_char c with
                       | None => Raise EIndex
                       | Some e => match phred_enc s with Raise x => Raise x | Ok es => Ok (e :: es) end
                       end.
Proof. intros. unfold phred_enc. rewrite mapM_cons. destruct (phred_enc_char c); reflexivity. Qed.

Lemma phred_dec_cons : forall c s,
  phred_dec (c :: s) = match phred_dec_char c with
                       | None => Raise EValue
                       | Some e => match phred_dec s with Raise x => Raise x | Ok es => Ok (e :: es) end
                       end.
Proof. intros. unfold phred_dec. rewrite mapM_cons. destruct (phred_dec_char c); reflexivity. Qed.

Lemma phred_roundtrip : forall s, exists e,
  phred_enc s = Ok e /\ length e = length s /\ Forall (fun x => In x enc_table) e /\ phred_dec e = Ok (map saturate s).
Proof.
  induction s as [|c s [e [IH1 [IH2 [IH3 IH4]]]]].
  - exists []. repeat split; constructor.
  - destruct (phred_enc_char_total c) as [x [Hx Hn]]. exists (x :: e).
    rewrite phred_enc_cons, Hx, IH1. split; [reflexivity|]. split; [cbn; congruence|].
    split; [constructor; [eapply nth_error_In; exact Hn|exact IH3]|].
    rewrite phred_dec_cons, (phred_char_roundtrip c x Hx), IH4, clamp_saturate. reflexivity.
Qed.

Lemma saturate_id : forall c, 33 <= c <= 84 -> saturate c = c.
Proof. intros c H. unfold saturate. lia. Qed.

Lemma map_saturate_id : forall s, Forall (fun c => 33 <= c <= 84) s -> map saturate s = s.
Proof. induction s as [|c s IH]; intro H; [reflexivity|]. inversion H; subst. cbn [map]. rewrite saturate_id, IH by assumption. reflexivity. Qed.

(* letters decode without error *)
Lemma phred_dec_letters : forall e, Forall (fun x => In x dec_table) e -> exists p, phred_dec e = Ok p /\ length p = length e.
Proof.
  induction e as [|x e IH]; intro H.
  - exists []. split; reflexivity.
  - inversion H as [|? ? Hx He]; subst. destruct (IH He) as [p [Hp Hl]].
    assert (exists i, index_of x dec_table = Some i) as [i Hi].
    { clear -Hx. induction dec_table as [|y l IHl]; [contradiction|]. cbn [index_of].
      destruct (y =? x) eqn:E; [eexists; reflexivity|]. destruct Hx as [Hx|Hx]; [subst; rewrite Z.eqb_refl in E; discriminate|].
      destruct (IHl Hx) as [i Hi]. rewrite Hi. eexists. reflexivity. }
    exists ((i + dec_off) :: p). rewrite phred_dec_cons. unfold phred_dec_char. rewrite Hi, Hp.
    split; [reflexivity|cbn; congruence].
Qed.
