(* C03 proofs, part 3: the lookup after expansion is the unique-nearest-neighbour relation;
   exact members, ties, lazy = eager, the boolean specification. *)
From Coq Require Import ZArith List Bool Arith Lia Permutation Sorted.
Import ListNotations.
From SCMO Require Import Lib.Val Lib.PyInt Gen.GenBarcode Model.C03 Proofs.C03 Proofs.C03_b.

Definition whitelisted (lines : list (str * Z)) (b : str) : Prop := In b (map fst lines).

(* b is whitelisted, d = hamming q b <= k, every OTHER whitelisted barcode (of q's length; a barcode of
   another length is at no Hamming distance) is strictly farther than d *)
Definition nearest (lines : list (str * Z)) (k : nat) (q b : str) (d : nat) : Prop :=
  whitelisted lines b /\ length q = length b /\ d = hamming q b /\ (d <= k)%nat /\
  forall b', whitelisted lines b' -> b' <> b -> length b' = length q -> (d < hamming q b')%nat.

Lemma load_get lines b : dget b (bcs (load lines)) = index_of lines b.
Proof.
  unfold load, load_into. cbn [bcs empty_tables]. rewrite load_into_get.
  destruct (index_of lines b); reflexivity.
Qed.

Lemma wf_lines_alpha lines b : wf_lines lines = true -> whitelisted lines b -> Forall alpha b.
Proof.
  unfold wf_lines, whitelisted. rewrite forallb_forall. intros H Hin.
  apply in_map_iff in Hin. destruct Hin as [l [<- Hl]]. apply in_alphabet_Forall. apply H. exact Hl.
Qed.

(* expand never raises, leaves the exact table alone, and fills the extended table as ext_after says *)
Lemma expand_char lines k :
  exists t, expand k (load lines) = Ok t /\ bcs t = bcs (load lines) /\
            forall q, dget q (ext t) =
                      ext_after (load lines) (space_of (items_of k (keys (bcs (load lines)))) []) q.
Proof.
  unfold expand. fold (keys (bcs (load lines))). rewrite build_space_items.
  apply resolve_fold.
  - apply hs_ok_space_of. split; [constructor|intros ? ? []].
  - intros inst l Hin. apply space_of_entry in Hin. destruct Hin as [-> Hne]. split; [exact Hne|].
    intros d b Hdb. apply cands_sound in Hdb. destruct Hdb as (Hb & _ & Hl & Hh). split; [exact Hb|].
    intros ->. apply hamming_zero; assumption.
Qed.

Lemma nearest_unique lines k q b1 d1 b2 d2 :
  nearest lines k q b1 d1 -> nearest lines k q b2 d2 -> b1 = b2 /\ d1 = d2.
Proof.
  intros (W1 & L1 & D1 & K1 & F1) (W2 & L2 & D2 & K2 & F2).
  destruct (str_eq_dec b1 b2) as [->|Hne]; [split; congruence|].
  exfalso. assert (d1 < hamming q b2)%nat by (apply F1; auto; congruence).
  assert (d2 < hamming q b1)%nat by (apply F2; auto; congruence). lia.
Qed.

(* the extended-table lookup of a non-member *)
Lemma ext_after_iff lines k q :
  wf_lines lines = true -> Forall alpha q -> ~ whitelisted lines q ->
  forall i b d,
    ext_after (load lines) (space_of (items_of k (keys (bcs (load lines)))) []) q = Some (i, b, d) <->
    nearest lines k q b d /\ index_of lines b = Some i.
Proof.
  intros Hwf Hq Hnq i0 b0 d0.
  set (ks := keys (bcs (load lines))).
  assert (Hks : forall b, In b ks <-> whitelisted lines b) by (intros b; apply load_keys_in).
  assert (Hnd : NoDup ks) by apply load_keys_nodup.
  (* membership in the candidate list, for whitelisted origins *)
  assert (Hc : forall b, whitelisted lines b -> length q = length b -> (hamming q b <= k)%nat ->
                         In (hamming q b, b) (cands k ks q)).
  { intros b Hb Hl Hd. apply cands_complete; auto. eapply wf_lines_alpha; eauto. apply Hks. exact Hb. }
  assert (Hn2c : forall b d, nearest lines k q b d -> In (d, b) (cands k ks q)).
  { intros b d (W & L & D & K & _). subst d. apply Hc; auto. }
  unfold ext_after. cbn [ext load load_into empty_tables dget].
  destruct (dget q (space_of (items_of k ks) [])) as [l|] eqn:Eg.
  - apply dget_some_in in Eg. apply space_of_entry in Eg. destruct Eg as [El Hne].
    fold (cands k ks q) in El. subst l.
    pose proof (cands_nodup k ks q Hnd) as Hndl.
    destruct (pick (cands k ks q)) as [[d b]|] eqn:Ep.
    + destruct (pick_some _ _ Hndl Ep) as [Hin Hmin].
      destruct (cands_sound _ _ _ _ _ Hin) as (Hb & Hdk & Hl & Hh).
      apply Hks in Hb.
      destruct (Nat.eqb_spec d 0) as [->|Hd0].
      { exfalso. apply Hnq. rewrite (hamming_zero q b Hl Hh). exact Hb. }
      fold (bcs (load lines)). rewrite load_get.
      assert (Hnear : nearest lines k q b d).
      { repeat split; auto. intros b' Hb' Hne' Hl'.
        destruct (Nat.le_gt_cases (hamming q b') k) as [Hle|Hgt]; [|lia].
        apply (Hmin (hamming q b', b')); [apply Hc; auto|congruence]. }
      split.
      * destruct (index_of lines b) as [i|] eqn:Ei; [|discriminate].
        intros H. inversion H; subst. auto.
      * intros [Hn0 Hi0]. destruct (nearest_unique _ _ _ _ _ _ _ Hnear Hn0) as [-> ->].
        rewrite Hi0. reflexivity.
    + split; [discriminate|]. intros [Hn0 _]. exfalso.
      destruct (pick_none _ Hne Hndl Ep) as ([dx bx] & [dy by_] & Hx & Hy & Hxy & Hf & Hmin).
      cbn [fst] in Hf. subst dy.
      destruct (cands_sound _ _ _ _ _ Hx) as (Hbx & _ & Hlx & Hhx).
      destruct (cands_sound _ _ _ _ _ Hy) as (Hby & _ & Hly & Hhy).
      apply Hks in Hbx. apply Hks in Hby.
      pose proof (Hmin _ (Hn2c _ _ Hn0)) as Hle. cbn [fst] in Hle.
      destruct Hn0 as (_ & _ & _ & _ & Hfar).
      destruct (str_eq_dec bx b0) as [->|Hnx].
      * assert (by_ <> b0) by congruence.
        assert (d0 < hamming q by_)%nat by (apply Hfar; auto). lia.
      * assert (d0 < hamming q bx)%nat by (apply Hfar; auto). lia.
  - split; [discriminate|]. intros [Hn0 _]. exfalso.
    apply space_of_none in Eg. fold (cands k ks q) in Eg.
    pose proof (Hn2c _ _ Hn0) as Hin. rewrite Eg in Hin. exact Hin.
Qed.

(* ------------------------------------------------------------------ main theorem *)
Theorem assign_iff lines k t q :
  expand k (load lines) = Ok t -> wf_lines lines = true -> in_alphabet q = true ->
  forall i b d, lookup t q = Some (i, b, d) <-> nearest lines k q b d /\ index_of lines b = Some i.
Proof.
  intros He Hwf Hq i0 b0 d0. apply in_alphabet_Forall in Hq.
  destruct (expand_char lines k) as (t' & He' & Hb & Hx). rewrite He in He'. inversion He'; subst t'.
  rewrite !lookup_unfold. rewrite Hb, load_get.
  destruct (index_of lines q) as [i|] eqn:Ei.
  - (* exact member *)
    assert (Hw : whitelisted lines q).
    { rewrite <- load_get in Ei. apply dget_some_key in Ei. apply load_keys_in. exact Ei. }
    assert (Hself : nearest lines k q q 0).
    { repeat split; auto; [symmetry; apply hamming_refl|lia|].
      intros b' Hb' Hne Hl. destruct (hamming q b') eqn:Eh; [|lia].
      exfalso. apply Hne. symmetry. apply hamming_zero; auto. }
    split.
    + intros H. inversion H; subst. auto.
    + intros [Hn Hi]. destruct (nearest_unique _ _ _ _ _ _ _ Hself Hn) as [<- <-]. congruence.
  - rewrite Hx. apply ext_after_iff; auto.
    intros Hw. apply load_keys_in in Hw. apply in_keys_dget in Hw. destruct Hw as [v Hv].
    rewrite load_get in Hv. congruence.
Qed.

Theorem expand_total lines k : exists t, expand k (load lines) = Ok t /\ bcs t = bcs (load lines).
Proof. destruct (expand_char lines k) as (t & H1 & H2 & _). eauto. Qed.

(* expand(0) does not change any lookup: the eager path (which skips expand when k = 0) and the lazy path
   (which always expands) coincide *)
Lemma expand_zero_lookup lines t : expand 0 (load lines) = Ok t -> forall q, lookup t q = lookup (load lines) q.
Proof.
  intros He q. destruct (expand_char lines 0) as (t' & He' & Hb & Hx). rewrite He in He'. inversion He'; subst t'.
  rewrite !lookup_unfold. rewrite Hb. destruct (dget q (bcs (load lines))); [reflexivity|].
  rewrite Hx. unfold ext_after.
  destruct (dget q (space_of (items_of 0 (keys (bcs (load lines)))) [])) as [l|] eqn:Eg; [|reflexivity].
  apply dget_some_in in Eg. apply space_of_entry in Eg. destruct Eg as [-> Hne].
  destruct (pick _) as [[d b]|] eqn:Ep; [|reflexivity].
  assert (Hin : In (d, b) (cands 0 (keys (bcs (load lines))) q)).
  { unfold pick in Ep. pose proof (sort_perm (collect q (items_of 0 (keys (bcs (load lines)))))) as Hp.
    destruct (sort _) as [|x rest]; [discriminate|].
    destruct (match rest with y :: _ => Nat.eqb (fst x) (fst y) | [] => false end); [discriminate|].
    inversion Ep; subst. eapply Permutation_in; [exact Hp|]. cbn; auto. }
  apply cands_sound in Hin. destruct Hin as (_ & Hd & _). assert (d = 0%nat) by lia. subst d. reflexivity.
Qed.

(* the tables of an eagerly loaded alias answer like expand k (load lines) for EVERY k, 0 included *)
Lemma eager_tables_ok lines k :
  exists te tx, eager_tables k lines = Ok te /\ expand k (load lines) = Ok tx /\
                forall q, lookup te q = lookup tx q.
Proof.
  destruct (expand_total lines k) as (tx & Hx & _). unfold eager_tables.
  destruct k as [|k].
  - cbn [Nat.ltb Nat.leb]. exists (load lines), tx. repeat split; auto.
    intros q. symmetry. apply expand_zero_lookup. exact Hx.
  - replace (0 <? S k)%nat with true by (symmetry; apply Nat.ltb_lt; lia).
    exists tx, tx. auto.
Qed.

Theorem eager_assign_iff lines k t q :
  eager_tables k lines = Ok t -> wf_lines lines = true -> in_alphabet q = true ->
  forall i b d, lookup t q = Some (i, b, d) <-> nearest lines k q b d /\ index_of lines b = Some i.
Proof.
  intros He Hwf Hq i b d. destruct (eager_tables_ok lines k) as (te & tx & H1 & H2 & H3).
  rewrite He in H1. inversion H1; subst te. rewrite H3. apply assign_iff; auto.
Qed.

(* ------------------------------------------------------------------ exact members, ties *)
Theorem exact_self lines k t b :
  eager_tables k lines = Ok t -> whitelisted lines b ->
  exists i, index_of lines b = Some i /\ lookup t b = Some (i, b, 0%nat).
Proof.
  intros He Hw. destruct (eager_tables_ok lines k) as (te & tx & H1 & H2 & H3).
  rewrite He in H1. inversion H1; subst te. rewrite H3.
  destruct (expand_char lines k) as (t' & He' & Hb & _). rewrite H2 in He'. inversion He'; subst t'.
  apply load_keys_in in Hw. apply in_keys_dget in Hw. destruct Hw as [i Hi].
  exists i. split; [rewrite <- load_get; exact Hi|]. rewrite lookup_unfold. rewrite Hb, Hi. reflexivity.
Qed.

Theorem tie_none lines k t q b1 b2 :
  eager_tables k lines = Ok t -> wf_lines lines = true -> in_alphabet q = true ->
  whitelisted lines b1 -> whitelisted lines b2 -> b1 <> b2 ->
  length b1 = length q -> length b2 = length q -> hamming q b1 = hamming q b2 ->
  (forall b, whitelisted lines b -> length b = length q -> (hamming q b1 <= hamming q b)%nat) ->
  lookup t q = None.
Proof.
  intros He Hwf Hq W1 W2 Hne L1 L2 Hd Hmin.
  destruct (lookup t q) as [[[i b] d]|] eqn:El; [|reflexivity]. exfalso.
  apply (eager_assign_iff lines k t q He Hwf Hq) in El. destruct El as [(W & L & D & K & F) _].
  pose proof (Hmin b W (eq_sym L)) as Hle.
  destruct (str_eq_dec b1 b) as [->|Hn1].
  - assert (d < hamming q b2)%nat by (apply F; auto). lia.
  - assert (d < hamming q b1)%nat by (apply F; auto). lia.
Qed.

(* no answer means no unique nearest barcode within k *)
Theorem none_iff lines k t q :
  eager_tables k lines = Ok t -> wf_lines lines = true -> in_alphabet q = true ->
  (lookup t q = None <-> forall b d, ~ nearest lines k q b d).
Proof.
  intros He Hwf Hq. split.
  - intros Hn b d Hnear. destruct Hnear as (W & Hrest).
    pose proof W as W'. apply load_keys_in in W'. apply in_keys_dget in W'. destruct W' as [i Hi].
    rewrite load_get in Hi.
    assert (lookup t q = Some (i, b, d)) by (apply (eager_assign_iff lines k t q He Hwf Hq); repeat split; tauto).
    congruence.
  - intros Hno. destruct (lookup t q) as [[[i b] d]|] eqn:El; [|reflexivity]. exfalso.
    apply (eager_assign_iff lines k t q He Hwf Hq) in El. destruct El as [Hn _]. exact (Hno b d Hn).
Qed.

(* ------------------------------------------------------------------ textbook form: equal lengths, no duplicates *)
Lemma nodup_lines_spec lines : nodup_lines lines = true -> NoDup (map fst lines).
Proof.
  induction lines as [|l r IH]; cbn; intros H; [constructor|].
  apply andb_true_iff in H. destruct H as [H1 H2]. constructor; [|auto].
  intros Hin. apply in_map_iff in Hin. destruct Hin as [l' [Heq Hl']].
  apply negb_true_iff in H1. assert (existsb (fun l'0 => str_eqb (fst l) (fst l'0)) r = true); [|congruence].
  apply existsb_exists. exists l'. split; [exact Hl'|]. rewrite Heq. apply str_eqb_refl.
Qed.

Lemma index_of_nodup lines b i : NoDup (map fst lines) -> (index_of lines b = Some i <-> In (b, i) lines).
Proof.
  intros Hnd. unfold index_of. split.
  - destruct (find (fun l => str_eqb b (fst l)) (rev lines)) as [[b' i']|] eqn:Ef; [|discriminate].
    apply find_some in Ef. destruct Ef as [Hin Heq]. cbn in Heq. apply str_eqb_eq in Heq. subst b'.
    cbn. intros H. inversion H; subst. apply in_rev. exact Hin.
  - intros Hin.
    destruct (find (fun l => str_eqb b (fst l)) (rev lines)) as [[b' i']|] eqn:Ef.
    + apply find_some in Ef. destruct Ef as [Hin' Heq]. cbn in Heq. apply str_eqb_eq in Heq. subst b'.
      apply <- in_rev in Hin'. cbn.
      (* two lines with the same barcode are the same line *)
      assert (i' = i); [|congruence].
      clear -Hnd Hin Hin'. induction lines as [|[b0 i0] r IH]; [contradiction|].
      cbn in Hnd. inversion Hnd as [|? ? Hna Hnd']; subst.
      destruct Hin as [E1|Hin], Hin' as [E2|Hin'].
      * congruence.
      * inversion E1; subst. exfalso. apply Hna. apply (in_map fst) in Hin'. exact Hin'.
      * inversion E2; subst. exfalso. apply Hna. apply (in_map fst) in Hin. exact Hin.
      * auto.
    + exfalso. pose proof (find_none _ _ Ef (b, i)) as Hf. cbn in Hf. rewrite str_eqb_refl in Hf.
      assert (true = false) by (apply Hf; apply -> in_rev; exact Hin). discriminate.
Qed.

(* all whitelisted barcodes have the length of the observed string, no barcode is listed twice:
   the statement without the length side conditions and with "the line (b, i) is in the file" *)
Theorem assign_iff_textbook lines k t q :
  eager_tables k lines = Ok t -> wf_lines lines = true -> in_alphabet q = true ->
  NoDup (map fst lines) -> (forall b, whitelisted lines b -> length b = length q) ->
  forall i b d,
    lookup t q = Some (i, b, d) <->
    In (b, i) lines /\ d = hamming q b /\ (d <= k)%nat /\
    forall b' i', In (b', i') lines -> b' <> b -> (d < hamming q b')%nat.
Proof.
  intros He Hwf Hq Hnd Hlen i b d.
  rewrite (eager_assign_iff lines k t q He Hwf Hq), (index_of_nodup lines b i Hnd).
  unfold nearest, whitelisted. split.
  - intros [(W & L & D & K & F) Hin]. repeat split; auto.
    intros b' i' Hin' Hne. apply F; auto.
    + apply in_map_iff. exists (b', i'). auto.
    + apply Hlen. apply in_map_iff. exists (b', i'). auto.
  - intros (Hin & D & K & F).
    assert (W : In b (map fst lines)) by (apply in_map_iff; exists (b, i); auto).
    repeat split; auto.
    + symmetry. apply Hlen. exact W.
    + intros b' W' Hne _. apply in_map_iff in W'. destruct W' as [[b2 i2] [E Hin2]]. cbn in E. subst b2.
      eapply F; eauto.
Qed.

(* ------------------------------------------------------------------ lazy loading = eager loading *)
Lemma answers_loaded k t qs :
  answers {| p_k := k; p_pending := None; p_tab := t |} qs = map (fun q => Ans (lookup t q)) qs.
Proof.
  induction qs as [|q qs IH]; [reflexivity|].
  cbn [answers map]. rewrite get_unfold. cbn [p_tab p_pending].
  destruct (lookup t q) as [a|]; rewrite IH; reflexivity.
Qed.

Theorem lazy_eq_eager lines k qs :
  exists p, eager_init k lines = Some p /\ answers (lazy_init k lines) qs = answers p qs.
Proof.
  destruct (eager_tables_ok lines k) as (te & tx & H1 & H2 & H3).
  unfold eager_init. rewrite H1. eexists. split; [reflexivity|].
  rewrite answers_loaded.
  destruct qs as [|q qs]; [reflexivity|].
  cbn [answers map]. rewrite get_unfold. unfold lazy_init. cbn [p_tab p_pending p_k].
  change (lookup empty_tables q) with (@None hit).
  change (load_into empty_tables lines) with (load lines). rewrite H2.
  rewrite answers_loaded. rewrite H3. f_equal. apply map_ext. intros q'. rewrite H3. reflexivity.
Qed.

(* ------------------------------------------------------------------ the boolean specification *)
Lemma nearestb_spec lines k q b d :
  nearestb (keys (bcs (load lines))) k q b d = true <-> nearest lines k q b d.
Proof.
  unfold nearestb, nearest. rewrite !andb_true_iff, forallb_forall, Nat.eqb_eq, Nat.eqb_eq, Nat.leb_le.
  assert (Hk : forall x, In x (keys (bcs (load lines))) <-> whitelisted lines x) by (intros x; apply load_keys_in).
  split.
  - intros ((((He & Hl) & Hh) & Hd) & Hf). repeat split; auto.
    + apply existsb_exists in He. destruct He as [x [Hx E]]. apply str_eqb_eq in E. subst x. apply Hk. exact Hx.
    + intros b' W' Hne Hl'. apply Hk in W'. specialize (Hf b' W').
      apply orb_true_iff in Hf. destruct Hf as [Hf|Hf]; [|apply Nat.ltb_lt; exact Hf].
      apply orb_true_iff in Hf. destruct Hf as [Hf|Hf].
      * apply str_eqb_eq in Hf. contradiction.
      * apply negb_true_iff in Hf. apply Nat.eqb_neq in Hf. contradiction.
  - intros (W & Hl & Hh & Hd & Hf). repeat split; auto.
    + apply existsb_exists. exists b. split; [apply Hk; exact W|apply str_eqb_refl].
    + intros b' Hb'. apply Hk in Hb'.
      destruct (str_eqb_spec b' b) as [|Hne]; [reflexivity|]. cbn [orb].
      destruct (Nat.eqb_spec (length b') (length q)) as [Hl'|]; [|reflexivity]. cbn [negb orb].
      apply Nat.ltb_lt. apply Hf; auto.
Qed.

Theorem specb_correct lines k t q out :
  eager_tables k lines = Ok t -> wf_lines lines = true -> in_alphabet q = true ->
  (specb lines k q out = true <-> out = lookup t q).
Proof.
  intros He Hwf Hq. unfold specb. fold (keys (bcs (load lines))).
  destruct out as [[[i b] d]|].
  - rewrite andb_true_iff, nearestb_spec, load_get.
    transitivity (lookup t q = Some (i, b, d)); [|split; intros H0; symmetry; exact H0].
    rewrite (eager_assign_iff lines k t q He Hwf Hq).
    destruct (index_of lines b) as [i'|]; [rewrite Z.eqb_eq|]; intuition congruence.
  - transitivity (lookup t q = None); [|split; intros H0; symmetry; exact H0].
    rewrite (none_iff lines k t q He Hwf Hq), forallb_forall. split.
    + intros H b d Hn. pose proof Hn as (W & _ & D & _). subst d.
      apply load_keys_in in W. specialize (H b W). apply negb_true_iff in H.
      apply nearestb_spec in Hn. congruence.
    + intros H b Hb. apply negb_true_iff. destruct (nearestb _ k q b (hamming q b)) eqn:E; [|reflexivity].
      apply nearestb_spec in E. exfalso. exact (H _ _ E).
Qed.

(* ------------------------------------------------------------------ hamming_circle is the Hamming sphere *)
Theorem circle_spec s n x : Forall alpha s -> Forall alpha x ->
  (In x (circle alphabet s n) <-> length x = length s /\ hamming x s = n).
Proof.
  intros Hs Hx. split; [apply circle_sound|]. intros [Hl <-]. apply circle_complete; auto.
Qed.

(* ------------------------------------------------------------------ operation histories: lookups mixed with the
   accessors parser[alias] (loads a pending alias) and getTargetCount (does not) *)
Definition ans_loaded (t : tables) (o : op) : answer :=
  match o with
  | OLookup q => Ans (lookup t q)
  | OGetItem => Items (bcs t)
  | OTargetCount => Counts (length (bcs t)) (length (ext t))
  end.

Lemma run_loaded k t ops :
  run_ops {| p_k := k; p_pending := None; p_tab := t |} ops = map (ans_loaded t) ops.
Proof.
  induction ops as [|o ops IH]; [reflexivity|].
  cbn [run_ops map]. destruct o as [q| |]; cbn [step ans_loaded].
  - rewrite get_unfold. cbn [p_tab p_pending]. destruct (lookup t q) as [a|]; rewrite IH; reflexivity.
  - unfold getitem. cbn [p_pending p_tab]. rewrite IH. reflexivity.
  - unfold target_count. cbn [p_tab]. rewrite IH. reflexivity.
Qed.

(* a pending alias: whatever the interleaving, the first loading operation (lookup or parser[alias]) runs
   parse + expand k, and from then on the parser answers from expand k (load lines) *)
Lemma run_lazy lines k tx ops :
  expand k (load lines) = Ok tx ->
  map mask (run_ops (lazy_init k lines) ops) = map mask (map (ans_loaded tx) ops).
Proof.
  intros Hx. induction ops as [|o ops IH]; [reflexivity|].
  cbn [run_ops map]. destruct o as [q| |]; cbn [step ans_loaded].
  - rewrite get_unfold. unfold lazy_init. cbn [p_tab p_pending p_k].
    change (lookup empty_tables q) with (@None hit).
    change (load_into empty_tables lines) with (load lines). rewrite Hx.
    rewrite run_loaded. reflexivity.
  - unfold getitem, lazy_init. cbn [p_tab p_pending p_k].
    change (load_into empty_tables lines) with (load lines). rewrite Hx.
    rewrite run_loaded. reflexivity.
  - unfold target_count. cbn [map mask]. f_equal. exact IH.
Qed.

Theorem lazy_eq_eager_ops lines k ops :
  exists p, eager_init k lines = Some p /\
            map mask (run_ops (lazy_init k lines) ops) = map mask (run_ops p ops).
Proof.
  destruct (eager_tables_ok lines k) as (te & tx & H1 & H2 & H3).
  assert (Hb : bcs te = bcs tx).
  { destruct (expand_total lines k) as (tx' & Hx' & Hbx). rewrite H2 in Hx'. inversion Hx'; subst tx'.
    rewrite Hbx. unfold eager_tables in H1. destruct (0 <? k)%nat.
    - rewrite H2 in H1. inversion H1; subst. exact Hbx.
    - inversion H1; subst. reflexivity. }
  unfold eager_init. rewrite H1. eexists. split; [reflexivity|].
  rewrite run_loaded, (run_lazy lines k tx ops H2), !map_map.
  apply map_ext. intros [q| |]; cbn [ans_loaded mask]; [rewrite H3|rewrite Hb|]; reflexivity.
Qed.

(* a history of lookups only is the old state machine *)
Lemma run_lookups p qs : run_ops p (map OLookup qs) = answers p qs.
Proof.
  revert p. induction qs as [|q qs IH]; intros p; [reflexivity|].
  cbn [map run_ops answers step]. destruct (get p q) as [p' a]. rewrite IH. reflexivity.
Qed.

(* ------------------------------------------------------------------ column-order detection (parse_barcode_file)
   with the REGENERATED character class: a first column of whitelist barcodes over ACGTN is recognised as the
   barcode column; a first column of tokens that each contain a digit is recognised as the index column *)
Lemma alphabet_in_class c : In c alphabet -> In c gen_column_class.
Proof.
  rewrite alphabet_unfold. cbn [In]. intros H.
  repeat (destruct H as [<-|H]; [vm_compute; tauto|]). contradiction.
Qed.

Lemma barcode_token_wf s : in_alphabet s = true -> is_barcode_token s = true.
Proof.
  unfold in_alphabet, is_barcode_token. rewrite !forallb_forall. intros H c Hc. specialize (H c Hc).
  apply existsb_exists in H. destruct H as [a [Ha E]]. apply Z.eqb_eq in E. subst a.
  apply existsb_exists. exists c. split; [apply alphabet_in_class; exact Ha|apply Z.eqb_refl].
Qed.

Lemma digit_token_not_barcode tok : (exists c, In c tok /\ (48 <= c <= 57)%Z) -> is_barcode_token tok = false.
Proof.
  intros (c & Hc & Hr). unfold is_barcode_token.
  destruct (forallb _ tok) eqn:E; [|reflexivity]. exfalso.
  rewrite forallb_forall in E. specialize (E c Hc). apply existsb_exists in E. destruct E as [a [Ha E]].
  apply Z.eqb_eq in E. subst a.
  assert (Hall : forallb (fun a => negb ((48 <=? a)%Z && (a <=? 57)%Z)) gen_column_class = true) by (vm_compute; reflexivity).
  rewrite forallb_forall in Hall. specialize (Hall c Ha). apply negb_true_iff in Hall.
  apply andb_false_iff in Hall. destruct Hall as [Hl|Hl]; [apply Z.leb_gt in Hl|apply Z.leb_gt in Hl]; lia.
Qed.

Theorem parse_barcode_first rows :
  (exists r, In r rows /\ in_alphabet (fst r) = true) -> parse_rows rows = rows.
Proof.
  intros (r & Hr & Hw). unfold parse_rows, index_not_first.
  replace (existsb _ rows) with true; [reflexivity|]. symmetry. apply existsb_exists.
  exists r. split; [exact Hr|apply barcode_token_wf; exact Hw].
Qed.

Theorem parse_index_first rows :
  (forall r, In r rows -> exists c, In c (fst r) /\ (48 <= c <= 57)%Z) ->
  parse_rows rows = map (fun r => (snd r, fst r)) rows.
Proof.
  intros H. unfold parse_rows, index_not_first.
  replace (existsb _ rows) with false; [reflexivity|]. symmetry.
  destruct (existsb _ rows) eqn:E; [|reflexivity]. exfalso.
  apply existsb_exists in E. destruct E as [r [Hr Hb]].
  pose proof (digit_token_not_barcode _ (H r Hr)) as Hd. cbv beta in Hb. exact (eq_true_false_abs _ Hb Hd).
Qed.
