(* C16 proofs, part b: the repaired machine (cfg_ref) refines the brute force specification for every
   operation history; refutations for the machine as the code is at HEAD (cfg_head). *)
From Coq Require Import ZArith List Bool Lia Permutation Sorted.
Import ListNotations.
From SCMO Require Import Gen.GenFeatures Model.C16 Proofs.C16_a.
Open Scope Z_scope.

(* ------------------------------------------------------------------ the lru cache *)
Lemma key_eqb_eq a b : key_eqb a b = true <-> a = b.
Proof.
  destruct a as [[[a1 a2] a3] a4], b as [[[b1 b2] b3] b4]. cbn.
  rewrite !andb_true_iff, !Z.eqb_eq. split.
  - intros [[[H1 H2] H3] H4]. subst. reflexivity.
  - intros H. inversion H. subst. repeat split.
Qed.

Definition memo_okf (ans : key -> list feat) (m : memo) : Prop := forall k v, In (k, v) m -> v = ans k.

Lemma memo_find_In k m v : memo_find k m = Some v -> In (k, v) m.
Proof.
  induction m as [|[k' v'] t IH]; cbn; [discriminate|].
  destruct (key_eqb k k') eqn:E.
  - intros H. inversion H. subst. apply key_eqb_eq in E. subst. left. reflexivity.
  - intros H. right. apply IH. exact H.
Qed.

Lemma memo_remove_In x k m : In x (memo_remove k m) -> In x m.
Proof.
  induction m as [|[k' v'] t IH]; cbn; [contradiction|].
  destruct (key_eqb k k'); cbn; [auto|]. intros [H|H]; [left; exact H | right; apply IH; exact H].
Qed.

Lemma memo_touch_ok ans k v m : memo_okf ans m -> memo_find k m = Some v -> memo_okf ans (memo_touch k v m).
Proof.
  intros Hok Hf k' v' [H|H].
  - inversion H. subst. apply Hok. apply memo_find_In. exact Hf.
  - apply Hok. eapply memo_remove_In. exact H.
Qed.

Lemma memo_put_ok ans k v m : memo_okf ans m -> v = ans k -> memo_okf ans (memo_put k v m).
Proof.
  intros Hok Hv. unfold memo_put. destruct (memo_find k m); [exact Hok|].
  intros k' v' H. apply In_firstn in H. destruct H as [H|H].
  - inversion H. subst. reflexivity.
  - apply Hok. exact H.
Qed.

Lemma memo_okf_nil ans : memo_okf ans [].
Proof. intros k v []. Qed.

(* ------------------------------------------------------------------ contig table *)
Definition keys (cs : list (Z * crec)) : list Z := map fst cs.
Definition cfeats (c : Z) (cs : list (Z * crec)) : list feat :=
  match find_contig c cs with Some r => c_feats r | None => [] end.

Lemma find_contig_In c r cs : find_contig c cs = Some r -> In (c, r) cs.
Proof.
  induction cs as [|[c' r'] t IH]; cbn; [discriminate|].
  destruct (Z.eqb_spec c c').
  - intros H. inversion H. subst. left. reflexivity.
  - intros H. right. apply IH. exact H.
Qed.

Lemma In_find_contig c r cs : NoDup (keys cs) -> In (c, r) cs -> find_contig c cs = Some r.
Proof.
  induction cs as [|[c' r'] t IH]; cbn; intros Hnd Hin; [contradiction|].
  inversion Hnd as [|? ? Hni Hnd']; subst.
  destruct Hin as [Hin|Hin].
  - inversion Hin. subst. rewrite Z.eqb_refl. reflexivity.
  - destruct (Z.eqb_spec c c').
    + subst. exfalso. apply Hni. apply (in_map fst) in Hin. exact Hin.
    + apply IH; assumption.
Qed.

Lemma find_contig_map g c cs :
  find_contig c (map (fun p => (fst p, g (snd p))) cs) = option_map g (find_contig c cs).
Proof.
  induction cs as [|[c' r'] t IH]; cbn; [reflexivity|].
  destruct (c =? c'); [reflexivity | exact IH].
Qed.

Lemma keys_map g cs : keys (map (fun p : Z * crec => (fst p, g (snd p))) cs) = keys cs.
Proof. unfold keys. rewrite map_map. reflexivity. Qed.

Lemma keys_add x c f cs : In x (keys (add_contig c f cs)) -> x = c \/ In x (keys cs).
Proof.
  induction cs as [|[c' r'] t IH]; cbn.
  - intros [H|[]]. left. symmetry. exact H.
  - destruct (Z.eqb_spec c c'); cbn; [tauto|].
    intros [H|H]; [tauto|]. destruct (IH H); tauto.
Qed.

Lemma nodup_add c f cs : NoDup (keys cs) -> NoDup (keys (add_contig c f cs)).
Proof.
  induction cs as [|[c' r'] t IH]; cbn; intros Hnd.
  - constructor; [intros [] | constructor].
  - inversion Hnd as [|? ? Hni Hnd']; subst.
    destruct (Z.eqb_spec c c'); cbn; [constructor; assumption|].
    constructor; [|apply IH; exact Hnd'].
    intros H. apply keys_add in H. destruct H as [H|H]; [congruence | contradiction].
Qed.

Lemma cfeats_add_same c f cs : cfeats c (add_contig c f cs) = cfeats c cs ++ [f].
Proof.
  unfold cfeats. induction cs as [|[c' r'] t IH]; cbn.
  - rewrite Z.eqb_refl. reflexivity.
  - destruct (Z.eqb_spec c c'); cbn.
    + subst. rewrite Z.eqb_refl. reflexivity.
    + destruct (Z.eqb_spec c c'); [contradiction | exact IH].
Qed.

Lemma cfeats_add_other c c0 f cs : c0 <> c -> cfeats c0 (add_contig c f cs) = cfeats c0 cs.
Proof.
  intros Hne. unfold cfeats. induction cs as [|[c' r'] t IH]; cbn.
  - destruct (Z.eqb_spec c0 c); [contradiction | reflexivity].
  - destruct (Z.eqb_spec c c'); cbn.
    + subst. destruct (Z.eqb_spec c0 c'); [contradiction | reflexivity].
    + destruct (c0 =? c'); [reflexivity | exact IH].
Qed.

(* ------------------------------------------------------------------ the abstract side *)
Lemma feats_of_In c f all : In f (feats_of c all) <-> In (c, f) all.
Proof.
  unfold feats_of. rewrite in_map_iff. split.
  - intros [[c' f'] [H1 H2]]. apply filter_In in H2. destruct H2 as [H2 H3]. cbn in *. subst.
    apply Z.eqb_eq in H3. subst. exact H2.
  - intros H. exists (c, f). split; [reflexivity|]. apply filter_In. split; [exact H | cbn; apply Z.eqb_refl].
Qed.

Lemma feats_of_app c all ext : feats_of c (all ++ ext) = feats_of c all ++ feats_of c ext.
Proof. unfold feats_of. rewrite filter_app, map_app. reflexivity. Qed.

Definition orderableP (all : list (Z * feat)) : Prop :=
  forall p p', In p all -> In p' all -> fst p = fst p' -> incomparable (snd p) (snd p') = false.

Lemma orderableb_P all : orderableb all = true <-> orderableP all.
Proof.
  unfold orderableb, orderableP. rewrite forallb_forall. split.
  - intros H p p' Hp Hp' He. specialize (H p Hp). rewrite forallb_forall in H. specialize (H p' Hp').
    apply negb_true_iff in H. apply andb_false_iff in H. destruct H as [H|H]; [|exact H].
    apply Z.eqb_neq in H. contradiction.
  - intros H p Hp. apply forallb_forall. intros p' Hp'. apply negb_true_iff.
    destruct (Z.eqb_spec (fst p) (fst p')) as [E|E]; [|reflexivity]. cbn. apply H; assumption.
Qed.

Definition all_wf (all : list (Z * feat)) : Prop :=
  (forall p, In p all -> wfP (snd p)) /\ orderableP all.

Definition rel (cs : list (Z * crec)) (all : list (Z * feat)) : Prop :=
  forall c, Permutation (cfeats c cs) (feats_of c all).

Lemma existsb_false {A} (p : A -> bool) l : (forall x, In x l -> p x = false) -> existsb p l = false.
Proof.
  induction l as [|a l IH]; intros H; cbn; [reflexivity|].
  rewrite (H a (or_introl eq_refl)). apply IH. intros x Hx. apply H. right. exact Hx.
Qed.

Lemma rel_facts cs all c r :
  rel cs all -> all_wf all -> NoDup (keys cs) -> In (c, r) cs ->
  has_incomparable (c_feats r) = false /\ (forall f, In f (c_feats r) -> wfP f).
Proof.
  intros Hrel [Hwf Hord] Hnd Hin.
  assert (Hc : cfeats c cs = c_feats r) by (unfold cfeats; rewrite (In_find_contig c r cs Hnd Hin); reflexivity).
  assert (Hall : forall f, In f (c_feats r) -> In (c, f) all).
  { intros f Hf. apply feats_of_In. eapply Permutation_in; [apply Hrel|]. rewrite Hc. exact Hf. }
  split.
  - unfold has_incomparable. apply existsb_false. intros a Ha. apply existsb_false. intros b Hb.
    apply (Hord (c, a) (c, b)); [apply Hall; exact Ha | apply Hall; exact Hb | reflexivity].
  - intros f Hf. apply (Hwf (c, f)). apply Hall. exact Hf.
Qed.

(* ------------------------------------------------------------------ sort() with the cache cleared first *)
Lemma nb_ignores_fast fs0 x q : at_rec (build_pure fs0) x q 1 = at_rec (pre_rec (sort_feats fs0)) x q 1.
Proof. reflexivity. Qed.

Lemma lowest_starts_ok c r1 ans l : forall m,
  (forall x, ans (c, x, 0, 1) = at_rec r1 x 0 1) ->
  memo_okf ans m ->
  (forall f, In f l -> at_rec r1 (f_start f) 0 1 <> []) ->
  exists m', lowest_starts c r1 l m = (Some (map (fun f => min_start (at_rec r1 (f_start f) 0 1)) l), m')
             /\ memo_okf ans m'.
Proof.
  induction l as [|f t IH]; intros m Hans Hok Hne; cbn [lowest_starts map].
  - exists m. split; [reflexivity | exact Hok].
  - assert (Hnb : exists m1, nb_cached c r1 (f_start f) m = (at_rec r1 (f_start f) 0 1, m1) /\ memo_okf ans m1).
    { unfold nb_cached. destruct (memo_find (c, f_start f, 0, 1) m) as [v|] eqn:Ef.
      - pose proof (Hok _ _ (memo_find_In _ _ _ Ef)) as Hv. rewrite Hans in Hv. subst v.
        eexists. split; [reflexivity|]. apply memo_touch_ok; assumption.
      - eexists. split; [reflexivity|]. apply memo_put_ok; [exact Hok | symmetry; apply Hans]. }
    destruct Hnb as [m1 [Enb Hok1]]. rewrite Enb.
    destruct (at_rec r1 (f_start f) 0 1) as [|g v'] eqn:Ev.
    + exfalso. apply (Hne f (or_introl eq_refl)). exact Ev.
    + destruct (IH m1 Hans Hok1) as [m2 [E2 Hok2]]; [intros f' Hf'; apply Hne; right; exact Hf'|].
      rewrite E2. exists m2. split; [reflexivity | exact Hok2].
Qed.

Lemma sort_one_ok c r m ans :
  has_incomparable (c_feats r) = false -> (forall f, In f (c_feats r) -> wfP f) ->
  (forall x, ans (c, x, 0, 1) = at_rec (pre_rec (sort_feats (c_feats r))) x 0 1) ->
  memo_okf ans m ->
  exists m', sort_one c r m = (inl (build_pure (c_feats r)), m') /\ memo_okf ans m'.
Proof.
  intros Hinc Hwf Hans Hok. unfold sort_one. rewrite Hinc.
  set (fs := sort_feats (c_feats r)) in *.
  assert (Hwf' : forall f, In f fs -> wfP f) by (intros f Hf; apply Hwf, sort_In; exact Hf).
  rewrite (existsb_false (fun f => f_end f <? 0) fs).
  2:{ intros f Hf. destruct (Hwf' f Hf) as [_ H]. apply Z.ltb_ge. exact H. }
  destruct (lowest_starts_ok c (pre_rec fs) ans fs m Hans Hok) as [m' [E Hok']].
  { intros f Hf Hnil.
    assert (Hin : In f (at_rec (pre_rec fs) (f_start f) 0 1)).
    { apply pre_rec_nb_In; [apply sort_sorted | intros g Hg; apply (Hwf' g Hg) |].
      split; [exact Hf|]. destruct (Hwf' f Hf) as [H _]. unfold contains.
      apply andb_true_iff. split; apply Z.leb_le; lia. }
    rewrite Hnil in Hin. contradiction. }
  rewrite E. exists m'. split; [|exact Hok'].
  unfold build_pure. fold fs. rewrite map_map. reflexivity.
Qed.

Definition build_all (cs : list (Z * crec)) : list (Z * crec) :=
  map (fun p => (fst p, build_pure (c_feats (snd p)))) cs.

Lemma sort_contigs_ok ans l : forall m,
  (forall c r, In (c, r) l ->
     has_incomparable (c_feats r) = false /\ (forall f, In f (c_feats r) -> wfP f) /\
     (forall x, ans (c, x, 0, 1) = at_rec (pre_rec (sort_feats (c_feats r))) x 0 1)) ->
  memo_okf ans m ->
  exists m', sort_contigs l m = (inl (build_all l), m') /\ memo_okf ans m'.
Proof.
  induction l as [|[c r] t IH]; intros m H Hok; cbn [sort_contigs build_all map].
  - exists m. split; [reflexivity | exact Hok].
  - destruct (H c r (or_introl eq_refl)) as [H1 [H2 H3]].
    destruct (sort_one_ok c r m ans H1 H2 H3 Hok) as [m1 [E1 Hok1]]. rewrite E1.
    destruct (IH m1) as [m2 [E2 Hok2]]; [intros c' r' Hin; apply H; right; exact Hin | exact Hok1 |].
    rewrite E2. exists m2. split; [reflexivity | exact Hok2].
Qed.

Record Inv (st : state) (all : list (Z * feat)) : Prop := {
  inv_nodup : NoDup (keys (st_contigs st));
  inv_rel : rel (st_contigs st) all;
  inv_sorted : st_sorted st = true ->
               (forall c r, In (c, r) (st_contigs st) -> wb r) /\
               memo_okf (answer (st_contigs st)) (st_memo st);
  inv_unsorted : st_sorted st = false -> st_memo st = [] }.

Lemma cfeats_build c cs : cfeats c (build_all cs) = sort_feats (cfeats c cs).
Proof.
  unfold cfeats, build_all. rewrite (find_contig_map (fun r => build_pure (c_feats r))). destruct (find_contig c cs); reflexivity.
Qed.

Lemma do_sort_ok st all :
  NoDup (keys (st_contigs st)) -> rel (st_contigs st) all -> all_wf all ->
  exists st', do_sort cfg_ref st = (st', None) /\ Inv st' all /\ st_sorted st' = true.
Proof.
  intros Hnd Hrel Hwf. unfold do_sort. cbn [fix_clear cfg_ref].
  set (cs := st_contigs st) in *.
  destruct (sort_contigs_ok (answer (build_all cs)) cs []) as [m' [E Hok]].
  - intros c r Hin. destruct (rel_facts cs all c r Hrel Hwf Hnd Hin) as [H1 H2].
    split; [exact H1|]. split; [exact H2|].
    intros x. unfold answer, build_all. rewrite (find_contig_map (fun r => build_pure (c_feats r))).
    rewrite (In_find_contig c r cs Hnd Hin). reflexivity.
  - apply memo_okf_nil.
  - rewrite E. eexists. split; [reflexivity|]. split; [|reflexivity].
    constructor; cbn [st_contigs st_sorted st_memo].
    + unfold build_all. rewrite (keys_map (fun r => build_pure (c_feats r))). exact Hnd.
    + intros c. rewrite cfeats_build. rewrite sort_perm. apply Hrel.
    + intros _. split; [|exact Hok].
      intros c r Hin. unfold build_all in Hin. apply in_map_iff in Hin.
      destruct Hin as [[c0 r0] [Heq Hin]]. cbn in Heq. inversion Heq. subst.
      apply build_wb. intros f Hf.
      destruct (rel_facts cs all c r0 Hrel Hwf Hnd Hin) as [_ H2]. apply (H2 f Hf).
    + discriminate.
Qed.

Lemma ensure_sorted_ok st all :
  Inv st all -> all_wf all ->
  exists st', ensure_sorted cfg_ref st = (st', None) /\ Inv st' all /\ st_sorted st' = true /\
              (st_sorted st = true -> st' = st).
Proof.
  intros Hinv Hwf. unfold ensure_sorted. destruct (st_sorted st) eqn:Es.
  - exists st. split; [reflexivity|]. split; [exact Hinv|]. split; [exact Es | reflexivity].
  - destruct (do_sort_ok st all (inv_nodup _ _ Hinv) (inv_rel _ _ Hinv) Hwf) as [st' [E [Hi Hs]]].
    exists st'. split; [exact E|]. split; [exact Hi|]. split; [exact Hs | discriminate].
Qed.

(* findFeaturesAt through the cache *)
Lemma at_cached_ok st all k :
  Inv st all -> all_wf all ->
  exists st', at_cached cfg_ref st k = (st', ROk (answer (st_contigs st') k)) /\ Inv st' all /\
              st_sorted st' = true /\ (st_sorted st = true -> st_contigs st' = st_contigs st).
Proof.
  intros Hinv Hwf. unfold at_cached. rewrite autosort_at_shape.
  destruct (memo_find k (st_memo st)) as [v|] eqn:Ef.
  - destruct (st_sorted st) eqn:Es.
    + destruct (inv_sorted _ _ Hinv Es) as [Hwb Hok].
      pose proof (Hok _ _ (memo_find_In _ _ _ Ef)) as Hv. subst v.
      exists (mkS (st_contigs st) true (memo_touch k (answer (st_contigs st) k) (st_memo st))).
      split; [reflexivity|]. cbn [st_contigs st_sorted st_memo]. split; [|split; [reflexivity | reflexivity]].
      constructor; cbn [st_contigs st_sorted st_memo].
      * exact (inv_nodup _ _ Hinv).
      * exact (inv_rel _ _ Hinv).
      * intros _. split; [exact Hwb | apply memo_touch_ok; assumption].
      * discriminate.
    + rewrite (inv_unsorted _ _ Hinv Es) in Ef. discriminate.
  - destruct (ensure_sorted_ok st all Hinv Hwf) as [st1 [E [Hi1 [Hs1 Hsame]]]]. rewrite E.
    exists (mkS (st_contigs st1) (st_sorted st1) (memo_put k (answer (st_contigs st1) k) (st_memo st1))).
    split; [reflexivity|]. cbn [st_contigs st_sorted st_memo].
    split; [|split; [exact Hs1 | intros Hs; rewrite (Hsame Hs); reflexivity]].
    destruct (inv_sorted _ _ Hi1 Hs1) as [Hwb Hok].
    constructor; cbn [st_contigs st_sorted st_memo].
    + exact (inv_nodup _ _ Hi1).
    + exact (inv_rel _ _ Hi1).
    + intros _. split; [exact Hwb | apply memo_put_ok; [exact Hok | reflexivity]].
    + rewrite Hs1. discriminate.
Qed.

(* ------------------------------------------------------------------ what an answer of a sorted state means *)
Lemma answer_In st all c x q o f :
  Inv st all -> st_sorted st = true -> o = 0 \/ o = 1 \/ o = 2 ->
  (In f (answer (st_contigs st) (c, x, q, o)) <-> In f (feats_of c all) /\ hit x q f = true).
Proof.
  intros Hinv Hs Ho. destruct (inv_sorted _ _ Hinv Hs) as [Hwb _].
  pose proof (inv_rel _ _ Hinv c) as Hrel. unfold cfeats in Hrel. unfold answer.
  destruct (find_contig c (st_contigs st)) as [r|] eqn:Ef.
  - pose proof (Hwb c r (find_contig_In _ _ _ Ef)) as Hr. rewrite (wb_idx r Hr).
    rewrite (at_exact_In r x q o f Hr Ho).
    split; intros [H1 H2]; (split; [|exact H2]).
    + eapply Permutation_in; [exact Hrel | exact H1].
    + eapply Permutation_in; [apply Permutation_sym; exact Hrel | exact H1].
  - apply Permutation_nil in Hrel. rewrite Hrel. cbn. tauto.
Qed.

Lemma answer_perm st all c x q :
  Inv st all -> st_sorted st = true ->
  Permutation (answer (st_contigs st) (c, x, q, 0)) (spec_at all c x q).
Proof.
  intros Hinv Hs. destruct (inv_sorted _ _ Hinv Hs) as [Hwb _].
  pose proof (inv_rel _ _ Hinv c) as Hrel. unfold cfeats in Hrel. unfold answer, spec_at.
  destruct (find_contig c (st_contigs st)) as [r|] eqn:Ef.
  - pose proof (Hwb c r (find_contig_In _ _ _ Ef)) as Hr. rewrite (wb_idx r Hr).
    rewrite (at_exact_fast r x q Hr). apply perm_filter. exact Hrel.
  - apply Permutation_nil in Hrel. rewrite Hrel. reflexivity.
Qed.

Lemma answer_nodup st all c x q o :
  Inv st all -> st_sorted st = true -> o = 1 \/ o = 2 -> NoDup (answer (st_contigs st) (c, x, q, o)).
Proof.
  intros Hinv Hs Ho. destruct (inv_sorted _ _ Hinv Hs) as [Hwb _]. unfold answer.
  destruct (find_contig c (st_contigs st)) as [r|] eqn:Ef; [|constructor].
  pose proof (Hwb c r (find_contig_In _ _ _ Ef)) as Hr. rewrite (wb_idx r Hr).
  rewrite (at_exact_set r x q o Hr Ho). apply NoDup_filter. apply dedup_NoDup.
Qed.

(* ------------------------------------------------------------------ findFeaturesBetween *)
Definition between_pure (cs : list (Z * crec)) (c a b q : Z) : list feat :=
  match find_contig c cs with
  | None => []
  | Some r => if negb (c_indexed r) then []
              else dedup (between_rec r a b q ++ answer cs (c, a, q, 0) ++ answer cs (c, b, q, 0))
  end.

Lemma between_run st all c a b q :
  Inv st all -> all_wf all ->
  exists st', between cfg_ref st c a b q = (st', ROk (between_pure (st_contigs st') c a b q)) /\
              Inv st' all /\ st_sorted st' = true /\ (st_sorted st = true -> st_contigs st' = st_contigs st).
Proof.
  intros Hinv Hwf. unfold between. cbn [fix_autosort cfg_ref].
  destruct (ensure_sorted_ok st all Hinv Hwf) as [st1 [E [Hi1 [Hs1 Hsame]]]]. rewrite E.
  unfold between_pure.
  destruct (find_contig c (st_contigs st1)) as [r|] eqn:Ef.
  2:{ exists st1. rewrite Ef. split; [reflexivity|]. split; [exact Hi1|]. split; [exact Hs1|].
      intros Hs. rewrite (Hsame Hs). reflexivity. }
  destruct (negb (c_indexed r)) eqn:Ei.
  { exists st1. rewrite Ef, Ei. split; [reflexivity|]. split; [exact Hi1|]. split; [exact Hs1|].
    intros Hs. rewrite (Hsame Hs). reflexivity. }
  destruct (at_cached_ok st1 all (c, a, q, 0) Hi1 Hwf) as [st2 [E2 [Hi2 [Hs2 Hc2]]]]. rewrite E2.
  destruct (at_cached_ok st2 all (c, b, q, 0) Hi2 Hwf) as [st3 [E3 [Hi3 [Hs3 Hc3]]]]. rewrite E3.
  specialize (Hc2 Hs1). specialize (Hc3 Hs2).
  exists st3. rewrite Hc3, Hc2, Ef, Ei. split; [reflexivity|]. split; [exact Hi3|]. split; [exact Hs3|].
  intros Hs. rewrite (Hsame Hs). reflexivity.
Qed.

Lemma between_pure_In st all c a b q f :
  Inv st all -> st_sorted st = true -> a <= b ->
  (In f (between_pure (st_contigs st) c a b q) <-> In f (feats_of c all) /\ hit_between a b q f = true).
Proof.
  intros Hinv Hs Hab. destruct (inv_sorted _ _ Hinv Hs) as [Hwb _].
  pose proof (inv_rel _ _ Hinv c) as Hrel. unfold cfeats in Hrel. unfold between_pure, answer.
  destruct (find_contig c (st_contigs st)) as [r|] eqn:Ef.
  - pose proof (Hwb c r (find_contig_In _ _ _ Ef)) as Hr. rewrite (wb_idx r Hr). cbn [negb].
    rewrite (between_exact r a b q f Hr Hab).
    split; intros [H1 H2]; (split; [|exact H2]).
    + eapply Permutation_in; [exact Hrel | exact H1].
    + eapply Permutation_in; [apply Permutation_sym; exact Hrel | exact H1].
  - apply Permutation_nil in Hrel. rewrite Hrel. cbn. tauto.
Qed.

Lemma between_pure_nodup cs c a b q : NoDup (between_pure cs c a b q).
Proof.
  unfold between_pure. destruct (find_contig c cs) as [r|]; [|constructor].
  destruct (negb (c_indexed r)); [constructor | apply dedup_NoDup].
Qed.

(* ------------------------------------------------------------------ findFeaturesAtPysamAlign *)
Lemma fold_q_ok {A} (f : state -> A -> state * res) (g : A -> list feat) (P : state -> Prop) :
  (forall st x, P st -> exists st', f st x = (st', ROk (g x)) /\ P st') ->
  forall xs st acc, P st -> exists st', fold_q f st xs acc = (st', ROk (acc ++ flat_map g xs)) /\ P st'.
Proof.
  intros Hf. induction xs as [|x t IH]; intros st acc HP; cbn.
  - exists st. rewrite app_nil_r. split; [reflexivity | exact HP].
  - destruct (Hf st x HP) as [st1 [E HP1]]. rewrite E.
    destruct (IH st1 (acc ++ g x) HP1) as [st2 [E2 HP2]]. exists st2. rewrite E2, app_assoc. split; [reflexivity | exact HP2].
Qed.

Lemma zrange_In p a n : In p (zrange a n) <-> a <= p < a + Z.of_nat n.
Proof.
  revert a. induction n as [|n IH]; intros a; cbn [zrange In]; [lia|].
  rewrite IH. lia.
Qed.

Lemma block_positions_In p bl :
  In p (block_positions bl) <-> exists a b, In (a, b) bl /\ a <= p < b.
Proof.
  unfold block_positions. rewrite in_flat_map. split.
  - intros [[a b] [Hin Hp]]. cbn in Hp. apply zrange_In in Hp. exists a, b. split; [exact Hin | lia].
  - intros [a [b [Hin Hp]]]. exists (a, b). split; [exact Hin|]. cbn. apply zrange_In. lia.
Qed.

Definition covered (bl : list (Z * Z)) (f : feat) : Prop :=
  exists a b p, In (a, b) bl /\ a <= p < b /\ f_start f <= p <= f_end f.

Definition blocks_spec (all : list (Z * feat)) (c : Z) (bl : list (Z * Z)) (q : Z) (l : list feat) : Prop :=
  NoDup l /\ forall f, In f l <-> In f (feats_of c all) /\ smatch q f = true /\ covered bl f.

Lemma hit_split x q f : hit x q f = true <-> f_start f <= x <= f_end f /\ smatch q f = true.
Proof. unfold hit, contains. rewrite !andb_true_iff, !Z.leb_le. tauto. Qed.

Lemma hit_between_split a b q f :
  hit_between a b q f = true <-> (a <= b /\ a <= f_end f /\ f_start f <= b /\ f_start f <= f_end f) /\ smatch q f = true.
Proof. unfold hit_between. rewrite andb_true_iff, overlap_spec. tauto. Qed.

Lemma blocks_ok st all c bl q meth :
  Inv st all -> all_wf all -> (forall a b, In (a, b) bl -> a < b) ->
  exists st' l, blocks cfg_ref st c bl q meth = (st', ROk l) /\ Inv st' all /\ blocks_spec all c bl q l.
Proof.
  intros Hinv Hwf Hbl. unfold blocks. cbn [fix_autosort fix_halfopen cfg_ref].
  destruct (ensure_sorted_ok st all Hinv Hwf) as [st1 [E [Hi1 [Hs1 _]]]]. rewrite E.
  assert (Hempty : find_contig c (st_contigs st1) = None -> blocks_spec all c bl q []).
  { intros Ef. pose proof (inv_rel _ _ Hi1 c) as Hrel. unfold cfeats in Hrel. rewrite Ef in Hrel.
    apply Permutation_nil in Hrel. split; [constructor|]. intros f. rewrite Hrel. cbn. tauto. }
  destruct (find_contig c (st_contigs st1)) as [r|] eqn:Ef.
  2:{ exists st1, []. split; [reflexivity|]. split; [exact Hi1 | apply Hempty; reflexivity]. }
  destruct (inv_sorted _ _ Hi1 Hs1) as [Hwb _].
  pose proof (Hwb c r (find_contig_In _ _ _ Ef)) as Hr. rewrite (wb_idx r Hr). cbn [negb].
  set (cs := st_contigs st1).
  set (P := fun s : state => Inv s all /\ st_sorted s = true /\ st_contigs s = cs).
  assert (HP1 : P st1) by (unfold P; auto).
  destruct (meth =? 0).
  - (* every aligned base *)
    destruct (fold_q_ok (fun s p => at_cached cfg_ref s (c, p, q, 0)) (fun p => answer cs (c, p, q, 0)) P) with
        (xs := block_positions bl) (st := st1) (acc := @nil feat) as [st2 [E2 [Hi2 [Hs2 Hc2]]]]; [|exact HP1|].
    + intros s p [Hi [Hs Hc]]. destruct (at_cached_ok s all (c, p, q, 0) Hi Hwf) as [s' [Es [Hi' [Hs' Hc']]]].
      exists s'. rewrite Es, (Hc' Hs), Hc. split; [reflexivity|]. unfold P. rewrite (Hc' Hs). auto.
    + rewrite E2. eexists. eexists. split; [reflexivity|]. split; [exact Hi2|].
      split; [apply dedup_NoDup|]. intros f. cbn [app]. rewrite dedup_In, in_flat_map. split.
      * intros [p [Hp Hf]]. unfold cs in Hf. rewrite (answer_In st1 all c p q 0 f Hi1 Hs1) in Hf by auto.
        destruct Hf as [Hf1 Hf2]. apply hit_split in Hf2. destruct Hf2 as [Hf2 Hf3].
        apply block_positions_In in Hp. destruct Hp as [a [b [Hab Hp]]].
        split; [exact Hf1|]. split; [exact Hf3|]. exists a, b, p. auto.
      * intros [Hf1 [Hf3 [a [b [p [Hab [Hp Hf2]]]]]]]. exists p. split.
        -- apply block_positions_In. exists a, b. auto.
        -- unfold cs. rewrite (answer_In st1 all c p q 0 f Hi1 Hs1) by auto. split; [exact Hf1|].
           apply hit_split. auto.
  - (* every block, closed end = half open end - 1 (g_block_end of the current source) *)
    destruct (fold_q_ok (fun s p => between cfg_ref s c (g_block_start (fst p) (snd p)) (g_block_end (fst p) (snd p)) q)
                        (fun p => between_pure cs c (g_block_start (fst p) (snd p)) (g_block_end (fst p) (snd p)) q) P) with
        (xs := bl) (st := st1) (acc := @nil feat) as [st2 [E2 [Hi2 [Hs2 Hc2]]]]; [|exact HP1|].
    + intros s p [Hi [Hs Hc]].
      destruct (between_run s all c (g_block_start (fst p) (snd p)) (g_block_end (fst p) (snd p)) q Hi Hwf) as [s' [Es [Hi' [Hs' Hc']]]].
      exists s'. rewrite Es, (Hc' Hs), Hc. split; [reflexivity|]. unfold P. rewrite (Hc' Hs). auto.
    + rewrite E2. eexists. eexists. split; [reflexivity|]. split; [exact Hi2|].
      split; [apply dedup_NoDup|]. intros f. cbn [app]. rewrite dedup_In, in_flat_map. split.
      * intros [[a b] [Hab Hf]]. cbn [fst snd] in Hf. rewrite block_start_shape, block_end_shape in Hf.
        specialize (Hbl a b Hab).
        unfold cs in Hf. rewrite (between_pure_In st1 all c a (b - 1) q f Hi1 Hs1) in Hf by lia.
        destruct Hf as [Hf1 Hf2]. apply hit_between_split in Hf2. destruct Hf2 as [Hf2 Hf3].
        split; [exact Hf1|]. split; [exact Hf3|]. exists a, b, (Z.max a (f_start f)). split; [exact Hab|]. lia.
      * intros [Hf1 [Hf3 [a [b [p [Hab [Hp Hf2]]]]]]]. exists (a, b). split; [exact Hab|]. cbn [fst snd].
        rewrite block_start_shape, block_end_shape.
        unfold cs. rewrite (between_pure_In st1 all c a (b - 1) q f Hi1 Hs1) by lia. split; [exact Hf1|].
        apply hit_between_split. split; [lia | exact Hf3].
Qed.

(* ------------------------------------------------------------------ the history theorem *)
Definition ans_ok (all : list (Z * feat)) (o : op) (r : res) : Prop :=
  match o, r with
  | Add c f, ROk l => l = [] /\ strand_ok f = true
  | Add c f, RRaise e => e = 4 /\ strand_ok f = false
  | Sort, ROk l => l = []
  | At c x q o, ROk l =>
      if o =? 0 then Permutation l (spec_at all c x q)
      else NoDup l /\ forall f, In f l <-> In f (spec_at all c x q)
  | Between c a b q, ROk l => NoDup l /\ forall f, In f l <-> In f (spec_between all c a b q)
  | Blocks c bl q _, ROk l => blocks_spec all c bl q l
  | _, _ => False
  end.

Fixpoint trace_ok (all : list (Z * feat)) (ops : list op) (rs : list res) : Prop :=
  match ops, rs with
  | [], [] => True
  | o :: t, r :: rt => ans_ok all o r /\ trace_ok (abs_step all o) t rt
  | _, _ => False
  end.

Fixpoint hist_wf (all : list (Z * feat)) (ops : list op) : Prop :=
  match ops with
  | [] => True
  | o :: t => op_wfb o = true /\ all_wf (abs_step all o) /\ hist_wf (abs_step all o) t
  end.

Lemma spec_at_In all c x q f : In f (spec_at all c x q) <-> In f (feats_of c all) /\ hit x q f = true.
Proof. unfold spec_at. apply filter_In. Qed.

Lemma spec_between_In all c a b q f :
  In f (spec_between all c a b q) <-> In f (feats_of c all) /\ hit_between a b q f = true.
Proof. unfold spec_between. apply filter_In. Qed.

Lemma inv_init : Inv init [].
Proof.
  constructor; cbn.
  - constructor.
  - intros c. reflexivity.
  - intros _. split; [intros c r [] | apply memo_okf_nil].
  - discriminate.
Qed.

Lemma step_ok st all o :
  Inv st all -> all_wf all -> op_wfb o = true -> all_wf (abs_step all o) ->
  exists st' r, step cfg_ref st o = (st', r) /\ Inv st' (abs_step all o) /\ ans_ok all o r.
Proof.
  intros Hinv Hwf Hop Hwf'. destruct o as [c f| |c x q o|c a b q|c bl q meth]; cbn [step abs_step] in *.
  - (* addFeature *)
    destruct (strand_ok f) eqn:Es.
    + eexists. eexists. split; [reflexivity|]. split; [|cbn; auto].
      constructor; cbn [st_contigs st_sorted st_memo fix_clear cfg_ref].
      * apply nodup_add. exact (inv_nodup _ _ Hinv).
      * intros c0. rewrite feats_of_app. destruct (Z.eq_dec c0 c) as [->|Hne].
        -- rewrite cfeats_add_same. unfold feats_of at 2. cbn. rewrite Z.eqb_refl. cbn.
           apply Permutation_app_tail. apply (inv_rel _ _ Hinv).
        -- rewrite cfeats_add_other by exact Hne. unfold feats_of at 2. cbn.
           destruct (Z.eqb_spec c c0); [congruence|]. cbn. rewrite app_nil_r. apply (inv_rel _ _ Hinv).
      * discriminate.
      * reflexivity.
    + exists st, (RRaise 4). split; [reflexivity|]. split; [exact Hinv | cbn; auto].
  - (* sort *)
    destruct (do_sort_ok st all (inv_nodup _ _ Hinv) (inv_rel _ _ Hinv) Hwf) as [st' [E [Hi Hs]]].
    rewrite E. exists st', (ROk []). split; [reflexivity|]. split; [exact Hi | reflexivity].
  - (* findFeaturesAt *)
    destruct (at_cached_ok st all (c, x, q, o) Hinv Hwf) as [st' [E [Hi [Hs _]]]].
    rewrite E. eexists. eexists. split; [reflexivity|]. split; [exact Hi|].
    cbn [ans_ok]. cbn [op_wfb] in Hop. apply andb_true_iff in Hop. destruct Hop as [Ho1 Ho2].
    apply Z.leb_le in Ho1. apply Z.leb_le in Ho2.
    destruct (Z.eqb_spec o 0) as [->|Hne].
    + apply answer_perm; assumption.
    + split; [apply (answer_nodup st' all); auto; lia|].
      intros f. rewrite spec_at_In. apply answer_In; auto. lia.
  - (* findFeaturesBetween *)
    destruct (between_run st all c a b q Hinv Hwf) as [st' [E [Hi [Hs _]]]].
    rewrite E. eexists. eexists. split; [reflexivity|]. split; [exact Hi|].
    cbn [ans_ok]. cbn [op_wfb] in Hop. apply Z.leb_le in Hop.
    split; [apply between_pure_nodup|]. intros f. rewrite spec_between_In. apply between_pure_In; assumption.
  - (* findFeaturesAtPysamAlign *)
    destruct (blocks_ok st all c bl q meth Hinv Hwf) as [st' [l [E [Hi Hspec]]]].
    + intros a b Hab. cbn [op_wfb] in Hop. rewrite forallb_forall in Hop. specialize (Hop (a, b) Hab).
      cbn in Hop. apply Z.ltb_lt in Hop. exact Hop.
    + rewrite E. exists st', (ROk l). split; [reflexivity|]. split; [exact Hi | exact Hspec].
Qed.

Lemma history_gen ops : forall st all,
  Inv st all -> all_wf all -> hist_wf all ops -> trace_ok all ops (run_ops cfg_ref st ops).
Proof.
  induction ops as [|o t IH]; intros st all Hinv Hwf Hh; cbn [run_ops trace_ok]; [exact I|].
  destruct Hh as [Hop [Hwf' Hh]].
  destruct (step_ok st all o Hinv Hwf Hop Hwf') as [st' [r [E [Hi Ha]]]].
  rewrite E. cbn [trace_ok]. split; [exact Ha|]. apply IH; assumption.
Qed.

(* boolean precondition (mode 1 of run_C16) implies the inductive one *)
Lemma abs_step_ext all o : exists ext, abs_step all o = all ++ ext.
Proof.
  destruct o; cbn; try (exists []; rewrite app_nil_r; reflexivity).
  destruct (strand_ok f); [eexists; reflexivity | exists []; rewrite app_nil_r; reflexivity].
Qed.

Lemma fold_abs_ext ops : forall all, exists ext, fold_left abs_step ops all = all ++ ext.
Proof.
  induction ops as [|o t IH]; intros all; cbn; [exists []; rewrite app_nil_r; reflexivity|].
  destruct (abs_step_ext all o) as [e1 E1]. destruct (IH (abs_step all o)) as [e2 E2].
  exists (e1 ++ e2). rewrite E2, E1, app_assoc. reflexivity.
Qed.

Lemma hist_wfb_gen ops : forall all,
  forallb op_wfb ops = true -> orderableP (fold_left abs_step ops all) ->
  (forall p, In p all -> wfP (snd p)) -> hist_wf all ops.
Proof.
  induction ops as [|o t IH]; intros all Hf Hord Hwf; cbn [hist_wf]; [exact I|].
  cbn [forallb] in Hf. apply andb_true_iff in Hf. destruct Hf as [Ho Hf]. cbn [fold_left] in Hord.
  assert (Hwf' : forall p, In p (abs_step all o) -> wfP (snd p)).
  { destruct o as [c f| | | |]; cbn [abs_step]; try exact Hwf.
    destruct (strand_ok f); [|exact Hwf]. intros p Hp. apply in_app_or in Hp. destruct Hp as [Hp|[Hp|[]]]; [apply Hwf; exact Hp|].
    subst p. cbn. cbn [op_wfb] in Ho. unfold wf_feat in Ho. apply andb_true_iff in Ho. destruct Ho as [H1 H2].
    apply Z.leb_le in H1. apply Z.leb_le in H2. split; assumption. }
  split; [exact Ho|]. split.
  - split; [exact Hwf'|]. destruct (fold_abs_ext t (abs_step all o)) as [ext E]. rewrite E in Hord.
    intros p p' Hp Hp'. apply Hord; apply in_or_app; left; assumption.
  - apply IH; assumption.
Qed.

Theorem history ops : hist_wfb ops = true -> trace_ok [] ops (run_ops cfg_fixed init ops).
Proof.
  rewrite cfg_fixed_shape. intros H. unfold hist_wfb in H. apply andb_true_iff in H. destruct H as [H1 H2].
  apply orderableb_P in H2. unfold final_all in H2.
  apply history_gen; [apply inv_init | split; [intros p [] | intros p p' []] |].
  apply hist_wfb_gen; [exact H1 | exact H2 | intros p []].
Qed.
