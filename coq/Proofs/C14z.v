(* C14 proofs, extension part z: the call dictionary is exactly the set of strict-majority positions; specb decides
   that specification; invariance under permutation of the fragments and under mate order; raw-level statements. *)
From Coq Require Import ZArith List Bool Lia Arith Permutation.
Import ListNotations.
From SCMO Require Import Lib.Val Gen.GenTaps Model.C14 Model.C14x Proofs.C14_a Proofs.C14 Proofs.C14x Proofs.C14y.
Open Scope Z_scope.

(* ------------------------------------------------------------------ the specification of one dictionary entry *)
Definition Entry (c : cfg) (ref : list Z) (fs : list frag) (k : call) : Prop :=
  In (k_cons k) bases /\
  0 < nfrag c fs (k_pos k) (k_cons k) /\
  (forall b', In b' bases -> b' <> k_cons k -> nfrag c fs (k_pos k) b' < nfrag c fs (k_pos k) (k_cons k)) /\
  k_cov k = nfrag c fs (k_pos k) (k_cons k) /\
  k_letter k = spec_letter ref (k_pos k) (expected c) (k_cons k).

Lemma majority_at_spec c fs pos b :
  majority_at c fs pos b = true <->
  0 < nfrag c fs pos b /\ forall b', In b' bases -> b' <> b -> nfrag c fs pos b' < nfrag c fs pos b.
Proof.
  unfold majority_at. rewrite andb_true_iff, Z.ltb_lt, forallb_forall. split; intros [H1 H2]; split; auto.
  - intros b' Hb' Hne. specialize (H2 b' Hb'). apply orb_true_iff in H2 as [H2|H2].
    + apply Z.eqb_eq in H2. contradiction.
    + now apply Z.ltb_lt.
  - intros b' Hb'. apply orb_true_iff. destruct (Z.eqb_spec b' b); auto. right. apply Z.ltb_lt. auto.
Qed.

Lemma entryb_iff c ref fs k : entryb c ref fs k = true <-> Entry c ref fs k.
Proof.
  unfold entryb, Entry. rewrite !andb_true_iff, memZ_In, majority_at_spec, !Z.eqb_eq. tauto.
Qed.

(* an entry is determined by its position and consensus base *)
Lemma Entry_unique c ref fs k k' :
  Entry c ref fs k -> Entry c ref fs k' -> k_pos k = k_pos k' -> k_cons k = k_cons k' -> k = k'.
Proof.
  intros [_ [_ [_ [H1 H2]]]] [_ [_ [_ [H1' H2']]]] Ep Ec. destruct k, k'; cbn in *. subst. reflexivity.
Qed.

Lemma Entry_make c ref fs pos b :
  In b bases -> majority_at c fs pos b = true ->
  Entry c ref fs (mkCall pos b (spec_letter ref pos (expected c) b) (nfrag c fs pos b)).
Proof.
  intros Hb Hm. apply majority_at_spec in Hm as [H1 H2]. unfold Entry. cbn. auto.
Qed.

(* ------------------------------------------------------------------ winners: the converse of winners_single *)
Lemma bases_distinct : cA <> cC /\ cA <> cG /\ cA <> cT /\ cC <> cG /\ cC <> cT /\ cG <> cT.
Proof. unfold cA, cC, cG, cT. repeat split; lia. Qed.

Lemma winners_single_conv vs pos b :
  In b bases -> 0 < count vs pos b ->
  (forall b', In b' bases -> b' <> b -> count vs pos b' < count vs pos b) ->
  winners vs pos = [b] /\ maxcount vs pos = count vs pos b.
Proof.
  intros Hb Hpos Hlt.
  destruct bases_distinct as [D1 [D2 [D3 [D4 [D5 D6]]]]].
  assert (HA : cA <> b -> count vs pos cA < count vs pos b) by (intros; apply Hlt; cbn; tauto).
  assert (HC : cC <> b -> count vs pos cC < count vs pos b) by (intros; apply Hlt; cbn; tauto).
  assert (HG : cG <> b -> count vs pos cG < count vs pos b) by (intros; apply Hlt; cbn; tauto).
  assert (HT : cT <> b -> count vs pos cT < count vs pos b) by (intros; apply Hlt; cbn; tauto).
  pose proof (count_nonneg vs pos cA). pose proof (count_nonneg vs pos cC).
  pose proof (count_nonneg vs pos cG). pose proof (count_nonneg vs pos cT).
  assert (HM : maxcount vs pos = Z.max (count vs pos cA) (Z.max (count vs pos cC) (Z.max (count vs pos cG)
                 (Z.max (count vs pos cT) 0)))) by reflexivity.
  unfold winners, bases. cbn [filter].
  destruct Hb as [<-|[<-|[<-|[<-|[]]]]].
  - specialize (HC (not_eq_sym D1)). specialize (HG (not_eq_sym D2)). specialize (HT (not_eq_sym D3)).
    destruct (Z.eqb_spec (count vs pos cA) (maxcount vs pos)); [|lia].
    destruct (Z.eqb_spec (count vs pos cC) (maxcount vs pos)); [lia|].
    destruct (Z.eqb_spec (count vs pos cG) (maxcount vs pos)); [lia|].
    destruct (Z.eqb_spec (count vs pos cT) (maxcount vs pos)); [lia|].
    destruct (Z.eqb_spec 0 (maxcount vs pos)); [lia|]. split; [reflexivity|lia].
  - specialize (HA D1). specialize (HG (not_eq_sym D4)). specialize (HT (not_eq_sym D5)).
    destruct (Z.eqb_spec (count vs pos cA) (maxcount vs pos)); [lia|].
    destruct (Z.eqb_spec (count vs pos cC) (maxcount vs pos)); [|lia].
    destruct (Z.eqb_spec (count vs pos cG) (maxcount vs pos)); [lia|].
    destruct (Z.eqb_spec (count vs pos cT) (maxcount vs pos)); [lia|].
    destruct (Z.eqb_spec 0 (maxcount vs pos)); [lia|]. split; [reflexivity|lia].
  - specialize (HA D2). specialize (HC D4). specialize (HT (not_eq_sym D6)).
    destruct (Z.eqb_spec (count vs pos cA) (maxcount vs pos)); [lia|].
    destruct (Z.eqb_spec (count vs pos cC) (maxcount vs pos)); [lia|].
    destruct (Z.eqb_spec (count vs pos cG) (maxcount vs pos)); [|lia].
    destruct (Z.eqb_spec (count vs pos cT) (maxcount vs pos)); [lia|].
    destruct (Z.eqb_spec 0 (maxcount vs pos)); [lia|]. split; [reflexivity|lia].
  - specialize (HA D3). specialize (HC D5). specialize (HG D6).
    destruct (Z.eqb_spec (count vs pos cA) (maxcount vs pos)); [lia|].
    destruct (Z.eqb_spec (count vs pos cC) (maxcount vs pos)); [lia|].
    destruct (Z.eqb_spec (count vs pos cG) (maxcount vs pos)); [lia|].
    destruct (Z.eqb_spec (count vs pos cT) (maxcount vs pos)); [|lia].
    destruct (Z.eqb_spec 0 (maxcount vs pos)); [lia|]. split; [reflexivity|lia].
Qed.

(* ------------------------------------------------------------------ the dictionary, whatever the strand *)
Definition dict (c : cfg) (ref : list Z) (fs : list frag) : list call := map (mk_call c ref) (consensus c fs).

Lemma bases_acgt b : In b bases -> is_acgt b = true.
Proof. intros [<-|[<-|[<-|[<-|[]]]]]; reflexivity. Qed.

Lemma mk_call_letter c ref pos b cov : 0 <= pos -> In b bases ->
  k_letter (mk_call c ref (pos, b, cov)) = spec_letter ref pos (expected c) b.
Proof.
  intros H0 Hb. unfold mk_call. cbn [mk_call_t k_letter]. fold symbol.
  rewrite symbol_spec by (auto using expected_CG). now rewrite upper_idem_base by now apply bases_acgt.
Qed.

Lemma dict_iff c ref fs k : wfx fs = true -> (In k (dict c ref fs) <-> Entry c ref fs k).
Proof.
  intros Hwfx. pose proof (wfx_wf _ Hwfx) as Hwf. unfold dict. rewrite in_map_iff. split.
  - intros [[[pos b] cov] [<- He]].
    destruct (consensus_In _ _ _ _ _ He) as [Hp [Hw ->]].
    apply in_map_iff in Hp as [[p' b'] [Ep Hv]]. cbn in Ep. subst p'.
    destruct (votes_wf _ _ _ _ Hwf Hv) as [H0 _].
    destruct (winners_single _ _ _ Hw) as [Hb [Hmax [Hpos Hlt]]].
    unfold Entry. rewrite mk_call_letter by auto. unfold mk_call. cbn [mk_call_t k_pos k_cons k_cov].
    rewrite <- Hmax. rewrite !vote_count in * by auto. repeat split; auto.
    intros b'' Hb'' Hne. specialize (Hlt b'' Hb'' Hne). now rewrite !vote_count in Hlt by auto.
  - intros [Hb [Hpos [Hlt [Hcov Hlet]]]].
    set (pos := k_pos k) in *. set (b := k_cons k) in *.
    destruct (nfrag_pos _ _ _ _ Hpos) as [f [Hf Hfc]].
    assert (Hv : In (pos, b) (votes c fs)).
    { unfold votes. apply in_flat_map. exists f. split; auto. apply frag_votes_iff; auto. eapply wfx_frag; eauto. }
    destruct (votes_wf _ _ _ _ Hwf Hv) as [H0 _].
    destruct (winners_single_conv (votes c fs) pos b Hb) as [Hw Hmax].
    { now rewrite vote_count. }
    { intros b' Hb' Hne. rewrite !vote_count by auto. auto. }
    exists (pos, b, maxcount (votes c fs) pos). split.
    + destruct k as [kp kc kl kv]. cbn [k_pos k_cons k_cov k_letter] in *. subst pos b.
      assert (El : kl = k_letter (mk_call c ref (kp, kc, maxcount (votes c fs) kp))) by (rewrite mk_call_letter; auto).
      unfold mk_call in *. cbn [mk_call_t k_letter] in *. rewrite <- El. f_equal.
      rewrite Hmax, vote_count; auto.
    + unfold consensus. apply in_flat_map. exists pos. split.
      * apply dedupe_In. apply in_map_iff. exists (pos, b). auto.
      * unfold cons_at. rewrite Hw. now left.
Qed.

Lemma dict_NoDup c ref fs : NoDup (map k_pos (dict c ref fs)).
Proof.
  unfold dict. rewrite map_map. erewrite map_ext; [apply consensus_NoDup|]. intros [[pos b] cov]. reflexivity.
Qed.

Lemma calls_dict c ref fs :
  (calls c ref fs = OK (dict c ref fs) /\ (c_strand c = None -> dict c ref fs = [])) \/
  (calls c ref fs = Raise /\ c_strand c = None /\ dict c ref fs <> []).
Proof.
  unfold calls, calls_t, dict. destruct (c_strand c) as [s|].
  - left. split; auto. discriminate.
  - destruct (consensus c fs) as [|e t]; [left; split; auto|right]. repeat split; auto. discriminate.
Qed.

(* ------------------------------------------------------------------ the specification of the outcome *)
Definition Spec (c : cfg) (ref : list Z) (fs : list frag) (res : result (list call)) : Prop :=
  match res with
  | Raise => c_strand c = None /\ exists k, Entry c ref fs k
  | OK out => NoDup (map k_pos out) /\ (forall k, In k out <-> Entry c ref fs k) /\
              (c_strand c = None -> forall k, ~ Entry c ref fs k)
  end.

Lemma model_meets_spec c ref fs : wfx fs = true -> Spec c ref fs (calls c ref fs).
Proof.
  intros Hwf. destruct (calls_dict c ref fs) as [[-> Hn]|[-> [Hs Hne]]]; cbn [Spec].
  - split; [apply dict_NoDup|]. split; [intros k; now apply dict_iff|].
    intros Hs k Hk. apply (dict_iff c ref fs k Hwf) in Hk. rewrite (Hn Hs) in Hk. destruct Hk.
  - split; auto. destruct (dict c ref fs) as [|k t] eqn:E; [congruence|]. exists k.
    apply (dict_iff c ref fs k Hwf). rewrite E. now left.
Qed.

Lemma callset_exact c ref fs cs k : wfx fs = true -> calls c ref fs = OK cs -> (In k cs <-> Entry c ref fs k).
Proof.
  intros Hwf Hc. pose proof (model_meets_spec c ref fs Hwf) as H. rewrite Hc in H. destruct H as [_ [H _]]. apply H.
Qed.

Lemma raise_exact c ref fs : wfx fs = true ->
  (calls c ref fs = Raise <-> c_strand c = None /\ exists k, Entry c ref fs k).
Proof.
  intros Hwf. pose proof (model_meets_spec c ref fs Hwf) as H. split.
  - intros Hc. now rewrite Hc in H.
  - intros [Hs [k Hk]]. destruct (calls c ref fs) as [cs|]; auto. destruct H as [_ [_ H]]. exfalso. exact (H Hs k Hk).
Qed.

(* ------------------------------------------------------------------ candidate positions *)
Lemma fragcall_cand c fs f pos b : In f fs -> fragcallb c f pos b = true -> In pos (cand_positions fs).
Proof.
  intros Hf H. unfold fragcallb in H. apply andb_true_iff in H as [_ H].
  destruct (safe_span c f) as [[lo hi]|]; [|discriminate].
  assert (Ho : exists o q, (o = fst f \/ o = snd f) /\ In (b, q) (obs_list c lo hi o pos)).
  { apply orb_true_iff in H as [H|H]; apply mate_calls_spec in H as [q [Hin _]]; eauto. }
  destruct Ho as [o [q [Ho Hin]]]. destruct o as [r|]; [|destruct Hin]. cbn [obs_list] in Hin.
  apply in_map_iff in Hin as [p [_ Hp]]. apply filter_In in Hp as [Hp Hk]. apply andb_true_iff in Hk as [E _].
  apply Z.eqb_eq in E. unfold cand_positions. apply dedupe_In. apply in_flat_map. exists r. split.
  - unfold reads_of. apply in_flat_map. exists f. split; auto. apply in_or_app.
    destruct Ho as [Ho|Ho]; rewrite <- Ho; [left|right]; now left.
  - apply in_map_iff. eauto.
Qed.

Lemma Entry_cand c ref fs k : Entry c ref fs k -> In (k_pos k) (cand_positions fs).
Proof.
  intros [_ [Hpos _]]. destruct (nfrag_pos _ _ _ _ Hpos) as [f [Hf Hc]]. eapply fragcall_cand; eauto.
Qed.

Lemma Entry_majority c ref fs k : Entry c ref fs k -> majority_at c fs (k_pos k) (k_cons k) = true.
Proof. intros [_ [H1 [H2 _]]]. apply majority_at_spec. auto. Qed.

Lemma any_majority_iff c ref fs : any_majority c fs = true <-> exists k, Entry c ref fs k.
Proof.
  unfold any_majority. rewrite existsb_exists. split.
  - intros [pos [_ H]]. apply existsb_exists in H as [b [Hb Hm]]. eexists. apply Entry_make; eauto.
  - intros [k Hk]. exists (k_pos k). split; [eapply Entry_cand; eauto|]. apply existsb_exists.
    exists (k_cons k). split; [apply Hk|eapply Entry_majority; eauto].
Qed.

Lemma is_none_spec s : is_none s = true <-> s = None.
Proof. destruct s; cbn; split; congruence. Qed.

(* ------------------------------------------------------------------ specb decides Spec *)
Lemma specb_iff c ref fs res : specb c ref fs res = true <-> Spec c ref fs res.
Proof.
  destruct res as [out|]; cbn [specb Spec].
  2:{ rewrite andb_true_iff, is_none_spec, (any_majority_iff c ref fs). tauto. }
  rewrite !andb_true_iff. split.
  - intros [[[H1 H2] H3] H4]. split; [now apply nodupb_NoDup|].
    rewrite forallb_forall in H2, H3.
    assert (Hall : forall k, In k out -> Entry c ref fs k) by (intros k Hk; apply entryb_iff; auto).
    split.
    + intros k. split; auto. intros Hk.
      specialize (H3 _ (Entry_cand _ _ _ _ Hk)). rewrite forallb_forall in H3.
      specialize (H3 (k_cons k) (proj1 Hk)). rewrite (Entry_majority _ _ _ _ Hk) in H3. cbn [negb orb] in H3.
      apply existsb_exists in H3 as [k' [Hk' E]]. apply andb_true_iff in E as [E1 E2]. apply Z.eqb_eq in E1, E2.
      rewrite (Entry_unique c ref fs k k'); auto.
    + intros Hs k Hk. apply orb_true_iff in H4 as [H4|H4].
      * apply negb_true_iff in H4. apply is_none_spec in Hs. congruence.
      * apply negb_true_iff in H4. assert (any_majority c fs = true) by (apply (any_majority_iff c ref fs); eauto).
        congruence.
  - intros [ND [Hiff Hnone]]. repeat split.
    + apply NoDup_nodupb; auto.
    + apply forallb_forall. intros k Hk. apply entryb_iff. now apply Hiff.
    + apply forallb_forall. intros pos _. apply forallb_forall. intros b Hb.
      destruct (majority_at c fs pos b) eqn:Hm; [|reflexivity]. cbn [negb orb].
      apply existsb_exists. eexists. split; [apply Hiff; apply Entry_make; eauto|]. cbn. now rewrite !Z.eqb_refl.
    + destruct (is_none (c_strand c)) eqn:Hs; [|reflexivity]. cbn [negb orb]. apply negb_true_iff.
      destruct (any_majority c fs) eqn:Ha; auto. exfalso.
      apply (any_majority_iff c ref fs) in Ha as [k Hk]. apply is_none_spec in Hs. exact (Hnone Hs k Hk).
Qed.

(* ------------------------------------------------------------------ equal up to the order of the dictionary *)
Definition same_result (a b : result (list call)) : Prop :=
  match a, b with
  | OK x, OK y => Permutation x y
  | Raise, Raise => True
  | _, _ => False
  end.

Lemma NoDup_pos_NoDup (l : list call) : NoDup (map k_pos l) -> NoDup l.
Proof. apply NoDup_map_inv. Qed.

Lemma spec_same c c' ref fs fs' ra rb :
  Spec c ref fs ra -> Spec c' ref fs' rb -> c_strand c = c_strand c' ->
  (forall k, Entry c ref fs k <-> Entry c' ref fs' k) -> same_result ra rb.
Proof.
  intros Ha Hb Hs He. destruct ra as [x|], rb as [y|]; cbn [Spec same_result] in *.
  - destruct Ha as [N1 [I1 _]], Hb as [N2 [I2 _]]. apply NoDup_Permutation; auto using NoDup_pos_NoDup.
    intros k. rewrite I1, I2. apply He.
  - destruct Ha as [_ [_ Hn]], Hb as [Hs' [k Hk]]. apply (Hn (eq_trans Hs Hs') k). now apply He.
  - destruct Ha as [Hs' [k Hk]], Hb as [_ [_ Hn]]. apply (Hn (eq_trans (eq_sym Hs) Hs') k). now apply He.
  - exact I.
Qed.

(* ------------------------------------------------------------------ permutation of the fragments *)
Lemma nfrag_perm c fs fs' pos b : Permutation fs fs' -> nfrag c fs pos b = nfrag c fs' pos b.
Proof.
  induction 1 as [|f l l' _ IH|f g l|l l' l'' _ IH1 _ IH2]; auto.
  - now rewrite !nfrag_cons, IH.
  - rewrite !nfrag_cons. lia.
  - congruence.
Qed.

Lemma Entry_ext c c' ref fs fs' k :
  (forall pos b, nfrag c fs pos b = nfrag c' fs' pos b) -> expected c = expected c' ->
  (Entry c ref fs k <-> Entry c' ref fs' k).
Proof.
  intros H He. unfold Entry. rewrite He.
  assert (E : forall b, nfrag c fs (k_pos k) b = nfrag c' fs' (k_pos k) b) by (intros; apply H).
  split; intros [H1 [H2 [H3 [H4 H5]]]].
  - split; [exact H1|]. split; [now rewrite <- E|]. split; [|split; [now rewrite <- E|exact H5]].
    intros b' Hb' Hne. rewrite <- !E. auto.
  - split; [exact H1|]. split; [now rewrite E|]. split; [|split; [now rewrite E|exact H5]].
    intros b' Hb' Hne. rewrite !E. auto.
Qed.

Lemma wfx_reads_incl fs fs' :
  (forall r, In r (reads_of fs') -> In r (reads_of fs)) -> wfx fs = true -> wfx fs' = true.
Proof.
  unfold wfx, wf. intros Hi H. apply andb_true_iff in H as [H1 H2]. rewrite forallb_forall in H1, H2.
  apply andb_true_iff. split; apply forallb_forall; intros r Hr; auto.
Qed.

Lemma reads_of_In fs r : In r (reads_of fs) <-> exists f, In f fs /\ (fst f = Some r \/ snd f = Some r).
Proof.
  unfold reads_of. rewrite in_flat_map. split.
  - intros [f [Hf Hr]]. exists f. split; auto. apply in_app_or in Hr as [Hr|Hr].
    + destruct (fst f); [destruct Hr as [->|[]]; auto|destruct Hr].
    + destruct (snd f); [destruct Hr as [->|[]]; auto|destruct Hr].
  - intros [f [Hf Hr]]. exists f. split; auto. apply in_or_app. destruct Hr as [-> | ->]; [left|right]; now left.
Qed.

Lemma fragment_permutation c ref fs fs' : wfx fs = true -> Permutation fs fs' ->
  same_result (calls c ref fs) (calls c ref fs').
Proof.
  intros Hwf Hp.
  assert (Hwf' : wfx fs' = true).
  { apply (wfx_reads_incl fs fs'); auto. intros r Hr. apply reads_of_In in Hr as [f [Hf Hr]].
    apply reads_of_In. exists f. split; auto. eapply Permutation_in; [apply Permutation_sym|]; eauto. }
  eapply spec_same; try apply model_meets_spec; auto.
  intros k. apply Entry_ext; auto. intros pos b. now apply nfrag_perm.
Qed.

(* ------------------------------------------------------------------ mate order *)
Definition swapf (f : frag) : frag := (snd f, fst f).
Definition swapc (c : cfg) : cfg :=
  mkCfg (c_cached c) (c_strand c) (c_tapsF c) (c_unsafe c) (c_d2 c) (c_d1 c) (c_minq c).

Lemma safe_span_swap c f : safe_span (swapc c) (swapf f) = safe_span c f.
Proof.
  destruct f as [[r1|] [r2|]]; unfold safe_span, swapf, swapc; cbn; destruct (c_unsafe c); try reflexivity.
  destruct (r_rev r1), (r_rev r2); reflexivity.
Qed.

Lemma fragcallb_swap c f pos b : fragcallb (swapc c) (swapf f) pos b = fragcallb c f pos b.
Proof.
  unfold fragcallb. rewrite safe_span_swap. unfold swapf. cbn [fst snd].
  change (mate_calls (swapc c)) with (mate_calls c).
  destruct (negb (b =? cN)), (md_ok (fst f)), (md_ok (snd f)); cbn [andb]; try reflexivity.
  destruct (safe_span c f) as [[lo hi]|]; auto. apply orb_comm.
Qed.

Lemma nfrag_swap c fs pos b : nfrag (swapc c) (map swapf fs) pos b = nfrag c fs pos b.
Proof.
  induction fs as [|f fs IH]; [reflexivity|]. cbn [map]. now rewrite !nfrag_cons, fragcallb_swap, IH.
Qed.

Lemma reads_of_swap fs r : In r (reads_of (map swapf fs)) -> In r (reads_of fs).
Proof.
  intros H. apply reads_of_In in H as [f' [Hf' Hr]]. apply in_map_iff in Hf' as [f [<- Hf]].
  apply reads_of_In. exists f. split; auto. unfold swapf in Hr. cbn [fst snd] in Hr. tauto.
Qed.

(* every fragment's mates swapped, the dove distances swapped with them: the same calls *)
Lemma mate_swap c ref fs : wfx fs = true ->
  same_result (calls (swapc c) ref (map swapf fs)) (calls c ref fs).
Proof.
  intros Hwf.
  assert (Hwf' : wfx (map swapf fs) = true) by (apply (wfx_reads_incl fs); auto; apply reads_of_swap).
  eapply spec_same; try apply model_meets_spec; auto.
  intros k. apply Entry_ext; auto. intros pos b. apply nfrag_swap.
Qed.

(* equal dove distances (the default 0, 0): the mates of ANY subset of the fragments may be swapped *)
Definition mate_variant (f f' : frag) : Prop := f' = f \/ f' = swapf f.

Lemma swapc_id c : c_d1 c = c_d2 c -> swapc c = c.
Proof. destruct c. unfold swapc. cbn. intros ->. reflexivity. Qed.

Lemma nfrag_variant c fs fs' pos b : c_d1 c = c_d2 c -> Forall2 mate_variant fs fs' ->
  nfrag c fs' pos b = nfrag c fs pos b.
Proof.
  intros Hd. induction 1 as [|f f' l l' Hv _ IH]; [reflexivity|]. rewrite !nfrag_cons, IH. f_equal.
  destruct Hv as [-> | ->]; auto. rewrite <- (fragcallb_swap c f). now rewrite swapc_id.
Qed.

Lemma reads_of_variant fs fs' r : Forall2 mate_variant fs fs' -> In r (reads_of fs') -> In r (reads_of fs).
Proof.
  intros H. induction H as [|f f' l l' Hv _ IH]; auto. intros Hr.
  apply reads_of_In in Hr as [g [[<-|Hg] Hr]].
  - apply reads_of_In. exists f. split; [now left|]. destruct Hv as [-> | ->]; auto. unfold swapf in Hr. cbn in Hr. tauto.
  - assert (Hl : In r (reads_of l)) by (apply IH; apply reads_of_In; eauto).
    apply reads_of_In in Hl as [g' [Hg' Hr']]. apply reads_of_In. exists g'. split; auto. now right.
Qed.

Lemma mate_order c ref fs fs' : wfx fs = true -> c_d1 c = c_d2 c -> Forall2 mate_variant fs fs' ->
  same_result (calls c ref fs') (calls c ref fs).
Proof.
  intros Hwf Hd Hv.
  assert (Hwf' : wfx fs' = true) by (apply (wfx_reads_incl fs); auto; intros r; now apply reads_of_variant).
  eapply spec_same; try apply model_meets_spec; auto.
  intros k. apply Entry_ext; auto. intros pos b. now apply nfrag_variant.
Qed.

(* where the code is NOT symmetric: with different dove distances the distance belongs to the ROLE (R1 / R2), so
   swapping the mates alone changes the safe span.  ex_frags of Proofs/C14.v (R1 forward 0..9, R2 reverse 2..11) with
   dove_R1_distance = 2: position 1 (lo = 0 + 2) is not called; with the mates swapped (lo = 0 + 0) it is *)
Definition ex_cfg_d : cfg := mkCfg false (Some false) true false 2 0 None.
Lemma mate_swap_asymmetric :
  exists c ref f, wfx [f] = true /\ c_d1 c <> c_d2 c /\
                  ~ same_result (calls c ref [swapf f]) (calls c ref [f]) /\
                  same_result (calls (swapc c) ref [swapf f]) (calls c ref [f]).
Proof.
  exists ex_cfg_d, ex_ref, (Some ex_r1, Some ex_r2). split; [vm_compute; reflexivity|]. split; [vm_compute; congruence|].
  split.
  - vm_compute. intros H. apply (Permutation_in (mkCall 1 84 90 1)) in H; [|now left].
    cbn in H. repeat (destruct H as [H|H]; [discriminate H|]). exact H.
  - apply (mate_swap ex_cfg_d ex_ref [(Some ex_r1, Some ex_r2)]). vm_compute. reflexivity.
Qed.

(* ======================================================================== raw-level statements *)
Definition rswapf (f : rfrag) : rfrag := (snd f, fst f).

Lemma abs_swap fs : map abs_frag (map rswapf fs) = map swapf (map abs_frag fs).
Proof. rewrite !map_map. apply map_ext. intros [o1 o2]. reflexivity. Qed.

Lemma raw_vote_count c fs pos b : rwf fs = true ->
  count (rvotes c fs) pos b = nfrag c (map abs_frag fs) pos b.
Proof. intros H. rewrite rvotes_abs. apply vote_count. now apply rwf_wfx. Qed.

Lemma raw_callset_exact c ref fs cs k : rwf fs = true -> rcalls c ref fs = OK cs ->
  (In k cs <-> Entry c ref (map abs_frag fs) k).
Proof. intros H Hc. rewrite rcalls_abs in Hc. apply callset_exact; auto. now apply rwf_wfx. Qed.

Lemma raw_raise_exact c ref fs : rwf fs = true ->
  (rcalls c ref fs = Raise <-> c_strand c = None /\ exists k, Entry c ref (map abs_frag fs) k).
Proof. intros H. rewrite rcalls_abs. apply raise_exact. now apply rwf_wfx. Qed.

Lemma raw_model_meets_spec c ref fs : rwf fs = true -> specb c ref (map abs_frag fs) (rcalls c ref fs) = true.
Proof. intros H. apply specb_iff. rewrite rcalls_abs. apply model_meets_spec. now apply rwf_wfx. Qed.

Lemma raw_fragment_permutation c ref fs fs' : rwf fs = true -> Permutation fs fs' ->
  same_result (rcalls c ref fs) (rcalls c ref fs').
Proof.
  intros H Hp. rewrite !rcalls_abs. apply fragment_permutation; [now apply rwf_wfx|now apply Permutation_map].
Qed.

Lemma raw_mate_swap c ref fs : rwf fs = true ->
  same_result (rcalls (swapc c) ref (map rswapf fs)) (rcalls c ref fs).
Proof. intros H. rewrite !rcalls_abs, abs_swap. apply mate_swap. now apply rwf_wfx. Qed.

Definition rmate_variant (f f' : rfrag) : Prop := f' = f \/ f' = rswapf f.

Lemma raw_mate_order c ref fs fs' : rwf fs = true -> c_d1 c = c_d2 c -> Forall2 rmate_variant fs fs' ->
  same_result (rcalls c ref fs') (rcalls c ref fs).
Proof.
  intros H Hd Hv. rewrite !rcalls_abs. apply mate_order.
  - now apply rwf_wfx.
  - exact Hd.
  - clear H. induction Hv as [|f f' l l' Hf _ IH]; cbn [map]; [constructor|]. constructor; [|exact IH].
    destruct Hf as [-> | ->]; [now left|right]. now destruct f.
Qed.

(* the declarative meaning of fragcallb, spelled out *)
Definition Obs (c : cfg) (lo hi : option Z) (o : option read) (pos b q : Z) : Prop :=
  exists r p, o = Some r /\ In p (r_pairs r) /\ p_pos p = pos /\ p_base p = b /\ p_qual p = q /\
    (match lo with None => True | Some l => l <= pos end) /\ (match hi with None => True | Some h => pos <= h end) /\
    (match c_minq c with None => True | Some m => m <= q end) /\ upper (p_ref p) = expected c.

Lemma obs_list_Obs c lo hi o pos b q : In (b, q) (obs_list c lo hi o pos) <-> Obs c lo hi o pos b q.
Proof.
  unfold Obs. destruct o as [r|]; cbn [obs_list].
  2:{ split; [intros []|]. intros [r [p [E _]]]. discriminate. }
  rewrite in_map_iff. split.
  - intros [p [E Hp]]. apply filter_In in Hp as [Hp Hk]. apply andb_true_iff in Hk as [E1 Hk].
    apply Z.eqb_eq in E1. injection E as <- <-. unfold keep in Hk.
    apply andb_true_iff in Hk as [Hk Href]. apply andb_true_iff in Hk as [Hk Hq]. apply andb_true_iff in Hk as [Hlo Hhi].
    apply Z.eqb_eq in Href. exists r, p. rewrite <- E1. repeat split; auto.
    + destruct lo; cbn in Hlo; [now apply Z.leb_le|exact I].
    + destruct hi; cbn in Hhi; [now apply Z.leb_le|exact I].
    + destruct (c_minq c); [now apply Z.leb_le|exact I].
  - intros [r' [p [[= <-] [Hp [E1 [Eb [Eq [Hlo [Hhi [Hq Href]]]]]]]]]]. exists p. split; [now rewrite Eb, Eq|].
    apply filter_In. split; auto. rewrite E1, Z.eqb_refl. cbn [andb]. unfold keep.
    rewrite Href, Z.eqb_refl, andb_true_r. rewrite E1.
    assert (in_lo lo pos = true) as -> by (destruct lo; cbn; [now apply Z.leb_le|reflexivity]).
    assert (in_hi hi pos = true) as -> by (destruct hi; cbn; [now apply Z.leb_le|reflexivity]).
    cbn [andb]. destruct (c_minq c); [apply Z.leb_le; now rewrite Eq|reflexivity].
Qed.

Definition FragCall (c : cfg) (f : frag) (pos b : Z) : Prop :=
  b <> cN /\ md_ok (fst f) = true /\ md_ok (snd f) = true /\
  exists lo hi, safe_span c f = Some (lo, hi) /\
    ((exists q, Obs c lo hi (fst f) pos b q /\
                forall b' q', Obs c lo hi (snd f) pos b' q' -> q' < q \/ (q' = q /\ b' = b)) \/
     (exists q, Obs c lo hi (snd f) pos b q /\
                forall b' q', Obs c lo hi (fst f) pos b' q' -> q' < q \/ (q' = q /\ b' = b))).

Lemma fragcallb_spec c f pos b : fragcallb c f pos b = true <-> FragCall c f pos b.
Proof.
  unfold fragcallb, FragCall. rewrite !andb_true_iff, negb_true_iff, Z.eqb_neq.
  destruct (safe_span c f) as [[lo hi]|].
  - rewrite orb_true_iff, !mate_calls_spec. split.
    + intros [[[Hn M1] M2] H]. repeat split; auto. exists lo, hi. split; auto.
      destruct H as [[q [Hin H]]|[q [Hin H]]]; [left|right]; exists q; split; try (now apply obs_list_Obs);
        intros b' q' Ho; apply H; now apply obs_list_Obs.
    + intros [Hn [M1 [M2 [lo' [hi' [[= <- <-] H]]]]]]. repeat split; auto.
      destruct H as [[q [Hin H]]|[q [Hin H]]]; [left|right]; exists q; split; try (now apply obs_list_Obs);
        intros b' q' Ho; apply H; now apply obs_list_Obs.
  - split; [intros [_ H]; discriminate|]. intros [_ [_ [_ [lo [hi [H _]]]]]]. discriminate.
Qed.

(* the safe span rule as coded *)
Lemma safe_span_rule c f lo hi : safe_span c f = Some (lo, hi) <->
  (c_unsafe c = true /\ lo = None /\ hi = None) \/
  (c_unsafe c = false /\ exists r1 r2, f = (Some r1, Some r2) /\
     ((r_rev r1 = true /\ r_rev r2 = false /\
       lo = Some (r_start r2 + c_d2 c) /\ hi = Some (r_end r1 - c_d1 c - 1)) \/
      (r_rev r1 = false /\ r_rev r2 = true /\
       lo = Some (r_start r1 + c_d1 c) /\ hi = Some (r_end r2 - c_d2 c - 1)))).
Proof.
  unfold safe_span. destruct (c_unsafe c).
  - split; [intros [= <- <-]; left; auto|]. intros [[_ [-> ->]]|[H _]]; [reflexivity|discriminate].
  - split.
    + intros H. right. split; auto. destruct f as [[r1|] [r2|]]; try discriminate. exists r1, r2. split; auto.
      destruct (r_rev r1), (r_rev r2); cbn in H; try discriminate; injection H as <- <-; [left|right]; auto.
    + intros [[H _]|[_ [r1 [r2 [-> H]]]]]; [discriminate|].
      destruct H as [[-> [-> [-> ->]]]|[-> [-> [-> ->]]]]; reflexivity.
Qed.

(* XM from the raw entries: one character per aligned base (entry with a query index and a reference position) *)
Lemma rxm_length cs w : length (rxm cs w) =
  length (filter (fun a => match a_q a, a_r a with Some _, Some _ => true | _, _ => false end) (w_ap w)).
Proof. rewrite rxm_abs, xm_length. cbn [abs_read r_pairs]. apply matched_length. Qed.

(* the model's entry points *)
Lemma run_raw v : rwf (dec_rfrags v) = true ->
  run_C14x 6 v = enc_result (map abs_frag (dec_rfrags v)) (calls (dec_cfg v) (dec_ref v) (map abs_frag (dec_rfrags v))).
Proof. intros H. unfold run_C14x. rewrite H. cbn [negb]. now rewrite renc_result_abs, rcalls_abs. Qed.

Lemma run_specb i o : rwf (dec_rfrags i) = true ->
  (run_C14x 2 (VL [i; o]) = VZ 1 <->
   Spec (dec_cfg i) (dec_ref i) (map abs_frag (dec_rfrags i)) (dec_outcome o)).
Proof.
  intros H. unfold run_C14x. cbn [nthV getL nth]. rewrite H. cbn [negb]. rewrite <- specb_iff.
  unfold ofB. destruct (specb _ _ _ _); split; intros E; try reflexivity; discriminate E.
Qed.

(* a fragment of a well-formed raw molecule votes b at pos exactly when it calls b there (declaratively) *)
Lemma rreads_frag fs f w : In f fs -> (fst f = Some w \/ snd f = Some w) -> In w (rreads_of fs).
Proof.
  intros Hf Hw. unfold rreads_of. apply in_flat_map. exists f. split; auto. apply in_or_app.
  destruct Hw as [-> | ->]; [left|right]; now left.
Qed.

Lemma raw_frag_okx fs f : rwf fs = true -> In f fs -> frag_okx (abs_frag f).
Proof.
  intros Hwf Hf r Hr.
  assert (Hw : exists w, (fst f = Some w \/ snd f = Some w) /\ r = abs_read w).
  { destruct f as [o1 o2]. unfold abs_frag in Hr. cbn [fst snd] in Hr. destruct Hr as [E|E].
    - destruct o1 as [w|]; [|discriminate]. injection E as <-. exists w. cbn. auto.
    - destruct o2 as [w|]; [|discriminate]. injection E as <-. exists w. cbn. auto. }
  destruct Hw as [w [Hw ->]]. pose proof (rwf_read _ _ Hwf (rreads_frag _ _ _ Hf Hw)) as Hok.
  unfold rread_ok in Hok. apply andb_true_iff in Hok as [Hok _]. now apply andb_true_iff in Hok.
Qed.

Lemma raw_frag_votes_iff c fs f pos b : rwf fs = true -> In f fs ->
  (In (pos, b) (rfrag_votes c f) <-> FragCall c (abs_frag f) pos b).
Proof.
  intros Hwf Hf. rewrite rfrag_votes_abs, <- fragcallb_spec. apply frag_votes_iff. eapply raw_frag_okx; eauto.
Qed.

(* the positions that carry a letter are exactly the positions with a strict-majority base whose specified letter
   is not '.', i.e. (C14_call_on_reference) a reference C / G with a complete ACGT context read as the base or its
   conversion *)
Lemma called_positions_exact c ref fs cs pos : rwf fs = true -> rcalls c ref fs = OK cs ->
  ((exists k, In k cs /\ k_pos k = pos /\ k_letter k <> cDot) <->
   (exists b, In b bases /\ majority_at c (map abs_frag fs) pos b = true /\
              spec_letter ref pos (expected c) b <> cDot)).
Proof.
  intros Hwf Hc. split.
  - intros [k [Hk [<- Hl]]]. apply (raw_callset_exact c ref fs cs k Hwf Hc) in Hk.
    exists (k_cons k). split; [apply Hk|]. split; [eapply Entry_majority; eauto|].
    destruct Hk as [_ [_ [_ [_ <-]]]]. exact Hl.
  - intros [b [Hb [Hm Hl]]]. eexists. split; [apply (raw_callset_exact c ref fs cs _ Hwf Hc); apply Entry_make; eauto|].
    cbn. auto.
Qed.

(* ------------------------------------------------------------------ a raw molecule for the Examples
   reference TCGACCGGNCG.  R1 forward, 1S4M1I4M from 0: G|TTGA|A|CCGG (C1 read as T);  R2 reverse, 3M2D4M from 2:
   GAC|--|GACG (deletion of C5 G6, N8 read as A).  ex_rdove: R1 forward 4M from 4, R2 reverse 9M from 0 (dove-tail:
   the reverse mate starts before the forward mate) *)
Definition S (z : Z) := Some z.
Definition ex_w1 : rread := mkRR false true [71;84;84;71;65;65;67;67;71;71] [30;30;30;30;30;30;30;30;30;30]
  [mkAp (S 0) None 0; mkAp (S 1) (S 0) 84; mkAp (S 2) (S 1) 99; mkAp (S 3) (S 2) 71; mkAp (S 4) (S 3) 65;
   mkAp (S 5) None 0; mkAp (S 6) (S 4) 67; mkAp (S 7) (S 5) 67; mkAp (S 8) (S 6) 71; mkAp (S 9) (S 7) 71].
Definition ex_w2 : rread := mkRR true true [71;65;67;71;65;67;71] [30;30;30;30;30;30;30]
  [mkAp (S 0) (S 2) 71; mkAp (S 1) (S 3) 65; mkAp (S 2) (S 4) 67; mkAp None (S 5) 67; mkAp None (S 6) 71;
   mkAp (S 3) (S 7) 71; mkAp (S 4) (S 8) 110; mkAp (S 5) (S 9) 67; mkAp (S 6) (S 10) 71].
Definition ex_rfrags : list rfrag := [(Some ex_w1, Some ex_w2)].
Definition ex_w3 : rread := mkRR false true [67;67;71;71] [30;30;30;30]
  [mkAp (S 0) (S 4) 67; mkAp (S 1) (S 5) 67; mkAp (S 2) (S 6) 71; mkAp (S 3) (S 7) 71].
Definition ex_w4 : rread := mkRR true true [84;67;71;65;67;67;71;71;65] [30;30;30;30;30;30;30;30;30]
  [mkAp (S 0) (S 0) 84; mkAp (S 1) (S 1) 67; mkAp (S 2) (S 2) 71; mkAp (S 3) (S 3) 65; mkAp (S 4) (S 4) 67;
   mkAp (S 5) (S 5) 67; mkAp (S 6) (S 6) 71; mkAp (S 7) (S 7) 71; mkAp (S 8) (S 8) 110].
Definition ex_rdove : rfrag := (Some ex_w3, Some ex_w4).

(* which part of each mate is used (dove-safe calling): a vote of a fragment lies between the start of its FORWARD
   mate (+ that mate's dove distance) and the last covered position of its REVERSE mate (- that mate's distance):
   the reverse mate's bases left of the forward mate's start and the forward mate's bases right of the reverse
   mate's end -- the dove-tails -- never vote *)
Lemma raw_vote_in_span c f pos b : c_unsafe c = false -> In (pos, b) (rfrag_votes c f) ->
  exists w1 w2, f = (Some w1, Some w2) /\
    ((w_rev w1 = true /\ w_rev w2 = false /\ ref_start w2 + c_d2 c <= pos <= ref_end w1 - c_d1 c - 1) \/
     (w_rev w1 = false /\ w_rev w2 = true /\ ref_start w1 + c_d1 c <= pos <= ref_end w2 - c_d2 c - 1)).
Proof.
  intros Hu Hv. rewrite rfrag_votes_abs in Hv. apply frag_votes_origin in Hv as [Hs _].
  destruct (supports_safe _ _ _ _ Hu Hs) as [r1 [r2 [lo [hi [Hf [Hor [Hb _]]]]]]].
  destruct f as [[w1|] [w2|]]; unfold abs_frag in Hf; cbn [fst snd option_map] in Hf; try discriminate.
  injection Hf as <- <-. exists w1, w2. split; auto. cbn [abs_read r_rev r_start r_end] in Hor.
  destruct Hor as [[H1 [H2 [-> ->]]]|[H1 [H2 [-> ->]]]]; [left|right]; auto.
Qed.
